#!/bin/sh
# MANIFEST.setup_cmd — builds the framework from files on disk only (offline).
set -e
cd "$(dirname "$0")"
export CARGO_NET_OFFLINE=true
(cd lean && lake build FlexiVerif fvdriver)
cp -f /repo/Cargo.lock harness/Cargo.lock 2>/dev/null || true
(cd harness && cargo build --offline)
echo "setup ok"
