import FlexiVerif.Model.Fmt
import Driver.Codec
/-
  Driver for the `Fmt` model (C20): format functions, JSON escaping, framing, one timestamp.

    REC <level> <m<hex>|_> <f<hex>|_> <line|_> <t<hex>|_> <msg-hex> <kvs>     -> ok
        kvs = `-` or comma list of  k<hex>=s<hex>  /  k<hex>=n<digits>
    FMT <name> <ts-hex> <lf|crlf>                                            -> hex of the framed line
    OUTS <name>:<lf|crlf>:<clock-hex> ...                                     -> hex of every output's framed line, blank-separated (`empty` without outputs)
    ESC <hex>                                                                 -> hex of jsonEscape
    UNESC <hex>                                                               -> none | hex of the decoded text
-/
namespace Drv.FmtDrv
open FV FV.Fmt Drv

structure St where
  cur : Rec := ⟨3, none, none, none, [], none, []⟩

/-- Rust `{:?}` of a `str`, restricted: `\` `"` escaped, `\n` `\r` `\t` as two-character
    escapes, everything else verbatim. -/
def dbgStrChar (c : Char) : List Char :=
  if c = '\\' then ['\\', '\\']
  else if c = '"' then ['\\', '"']
  else if c = '\n' then ['\\', 'n']
  else if c = '\r' then ['\\', 'r']
  else if c = '\t' then ['\\', 't']
  else [c]

/-- the Debug renderer of kv values used by the driver -/
def dbgKV : KV → List Char
  | .str s => '"' :: s.flatMap dbgStrChar ++ ['"']
  | .num n => natToText n

/-- `_` = absent, otherwise one tag letter followed by hex (`-` = empty) -/
def parseOpt (s : String) : Option (Option (List Char)) :=
  if s = "_" then some none else (hexToText (s.drop 1).toString).map some

def parseOptNat (s : String) : Option (Option Nat) :=
  if s = "_" then some none else s.toNat?.map some

def parseKv (s : String) : Option (List Char × KV) :=
  match s.splitOn "=" with
  | [k, v] =>
    if k.startsWith "k" then
      match hexToText (k.drop 1).toString with
      | none => none
      | some kt =>
        if v.startsWith "s" then (hexToText (v.drop 1).toString).map (fun t => (kt, KV.str t))
        else if v.startsWith "n" then ((v.drop 1).toString.toNat?).map (fun n => (kt, KV.num n))
        else none
    else none
  | _ => none

def parseKvs (s : String) : Option (List (List Char × KV)) :=
  if s = "-" then some [] else
  (s.splitOn ",").foldr (fun part acc =>
    match acc, parseKv part with
    | some l, some p => some (p :: l)
    | _, _ => none) (some [])

def parseLe (s : String) : Option (List Char) :=
  if s = "lf" then some ['\n'] else if s = "crlf" then some ['\r', '\n'] else none

def fmtByName (name : String) : Option FmtFn :=
  match name with
  | "default" => some (.noTs (defaultFormat dbgKV))
  | "opt" => some (.withTs (optFormat dbgKV))
  | "detailed" => some (.withTs (detailedFormat dbgKV))
  | "with_thread" => some (.withTs (withThread dbgKV))
  | "colored_default" => some (.noTs (coloredDefaultFormat dbgKV))
  | "colored_opt" => some (.withTs (coloredOptFormat dbgKV))
  | "colored_detailed" => some (.withTs (coloredDetailedFormat dbgKV))
  | "colored_with_thread" => some (.withTs (coloredWithThread dbgKV))
  | "json" => some (.withTs jsonFormat)
  | _ => none

def parseOut (s : String) : Option (Output × List Char) :=
  match s.splitOn ":" with
  | [name, le, clk] =>
    match fmtByName name, parseLe le, hexToText clk with
    | some f, some le, some c => some (⟨f, le⟩, c)
    | _, _, _ => none
  | _ => none

def step (st : St) (toks : List String) : St × String :=
  match toks with
  | ["REC", lvl, m, f, ln, th, msg, kvs] =>
    match lvl.toNat?, parseOpt m, parseOpt f, parseOptNat ln, parseOpt th, hexToText msg,
        parseKvs kvs with
    | some lvl, some m, some f, some ln, some th, some msg, some kvs =>
      ({ st with cur := ⟨lvl, m, f, ln, msg, th, kvs⟩ }, "ok")
    | _, _, _, _, _, _, _ => (st, "bad-op")
  | ["FMT", name, ts, le] =>
    match fmtByName name, hexToText ts, parseLe le with
    | some f, some ts, some le => (st, textToHex (frame le (f.run ts st.cur)))
    | _, _, _ => (st, "bad-op")
  -- the same thread logs a record with a message of `n` letters `B` first, then the current record
  -- (whatever the first one left in a buffer must not show in the second one)
  | ["FMT2", name, ts, le, n] =>
    match fmtByName name, hexToText ts, parseLe le, n.toNat? with
    | some f, some ts, some le, some n =>
      let big : Rec := { st.cur with msg := List.replicate n 'B' }
      (st, textToHex (frame le (f.run ts big) ++ frame le (f.run ts st.cur)))
    | _, _, _, _ => (st, "bad-op")
  -- one log call, several outputs; the clock reading of each output is given (text, rendered as is)
  | "OUTS" :: outs | "OUTSW" :: outs =>     -- OUTSW: the second output is an additional writer (`{Sec,_Default}`)
    let parsed := outs.foldr (fun o acc =>
      match acc, parseOut o with
      | some l, some p => some (p :: l)
      | _, _ => none) (some [])
    match parsed with
    | some l =>
      (st, if l.isEmpty then "empty"
        else " ".intercalate ((renderOutputs id st.cur l).map textToHex))
    | none => (st, "bad-op")
  | ["ESC", s] =>
    match hexToText s with
    | some t => (st, textToHex (jsonEscape t))
    | none => (st, "bad-op")
  | ["UNESC", s] =>
    match hexToText s with
    | some t =>
      (st, match jsonUnescape t with
        | none => "none"
        | some u => textToHex u)
    | none => (st, "bad-op")
  | "NOTE" :: _ => (st, "ok")
  | _ => (st, "bad-op")

end Drv.FmtDrv
