import FlexiVerif.Model.Conc
import Driver.Codec
/-
  Driver for the `Conc` model (C03: concurrent emission of lines, sync and async mode).

    MODE sync|async <poolCapa> <msgCapa> [noclear]
        -> "ok"; selects mode and capacities, restarts the run (the declared threads are kept);
           `noclear` selects the hypothetical variant that does not clear recycled buffers
    THREAD <tid> <line-hex> <line-hex> …
        -> "ok"; declares (replaces) the lines of thread <tid>, in order; a line is the hex of its
           bytes incl. line ending (`-` = empty); missing lower thread ids become empty threads;
           restarts the run
    OBS <tid:seq> <tid:seq> …
        -> "ok" iff the observed global order of emitted lines is one the model accepts
           (`FV.Conc.checkObs`, proved equivalent to `FV.Conc.ObsOk` and to "some complete schedule
           of the model emits exactly this order" in `FV.C03.obs_checker_correct`: only declared
           threads, and per thread exactly 0,1,…,n-1 in order, i.e. complete, nothing lost, nothing
           duplicated); else "reject <reason>", reasons: `unknown-thread <t>`,
           `order thread=<t> expected=<k> got=<k'>`, `surplus thread=<t> seq=<k>`,
           `incomplete thread=<t> seen=<n> expected=<n'>`
    SCHED <act> <act> …      acts: f<t> e<t> s<t> r F C S
        -> hex of `out` after continuing the run with these actions
           (f = fmt, e = emit, s = send, r = recv, F = flushTick, C = cleanupTick, S = shutdownTick)
    ORDER
        -> the emission log of the run as `tid:seq` list (`-` if empty)
    STATE
        -> "complete=<0|1> alive=<0|1> chan=<n> pool=<n> emitted=<n>"
-/
namespace Drv.ConcDrv
open FV FV.Conc Drv

structure St where
  mode : Mode := .sync
  cfg : Cfg := { poolCapa := 0, msgCapa := 0 }
  prog : List (List (List Nat)) := []
  run : Option Conc.St := none

def cur (st : St) : Conc.St := match st.run with | some s => s | none => init st.prog

def parseAct (tok : String) : Option Act :=
  match tok.toList with
  | ['r'] => some .recv
  | ['F'] => some .flushTick
  | ['C'] => some .cleanupTick
  | ['S'] => some .shutdownTick
  | c :: rest =>
    match (String.ofList rest).toNat? with
    | some t =>
      if c = 'f' then some (.fmt t) else if c = 'e' then some (.emit t)
      else if c = 's' then some (.send t) else none
    | none => none
  | [] => none

def parseAll {α β : Type} (f : α → Option β) : List α → Option (List β)
  | [] => some []
  | a :: r =>
    match f a, parseAll f r with
    | some b, some bs => some (b :: bs)
    | _, _ => none

def parseObs (tok : String) : Option (Nat × Nat) :=
  match tok.splitOn ":" with
  | [a, b] =>
    match a.toNat?, b.toNat? with
    | some t, some k => some (t, k)
    | _, _ => none
  | _ => none

def setThread (prog : List (List (List Nat))) (t : Nat) (ls : List (List Nat)) :
    List (List (List Nat)) :=
  (prog ++ List.replicate (t + 1 - prog.length) []).set t ls

def orderStr (ol : List (Nat × Nat × List Nat)) : String :=
  if ol.isEmpty then "-" else
  " ".intercalate (ol.map (fun e => toString e.1 ++ ":" ++ toString e.2.1))

def step (st : St) (toks : List String) : St × String :=
  match toks with
  | "MODE" :: m :: pc :: mc :: opt =>
    match (if m = "sync" then some Mode.sync else if m = "async" then some Mode.async else none),
        pc.toNat?, mc.toNat?,
        (match opt with | [] => some true | ["noclear"] => some false | _ => none) with
    | some m, some pc, some mc, some cl =>
      ({ st with mode := m, cfg := { poolCapa := pc, msgCapa := mc, clear := cl }, run := none }, "ok")
    | _, _, _, _ => (st, "bad-op")
  | "THREAD" :: tid :: ls =>
    match tid.toNat?, parseAll hexToBytes ls with
    | some t, some ls => ({ st with prog := setThread st.prog t ls, run := none }, "ok")
    | _, _ => (st, "bad-op")
  | "OBS" :: obs =>
    match parseAll parseObs obs with
    | some obs =>
      -- `FV.C03.obs_checker_correct`: `none` iff some complete schedule of the model emits this order
      match checkObs st.prog obs with
      | none => (st, "ok")
      | some r => (st, "reject " ++ r)
    | none => (st, "bad-op")
  | "SCHED" :: acts =>
    match parseAll parseAct acts with
    | some acts =>
      let s := runFrom st.mode st.cfg st.prog (cur st) acts
      ({ st with run := some s }, bytesToHex s.out)
    | none => (st, "bad-op")
  | ["ORDER"] => (st, orderStr (cur st).outLines)
  | ["STATE"] =>
    let s := cur st
    (st, "complete=" ++ boolStr (decide (Complete st.prog s)) ++ " alive=" ++ boolStr s.writerAlive
      ++ " chan=" ++ toString s.chan.length ++ " pool=" ++ toString s.pool.length
      ++ " emitted=" ++ toString s.outLines.length)
  | _ => (st, "bad-op")

end Drv.ConcDrv
