import Driver.SpecDrv
import Driver.FlwDrv
import Driver.ConcDrv
import Driver.FmtDrv
import Driver.NamesDrv
import FlexiVerif.Model.Buf
import FlexiVerif.Model.Fmt
import FlexiVerif.Model.ErrChan
import FlexiVerif.Model.Syslog
/-
  Line-protocol driver: reads cases from stdin, answers every line with one line.

    CASE <model> <id...>     -> "CASE <id...>"     (fresh state of that model)
    <op> <args>              -> one canonical answer line
    END                      -> "END"
-/
open Drv

inductive MSt where
  | none
  | spec (s : SpecDrv.St)
  | flw (s : FlwDrv.St)
  | conc (s : ConcDrv.St)
  | fmt (s : FmtDrv.St)
  | names (s : NamesDrv.St)
  | std
  | robust

def stepLine (st : MSt) (line : String) : MSt × String :=
  let toks := (line.trimAscii.toString.splitOn " ").filter (· ≠ "")
  match toks with
  | "CASE" :: model :: rest =>
    let hdr := "CASE " ++ " ".intercalate rest
    match model with
    | "spec" => (.spec {}, hdr)
    | "flw" => (.flw {}, hdr)
    | "conc" => (.conc {}, hdr)
    | "fmt" => (.fmt {}, hdr)
    | "names" => (.names {}, hdr)
    | "std" => (.std, hdr)
    | "robust" => (.robust, hdr)
    | _ => (.none, hdr ++ " unknown-model")
  | ["END"] => (.none, "END")
  | _ =>
    match st with
    | .none => (st, "no-case")
    | .spec s => let (s', out) := SpecDrv.step s toks; (.spec s', out)
    | .flw s => let (s', out) := FlwDrv.step s toks; (.flw s', out)
    | .conc s => let (s', out) := ConcDrv.step s toks; (.conc s', out)
    | .fmt s => let (s', out) := FmtDrv.step s toks; (.fmt s', out)
    | .names s => let (s', out) := NamesDrv.step s toks; (.names s', out)
    -- stdout/stderr as output: the stream must hold exactly the lines, in order (Conc, one thread)
    | .std =>
      match toks with
      | "STDRUN" :: _mode :: _target :: _how :: ls =>
        (st, String.join (ls.map (fun l => if l = "-" then "" else l)) |> fun x => if x.isEmpty then "-" else x)
      -- a log call from within a Display implementation: the inner line first, then the outer one
      -- (Fmt.emit: post-order), then the next record
      | ["RECURSE", _mode, _target] => (st, Drv.textToHex "inner1\nouter x1\nplain\n".toList)
      -- nested `depth` levels deep: the innermost line first
      | ["RECURSE", _mode, _target, depth] =>
        match depth.toNat? with
        | some d =>
          if d = 0 then (st, "bad-op") else
          let mids := (List.range (d - 1)).map (fun j => s!"inner{j + 2} x{j + 1}\n")
          (st, Drv.textToHex (("inner1\n" ++ String.join mids ++ s!"outer x{d}\nplain\n").toList))
        | none => (st, "bad-op")
      -- … with `use_windows_line_ending()`: every line, also the nested ones, ends with CR LF
      | ["RECURSE", _mode, _target, depth, "crlf"] =>
        match depth.toNat? with
        | some d =>
          if d = 0 then (st, "bad-op") else
          let mids := (List.range (d - 1)).map (fun j => s!"inner{j + 2} x{j + 1}\r\n")
          (st, Drv.textToHex (("inner1\r\n" ++ String.join mids ++ s!"outer x{d}\r\nplain\r\n").toList))
        | none => (st, "bad-op")
      -- the in-memory log target as an OUTPUT (C20): the snapshot is the framed records, each the
      -- format output plus one line ending (`Fmt.frame`), whatever the message text ends with
      | "BUFFRAME" :: _max :: msgs =>
        match msgs.mapM Drv.hexToText with
        | some ms => (st, Drv.textToHex (ms.flatMap (fun m => FV.Fmt.frame ['\n'] m)))
        | none => (st, "bad-op")
      -- one record through a real SyslogWriter: the PRI value of the line and the message
      | ["SYSLOGLINE", _hdr, fac, lvl, msg] =>
        match fac.toNat?, lvl.toNat?, Drv.hexToText msg with
        | some fac, some lvl, some m => (st, s!"pri={FV.Syslog.pri fac lvl} msg={Drv.textToHex m}")
        | _, _, _ => (st, "bad-op")
      -- the error channel: the reports of the reference run (an openable error file), routed by the
      -- model to the channel under test
      | ["ERRCHANOBS", ch, evs] =>
        let chan : Option FV.ErrChan.Channel := match ch with
          | "stderr" => some .stdErr | "stdout" => some .stdOut | "file" => some (.file true)
          | "badfile" => some (.file false) | "devnull" => some .devNull | _ => none
        match chan with
        | some chan =>
          let evl := if evs = "-" then [] else evs.splitOn ","
          let r := FV.ErrChan.run chan evl
          let sh (l : List String) : String := if l.isEmpty then "-" else ",".intercalate l
          (st, s!"err={sh r.err}|out={sh r.out}|file={sh r.file}")
        | none => (st, "bad-op")
      -- the in-memory log target (`log_to_buffer`): which records the snapshot holds afterwards
      | ["BUFLOG", max, lens] =>
        match max.toNat?, (lens.splitOn ",").mapM (·.toNat?) with
        | some max, some lens =>
          match FV.Buf.run (FV.Buf.init max) lens 0 with
          | none => (st, "hang")
          | some s =>
            (st, if s.lines.isEmpty then "-" else " ".intercalate (s.lines.map (fun l => s!"{l.1}/{l.2}")))
        | _, _ => (st, "bad-op")
      | _ => (st, "bad-op")
    -- robustness histories (C10): the only prediction is "the call returns"
    | .robust => (st, "ok")

partial def loop (hin : IO.FS.Stream) (hout : IO.FS.Stream) (st : MSt) : IO Unit := do
  let line ← hin.getLine
  if line.isEmpty then return ()
  let (st', out) := stepLine st line
  hout.putStrLn out
  loop hin hout st'

def main : IO Unit := do
  let hin ← IO.getStdin
  let hout ← IO.getStdout
  loop hin hout .none
  hout.flush
