import FlexiVerif.Model.Names
import Driver.Codec
/-
  Driver for the string level of the file names (C14, C16, C10).

    SPEC <basename> <discr|_> <suffix|_> <cur|_> <fmt>
    TSOK <infix-hex> <0|1>         chrono's verdict on a timestamp infix (default: rejected)
    NAMES <name-hex> ...           content of the directory (regular files)
    EXIST <rot 0|1> <num|ts|none> <selector: letters of p c r> <custom|_>   -> ascending list of the selected names
    ACCEPT <num|ts|none> <own|gz|any> <name-hex>                          -> 0|1
    TRYFROM <file-hex>             -> hex of the file name the derived spec denotes
-/
namespace Drv.NamesDrv
open FV FV.Flw FV.Names Drv

structure St where
  spec : Names.Spec := ⟨[], none, none, "rCURRENT".toList, 0⟩
  tsok : List (List Char) := []
  names : List (List Char) := []

def optText (s : String) : Option (Option (List Char)) :=
  if s = "_" then some none else (hexToText (s.drop 1).toString).map some

def parseFilter (s : String) : IFilter :=
  match s with | "num" => .numbrs | "ts" => .timstmps | _ => .none

def step (s : St) (toks : List String) : St × String :=
  let tsOk := fun i => s.tsok.contains i
  match toks with
  | ["SPEC", b, d, sfx, cur, fmt] =>
    match hexToText b, optText d, optText sfx, optText cur, fmt.toNat? with
    | some b, some d, some sfx, some cur, some fmt =>
      ({ s with spec := ⟨b, d, sfx, cur.getD "rCURRENT".toList, fmt⟩ }, "ok")
    | _, _, _, _, _ => (s, "bad-op")
  | ["TSOK", i, b] =>
    match hexToText i with
    | some i => (if b = "1" then { s with tsok := i :: s.tsok } else s, "ok")
    | none => (s, "bad-op")
  | "NAMES" :: ns => ({ s with names := ns.filterMap hexToText }, "ok")
  | ["EXIST", rot, f, sel, custom] =>
    match optText custom with
    | some custom =>
      let selector : Selector := ⟨sel.contains 'p', sel.contains 'r', sel.contains 'c', custom⟩
      let res := existingLogFiles s.spec tsOk (rot = "1") (parseFilter f) selector s.names
      let sorted := sortText res
      (s, if sorted.isEmpty then "-" else " ".intercalate (sorted.map textToHex))
    | none => (s, "bad-op")
  | ["ACCEPT", f, sm, n] =>
    match hexToText n with
    | some n =>
      let osfx := match sm with | "own" => s.spec.suffix | "gz" => some "gz".toList | _ => none
      (s, boolStr ((fixedPart s.spec).isPrefixOf n && acceptFile s.spec tsOk (parseFilter f) osfx n))
    | none => (s, "bad-op")
  | ["TRYFROM", f, _dir] =>
    match hexToText f with
    | some f => (s, textToHex (tryFromName f))
    | none => (s, "bad-op")
  | "NOTE" :: _ => (s, "ok")
  | _ => (s, "bad-op")

end Drv.NamesDrv
