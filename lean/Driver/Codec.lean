/-
  Line-protocol helpers of the driver: hex <-> text/bytes.
  Strings travel as lower-case hex of their UTF-8 bytes; the empty string is `-`.
-/
namespace Drv

def hexVal (c : Char) : Option Nat :=
  if '0' ≤ c ∧ c ≤ '9' then some (c.toNat - 48)
  else if 'a' ≤ c ∧ c ≤ 'f' then some (c.toNat - 87)
  else if 'A' ≤ c ∧ c ≤ 'F' then some (c.toNat - 55) else none

partial def hexToBytesAux : List Char → List Nat → Option (List Nat)
  | [], acc => some acc.reverse
  | a :: b :: r, acc =>
    match hexVal a, hexVal b with
    | some x, some y => hexToBytesAux r ((x * 16 + y) :: acc)
    | _, _ => none
  | _, _ => none

def hexToBytes (s : String) : Option (List Nat) :=
  if s = "-" then some [] else hexToBytesAux s.toList []

def hexDigit (n : Nat) : Char := if n < 10 then Char.ofNat (48 + n) else Char.ofNat (87 + n)

def bytesToHex (b : List Nat) : String :=
  if b.isEmpty then "-" else
  String.ofList (b.foldr (fun x acc => hexDigit (x / 16) :: hexDigit (x % 16) :: acc) [])

def bytesToText? (b : List Nat) : Option (List Char) :=
  let ba : ByteArray := ⟨(b.map (fun n => UInt8.ofNat n)).toArray⟩
  (String.fromUTF8? ba).map String.toList

def hexToText (s : String) : Option (List Char) := (hexToBytes s).bind bytesToText?

def textToHex (t : List Char) : String :=
  bytesToHex ((String.ofList t).toUTF8.toList.map UInt8.toNat)

def boolStr (b : Bool) : String := if b then "1" else "0"

end Drv
