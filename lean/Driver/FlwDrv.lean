import FlexiVerif.Model.Flw
import FlexiVerif.Model.Names
import FlexiVerif.Model.Bg
import FlexiVerif.Model.FlwTrace
import FlexiVerif.Model.WMode
import FlexiVerif.Model.Builder
import FlexiVerif.Model.Fanout
import Driver.Codec
/-
  Driver for the `Flw` model (C01, C06, C07, C08, C09, C11, C14, C15, C16, C18, C19).
-/
namespace Drv.FlwDrv
open FV FV.Flw FV.Names Drv

structure St where
  st : Flw.St := Flw.init ⟨none, false, none, false, true⟩ []
  spec : Names.Spec := ⟨[], none, none, "rCURRENT".toList, 0⟩
  oldSpecs : List Names.Spec := []       -- specs of the archived families
  errSeen : Nat := 0
  linkText : String := "-"               -- rendered symlink target (rendered when it was created)
  asyncMode : Bool := false              -- MODE async:..
  asyncDead : Bool := false              -- the async writer thread has been shut down
  viaFailing : Bool := false             -- VIA addwriter-failing: a failing primary and eight failing additional writers around the file writer
  builderOrder : Nat := 0                -- NOTE builder-order: the order of the builder calls of the logger-driven cases
  mode : Option WMode.WMode := none      -- MODE: the PUBLIC write mode; the buffer capacity the model runs with is derived from it

/-- the `MODE` line names a public `WriteMode` variant -/
def parseMode (m : String) : Option WMode.WMode :=
  match m.splitOn ":" with
  | ["direct"] => some .direct
  | ["capture"] => some .supportCapture
  | ["bufdef"] => some .bufferDontFlush
  | ["buf", c] => c.toNat?.map .bufferDontFlushWith
  | ["bufflushdef"] => some .bufferAndFlush
  | ["bufflush", c] => c.toNat?.map (fun c => .bufferAndFlushWith c 3600000)
  | ["bufflush", c, i] => match c.toNat?, i.toNat? with
    | some c, some i => some (.bufferAndFlushWith c i)
    | _, _ => none
  | ["asyncdef"] => some .async
  | ["async", p, g] => match p.toNat?, g.toNat? with
    | some p, some g => some (.asyncWith p g 0)
    | _, _ => none
  | ["async", p, g, i] => match p.toNat?, g.toNat?, i.toNat? with
    | some p, some g, some i => some (.asyncWith p g i)
    | _, _, _ => none
  | _ => none

/-- once a `MODE` line was read, the capacity of every configuration of the case is the one
    `WriteMode::buffersize` gives for that mode (what the implementation is built with) -/
def St.patch (s : St) (cfg : Cfg) : Cfg :=
  match s.mode with
  | some m => { cfg with cap := m.buffersize }
  | none => cfg

def optNat (s : String) : Option (Option Nat) :=
  if s = "_" then some none else s.toNat?.map some

def parseRot (s : String) : Option (Option RotCfg) :=
  if s = "-" then some none else
  match s.splitOn ";" with
  | [ms, ag, nm, cl] =>
    let age : Option (Option Age) := match ag with
      | "_" => some none | "d" => some (some .day) | "h" => some (some .hour)
      | "m" => some (some .minute) | "s" => some (some .second) | _ => none
    let naming : Option Naming := match nm with
      | "num" => some .numbers | "numd" => some .numbersDirect
      | "ts" => some .timestamps | "tsd" => some .timestampsDirect | _ => none
    let cleanup : Option (Option (Nat × Nat)) :=
      if cl = "never" then some none else
      match cl.splitOn "," with
      | [k, m] => match k.toNat?, m.toNat? with
        | some k, some m => some (some (k, m))
        | _, _ => none
      | _ => none
    match optNat ms, age, naming, cleanup with
    | some ms, some age, some naming, some cleanup => some (some ⟨ms, age, naming, cleanup⟩)
    | _, _, _, _ => none
  | _ => none

def parseCfg (toks : List String) : Option Cfg :=
  match toks with
  | [rot, app, cap, sl, hs] =>
    match parseRot rot, optNat cap with
    | some rot, some cap => some ⟨rot, app = "1", cap, sl = "1", hs = "1"⟩
    | _, _ => none
  | _ => none

def parseFaults (s : String) : Option Faults :=
  if s = "-" then some {} else
  (s.splitOn ";").foldl (fun acc part =>
    match acc, part.splitOn "=" with
    | some f, [k, v] =>
      match v.toNat? with
      | none => none
      | some n =>
        match k with
        | "open" => some { f with openF := some n }
        | "rename" => some { f with renameF := some n }
        | "write" => some { f with writeF := some n }
        | "remove" => some { f with removeF := some n }
        | "gz" => some { f with gzF := some n }
        | "gzcopy" => some { f with gzCopyF := some n }
        | "gzfinish" => some { f with gzFinishF := some n }
        | _ => none
    | _, _ => none) (some {})

def resStr : Res → String
  | .ok => "ok"
  | .err => "err"

def optText (s : String) : Option (Option (List Char)) :=
  if s = "_" then some none else (hexToText (s.drop 1).toString).map some

def renderDir (sp : Names.Spec) (d : Dir) : List (List Char × List Nat) :=
  d.map (fun e => (render sp e.1, e.2.data))

def allFiles (s : St) : List (List Char × List Nat) :=
  let olds := (s.st.archived.zip s.oldSpecs).flatMap (fun p => renderDir p.2 p.1)
  olds ++ renderDir s.spec s.st.dir

def insPair (x : List Char × List Nat) : List (List Char × List Nat) → List (List Char × List Nat)
  | [] => [x]
  | y :: ys => if ltText y.1 x.1 then y :: insPair x ys else x :: y :: ys

def snapStr (s : St) : String :=
  let fs := (allFiles s).foldr insPair []
  if fs.isEmpty then "-" else
  " ".intercalate (fs.map (fun f => textToHex f.1 ++ ":" ++ bytesToHex f.2))

def errKindStr : ErrKind → String
  | .write => "write" | .logfile => "logfile" | .flush => "flush"

def apply (s : St) (op : Op) (now : Nat) (fl : Faults) : St × String :=
  -- date-only format (fmt 4): a name stands for a whole day, so the model is handed the clock
  -- truncated to the day (equal names ⇔ equal stamps); sound for the configurations generated
  -- with it (no age criterion finer than a day, no restarts)
  let now := if s.spec.fmt = 4 then now / 1000000 * 1000000 else now
  let (st', r) := Flw.step s.st op now fl
  let lt := if st'.linkGen ≠ s.st.linkGen then
      (match st'.link with | none => "-" | some n => textToHex (render s.spec n))
    else s.linkText
  ({ s with st := st', linkText := lt }, resStr r)

/-- `VIA addwriter-failing`: the primary writer and eight additional writers fail, the file writer
    (somewhere among the additional ones) returns `fileOk`; the handle reports the first error -/
def fanoutVerdict (fileOk : Bool) : String :=
  if (FV.Fanout.callAll ([false] ++ List.replicate 8 false ++ [fileOk])).ok then "ok" else "err"

def step (s : St) (toks : List String) : St × String :=
  match toks with
  | ["SPEC", b, d, sfx, cur, fmt] =>
    match hexToText b, optText d, optText sfx, optText cur, fmt.toNat? with
    | some b, some d, some sfx, some cur, some fmt =>
      ({ s with spec := ⟨b, d, sfx, cur.getD "rCURRENT".toList, fmt⟩ }, "ok")
    | _, _, _, _, _ => (s, "bad-op")
  | "CFG" :: rest =>
    match parseCfg rest with
    | some cfg => ({ s with st := Flw.init (s.patch cfg) s.st.dir }, "ok")
    | none => (s, "bad-op")
  | ["W", b, now, fl] =>
    match hexToBytes b, now.toNat?, parseFaults fl with
    | some b, some now, some fl => apply s (.write b) now fl
    | _, _, _ => (s, "bad-op")
  | ["WRAW", b, now, fl] =>
    match hexToBytes b, now.toNat?, parseFaults fl with
    | some b, some now, some fl => apply s (.write b) now fl
    | _, _, _ => (s, "bad-op")
  | ["ROT", now, fl] =>
    match now.toNat?, parseFaults fl with
    | some now, some fl => apply s .rotate now fl
    | _, _ => (s, "bad-op")
  | ["VIA", v] => ({ s with viaFailing := v == "addwriter-failing" }, "ok")
  | ["LW", b, now] =>
    match hexToBytes b, now.toNat? with
    | some b, some now =>
      -- async mode: once the writer thread is gone the record is lost (`Send` error, swallowed)
      if s.asyncDead then (s, "ok") else apply s (.write b) now {}
    | _, _ => (s, "bad-op")
  | ["LFLUSH"] | ["LFLUSHC"] => let (s', _) := apply s .flush 0 {}; (s', "ok")   -- LFLUSHC: under concurrent logging
  | ["LSHUT"] | ["LSHUT2"] =>      -- LSHUT2: two overlapping shutdown() calls: one shutdown
    let (s', _) := apply s .shutdown 0 {}
    ({ s' with asyncDead := s.asyncDead || s.asyncMode }, "ok")
  -- LoggerHandle::reopen_output / trigger_rotation: the file writer does its part whatever the other
  -- writers return (`Fanout.callAll` calls everyone); what the CALLER gets is the fan-out's verdict
  | ["LREOPEN", now] =>
    match now.toNat? with
    | some now =>
      let (s', r) := apply s .reopen now {}
      (s', if s.viaFailing then fanoutVerdict (r == "ok") else r)
    | none => (s, "bad-op")
  | ["LROT", now] =>
    match now.toNat? with
    | some now =>
      let (s', r) := apply s .rotate now {}
      (s', if s.viaFailing then fanoutVerdict (r == "ok") else r)
    | none => (s, "bad-op")
  | ["LCLONE"] => (s, "ok")
  -- dropping a clone of the handle shuts the writers down: in the synchronous modes that is a flush
  -- (async mode: the drop of ANY clone sends the shutdown message and joins the writer thread)
  | ["LDROPCLONE"] =>
    let (s', _) := apply s .shutdown 0 {}
    ({ s' with asyncDead := s.asyncDead || s.asyncMode }, "ok")
  | ["LDROPALL"] => let (s', _) := apply s .shutdown 0 {}; (s', "ok")
  -- C11: the write is executed and the names of the points it passes are reported
  | ["WP", b, now] =>
    match hexToBytes b, now.toNat? with
    | some b, some now =>
      let names := (stepT s.st (.write b) now).2.map (·.name)
      let (s', _) := apply s (.write b) now {}
      (s', if names.isEmpty then "-" else ",".intercalate names)
    | _, _ => (s, "bad-op")
  | ["RP", now] =>
    match now.toNat? with
    | some now =>
      let names := (stepT s.st .rotate now).2.map (·.name)
      let (s', _) := apply s .rotate now {}
      (s', if names.isEmpty then "-" else ",".intercalate names)
    | none => (s, "bad-op")
  -- C11: the process is killed at the occ-th hit of a point during this write / forced rotation
  | ["CW", b, now, name, occ] =>
    match hexToBytes b, now.toNat?, occ.toNat? with
    | some b, some now, some occ =>
      match crashDir s.st (.write b) now name occ with
      | some p =>
        let lt := match p.link with | none => "-" | some n => textToHex (render s.spec n)
        ({ s with st := { s.st with dir := p.dir, link := p.link, act := none }, linkText := lt }, "killed")
      | none => let (s', _) := apply s (.write b) now {}; (s', "nopoint")
    | _, _, _ => (s, "bad-op")
  | ["CROT", now, name, occ] =>
    match now.toNat?, occ.toNat? with
    | some now, some occ =>
      match crashDir s.st .rotate now name occ with
      | some p =>
        let lt := match p.link with | none => "-" | some n => textToHex (render s.spec n)
        ({ s with st := { s.st with dir := p.dir, link := p.link, act := none }, linkText := lt }, "killed")
      | none => let (s', _) := apply s .rotate now {}; (s', "nopoint")
    | _, _ => (s, "bad-op")
  -- C11, kill at an arbitrary instant: the process wrote the burst `recs` (all at `now`), the first
  -- `n` log calls returned, then it was killed; `snap` is the directory found afterwards. It must be
  -- one of the directories the model passes through during the write in flight: before it, at one
  -- of its recorded points, or after it. The model continues from the matching one.
  | "KOBS" :: recs :: now :: n :: snap =>
    match (recs.splitOn ",").mapM hexToBytes, now.toNat?, n.toNat? with
    | some recs, some now, some n =>
      let snap := " ".intercalate snap
      let s1 := (recs.take n).foldl (fun s b => (apply s (.write b) now {}).1) s
      let cands : List (Dir × Option FName) :=
        match recs[n]? with
        | none => [(s1.st.dir, s1.st.link)]
        | some b =>
          let (post, pts) := stepT s1.st (.write b) now
          (s1.st.dir, s1.st.link) :: pts.map (fun p => (p.dir, p.link)) ++ [(post.dir, post.link)]
      let snapOf (c : Dir × Option FName) : String := snapStr { s1 with st := { s1.st with dir := c.1 } }
      match cands.find? (fun c => snapOf c == snap) with
      | some c =>
        let lt := match c.2 with | none => "-" | some nm => textToHex (render s1.spec nm)
        ({ s1 with st := { s1.st with dir := c.1, link := c.2, act := none }, linkText := lt }, "match")
      | none => (s1, "nomatch: no directory of the model's write in flight equals the one found; candidates: " ++
          " | ".intercalate (cands.map snapOf))
    | _, _, _ => (s, "bad-op")
  | ["FLUSH"] => apply s .flush 0 {}
  | ["SHUT"] => apply s .shutdown 0 {}
  | "RESTART" :: rest =>
    match parseCfg rest with
    | some cfg => apply s (.restart (s.patch cfg)) 0 {}
    | none => (s, "bad-op")
  | "RESET" :: b :: d :: sfx :: cur :: fmt :: rest =>
    match hexToText b, optText d, optText sfx, optText cur, fmt.toNat?, parseCfg rest with
    | some b, some d, some sfx, some cur, some fmt, some cfg =>
      let spec' : Names.Spec := ⟨b, d, sfx, cur.getD "rCURRENT".toList, fmt⟩
      if spec' == s.spec then
        -- `reset_flw` onto the SAME family: the old state is dropped (its writer flushes) and a fresh
        -- `Initial` state takes over the same directory — a flush followed by a restart of the writer
        let (s1, _) := apply s .flush 0 {}
        apply s1 (.restart (s.patch cfg)) 0 {}
      else
      let (s', r) := apply s (.reset (s.patch cfg)) 0 {}
      ({ s' with oldSpecs := s.oldSpecs ++ [s.spec], spec := spec' }, r)
    | _, _, _, _, _, _ => (s, "bad-op")
  | ["EXTREN"] => apply s .extRename 0 {}
  | ["EXTRM"] => apply s .extRemove 0 {}
  -- an external tool puts a fresh, empty file at the path of the current file (non-direct namings,
  -- and only if none is there)
  | ["EXTTOUCH", now] =>
    match now.toNat?, s.st.act with
    | some now, some a =>
      let direct := match s.st.cfg.rot with
        | some r => r.naming.writesDirect
        | none => false
      if !direct && (s.st.dir.get a.path).isNone then
        ({ s with st := { s.st with dir := s.st.dir.set a.path ⟨[], now⟩ } }, "ok")
      else (s, "ok")
    | some _, none => (s, "ok")
    | none, _ => (s, "bad-op")
  | ["REOPEN", now, fl] =>
    match now.toNat?, parseFaults fl with
    | some now, some fl => apply s .reopen now fl
    | _, _ => (s, "bad-op")
  | ["SNAP"] => (s, snapStr s)
  -- real-clock cases: `AT` only moves the real clock; `STAMPS base` lists the timestamp-named files
  -- as offsets (seconds within the minute of the base stamp), `+k` restart number, `z` compressed
  | ["AT", _] => (s, "ok")
  | ["STAMPS", base] =>
    match base.toNat? with
    | some base =>
      let es : List (Nat × Nat × Bool) := s.st.dir.filterMap (fun e =>
        match e.1.ifx with
        | some (.ts k r) => some (k - base, (match r with | some n => n + 1 | none => 0), e.1.gz)
        | _ => none)
      let le (a b : Nat × Nat × Bool) : Bool :=
        a.1 < b.1 || (a.1 == b.1 && (a.2.1 < b.2.1 || (a.2.1 == b.2.1 && (!a.2.2 || b.2.2))))
      let ins (x : Nat × Nat × Bool) (l : List (Nat × Nat × Bool)) : List (Nat × Nat × Bool) :=
        (l.takeWhile (fun y => le y x)) ++ x :: (l.dropWhile (fun y => le y x))
      let sorted := es.foldr ins []
      let show1 (a : Nat × Nat × Bool) : String :=
        toString a.1 ++ (if a.2.1 = 0 then "" else "+" ++ toString (a.2.1 - 1)) ++ (if a.2.2 then "z" else "")
      (s, if sorted.isEmpty then "-" else ",".intercalate (sorted.map show1))
    | none => (s, "bad-op")
  | ["READ"] => (s, bytesToHex (readAll s.st.dir))
  | ["PARTS"] =>
    let ps := (parts s.st.dir).map (fun p => toString p.length)
    (s, if ps.isEmpty then "-" else ",".intercalate ps)
  | ["LINK"] => (s, s.linkText)
  | ["EXIST", sel, custom] =>
    match optText custom with
    | some custom =>
      -- structural specification: the existing files of the family the selector asks for
      let pick (e : FName × File) : Bool :=
        match e.1.ifx with
        | some i =>
          (sel.contains 'p' && i.rotated && !e.1.gz) ||
          (sel.contains 'c' && i.rotated && e.1.gz) ||
          (sel.contains 'r' && i == .cur && !e.1.gz && s.spec.curToken == "rCURRENT".toList) ||
          (match custom with | some c => i == .cur && !e.1.gz && s.spec.curToken == c | none => false)
        | none => false
      let res : List (List Char) :=
        match s.st.cfg.rot with
        | some _ => (s.st.dir.filter pick).map (fun e => render s.spec e.1)
        | none => [render s.spec ⟨none, false⟩]
      let sorted := sortText res
      (s, if sorted.isEmpty then "-" else " ".intercalate (sorted.map textToHex))
    | none => (s, "bad-op")
  | ["ERRS"] =>
    let new := s.st.errs.drop s.errSeen
    ({ s with errSeen := s.st.errs.length },
      if new.isEmpty then "-" else ",".intercalate (new.map errKindStr))
  -- the cleanup thread's protocol as observed by the harness, replayed on the `Bg` model: the
  -- file operations the model's thread performs at the observed steps, and the rotated files left
  | ["BGOBS", k, m, ev] =>
    match k.toNat?, m.toNat? with
    | some k, some m =>
      let evs := if ev = "-" then [] else ev.toList
      let (sys, ops) := evs.foldl (fun (acc : FV.Bg.Sys × List String) c =>
        let (sy, ops) := acc
        if c = 'R' then (FV.Bg.step k m sy .rotate, ops)
        else if c = 'K' then (FV.Bg.step k m sy .kick, ops)
        else if c = 'T' then (FV.Bg.step k m sy .take, ops)
        else if c = 'X' then
          let o := match sy.cur with
            | [] => "none"
            | .remove id :: _ => s!"r{id}"
            | .compress id :: _ => s!"c{id}"
          (FV.Bg.step k m sy .exec, ops ++ [o])
        else (sy, ops ++ ["bad-event"])) (({} : FV.Bg.Sys), [])
      let fin := (FV.Bg.drainAll k m sys).d.map (fun f => s!"{f.id}{if f.gz then "g" else "p"}")
      (s, (if ops.isEmpty then "-" else ",".intercalate ops) ++ "|" ++ (if fin.isEmpty then "-" else " ".intercalate fin))
    | _, _ => (s, "bad-op")
  | ["NOTE", "builder-order", n] => ({ s with builderOrder := n.toNat?.getD 0 }, "ok")
  -- do the names of the files carry the start time? The harness builds its logger with the calls
  -- of the noted order; with rotation and a non-standard order the FileSpec leaves the start time
  -- undecided, otherwise it suppresses it (`Model/Builder`)
  | ["HASSTART"] =>
    let rot := s.st.cfg.rot.isSome
    let ts : FV.Builder.Ts := if rot && s.builderOrder > 0 then .dflt else .no
    let rotCall : List FV.Builder.Call := if rot then [.rotate] else []
    let oRot : FV.Builder.Call := .oRotate rot
    let calls : List FV.Builder.Call :=
      if s.builderOrder = 1 then rotCall ++ [.fileSpec ts]
      else if s.builderOrder = 2 then [.fileSpec ts, oRot]
      else if s.builderOrder = 3 then [oRot, .fileSpec ts]
      else [.fileSpec ts] ++ rotCall
    (s, if FV.Builder.hasStartTime (FV.Builder.build calls) then "1" else "0")
  | "NOTE" :: _ => (s, "ok")
  | ["MODE", m] =>
    match parseMode m with
    | some wm =>
      let s1 := { s with asyncMode := wm.isAsync, mode := some wm }
      -- (the line precedes the first operation: no writer exists yet)
      ({ s1 with st := { s1.st with cfg := s1.patch s1.st.cfg } }, "ok")
    | none => (s, "bad-op")
  | ["BGCLEAN", _] => (s, "ok")
  | ["FOREIGN", _, _] => (s, "ok")
  | ["PREFILE", _, _] => (s, "ok")
  | _ => (s, "bad-op")

end Drv.FlwDrv
