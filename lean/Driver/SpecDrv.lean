import FlexiVerif.Model.Spec
import Driver.Codec
/-
  Driver for the `Spec` model (C02, C05, C10-route, C12, C13, C17).
-/
namespace Drv.SpecDrv
open FV FV.Spec Drv

structure St where
  writers : List Writer := []
  handle : Handle := ⟨⟨[], none⟩, [], 0, []⟩
  specs : List (String × LogSpec) := []          -- named specs
  sched : List (Nat × LogSpec × Nat) := []       -- C12: pending B steps (thread, spec, gate value)
  c13 : Bool := false                            -- a WRITER line carried a kind
  dupErr : Nat := 0                              -- C13: duplication levels
  dupOut : Nat := 0
  lock : Option Nat := none                      -- C12: lock holder
  waiting : List (Nat × LogSpec) := []
  gateOf : List (Nat × Nat) := []
  stacks : List (Nat × LogSpec) := []            -- C12: specifications saved by pushes of handle clones
  readers : List (Nat × LogSpec) := []           -- C12: pushes waiting for the read lock

def filtersStr (fs : List MF) : String :=
  if fs.isEmpty then "-" else
  ",".intercalate (fs.map (fun m =>
    (match m.name with | none => "_" | some n => "n" ++ textToHex n) ++ ":" ++ toString m.lvl))

def specStr (s : LogSpec) : String :=
  filtersStr s.filters ++ " " ++ (match s.regex with | none => "_" | some r => "r" ++ textToHex r)

def parseFilters (s : String) : Option (List MF) :=
  if s = "-" then some [] else
  (s.splitOn ",").foldr (fun part acc =>
    match acc, part.splitOn ":" with
    | some l, [n, lv] =>
      match lv.toNat? with
      | none => none
      | some lv =>
        if n = "_" then some (⟨none, lv⟩ :: l)
        else match hexToText (n.drop 1).toString with
          | some t => some (⟨some t, lv⟩ :: l)
          | none => none
    | _, _ => none) (some [])

def parseRegex (s : String) : Option (Option (List Char)) :=
  if s = "_" then some none else (hexToText (s.drop 1).toString).map some

def getSpec (st : St) (id : String) : Option LogSpec := (st.specs.find? (·.1 = id)).map (·.2)

/-- one step of the push/pop layer over the lock protocol (`PState.step`) -/
def pstep (st : St) (a : PAct) : St × String :=
  let p : PState := ⟨CState.mk st.handle st.lock st.waiting st.gateOf, st.stacks, st.readers⟩
  let (q, ok, _) := p.step a
  ({ st with handle := q.c.handle, lock := q.c.lock, waiting := q.c.waiting, gateOf := q.c.gateOf,
             stacks := q.stacks, readers := q.readers }, if ok then "ok" else "blocked")

def deliverStr : Deliver → String
  | .writer n => "w" ++ textToHex n
  | .unknown n => "u" ++ textToHex n

def handleStr (h : Handle) : String := "gate=" ++ toString h.gate

def gridStr (st : St) (tgs : List String) : String :=
  String.join (tgs.map (fun tg =>
    match hexToText tg with
    | none => "?."
    | some t =>
      String.join ([1, 2, 3, 4, 5].map (fun lvl =>
        match enabledQuery st.handle.active st.writers lvl t with
        | none => "p" | some b => boolStr b)) ++ "."))

/-- which behaviour of `parse_and_push_temp_spec` the model follows (current code = pushes first) -/
def step (st : St) (toks : List String) : St × String :=
  match toks with
  | "WRITER" :: n :: c :: kind =>
    match hexToText n, c.toNat? with
    | some n, some c =>
      let ws := st.writers ++ [⟨n, c, kind ≠ ["rec"]⟩]
      ({ st with writers := ws, c13 := st.c13 || !kind.isEmpty,
                 handle := { st.handle with ceilings := ws.map (·.ceiling) } }, "ok")
    | _, _ => (st, "bad-op")
  -- define a spec from explicit filters (as returned by the implementation's `module_filters()`)
  | ["SPEC", id, fs, rx] =>
    match parseFilters fs, parseRegex rx with
    | some fs, some rx => ({ st with specs := (id, ⟨fs, rx⟩) :: st.specs }, "ok")
    | _, _ => (st, "bad-op")
  -- define a spec through the builder: filters in insertion order, the model sorts them
  | ["BUILD", id, fs, rx] =>
    match parseFilters fs, parseRegex rx with
    | some fs, some rx =>
      let sorted := levelSort fs
      ({ st with specs := (id, ⟨sorted, rx⟩) :: st.specs }, "ok")
    | _, _ => (st, "bad-op")
  -- parse a string; answer = verdict, filters (exact order), regex
  | ["PARSE", id, s, rxok] =>
    match hexToText s with
    | some t =>
      let r := parse t (rxok = "1")
      ({ st with specs := (id, r.spec) :: st.specs },
        (if r.ok then "ok " else "err ") ++ specStr r.spec)
    | none => (st, "bad-op")
  -- the specification taken from the environment: `env` = "~" (unset) or the hex of RUST_LOG
  | ["ENVPARSE", id, mode, env, given, rxE, rxG] =>
    let envv : Option (Option (List Char)) := if env = "~" then some none else (hexToText env).map some
    match envv, hexToText given with
    | some e, some g =>
      let r := if mode = "env" then envParse e (rxE = "1") else envOrParse e g (rxE = "1") (rxG = "1")
      ({ st with specs := (id, r.spec) :: st.specs },
        (if r.ok then "ok " else "err ") ++ specStr r.spec)
    | _, _ => (st, "bad-op")
  | ["DISPLAY", id] =>
    match getSpec st id with
    | some s => (st, textToHex (display s.filters))
    | none => (st, "bad-op")
  | ["DISPLAYSORTED", id] =>
    match getSpec st id with
    | some s =>
      let parts := (String.ofList (display s.filters)).splitOn ", "
      let sorted := sortText (parts.map String.toList)
      (st, textToHex (String.intercalate ", " (sorted.map String.ofList)).toList)
    | none => (st, "bad-op")
  -- TOML round trip on the structured document
  -- a logger started with a new specfile: the only prediction is "it returns" (C10)
  | ["STARTSPECFILE", id] =>
    match getSpec st id with
    | some _ => (st, "ok")
    | none => (st, "bad-op unknown spec")
  | ["TOML", id] =>
    match getSpec st id with
    | some s =>
      match fromToml (toToml s.filters) with
      | some fs => (st, "ok " ++ filtersStr fs)
      | none => (st, "err")
    | none => (st, "bad-op")
  | ["EN", id, lvl, t] =>
    match getSpec st id, lvl.toNat?, hexToText t with
    | some s, some lvl, some t => (st, boolStr (enabled s.filters lvl t))
    | _, _, _ => (st, "bad-op")
  | ["MAXLEVEL", id] =>
    match getSpec st id with
    | some s => (st, toString (maxLevel s.filters))
    | none => (st, "bad-op")
  -- handle operations
  | ["INIT", id] =>
    match getSpec st id with
    | some s =>
      let h : Handle := ⟨s, [], 0, st.writers.map (·.ceiling)⟩
      ({ st with handle := h.setNew s }, handleStr (h.setNew s))
    | none => (st, "bad-op")
  | ["SET", id] =>
    match getSpec st id with
    | some s => let (h, _) := st.handle.step (.set s); ({ st with handle := h }, "ok " ++ handleStr h)
    | none => (st, "bad-op")
  | ["PUSH", id] =>
    match getSpec st id with
    | some s => let (h, _) := st.handle.step (.push s); ({ st with handle := h }, "ok " ++ handleStr h)
    | none => (st, "bad-op")
  | ["POP"] =>
    let (h, _) := st.handle.step .pop; ({ st with handle := h }, "ok " ++ handleStr h)
  | ["PARSENEW", s, rxok] =>
    match hexToText s with
    | some t =>
      let (h, ok) := st.handle.step (.parseNew (parse t (rxok = "1")))
      ({ st with handle := h }, (if ok then "ok " else "err ") ++ handleStr h)
    | none => (st, "bad-op")
  | ["PARSEPUSH", s, rxok] =>
    match hexToText s with
    | some t =>
      let (h, ok) := st.handle.step (.parsePush (parse t (rxok = "1")))
      ({ st with handle := h }, (if ok then "ok " else "err ") ++ handleStr h)
    | none => (st, "bad-op")
  -- decisions on the active spec of the handle
  | ["HEN", lvl, t] =>
    match lvl.toNat?, hexToText t with
    | some lvl, some t => (st, boolStr (enabled st.handle.active.filters lvl t))
    | _, _ => (st, "bad-op")
  | ["Q", lvl, t] =>
    match lvl.toNat?, hexToText t with
    | some lvl, some t =>
      (st, match enabledQuery st.handle.active st.writers lvl t with
        | none => "panic" | some b => boolStr b)
    | _, _ => (st, "bad-op")
  | "GRID" :: tgs => (st, gridStr st tgs)
  | ["LINEFILTER"] => (st, "ok")     -- a forwarding `LogLineFilter`: no effect on the decisions
  | "NOTE" :: _ => (st, "ok")
  | ["LOG", lvl, t, m, mt, _msg] =>
    match lvl.toNat?, hexToText t, (if m = "_" then some none else (hexToText (m.drop 1).toString).map some) with
    | some lvl, some t, some m =>
      let mbit : Bool :=
        if mt.startsWith "L" then
          let lst := ((mt.drop 1).toString.splitOn ",").filterMap hexToText
          match st.handle.active.regex with
          | none => true
          | some r => lst.contains r
        else mt = "1"
      -- the log facade's macros call `Log::log` only for `level <= log::max_level()`
      let r := if lvl ≤ st.handle.gate then route st.handle.active st.writers lvl t m mbit
               else ⟨false, [], false⟩
      if r.panic then (st, "panic") else
      -- receipts are observable for recording (custom) writers only
      let ws := r.deliveries.filterMap (fun d => match d with
        | .writer n => (match lookup st.writers n with
            | some w => if st.c13 && w.honoursCeiling then none else some ("w" ++ textToHex n)
            | none => none)
        | .unknown _ => none)
      let unk := (r.deliveries.filter (fun d => match d with | .unknown _ => true | _ => false)).length
      let em := (emitted st.writers r lvl).map (fun n => "w" ++ textToHex n)
      (st, "default=" ++ boolStr r.default ++ " to=" ++
        (if ws.isEmpty then "-" else ",".intercalate ws) ++ " unknown=" ++ toString unk ++
        (if st.c13 then " emitted=" ++ (if em.isEmpty then "-" else ",".intercalate em) else ""))
    | _, _, _ => (st, "bad-op")
  | ["DUPINIT", e, o] =>
    match e.toNat?, o.toNat? with
    | some e, some o => ({ st with dupErr := e, dupOut := o }, "ok")
    | _, _ => (st, "bad-op")
  | ["DUPADAPT", which, d] =>
    match d.toNat? with
    | some d => (if which = "err" then { st with dupErr := d } else { st with dupOut := d }, "ok")
    | none => (st, "bad-op")
  | ["DUPLOG", lvl, _msg] =>
    match lvl.toNat? with
    | some lvl => (st, "err=" ++ boolStr (dupDecision st.dupErr lvl) ++ " out=" ++ boolStr (dupDecision st.dupOut lvl))
    | none => (st, "bad-op")
  | ["DUP", d, lvl] =>
    match d.toNat?, lvl.toNat? with
    | some d, some lvl => (st, boolStr (dupDecision d lvl))
    | _, _ => (st, "bad-op")
  -- C12 micro-steps: A = take the write lock and update the spec; B = set_max_level with the
  -- value computed before A
  | ["A", tid, id] =>
    match tid.toNat?, getSpec st id with
    | some tid, some s =>
      let g := gateFor st.handle.ceilings s
      ({ st with handle := { st.handle with active := s }, sched := (tid, s, g) :: st.sched }, "ok")
    | _, _ => (st, "bad-op")
  | ["B", tid] =>
    match tid.toNat? with
    | some tid =>
      match st.sched.find? (·.1 = tid) with
      | some (_, _, g) =>
        ({ st with handle := { st.handle with gate := g }, sched := st.sched.filter (·.1 ≠ tid) }, "ok")
      | none => (st, "bad-op")
    | none => (st, "bad-op")
  -- the call has been entered but has not asked for the lock yet: nothing shared is touched
  | ["CENTER", _tid, _id] => (st, "ok")
  | ["CSTART", tid, id] | ["CGO", tid, id] =>      -- CGO: a call parked by CENTER goes on to the lock
    match tid.toNat?, getSpec st id with
    | some tid, some s =>
      let (c, ok) := (CState.mk st.handle st.lock st.waiting st.gateOf).step (.start tid s)
      ({ st with handle := c.handle, lock := c.lock, waiting := c.waiting, gateOf := c.gateOf },
        if ok then "ok" else "blocked")
    | _, _ => (st, "bad-op")
  | ["CFINISH", tid] =>
    match tid.toNat? with
    | some tid => pstep st (.finish tid)
    | none => (st, "bad-op")
  -- push_temp_spec / pop_temp_spec of the handle clone `tid` (every clone has its own stack)
  | ["CPUSH", tid, id] =>
    match tid.toNat?, getSpec st id with
    | some tid, some s => pstep st (.push tid s)
    | _, _ => (st, "bad-op")
  | ["CPOP", tid] =>
    match tid.toNat? with
    | some tid => pstep st (.pop tid)
    | none => (st, "bad-op")
  -- free-running races: which specification wins is not predicted; the harness judges consistency
  | "CRACE" :: _ => (st, "ok")
  | "CQUIET" :: _ => (st, handleStr st.handle)
  | ["HANDLE"] => (st, handleStr st.handle)
  | _ => (st, "bad-op")

end Drv.SpecDrv
