/-
  C11, cleanup part, reachable states — the cleanup pass a rotation starts runs on a directory
  that satisfies the premise of `Props/C11Cleanup.lean::cleanupT_crash_safe`.

  The directory the pass starts on is the directory at the point `rot.mounted`. It is described
  here WITHOUT the trace: it is the directory the same rotation ends with when its cleanup is
  switched off (`noCleanup r`, `mountedSt`), because nothing before the pass looks at
  `r.cleanup`.
  * `mountNextT_split`: the points of a rotation are the points of the rotation without cleanup
    followed by the points of the pass on `mountedSt`; the former end with `rot.mounted`
    (`mountNextT_mounted_last`); the directory after the rotation is the pass on `mountedSt`
    (`mountNext_dir_split`).
  * `mounted_premises`: in a state of the C07 invariant (`FlwC.CInv`, clock not behind the
    writer's stamp) `mountedSt` satisfies `IfxDistinct`, `RotKeysDistinct`, `GzOlder` — the
    invariant does not depend on `r.cleanup` either (`CInv.noCleanup`), so
    `FlwBr.mountNext_preCleanup` applies to the rotation without cleanup.
  * `state_before`: the state before the last operation of a plain history satisfies the
    invariant with a stamp bound `≤` the clock reading of that operation.
  * `kept_of_mem_cleanup`: every rotated file of the directory a completed pass returns is one of
    the first `kk + m` entries of the listing the pass started on (same infix, same data).
-/
import FlexiVerif.Lemmas.FlwCrashCleanup
import FlexiVerif.Lemmas.FlwBgBridge
namespace FV.FlwRC
open FV.Flw
open FV.FlwA (ents isRot)
open FV.FlwC (CInv Inv CfgC E kkOf cl T)
open FV.FlwBr (RotKeysDistinct GzOlder tag)
open FV.FlwL (IfxDistinct)

/-! ### the rotation without its cleanup pass -/

/-- the rotation configuration with the cleanup switched off -/
def noCleanup (r : RotCfg) : RotCfg := { r with cleanup := none }

theorem cleanup_noCleanup (now : Nat) (cfg : Cfg) (r : RotCfg) (fl : Faults) (d : Dir) :
    cleanup now cfg (noCleanup r) fl d = (d, false) := rfl

theorem cleanupT_noCleanup (now : Nat) (cfg : Cfg) (r : RotCfg) (link : Option FName) (d : Dir) :
    cleanupT now cfg (noCleanup r) link d = (d, []) := rfl

theorem rotationNecessary_noCleanup (r : RotCfg) (a : Active) (now : Nat) :
    rotationNecessary (noCleanup r) a now = rotationNecessary r a now := rfl

theorem noCleanup_naming (r : RotCfg) : (noCleanup r).naming = r.naming := rfl

/-- **the state at the point `rot.mounted`** of the rotation `mountNext s a r force now`: the
    state the same rotation ends with when the cleanup is switched off -/
def mountedSt (s : St) (a : Active) (r : RotCfg) (force : Bool) (now : Nat) : St :=
  (mountNext s a (noCleanup r) force now noFaults).1

/-! ### the trace of a rotation: rotation without cleanup, then the pass -/

theorem mountNextCoreT_split (s : St) (a : Active) (r : RotCfg) (force : Bool) (now : Nat)
    (h : (force || rotationNecessary r a now) = true) :
    (mountNextCoreT s a r force now).2.2 =
      (mountNextCoreT s a (noCleanup r) force now).2.2 ++
        (cleanupT now (mountNextCoreT s a (noCleanup r) force now).1.cfg r
          (mountNextCoreT s a (noCleanup r) force now).1.link
          (mountNextCoreT s a (noCleanup r) force now).1.dir).2 := by
  unfold mountNextCoreT
  simp only [rotationNecessary_noCleanup, noCleanup_naming, h, Bool.not_true, Bool.false_eq_true,
    if_false]
  cases hn : r.naming <;> simp only [cleanupT_noCleanup, List.append_nil]

/-- the state after the rotation is the state at `rot.mounted` with the directory the pass
    returns; the writer is the same -/
theorem mountNextCoreT_state_split (s : St) (a : Active) (r : RotCfg) (force : Bool) (now : Nat)
    (h : (force || rotationNecessary r a now) = true) :
    (mountNextCoreT s a r force now).1 =
      { (mountNextCoreT s a (noCleanup r) force now).1 with
        dir := (cleanupT now (mountNextCoreT s a (noCleanup r) force now).1.cfg r
          (mountNextCoreT s a (noCleanup r) force now).1.link
          (mountNextCoreT s a (noCleanup r) force now).1.dir).1 } ∧
    (mountNextCoreT s a r force now).2.1 = (mountNextCoreT s a (noCleanup r) force now).2.1 := by
  unfold mountNextCoreT
  simp only [rotationNecessary_noCleanup, noCleanup_naming, h, Bool.not_true, Bool.false_eq_true,
    if_false]
  cases hn : r.naming <;> simp only [cleanupT_noCleanup, and_self]

theorem split_last (l : List Pt) (p q : Pt) : l ++ [p, q] = (l ++ [p]) ++ [q] := by simp

/-- the last point of the rotation without cleanup is `rot.mounted`, with the final state -/
theorem mountNextCoreT_mounted_last (s : St) (a : Active) (r : RotCfg) (force : Bool) (now : Nat)
    (h : (force || rotationNecessary r a now) = true) :
    ∃ pre, (mountNextCoreT s a (noCleanup r) force now).2.2 =
      pre ++ [pt "rot.mounted" (mountNextCoreT s a (noCleanup r) force now).1] := by
  unfold mountNextCoreT
  simp only [rotationNecessary_noCleanup, noCleanup_naming, h, Bool.not_true, Bool.false_eq_true,
    if_false]
  cases hn : r.naming <;> simp only [cleanupT_noCleanup, List.append_nil] <;>
    exact ⟨_, split_last _ _ _⟩

theorem mountedSt_eq (s : St) (a : Active) (r : RotCfg) (force : Bool) (now : Nat) :
    (mountNextT s a (noCleanup r) force now).1 = mountedSt s a r force now := by
  unfold mountedSt
  rw [FV.FlwA.mountNextT_fst]

/-- **The points of a rotation are the points of the rotation without cleanup, followed by the
    points of the cleanup pass on the state at `rot.mounted`.** -/
theorem mountNextT_split (s : St) (a : Active) (r : RotCfg) (force : Bool) (now : Nat)
    (h : (force || rotationNecessary r a now) = true) :
    (mountNextT s a r force now).2.2 =
      (mountNextT s a (noCleanup r) force now).2.2 ++
        (cleanupT now (mountedSt s a r force now).cfg r (mountedSt s a r force now).link
          (mountedSt s a r force now).dir).2 := by
  rw [← mountedSt_eq, FV.FlwA.mountNextT_due s a r force now h,
    FV.FlwA.mountNextT_due s a (noCleanup r) force now h]
  exact mountNextCoreT_split _ _ r true now rfl

/-- the points before the pass end with `rot.mounted`, which records the directory (and the
    link) the pass starts on -/
theorem mountNextT_mounted_last (s : St) (a : Active) (r : RotCfg) (force : Bool) (now : Nat)
    (h : (force || rotationNecessary r a now) = true) :
    ∃ pre, (mountNextT s a (noCleanup r) force now).2.2 =
      pre ++ [pt "rot.mounted" (mountedSt s a r force now)] := by
  rw [← mountedSt_eq, FV.FlwA.mountNextT_due s a (noCleanup r) force now h]
  exact mountNextCoreT_mounted_last _ _ r true now rfl

/-- the directory after the rotation is the directory the pass on `mountedSt` returns -/
theorem mountNext_dir_split (s : St) (a : Active) (r : RotCfg) (force : Bool) (now : Nat)
    (h : (force || rotationNecessary r a now) = true) :
    (mountNext s a r force now noFaults).1.dir =
      (cleanup now (mountedSt s a r force now).cfg r noFaults (mountedSt s a r force now).dir).1 := by
  rw [FV.FlwA.mountNextT_fst, FV.FlwA.cleanupT_fst now _ r (mountedSt s a r force now).link,
    ← mountedSt_eq, FV.FlwA.mountNextT_due s a r force now h,
    FV.FlwA.mountNextT_due s a (noCleanup r) force now h,
    (mountNextCoreT_state_split _ _ r true now rfl).1]

/-! ### the invariant does not look at `r.cleanup` -/

theorem CInv.noCleanup {cfg : Cfg} {r : RotCfg} {k m : Nat} {d : Dir} {act : Active} {a : Abs}
    (hi : CInv cfg r k m d act a) : CInv cfg (noCleanup r) k m d act a :=
  ⟨hi.started, hi.dir, hi.unbuf, hi.direct, hi.size, hi.created⟩

/-- **The directory at `rot.mounted` of a due rotation in a state of the invariant** satisfies
    the premise of `cleanupT_crash_safe` (and the two other premises of the bridge); its
    configuration is the configuration of the run; its rotated files are those of the state plus
    one newest plain file. -/
theorem mounted_premises {cfg : Cfg} {r : RotCfg} {k m : Nat} (s : St) (act : Active) (a : Abs)
    (force : Bool) (now : Nat) (hcfg : s.cfg = cfg) (hi : CInv cfg r k m s.dir act a)
    (hst : act.stamp ≤ now) (h : (force || rotationNecessary r act now) = true) :
    (mountedSt s act r force now).cfg = cfg ∧
    IfxDistinct (mountedSt s act r force now).dir ∧
    RotKeysDistinct (mountedSt s act r force now).dir ∧
    GzOlder (mountedSt s act r force now).dir ∧
    ∃ i, (rotatedAsc (mountedSt s act r force now).dir).map tag =
      (rotatedAsc s.dir).map tag ++ [(some i, false)] := by
  obtain ⟨s0, act0, ti, hm, hc0, h1, h2, h3, h4⟩ :=
    FV.FlwBr.mountNext_preCleanup (r := noCleanup r) s act a force now hcfg (CInv.noCleanup hi)
      hst h
  have hd : (mountedSt s act r force now).dir = FV.FlwC.preCleanupDir s0 act0 ti now := by
    unfold mountedSt
    rw [hm]
    rfl
  have hc : (mountedSt s act r force now).cfg = cfg := by
    unfold mountedSt
    rw [hm]
    show (openFile s0 ⟨some ti, false⟩ now noFaults 0).1.cfg = cfg
    rw [FV.FlwC.openFile_cfg, hc0]
  rw [hd]
  exact ⟨hc, h1, h2, h3, h4⟩

/-! ### the state before the last operation of a plain history -/

theorem monotone_prefix {a b : List (Op × Nat × Faults)} (h : Monotone (a ++ b)) : Monotone a := by
  unfold Monotone at *
  rw [List.filter_append, List.map_append] at h
  exact (List.pairwise_append.1 h).1

/-- `FlwC.run_inv` with an upper bound of the clock readings -/
theorem run_inv_bound {cfg : Cfg} {r : RotCfg} {k m : Nat} (hC : CfgC cfg r k m) (B : Nat) :
    ∀ (ops : List (Op × Nat × Faults)) (t : Nat) (s : St) (a : Abs), Inv cfg r k m t s a →
      (∀ o ∈ ops, o.1.plain = true ∧ o.2.2 = noFaults) →
      (∀ o ∈ ops, o.1.usesClock = true → t ≤ o.2.1) → Monotone ops →
      t ≤ B → (∀ o ∈ ops, o.1.usesClock = true → o.2.1 ≤ B) →
      ∃ t' a', t' ≤ B ∧ Inv cfg r k m t' (runOps s ops) a' := by
  intro ops
  induction ops with
  | nil => intro t s a hI _ _ _ hb _; exact ⟨t, a, hb, hI⟩
  | cons o ops ih =>
    intro t s a hI hp hlo hm hb hB
    obtain ⟨hm1, hm2⟩ := FV.FlwB.monotone_tail hm
    obtain ⟨hp1, hp2⟩ := hp o (by simp)
    have hstep := FV.FlwC.step_inv hC s a t o.1 o.2.1 hI hp1 (hlo o (by simp))
    have e1 : runOps s (o :: ops) = runOps (step s o.1 o.2.1 noFaults).1 ops := by
      rw [← hp2]; rfl
    rw [e1]
    refine ih _ _ _ hstep (fun o' ho' => hp o' (by simp [ho'])) ?_ hm1 ?_
      (fun o' ho' => hB o' (by simp [ho']))
    · intro o' ho' hu'
      by_cases hu : o.1.usesClock = true
      · rw [if_pos hu]; exact hm2 hu o' ho' hu'
      · rw [if_neg hu]; exact hlo o' (by simp [ho']) hu'
    · by_cases hu : o.1.usesClock = true
      · rw [if_pos hu]; exact hB o (by simp) hu
      · rw [if_neg hu]; exact hb

/-- **The state before the last operation of a plain history** (an operation that reads the
    clock) satisfies the invariant with a stamp bound that is `≤` the clock reading of that
    operation: the hypothesis `act.stamp ≤ now` of the rotation lemmas follows from the
    monotonicity of the clock. -/
theorem state_before {cfg : Cfg} {r : RotCfg} {k m : Nat} (hC : CfgC cfg r k m)
    (ops : List (Op × Nat × Faults)) (o : Op × Nat × Faults) (hp : PlainHistory (ops ++ [o]))
    (hu : o.1.usesClock = true) :
    ∃ t a, t ≤ o.2.1 ∧ Inv cfg r k m t (runOps (init cfg []) ops) a := by
  obtain ⟨hpl, hmono⟩ := hp
  have hpl' : ∀ o' ∈ ops, o'.1.plain = true ∧ o'.2.2 = noFaults :=
    fun o' ho' => hpl o' (by simp [ho'])
  have hbound : ∀ o' ∈ ops, o'.1.usesClock = true → o'.2.1 ≤ o.2.1 := by
    intro o' ho' hu'
    unfold Monotone at hmono
    rw [List.filter_append, List.map_append, List.pairwise_append] at hmono
    refine hmono.2.2 _ (List.mem_map.2 ⟨o', List.mem_filter.2 ⟨ho', by simpa using hu'⟩, rfl⟩) _ ?_
    simp [hu]
  exact run_inv_bound hC o.2.1 ops 0 _ _ (FV.FlwC.inv_init cfg r k m) hpl'
    (fun _ _ _ => Nat.zero_le _) (monotone_prefix hmono) (Nat.zero_le _) hbound

/-- … for an active writer: the invariant of the directory and `act.stamp ≤ now` -/
theorem state_before_active {cfg : Cfg} {r : RotCfg} {k m : Nat} (hC : CfgC cfg r k m)
    (ops : List (Op × Nat × Faults)) (op : Op) (now : Nat)
    (hp : PlainHistory (ops ++ [(op, now, noFaults)])) (hu : op.usesClock = true) (act : Active)
    (hact : (runOps (init cfg []) ops).act = some act) :
    (runOps (init cfg []) ops).cfg = cfg ∧ act.stamp ≤ now ∧
    ∃ a, CInv cfg r k m (runOps (init cfg []) ops).dir act a := by
  obtain ⟨t, a, ht, hcfg, hi⟩ := state_before hC ops (op, now, noFaults) hp hu
  rw [hact] at hi
  exact ⟨hcfg, Nat.le_trans hi.2 ht, a, hi.1⟩

/-! ### what a completed pass keeps -/

/-- an entry of `T … N` (keep `k`, compress `m`, drop the rest) comes from one of the first
    `k + m` entries of `N`, with the same infix and the same data -/
theorem mem_T_idx {hs : Bool} {now k m : Nat} {N : List E} {e : E} (h : e ∈ T hs now k m N) :
    ∃ j e0, N[j]? = some e0 ∧ j < k + m ∧ e0.1.ifx = e.1.ifx ∧ e0.2.data = e.2.data := by
  unfold T at h
  rcases List.mem_append.1 h with h | h
  · obtain ⟨j, hj, rfl⟩ := List.mem_take_iff_getElem.1 h
    refine ⟨j, _, List.getElem?_eq_getElem (by omega), by omega, rfl, rfl⟩
  · obtain ⟨e0, he0, rfl⟩ := List.mem_map.1 h
    obtain ⟨j, hj, rfl⟩ := List.mem_take_iff_getElem.1 he0
    rw [List.length_drop] at hj
    refine ⟨k + j, _, ?_, by omega, (FV.FlwC.gzf_ifx hs now _).symm, (FV.FlwC.gzf_data hs now _).symm⟩
    rw [List.getElem_drop]
    exact List.getElem?_eq_getElem (by omega)

/-- **Every rotated file of the directory a completed pass returns is one of the first
    `kk + m` entries of the listing the pass started on** (same infix, same data; it may have
    been compressed in between). -/
theorem kept_of_mem_cleanup (now : Nat) (cfg : Cfg) (r : RotCfg) (k m : Nat)
    (hc : r.cleanup = some (k, m)) (d : Dir) (hd : IfxDistinct d) (hk : RotKeysDistinct d)
    (hsep : GzOlder d) (n : FName) (f : File) (i : Infix)
    (hg : (cleanup now cfg r noFaults d).1.get n = some f) (hi : n.ifx = some i)
    (hr : i.rotated = true) :
    ∃ j n0 f0, (listing d)[j]? = some (n0, f0) ∧ j < kkOf r k + m ∧ n0.ifx = some i ∧
      f0.data = f.data := by
  obtain ⟨-, -, -, hperm⟩ := FV.FlwBr.cleanup_rotatedAsc now cfg r k m hc d hd hk hsep
  have hmem : (n, f) ∈ FV.FlwBr.others d ++ cl cfg.hasSuffix now (kkOf r k) m (listing d) 0 :=
    hperm.subset (FV.FlwA.mem_of_get _ n f hg)
  rcases List.mem_append.1 hmem with h | h
  · have := FV.FlwBr.others_not_rot d _ h
    simp [isRot, hi, hr] at this
  · rw [FV.FlwC.cl_zero] at h
    obtain ⟨j, e0, hj, hlt, h1, h2⟩ := mem_T_idx h
    exact ⟨j, e0.1, e0.2, hj, hlt, by rw [h1]; exact hi, h2⟩

end FV.FlwRC
