/-
  Helpers for the bridge between the concrete cleanup (`Model/Flw.lean`: `cleanup` on a `Dir`)
  and the abstract one of the background-thread theorems (`Model/Bg.lean`: `Bg.pass` on the
  chronological list of rotated files), `Props/C07BgBridge.lean`.

  * `sortDesc_sorted`, `listing_sorted`: the listing of a directory whose rotated files have
    pairwise different keys and whose compressed files are older than the plain ones is "all
    rotated files, newest first" (`SortedD`);
  * `cleanup_rotatedAsc`: without faults `cleanup` never aborts, `rotatedAsc` before the pass is
    the reversed listing, after the pass the reversed `cl … (listing d) 0`;
  * `filterMap_zipIdx_rank`: "position `p` of `n` entries has rank `n - 1 - p`" is "position in
    the reversed list";
  * `passListS`: the abstract pass on a list of `(payload, compressed?)` pairs, oldest first;
    `cl_reverse_map`: the concrete pass is `passListS` on the `(infix, compressed?)` pairs;
  * `ofFlags`, `pass_ofFlags`, `passListS_flags`: `Bg.pass` on the list numbered by position
    leaves the same flags as `passListS true`;
  * `premises_of_perm`: the three premises from a description "non-rotated entries + rotated
    files sorted newest first, plain before compressed";
  * `mountNextCore_shape`, `preCleanup_premises`, `mountNext_preCleanup`: the directory a due
    rotation hands to `cleanup` in a state of the C07 invariant satisfies the premises, and its
    rotated files are those of the state plus one newest plain file.
-/
import FlexiVerif.Lemmas.FlwCleanup
import FlexiVerif.Lemmas.FlwCleanupLossless
import FlexiVerif.Lemmas.FlwCleanupInv
import FlexiVerif.Lemmas.Bg
namespace FV.FlwBr
open FV.Flw FV.FlwC
open FV.FlwA (ents isRot curN)
open FV.FlwB (nkey keyLt_irrefl keyLt_trans keyLt_asymm)

/-! ### the descending insertion sort sorts -/

theorem keyLt_total {a b : Nat × Nat} (h : a ≠ b) : keyLt a b = true ∨ keyLt b a = true := by
  obtain ⟨a1, a2⟩ := a
  obtain ⟨b1, b2⟩ := b
  have hne : ¬ (a1 = b1 ∧ a2 = b2) := fun hh => h (by rw [hh.1, hh.2])
  simp only [keyLt, Bool.or_eq_true, Bool.and_eq_true, decide_eq_true_eq]
  omega

theorem rotN_of_isRot {e : E} (h : isRot e = true) : RotN e.1 := by
  unfold isRot at h
  split at h
  · rename_i i hi
    exact ⟨i, hi, h⟩
  · cases h

theorem mem_insDesc (x : E) (L : List E) (e : E) : e ∈ insDesc x L ↔ e = x ∨ e ∈ L := by
  rw [(FV.FlwL.insDesc_perm x L).mem_iff, List.mem_cons]

theorem insDesc_sorted (x : E) (hx : RotN x.1) (L : List E) (hL : SortedD L)
    (hne : ∀ y ∈ L, nkey y.1 ≠ nkey x.1) : SortedD (insDesc x L) := by
  induction L with
  | nil =>
    refine ⟨List.pairwise_singleton _ _, ?_⟩
    intro e he
    rw [show insDesc x [] = [x] from rfl, List.mem_singleton] at he
    rw [he]
    exact hx
  | cons y ys ih =>
    obtain ⟨i, hi, hri⟩ := hx
    obtain ⟨j, hj, hrj⟩ := hL.2 y (List.mem_cons_self ..)
    have hpw := hL.1
    rw [List.pairwise_cons] at hpw
    have hLt : SortedD ys := ⟨hpw.2, fun e he => hL.2 e (List.mem_cons_of_mem _ he)⟩
    have ih' := ih hLt (fun z hz => hne z (List.mem_cons_of_mem _ hz))
    have hkx : nkey x.1 = i.key := by simp only [nkey, hi]
    have hky : nkey y.1 = j.key := by simp only [nkey, hj]
    have hstep : insDesc x (y :: ys) =
        if keyLt j.key i.key then x :: y :: ys else y :: insDesc x ys := by
      rw [insDesc]
      simp only [hi, hj]
    rw [hstep]
    by_cases hlt : keyLt j.key i.key = true
    · rw [if_pos hlt]
      refine ⟨List.pairwise_cons.2 ⟨?_, hL.1⟩, ?_⟩
      · intro z hz
        show keyLt (nkey z.1) (nkey x.1) = true
        rcases List.mem_cons.1 hz with rfl | hz'
        · rw [hkx, hky]; exact hlt
        · exact keyLt_trans (hpw.1 z hz') (by rw [hkx, hky]; exact hlt)
      · intro e he
        rcases List.mem_cons.1 he with rfl | he'
        · exact ⟨i, hi, hri⟩
        · exact hL.2 e he'
    · rw [if_neg hlt]
      have hxy : keyLt i.key j.key = true := by
        have hk : i.key ≠ j.key := by
          rw [← hkx, ← hky]
          exact (hne y (List.mem_cons_self ..)).symm
        rcases keyLt_total hk with h | h
        · exact h
        · exact absurd h hlt
      refine ⟨List.pairwise_cons.2 ⟨?_, ih'.1⟩, ?_⟩
      · intro z hz
        show keyLt (nkey z.1) (nkey y.1) = true
        rcases (mem_insDesc x ys z).1 hz with rfl | hz'
        · rw [hkx, hky]; exact hxy
        · exact hpw.1 z hz'
      · intro e he
        rcases List.mem_cons.1 he with rfl | he'
        · exact ⟨j, hj, hrj⟩
        · exact ih'.2 e he'

/-- the descending insertion sort of rotated-style entries with pairwise different keys is
    sorted -/
theorem sortDesc_sorted (l : List E) (hrot : ∀ e ∈ l, RotN e.1)
    (hk : l.Pairwise (fun x y => nkey x.1 ≠ nkey y.1)) : SortedD (sortDesc l) := by
  induction l with
  | nil => exact ⟨List.Pairwise.nil, fun e he => by cases he⟩
  | cons x xs ih =>
    rw [List.pairwise_cons] at hk
    rw [FV.FlwL.sortDesc_cons]
    apply insDesc_sorted x (hrot x (List.mem_cons_self ..)) _
      (ih (fun e he => hrot e (List.mem_cons_of_mem _ he)) hk.2)
    intro y hy
    exact (hk.1 y ((FV.FlwL.mem_sortDesc xs y).1 hy)).symm

/-! ### the two premises on the directory -/

/-- no two rotated files (plain or compressed) of the directory have the same key: their names
    sort strictly. (`IfxDistinct` alone does not give this: `r00005` and a timestamp infix with
    stamp `5` are different infixes with the same key.) -/
def RotKeysDistinct (d : Dir) : Prop :=
  List.Pairwise (fun x y : E => isRot x = true → isRot y = true → nkey x.1 ≠ nkey y.1) d

instance (d : Dir) : Decidable (RotKeysDistinct d) :=
  List.instDecidablePairwise
    (R := fun x y : E => isRot x = true → isRot y = true → nkey x.1 ≠ nkey y.1) d

/-- every compressed rotated file is older (smaller key) than every plain rotated file -/
def GzOlder (d : Dir) : Prop :=
  ∀ e1 ∈ ents d, ∀ e2 ∈ ents d, isRot e1 = true → e1.1.gz = true → isRot e2 = true →
    e2.1.gz = false → keyLt (nkey e1.1) (nkey e2.1) = true

instance (d : Dir) : Decidable (GzOlder d) := by
  unfold GzOlder
  exact inferInstance

/-! ### the listing is "all rotated files, newest first" -/

theorem mem_selF (gz : Bool) (d : List E) (e : E) :
    e ∈ sortDesc (List.filter (fun e : E => decide (e.1.gz = gz) && isRot e) d) ↔
      e ∈ d ∧ e.1.gz = gz ∧ isRot e = true := by
  rw [FV.FlwL.mem_sortDesc, List.mem_filter, Bool.and_eq_true, decide_eq_true_eq]

theorem listing_sorted (d : List E) (hk : RotKeysDistinct d) (hsep : GzOlder d) :
    SortedD (listing d) := by
  rw [FV.FlwC.listing_eq]
  have hsel : ∀ gz : Bool,
      SortedD (sortDesc (List.filter (fun e : E => decide (e.1.gz = gz) && isRot e) d)) := by
    intro gz
    have hmem : ∀ e ∈ List.filter (fun e : E => decide (e.1.gz = gz) && isRot e) d,
        isRot e = true := by
      intro e he
      rw [List.mem_filter, Bool.and_eq_true] at he
      exact he.2.2
    apply sortDesc_sorted
    · intro e he
      exact rotN_of_isRot (hmem e he)
    · exact (List.Pairwise.sublist List.filter_sublist hk).imp_of_mem
        (fun ha hb h => h (hmem _ ha) (hmem _ hb))
  refine ⟨List.pairwise_append.2 ⟨(hsel false).1, (hsel true).1, ?_⟩, ?_⟩
  · intro a ha b hb
    obtain ⟨ha1, ha2, ha3⟩ := (mem_selF false d a).1 ha
    obtain ⟨hb1, hb2, hb3⟩ := (mem_selF true d b).1 hb
    exact hsep b hb1 a ha1 hb3 hb2 ha3 ha2
  · intro e he
    rcases List.mem_append.1 he with h | h
    · exact (hsel false).2 e h
    · exact (hsel true).2 e h

/-! ### the directory is its non-rotated entries plus its listing -/

theorem perm_filter3 {α : Type} (p0 p1 p2 : α → Bool)
    (h : ∀ a, (p0 a = true ∧ p1 a = false ∧ p2 a = false) ∨
      (p0 a = false ∧ p1 a = true ∧ p2 a = false) ∨
      (p0 a = false ∧ p1 a = false ∧ p2 a = true)) (l : List α) :
    List.Perm l (l.filter p0 ++ (l.filter p1 ++ l.filter p2)) := by
  induction l with
  | nil => exact List.Perm.refl _
  | cons a l ih =>
    rcases h a with ⟨h0, h1, h2⟩ | ⟨h0, h1, h2⟩ | ⟨h0, h1, h2⟩
    · rw [List.filter_cons_of_pos h0, List.filter_cons_of_neg (by simp [h1]),
        List.filter_cons_of_neg (by simp [h2])]
      exact List.Perm.cons a ih
    · rw [List.filter_cons_of_neg (by simp [h0]), List.filter_cons_of_pos h1,
        List.filter_cons_of_neg (by simp [h2])]
      exact (List.Perm.cons a ih).trans List.perm_middle.symm
    · rw [List.filter_cons_of_neg (by simp [h0]), List.filter_cons_of_neg (by simp [h1]),
        List.filter_cons_of_pos h2, ← List.append_assoc]
      refine (List.Perm.cons a ?_).trans List.perm_middle.symm
      rw [List.append_assoc]
      exact ih

/-- the entries that are not rotated files (`rCURRENT`, the plain file, files moved away) -/
def others (d : List E) : List E := List.filter (fun e : E => !isRot e) d

theorem perm_others_listing (d : List E) : List.Perm d (others d ++ listing d) := by
  rw [FV.FlwC.listing_eq]
  refine (perm_filter3 (fun e : E => !isRot e) (fun e : E => decide (e.1.gz = false) && isRot e)
    (fun e : E => decide (e.1.gz = true) && isRot e) ?_ d).trans ?_
  · intro e
    cases hr : isRot e <;> cases hg : e.1.gz <;> simp
  · exact List.Perm.append_left _
      (List.Perm.append (FV.FlwL.sortDesc_perm _).symm (FV.FlwL.sortDesc_perm _).symm)

theorem others_not_rot (d : List E) : ∀ e ∈ others d, isRot e = false := by
  intro e he
  unfold others at he
  rw [List.mem_filter] at he
  simpa using he.2

theorem ifxs_nodup_of_distinct (d : List E) (hd : FV.FlwL.IfxDistinct d) :
    (ifxs (others d ++ listing d)).Nodup := by
  have h1 : (ifxs d).Nodup := by
    unfold ifxs
    rw [List.nodup_iff_pairwise_ne, List.pairwise_map]
    exact hd
  exact ((perm_others_listing d).map (fun e : E => e.1.ifx)).nodup_iff.1 h1

/-! ### one pass, read through `rotatedAsc` -/

/-- Without faults the pass never aborts; the rotated files before it are the reversed listing,
    after it the reversed `cl … (listing d) 0` (keep `k`, compress `m`, drop the rest); the
    entries that are not rotated files are untouched. -/
theorem cleanup_rotatedAsc (now : Nat) (cfg : Cfg) (r : RotCfg) (k m : Nat)
    (hc : r.cleanup = some (k, m)) (d : Dir) (hd : FV.FlwL.IfxDistinct d)
    (hk : RotKeysDistinct d) (hsep : GzOlder d) :
    (cleanup now cfg r noFaults d).2 = false ∧
    rotatedAsc d = (listing d).reverse ∧
    rotatedAsc (cleanup now cfg r noFaults d).1 =
      (cl cfg.hasSuffix now (kkOf r k) m (listing d) 0).reverse ∧
    List.Perm (cleanup now cfg r noFaults d).1
      (others d ++ cl cfg.hasSuffix now (kkOf r k) m (listing d) 0) := by
  have hN := listing_sorted d hk hsep
  have hp := perm_others_listing d
  obtain ⟨d', h1, h2⟩ := cleanupLoop_spec cfg.hasSuffix now (kkOf r k) m (listing d) 0 d
    (others d) 0 0 hp (ifxs_nodup_of_distinct d hd)
  have hcl : cleanup now cfg r noFaults d = (d', false) := by
    rw [FV.FlwL.cleanup_eq now cfg r noFaults d k m hc]
    exact h1
  rw [hcl]
  refine ⟨rfl, rotatedAsc_of_perm hp (others_not_rot d) hN, ?_, h2⟩
  have hT : SortedD (cl cfg.hasSuffix now (kkOf r k) m (listing d) 0) := by
    rw [cl_zero]
    exact T_sorted _ _ _ _ hN
  exact rotatedAsc_of_perm h2 (others_not_rot d) hT

/-! ### ranks: position `p` of `n` entries (oldest first) has rank `n - 1 - p` -/

/-- numbering by rank from the end is numbering the reversed list by position -/
theorem filterMap_zipIdx_rank {α β : Type} (ψ : Nat → α → Option β) : ∀ (l : List α) (n : Nat),
    (l.zipIdx n).filterMap (fun x => ψ (n + l.length - 1 - x.2) x.1) =
      ((l.reverse.zipIdx).filterMap (fun x => ψ x.2 x.1)).reverse := by
  intro l
  induction l with
  | nil => intro n; rfl
  | cons a l ih =>
    intro n
    have e1 : (fun x : α × Nat => ψ (n + (a :: l).length - 1 - x.2) x.1) =
        (fun x : α × Nat => ψ (n + 1 + l.length - 1 - x.2) x.1) := by
      funext x
      rw [List.length_cons, show n + (l.length + 1) = n + 1 + l.length by omega]
    have e2 : n + 1 + l.length - 1 - n = l.length := by omega
    rw [e1, List.zipIdx_cons, List.filterMap_cons, ih (n + 1), List.reverse_cons,
      List.zipIdx_append, List.filterMap_append, List.reverse_append, List.zipIdx_singleton,
      List.filterMap_cons, List.filterMap_nil]
    simp only [e2, Nat.zero_add, List.length_reverse]
    cases ψ l.length a <;> rfl

/-- what a pass makes of the entry of rank `rank` (`0` = newest): dropped from `k + m` on,
    compressed from `k` on (if files have a suffix), else unchanged -/
def rankAct {α : Type} (hs : Bool) (k m rank : Nat) (e : α × Bool) : Option (α × Bool) :=
  if k + m ≤ rank then none else if k ≤ rank then some (e.1, e.2 || hs) else some e

/-- the abstract pass on a list of `(payload, compressed?)` pairs, oldest first: with `n`
    entries, the entry at position `p` has rank `n - 1 - p` -/
def passListS {α : Type} (hs : Bool) (k m : Nat) (l : List (α × Bool)) : List (α × Bool) :=
  l.zipIdx.filterMap (fun x => rankAct hs k m (l.length - 1 - x.2) x.1)

theorem passListS_eq_reverse {α : Type} (hs : Bool) (k m : Nat) (l : List (α × Bool)) :
    passListS hs k m l =
      ((l.reverse.zipIdx).filterMap (fun x => rankAct hs k m x.2 x.1)).reverse := by
  rw [← filterMap_zipIdx_rank (rankAct hs k m) l 0]
  unfold passListS
  simp only [Nat.zero_add]

/-- without a suffix nothing is compressed: the pass only drops, like a pass that keeps `k + m`
    plain files and no compressed ones -/
theorem passListS_false {α : Type} (k m : Nat) (l : List (α × Bool)) :
    passListS false k m l = passListS true (k + m) 0 l := by
  unfold passListS
  apply FV.Bg.filterMap_congr'
  intro x _
  by_cases h1 : k + m ≤ l.length - 1 - x.2
  · have h1' : k + m + 0 ≤ l.length - 1 - x.2 := h1
    simp only [rankAct, if_pos h1, if_pos h1']
  · have h1' : ¬ k + m + 0 ≤ l.length - 1 - x.2 := h1
    simp only [rankAct, if_neg h1, if_neg h1', Bool.or_false]
    split <;> rfl

/-! ### the concrete pass on the `(infix, compressed?)` pairs -/

/-- what the bridge keeps of a directory entry -/
def tag (e : E) : Option Infix × Bool := (e.1.ifx, e.1.gz)

theorem tag_gzf (hs : Bool) (now : Nat) (e : E) : tag (gzf hs now e) = (e.1.ifx, e.1.gz || hs) := by
  unfold tag gzf
  cases hg : e.1.gz <;> cases hs <;> simp [hg]

theorem cl_map_tag (hs : Bool) (now k m : Nat) : ∀ (l : List E) (i : Nat),
    (cl hs now k m l i).map tag =
      ((l.map tag).zipIdx i).filterMap (fun x => rankAct hs k m x.2 x.1) := by
  intro l
  induction l with
  | nil => intro i; rfl
  | cons e rest ih =>
    intro i
    rw [cl, List.map_cons, List.zipIdx_cons]
    by_cases h1 : i ≥ k + m
    · rw [if_pos h1, List.filterMap_cons_none (by simp only [rankAct]; rw [if_pos h1]), ih]
    · rw [if_neg h1]
      by_cases h2 : i ≥ k
      · rw [if_pos h2, List.filterMap_cons_some (b := tag (gzf hs now e))
            (by simp only [rankAct]; rw [if_neg h1, if_pos h2, tag_gzf]; rfl),
          List.map_cons, ih]
      · rw [if_neg h2, List.filterMap_cons_some (b := tag e)
            (by simp only [rankAct]; rw [if_neg h1, if_neg h2]),
          List.map_cons, ih]

/-- the rotated files after the pass (oldest first) are `passListS` of those before -/
theorem cl_reverse_map (hs : Bool) (now k m : Nat) (N : List E) :
    (cl hs now k m N 0).reverse.map tag = passListS hs k m (N.reverse.map tag) := by
  rw [passListS_eq_reverse, List.map_reverse, List.map_reverse, List.reverse_reverse, cl_map_tag]

/-! ### the abstract directory numbered by position, and `Bg.pass` on it -/

/-- the `Bg` directory of a list of flags (oldest first): the rank of creation is the position -/
def ofFlags (fl : List Bool) : FV.Bg.Dir := fl.zipIdx.map (fun x => ⟨x.2, x.1⟩)

/-- all compressed entries precede (are older than) all plain ones -/
def GzFirst (fl : List Bool) : Prop := fl.Pairwise (fun a b => b = true → a = true)

theorem mem_ofFlags {fl : List Bool} {f : FV.Bg.RF} : f ∈ ofFlags fl ↔ fl[f.id]? = some f.gz := by
  unfold ofFlags
  rw [List.mem_map]
  constructor
  · rintro ⟨x, hx, rfl⟩
    exact List.mem_zipIdx_iff_getElem?.1 hx
  · intro h
    exact ⟨(f.gz, f.id), List.mem_zipIdx_iff_getElem?.2 h, rfl⟩

theorem zipIdx_pairwise_snd {α : Type} : ∀ (l : List α) (n : Nat),
    (l.zipIdx n).Pairwise (fun a b => a.2 < b.2) := by
  intro l
  induction l with
  | nil => intro n; exact List.Pairwise.nil
  | cons a l ih =>
    intro n
    rw [List.zipIdx_cons, List.pairwise_cons]
    refine ⟨?_, ih (n + 1)⟩
    intro b hb
    have := List.le_snd_of_mem_zipIdx hb
    show n < b.2
    omega

theorem ofFlags_sorted (fl : List Bool) : (ofFlags fl).Pairwise (fun a b => a.id < b.id) := by
  unfold ofFlags
  rw [List.pairwise_map]
  exact zipIdx_pairwise_snd fl 0

theorem ofFlags_lt {fl : List Bool} {f : FV.Bg.RF} (h : f ∈ ofFlags fl) : f.id < fl.length := by
  have := mem_ofFlags.1 h
  exact (List.getElem?_eq_some_iff.1 this).1

theorem ofFlags_ex {fl : List Bool} {id : Nat} (h : id < fl.length) :
    ∃ f ∈ ofFlags fl, f.id = id :=
  ⟨⟨id, fl[id]⟩, mem_ofFlags.2 (List.getElem?_eq_getElem h), rfl⟩

theorem ofFlags_sep {fl : List Bool} (hs : GzFirst fl) : FV.Bg.Sep (ofFlags fl) := by
  intro f hf g hg h1 h2
  have hf' := List.getElem?_eq_some_iff.1 (mem_ofFlags.1 hf)
  have hg' := List.getElem?_eq_some_iff.1 (mem_ofFlags.1 hg)
  obtain ⟨hfl, hfv⟩ := hf'
  obtain ⟨hgl, hgv⟩ := hg'
  by_cases hlt : g.id < f.id
  · exact hlt
  · exfalso
    by_cases heq : g.id = f.id
    · have : fl[g.id] = fl[f.id] := by simp only [heq]
      rw [hgv, hfv, h1, h2] at this
      cases this
    · have := (List.pairwise_iff_getElem.1 hs) f.id g.id hfl hgl (by omega) (by rw [hgv]; exact h2)
      rw [hfv, h1] at this
      cases this

/-- the flag a pass leaves for rank `rank` -/
def rankFlag (k m rank : Nat) (b : Bool) : Option Bool :=
  if k + m ≤ rank then none else some (b || decide (k ≤ rank))

/-- `Bg.pass` on the directory numbered by position, flag by flag -/
theorem pass_ofFlags (k m : Nat) (fl : List Bool) (hs : GzFirst fl) :
    (FV.Bg.pass k m (ofFlags fl)).map (·.gz) =
      fl.zipIdx.filterMap (fun x => rankFlag k m (fl.length - 1 - x.2) x.1) := by
  obtain ⟨hr, hc⟩ := FV.Bg.plan_mem (k := k) (m := m) (n := fl.length)
    (FV.Bg.listing (ofFlags fl)) 0
    (FV.Bg.listing_pairwise (ofFlags_sorted fl) (ofFlags_sep hs))
    (fun f hf => by have := ofFlags_lt (FV.Bg.mem_listing.1 hf); omega)
    (fun id h1 _ => by
      obtain ⟨f, hf, e⟩ := ofFlags_ex (fl := fl) (id := id) (by omega)
      exact ⟨f, FV.Bg.mem_listing.2 hf, e⟩)
  simp only [FV.Bg.mem_listing] at hr hc
  unfold FV.Bg.pass
  rw [FV.Bg.foldl_apply, List.map_filterMap]
  generalize FV.Bg.plan k m (FV.Bg.listing (ofFlags fl)) 0 = P at hr hc
  show List.filterMap _ (List.map _ fl.zipIdx) = _
  rw [List.filterMap_map]
  apply FV.Bg.filterMap_congr'
  intro x hx
  have hlt : x.2 < fl.length := by
    have := List.snd_lt_of_mem_zipIdx hx
    omega
  have hf : (⟨x.2, x.1⟩ : FV.Bg.RF) ∈ ofFlags fl := List.mem_map.2 ⟨x, hx, rfl⟩
  show Option.map (·.gz) (FV.Bg.eff P ⟨x.2, x.1⟩) = rankFlag k m (fl.length - 1 - x.2) x.1
  unfold FV.Bg.eff rankFlag
  by_cases hrm : x.2 + (k + m) < fl.length
  · rw [if_pos ((hr x.2).2 ⟨⟨_, hf, rfl⟩, hrm⟩), if_pos (by omega)]
    rfl
  · rw [if_neg (fun h => hrm ((hr x.2).1 h).2),
      if_neg (show ¬ k + m ≤ fl.length - 1 - x.2 by omega), Option.map_some]
    congr 1
    by_cases hcm : FV.Bg.Act.compress x.2 ∈ P
    · obtain ⟨_, _, _, _, hk, _⟩ := (hc x.2).1 hcm
      have hk' : decide (k ≤ fl.length - 1 - x.2) = true := by
        rw [decide_eq_true_eq]; omega
      rw [if_pos hcm, hk', Bool.or_true]
    · rw [if_neg hcm]
      show x.1 = (x.1 || decide (k ≤ fl.length - 1 - x.2))
      by_cases hk : x.2 + k < fl.length
      · cases hgz : x.1
        · exact absurd ((hc x.2).2 ⟨_, hf, rfl, hgz, hk, by omega⟩) hcm
        · rfl
      · have hk' : decide (k ≤ fl.length - 1 - x.2) = false := by
          rw [decide_eq_false_iff_not]; omega
        rw [hk', Bool.or_false]

/-- `passListS true` leaves the same flags -/
theorem passListS_flags {α : Type} (k m : Nat) (l : List (α × Bool)) :
    (passListS true k m l).map (·.2) =
      (l.map (·.2)).zipIdx.filterMap
        (fun x => rankFlag k m ((l.map (·.2)).length - 1 - x.2) x.1) := by
  unfold passListS
  rw [List.map_filterMap, List.zipIdx_map, List.filterMap_map, List.length_map]
  apply FV.Bg.filterMap_congr'
  intro x _
  show Option.map (·.2) (rankAct true k m (l.length - 1 - x.2) x.1) =
    rankFlag k m (l.length - 1 - x.2) x.1.2
  unfold rankAct rankFlag
  by_cases h1 : k + m ≤ l.length - 1 - x.2
  · rw [if_pos h1, if_pos h1]; rfl
  · rw [if_neg h1, if_neg h1]
    by_cases h2 : k ≤ l.length - 1 - x.2
    · rw [if_pos h2, decide_eq_true h2, Bool.or_true]; rfl
    · rw [if_neg h2, decide_eq_false h2, Bool.or_false]; rfl

/-- **`passListS true` is `Bg.pass`** on the list numbered by position, as far as the flags (and
    hence the number of files) are concerned -/
theorem passListS_is_bg_pass {α : Type} (k m : Nat) (l : List (α × Bool))
    (hs : GzFirst (l.map (·.2))) :
    (passListS true k m l).map (·.2) = (FV.Bg.pass k m (ofFlags (l.map (·.2)))).map (·.gz) := by
  rw [passListS_flags, pass_ofFlags k m _ hs]

/-! ### the flags of a directory's rotated files -/

theorem listing_gz_pairwise (d : List E) (hk : RotKeysDistinct d) (hsep : GzOlder d) :
    (listing d).Pairwise (fun x y : E => x.1.gz = true → y.1.gz = true) := by
  refine (listing_sorted d hk hsep).1.imp_of_mem ?_
  intro x y hx hy hxy hgx
  have hx' := (FV.FlwL.l_mem_listing d x).1 hx
  have hy' := (FV.FlwL.l_mem_listing d y).1 hy
  cases hgy : y.1.gz
  · have := hsep x hx'.1 y hy'.1 hx'.2 hgx hy'.2 hgy
    have hxy' : keyLt (nkey y.1) (nkey x.1) = true := hxy
    rw [keyLt_asymm this] at hxy'
    cases hxy'
  · rfl

theorem gzFirst_reverse_listing (d : List E) (hk : RotKeysDistinct d) (hsep : GzOlder d) :
    GzFirst (((listing d).reverse.map tag).map (·.2)) := by
  unfold GzFirst
  rw [List.pairwise_map, List.pairwise_map, List.pairwise_reverse]
  exact listing_gz_pairwise d hk hsep


/-! ### the premises from a description of the directory -/

/-- A directory that consists of entries `X` that are not rotated files and of the rotated files
    `N`, sorted newest first, the plain ones before (newer than) the compressed ones, satisfies
    the three premises of the bridge. -/
theorem premises_of_perm {d : List E} {X N : List E} (hp : List.Perm d (X ++ N))
    (hX : ∀ e ∈ X, isRot e = false) (hXn : (ifxs X).Nodup) (hN : SortedD N)
    (hg : N.Pairwise (fun x y : E => x.1.gz = true → y.1.gz = true)) :
    FV.FlwL.IfxDistinct d ∧ RotKeysDistinct d ∧ GzOlder d := by
  refine ⟨?_, ?_, ?_⟩
  · have h1 : (ifxs (X ++ N)).Nodup := ifxs_nodup_append hX hXn hN
    have h2 : (List.map (fun e : E => e.1.ifx) d).Nodup :=
      ((hp.map (fun e : E => e.1.ifx)).nodup_iff).2 h1
    rw [List.nodup_iff_pairwise_ne, List.pairwise_map] at h2
    exact h2
  · unfold RotKeysDistinct
    rw [List.Perm.pairwise_iff (fun hxy h1 h2 => Ne.symm (hxy h2 h1)) hp, List.pairwise_append]
    refine ⟨?_, ?_, ?_⟩
    · exact List.pairwise_of_forall_mem_list (fun a ha b _ h1 _ => by rw [hX a ha] at h1; cases h1)
    · refine hN.1.imp ?_
      intro a b hab _ _ heq
      have hab' : keyLt (nkey b.1) (nkey a.1) = true := hab
      rw [heq, keyLt_irrefl] at hab'
      cases hab'
    · intro a ha b _ h1 _
      rw [hX a ha] at h1
      cases h1
  · intro e1 h1 e2 h2 hr1 hg1 hr2 hg2
    have mem : ∀ e ∈ ents d, isRot e = true → e ∈ N := by
      intro e he hr
      rcases List.mem_append.1 (hp.subset he) with h | h
      · rw [hX e h] at hr; cases hr
      · exact h
    have m1 := mem e1 h1 hr1
    have m2 := mem e2 h2 hr2
    have hne : e1 ≠ e2 := by
      intro h
      rw [h, hg2] at hg1
      cases hg1
    have hS : N.Pairwise (fun x y : E =>
        (keyLt (nkey y.1) (nkey x.1) = true ∧ (x.1.gz = true → y.1.gz = true)) ∨
        (keyLt (nkey x.1) (nkey y.1) = true ∧ (y.1.gz = true → x.1.gz = true))) := by
      have := hN.1.and hg
      exact this.imp (fun h => Or.inl h)
    rcases FV.FlwL.pairwise_rel_of_mem (fun h => h.symm) N hS e1 e2 m1 m2 hne with h | h
    · rw [h.2 hg1] at hg2
      cases hg2
    · exact h.1

/-- the closed files of the invariant: the plain ones come before the compressed ones -/
theorem pat_gz_pairwise {hs : Bool} {kc : Nat} {C : List E} (h : Pat hs kc C) :
    C.Pairwise (fun x y : E => x.1.gz = true → y.1.gz = true) := by
  rw [← List.take_append_drop kc C, List.pairwise_append]
  refine ⟨?_, ?_, ?_⟩
  · exact List.pairwise_of_forall_mem_list
      (fun a ha b _ hga => by rw [h.1 a ha] at hga; cases hga)
  · exact List.pairwise_of_forall_mem_list
      (fun a ha b hb hga => by rw [h.2 b hb, ← h.2 a ha]; exact hga)
  · intro a ha b _ hga
    rw [h.1 a ha] at hga
    cases hga

theorem gz_pairwise_cons {x : E} {N : List E} (hx : x.1.gz = false)
    (h : N.Pairwise (fun x y : E => x.1.gz = true → y.1.gz = true)) :
    (x :: N).Pairwise (fun x y : E => x.1.gz = true → y.1.gz = true) := by
  rw [List.pairwise_cons]
  refine ⟨?_, h⟩
  intro b _ hga
  rw [hx] at hga
  cases hga

/-! ### the directory a rotation hands to `cleanup` -/

/-- the rotated files of a directory of the invariant -/
theorem rotatedAsc_of_cdir {hs : Bool} {kc m : Nat} {nm : Naming} {idx stamp : Nat} {d : Dir}
    {h : FName} {f : File} {C : List E} {closed : List (List Nat)}
    (hd : CDir hs kc m nm idx stamp d h f C closed) :
    rotatedAsc d = (if nm.writesDirect = true then (h, f) :: C else C).reverse := by
  by_cases hw : nm.writesDirect = true
  · rw [if_pos hw]
    have hp : List.Perm d ([] ++ (h, f) :: C) := hd.perm
    exact rotatedAsc_of_perm hp (by simp) (hd.sortedAll hw)
  · rw [if_neg hw]
    have hcur := hd.handle.cur (by simpa using hw)
    have hp : List.Perm d ([(h, f)] ++ C) := hd.perm
    refine rotatedAsc_of_perm hp ?_ hd.sorted
    intro e he
    simp only [List.mem_singleton] at he
    rw [he, hcur]
    rfl

/-- the description of what `mountNextCore` hands to `rotTailC` (hence to `cleanup`) when a
    rotation is due in a state of the invariant -/
theorem mountNextCore_shape {cfg : Cfg} {r : RotCfg} {k m : Nat} (s : St)
    (act : Active) (a : Abs) (force : Bool) (now : Nat) (hcfg : s.cfg = cfg)
    (hi : CInv cfg r k m s.dir act a) (hst : act.stamp ≤ now)
    (h : (force || rotationNecessary r act now) = true) :
    ∃ (s0 : St) (act0 : Active) (ti : Infix) (f : File) (C : List E),
      mountNextCore s act r force now noFaults = rotTailC s0 act0 ti r now ∧ s0.cfg = cfg ∧
      List.Perm s0.dir ((act0.handle, f) :: C) ∧ SortedD ((act0.handle, f) :: C) ∧
      act0.handle.gz = false ∧ Pat cfg.hasSuffix (kcOf r k) C ∧
      (if r.naming.writesDirect = true
        then ti.rotated = true ∧ keyLt (nkey act0.handle) ti.key = true else ti = .cur) ∧
      rotatedAsc s.dir =
        (if r.naming.writesDirect = true then (act0.handle, f) :: C else C).reverse := by
  obtain ⟨f, C, hd, -⟩ := hi.dir
  have hb := hd.below
  have hH := hd.handle
  have hra := rotatedAsc_of_cdir hd
  cases hnm : r.naming with
  | numbers =>
    rw [hnm] at hb hH
    simp only [Below, HandleOK] at hb hH
    have hf : s.dir.get curN = some f := by rw [← hH]; exact hd.get_handle
    rw [mountNextCore_n s act r force now f hnm hH hf h]
    have hperm0 : List.Perm s.dir ([] ++ (curN, f) :: C) := by rw [← hH]; exact hd.perm
    have hnd0 : (([] ++ (curN, f) :: C).map (fun e : E => e.1)).Nodup := by
      rw [← hH]; exact hd.names_nodup
    have hnotin : ∀ e ∈ C, e.1 ≠ (⟨some (.num act.idx), false⟩ : FName) := by
      intro e he heq
      obtain ⟨i, hi1, n, rfl, hn⟩ := hb e he
      rw [heq] at hi1
      cases hi1
      omega
    have hperm : List.Perm ((s.dir.erase curN).set ⟨some (.num act.idx), false⟩ f)
        ((⟨some (.num act.idx), false⟩, f) :: C) :=
      perm_set_new f (perm_erase_old hperm0 hnd0) hnotin
    have hsC : SortedD ((⟨some (.num act.idx), false⟩, f) :: C) := by
      constructor
      · rw [List.pairwise_cons]
        refine ⟨?_, hd.sorted.1⟩
        intro e he
        obtain ⟨i, hi1, n, rfl, hn⟩ := hb e he
        simp [nkey, hi1, Infix.key, keyLt, hn]
      · intro e he
        rcases List.mem_cons.1 he with rfl | he
        · exact ⟨_, rfl, rfl⟩
        · exact hd.sorted.2 e he
    refine ⟨_, _, .cur, f, C, rfl, hcfg, hperm, hsC, rfl, hd.pat, ?_, ?_⟩
    · rw [if_neg (show ¬ Naming.numbers.writesDirect = true by decide)]
    · rw [hra, hnm]; rfl
  | timestamps =>
    rw [hnm] at hb hH
    simp only [Below, HandleOK] at hb hH
    have hf : s.dir.get curN = some f := by rw [← hH]; exact hd.get_handle
    rw [mountNextCore_t s act r force now f hnm hH hf h]
    obtain ⟨rr, hrr⟩ := FV.FlwA.collisionFree_ts s.dir act.stamp
    have hperm0 : List.Perm s.dir ([] ++ (curN, f) :: C) := by rw [← hH]; exact hd.perm
    have hnd0 : (([] ++ (curN, f) :: C).map (fun e : E => e.1)).Nodup := by
      rw [← hH]; exact hd.names_nodup
    have hmemC : ∀ e ∈ C, e ∈ ents s.dir := fun e he => hd.perm.symm.subset (by simp [he])
    have habove : ∀ e ∈ C, keyLt (nkey e.1) (collisionFree s.dir act.stamp).key = true := by
      intro e he
      obtain ⟨i, hi1, k', r', rfl, hk⟩ := hb e he
      have := collisionFree_above s.dir act.stamp e (hmemC e he) k' r' hi1 hk
      simpa [nkey, hi1] using this
    have hnotin : ∀ e ∈ C, e.1 ≠ (⟨some (collisionFree s.dir act.stamp), false⟩ : FName) := by
      intro e he heq
      have := habove e he
      rw [heq] at this
      simp only [nkey] at this
      rw [keyLt_irrefl] at this
      cases this
    have hperm : List.Perm ((s.dir.erase curN).set ⟨some (collisionFree s.dir act.stamp), false⟩ f)
        ((⟨some (collisionFree s.dir act.stamp), false⟩, f) :: C) :=
      perm_set_new f (perm_erase_old hperm0 hnd0) hnotin
    have hsC : SortedD ((⟨some (collisionFree s.dir act.stamp), false⟩, f) :: C) := by
      constructor
      · rw [List.pairwise_cons]
        refine ⟨?_, hd.sorted.1⟩
        intro e he
        exact habove e he
      · intro e he
        rcases List.mem_cons.1 he with rfl | he
        · exact ⟨_, rfl, by rw [hrr]; rfl⟩
        · exact hd.sorted.2 e he
    refine ⟨_, _, .cur, f, C, rfl, hcfg, hperm, hsC, rfl, hd.pat, ?_, ?_⟩
    · rw [if_neg (show ¬ Naming.timestamps.writesDirect = true by decide)]
    · rw [hra, hnm]; rfl
  | numbersDirect =>
    have hw : r.naming.writesDirect = true := by rw [hnm]; rfl
    have hsAll := hd.sortedAll hw
    rw [hnm] at hb hH
    simp only [Below, HandleOK] at hb hH
    rw [mountNextCore_nD s act r force now hnm h]
    refine ⟨s, _, .num (act.idx + 1), f, C, rfl, hcfg, hd.perm, hsAll, by rw [hH], hd.pat, ?_, ?_⟩
    · rw [if_pos (show Naming.numbersDirect.writesDirect = true by decide)]
      refine ⟨rfl, ?_⟩
      show keyLt (nkey act.handle) _ = true
      rw [hH]
      simp [nkey, Infix.key, keyLt]
    · rw [hra, hnm]
  | timestampsDirect =>
    have hw : r.naming.writesDirect = true := by rw [hnm]; rfl
    have hsAll := hd.sortedAll hw
    rw [hnm] at hb hH
    simp only [Below, HandleOK] at hb hH
    obtain ⟨r0, hH⟩ := hH
    rw [mountNextCore_tD s act r force now hnm h]
    obtain ⟨rr, hrr⟩ := FV.FlwA.collisionFree_ts s.dir now
    have hmemH : (act.handle, f) ∈ ents s.dir := hd.perm.symm.subset (by simp)
    have habove : keyLt (nkey act.handle) (collisionFree s.dir now).key = true := by
      have := collisionFree_above s.dir now (act.handle, f) hmemH act.stamp r0 (by rw [hH]) hst
      simpa [nkey, hH] using this
    refine ⟨s, _, collisionFree s.dir now, f, C, rfl, hcfg, hd.perm, hsAll, by rw [hH], hd.pat,
      ?_, ?_⟩
    · rw [if_pos (show Naming.timestampsDirect.writesDirect = true by decide)]
      exact ⟨by rw [hrr]; rfl, habove⟩
    · rw [hra, hnm]


/-- the directory `rotTailC` hands to `cleanup`: the new current file, the file that is rotated
    out (with the bytes flushed by the drop of the old writer), the closed files -/
theorem preCleanup_perm (s : St) (act : Active) (ti : Infix) (r : RotCfg) (now : Nat) (f : File)
    (C : List E) (hp : List.Perm s.dir ((act.handle, f) :: C))
    (hsC : SortedD ((act.handle, f) :: C))
    (hnew : if r.naming.writesDirect = true
      then ti.rotated = true ∧ keyLt (nkey act.handle) ti.key = true else ti = .cur) :
    List.Perm (preCleanupDir s act ti now)
      ((⟨some ti, false⟩, ⟨[], now⟩) ::
        (act.handle, { f with data := f.data ++ act.pending }) :: C) := by
  have hnotin : ∀ e ∈ (act.handle, f) :: C, e.1 ≠ (⟨some ti, false⟩ : FName) := by
    intro e he heq
    by_cases hw : r.naming.writesDirect = true
    · rw [if_pos hw] at hnew
      have h1 : keyLt (nkey e.1) ti.key = true := by
        rcases List.mem_cons.1 he with rfl | he
        · exact hnew.2
        · have := hsC.1
          rw [List.pairwise_cons] at this
          exact keyLt_trans (this.1 e he) hnew.2
      rw [heq] at h1
      simp only [nkey] at h1
      rw [keyLt_irrefl] at h1
      cases h1
    · rw [if_neg hw] at hnew
      obtain ⟨i, hi, hr⟩ := hsC.2 e he
      rw [heq] at hi
      cases hi
      rw [hnew] at hr
      simp [Infix.rotated] at hr
  have hget : s.dir.get ⟨some ti, false⟩ = none := get_none_of_perm hp hnotin
  obtain ⟨-, -, -, hodir⟩ := FV.FlwB.openFile_new s ⟨some ti, false⟩ now hget
  have hnd0 : (((act.handle, f) :: C).map (·.1)).Nodup := names_nodup_of_ifxs hsC.ifxs_nodup
  have hp1 : List.Perm (s.dir.set ⟨some ti, false⟩ ⟨[], now⟩)
      ((⟨some ti, false⟩, ⟨[], now⟩) :: (act.handle, f) :: C) := perm_set_new _ hp hnotin
  have hnd1 : (((⟨some ti, false⟩, (⟨[], now⟩ : File)) :: (act.handle, f) :: C).map (·.1)).Nodup := by
    rw [List.map_cons, List.nodup_cons]
    refine ⟨?_, hnd0⟩
    intro hmem
    obtain ⟨e, he, heq⟩ := List.mem_map.1 hmem
    exact hnotin e he heq
  have hp2 := perm_append_old (M1 := [(⟨some ti, false⟩, ⟨[], now⟩)]) act.pending hp1 hnd1
  unfold preCleanupDir
  rw [hodir]
  exact hp2

/-- The directory a rotation hands to `cleanup` satisfies the three premises of the bridge, and
    its rotated files are those of the directory before the rotation plus ONE newest plain
    file (the file just closed resp., for the direct namings, the file just opened). -/
theorem preCleanup_premises (s : St) (act : Active) (ti : Infix) (r : RotCfg) (now : Nat)
    (f : File) (C : List E) (hs : Bool) (kc : Nat)
    (hp : List.Perm s.dir ((act.handle, f) :: C)) (hsC : SortedD ((act.handle, f) :: C))
    (hgz : act.handle.gz = false) (hpat : Pat hs kc C)
    (hnew : if r.naming.writesDirect = true
      then ti.rotated = true ∧ keyLt (nkey act.handle) ti.key = true else ti = .cur) :
    FV.FlwL.IfxDistinct (preCleanupDir s act ti now) ∧
    RotKeysDistinct (preCleanupDir s act ti now) ∧ GzOlder (preCleanupDir s act ti now) ∧
    ∃ i, (rotatedAsc (preCleanupDir s act ti now)).map tag =
      ((if r.naming.writesDirect = true then (act.handle, f) :: C else C).reverse).map tag ++
        [(some i, false)] := by
  have hperm := preCleanup_perm s act ti r now f C hp hsC hnew
  have hsC' : SortedD ((act.handle, ({ f with data := f.data ++ act.pending } : File)) :: C) :=
    hsC.cons_congr
  have hgC := gz_pairwise_cons (x := (act.handle, ({ f with data := f.data ++ act.pending } : File)))
    hgz (pat_gz_pairwise hpat)
  by_cases hw : r.naming.writesDirect = true
  · rw [if_pos hw] at hnew ⊢
    have hsAll : SortedD ((⟨some ti, false⟩, (⟨[], now⟩ : File)) ::
        (act.handle, ({ f with data := f.data ++ act.pending } : File)) :: C) := by
      constructor
      · rw [List.pairwise_cons]
        refine ⟨?_, hsC'.1⟩
        intro e he
        rcases List.mem_cons.1 he with rfl | he
        · exact hnew.2
        · have := hsC.1
          rw [List.pairwise_cons] at this
          exact keyLt_trans (this.1 e he) hnew.2
      · intro e he
        rcases List.mem_cons.1 he with rfl | he
        · exact ⟨ti, rfl, hnew.1⟩
        · exact hsC'.2 e he
    have hperm' : List.Perm (preCleanupDir s act ti now) ([] ++
        (⟨some ti, false⟩, (⟨[], now⟩ : File)) ::
        (act.handle, ({ f with data := f.data ++ act.pending } : File)) :: C) := hperm
    obtain ⟨h1, h2, h3⟩ := premises_of_perm hperm' (by simp) (by simp [ifxs]) hsAll
      (gz_pairwise_cons rfl hgC)
    refine ⟨h1, h2, h3, ti, ?_⟩
    rw [rotatedAsc_of_perm hperm' (by simp) hsAll]
    simp [tag]
  · rw [if_neg hw] at hnew ⊢
    have hperm' : List.Perm (preCleanupDir s act ti now)
        ([(⟨some ti, false⟩, (⟨[], now⟩ : File))] ++
        (act.handle, ({ f with data := f.data ++ act.pending } : File)) :: C) := hperm
    have hX : ∀ e ∈ [((⟨some ti, false⟩ : FName), (⟨[], now⟩ : File))], isRot e = false := by
      intro e he
      simp only [List.mem_singleton] at he
      rw [he, hnew]
      rfl
    obtain ⟨h1, h2, h3⟩ := premises_of_perm hperm' hX (by simp [ifxs]) hsC' hgC
    obtain ⟨i, hi, -⟩ := hsC.2 (act.handle, f) (List.mem_cons_self ..)
    refine ⟨h1, h2, h3, i, ?_⟩
    rw [rotatedAsc_of_perm hperm' hX hsC']
    simp only at hi
    simp [tag, hi, hgz]

/-- flushing the writer does not change which rotated files there are -/
theorem rotatedAsc_flush_tag {hs : Bool} {kc m : Nat} {nm : Naming} {idx stamp : Nat} {d : Dir}
    {h : FName} {f : File} {C : List E} {closed : List (List Nat)}
    (hd : CDir hs kc m nm idx stamp d h f C closed) (b : List Nat) :
    (rotatedAsc (d.append h b)).map tag = (rotatedAsc d).map tag := by
  have hp' := perm_append_old (M1 := []) b hd.perm hd.names_nodup
  rw [rotatedAsc_of_cdir hd, rotatedAsc_of_cdir (hd.upd hp')]
  by_cases hw : nm.writesDirect = true
  · rw [if_pos hw, if_pos hw]
    simp [tag]
  · rw [if_neg hw, if_neg hw]

/-- **What a due rotation in a state of the invariant hands to `cleanup`**: a directory that
    satisfies the premises of the bridge and whose rotated files are those of the state plus one
    newest plain file. -/
theorem mountNext_preCleanup {cfg : Cfg} {r : RotCfg} {k m : Nat} (s : St)
    (act : Active) (a : Abs) (force : Bool) (now : Nat) (hcfg : s.cfg = cfg)
    (hi : CInv cfg r k m s.dir act a) (hst : act.stamp ≤ now)
    (h : (force || rotationNecessary r act now) = true) :
    ∃ (s0 : St) (act0 : Active) (ti : Infix),
      mountNext s act r force now noFaults = rotTailC s0 act0 ti r now ∧ s0.cfg = cfg ∧
      FV.FlwL.IfxDistinct (preCleanupDir s0 act0 ti now) ∧
      RotKeysDistinct (preCleanupDir s0 act0 ti now) ∧ GzOlder (preCleanupDir s0 act0 ti now) ∧
      ∃ i, (rotatedAsc (preCleanupDir s0 act0 ti now)).map tag =
        (rotatedAsc s.dir).map tag ++ [(some i, false)] := by
  rw [FV.FlwA.mountNext_due s act r force now noFaults h]
  obtain ⟨f0, C0, hd0, -⟩ := hi.dir
  obtain ⟨s0, act0, ti, f, C, hm, hc0, hp, hsC, hgz, hpat, hnew, hra⟩ :=
    mountNextCore_shape (flushAct s act).1 (flushAct s act).2 a true now hcfg
      (flush_inv cfg r k m s act a hi) hst rfl
  obtain ⟨h1, h2, h3, i, h4⟩ := preCleanup_premises s0 act0 ti r now f C _ _ hp hsC hgz hpat hnew
  refine ⟨s0, act0, ti, hm, hc0, h1, h2, h3, i, ?_⟩
  rw [h4, ← hra]
  exact congrArg (· ++ [(some i, false)]) (rotatedAsc_flush_tag hd0 act.pending)


theorem ofFlags_length (fl : List Bool) : (ofFlags fl).length = fl.length := by
  unfold ofFlags
  rw [List.length_map, List.length_zipIdx]

/-- a new newest plain file is `Bg`'s `rotate` -/
theorem ofFlags_append (fl : List Bool) (b : Bool) :
    ofFlags (fl ++ [b]) = ofFlags fl ++ [⟨(ofFlags fl).length, b⟩] := by
  rw [ofFlags_length]
  unfold ofFlags
  rw [List.zipIdx_append, List.map_append, List.zipIdx_singleton, Nat.zero_add]
  rfl

end FV.FlwBr
