import FlexiVerif.Lemmas.FlwDirA
/-
  `cleanup` never loses a plain rotated file silently: a plain file that disappears was either
  beyond the delete limit of the listing, or its compressed copy (same data) is in the directory
  afterwards -- for every fault assignment.

  Reusable helpers: `sortDesc_perm`, `listing_perm`, `mem_listing`, `listing_pairwise`,
  `cleanupLoop_get_frame`, `cleanupLoop_lossless`.
-/
namespace FV.FlwL
open FV.Flw
open FV.FlwA (ents)

/-- the relation "different infix" on directory entries -/
abbrev IfxNe (x y : FName × File) : Prop := x.1.ifx ≠ y.1.ifx

/-- no infix occurs twice in the directory (in particular not both plain and compressed) -/
def IfxDistinct (d : Dir) : Prop :=
  List.Pairwise (fun x y : FName × File => x.1.ifx ≠ y.1.ifx) d

instance (d : Dir) : Decidable (IfxDistinct d) :=
  List.instDecidablePairwise (R := fun x y : FName × File => x.1.ifx ≠ y.1.ifx) d

/-! ### the descending sort is a permutation -/

theorem insDesc_perm (x : FName × File) (l : List (FName × File)) :
    (insDesc x l).Perm (x :: l) := by
  induction l with
  | nil => exact List.Perm.refl _
  | cons y ys ih =>
    unfold insDesc
    split
    · split
      · exact List.Perm.refl _
      · exact (List.Perm.cons y ih).trans (List.Perm.swap x y ys)
    · exact (List.Perm.cons y ih).trans (List.Perm.swap x y ys)

theorem sortDesc_cons (x : FName × File) (l : List (FName × File)) :
    sortDesc (x :: l) = insDesc x (sortDesc l) := rfl

theorem sortDesc_perm (l : List (FName × File)) : (sortDesc l).Perm l := by
  induction l with
  | nil => exact List.Perm.refl _
  | cons x xs ih =>
    rw [sortDesc_cons]
    exact (insDesc_perm x (sortDesc xs)).trans (List.Perm.cons x ih)

theorem mem_sortDesc (l : List (FName × File)) (e : FName × File) : e ∈ sortDesc l ↔ e ∈ l :=
  (sortDesc_perm l).mem_iff

/-! ### the listing -/

/-- the entry has a rotated infix -/
def isRot (e : FName × File) : Bool :=
  match e.1.ifx with
  | some i => i.rotated
  | none => false

/-- the selection of `listing` for plain (`gz = false`) resp. compressed (`gz = true`) files -/
def sel (gz : Bool) (l : List (FName × File)) : List (FName × File) :=
  l.filter (fun e => e.1.gz = gz && isRot e)

/-- `listing` on the underlying list (`Dir` is not reducible, so the list-level facts are proved
    for `listingL` and transferred by definitional unfolding) -/
def listingL (l : List (FName × File)) : List (FName × File) :=
  sortDesc (sel false l) ++ sortDesc (sel true l)

theorem listing_eq (d : Dir) : listing d = listingL d := rfl

theorem mem_sel (gz : Bool) (l : List (FName × File)) (e : FName × File) :
    e ∈ sel gz l ↔ e ∈ l ∧ e.1.gz = gz ∧ isRot e = true := by
  simp [sel, List.mem_filter]

theorem listingL_perm (l : List (FName × File)) : (listingL l).Perm (sel false l ++ sel true l) :=
  List.Perm.append (sortDesc_perm _) (sortDesc_perm _)

/-- the listing is a permutation of the selected plain files followed by the selected
    compressed files -/
theorem listing_perm (d : Dir) : (listing d).Perm (sel false d ++ sel true d) := listingL_perm d

theorem l_mem_listing (l : List (FName × File)) (e : FName × File) :
    e ∈ listingL l ↔ e ∈ l ∧ isRot e = true := by
  rw [(listingL_perm l).mem_iff, List.mem_append, mem_sel, mem_sel]
  constructor
  · rintro (⟨h1, -, h3⟩ | ⟨h1, -, h3⟩) <;> exact ⟨h1, h3⟩
  · rintro ⟨h1, h3⟩
    cases hg : e.1.gz
    · exact Or.inl ⟨h1, rfl, h3⟩
    · exact Or.inr ⟨h1, rfl, h3⟩

/-- the entries of the listing are exactly the entries of the directory with a rotated infix -/
theorem mem_listing (d : Dir) (e : FName × File) :
    e ∈ listing d ↔ e ∈ ents d ∧ isRot e = true := l_mem_listing d e

theorem isRot_iff (e : FName × File) :
    isRot e = true ↔ ∃ i, e.1.ifx = some i ∧ i.rotated = true := by
  unfold isRot
  split
  · rename_i i hi
    simp [hi]
  · rename_i hn
    simp [hn]

/-- a plain file with a rotated infix is in the listing -/
theorem mem_listing_of_get (d : Dir) (i : Infix) (gz : Bool) (f : File)
    (h : d.get ⟨some i, gz⟩ = some f) (hr : i.rotated = true) :
    (⟨some i, gz⟩, f) ∈ listing d :=
  (mem_listing d _).2 ⟨FV.FlwA.mem_of_get d _ f h, (isRot_iff _).2 ⟨i, rfl, hr⟩⟩

/-- in a list that is pairwise related by a symmetric relation, different members are related -/
theorem pairwise_rel_of_mem {α : Type} {R : α → α → Prop} (hs : ∀ {x y}, R x y → R y x)
    (l : List α) (hp : l.Pairwise R) (x y : α) (hx : x ∈ l) (hy : y ∈ l) (hne : x ≠ y) :
    R x y := by
  induction l with
  | nil => cases hx
  | cons z zs ih =>
    obtain ⟨hz, hzs⟩ := List.pairwise_cons.1 hp
    rcases List.mem_cons.1 hx with rfl | hx'
    · rcases List.mem_cons.1 hy with rfl | hy'
      · exact absurd rfl hne
      · exact hz y hy'
    · rcases List.mem_cons.1 hy with rfl | hy'
      · exact hs (hz x hx')
      · exact ih hzs hx' hy'

theorem l_sel_pairwise (l : List (FName × File)) (hd : l.Pairwise IfxNe) :
    (sel false l ++ sel true l).Pairwise IfxNe := by
  rw [List.pairwise_append]
  refine ⟨hd.sublist List.filter_sublist, hd.sublist List.filter_sublist, ?_⟩
  intro a ha b hb
  obtain ⟨ha1, ha2, -⟩ := (mem_sel _ _ _).1 ha
  obtain ⟨hb1, hb2, -⟩ := (mem_sel _ _ _).1 hb
  apply pairwise_rel_of_mem (fun h => Ne.symm h) l hd a b ha1 hb1
  intro hab
  rw [hab, hb2] at ha2
  cases ha2

/-- the listing of a directory without duplicate infixes has no duplicate infixes -/
theorem listing_pairwise (d : Dir) (hd : IfxDistinct d) :
    (listing d).Pairwise (fun x y : FName × File => x.1.ifx ≠ y.1.ifx) :=
  (List.Perm.pairwise_iff (R := IfxNe) (fun h => Ne.symm h) (listingL_perm d)).2
    (l_sel_pairwise d hd)

/-! ### frame lemma: `cleanupLoop` only touches names whose infix is in the list -/

theorem cleanupLoop_nil (now : Nat) (hs : Bool) (k m : Nat) (fl : Faults) (i : Nat) (d : Dir)
    (rmCtr gzCtr : Nat) : cleanupLoop now hs k m fl [] i d rmCtr gzCtr = (d, false) := by
  rw [cleanupLoop]

theorem cleanupLoop_get_frame (now : Nat) (hs : Bool) (k m : Nat) (fl : Faults) (x : FName)
    (l : List (FName × File)) (i : Nat) (d : Dir) (rmCtr gzCtr : Nat)
    (h : ∀ e ∈ l, e.1.ifx ≠ x.ifx) :
    (cleanupLoop now hs k m fl l i d rmCtr gzCtr).1.get x = d.get x := by
  induction l generalizing i d rmCtr gzCtr with
  | nil => rw [cleanupLoop_nil]
  | cons e rest ih =>
    obtain ⟨n, f⟩ := e
    have hn : n.ifx ≠ x.ifx := h (n, f) List.mem_cons_self
    have hx : x ≠ n := fun hxn => hn (by rw [hxn])
    have hg : x ≠ { n with gz := true } := fun hxn => hn (by rw [hxn])
    have ih' := fun i d r g => ih i d r g (fun e he => h e (List.mem_cons_of_mem _ he))
    rw [cleanupLoop]
    split
    · split
      · rfl
      · rw [ih', FV.FlwA.get_erase_ne _ _ _ hx]
    · split
      · split
        · rw [ih']
        · split
          · rfl
          · split
            · exact FV.FlwA.get_set_ne _ _ _ _ hg
            · split
              · exact FV.FlwA.get_set_ne _ _ _ _ hg
              · split
                · exact FV.FlwA.get_set_ne _ _ _ _ hg
                · rw [ih', FV.FlwA.get_erase_ne _ _ _ hx, FV.FlwA.get_set_ne _ _ _ _ hg]
      · rw [ih']

/-! ### the loop never loses a plain file silently -/

/-- A plain file of the list that is in the directory before the loop and gone afterwards was
    either at a position beyond the delete limit, or its compressed copy is there afterwards. -/
theorem cleanupLoop_lossless (now : Nat) (hs : Bool) (k m : Nat) (fl : Faults)
    (l : List (FName × File)) (hp : l.Pairwise (fun x y => x.1.ifx ≠ y.1.ifx))
    (i : Nat) (d : Dir) (rmCtr gzCtr : Nat)
    (n : FName) (f : File) (hm : (n, f) ∈ l) (hgz : n.gz = false)
    (hin : d.get n ≠ none)
    (hout : (cleanupLoop now hs k m fl l i d rmCtr gzCtr).1.get n = none) :
    (∃ j, l[j]? = some (n, f) ∧ k + m ≤ i + j) ∨
    (cleanupLoop now hs k m fl l i d rmCtr gzCtr).1.get { n with gz := true } =
      some ⟨f.data, now⟩ := by
  induction l generalizing i d rmCtr gzCtr with
  | nil => cases hm
  | cons e rest ih =>
    obtain ⟨n0, f0⟩ := e
    obtain ⟨hhead, hrest⟩ := List.pairwise_cons.1 hp
    rcases List.mem_cons.1 hm with heq | hm'
    · -- the head is the file in question
      cases heq
      have hfr : ∀ (x : FName), x.ifx = n.ifx → ∀ i d r g,
          (cleanupLoop now hs k m fl rest i d r g).1.get x = d.get x := by
        intro x hx i d r g
        apply cleanupLoop_get_frame
        intro e he
        rw [hx]
        exact fun h => hhead e he h.symm
      have hne : n ≠ { n with gz := true } := by
        intro h
        have := congrArg FName.gz h
        rw [hgz] at this
        cases this
      by_cases h1 : i ≥ k + m
      · exact Or.inl ⟨0, rfl, by omega⟩
      · right
        generalize hres : cleanupLoop now hs k m fl ((n, f) :: rest) i d rmCtr gzCtr = res
          at hout ⊢
        rw [cleanupLoop, if_neg h1] at hres
        dsimp only at hres
        split at hres
        · split at hres
          · subst hres
            rw [hfr n rfl] at hout
            exact absurd hout hin
          · split at hres
            · subst hres
              exact absurd hout hin
            · split at hres
              · subst hres
                rw [FV.FlwA.get_set_ne _ _ _ _ hne] at hout
                exact absurd hout hin
              · split at hres
                · subst hres
                  rw [FV.FlwA.get_set_ne _ _ _ _ hne] at hout
                  exact absurd hout hin
                · split at hres
                  · subst hres
                    rw [FV.FlwA.get_set_ne _ _ _ _ hne] at hout
                    exact absurd hout hin
                  · subst hres
                    rw [hfr { n with gz := true } rfl, FV.FlwA.get_erase_ne _ _ _ hne.symm,
                      FV.FlwA.get_set_self]
        · subst hres
          rw [hfr n rfl] at hout
          exact absurd hout hin
    · -- the file is in the tail
      have hi : n0.ifx ≠ n.ifx := hhead (n, f) hm'
      have hx : n ≠ n0 := fun h => hi (by rw [h])
      have hg : n ≠ { n0 with gz := true } := fun h => hi (by rw [h])
      have shift : ∀ {i' : Nat} {P : Prop}, i' = i + 1 →
          ((∃ j, rest[j]? = some (n, f) ∧ k + m ≤ i' + j) ∨ P) →
          ((∃ j, ((n0, f0) :: rest)[j]? = some (n, f) ∧ k + m ≤ i + j) ∨ P) := by
        intro i' P hi' h
        rcases h with ⟨j, hj1, hj2⟩ | h
        · exact Or.inl ⟨j + 1, by rw [List.getElem?_cons_succ]; exact hj1, by omega⟩
        · exact Or.inr h
      generalize hres : cleanupLoop now hs k m fl ((n0, f0) :: rest) i d rmCtr gzCtr = res
        at hout ⊢
      rw [cleanupLoop] at hres
      dsimp only at hres
      split at hres
      · split at hres
        · subst hres
          exact absurd hout hin
        · subst hres
          exact shift rfl (ih hrest _ _ _ _ hm'
            (by rw [FV.FlwA.get_erase_ne _ _ _ hx]; exact hin) hout)
      · split at hres
        · split at hres
          · subst hres
            exact shift rfl (ih hrest _ _ _ _ hm' hin hout)
          · split at hres
            · subst hres
              exact absurd hout hin
            · split at hres
              · subst hres
                rw [FV.FlwA.get_set_ne _ _ _ _ hg] at hout
                exact absurd hout hin
              · split at hres
                · subst hres
                  rw [FV.FlwA.get_set_ne _ _ _ _ hg] at hout
                  exact absurd hout hin
                · split at hres
                  · subst hres
                    rw [FV.FlwA.get_set_ne _ _ _ _ hg] at hout
                    exact absurd hout hin
                  · subst hres
                    exact shift rfl (ih hrest _ _ _ _ hm'
                      (by rw [FV.FlwA.get_erase_ne _ _ _ hx, FV.FlwA.get_set_ne _ _ _ _ hg]
                          exact hin)
                      hout)
        · subst hres
          exact shift rfl (ih hrest _ _ _ _ hm' hin hout)

/-! ### `cleanup` -/

theorem cleanup_eq (now : Nat) (cfg : Cfg) (r : RotCfg) (fl : Faults) (d : Dir) (k m : Nat)
    (hc : r.cleanup = some (k, m)) :
    cleanup now cfg r fl d =
      cleanupLoop now cfg.hasSuffix (if r.naming.writesDirect && k = 0 then 1 else k) m fl
        (listing d) 0 d 0 0 := by
  unfold cleanup
  rw [hc]

/-- Lossless compression, for EVERY fault assignment `fl`: a plain file that is in the directory
    before `cleanup` and gone afterwards was either beyond the delete limit in the listing, or its
    compressed copy with the same data is in the directory afterwards. -/
theorem cleanup_lossless (now : Nat) (cfg : Cfg) (r : RotCfg) (fl : Faults) (d : Dir) (k m : Nat)
    (hc : r.cleanup = some (k, m)) (hd : IfxDistinct d) (i : Infix) (f : File)
    (hin : d.get ⟨some i, false⟩ = some f)
    (hout : (cleanup now cfg r fl d).1.get ⟨some i, false⟩ = none) :
    (∃ j, (listing d)[j]? = some (⟨some i, false⟩, f) ∧
        (if r.naming.writesDirect && k = 0 then 1 else k) + m ≤ j) ∨
    (∃ g, (cleanup now cfg r fl d).1.get ⟨some i, true⟩ = some g ∧ g.data = f.data) := by
  rw [cleanup_eq now cfg r fl d k m hc] at hout ⊢
  by_cases hr : i.rotated = true
  · have hm := mem_listing_of_get d i false f hin hr
    have hin' : d.get ⟨some i, false⟩ ≠ none := by rw [hin]; exact fun h => nomatch h
    rcases cleanupLoop_lossless now cfg.hasSuffix _ m fl (listing d) (listing_pairwise d hd)
        0 d 0 0 ⟨some i, false⟩ f hm rfl hin' hout with ⟨j, hj1, hj2⟩ | h
    · exact Or.inl ⟨j, hj1, by omega⟩
    · exact Or.inr ⟨_, h, rfl⟩
  · exfalso
    rw [cleanupLoop_get_frame, hin] at hout
    · cases hout
    · intro e he heq
      obtain ⟨i', hi1, hi2⟩ := (isRot_iff e).1 ((mem_listing d e).1 he).2
      rw [hi1] at heq
      cases heq
      exact hr hi2

/-! ### non-vacuity: both disjuncts occur -/

/-- three plain files `r00000`, `r00001`, `r00002` -/
def exDir : Dir := [(⟨some (.num 0), false⟩, ⟨[10], 0⟩), (⟨some (.num 1), false⟩, ⟨[11], 0⟩),
  (⟨some (.num 2), false⟩, ⟨[12], 0⟩)]
/-- keep 1 plain and 1 compressed file -/
def exRot : RotCfg := ⟨none, none, .numbers, some (1, 1)⟩
def exCfg : Cfg := ⟨some exRot, false, none, false, true⟩

/-- The listing is `[2, 1, 0]`; `r00001` (position 1 < 2) is compressed, `r00000`
    (position 2 ≥ 2) is deleted: each disjunct of `cleanup_lossless` occurs, and alone. -/
example :
    IfxDistinct exDir ∧
    -- `r00001`: gone, not beyond the limit, compressed copy present (second disjunct only)
    exDir.get ⟨some (.num 1), false⟩ = some ⟨[11], 0⟩ ∧
    (cleanup 7 exCfg exRot noFaults exDir).1.get ⟨some (.num 1), false⟩ = none ∧
    (listing exDir)[1]? = some (⟨some (.num 1), false⟩, ⟨[11], 0⟩) ∧
    (cleanup 7 exCfg exRot noFaults exDir).1.get ⟨some (.num 1), true⟩ = some ⟨[11], 7⟩ ∧
    -- `r00000`: gone, beyond the limit `1 + 1 ≤ 2`, no compressed copy (first disjunct only)
    exDir.get ⟨some (.num 0), false⟩ = some ⟨[10], 0⟩ ∧
    (cleanup 7 exCfg exRot noFaults exDir).1.get ⟨some (.num 0), false⟩ = none ∧
    (listing exDir)[2]? = some (⟨some (.num 0), false⟩, ⟨[10], 0⟩) ∧
    (cleanup 7 exCfg exRot noFaults exDir).1.get ⟨some (.num 0), true⟩ = none ∧
    -- `r00002` is kept
    (cleanup 7 exCfg exRot noFaults exDir).1.get ⟨some (.num 2), false⟩ = some ⟨[12], 0⟩ := by
  decide

/-- with a failing `remove` after the compression the pass aborts and the plain files stay -/
example :
    (cleanup 7 exCfg exRot { removeF := some 0 } exDir).1.get ⟨some (.num 1), false⟩ =
      some ⟨[11], 0⟩ ∧
    (cleanup 7 exCfg exRot { removeF := some 0 } exDir).1.get ⟨some (.num 1), true⟩ =
      some ⟨[11], 7⟩ ∧
    (cleanup 7 exCfg exRot { removeF := some 0 } exDir).1.get ⟨some (.num 0), false⟩ =
      some ⟨[10], 0⟩ ∧
    (cleanup 7 exCfg exRot { removeF := some 0 } exDir).2 = true := by
  decide

end FV.FlwL
