import FlexiVerif.Model.Fmt
/-
  Helper lemmas about the `Fmt` model (C20).
-/
namespace FV.Fmt
open FV

/-! ### control characters and hex digits -/

theorem ctrl_table : ∀ n : Fin 32,
    unicodeEscape '0' '0' (hexDigit (n.val / 16)) (hexDigit (n.val % 16)) = some (Char.ofNat n.val) ∧
    32 ≤ (hexDigit (n.val / 16)).toNat ∧ 32 ≤ (hexDigit (n.val % 16)).toNat ∧
    hexDigit (n.val / 16) ≠ '"' ∧ hexDigit (n.val / 16) ≠ '\\' ∧
    hexDigit (n.val % 16) ≠ '"' ∧ hexDigit (n.val % 16) ≠ '\\' := by
  decide

/-- The three shapes of an escaped character. -/
inductive EscShape (c : Char) : List Char → Prop where
  | simple (e : Char) (hu : e ≠ 'u') (hs : simpleEscape e = some c) (he : 32 ≤ e.toNat) :
      EscShape c ['\\', e]
  | unicode (h l : Char) (hx : unicodeEscape '0' '0' h l = some c)
      (h1 : 32 ≤ h.toNat) (h2 : 32 ≤ l.toNat) (h3 : h ≠ '"') (h4 : h ≠ '\\')
      (h5 : l ≠ '"') (h6 : l ≠ '\\') : EscShape c ['\\', 'u', '0', '0', h, l]
  | plain (h1 : c ≠ '"') (h2 : c ≠ '\\') (h3 : ¬ c.toNat < 32) : EscShape c [c]

theorem escShape (c : Char) : EscShape c (jsonEscapeChar c) := by
  unfold jsonEscapeChar
  split
  · subst_vars; exact .simple '"' (by decide) (by decide) (by decide)
  split
  · subst_vars; exact .simple '\\' (by decide) (by decide) (by decide)
  split
  · subst_vars; exact .simple 'b' (by decide) (by decide) (by decide)
  split
  · subst_vars; exact .simple 'f' (by decide) (by decide) (by decide)
  split
  · subst_vars; exact .simple 'n' (by decide) (by decide) (by decide)
  split
  · subst_vars; exact .simple 'r' (by decide) (by decide) (by decide)
  split
  · subst_vars; exact .simple 't' (by decide) (by decide) (by decide)
  split
  · rename_i h
    have t := ctrl_table ⟨c.toNat, h⟩
    simp only [Char.ofNat_toNat] at t
    exact .unicode _ _ t.1 t.2.1 t.2.2.1 t.2.2.2.1 t.2.2.2.2.1 t.2.2.2.2.2.1 t.2.2.2.2.2.2
  · rename_i h1 h2 _ _ _ _ _ h3
    exact .plain h1 h2 h3

/-! ### the decoder on one escaped character -/

theorem jsonUnescape_simple (e x : Char) (rest : List Char) (h : e ≠ 'u')
    (hs : simpleEscape e = some x) :
    jsonUnescape ('\\' :: e :: rest) = (jsonUnescape rest).map (x :: ·) := by
  rw [jsonUnescape.eq_def]; simp [h, hs]

theorem jsonUnescape_unicode (a b c d x : Char) (rest : List Char)
    (h : unicodeEscape a b c d = some x) :
    jsonUnescape ('\\' :: 'u' :: a :: b :: c :: d :: rest) = (jsonUnescape rest).map (x :: ·) := by
  rw [jsonUnescape.eq_def]; simp [h]

theorem jsonUnescape_plain (c : Char) (rest : List Char) (h1 : c ≠ '\\') (h2 : c ≠ '"')
    (h3 : ¬ c.toNat < 32) :
    jsonUnescape (c :: rest) = (jsonUnescape rest).map (c :: ·) := by
  rw [jsonUnescape.eq_def]; simp [h1, h2, h3]

theorem jsonUnescape_escapeChar (c : Char) (rest : List Char) :
    jsonUnescape (jsonEscapeChar c ++ rest) = (jsonUnescape rest).map (c :: ·) := by
  have hsh := escShape c
  generalize jsonEscapeChar c = x at hsh ⊢
  cases hsh with
  | simple e hu hs _ => exact jsonUnescape_simple e c rest hu hs
  | unicode h l hx => exact jsonUnescape_unicode _ _ _ _ c rest hx
  | plain h1 h2 h3 => exact jsonUnescape_plain c rest h2 h1 h3

theorem jsonUnescape_escape_append (s rest : List Char) :
    jsonUnescape (jsonEscape s ++ rest) = (jsonUnescape rest).map (s ++ ·) := by
  induction s with
  | nil => simp [jsonEscape]
  | cons c cs ih =>
    simp only [jsonEscape, List.append_assoc, jsonUnescape_escapeChar, ih, Option.map_map]
    rfl

theorem jsonEscape_append (a b : List Char) : jsonEscape (a ++ b) = jsonEscape a ++ jsonEscape b := by
  induction a with
  | nil => rfl
  | cons c cs ih => simp [jsonEscape, ih]

/-! ### printable characters -/

/-- no character below U+0020 (in particular no line break) -/
def Printable (l : List Char) : Prop := ∀ c ∈ l, 32 ≤ c.toNat

instance (l : List Char) : Decidable (Printable l) := by unfold Printable; infer_instance

theorem printable_nil : Printable [] := by simp [Printable]
theorem printable_cons {c : Char} {l : List Char} :
    Printable (c :: l) ↔ 32 ≤ c.toNat ∧ Printable l := by simp [Printable]
theorem printable_append {a b : List Char} : Printable (a ++ b) ↔ Printable a ∧ Printable b := by
  simp only [Printable, List.mem_append]
  constructor
  · intro h; exact ⟨fun c hc => h c (Or.inl hc), fun c hc => h c (Or.inr hc)⟩
  · rintro ⟨h1, h2⟩ c (hc | hc)
    · exact h1 c hc
    · exact h2 c hc

theorem printable_escapeChar (c : Char) : Printable (jsonEscapeChar c) := by
  have hsh := escShape c
  generalize jsonEscapeChar c = x at hsh ⊢
  cases hsh with
  | simple e hu hs he => simp [Printable, he]
  | unicode h l hx h1 h2 => simp [Printable, h1, h2]
  | plain h1 h2 h3 => simp only [Printable, List.mem_singleton]; intro d hd; subst hd; omega

theorem printable_escape (s : List Char) : Printable (jsonEscape s) := by
  induction s with
  | nil => exact printable_nil
  | cons c cs ih => exact printable_append.mpr ⟨printable_escapeChar c, ih⟩

/-! ### the string reader on escaped text -/

theorem readString_quote (rest : List Char) : readString ('"' :: rest) = some ([], rest) := by
  rw [readString.eq_def]; simp

theorem readString_bs (e : Char) (rest : List Char) :
    readString ('\\' :: e :: rest) = (readString rest).map (fun p => ('\\' :: e :: p.1, p.2)) := by
  rw [readString.eq_def]; simp

theorem readString_plain (c : Char) (rest : List Char) (h1 : c ≠ '"') (h2 : c ≠ '\\') :
    readString (c :: rest) = (readString rest).map (fun p => (c :: p.1, p.2)) := by
  rw [readString.eq_def]; simp [h1, h2]

theorem readString_escapeChar (c : Char) (rest : List Char) :
    readString (jsonEscapeChar c ++ rest) =
      (readString rest).map (fun p => (jsonEscapeChar c ++ p.1, p.2)) := by
  have hsh := escShape c
  generalize jsonEscapeChar c = x at hsh ⊢
  cases hsh with
  | simple e hu hs _ => exact readString_bs e rest
  | unicode h l hx h1 h2 h3 h4 h5 h6 =>
    simp only [List.cons_append, List.nil_append, readString_bs]
    rw [readString_plain '0' _ (by decide) (by decide), readString_plain '0' _ (by decide) (by decide),
      readString_plain h _ h3 h4, readString_plain l _ h5 h6]
    simp [Option.map_map, Function.comp_def]
  | plain h1 h2 h3 => exact readString_plain c rest h1 h2

theorem readString_escape (s rest : List Char) :
    readString (jsonEscape s ++ '"' :: rest) = some (jsonEscape s, rest) := by
  induction s with
  | nil => simp [jsonEscape, readString_quote]
  | cons c cs ih => simp [jsonEscape, readString_escapeChar, ih]

/-! ### recursive logging -/

mutual
  theorem emit_eq_map (fmt : Rec → List Char) (le : List Char) :
      ∀ t, emit fmt le t = (postorder t).map (fun r => fmt r ++ le)
    | .node r inner => by
      simp [emit, postorder, emitList_eq_map fmt le inner, frame]
  theorem emitList_eq_map (fmt : Rec → List Char) (le : List Char) :
      ∀ ts, emitList fmt le ts = (postorderList ts).map (fun r => fmt r ++ le)
    | [] => rfl
    | t :: ts => by
      simp [emitList, postorderList, emit_eq_map fmt le t, emitList_eq_map fmt le ts]
end

mutual
  theorem postorder_length : ∀ t, (postorder t).length = t.size
    | .node r inner => by simp [postorder, RTree.size, postorderList_length inner]
  theorem postorderList_length : ∀ ts, (postorderList ts).length = sizeList ts
    | [] => rfl
    | t :: ts => by simp [postorderList, sizeList, postorder_length t, postorderList_length ts]
end

/-! ### the deferred timestamp -/

theorem now_some {T : Type} (c t : T) : now c (some t) = (t, some t) := rfl
theorem now_none {T : Type} (c : T) : now c (none : Option T) = (c, some c) := rfl

theorem renderOutputsFrom_some {T : Type} (render : T → List Char) (r : Rec) (t : T)
    (outs : List (Output × T)) :
    renderOutputsFrom render r (some t) outs =
      outs.map (fun p => frame p.1.le (p.1.fmt.run (render t) r)) := by
  induction outs with
  | nil => rfl
  | cons p rest ih =>
    obtain ⟨o, c⟩ := p
    rw [renderOutputsFrom]
    cases hf : o.fmt with
    | noTs g => simp [FmtFn.run, hf, ih]
    | withTs g => simp [FmtFn.run, hf, ih, now_some]

theorem renderOutputsFrom_none {T : Type} (render : T → List Char) (r : Rec)
    (outs : List (Output × T)) :
    renderOutputsFrom render r none outs =
      match firstReading outs with
      | some t => outs.map (fun p => frame p.1.le (p.1.fmt.run (render t) r))
      | none => outs.map (fun p => frame p.1.le (p.1.fmt.run [] r)) := by
  induction outs with
  | nil => simp [renderOutputsFrom, firstReading]
  | cons p rest ih =>
    obtain ⟨o, c⟩ := p
    rw [renderOutputsFrom, firstReading]
    cases hf : o.fmt with
    | noTs g =>
      simp only [ih]
      cases firstReading rest <;> simp [FmtFn.run, hf]
    | withTs g => simp [FmtFn.run, hf, now_none, renderOutputsFrom_some]

/-- without a timestamp-using output the timestamp text is irrelevant -/
theorem run_irrelevant {T : Type} (r : Rec) (outs : List (Output × T))
    (h : firstReading outs = none) (ts ts' : List Char) :
    outs.map (fun p => frame p.1.le (p.1.fmt.run ts r)) =
      outs.map (fun p => frame p.1.le (p.1.fmt.run ts' r)) := by
  induction outs with
  | nil => rfl
  | cons p rest ih =>
    obtain ⟨o, c⟩ := p
    rw [firstReading] at h
    cases hf : o.fmt with
    | noTs g =>
      rw [hf] at h
      simp only [List.map_cons, ih h]
      simp [FmtFn.run, hf]
    | withTs g => rw [hf] at h; simp at h

/-! ### decimal digits -/

/-- `'0'..'9'` by code point -/
def DigitLike (c : Char) : Prop := 48 ≤ c.toNat ∧ c.toNat ≤ 57

theorem digit_table : ∀ k : Fin 10, (Char.ofNat (48 + k.val)).toNat = 48 + k.val := by decide

theorem digitChar_digitLike (n : Nat) : DigitLike (digitChar n) := by
  have h := digit_table ⟨n % 10, Nat.mod_lt _ (by decide)⟩
  simp only at h
  unfold DigitLike digitChar
  rw [h]; omega

theorem natDigits_digitLike (fuel n : Nat) : ∀ c ∈ natDigits fuel n, DigitLike c := by
  induction fuel generalizing n with
  | zero => simp [natDigits]
  | succ f ih =>
    rw [natDigits]
    split
    · simp only [List.mem_singleton]; rintro c rfl; exact digitChar_digitLike n
    · simp only [List.mem_append, List.mem_singleton]
      rintro c (hc | rfl)
      · exact ih _ c hc
      · exact digitChar_digitLike n

theorem natToText_digitLike (n : Nat) : ∀ c ∈ natToText n, DigitLike c :=
  natDigits_digitLike _ _

theorem printable_natToText (n : Nat) : Printable (natToText n) := by
  intro c hc
  have := natToText_digitLike n c hc
  unfold DigitLike at this; omega

/-! ### joinWith -/

theorem mem_joinWith {sep : List Char} {l : List (List Char)} {c : Char}
    (h : c ∈ joinWith sep l) : c ∈ sep ∨ ∃ x ∈ l, c ∈ x := by
  induction l with
  | nil => simp [joinWith] at h
  | cons x r ih =>
    cases r with
    | nil => simp only [joinWith] at h; exact Or.inr ⟨x, by simp, h⟩
    | cons y r' =>
      simp only [joinWith, List.mem_append] at h
      rcases h with (h | h) | h
      · exact Or.inr ⟨x, by simp, h⟩
      · exact Or.inl h
      · rcases ih h with h | ⟨z, hz, hc⟩
        · exact Or.inl h
        · exact Or.inr ⟨z, List.mem_cons_of_mem _ hz, hc⟩

theorem printable_joinWith {sep : List Char} {l : List (List Char)}
    (hs : Printable sep) (hl : ∀ x ∈ l, Printable x) : Printable (joinWith sep l) := by
  intro c hc
  rcases mem_joinWith hc with h | ⟨x, hx, h⟩
  · exact hs c h
  · exact hl x hx c h

/-! ### printable pieces of the JSON line -/

theorem printable_levelName (l : Nat) : Printable (levelName l) := by
  unfold levelName
  split <;> decide

theorem printable_jsonStr (s : List Char) : Printable (jsonStr s) := by
  unfold jsonStr
  refine printable_cons.mpr ⟨by decide, printable_append.mpr ⟨printable_escape s, by decide⟩⟩

theorem printable_jsonKey (k : List Char) : Printable (jsonKey k) := by
  unfold jsonKey
  exact printable_append.mpr ⟨printable_jsonStr k, by decide⟩

theorem printable_jsonValue (v : KV) : Printable (jsonValue v) := by
  cases v with
  | str s => exact printable_jsonStr s
  | num n => exact printable_natToText n

theorem printable_jsonMember (p : List Char × KV) : Printable (jsonMember p) :=
  printable_append.mpr ⟨printable_jsonKey _, printable_jsonValue _⟩

theorem printable_jsonKvObject (kvs : List (List Char × KV)) : Printable (jsonKvObject kvs) := by
  unfold jsonKvObject
  refine printable_cons.mpr ⟨by decide, printable_append.mpr ⟨?_, by decide⟩⟩
  apply printable_joinWith (by decide)
  intro x hx
  obtain ⟨p, _, rfl⟩ := List.mem_map.mp hx
  exact printable_jsonMember p

theorem printable_optField (key : String) (v : Option (List Char)) :
    ∀ x ∈ optField key v, Printable x := by
  cases v with
  | none => simp [optField]
  | some s =>
    simp only [optField, List.mem_singleton]
    rintro x rfl
    exact printable_append.mpr ⟨printable_jsonKey _, printable_jsonStr s⟩

theorem printable_jsonFields (ts : List Char) (r : Rec) :
    ∀ x ∈ jsonFields ts r, Printable x := by
  intro x hx
  simp only [jsonFields, List.mem_append, List.mem_cons, List.not_mem_nil, or_false] at hx
  rcases hx with (((((hx | hx) | hx) | hx) | hx) | hx) | hx
  · rcases hx with rfl | rfl
    · exact printable_append.mpr ⟨printable_jsonKey _, printable_jsonStr _⟩
    · exact printable_append.mpr ⟨printable_jsonKey _, printable_jsonStr _⟩
  · exact printable_optField _ _ x hx
  · exact printable_optField _ _ x hx
  · exact printable_optField _ _ x hx
  · cases hl : r.line with
    | none => simp [hl] at hx
    | some n =>
      simp only [hl, List.mem_singleton] at hx
      subst hx
      exact printable_append.mpr ⟨printable_jsonKey _, printable_natToText n⟩
  · split at hx
    · simp at hx
    · simp only [List.mem_singleton] at hx
      subst hx
      exact printable_append.mpr ⟨printable_jsonKey _, printable_jsonKvObject _⟩
  · subst hx
    exact printable_append.mpr ⟨printable_jsonKey _, printable_jsonStr _⟩

/-! ### the member splitter -/

theorem split_esc (d : Nat) (cur : List Char) (c : Char) (r : List Char) :
    splitTopAux d .esc cur (c :: r) = splitTopAux d .str (c :: cur) r := by
  rw [splitTopAux]

theorem split_str_bs (d : Nat) (cur : List Char) (r : List Char) :
    splitTopAux d .str cur ('\\' :: r) = splitTopAux d .esc ('\\' :: cur) r := by
  rw [splitTopAux.eq_def]; simp

theorem split_str_quote (d : Nat) (cur : List Char) (r : List Char) :
    splitTopAux d .str cur ('"' :: r) = splitTopAux d .top ('"' :: cur) r := by
  rw [splitTopAux.eq_def]; simp

theorem split_str_plain (d : Nat) (cur : List Char) (c : Char) (r : List Char)
    (h1 : c ≠ '"') (h2 : c ≠ '\\') :
    splitTopAux d .str cur (c :: r) = splitTopAux d .str (c :: cur) r := by
  rw [splitTopAux.eq_def]; simp [h1, h2]

theorem split_top_quote (d : Nat) (cur : List Char) (r : List Char) :
    splitTopAux d .top cur ('"' :: r) = splitTopAux d .str ('"' :: cur) r := by
  rw [splitTopAux.eq_def]; simp

theorem split_top_open (d : Nat) (cur : List Char) (r : List Char) :
    splitTopAux d .top cur ('{' :: r) = splitTopAux (d + 1) .top ('{' :: cur) r := by
  rw [splitTopAux.eq_def]; simp

theorem split_top_close_succ (d : Nat) (cur : List Char) (r : List Char) :
    splitTopAux (d + 1) .top cur ('}' :: r) = splitTopAux d .top ('}' :: cur) r := by
  rw [splitTopAux.eq_def]; simp

theorem split_top_close_zero (cur : List Char) (r : List Char) :
    splitTopAux 0 .top cur ('}' :: r) = [cur.reverse] := by
  rw [splitTopAux.eq_def]; simp

theorem split_top_comma_zero (cur : List Char) (r : List Char) :
    splitTopAux 0 .top cur (',' :: r) = cur.reverse :: splitTopAux 0 .top [] r := by
  rw [splitTopAux.eq_def]; simp

/-- characters without lexical meaning for the splitter outside strings (commas excepted) -/
def TopPlain (c : Char) : Prop :=
  c ≠ '"' ∧ c ≠ '{' ∧ c ≠ '[' ∧ c ≠ '}' ∧ c ≠ ']' ∧ c ≠ ','

instance (c : Char) : Decidable (TopPlain c) := by unfold TopPlain; infer_instance

theorem split_top_plain (d : Nat) (cur : List Char) (c : Char) (r : List Char) (h : TopPlain c) :
    splitTopAux d .top cur (c :: r) = splitTopAux d .top (c :: cur) r := by
  obtain ⟨h1, h2, h3, h4, h5, h6⟩ := h
  rw [splitTopAux.eq_def]; simp [h1, h2, h3, h4, h5, h6]

theorem split_top_comma_succ (d : Nat) (cur : List Char) (r : List Char) :
    splitTopAux (d + 1) .top cur (',' :: r) = splitTopAux (d + 1) .top (',' :: cur) r := by
  rw [splitTopAux.eq_def]; simp

theorem split_str_escapeChar (d : Nat) (cur : List Char) (c : Char) (rest : List Char) :
    splitTopAux d .str cur (jsonEscapeChar c ++ rest) =
      splitTopAux d .str ((jsonEscapeChar c).reverse ++ cur) rest := by
  have hsh := escShape c
  generalize jsonEscapeChar c = x at hsh ⊢
  cases hsh with
  | simple e hu hs _ => simp [split_str_bs, split_esc]
  | unicode h l hx h1 h2 h3 h4 h5 h6 =>
    simp only [List.cons_append, List.nil_append, split_str_bs, split_esc]
    rw [split_str_plain _ _ '0' _ (by decide) (by decide),
      split_str_plain _ _ '0' _ (by decide) (by decide),
      split_str_plain _ _ h _ h3 h4, split_str_plain _ _ l _ h5 h6]
    simp
  | plain h1 h2 h3 => simp [split_str_plain _ _ c _ h1 h2]

theorem split_str_escape (d : Nat) (cur : List Char) (s rest : List Char) :
    splitTopAux d .str cur (jsonEscape s ++ rest) =
      splitTopAux d .str ((jsonEscape s).reverse ++ cur) rest := by
  induction s generalizing cur with
  | nil => simp [jsonEscape]
  | cons c cs ih =>
    simp only [jsonEscape, List.append_assoc, split_str_escapeChar, ih, List.reverse_append]

/-- Outside strings at nesting depth `d`, the splitter passes over `seg` and comes back to the
    same depth outside strings. -/
def Neutral (d : Nat) (seg : List Char) : Prop :=
  ∀ cur rest, splitTopAux d .top cur (seg ++ rest) = splitTopAux d .top (seg.reverse ++ cur) rest

theorem neutral_nil (d : Nat) : Neutral d [] := by intro cur rest; rfl

theorem neutral_append {d : Nat} {a b : List Char} (ha : Neutral d a) (hb : Neutral d b) :
    Neutral d (a ++ b) := by
  intro cur rest
  rw [List.append_assoc, ha, hb]; simp

theorem neutral_plain {d : Nat} {c : Char} (h : TopPlain c) : Neutral d [c] := by
  intro cur rest
  simp [split_top_plain d cur c rest h]

theorem neutral_comma (d : Nat) : Neutral (d + 1) [','] := by
  intro cur rest
  simp [split_top_comma_succ]

theorem neutral_jsonStr (d : Nat) (s : List Char) : Neutral d (jsonStr s) := by
  intro cur rest
  simp [jsonStr, split_top_quote, split_str_escape, split_str_quote]

theorem neutral_braces {d : Nat} {seg : List Char} (h : Neutral (d + 1) seg) :
    Neutral d ('{' :: seg ++ ['}']) := by
  intro cur rest
  simp only [List.cons_append, List.append_assoc]
  rw [split_top_open, h, split_top_close_succ]
  simp

theorem digitLike_topPlain {c : Char} (h : DigitLike c) : TopPlain c := by
  unfold DigitLike at h
  refine ⟨?_, ?_, ?_, ?_, ?_, ?_⟩ <;> (rintro rfl; revert h; decide)

theorem neutral_of_topPlain {d : Nat} {seg : List Char} (h : ∀ c ∈ seg, TopPlain c) :
    Neutral d seg := by
  induction seg with
  | nil => exact neutral_nil d
  | cons c cs ih =>
    have := neutral_append (neutral_plain (d := d) (h c (by simp)))
      (ih (fun x hx => h x (List.mem_cons_of_mem _ hx)))
    simpa using this

theorem neutral_natToText (d n : Nat) : Neutral d (natToText n) :=
  neutral_of_topPlain (fun c hc => digitLike_topPlain (natToText_digitLike n c hc))

theorem neutral_jsonKey (d : Nat) (k : List Char) : Neutral d (jsonKey k) :=
  neutral_append (neutral_jsonStr d k) (neutral_plain (by decide))

theorem neutral_jsonMember (d : Nat) (p : List Char × KV) : Neutral d (jsonMember p) := by
  unfold jsonMember
  apply neutral_append (neutral_jsonKey d _)
  cases p.2 with
  | str s => exact neutral_jsonStr d s
  | num n => exact neutral_natToText d n

theorem neutral_joinWith {d : Nat} {sep : List Char} {l : List (List Char)}
    (hs : Neutral d sep) (hl : ∀ x ∈ l, Neutral d x) : Neutral d (joinWith sep l) := by
  induction l with
  | nil => exact neutral_nil d
  | cons x r ih =>
    cases r with
    | nil => exact hl x (by simp)
    | cons y r' =>
      simp only [joinWith]
      exact neutral_append (neutral_append (hl x (by simp)) hs)
        (ih (fun z hz => hl z (List.mem_cons_of_mem _ hz)))

theorem neutral_jsonKvObject (d : Nat) (kvs : List (List Char × KV)) :
    Neutral d (jsonKvObject kvs) := by
  unfold jsonKvObject
  apply neutral_braces
  apply neutral_joinWith (neutral_comma d)
  intro x hx
  obtain ⟨p, _, rfl⟩ := List.mem_map.mp hx
  exact neutral_jsonMember (d + 1) p

theorem neutral_optField (key : String) (v : Option (List Char)) :
    ∀ x ∈ optField key v, Neutral 0 x := by
  cases v with
  | none => simp [optField]
  | some s =>
    simp only [optField, List.mem_singleton]
    rintro x rfl
    exact neutral_append (neutral_jsonKey 0 _) (neutral_jsonStr 0 s)

theorem neutral_jsonFields (ts : List Char) (r : Rec) : ∀ x ∈ jsonFields ts r, Neutral 0 x := by
  intro x hx
  simp only [jsonFields, List.mem_append, List.mem_cons, List.not_mem_nil, or_false] at hx
  rcases hx with (((((hx | hx) | hx) | hx) | hx) | hx) | hx
  · rcases hx with rfl | rfl <;> exact neutral_append (neutral_jsonKey 0 _) (neutral_jsonStr 0 _)
  · exact neutral_optField _ _ x hx
  · exact neutral_optField _ _ x hx
  · exact neutral_optField _ _ x hx
  · cases hl : r.line with
    | none => simp [hl] at hx
    | some n =>
      simp only [hl, List.mem_singleton] at hx
      subst hx
      exact neutral_append (neutral_jsonKey 0 _) (neutral_natToText 0 n)
  · split at hx
    · simp at hx
    · simp only [List.mem_singleton] at hx
      subst hx
      exact neutral_append (neutral_jsonKey 0 _) (neutral_jsonKvObject 0 _)
  · subst hx
    exact neutral_append (neutral_jsonKey 0 _) (neutral_jsonStr 0 _)

/-- the splitter recovers a non-empty list of neutral members -/
theorem split_members (fs : List (List Char)) (hne : fs ≠ []) (hn : ∀ f ∈ fs, Neutral 0 f)
    (rest : List Char) :
    splitTopAux 0 .top [] (joinWith [','] fs ++ '}' :: rest) = fs := by
  induction fs with
  | nil => exact absurd rfl hne
  | cons x r ih =>
    cases r with
    | nil =>
      simp only [joinWith]
      rw [hn x (by simp), split_top_close_zero]; simp
    | cons y r' =>
      simp only [joinWith, List.append_assoc, List.cons_append, List.nil_append]
      rw [hn x (by simp), split_top_comma_zero]
      have := ih (by simp) (fun z hz => hn z (List.mem_cons_of_mem _ hz))
      simp only [List.append_nil, List.reverse_reverse]
      rw [this]

theorem jsonFields_ne_nil (ts : List Char) (r : Rec) : jsonFields ts r ≠ [] := by
  simp [jsonFields]

theorem splitTop_jsonFormat (ts : List Char) (r : Rec) :
    splitTop (jsonFormat ts r) = some (jsonFields ts r) := by
  have := split_members _ (jsonFields_ne_nil ts r) (neutral_jsonFields ts r) []
  simp only [jsonFormat, List.cons_append, splitTop, this]

/-! ### finding a member by its key -/

theorem dropPrefix?_append (pre rest : List Char) : dropPrefix? pre (pre ++ rest) = some rest := by
  induction pre with
  | nil => cases rest <;> rfl
  | cons p ps ih => simp [dropPrefix?, ih]

/-- a key as it occurs in `LogLine`: no quote inside, nothing to escape -/
def KeyOK (k : List Char) : Prop := '"' ∉ k ∧ jsonEscape k = k

instance (k : List Char) : Decidable (KeyOK k) := by unfold KeyOK; infer_instance

/-- two different quote-free keys, each followed by a quote, differ before or at that quote -/
theorem dropPrefix?_key_ne (q k x y : List Char) (hq : '"' ∉ q) (hk : '"' ∉ k) (hne : q ≠ k) :
    dropPrefix? (q ++ '"' :: x) (k ++ '"' :: y) = none := by
  induction q generalizing k with
  | nil =>
    cases k with
    | nil => exact absurd rfl hne
    | cons c cs =>
      have : '"' ≠ c := by intro h; subst h; simp at hk
      simp [dropPrefix?, this]
  | cons p ps ih =>
    cases k with
    | nil =>
      have : p ≠ '"' := by intro h; subst h; simp at hq
      simp [dropPrefix?, this]
    | cons c cs =>
      simp only [List.cons_append, dropPrefix?]
      split
      · subst_vars
        exact ih cs (by simp at hq; exact hq.2) (by simp at hk; exact hk.2) (by simpa using hne)
      · rfl

theorem memberString?_hit (k v : List Char) (hk : KeyOK k) :
    memberString? k (jsonKey k ++ jsonStr v) = some (jsonEscape v) := by
  have : jsonKey k ++ jsonStr v = ('"' :: k ++ "\":\"".toList) ++ (jsonEscape v ++ ['"']) := by
    simp [jsonKey, jsonStr, hk.2]
  rw [memberString?, this, dropPrefix?_append]
  simp [readString_escape]

theorem memberString?_miss (q k v : List Char) (hq : '"' ∉ q) (hk : KeyOK k) (hne : q ≠ k) :
    memberString? q (jsonKey k ++ v) = none := by
  have : dropPrefix? ('"' :: q ++ "\":\"".toList) (jsonKey k ++ v) = none := by
    simp only [jsonKey, jsonStr, hk.2, List.cons_append, dropPrefix?, List.append_assoc, if_true]
    exact dropPrefix?_key_ne q k _ _ hq hk.1 hne
  rw [memberString?, this]


theorem find_str (q k v : List Char) (hq : '"' ∉ q) (hk : KeyOK k) :
    [jsonKey k ++ jsonStr v].findSome? (memberString? q) =
      if q = k then some (jsonEscape v) else none := by
  by_cases h : q = k
  · subst h; simp [memberString?_hit _ _ hk]
  · simp [memberString?_miss q _ _ hq hk h, h]

theorem find_optField (q : List Char) (k : String) (v : Option (List Char)) (hq : '"' ∉ q)
    (hk : KeyOK k.toList) :
    (optField k v).findSome? (memberString? q) =
      if q = k.toList then v.map jsonEscape else none := by
  cases v with
  | none => simp [optField]
  | some s => exact find_str q k.toList s hq hk

theorem find_other (q k v : List Char) (hq : '"' ∉ q) (hk : KeyOK k) (hne : q ≠ k) :
    [jsonKey k ++ v].findSome? (memberString? q) = none := by
  simp [memberString?_miss q _ _ hq hk hne]

/-- the string-valued members, looked up by key -/
theorem find_jsonFields (q : List Char) (hq : '"' ∉ q) (ts : List Char) (r : Rec)
    (h1 : q ≠ "line".toList) (h2 : q ≠ "kv".toList) :
    (jsonFields ts r).findSome? (memberString? q) =
      if q = "level".toList then some (jsonEscape (levelName r.level))
      else if q = "timestamp".toList then some (jsonEscape ts)
      else if q = "thread".toList then r.thread.map jsonEscape
      else if q = "module_path".toList then r.modulePath.map jsonEscape
      else if q = "file".toList then r.file.map jsonEscape
      else if q = "text".toList then some (jsonEscape r.msg)
      else none := by
  have hline : (match r.line with
      | none => []
      | some n => [jsonKey "line".toList ++ natToText n]).findSome? (memberString? q) = none := by
    cases r.line with
    | none => rfl
    | some n => exact find_other q _ _ hq (by decide) h1
  have hkv : (if r.kvs.isEmpty then [] else [jsonKey "kv".toList ++ jsonKvObject r.kvs]).findSome?
      (memberString? q) = none := by
    split
    · rfl
    · exact find_other q _ _ hq (by decide) h2
  have e : jsonFields ts r =
      [jsonKey "level".toList ++ jsonStr (levelName r.level)] ++
      [jsonKey "timestamp".toList ++ jsonStr ts] ++
      optField "thread" r.thread ++ optField "module_path" r.modulePath ++
      optField "file" r.file ++
      (match r.line with
       | none => []
       | some n => [jsonKey "line".toList ++ natToText n]) ++
      (if r.kvs.isEmpty then [] else [jsonKey "kv".toList ++ jsonKvObject r.kvs]) ++
      [jsonKey "text".toList ++ jsonStr r.msg] := rfl
  rw [e]
  repeat rw [List.findSome?_append]
  rw [hline, hkv, find_str q _ _ hq (by decide), find_str q _ _ hq (by decide),
    find_str q _ _ hq (by decide), find_optField q _ _ hq (by decide),
    find_optField q _ _ hq (by decide), find_optField q _ _ hq (by decide)]
  by_cases a1 : q = "level".toList
  · simp [a1]
  by_cases a2 : q = "timestamp".toList
  · simp [a2]
  by_cases a3 : q = "thread".toList
  · subst a3; cases r.thread <;> simp
  by_cases a4 : q = "module_path".toList
  · subst a4; cases r.modulePath <;> simp
  by_cases a5 : q = "file".toList
  · subst a5; cases r.file <;> simp
  by_cases a6 : q = "text".toList
  · subst a6; cases r.thread <;> cases r.modulePath <;> cases r.file <;> simp
  simp only [if_neg a1, if_neg a2, if_neg a3, if_neg a4, if_neg a5, if_neg a6, Option.or_none]


theorem rawMember_hit (k v : List Char) (hk : KeyOK k) :
    dropPrefix? ('"' :: k ++ "\":".toList) (jsonKey k ++ v) = some v := by
  have : jsonKey k ++ v = ('"' :: k ++ "\":".toList) ++ v := by
    simp [jsonKey, jsonStr, hk.2]
  rw [this, dropPrefix?_append]

theorem rawMember_miss (q k v : List Char) (hq : '"' ∉ q) (hk : KeyOK k) (hne : q ≠ k) :
    dropPrefix? ('"' :: q ++ "\":".toList) (jsonKey k ++ v) = none := by
  simp only [jsonKey, jsonStr, hk.2, List.cons_append, dropPrefix?, List.append_assoc, if_true]
  exact dropPrefix?_key_ne q k _ _ hq hk.1 hne

theorem findRaw_one (q k v : List Char) (hq : '"' ∉ q) (hk : KeyOK k) :
    [jsonKey k ++ v].findSome? (dropPrefix? ('"' :: q ++ "\":".toList)) =
      if q = k then some v else none := by
  by_cases h : q = k
  · subst h; simp only [List.findSome?_cons, rawMember_hit _ _ hk, if_true]
  · simp only [List.findSome?_cons, List.findSome?_nil, rawMember_miss q _ _ hq hk h, if_neg h]

theorem findRaw_optField (q : List Char) (k : String) (v : Option (List Char)) (hq : '"' ∉ q)
    (hk : KeyOK k.toList) :
    (optField k v).findSome? (dropPrefix? ('"' :: q ++ "\":".toList)) =
      if q = k.toList then v.map jsonStr else none := by
  cases v with
  | none => simp [optField]
  | some s => exact findRaw_one q k.toList _ hq hk

/-- the two members that are not strings, looked up by key -/
theorem findRaw_jsonFields (ts : List Char) (r : Rec) :
    (jsonFields ts r).findSome? (dropPrefix? ('"' :: "line".toList ++ "\":".toList)) =
        r.line.map natToText ∧
    (jsonFields ts r).findSome? (dropPrefix? ('"' :: "kv".toList ++ "\":".toList)) =
        if r.kvs.isEmpty then none else some (jsonKvObject r.kvs) := by
  have e : jsonFields ts r =
      [jsonKey "level".toList ++ jsonStr (levelName r.level)] ++
      [jsonKey "timestamp".toList ++ jsonStr ts] ++
      optField "thread" r.thread ++ optField "module_path" r.modulePath ++
      optField "file" r.file ++
      (match r.line with
       | none => []
       | some n => [jsonKey "line".toList ++ natToText n]) ++
      (if r.kvs.isEmpty then [] else [jsonKey "kv".toList ++ jsonKvObject r.kvs]) ++
      [jsonKey "text".toList ++ jsonStr r.msg] := rfl
  have hline (q : List Char) (hq : '"' ∉ q) : (match r.line with
      | none => []
      | some n => [jsonKey "line".toList ++ natToText n]).findSome?
        (dropPrefix? ('"' :: q ++ "\":".toList)) =
        if q = "line".toList then r.line.map natToText else none := by
    cases r.line with
    | none => simp
    | some n => exact findRaw_one q _ _ hq (by decide)
  have hkv (q : List Char) (hq : '"' ∉ q) :
      (if r.kvs.isEmpty then [] else [jsonKey "kv".toList ++ jsonKvObject r.kvs]).findSome?
        (dropPrefix? ('"' :: q ++ "\":".toList)) =
        if q = "kv".toList then (if r.kvs.isEmpty then none else some (jsonKvObject r.kvs))
        else none := by
    by_cases h : r.kvs.isEmpty
    · simp [h]
    · simp only [h]; exact findRaw_one q _ _ hq (by decide)
  rw [e]
  constructor
  · repeat rw [List.findSome?_append]
    rw [hline _ (by decide), hkv _ (by decide), findRaw_one _ _ _ (by decide) (by decide),
      findRaw_one _ _ _ (by decide) (by decide), findRaw_one _ _ _ (by decide) (by decide),
      findRaw_optField _ _ _ (by decide) (by decide), findRaw_optField _ _ _ (by decide) (by decide),
      findRaw_optField _ _ _ (by decide) (by decide)]
    cases r.line <;> simp
  · repeat rw [List.findSome?_append]
    rw [hline _ (by decide), hkv _ (by decide), findRaw_one _ _ _ (by decide) (by decide),
      findRaw_one _ _ _ (by decide) (by decide), findRaw_one _ _ _ (by decide) (by decide),
      findRaw_optField _ _ _ (by decide) (by decide), findRaw_optField _ _ _ (by decide) (by decide),
      findRaw_optField _ _ _ (by decide) (by decide)]
    by_cases h : r.kvs.isEmpty <;> simp [h]


/-! ### the key-value map -/

theorem char_toNat_inj {a b : Char} (h : a.toNat = b.toNat) : a = b := by
  apply Char.ext; apply UInt32.toNat_inj.mp; exact h

theorem ltText_irrefl (a : List Char) : ltText a a = false := by
  induction a with
  | nil => rfl
  | cons c cs ih => simp [ltText, ih]

theorem ltText_trichotomy : ∀ (a b : List Char), ltText a b = false → ltText b a = false → a = b
  | [], [], _, _ => rfl
  | [], _ :: _, h, _ => by simp [ltText] at h
  | _ :: _, [], _, h => by simp [ltText] at h
  | a :: as, b :: bs, h1, h2 => by
    simp only [ltText] at h1 h2
    by_cases hab : a.toNat < b.toNat
    · simp [hab] at h1
    · by_cases hba : b.toNat < a.toNat
      · simp [hba] at h2
      · simp only [hab, hba, if_false] at h1 h2
        have : a = b := char_toNat_inj (by omega)
        rw [this, ltText_trichotomy as bs h1 h2]

theorem ltText_trans : ∀ (a b c : List Char), ltText a b = true → ltText b c = true → ltText a c = true
  | [], [], _, h, _ => by simp [ltText] at h
  | [], _ :: _, [], _, h => by simp [ltText] at h
  | [], _ :: _, _ :: _, _, _ => by simp [ltText]
  | _ :: _, [], _, h, _ => by simp [ltText] at h
  | _ :: _, _ :: _, [], _, h => by simp [ltText] at h
  | a :: as, b :: bs, c :: cs, h1, h2 => by
    simp only [ltText] at h1 h2 ⊢
    by_cases hab : a.toNat < b.toNat
    · by_cases hbc : b.toNat < c.toNat
      · have : a.toNat < c.toNat := by omega
        simp [this]
      · by_cases hcb : c.toNat < b.toNat
        · simp [hbc, hcb] at h2
        · have : a.toNat < c.toNat := by omega
          simp [this]
    · by_cases hba : b.toNat < a.toNat
      · simp [hab, hba] at h1
      · simp only [hab, hba, if_false] at h1
        by_cases hbc : b.toNat < c.toNat
        · have : a.toNat < c.toNat := by omega
          simp [this]
        · by_cases hcb : c.toNat < b.toNat
          · simp [hbc, hcb] at h2
          · simp only [hbc, hcb, if_false] at h2
            have e1 : ¬ a.toNat < c.toNat := by omega
            have e2 : ¬ c.toNat < a.toNat := by omega
            simp only [e1, e2, if_false]
            exact ltText_trans as bs cs h1 h2

/-- all keys of `m` are above `k` -/
def KeysAbove (k : List Char) (m : List (List Char × KV)) : Prop := ∀ p ∈ m, ltText k p.1 = true

/-- strictly ascending keys -/
def SortedKeys : List (List Char × KV) → Prop
  | [] => True
  | p :: rest => KeysAbove p.1 rest ∧ SortedKeys rest

theorem kvInsert_mem {k : List Char} {v : KV} {m : List (List Char × KV)} {p : List Char × KV}
    (h : p ∈ kvInsert k v m) : p = (k, v) ∨ p ∈ m := by
  induction m with
  | nil => simp [kvInsert] at h; exact Or.inl h
  | cons q rest ih =>
    obtain ⟨k', v'⟩ := q
    simp only [kvInsert] at h
    split at h
    · rcases List.mem_cons.mp h with h | h
      · exact Or.inr (by simp [h])
      · rcases ih h with h | h
        · exact Or.inl h
        · exact Or.inr (List.mem_cons_of_mem _ h)
    · split at h
      · rcases List.mem_cons.mp h with h | h
        · exact Or.inl h
        · exact Or.inr h
      · rcases List.mem_cons.mp h with h | h
        · exact Or.inl h
        · exact Or.inr (List.mem_cons_of_mem _ h)

theorem kvInsert_sorted (k : List Char) (v : KV) (m : List (List Char × KV)) (h : SortedKeys m) :
    SortedKeys (kvInsert k v m) := by
  induction m with
  | nil => simp [kvInsert, SortedKeys, KeysAbove]
  | cons q rest ih =>
    obtain ⟨k', v'⟩ := q
    obtain ⟨ha, hs⟩ := h
    simp only [kvInsert]
    split
    · rename_i hlt
      refine ⟨?_, ih hs⟩
      intro p hp
      rcases kvInsert_mem hp with rfl | hp
      · exact hlt
      · exact ha p hp
    · split
      · rename_i _ hlt
        refine ⟨?_, ha, hs⟩
        intro p hp
        rcases List.mem_cons.mp hp with rfl | hp
        · exact hlt
        · exact ltText_trans _ _ _ hlt (ha p hp)
      · rename_i h1 h2
        have : k' = k := ltText_trichotomy k' k (by simpa using h1) (by simpa using h2)
        subst this
        exact ⟨ha, hs⟩

theorem kvMap_sorted_aux (kvs m : List (List Char × KV)) (h : SortedKeys m) :
    SortedKeys (kvs.foldl (fun m p => kvInsert p.1 p.2 m) m) := by
  induction kvs generalizing m with
  | nil => exact h
  | cons p ps ih => exact ih _ (kvInsert_sorted p.1 p.2 m h)

theorem kvMap_sorted (kvs : List (List Char × KV)) : SortedKeys (kvMap kvs) :=
  kvMap_sorted_aux kvs [] trivial


theorem kvGet_insert (k k0 : List Char) (v : KV) (m : List (List Char × KV)) :
    kvGet k0 (kvInsert k v m) = if k = k0 then some v else kvGet k0 m := by
  induction m with
  | nil => simp [kvInsert, kvGet]
  | cons q rest ih =>
    obtain ⟨k', v'⟩ := q
    simp only [kvInsert]
    split
    · rename_i hlt
      simp only [kvGet, ih]
      by_cases e : k' = k0
      · have : k ≠ k0 := by
          rintro rfl; subst e; simp [ltText_irrefl] at hlt
        simp [e, this]
      · simp [e]
    · split
      · simp [kvGet]
      · rename_i h1 h2
        have : k' = k := ltText_trichotomy k' k (by simpa using h1) (by simpa using h2)
        subst this
        simp only [kvGet]
        by_cases e : k' = k0 <;> simp [e]


theorem kvMap_get_aux (k0 : List Char) (kvs m : List (List Char × KV)) :
    kvGet k0 (kvs.foldl (fun m p => kvInsert p.1 p.2 m) m) =
      match kvGet k0 kvs.reverse with
      | some v => some v
      | none => kvGet k0 m := by
  induction kvs generalizing m with
  | nil => simp [kvGet]
  | cons p ps ih =>
    simp only [List.foldl_cons, ih, kvGet_insert, List.reverse_cons]
    have happ : ∀ (l : List (List Char × KV)), kvGet k0 (l ++ [p]) =
        match kvGet k0 l with
        | some v => some v
        | none => if p.1 = k0 then some p.2 else none := by
      intro l
      induction l with
      | nil => simp [kvGet]
      | cons q r ihr =>
        obtain ⟨k', v'⟩ := q
        simp only [List.cons_append, kvGet]
        by_cases e : k' = k0 <;> simp [e, ihr]
    rw [happ]
    cases kvGet k0 ps.reverse with
    | some v => simp
    | none => by_cases e : p.1 = k0 <;> simp [e]

theorem kvMap_get (k : List Char) (kvs : List (List Char × KV)) :
    kvGet k (kvMap kvs) = kvGet k kvs.reverse := by
  rw [kvMap, kvMap_get_aux]
  cases kvGet k kvs.reverse <;> simp [kvGet]


theorem sortedKeys_pairwise (m : List (List Char × KV)) (h : SortedKeys m) :
    m.Pairwise (fun a b => ltText a.1 b.1 = true) := by
  induction m with
  | nil => exact List.Pairwise.nil
  | cons p rest ih => exact List.pairwise_cons.mpr ⟨h.1, ih h.2⟩

end FV.Fmt
