/-
  Property C06 for the *direct* namings (`Naming.numbersDirect`, `Naming.timestampsDirect`):
  restarting a logger on the same directory never destroys or reorders the records of earlier
  runs.

  Main results (no cleanup, any criterion, any capacity / `append` / `symlink` per run):
  * `multi_run_stream_B`   the stream theorem for multi-run histories, no guard (since the
      `fix:` of finding D22: an appending `timestampsDirect` run continues the newest file,
      `appendTarget_eq`, `appendTarget_of_last`);
  * `multi_run_stream_B_numbersDirect`, `multi_run_stream_B_timestampsDirect`,
      `multi_run_stream_B_tsd_no_append`  its instances;
  * `multi_run_stream_B_partial`  the guarded form (`AppendGuard`) that was provable before the
      repair; `tsd_append_restart_former_witness`  the history that refuted the unguarded
      statement then, and behaves well now;
  * `init_inv2`, `restart_init_B`, `restart_write_B`  the shape of a restart;
  * `fresh_names_B`  no existing file is ever reused, overwritten or truncated;
  * `guardB_sound`  a decidable sufficient check for the former guard.
-/
import FlexiVerif.Lemmas.FlwAbs
import FlexiVerif.Lemmas.FlwRefineB
import FlexiVerif.Lemmas.FlwDirA
namespace FV.FlwB
open FV.Flw

/-! ### multi-run histories -/

def isRestart : Op → Bool
  | .restart _ => true
  | _ => false

/-- after these operations nothing is buffered in the process (or there is no process) -/
def quiesces : Op → Bool
  | .flush | .shutdown | .restart _ => true
  | _ => false

/-- every restart directly follows a flush/shutdown (or another restart), or is the first
    operation -/
def flushedBeforeRestart : List (Op × Nat × Faults) → Bool
  | o1 :: o2 :: rest => (!isRestart o2.1 || quiesces o1.1) && flushedBeforeRestart (o2 :: rest)
  | _ => true

def FlushedBeforeRestart (ops : List (Op × Nat × Faults)) : Prop := flushedBeforeRestart ops = true

/-- plain operations and restarts with the same rotation configuration; `append`, `cap`,
    `symlink` may change per run -/
def MultiRun (rot : Option RotCfg) (ops : List (Op × Nat × Faults)) : Prop :=
  (∀ o ∈ ops, (o.1.plain = true ∨ ∃ c, o.1 = .restart c ∧ c.rot = rot) ∧ o.2.2 = noFaults) ∧
  Monotone ops ∧
  FlushedBeforeRestart ops

/-- configurations handled here (any `append`) -/
def CfgMB (cfg : Cfg) : Prop :=
  NoCleanup cfg ∧
  ∃ r, cfg.rot = some r ∧ (r.naming = .numbersDirect ∨ r.naming = .timestampsDirect)

/-! ### maxima computed by folding -/

/-- the shape of `highestIndex` and `latestStamp` -/
def foldMax (g : FName × File → Option Nat) (d : List (FName × File)) (acc : Option Nat) :
    Option Nat :=
  d.foldl (fun acc e => match g e with
    | some n => some (match acc with | none => n | some a => max a n)
    | none => acc) acc

theorem foldMax_spec (g : FName × File → Option Nat) (d : List (FName × File)) :
    ∀ acc : Option Nat,
      (∀ m, foldMax g d acc = some m →
        (acc = some m ∨ ∃ e ∈ d, g e = some m) ∧ (∀ x, acc = some x → x ≤ m) ∧
        (∀ e ∈ d, ∀ n, g e = some n → n ≤ m)) ∧
      (foldMax g d acc = none → acc = none ∧ ∀ e ∈ d, g e = none) := by
  induction d with
  | nil =>
    intro acc
    simp only [foldMax, List.foldl_nil, List.not_mem_nil, false_and, exists_false, or_false,
      false_implies, implies_true, and_true]
    refine ⟨?_, id⟩
    intro m h
    subst h
    exact ⟨rfl, fun x hx => by cases hx; exact Nat.le_refl _⟩
  | cons e d ih =>
    intro acc
    have hstep : foldMax g (e :: d) acc = foldMax g d (match g e with
        | some n => some (match acc with | none => n | some a => max a n)
        | none => acc) := rfl
    rw [hstep]
    clear hstep
    cases hg : g e with
    | none =>
      simp only
      obtain ⟨ih1, ih2⟩ := ih acc
      constructor
      · intro m hm
        obtain ⟨h1, h2, h3⟩ := ih1 m hm
        refine ⟨?_, h2, ?_⟩
        · rcases h1 with h1 | ⟨e', he', hge'⟩
          · exact Or.inl h1
          · exact Or.inr ⟨e', by simp [he'], hge'⟩
        · intro e' he' n hn
          rcases List.mem_cons.1 he' with rfl | he'
          · rw [hg] at hn; cases hn
          · exact h3 e' he' n hn
      · intro hm
        obtain ⟨h1, h2⟩ := ih2 hm
        refine ⟨h1, ?_⟩
        intro e' he'
        rcases List.mem_cons.1 he' with rfl | he'
        · exact hg
        · exact h2 e' he'
    | some n =>
      simp only
      obtain ⟨ih1, ih2⟩ := ih (some (match acc with | none => n | some a => max a n))
      constructor
      · intro m hm
        obtain ⟨h1, h2, h3⟩ := ih1 m hm
        have hle := h2 _ rfl
        refine ⟨?_, ?_, ?_⟩
        · rcases h1 with h1 | ⟨e', he', hge'⟩
          · cases acc with
            | none =>
              simp only [Option.some.injEq] at h1
              exact Or.inr ⟨e, by simp, by rw [hg, h1]⟩
            | some a =>
              simp only [Option.some.injEq] at h1
              by_cases han : a ≤ n
              · exact Or.inr ⟨e, by simp, by rw [hg]; congr 1; omega⟩
              · left; congr 1; omega
          · exact Or.inr ⟨e', by simp [he'], hge'⟩
        · intro x hx
          subst hx
          simp only at hle
          omega
        · intro e' he' n' hn'
          rcases List.mem_cons.1 he' with rfl | he'
          · rw [hg] at hn'; cases hn'
            cases acc with
            | none => simpa using hle
            | some a => simp only at hle; omega
          · exact h3 e' he' n' hn'
      · intro hm
        obtain ⟨h1, _⟩ := ih2 hm
        cases h1

def numOf (e : FName × File) : Option Nat :=
  match e.1.ifx with
  | some (.num n) => some n
  | _ => none

def stampOf (e : FName × File) : Option Nat :=
  match e.1.ifx, e.1.gz with
  | some (.ts k _), false => some k
  | _, _ => none

theorem highestIndex_eq (d : List (FName × File)) : highestIndex d = foldMax numOf d none := by
  unfold highestIndex foldMax
  generalize (none : Option Nat) = acc
  induction d generalizing acc with
  | nil => rfl
  | cons e d ih =>
    rw [List.foldl_cons, List.foldl_cons, ih]
    congr 1
    obtain ⟨⟨ifx, gz⟩, f⟩ := e
    cases ifx with
    | none => rfl
    | some i => cases i <;> rfl

theorem latestStamp_eq (d : List (FName × File)) : latestStamp d = foldMax stampOf d none := by
  unfold latestStamp foldMax
  generalize (none : Option Nat) = acc
  induction d generalizing acc with
  | nil => rfl
  | cons e d ih =>
    rw [List.foldl_cons, List.foldl_cons, ih]
    congr 1
    obtain ⟨⟨ifx, gz⟩, f⟩ := e
    cases ifx with
    | none => rfl
    | some i => cases i <;> cases gz <;> rfl

theorem numOf_eq_some {e : FName × File} {m : Nat} (h : numOf e = some m) :
    e.1.ifx = some (.num m) := by
  obtain ⟨⟨ifx, gz⟩, f⟩ := e
  cases ifx with
  | none => simp [numOf] at h
  | some i => cases i <;> simp_all [numOf]

theorem stampOf_eq_some {e : FName × File} {m : Nat} (h : stampOf e = some m) :
    ∃ r, e.1.ifx = some (.ts m r) := by
  obtain ⟨⟨ifx, gz⟩, f⟩ := e
  cases ifx with
  | none => simp [stampOf] at h
  | some i => cases i <;> cases gz <;> simp_all [stampOf]

/-- in a described directory every other key is below the last one -/
theorem DirIs.lt_last {d pre : List (FName × File)} {x : FName × File}
    (h : DirIs d (pre ++ [x])) : ∀ e ∈ pre, keyLt (nkey e.1) (nkey x.1) = true := by
  intro e he
  have hs := h.2.1
  simp only [List.map_append, List.map_cons, List.map_nil, List.pairwise_append,
    List.mem_map, List.mem_singleton] at hs
  exact hs.2.2 e.1 ⟨e, he, rfl⟩ _ rfl

theorem DirIs.mem_last {d pre : List (FName × File)} {x : FName × File}
    (h : DirIs d (pre ++ [x])) : x ∈ d := h.1.symm.subset (by simp)

theorem highestIndex_of_last {d pre : List (FName × File)} {h : Nat} {f : File}
    (hd : DirIs d (pre ++ [(⟨some (.num h), false⟩, f)])) : highestIndex d = some h := by
  rw [highestIndex_eq]
  obtain ⟨s1, s2⟩ := foldMax_spec numOf d none
  have hlast := hd.mem_last
  cases hres : foldMax numOf d none with
  | none =>
    have := (s2 hres).2 _ hlast
    simp [numOf] at this
  | some m =>
    obtain ⟨h1, _, h3⟩ := s1 m hres
    have hle : h ≤ m := h3 _ hlast h rfl
    rcases h1 with h1 | ⟨e, he, hge⟩
    · cases h1
    · have hifx := numOf_eq_some hge
      rcases List.mem_append.1 (hd.1.subset he) with hp | hp
      · have := hd.lt_last e hp
        simp [nkey, hifx, Infix.key, keyLt] at this
        omega
      · simp only [List.mem_singleton] at hp
        subst hp
        simp only [Option.some.injEq, Infix.num.injEq] at hifx
        rw [hifx]

theorem latestStamp_of_last {d pre : List (FName × File)} {k : Nat} {r : Option Nat} {f : File}
    (hd : DirIs d (pre ++ [(⟨some (.ts k r), false⟩, f)])) : latestStamp d = some k := by
  rw [latestStamp_eq]
  obtain ⟨s1, s2⟩ := foldMax_spec stampOf d none
  have hlast := hd.mem_last
  cases hres : foldMax stampOf d none with
  | none =>
    have := (s2 hres).2 _ hlast
    simp [stampOf] at this
  | some m =>
    obtain ⟨h1, _, h3⟩ := s1 m hres
    have hle : k ≤ m := h3 _ hlast k rfl
    rcases h1 with h1 | ⟨e, he, hge⟩
    · cases h1
    · obtain ⟨r', hifx⟩ := stampOf_eq_some hge
      rcases List.mem_append.1 (hd.1.subset he) with hp | hp
      · have := hd.lt_last e hp
        have hm : m ≤ k := by
          cases r <;> cases r' <;> simp [nkey, hifx, Infix.key, keyLt] at this <;> omega
        congr 1; omega
      · simp only [List.mem_singleton] at hp
        subst hp
        simp only [Option.some.injEq, Infix.ts.injEq] at hifx
        rw [hifx.1]

/-! ### the file an appending `timestampsDirect` run continues (`appendTarget`) -/

theorem foldl_max_spec (ss : List Nat) : ∀ s : Nat,
    s ≤ ss.foldl max s ∧ (∀ x ∈ ss, x ≤ ss.foldl max s) ∧
    (ss.foldl max s = s ∨ ss.foldl max s ∈ ss) := by
  induction ss with
  | nil => intro s; simp
  | cons y ys ih =>
    intro s
    obtain ⟨h1, h2, h3⟩ := ih (max s y)
    simp only [List.foldl_cons, List.mem_cons]
    refine ⟨by omega, ?_, ?_⟩
    · intro x hx
      rcases hx with rfl | hx
      · omega
      · exact h2 x hx
    · rcases h3 with h3 | h3
      · rw [h3]
        by_cases hsy : y ≤ s
        · left; omega
        · right; left; omega
      · exact Or.inr (Or.inr h3)

/-- the restart numbers of the plain files with stamp `k` -/
def plainSiblings (d : List (FName × File)) (k : Nat) : List Nat :=
  d.filterMap (fun e => match e.1.ifx, e.1.gz with
    | some (.ts k' (some r)), false => if k' = k then some r else none
    | _, _ => none)

theorem mem_plainSiblings (d : List (FName × File)) (k x : Nat) :
    x ∈ plainSiblings d k ↔ ∃ e ∈ d, e.1.ifx = some (.ts k (some x)) ∧ e.1.gz = false := by
  unfold plainSiblings
  rw [List.mem_filterMap]
  constructor
  · rintro ⟨e, he, h⟩
    refine ⟨e, he, ?_⟩
    obtain ⟨⟨ifx, gz⟩, f⟩ := e
    cases ifx with
    | none => simp at h
    | some i =>
      cases i with
      | ts k' r =>
        cases r with
        | none => simp at h
        | some r =>
          cases gz with
          | true => simp at h
          | false =>
            simp only at h
            split at h
            · rename_i hk; cases h; subst hk; exact ⟨rfl, rfl⟩
            · cases h
      | _ => simp at h
  · rintro ⟨e, he, h1, h2⟩
    refine ⟨e, he, ?_⟩
    obtain ⟨⟨ifx, gz⟩, f⟩ := e
    simp only at h1 h2
    subst h1 h2
    simp

theorem appendTarget_def (d : List (FName × File)) (k : Nat) :
    appendTarget d k = (match plainSiblings d k with
      | s :: ss => .ts k (some (ss.foldl max s))
      | [] => if Dir.has d ⟨some (.ts k none), false⟩ then .ts k none else collisionFree d k) := rfl

/-- **the file an appending `timestampsDirect` run continues**: if the plain file `ts k r0` exists
    and no plain file with stamp `k` has a higher restart number, it is `ts k r0` — the plain
    file with the largest key among the plain files with stamp `k` -/
theorem appendTarget_eq (d : List (FName × File)) (k : Nat) (r0 : Option Nat) (f : File)
    (hmem : (⟨some (.ts k r0), false⟩, f) ∈ d)
    (hmax : ∀ e ∈ d, e.1.gz = false → ∀ r, e.1.ifx = some (.ts k (some r)) →
      ∃ r1, r0 = some r1 ∧ r ≤ r1) :
    appendTarget d k = .ts k r0 := by
  rw [appendTarget_def]
  have hsib : ∀ x ∈ plainSiblings d k, ∃ r1, r0 = some r1 ∧ x ≤ r1 := by
    intro x hx
    obtain ⟨e, he, h1, h2⟩ := (mem_plainSiblings d k x).1 hx
    exact hmax e he h2 x h1
  cases r0 with
  | none =>
    have hnil : plainSiblings d k = [] := by
      cases hs : plainSiblings d k with
      | nil => rfl
      | cons s ss =>
        obtain ⟨r1, h, _⟩ := hsib s (by rw [hs]; simp)
        cases h
    rw [hnil]
    have hhas : Dir.has d ⟨some (.ts k none), false⟩ = true := by
      unfold Dir.has
      cases hg : Dir.get d ⟨some (.ts k none), false⟩ with
      | some v => rfl
      | none =>
        exfalso
        exact (FV.FlwA.get_eq_none_iff d _).1 hg _ hmem rfl
    simp only [hhas, if_true]
  | some r1 =>
    have hin : r1 ∈ plainSiblings d k := (mem_plainSiblings d k r1).2 ⟨_, hmem, rfl, rfl⟩
    cases hs : plainSiblings d k with
    | nil => rw [hs] at hin; cases hin
    | cons s ss =>
      simp only
      obtain ⟨g1, g2, g3⟩ := foldl_max_spec ss s
      have hmemmax : ss.foldl max s ∈ plainSiblings d k := by
        rw [hs]
        rcases g3 with g3 | g3
        · rw [g3]; simp
        · simp [g3]
      obtain ⟨r1', h, hle⟩ := hsib _ hmemmax
      cases h
      have hge : r1 ≤ ss.foldl max s := by
        rw [hs] at hin
        rcases List.mem_cons.1 hin with h | h
        · omega
        · exact g2 _ h
      congr 2
      omega

/-- under the guard (the newest stamp has no `.restart-N` sibling) the file continued is the
    base file, as before the `fix:` -/
theorem appendTarget_base (d : List (FName × File)) (k : Nat) (f : File)
    (hmem : (⟨some (.ts k none), false⟩, f) ∈ d)
    (hno : ∀ e ∈ d, ∀ r, e.1.ifx ≠ some (.ts k (some r))) :
    appendTarget d k = .ts k none :=
  appendTarget_eq d k none f hmem (fun e he _ r h => absurd h (hno e he r))

/-- in a described directory the file continued is the newest file -/
theorem appendTarget_of_last {d pre : List (FName × File)} {k : Nat} {r : Option Nat} {f : File}
    (hd : DirIs d (pre ++ [(⟨some (.ts k r), false⟩, f)])) : appendTarget d k = .ts k r := by
  refine appendTarget_eq d k r f hd.mem_last ?_
  intro e he _ r' hifx
  rcases List.mem_append.1 (hd.1.subset he) with hp | hp
  · have := hd.lt_last e hp
    cases r with
    | none => simp [nkey, hifx, Infix.key, keyLt] at this
    | some r1 =>
      refine ⟨r1, rfl, ?_⟩
      simp [nkey, hifx, Infix.key, keyLt] at this
      omega
  · simp only [List.mem_singleton] at hp
    subst hp
    simp only [Option.some.injEq, Infix.ts.injEq, true_and] at hifx
    exact ⟨r', hifx, Nat.le_refl _⟩

/-- the newest stamp has no `.restart-N` sibling (the guard that was needed before the `fix:` of
    finding D22; kept for the statements that still carry it) -/
def NewestIsBase (d : List (FName × File)) : Prop :=
  ∀ e ∈ d, ∀ k r, e.1.ifx = some (.ts k (some r)) → ∃ k', latestStamp d = some k' ∧ k < k'

theorem NewestIsBase.last_base {d pre : List (FName × File)} {k : Nat} {r : Option Nat}
    {f : File} (hg : NewestIsBase d) (hd : DirIs d (pre ++ [(⟨some (.ts k r), false⟩, f)])) :
    r = none := by
  cases r with
  | none => rfl
  | some r0 =>
    obtain ⟨k', h1, h2⟩ := hg _ hd.mem_last k r0 rfl
    rw [latestStamp_of_last hd] at h1
    cases h1; omega

theorem DirIs.eq_nil {d : List (FName × File)} (h : DirIs d []) : d = [] := h.1.eq_nil

/-! ### `initState` on an arbitrary directory -/

/-- infix, index and stamp chosen by `initState` for the direct namings -/
def initPre (s : St) (nm : Naming) (now : Nat) : Infix × Nat × Nat :=
  match nm with
  | .timestampsDirect =>
    if s.cfg.append then
      (appendTarget s.dir ((latestStamp s.dir).getD now), 0, (latestStamp s.dir).getD now)
    else (collisionFree s.dir now, 0, now)
  | _ =>
    match highestIndex s.dir with
    | none => (.num 0, 0, 0)
    | some h => if s.cfg.append then (.num h, h, 0) else (.num (h + 1), h + 1, 0)

theorem openFile_cfg (s : St) (n : FName) (now : Nat) (fl : Faults) (c : Nat) :
    (openFile s n now fl c).1.cfg = s.cfg := by
  unfold openFile
  cases s.cfg.symlink <;> simp only [] <;> split <;> rfl

theorem initState_B (s : St) (r : RotCfg) (now : Nat) (hrot : s.cfg.rot = some r)
    (hB : r.naming = .numbersDirect ∨ r.naming = .timestampsDirect) (hc : r.cleanup = none) :
    initState s now noFaults =
      (let n : FName := ⟨some (initPre s r.naming now).1, false⟩
       let s1 := (openFile s n now noFaults 0).1
       ({ s1 with act := some ⟨n, n, [], false, (initPre s r.naming now).2.1,
            (initPre s r.naming now).2.2,
            if s.cfg.append = true then fileLen s1.dir n else 0, createdOr s1.dir n now⟩ }, true)) := by
  unfold initState
  rcases hB with hnm | hnm
  · simp only [hrot, hnm, initPre]
    cases hh : highestIndex s.dir with
    | none =>
      simp only []
      rw [openFile_ok]
      simp [cleanup, hc, openFile_cfg]
    | some h =>
      cases happ : s.cfg.append with
      | false =>
        simp only [Bool.false_eq_true, if_false]
        rw [openFile_ok]
        simp [cleanup, hc, openFile_cfg, happ]
      | true =>
        simp only [if_true]
        rw [openFile_ok]
        simp [cleanup, hc, openFile_cfg, happ]
  · simp only [hrot, hnm, initPre]
    cases happ : s.cfg.append with
    | false =>
      simp only [Bool.not_false, Bool.false_eq_true, if_true, if_false]
      rw [openFile_ok]
      simp [cleanup, hc, openFile_cfg, happ]
    | true =>
      simp only [Bool.not_true, Bool.false_eq_true, if_true, if_false]
      rw [openFile_ok]
      simp [cleanup, hc, openFile_cfg, happ]

/-! ### the multi-run invariant -/

/-- shape of the newest name: `numbersDirect` a number, `timestampsDirect` a stamp that is not
    in the future -/
def Shape (nm : Naming) (lo : Nat) (n : FName) : Prop :=
  match nm with
  | .numbersDirect => ∃ i, n = ⟨some (.num i), false⟩
  | .timestampsDirect => ∃ k r, n = ⟨some (.ts k r), false⟩ ∧ k ≤ lo
  | _ => False

def LastShape (nm : Naming) (lo : Nat) (L : List (FName × File)) : Prop :=
  ∀ pre e, L = pre ++ [e] → Shape nm lo e.1

/-- `W` = the bytes written so far. Between a restart and the next write (`act = none`) the
    directory is a described directory whose content is `W`; while the writer is active the
    single-run invariant holds for some abstract state whose content is `W`. -/
def Inv2 (r : RotCfg) (lo : Nat) (s : St) (W : List Nat) : Prop :=
  s.cfg.rot = some r ∧
  match s.act with
  | none => ∃ L, DirIs s.dir L ∧ (L.map (·.2.data)).flatten = W ∧ LastShape r.naming lo L
  | some act => ∃ a, ActInv s.cfg.cap s.dir act a ∧ NamingInv r.naming lo act ∧
      (a.closed ++ [a.cur]).flatten = W

theorem ActInv.of_dirIs (cap : Option Nat) {d pre : List (FName × File)} {n : FName} {f : File}
    (hd : DirIs d (pre ++ [(n, f)])) (n' : FName) (idx stamp sz cr : Nat) :
    ActInv cap d ⟨n, n', [], false, idx, stamp, sz, cr⟩ ⟨pre.map (·.2.data), f.data, true, sz, cr⟩ :=
  ⟨rfl, ⟨pre, f, hd, rfl, by simp⟩, rfl, fun _ => rfl, rfl, rfl⟩

theorem DirIs.above_all {d pre : List (FName × File)} {x : FName × File} {key : Nat × Nat}
    (h : DirIs d (pre ++ [x])) (hk : keyLt (nkey x.1) key = true) :
    ∀ e ∈ pre ++ [x], keyLt (nkey e.1) key = true := by
  intro e he
  rcases List.mem_append.1 he with he | he
  · exact keyLt_trans (h.lt_last e he) hk
  · simp only [List.mem_singleton] at he
    subst he; exact hk

/-- how `initState` continues a directory: either the newest file is continued (append) or a
    new file above all existing ones is created -/
def InitShape (s s0 : St) (act0 : Active) (L : List (FName × File)) (now : Nat) : Prop :=
  (s.cfg.append = true ∧ s0.dir = s.dir ∧ ∃ pre f, L = pre ++ [(act0.handle, f)]) ∨
  ((s.cfg.append = false ∨ L = []) ∧ Dir.get s.dir act0.handle = none ∧
    (∀ e ∈ L, keyLt (nkey e.1) (nkey act0.handle) = true) ∧
    s0.dir = Dir.set s.dir act0.handle ⟨[], now⟩)

def InitOK (s : St) (r : RotCfg) (now : Nat) (W : List Nat) (L : List (FName × File)) : Prop :=
  ∃ s0 act0 a0, initState s now noFaults = (s0, true) ∧ s0.cfg = s.cfg ∧ s0.act = some act0 ∧
    act0.pending = [] ∧
    ActInv s.cfg.cap s0.dir act0 a0 ∧ NamingInv r.naming now act0 ∧
    (a0.closed ++ [a0.cur]).flatten = W ∧ InitShape s s0 act0 L now

theorem init_new (s : St) (r : RotCfg) (now : Nat) (W : List Nat) (L : List (FName × File))
    (hrot : s.cfg.rot = some r)
    (hB : r.naming = .numbersDirect ∨ r.naming = .timestampsDirect) (hc : r.cleanup = none)
    (hd : DirIs s.dir L) (hW : (L.map (·.2.data)).flatten = W)
    (i : Infix) (idx stamp : Nat) (hpre : initPre s r.naming now = (i, idx, stamp))
    (hi : i.rotated = true) (hk : ∀ e ∈ L, keyLt (nkey e.1) i.key = true)
    (happ : s.cfg.append = false ∨ L = [])
    (hN : ∀ n' sz cr, NamingInv r.naming now ⟨⟨some i, false⟩, n', [], false, idx, stamp, sz, cr⟩) :
    InitOK s r now W L := by
  have hget : Dir.get s.dir ⟨some i, false⟩ = none :=
    hd.get_none _ (ne_of_keyLt (n := ⟨some i, false⟩) hk)
  obtain ⟨_, hcfg, _, hdir⟩ := openFile_new s ⟨some i, false⟩ now hget
  have hd1 := hd.set_new ⟨some i, false⟩ ⟨[], now⟩ ⟨i, rfl, hi⟩ hk
  rw [← hdir] at hd1
  refine ⟨{ (openFile s ⟨some i, false⟩ now noFaults 0).1 with
      act := some ⟨⟨some i, false⟩, ⟨some i, false⟩, [], false, idx, stamp,
        if s.cfg.append = true then
          fileLen (openFile s ⟨some i, false⟩ now noFaults 0).1.dir ⟨some i, false⟩ else 0,
        createdOr (openFile s ⟨some i, false⟩ now noFaults 0).1.dir ⟨some i, false⟩ now⟩ },
    _, _, by rw [initState_B s r now hrot hB hc, hpre], hcfg, rfl, rfl,
    ActInv.of_dirIs s.cfg.cap hd1 _ _ _ _ _, hN _ _ _, ?_, Or.inr ⟨happ, hget, hk, hdir⟩⟩
  simpa using hW

theorem openFile_old (s : St) (n : FName) (now : Nat) (f : File) (h : s.dir.get n = some f)
    (happ : s.cfg.append = true) :
    (openFile s n now noFaults 0).1.dir = s.dir := by
  unfold openFile
  cases s.cfg.symlink <;> simp [hit, noFaults, h, happ]

theorem init_old (s : St) (r : RotCfg) (now : Nat) (W : List Nat) (L : List (FName × File))
    (hrot : s.cfg.rot = some r)
    (hB : r.naming = .numbersDirect ∨ r.naming = .timestampsDirect) (hc : r.cleanup = none)
    (hd : DirIs s.dir L) (hW : (L.map (·.2.data)).flatten = W)
    (i : Infix) (idx stamp : Nat) (hpre : initPre s r.naming now = (i, idx, stamp))
    (pre : List (FName × File)) (f : File) (hL : L = pre ++ [(⟨some i, false⟩, f)])
    (happ : s.cfg.append = true)
    (hN : ∀ n' sz cr, NamingInv r.naming now ⟨⟨some i, false⟩, n', [], false, idx, stamp, sz, cr⟩) :
    InitOK s r now W L := by
  subst hL
  have hget : Dir.get s.dir ⟨some i, false⟩ = some f := hd.get_some _ _ (by simp)
  have hdir := openFile_old s ⟨some i, false⟩ now f hget happ
  have hd1 := hd
  rw [← hdir] at hd1
  refine ⟨{ (openFile s ⟨some i, false⟩ now noFaults 0).1 with
      act := some ⟨⟨some i, false⟩, ⟨some i, false⟩, [], false, idx, stamp,
        if s.cfg.append = true then
          fileLen (openFile s ⟨some i, false⟩ now noFaults 0).1.dir ⟨some i, false⟩ else 0,
        createdOr (openFile s ⟨some i, false⟩ now noFaults 0).1.dir ⟨some i, false⟩ now⟩ },
    _, _, by rw [initState_B s r now hrot hB hc, hpre],
    openFile_cfg s _ now noFaults 0, rfl, rfl,
    ActInv.of_dirIs s.cfg.cap hd1 _ _ _ _ _, hN _ _ _, ?_, Or.inl ⟨happ, hdir, pre, f, rfl⟩⟩
  simpa using hW

theorem eq_nil_or_append_singleton {α : Type} (l : List α) :
    l = [] ∨ ∃ pre x, l = pre ++ [x] := by
  rcases List.eq_nil_or_concat l with h | ⟨pre, x, h⟩
  · exact Or.inl h
  · exact Or.inr ⟨pre, x, by simpa using h⟩

/-- `initState` on a described directory: the invariant of the single run is established, all
    earlier content is kept (`InitShape`: the newest file is continued, or a new file above all
    existing ones is created). For `timestampsDirect` with `append` the file continued is the
    newest one also if it is a `.restart-N` sibling (`appendTarget_of_last`; the repaired
    behaviour, finding D22). -/
theorem init_inv2 (s : St) (r : RotCfg) (now lo : Nat) (W : List Nat) (L : List (FName × File))
    (hrot : s.cfg.rot = some r)
    (hB : r.naming = .numbersDirect ∨ r.naming = .timestampsDirect) (hc : r.cleanup = none)
    (hd : DirIs s.dir L) (hW : (L.map (·.2.data)).flatten = W) (hL : LastShape r.naming lo L)
    (hlo : lo ≤ now) :
    InitOK s r now W L := by
  rcases eq_nil_or_append_singleton L with hnil | ⟨pre, ⟨n, f⟩, hLe⟩
  · -- empty directory: a first file
    subst hnil
    have hdir : s.dir = [] := hd.eq_nil
    rcases hB with hnm | hnm
    · refine init_new s r now W [] hrot (Or.inl hnm) hc hd hW (.num 0) 0 0 ?_ rfl
        (fun e he => by cases he) (Or.inr rfl) ?_
      · rw [hnm]; simp only [initPre, hdir]; rfl
      · intro n' sz cr; rw [hnm]; rfl
    · refine init_new s r now W [] hrot (Or.inr hnm) hc hd hW (.ts now none) 0 now ?_ rfl
        (fun e he => by cases he) (Or.inr rfl) ?_
      · rw [hnm]
        have hcf : collisionFree [] now = .ts now none := by
          simp [collisionFree, Dir.has, Dir.get]
        have hls : latestStamp [] = none := rfl
        simp only [initPre, hdir, hcf, hls, Option.getD_none]
        cases s.cfg.append <;> rfl
      · intro n' sz cr; rw [hnm]; exact ⟨now, none, rfl, Nat.le_refl _⟩
  · have hshape := hL pre (n, f) hLe
    subst hLe
    rcases hB with hnm | hnm
    · rw [hnm] at hshape
      obtain ⟨h, hn⟩ := hshape
      simp only at hn
      subst hn
      have hhi := highestIndex_of_last hd
      cases happ : s.cfg.append with
      | true =>
        refine init_old s r now W _ hrot (Or.inl hnm) hc hd hW (.num h) h 0 ?_ pre f rfl happ ?_
        · rw [hnm]; simp [initPre, hhi, happ]
        · intro n' sz cr; rw [hnm]; rfl
      | false =>
        refine init_new s r now W _ hrot (Or.inl hnm) hc hd hW (.num (h + 1)) (h + 1) 0 ?_ rfl
          ?_ (Or.inl happ) ?_
        · rw [hnm]; simp [initPre, hhi, happ]
        · exact hd.above_all (by simp [nkey, Infix.key, keyLt])
        · intro n' sz cr; rw [hnm]; rfl
    · rw [hnm] at hshape
      obtain ⟨k, r0, hn, hk⟩ := hshape
      simp only at hn
      subst hn
      cases happ : s.cfg.append with
      | true =>
        have hls := latestStamp_of_last hd
        have hat := appendTarget_of_last hd
        refine init_old s r now W _ hrot (Or.inr hnm) hc hd hW (.ts k r0) 0 k ?_ pre f rfl happ ?_
        · rw [hnm]; simp [initPre, hls, hat, happ]
        · intro n' sz cr; rw [hnm]; exact ⟨k, r0, rfl, Nat.le_trans hk hlo⟩
      | false =>
        obtain ⟨r', hcf, hkey⟩ := collisionFree_key hd now k r0 f (by simp) (Nat.le_trans hk hlo)
        refine init_new s r now W _ hrot (Or.inr hnm) hc hd hW (.ts now r') 0 now ?_ rfl
          ?_ (Or.inl happ) ?_
        · rw [hnm]; simp [initPre, hcf, happ]
        · exact hd.above_all hkey
        · intro n' sz cr; rw [hnm]; exact ⟨now, r', rfl, Nat.le_refl _⟩

/-! ### one operation -/

def opBytes : Op → List Nat
  | .write b => b
  | _ => []

/-- nothing is buffered -/
def Quiet (s : St) : Prop := ∀ act, s.act = some act → act.pending = []

theorem Shape.mono {nm : Naming} {lo lo' : Nat} {n : FName} (h : Shape nm lo n) (hle : lo ≤ lo') :
    Shape nm lo' n := by
  cases nm with
  | numbersDirect => exact h
  | timestampsDirect =>
    obtain ⟨k, r, hh, hk⟩ := h
    exact ⟨k, r, hh, Nat.le_trans hk hle⟩
  | numbers => exact h
  | timestamps => exact h

theorem NamingInv.shape {nm : Naming} {lo : Nat} {act : Active} (h : NamingInv nm lo act) :
    Shape nm lo act.handle := by
  cases nm with
  | numbersDirect => exact ⟨_, h⟩
  | timestampsDirect => exact h
  | numbers => exact h
  | timestamps => exact h

theorem lastShape_of_handle {nm : Naming} {lo : Nat} {pre : List (FName × File)} {n : FName}
    {f : File} (h : Shape nm lo n) : LastShape nm lo (pre ++ [(n, f)]) := by
  intro pre' e he
  have := List.append_inj_right' he rfl
  simp only [List.cons.injEq, and_true] at this
  rw [← this]; exact h

theorem write_some2 {r : RotCfg}
    (hB : r.naming = .numbersDirect ∨ r.naming = .timestampsDirect) (hc : r.cleanup = none)
    (s : St) (act : Active) (a : Abs) (lo : Nat) (b : List Nat) (now : Nat) (W : List Nat)
    (hrot : s.cfg.rot = some r) (hact : s.act = some act)
    (hA : ActInv s.cfg.cap s.dir act a) (hN : NamingInv r.naming lo act) (hlo : lo ≤ now)
    (hW : (a.closed ++ [a.cur]).flatten = W) :
    Inv2 r now (writeBuffer s b now noFaults).1 (W ++ b) := by
  obtain ⟨m1, m2, m3, m4⟩ := mountNext_inv s act a r false now lo hB hc hA hN hlo
  generalize e : mountNext s act r false now noFaults = m at *
  obtain ⟨s1, act1, rerr⟩ := m
  simp only at m1 m2 m3 m4
  subst m2
  rw [writeBuffer_some s s1 act act1 r b now hact hrot e]
  rw [← m1] at m3
  obtain ⟨w1, w2, w3, w4⟩ := writeRaw_inv s1 act1 _ b m3
  refine ⟨by simp only [w1, m1]; exact hrot, ?_⟩
  simp only
  refine ⟨_, by simp only [w1]; exact w4, NamingInv.congr m4 w2 w3, ?_⟩
  subst hW
  split <;> simp [Abs.rotate]

theorem step_inv2 {r : RotCfg}
    (hB : r.naming = .numbersDirect ∨ r.naming = .timestampsDirect) (hc : r.cleanup = none)
    (s : St) (W : List Nat) (lo : Nat) (op : Op) (now : Nat) (hI : Inv2 r lo s W)
    (hop : op.plain = true ∨ ∃ c, op = .restart c ∧ c.rot = some r)
    (hlo : op.usesClock = true → lo ≤ now)
    (hq : isRestart op = true → Quiet s) :
    Inv2 r (if op.usesClock = true then now else lo) (step s op now noFaults).1 (W ++ opBytes op) ∧
    (quiesces op = true → Quiet (step s op now noFaults).1) := by
  obtain ⟨hrot, hI⟩ := hI
  cases op with
  | write b =>
    have hlo' : lo ≤ now := hlo rfl
    refine ⟨?_, fun h => by cases h⟩
    simp only [Op.usesClock, if_true, step, opBytes]
    cases hact : s.act with
    | some act =>
      rw [hact] at hI
      obtain ⟨a, hA, hN, hW⟩ := hI
      exact write_some2 hB hc s act a lo b now W hrot hact hA hN hlo' hW
    | none =>
      rw [hact] at hI
      obtain ⟨L, hd, hW, hL⟩ := hI
      obtain ⟨s0, act0, a0, i1, i2, i3, _, i4, i5, i6, _⟩ :=
        init_inv2 s r now lo W L hrot hB hc hd hW hL hlo'
      have j1 : (initState s now noFaults).2 = true := by rw [i1]
      have j2 : (initState s now noFaults).1 = s0 := by rw [i1]
      rw [writeBuffer_none s act0 b now noFaults hact j1 (by rw [j2]; exact i3), j2]
      rw [← i2] at i4
      exact write_some2 hB hc s0 act0 a0 now b now W (by rw [i2]; exact hrot) i3 i4 i5
        (Nat.le_refl _) i6
  | rotate =>
    have hlo' : lo ≤ now := hlo rfl
    refine ⟨?_, fun h => by cases h⟩
    simp only [Op.usesClock, if_true, step, opBytes, List.append_nil]
    cases hact : s.act with
    | some act =>
      rw [hact] at hI
      obtain ⟨a, hA, hN, hW⟩ := hI
      simp only [hrot]
      obtain ⟨m1, m2, m3, m4⟩ := mountNext_inv s act a r true now lo hB hc hA hN hlo'
      refine ⟨by simp only [m1]; exact hrot, ?_⟩
      simp only
      refine ⟨_, by simp only [m1]; exact m3, m4, ?_⟩
      subst hW
      simp [Abs.rotate]
    | none =>
      rw [hact] at hI
      obtain ⟨L, hd, hW, hL⟩ := hI
      refine ⟨hrot, ?_⟩
      simp only [hact]
      exact ⟨L, hd, hW, fun pre e he => (hL pre e he).mono hlo'⟩
  | flush =>
    simp only [Op.usesClock, Bool.false_eq_true, if_false, step, opBytes, List.append_nil]
    cases hact : s.act with
    | some act =>
      rw [hact] at hI
      obtain ⟨a, hA, hN, hW⟩ := hI
      obtain ⟨f1, f2, f3, f4⟩ := flushAct_inv s act a hA
      refine ⟨⟨by simp only [f1]; exact hrot, ?_⟩, ?_⟩
      · simp only
        exact ⟨a, by simp only [f1]; exact f4, hN.congr f2 f3, hW⟩
      · intro _ act' h
        simp only [Option.some.injEq] at h
        rw [← h]; rfl
    | none =>
      rw [hact] at hI
      refine ⟨⟨hrot, ?_⟩, ?_⟩
      · simp only [hact]; exact hI
      · intro _ act' h
        simp only [hact] at h
        cases h
  | shutdown =>
    simp only [Op.usesClock, Bool.false_eq_true, if_false, step, opBytes, List.append_nil]
    cases hact : s.act with
    | some act =>
      rw [hact] at hI
      obtain ⟨a, hA, hN, hW⟩ := hI
      obtain ⟨f1, f2, f3, f4⟩ := flushAct_inv s act a hA
      refine ⟨⟨by simp only [f1]; exact hrot, ?_⟩, ?_⟩
      · simp only
        exact ⟨a, by simp only [f1]; exact f4, hN.congr f2 f3, hW⟩
      · intro _ act' h
        simp only [Option.some.injEq] at h
        rw [← h]; rfl
    | none =>
      rw [hact] at hI
      refine ⟨⟨hrot, ?_⟩, ?_⟩
      · simp only [hact]; exact hI
      · intro _ act' h
        simp only [hact] at h
        cases h
  | restart c =>
    rcases hop with hop | ⟨c', hc', hcrot⟩
    · simp [Op.plain] at hop
    · cases hc'
      simp only [Op.usesClock, Bool.false_eq_true, if_false, step, opBytes, List.append_nil]
      refine ⟨⟨hcrot, ?_⟩, fun _ act' h => by cases h⟩
      simp only
      cases hact : s.act with
      | none =>
        rw [hact] at hI
        exact hI
      | some act =>
        rw [hact] at hI
        obtain ⟨a, hA, hN, hW⟩ := hI
        have hp : act.pending = [] := hq rfl act hact
        obtain ⟨pre, f, hd, hpre, hcur⟩ := hA.dir
        refine ⟨_, hd, ?_, lastShape_of_handle hN.shape⟩
        rw [hp] at hcur
        simp only [List.append_nil] at hcur
        rw [← hW, ← hpre, ← hcur]
        simp
  | reset _ => rcases hop with hop | ⟨c', hc', _⟩ <;> simp [Op.plain] at *
  | extRename => rcases hop with hop | ⟨c', hc', _⟩ <;> simp [Op.plain] at *
  | extRemove => rcases hop with hop | ⟨c', hc', _⟩ <;> simp [Op.plain] at *
  | reopen => rcases hop with hop | ⟨c', hc', _⟩ <;> simp [Op.plain] at *

/-! ### histories -/

/-- the guard that was needed before the `fix:` of finding D22 (no longer needed by
    `multi_run_stream_B`; kept for `multi_run_stream_B_partial`): whenever a run with `append`
    initialises (first write after a restart), the newest stamp in the directory has no
    `.restart-N` sibling -/
def GuardFrom (s : St) (ops : List (Op × Nat × Faults)) : Prop :=
  ∀ pre b now fl post, ops = pre ++ (Op.write b, now, fl) :: post →
    (runOps s pre).act = none → (runOps s pre).cfg.append = true →
    NewestIsBase (runOps s pre).dir

def AppendGuard (cfg : Cfg) (ops : List (Op × Nat × Faults)) : Prop := GuardFrom (init cfg []) ops

theorem written_cons (o : Op × Nat × Faults) (ops : List (Op × Nat × Faults)) :
    written (o :: ops) = opBytes o.1 ++ written ops := by
  obtain ⟨op, n, f⟩ := o
  cases op <;> simp [written, records, opBytes]

theorem run_inv2 {r : RotCfg}
    (hB : r.naming = .numbersDirect ∨ r.naming = .timestampsDirect) (hc : r.cleanup = none) :
    ∀ (ops : List (Op × Nat × Faults)) (lo : Nat) (s : St) (W : List Nat), Inv2 r lo s W →
      (∀ o ∈ ops, (o.1.plain = true ∨ ∃ c, o.1 = .restart c ∧ c.rot = some r) ∧ o.2.2 = noFaults) →
      (∀ o ∈ ops, o.1.usesClock = true → lo ≤ o.2.1) → Monotone ops →
      flushedBeforeRestart ops = true →
      (∀ o rest, ops = o :: rest → isRestart o.1 = true → Quiet s) →
      ∃ lo', Inv2 r lo' (runOps s ops) (W ++ written ops) := by
  intro ops
  induction ops with
  | nil => intro lo s W hI _ _ _ _ _; exact ⟨lo, by simpa [written, records, runOps] using hI⟩
  | cons o ops ih =>
    intro lo s W hI hp hlo hm hf hq
    obtain ⟨hm1, hm2⟩ := monotone_tail hm
    obtain ⟨hp1, hp2⟩ := hp o (by simp)
    have hstep := step_inv2 hB hc s W lo o.1 o.2.1 hI hp1 (hlo o (by simp)) (hq o ops rfl)
    have e1 : runOps s (o :: ops) = runOps (step s o.1 o.2.1 noFaults).1 ops := by
      rw [← hp2]; rfl
    rw [e1, written_cons, ← List.append_assoc]
    refine ih _ _ _ hstep.1 (fun o' ho' => hp o' (by simp [ho'])) ?_ hm1 ?_ ?_
    · intro o' ho' hu'
      by_cases hu : o.1.usesClock = true
      · rw [if_pos hu]; exact hm2 hu o' ho' hu'
      · rw [if_neg hu]; exact hlo o' (by simp [ho']) hu'
    · cases ops with
      | nil => rfl
      | cons o2 rest =>
        simp only [flushedBeforeRestart, Bool.and_eq_true] at hf
        exact hf.2
    · intro o2 rest hops hr
      subst hops
      simp only [flushedBeforeRestart, Bool.and_eq_true, Bool.or_eq_true, Bool.not_eq_true'] at hf
      rcases hf.1 with h | h
      · rw [hr] at h; cases h
      · exact hstep.2 h

theorem dirIs_nil : DirIs [] [] :=
  ⟨List.Perm.nil, List.Pairwise.nil, fun n hn => by cases hn⟩

theorem inv2_init (cfg : Cfg) (r : RotCfg) (hrot : cfg.rot = some r) :
    Inv2 r 0 (init cfg []) [] := by
  refine ⟨hrot, [], dirIs_nil, rfl, ?_⟩
  intro pre e he
  simp at he

theorem Inv2.view {r : RotCfg} {lo : Nat} {s : St} {W : List Nat} (h : Inv2 r lo s W) :
    (viewFiles s).flatten = W := by
  obtain ⟨_, hI⟩ := h
  unfold viewFiles
  cases hact : s.act with
  | none =>
    rw [hact] at hI
    obtain ⟨L, hd, hW, _⟩ := hI
    simp only [parts_eq hd]; exact hW
  | some act =>
    rw [hact] at hI
    obtain ⟨a, hA, _, hW⟩ := hI
    obtain ⟨pre, f, hd, hpre, hcur⟩ := hA.dir
    simp only [parts_eq hd]
    rw [← hW, ← hpre, ← hcur]
    simp

theorem viewFiles_inactive (s : St) (h : s.act = none) : viewFiles s = parts s.dir := by
  unfold viewFiles; rw [h]

/-- **C06, direct namings — the full statement.** Every record of every run is on disk exactly
    once, in logging order, whatever the sequence of runs, `append` on or off per run; no guard
    (since the `fix:` of finding D22 an appending `timestampsDirect` run continues the newest
    file of the newest stamp, `appendTarget_of_last`). -/
theorem multi_run_stream_B (cfg : Cfg) (hc : CfgMB cfg) (ops : List (Op × Nat × Faults))
    (hm : MultiRun cfg.rot ops) :
    (viewFiles (runOps (init cfg []) ops)).flatten = written ops := by
  obtain ⟨hcl, r, hrot, hB⟩ := hc
  obtain ⟨hp, hmono, hf⟩ := hm
  rw [hrot] at hp
  obtain ⟨lo, hI⟩ := run_inv2 hB (hcl r hrot) ops 0 (init cfg []) [] (inv2_init cfg r hrot) hp
    (fun _ _ _ => Nat.zero_le _) hmono hf (fun _ _ _ _ act h => by cases h)
  simpa using hI.view

/-- the guarded form that was provable before the `fix:` of finding D22 (the hypothesis
    `AppendGuard` is no longer used: `multi_run_stream_B`) -/
theorem multi_run_stream_B_partial (cfg : Cfg) (hc : CfgMB cfg) (ops : List (Op × Nat × Faults))
    (hm : MultiRun cfg.rot ops)
    (_hg : (∃ r, cfg.rot = some r ∧ r.naming = .timestampsDirect) → AppendGuard cfg ops) :
    (viewFiles (runOps (init cfg []) ops)).flatten = written ops :=
  multi_run_stream_B cfg hc ops hm

/-- `numbersDirect`: the full statement -/
theorem multi_run_stream_B_numbersDirect (cfg : Cfg) (hn : NoCleanup cfg) (r : RotCfg)
    (hrot : cfg.rot = some r) (hnm : r.naming = .numbersDirect)
    (ops : List (Op × Nat × Faults)) (hm : MultiRun cfg.rot ops) :
    (viewFiles (runOps (init cfg []) ops)).flatten = written ops :=
  multi_run_stream_B cfg ⟨hn, r, hrot, Or.inl hnm⟩ ops hm

/-- `timestampsDirect`: the full statement, `append` on or off per run -/
theorem multi_run_stream_B_timestampsDirect (cfg : Cfg) (hn : NoCleanup cfg) (r : RotCfg)
    (hrot : cfg.rot = some r) (hnm : r.naming = .timestampsDirect)
    (ops : List (Op × Nat × Faults)) (hm : MultiRun cfg.rot ops) :
    (viewFiles (runOps (init cfg []) ops)).flatten = written ops :=
  multi_run_stream_B cfg ⟨hn, r, hrot, Or.inr hnm⟩ ops hm

/-! ### no existing file is ever reused, overwritten or truncated -/

/-- every file of `d` is still there in `d'`, its old content a prefix of the new one -/
def DirExt (d d' : Dir) : Prop :=
  ∀ n f, d.get n = some f → ∃ f', d'.get n = some f' ∧ f.data <+: f'.data

theorem DirExt.refl (d : Dir) : DirExt d d := fun _ f h => ⟨f, h, List.prefix_refl _⟩

theorem DirExt.trans {d1 d2 d3 : Dir} (h1 : DirExt d1 d2) (h2 : DirExt d2 d3) : DirExt d1 d3 := by
  intro n f hf
  obtain ⟨f', hf', hp⟩ := h1 n f hf
  obtain ⟨f'', hf'', hp'⟩ := h2 n f' hf'
  exact ⟨f'', hf'', List.IsPrefix.trans hp hp'⟩

theorem dirExt_set_new (d : Dir) (n : FName) (v : File) (h : d.get n = none) :
    DirExt d (d.set n v) := by
  intro m f hf
  have hne : m ≠ n := by
    intro heq; rw [heq, h] at hf; cases hf
  exact ⟨f, by rw [FV.FlwA.get_set_ne d n m v hne]; exact hf, List.prefix_refl _⟩

theorem dirExt_append (d : Dir) (n : FName) (b : List Nat) : DirExt d (d.append n b) := by
  unfold Dir.append
  cases hg : d.get n with
  | none => exact DirExt.refl d
  | some f0 =>
    intro m f hf
    by_cases hne : m = n
    · subst hne
      rw [hg] at hf; cases hf
      exact ⟨_, FV.FlwA.get_set_self d m _, List.prefix_append _ _⟩
    · exact ⟨f, by simp only []; rw [FV.FlwA.get_set_ne d n m _ hne]; exact hf, List.prefix_refl _⟩

theorem openFile_ext (s : St) (n : FName) (now : Nat)
    (h : s.cfg.append = true ∨ s.dir.get n = none) :
    DirExt s.dir (openFile s n now noFaults 0).1.dir := by
  cases hg : s.dir.get n with
  | none =>
    rw [(openFile_new s n now hg).2.2.2]
    exact dirExt_set_new _ _ _ hg
  | some f =>
    rcases h with h | h
    · rw [openFile_old s n now f hg h]; exact DirExt.refl _
    · rw [hg] at h; cases h

theorem rotTail_ext (s : St) (a : Active) (i : Infix) (now : Nat)
    (h : s.dir.get ⟨some i, false⟩ = none) : DirExt s.dir (rotTail s a i now).1.dir :=
  (openFile_ext s ⟨some i, false⟩ now (Or.inr h)).trans (dirExt_append _ _ _)

theorem flushAct_ext (s : St) (a : Active) : DirExt s.dir (flushAct s a).1.dir :=
  dirExt_append _ _ _

theorem writeRaw_ext (s : St) (a : Active) (b : List Nat) : DirExt s.dir (writeRaw s a b).1.dir := by
  unfold writeRaw
  split
  · exact dirExt_append _ _ _
  · rename_i c _
    by_cases h1 : a.pending.length + b.length > c <;> by_cases h2 : b.length ≥ c
    · simp only [h1, h2, if_true, flushAct]
      exact (dirExt_append _ _ _).trans (dirExt_append _ _ _)
    · simp only [h1, h2, if_true, if_false, flushAct]
      exact dirExt_append _ _ _
    · simp only [h1, h2, if_true, if_false]
      exact dirExt_append _ _ _
    · simp only [h1, h2, if_false]
      exact DirExt.refl _

theorem collisionFree_get (d : Dir) (k : Nat) : d.get ⟨some (collisionFree d k), false⟩ = none := by
  rw [FV.FlwA.get_eq_none_iff]
  intro e he heq
  exact FV.FlwA.collisionFree_fresh d k e he (by rw [heq])

/-- `numbersDirect`: the index after the current one is free -/
def HW (r : RotCfg) (s : St) : Prop :=
  r.naming = .numbersDirect → ∀ act, s.act = some act →
    s.dir.get ⟨some (.num (act.idx + 1)), false⟩ = none

theorem get_append_none (d : Dir) (n m : FName) (b : List Nat) (h : d.get m = none) :
    (d.append n b).get m = none := by
  unfold Dir.append
  cases hg : d.get n with
  | none => exact h
  | some f0 =>
    have hne : m ≠ n := by
      intro heq; rw [heq, hg] at h; cases h
    simp only []
    rw [FV.FlwA.get_set_ne d n m _ hne]; exact h

/-- the three outcomes of `mountNext` (no faults, no cleanup): nothing, or the `BufWriter` is
    flushed and the writer moves on to the next file -/
theorem mountNext_cases (s : St) (act : Active) (r : RotCfg) (force : Bool) (now : Nat)
    (hB : r.naming = .numbersDirect ∨ r.naming = .timestampsDirect) (hc : r.cleanup = none) :
    mountNext s act r force now noFaults = (s, act, false) ∨
    (r.naming = .numbersDirect ∧ mountNext s act r force now noFaults =
      rotTail (flushAct s act).1 { (flushAct s act).2 with idx := act.idx + 1 }
        (.num (act.idx + 1)) now) ∨
    (r.naming = .timestampsDirect ∧ mountNext s act r force now noFaults =
      rotTail (flushAct s act).1 { (flushAct s act).2 with stamp := now }
        (collisionFree (flushAct s act).1.dir now) now) := by
  by_cases h : (force || rotationNecessary r act now) = true
  · rw [mountNext_due s act r force now noFaults h]
    rcases hB with hnm | hnm
    · exact Or.inr (Or.inl ⟨hnm,
        mountNextCore_nD (flushAct s act).1 (flushAct s act).2 r true now hnm hc rfl⟩)
    · exact Or.inr (Or.inr ⟨hnm,
        mountNextCore_tD (flushAct s act).1 (flushAct s act).2 r true now hnm hc rfl⟩)
  · exact Or.inl (mountNext_skip s act r force now noFaults (by simpa using h))

theorem mountNext_ext (s : St) (act : Active) (r : RotCfg) (force : Bool) (now : Nat)
    (hB : r.naming = .numbersDirect ∨ r.naming = .timestampsDirect) (hc : r.cleanup = none)
    (hw : r.naming = .numbersDirect → s.dir.get ⟨some (.num (act.idx + 1)), false⟩ = none) :
    (mountNext s act r force now noFaults).2.2 = false ∧
    (mountNext s act r force now noFaults).1.cfg = s.cfg ∧
    DirExt s.dir (mountNext s act r force now noFaults).1.dir := by
  rcases mountNext_cases s act r force now hB hc with h | ⟨hnm, h⟩ | ⟨hnm, h⟩
  · rw [h]; exact ⟨rfl, rfl, DirExt.refl _⟩
  · rw [h]
    exact ⟨rfl, openFile_cfg _ _ _ _ _, (flushAct_ext s act).trans
      (rotTail_ext _ _ _ now (get_append_none _ _ _ _ (hw hnm)))⟩
  · rw [h]
    exact ⟨rfl, openFile_cfg _ _ _ _ _, (flushAct_ext s act).trans
      (rotTail_ext _ _ _ now (collisionFree_get _ _))⟩

theorem writeRaw_cfg (s : St) (a : Active) (b : List Nat) : (writeRaw s a b).1.cfg = s.cfg := by
  unfold writeRaw
  split
  · rfl
  · rename_i c _
    by_cases h1 : a.pending.length + b.length > c <;> by_cases h2 : b.length ≥ c <;>
      simp [h1, h2, flushAct]

theorem writeBuffer_some_ext (s : St) (act : Active) (r : RotCfg) (b : List Nat) (now : Nat)
    (hB : r.naming = .numbersDirect ∨ r.naming = .timestampsDirect) (hc : r.cleanup = none)
    (hrot : s.cfg.rot = some r) (hact : s.act = some act)
    (hw : r.naming = .numbersDirect → s.dir.get ⟨some (.num (act.idx + 1)), false⟩ = none) :
    (writeBuffer s b now noFaults).1.cfg = s.cfg ∧
    DirExt s.dir (writeBuffer s b now noFaults).1.dir := by
  obtain ⟨m1, m0, m2⟩ := mountNext_ext s act r false now hB hc hw
  generalize e : mountNext s act r false now noFaults = m at *
  obtain ⟨s1, act1, rerr⟩ := m
  simp only at m1 m2 m0
  subst m1
  rw [writeBuffer_some s s1 act act1 r b now hact hrot e]
  exact ⟨by simp only [writeRaw_cfg, m0], m2.trans (writeRaw_ext s1 act1 b)⟩

theorem num_fresh (d : List (FName × File)) :
    (highestIndex d = none → Dir.get d ⟨some (.num 0), false⟩ = none) ∧
    (∀ h, highestIndex d = some h → Dir.get d ⟨some (.num (h + 1)), false⟩ = none) := by
  obtain ⟨s1, s2⟩ := foldMax_spec numOf d none
  rw [← highestIndex_eq d] at s1 s2
  constructor
  · intro hres
    apply get_eq_none_of_not_mem
    intro e he heq
    have := (s2 hres).2 e he
    simp [numOf, heq] at this
  · intro h hres
    apply get_eq_none_of_not_mem
    intro e he heq
    have := (s1 h hres).2.2 e he (h + 1) (by simp [numOf, heq])
    omega

theorem initPre_fresh (s : St) (nm : Naming) (now : Nat) (happ : s.cfg.append = false) :
    s.dir.get ⟨some (initPre s nm now).1, false⟩ = none := by
  have hnum : s.dir.get ⟨some (match highestIndex s.dir with
      | none => ((.num 0, 0, 0) : Infix × Nat × Nat)
      | some h => if s.cfg.append = true then (.num h, h, 0) else (.num (h + 1), h + 1, 0)).1,
      false⟩ = none := by
    cases hres : highestIndex s.dir with
    | none => exact (num_fresh s.dir).1 hres
    | some h =>
      simp only [happ, Bool.false_eq_true, if_false]
      exact (num_fresh s.dir).2 h hres
  cases nm with
  | timestampsDirect =>
    simp only [initPre, happ, Bool.false_eq_true, if_false]
    exact collisionFree_get _ _
  | numbersDirect => exact hnum
  | numbers => exact hnum
  | timestamps => exact hnum

theorem initState_ext (s : St) (r : RotCfg) (now : Nat) (hrot : s.cfg.rot = some r)
    (hB : r.naming = .numbersDirect ∨ r.naming = .timestampsDirect) (hc : r.cleanup = none) :
    (initState s now noFaults).2 = true ∧ (initState s now noFaults).1.cfg = s.cfg ∧
    (∃ act, (initState s now noFaults).1.act = some act) ∧
    DirExt s.dir (initState s now noFaults).1.dir := by
  rw [initState_B s r now hrot hB hc]
  refine ⟨rfl, openFile_cfg _ _ _ _ _, ⟨_, rfl⟩, ?_⟩
  apply openFile_ext
  cases happ : s.cfg.append with
  | true => exact Or.inl rfl
  | false => exact Or.inr (initPre_fresh s r.naming now happ)

theorem step_ext {r : RotCfg}
    (hB : r.naming = .numbersDirect ∨ r.naming = .timestampsDirect) (hc : r.cleanup = none)
    (s : St) (op : Op) (now : Nat) (hrot : s.cfg.rot = some r)
    (hop : op.plain = true ∨ ∃ c, op = .restart c ∧ c.rot = some r)
    (h1 : HW r s) (h2 : s.act = none → HW r (initState s now noFaults).1) :
    (step s op now noFaults).1.cfg.rot = some r ∧
    DirExt s.dir (step s op now noFaults).1.dir ∧
    (op.plain = true → (step s op now noFaults).1.cfg = s.cfg) := by
  cases op with
  | write b =>
    simp only [step]
    cases hact : s.act with
    | some act =>
      obtain ⟨w1, w2⟩ :=
        writeBuffer_some_ext s act r b now hB hc hrot hact (fun hnm => h1 hnm act hact)
      exact ⟨by rw [w1]; exact hrot, w2, fun _ => w1⟩
    | none =>
      obtain ⟨i1, i2, ⟨act0, i3⟩, i4⟩ := initState_ext s r now hrot hB hc
      rw [writeBuffer_none s act0 b now noFaults hact i1 i3]
      obtain ⟨w1, w2⟩ := writeBuffer_some_ext _ act0 r b now hB hc (by rw [i2]; exact hrot) i3
        (fun hnm => h2 hact hnm act0 i3)
      exact ⟨by rw [w1, i2]; exact hrot, i4.trans w2, fun _ => by rw [w1, i2]⟩
  | rotate =>
    simp only [step]
    cases hact : s.act with
    | some act =>
      simp only [hrot]
      obtain ⟨_, m0, m2⟩ := mountNext_ext s act r true now hB hc (fun hnm => h1 hnm act hact)
      exact ⟨by simp only [m0]; exact hrot, m2, fun _ => m0⟩
    | none => exact ⟨hrot, DirExt.refl _, fun _ => rfl⟩
  | flush =>
    simp only [step]
    cases hact : s.act with
    | some act => exact ⟨hrot, flushAct_ext s act, fun _ => rfl⟩
    | none => exact ⟨hrot, DirExt.refl _, fun _ => rfl⟩
  | shutdown =>
    simp only [step]
    cases hact : s.act with
    | some act => exact ⟨hrot, flushAct_ext s act, fun _ => rfl⟩
    | none => exact ⟨hrot, DirExt.refl _, fun _ => rfl⟩
  | restart c =>
    rcases hop with hop | ⟨c', hc', hcrot⟩
    · simp [Op.plain] at hop
    · cases hc'; exact ⟨hcrot, DirExt.refl _, fun h => by simp [Op.plain] at h⟩
  | reset _ => rcases hop with hop | ⟨c', hc', _⟩ <;> simp [Op.plain] at *
  | extRename => rcases hop with hop | ⟨c', hc', _⟩ <;> simp [Op.plain] at *
  | extRemove => rcases hop with hop | ⟨c', hc', _⟩ <;> simp [Op.plain] at *
  | reopen => rcases hop with hop | ⟨c', hc', _⟩ <;> simp [Op.plain] at *

theorem ActInv.hw {cap : Option Nat} {d : List (FName × File)} {act : Active} {a : Abs}
    (hA : ActInv cap d act a) (hh : act.handle = ⟨some (.num act.idx), false⟩) :
    Dir.get d ⟨some (.num (act.idx + 1)), false⟩ = none := by
  obtain ⟨pre, f, hd, _, _⟩ := hA.dir
  refine hd.get_none _ (ne_of_keyLt (n := ⟨some (.num (act.idx + 1)), false⟩) ?_)
  exact hd.above_all (by show keyLt (nkey act.handle) _ = true
                         rw [hh]; simp [nkey, Infix.key, keyLt])

theorem Inv2.hw {r : RotCfg} {lo : Nat} {s : St} {W : List Nat} (h : Inv2 r lo s W) : HW r s := by
  intro hnm act hact
  obtain ⟨_, hI⟩ := h
  rw [hact] at hI
  obtain ⟨a, hA, hN, _⟩ := hI
  rw [hnm] at hN
  exact hA.hw hN

/-- for `numbersDirect` the clock bound is irrelevant -/
theorem Inv2.nD_lo {r : RotCfg} {lo lo' : Nat} {s : St} {W : List Nat} (h : Inv2 r lo s W)
    (hnm : r.naming = .numbersDirect) : Inv2 r lo' s W := by
  obtain ⟨hrot, hI⟩ := h
  refine ⟨hrot, ?_⟩
  cases hact : s.act with
  | none =>
    rw [hact] at hI
    obtain ⟨L, hd, hW, hL⟩ := hI
    refine ⟨L, hd, hW, ?_⟩
    intro pre e he
    have := hL pre e he
    rw [hnm] at this ⊢
    exact this
  | some act =>
    rw [hact] at hI
    obtain ⟨a, hA, hN, hW⟩ := hI
    refine ⟨a, hA, ?_, hW⟩
    rw [hnm] at hN ⊢
    exact hN

theorem Inv2.hw_init {r : RotCfg} {lo : Nat} {s : St} {W : List Nat} (h : Inv2 r lo s W)
    (hB : r.naming = .numbersDirect ∨ r.naming = .timestampsDirect) (hc : r.cleanup = none)
    (now : Nat) (hact : s.act = none) : HW r (initState s now noFaults).1 := by
  intro hnm act0' hact0'
  obtain ⟨hrot, hI⟩ := (h.nD_lo (lo' := now) hnm)
  rw [hact] at hI
  obtain ⟨L, hd, hW, hL⟩ := hI
  obtain ⟨s0, act0, a0, i1, _, i3, _, i4, i5, _, _⟩ :=
    init_inv2 s r now now W L hrot hB hc hd hW hL (Nat.le_refl _)
  rw [i1] at hact0' ⊢
  simp only at hact0' ⊢
  rw [i3] at hact0'
  cases hact0'
  rw [hnm] at i5
  exact i4.hw i5

theorem monotone_prefix {a b : List (Op × Nat × Faults)} (h : Monotone (a ++ b)) : Monotone a := by
  unfold Monotone at *
  rw [List.filter_append, List.map_append] at h
  exact (List.pairwise_append.1 h).1

theorem flushed_prefix : ∀ (a b : List (Op × Nat × Faults)),
    flushedBeforeRestart (a ++ b) = true → flushedBeforeRestart a = true
  | [], _, _ => rfl
  | [_], _, _ => rfl
  | x :: y :: rest, b, h => by
    simp only [List.cons_append, flushedBeforeRestart, Bool.and_eq_true] at h ⊢
    exact ⟨h.1, flushed_prefix (y :: rest) b h.2⟩

theorem runOps_append (s : St) (a b : List (Op × Nat × Faults)) :
    runOps s (a ++ b) = runOps (runOps s a) b := by
  unfold runOps; rw [List.foldl_append]

/-- without any invariant (`timestampsDirect`): the rotation configuration is kept -/
theorem run_rot_tD {r : RotCfg} (hnm : r.naming = .timestampsDirect) (hc : r.cleanup = none) :
    ∀ (ops : List (Op × Nat × Faults)) (s : St), s.cfg.rot = some r →
      (∀ o ∈ ops, (o.1.plain = true ∨ ∃ c, o.1 = .restart c ∧ c.rot = some r) ∧ o.2.2 = noFaults) →
      (runOps s ops).cfg.rot = some r := by
  intro ops
  induction ops with
  | nil => intro s h _; exact h
  | cons o ops ih =>
    intro s hrot hp
    obtain ⟨hp1, hp2⟩ := hp o (by simp)
    have e1 : runOps s (o :: ops) = runOps (step s o.1 o.2.1 noFaults).1 ops := by
      rw [← hp2]; rfl
    rw [e1]
    refine ih _ ?_ (fun o' ho' => hp o' (by simp [ho']))
    exact (step_ext (Or.inr hnm) hc s o.1 o.2.1 hrot hp1
      (fun h => by rw [hnm] at h; cases h) (fun _ h => by rw [hnm] at h; cases h)).1

/-- **No existing file is ever reused, overwritten or truncated** (`numbersDirect` and
    `timestampsDirect`, any sequence of runs, append on or off, no guard needed): at every step
    of a multi-run history every file that existed before the step still exists after it, and
    its old content is a prefix of its new content. In particular a file that is newly created
    by the step has a name that was absent before. -/
theorem fresh_names_B (cfg : Cfg) (hc : CfgMB cfg) (ops : List (Op × Nat × Faults))
    (hm : MultiRun cfg.rot ops) :
    ∀ pre o post, ops = pre ++ o :: post →
      DirExt (runOps (init cfg []) pre).dir (runOps (init cfg []) (pre ++ [o])).dir := by
  obtain ⟨hcl, r, hrot, hB⟩ := hc
  obtain ⟨hp, hmono, hf⟩ := hm
  rw [hrot] at hp
  intro pre o post hops
  subst hops
  have hpo := hp o (by simp)
  have hppre : ∀ o' ∈ pre, (o'.1.plain = true ∨ ∃ c, o'.1 = .restart c ∧ c.rot = some r) ∧
      o'.2.2 = noFaults := fun o' ho' => hp o' (by simp [ho'])
  have e1 : runOps (init cfg []) (pre ++ [o]) =
      (step (runOps (init cfg []) pre) o.1 o.2.1 noFaults).1 := by
    rw [runOps_append, ← hpo.2]; rfl
  rw [e1]
  rcases hB with hnm | hnm
  · obtain ⟨lo, hI⟩ := run_inv2 (Or.inl hnm) (hcl r hrot) pre 0 (init cfg []) []
      (inv2_init cfg r hrot) hppre (fun _ _ _ => Nat.zero_le _) (monotone_prefix hmono)
      (flushed_prefix _ _ hf) (fun _ _ _ _ act h => by cases h)
    exact (step_ext (Or.inl hnm) (hcl r hrot) _ o.1 o.2.1 hI.1 hpo.1 hI.hw
      (fun hact => hI.hw_init (Or.inl hnm) (hcl r hrot) o.2.1 hact)).2.1
  · have hr := run_rot_tD hnm (hcl r hrot) pre (init cfg []) hrot hppre
    exact (step_ext (Or.inr hnm) (hcl r hrot) _ o.1 o.2.1 hr hpo.1
      (fun h => by rw [hnm] at h; cases h) (fun _ h => by rw [hnm] at h; cases h)).2.1

/-! ### the shape of a restart -/

/-- **Restart followed by initialisation**, from any state of a run in which nothing is
    buffered: the single-run invariant is re-established with the same content `W`; with
    `append` the directory is untouched and the newest file (the old handle) is continued;
    without `append` a new empty file is created whose name did not exist before and whose key
    is above all existing keys. -/
theorem restart_init_B {r : RotCfg}
    (hB : r.naming = .numbersDirect ∨ r.naming = .timestampsDirect) (hc : r.cleanup = none)
    (s : St) (act : Active) (a : Abs) (lo : Nat) (W : List Nat) (c : Cfg) (t now : Nat)
    (hA : ActInv s.cfg.cap s.dir act a)
    (hN : NamingInv r.naming lo act) (hW : (a.closed ++ [a.cur]).flatten = W)
    (hp : act.pending = []) (hcrot : c.rot = some r) (hlo : lo ≤ now) :
    ∃ s0 act0 a0, initState (step s (.restart c) t noFaults).1 now noFaults = (s0, true) ∧
      s0.cfg = c ∧ s0.act = some act0 ∧ act0.pending = [] ∧
      ActInv c.cap s0.dir act0 a0 ∧ NamingInv r.naming now act0 ∧
      (a0.closed ++ [a0.cur]).flatten = W ∧
      (c.append = true → s0.dir = s.dir ∧ act0.handle = act.handle) ∧
      (c.append = false → s.dir.get act0.handle = none ∧
        (∀ n f, s.dir.get n = some f → keyLt (nkey n) (nkey act0.handle) = true) ∧
        s0.dir = s.dir.set act0.handle ⟨[], now⟩) := by
  obtain ⟨pre, f, hd, hpre, hcur⟩ := hA.dir
  have hW' : ((pre ++ [(act.handle, f)]).map (·.2.data)).flatten = W := by
    rw [hp] at hcur
    simp only [List.append_nil] at hcur
    rw [← hW, ← hpre, ← hcur]
    simp
  have hs1 : (step s (.restart c) t noFaults).1 = { s with cfg := c, act := none } := rfl
  rw [hs1]
  obtain ⟨s0, act0, a0, i1, i2, i3, i3', i4, i5, i6, i7⟩ :=
    init_inv2 { s with cfg := c, act := none } r now lo W _ hcrot hB hc hd hW'
      (lastShape_of_handle hN.shape) hlo
  refine ⟨s0, act0, a0, i1, i2, i3, i3', i4, i5, i6, ?_, ?_⟩
  · intro happ
    rcases i7 with ⟨_, h2, pre', f', h3⟩ | ⟨h1, _⟩
    · refine ⟨h2, ?_⟩
      have := List.append_inj_right' h3 rfl
      simp only [List.cons.injEq, Prod.mk.injEq, and_true] at this
      exact this.1.symm
    · rcases h1 with h1 | h1
      · simp only at h1; rw [happ] at h1; cases h1
      · simp at h1
  · intro happ
    rcases i7 with ⟨h1, _⟩ | ⟨_, h2, h3, h4⟩
    · simp only at h1; rw [happ] at h1; cases h1
    · refine ⟨h2, ?_, h4⟩
      intro n f' hget
      exact h3 (n, f') (hd.1.subset (FV.FlwA.mem_of_get s.dir n f' hget))

/-- the invariant holds again after the first write of the new run, and the record is the last
    one on disk -/
theorem restart_write_B {r : RotCfg}
    (hB : r.naming = .numbersDirect ∨ r.naming = .timestampsDirect) (hc : r.cleanup = none)
    (s : St) (lo : Nat) (W : List Nat) (c : Cfg) (t now : Nat) (b : List Nat)
    (hI : Inv2 r lo s W) (hq : Quiet s) (hcrot : c.rot = some r) (hlo : lo ≤ now) :
    Inv2 r now (step (step s (.restart c) t noFaults).1 (.write b) now noFaults).1 (W ++ b) ∧
    (viewFiles (step (step s (.restart c) t noFaults).1 (.write b) now noFaults).1).flatten =
      W ++ b := by
  have h1 := (step_inv2 hB hc s W lo (.restart c) t hI (Or.inr ⟨c, rfl, hcrot⟩)
    (fun h => by cases h) (fun _ => hq)).1
  simp only [Op.usesClock, Bool.false_eq_true, if_false, opBytes, List.append_nil] at h1
  have h2 := (step_inv2 hB hc _ W lo (.write b) now h1 (Or.inl rfl) (fun _ => hlo)
    (fun h => by cases h)).1
  simp only [Op.usesClock, if_true, opBytes] at h2
  exact ⟨h2, h2.view⟩

theorem Inv2.no_gz {r : RotCfg} {lo : Nat} {s : St} {W : List Nat} (h : Inv2 r lo s W) :
    ∀ n f, s.dir.get n = some f → PlainRot n := by
  intro n f hget
  have hmem := FV.FlwA.mem_of_get s.dir n f hget
  obtain ⟨_, hI⟩ := h
  cases hact : s.act with
  | none =>
    rw [hact] at hI
    obtain ⟨L, hd, _, _⟩ := hI
    exact hd.plainRot (n, f) hmem
  | some act =>
    rw [hact] at hI
    obtain ⟨a, hA, _, _⟩ := hI
    obtain ⟨pre, f0, hd, _, _⟩ := hA.dir
    exact hd.plainRot (n, f) hmem

/-! ### a decidable sufficient check for the guard -/

def newestIsBaseB (d : List (FName × File)) : Bool :=
  d.all (fun e => match e.1.ifx with
    | some (.ts k (some _)) => (match latestStamp d with | some k' => decide (k < k') | none => false)
    | _ => true)

theorem newestIsBaseB_sound (d : List (FName × File)) (h : newestIsBaseB d = true) :
    NewestIsBase d := by
  intro e he k r hifx
  have := List.all_eq_true.1 h e he
  simp only [hifx] at this
  cases hl : latestStamp d with
  | none => rw [hl] at this; cases this
  | some k' => rw [hl] at this; exact ⟨k', rfl, by simpa using this⟩

def guardB (s : St) : List (Op × Nat × Faults) → Bool
  | [] => true
  | o :: rest =>
    (match o.1 with
      | .write _ => !(s.act.isNone && s.cfg.append) || newestIsBaseB s.dir
      | _ => true) && guardB (step s o.1 o.2.1 o.2.2).1 rest

theorem guardB_sound : ∀ (ops : List (Op × Nat × Faults)) (s : St), guardB s ops = true →
    GuardFrom s ops := by
  intro ops
  induction ops with
  | nil => intro s _ pre b now fl post h; simp at h
  | cons o ops ih =>
    intro s h pre b now fl post hops hact happ
    simp only [guardB, Bool.and_eq_true] at h
    cases pre with
    | nil =>
      simp only [List.nil_append, List.cons.injEq] at hops
      have h1 := h.1
      rw [hops.1] at h1
      simp only [runOps, List.foldl_nil] at hact happ ⊢
      simp only [hact, happ, Option.isNone_none, Bool.and_self, Bool.not_true, Bool.false_or] at h1
      exact newestIsBaseB_sound _ h1
    | cons o' pre' =>
      simp only [List.cons_append, List.cons.injEq] at hops
      obtain ⟨rfl, hops⟩ := hops
      exact ih _ h.2 pre' b now fl post hops hact happ

/-! ### `timestampsDirect` without `append`: no guard -/

theorem run_no_append_tD {r : RotCfg} (hnm : r.naming = .timestampsDirect) (hc : r.cleanup = none) :
    ∀ (ops : List (Op × Nat × Faults)) (s : St), s.cfg.rot = some r → s.cfg.append = false →
      (∀ o ∈ ops, (o.1.plain = true ∨ ∃ c, o.1 = .restart c ∧ c.rot = some r) ∧ o.2.2 = noFaults) →
      (∀ o ∈ ops, ∀ c, o.1 = .restart c → c.append = false) →
      (runOps s ops).cfg.append = false := by
  intro ops
  induction ops with
  | nil => intro s _ h _ _; exact h
  | cons o ops ih =>
    intro s hrot happ hp hna
    obtain ⟨hp1, hp2⟩ := hp o (by simp)
    have e1 : runOps s (o :: ops) = runOps (step s o.1 o.2.1 noFaults).1 ops := by
      rw [← hp2]; rfl
    rw [e1]
    obtain ⟨x1, _, x3⟩ := step_ext (Or.inr hnm) hc s o.1 o.2.1 hrot hp1
      (fun h => by rw [hnm] at h; cases h) (fun _ h => by rw [hnm] at h; cases h)
    refine ih _ x1 ?_ (fun o' ho' => hp o' (by simp [ho'])) (fun o' ho' => hna o' (by simp [ho']))
    rcases hp1 with hpl | ⟨c, hc', _⟩
    · rw [x3 hpl]; exact happ
    · rw [hc']; exact hna o (by simp) c hc'

/-- `timestampsDirect`, no run appends (a special case of `multi_run_stream_B_timestampsDirect`) -/
theorem multi_run_stream_B_tsd_no_append (cfg : Cfg) (hn : NoCleanup cfg) (r : RotCfg)
    (hrot : cfg.rot = some r) (hnm : r.naming = .timestampsDirect) (_happ : cfg.append = false)
    (ops : List (Op × Nat × Faults)) (hm : MultiRun cfg.rot ops)
    (_hna : ∀ o ∈ ops, ∀ c, o.1 = .restart c → c.append = false) :
    (viewFiles (runOps (init cfg []) ops)).flatten = written ops :=
  multi_run_stream_B cfg ⟨hn, r, hrot, Or.inr hnm⟩ ops hm

/-! ### the former counterexample for `timestampsDirect` with `append` (finding D22, repaired) -/

def wCfg : Cfg :=
  { rot := some ⟨none, none, .timestampsDirect, none⟩, append := true, cap := none,
    symlink := false }

/-- two rotations within one second, shutdown, restart with `append`, one write -/
def wOps : List (Op × Nat × Faults) :=
  [(.write [1], 5, noFaults), (.rotate, 5, noFaults), (.write [2], 5, noFaults),
   (.rotate, 5, noFaults), (.write [3], 5, noFaults), (.shutdown, 5, noFaults),
   (.restart wCfg, 5, noFaults), (.write [4], 6, noFaults)]

theorem wCfg_ok : CfgMB wCfg :=
  ⟨fun r h => by cases h; rfl, _, rfl, Or.inr rfl⟩

theorem wOps_multiRun : MultiRun wCfg.rot wOps := by
  refine ⟨?_, by unfold Monotone; decide, by unfold FlushedBeforeRestart; decide⟩
  intro o ho
  simp only [wOps, List.mem_cons, List.not_mem_nil, or_false] at ho
  rcases ho with rfl | rfl | rfl | rfl | rfl | rfl | rfl | rfl
  all_goals first
    | exact ⟨Or.inl rfl, rfl⟩
    | exact ⟨Or.inr ⟨_, rfl, rfl⟩, rfl⟩

/-- This history was the witness of finding D22 (`C06-tsd-append-after-restart-files`), the defect
    repaired by the `fix:` commit: before the repair the new run re-opened the base file
    `ts 5 none` although `ts 5 (some 0)` and `ts 5 (some 1)` are newer, and the stream read
    `[1, 4, 2, 3]`. Now the new run continues the newest file `ts 5 (some 1)`: the stream is
    complete and in order. -/
theorem tsd_append_restart_former_witness :
    CfgMB wCfg ∧ MultiRun wCfg.rot wOps ∧
    viewFiles (runOps (init wCfg []) wOps) = [[1], [2], [3, 4]] ∧ written wOps = [1, 2, 3, 4] ∧
    (viewFiles (runOps (init wCfg []) wOps)).flatten = written wOps :=
  ⟨wCfg_ok, wOps_multiRun, by decide, by decide, by decide⟩

/-- … as `multi_run_stream_B` says -/
example : (viewFiles (runOps (init wCfg []) wOps)).flatten = written wOps :=
  multi_run_stream_B wCfg wCfg_ok wOps wOps_multiRun

/-- the former guard does not hold on this history (the newest stamp has `.restart-N` siblings
    when the appending run initialises): it is no longer necessary -/
example : guardB (init wCfg []) wOps = false := by decide

/-! ### non-vacuity -/

/-- `timestampsDirect`, size criterion, buffered; the runs alternate `append` -/
def mCfgT (app : Bool) (cap : Option Nat) : Cfg :=
  { rot := some ⟨some 2, some .minute, .timestampsDirect, none⟩, append := app, cap := cap,
    symlink := true }

def mCfgN (app : Bool) (cap : Option Nat) : Cfg :=
  { rot := some ⟨some 2, none, .numbersDirect, none⟩, append := app, cap := cap,
    symlink := false }

/-- three runs: the second appends (to a newest file that is a base name), the third does not
    and starts within the same second as the last file of the second run -/
def mOpsT : List (Op × Nat × Faults) :=
  [(.restart (mCfgT false none), 0, noFaults),
   (.write [1, 2, 3], 5, noFaults), (.write [4], 5, noFaults), (.write [5], 6, noFaults),
   (.rotate, 7, noFaults), (.write [6], 7, noFaults), (.flush, 0, noFaults),
   (.restart (mCfgT true (some 3)), 0, noFaults), (.write [7], 8, noFaults),
   (.write [8, 9], 9, noFaults), (.write [10], 9, noFaults), (.shutdown, 0, noFaults),
   (.restart (mCfgT false (some 0)), 0, noFaults), (.restart (mCfgT false none), 0, noFaults),
   (.rotate, 9, noFaults), (.write [11], 9, noFaults), (.rotate, 9, noFaults)]

def mOpsN : List (Op × Nat × Faults) :=
  [(.write [1, 2, 3], 5, noFaults), (.write [4], 5, noFaults), (.shutdown, 0, noFaults),
   (.restart (mCfgN true (some 3)), 0, noFaults), (.write [5], 5, noFaults),
   (.write [6, 7], 9, noFaults), (.write [8], 9, noFaults), (.flush, 0, noFaults),
   (.restart (mCfgN false none), 0, noFaults), (.write [9], 9, noFaults)]

theorem mOpsT_multiRun : MultiRun (mCfgT true none).rot mOpsT := by
  refine ⟨?_, by unfold Monotone; decide, by unfold FlushedBeforeRestart; decide⟩
  intro o ho
  simp only [mOpsT, List.mem_cons, List.not_mem_nil, or_false] at ho
  rcases ho with rfl | rfl | rfl | rfl | rfl | rfl | rfl | rfl | rfl | rfl | rfl | rfl | rfl |
    rfl | rfl | rfl | rfl
  all_goals first
    | exact ⟨Or.inl rfl, rfl⟩
    | exact ⟨Or.inr ⟨_, rfl, rfl⟩, rfl⟩

theorem mOpsN_multiRun : MultiRun (mCfgN false none).rot mOpsN := by
  refine ⟨?_, by unfold Monotone; decide, by unfold FlushedBeforeRestart; decide⟩
  intro o ho
  simp only [mOpsN, List.mem_cons, List.not_mem_nil, or_false] at ho
  rcases ho with rfl | rfl | rfl | rfl | rfl | rfl | rfl | rfl | rfl | rfl
  all_goals first
    | exact ⟨Or.inl rfl, rfl⟩
    | exact ⟨Or.inr ⟨_, rfl, rfl⟩, rfl⟩

/-- the hypotheses of `multi_run_stream_B_partial` are satisfiable for `timestampsDirect` with an
    appending run -/
example : CfgMB (mCfgT true none) ∧ MultiRun (mCfgT true none).rot mOpsT ∧
    AppendGuard (mCfgT true none) mOpsT :=
  ⟨⟨fun r h => by cases h; rfl, _, rfl, Or.inr rfl⟩, mOpsT_multiRun,
   guardB_sound _ _ (by decide)⟩

example : (viewFiles (runOps (init (mCfgT true none) []) mOpsT)).flatten =
    [1, 2, 3, 4, 5, 6, 7, 8, 9, 10, 11] :=
  multi_run_stream_B_partial _ ⟨fun r h => by cases h; rfl, _, rfl, Or.inr rfl⟩ _ mOpsT_multiRun
    (fun _ => guardB_sound _ _ (by decide))

/-- the appending run continues `ts 7 none`; the third run (no append) starts in the second of
    the newest file `ts 9 none` and gets `ts 9 (some 0)`, its rotation `ts 9 (some 1)` -/
example : viewFiles (runOps (init (mCfgT true none) []) mOpsT) =
    [[1, 2, 3], [4, 5], [6, 7, 8, 9], [10], [11], []] := by decide

example : (viewFiles (runOps (init (mCfgN false none) []) mOpsN)).flatten =
    [1, 2, 3, 4, 5, 6, 7, 8, 9] :=
  multi_run_stream_B_numbersDirect _ (fun r h => by cases h; rfl) _ rfl rfl _ mOpsN_multiRun

example : viewFiles (runOps (init (mCfgN false none) []) mOpsN) =
    [[1, 2, 3], [4, 5, 6, 7], [8], [9]] := by decide

/-- `fresh_names_B` applied: the step `write [11]` of the third run creates a file; all files
    that existed before are unchanged prefixes -/
example : DirExt (runOps (init (mCfgT true none) []) (mOpsT.take 15)).dir
    (runOps (init (mCfgT true none) []) (mOpsT.take 15 ++ [(.write [11], 9, noFaults)])).dir :=
  fresh_names_B _ ⟨fun r h => by cases h; rfl, _, rfl, Or.inr rfl⟩ _ mOpsT_multiRun
    (mOpsT.take 15) _ (mOpsT.drop 16) (by decide)

end FV.FlwB
