import FlexiVerif.Lemmas.FlwCrashA
import FlexiVerif.Lemmas.FlwCrashCleanup
/-
  Machinery for `Props/C11Gap.lean` ("the recorded points leave no gap").

  * `Chain R l`: every two neighbours of `l` are related (`List.Chain'`; neither `List.IsChain`
    nor `List.Chain'` is in core/Std 4.33, so this is the obvious recursive predicate).
  * `Tr R x l y`: a trace that ENDS IN its last recorded element. Unlike
    `Chain R (x :: l ++ [y])` traces compose (`Tr.append`): nothing can hide between the last
    recorded element of one part and the first recorded element of the next.
  * One lemma per instrumented function of `Model/FlwTrace.lean` (`openFileT_chain`,
    `initStateT_chain`, `mountNextCoreT_chain`, `mountNextT_chain`, `writeBufferT_chain`,
    `stepT_chain`), generic in the step relation `R`: what is needed from `R` is collected in
    `Rules` (one field per kind of system call the code makes outside the cleanup pass, and the
    trace of a cleanup pass that starts on a `Good` directory). `Props/C11Gap.lean` instantiates
    `R` twice.
-/
namespace FV.Gap
open FV.Flw
open FV.FlwA (openS openPts openFileT_eq cleanupS cleanupPts cleanupT_eq)

/-! ### chains and traces -/

/-- every two neighbours of the list are related (`List.Chain'`) -/
def Chain {α : Type} (R : α → α → Prop) : List α → Prop
  | [] => True
  | [_] => True
  | a :: b :: t => R a b ∧ Chain R (b :: t)

@[simp] theorem chain_nil {α : Type} (R : α → α → Prop) : Chain R [] = True := rfl
@[simp] theorem chain_single {α : Type} (R : α → α → Prop) (a : α) : Chain R [a] = True := rfl
@[simp] theorem chain_cons_cons {α : Type} (R : α → α → Prop) (a b : α) (t : List α) :
    Chain R (a :: b :: t) = (R a b ∧ Chain R (b :: t)) := rfl

/-- `Tr R x l y`: starting at `x`, the elements of `l` are reached with one `R`-step each, and
    `y` IS the last element reached (`x` itself if `l` is empty) -/
def Tr {α : Type} (R : α → α → Prop) : α → List α → α → Prop
  | x, [], y => x = y
  | x, a :: t, y => R x a ∧ Tr R a t y

@[simp] theorem tr_nil {α : Type} (R : α → α → Prop) (x y : α) : Tr R x [] y = (x = y) := rfl
@[simp] theorem tr_cons {α : Type} (R : α → α → Prop) (x a y : α) (t : List α) :
    Tr R x (a :: t) y = (R x a ∧ Tr R a t y) := rfl

theorem Tr.refl {α : Type} (R : α → α → Prop) (x : α) : Tr R x [] x := rfl

/-- traces compose: the second one starts where the first one ended -/
theorem Tr.append {α : Type} {R : α → α → Prop} {l1 l2 : List α} : ∀ {x y z : α},
    Tr R x l1 y → Tr R y l2 z → Tr R x (l1 ++ l2) z := by
  induction l1 with
  | nil => intro x y z h1 h2; simp only [tr_nil] at h1; subst h1; simpa using h2
  | cons a t ih =>
    intro x y z h1 h2
    simp only [tr_cons] at h1
    simp only [List.cons_append, tr_cons]
    exact ⟨h1.1, ih h1.2 h2⟩

/-- one unrecorded step in front of a trace whose first recorded element shows its start -/
theorem Tr.step_front {α : Type} {R : α → α → Prop} {x x1 y : α} {rest : List α}
    (hx : R x x1) (h : Tr R x1 (x1 :: rest) y) : Tr R x (x1 :: rest) y := by
  simp only [tr_cons] at h ⊢
  exact ⟨hx, h.2⟩

/-- a trace is a chain, the state before and the state after included -/
theorem Tr.chain {α : Type} {R : α → α → Prop} (hrefl : ∀ a, R a a) {l : List α} : ∀ {x y : α},
    Tr R x l y → Chain R (x :: l ++ [y]) := by
  induction l with
  | nil => intro x y h; simp only [tr_nil] at h; subst h; simp [hrefl]
  | cons a t ih =>
    intro x y h
    simp only [tr_cons] at h
    simp only [List.cons_append, chain_cons_cons]
    exact ⟨h.1, ih h.2⟩

/-! ### facts on `Dir` -/

/-- writing the content of a file that was created empty: the file is replaced in place -/
theorem set_set (d : Dir) (n : FName) (v w : File) : (d.set n v).set n w = d.set n w := by
  show (n, w) :: (d.set n v).erase n = (n, w) :: d.erase n
  rw [FV.FlwA.erase_set_self]

theorem rename_fst_of_not (d : Dir) (a b : FName) (h : ¬ (d.rename a b).2 = true) :
    (d.rename a b).1 = d := by
  unfold Dir.rename at h ⊢
  cases hg : d.get a <;> simp [hg] at h ⊢

theorem cleanupS_eq (now : Nat) (cfg : Cfg) (r : RotCfg) (link : Option FName) (d : Dir) :
    (cleanupT now cfg r link d).1 = cleanupS now cfg r d := by
  rw [cleanupT_eq]

/-! ### on-disk states, the rules of a step relation -/

/-- the on-disk part of a recorded point / of a state -/
def pst (p : Pt) : Dir × Option FName := (p.dir, p.link)
def sst (s : St) : Dir × Option FName := (s.dir, s.link)

@[simp] theorem pst_pt (nm : String) (s : St) : pst (pt nm s) = sst s := rfl
@[simp] theorem pst_mk (nm : String) (d : Dir) (l : Option FName) : pst ⟨nm, d, l⟩ = (d, l) := rfl

/-- what the lemmas below need from a step relation `R` on (directory, symlink) pairs: one rule
    per kind of effect the code has outside the cleanup pass, and the trace of a cleanup pass
    that starts on a `Good` directory -/
structure Rules (R : Dir × Option FName → Dir × Option FName → Prop) (Good : Dir → Prop) :
    Prop where
  refl : ∀ x, R x x
  create : ∀ (d : Dir) (l : Option FName) (n : FName) (f : File), d.get n = none → f.data = [] →
    R (d, l) (d.set n f, l)
  trunc : ∀ (d : Dir) (l : Option FName) (n : FName) (f0 : File), d.get n = some f0 →
    R (d, l) (d.set n { f0 with data := [] }, l)
  append : ∀ (d : Dir) (l : Option FName) (n : FName) (b : List Nat), R (d, l) (d.append n b, l)
  rename : ∀ (d : Dir) (l : Option FName) (a b : FName), R (d, l) ((d.rename a b).1, l)
  linkRemove : ∀ (d : Dir) (l : Option FName), R (d, l) (d, none)
  linkCreate : ∀ (d : Dir) (n : FName), R (d, none) (d, some n)
  cleanup : ∀ (now : Nat) (cfg : Cfg) (r : RotCfg) (link : Option FName) (d : Dir), Good d →
    Tr R (d, link) ((cleanupPts now cfg r link d).map pst) (cleanupS now cfg r d, link)

/-- every cleanup pass of the trace starts on a `Good` directory: the pass of the initialisation
    starts at the point `open.after`, the pass of a rotation at the point `rot.mounted` -/
def StartsGood (Good : Dir → Prop) (tr : List Pt) : Prop :=
  ∀ p ∈ tr, (p.name = "open.after" ∨ p.name = "rot.mounted") → Good p.dir

theorem StartsGood.mono {Good : Dir → Prop} {tr tr' : List Pt} (h : StartsGood Good tr)
    (hsub : ∀ p ∈ tr', p ∈ tr) : StartsGood Good tr' :=
  fun p hp hn => h p (hsub p hp) hn

section generic
variable {R : Dir × Option FName → Dir × Option FName → Prop} {Good : Dir → Prop}

/-- the Numbers rename: the point behind it is recorded only if something was renamed -/
theorem rename_step (hR : Rules R Good) (s : St) (a b : FName) (nm : String) :
    Tr R (sst s)
      ((if (s.dir.rename a b).2 = true then [pt nm { s with dir := (s.dir.rename a b).1 }]
        else []).map pst)
      (sst { s with dir := (s.dir.rename a b).1 }) := by
  split
  · simp only [List.map_cons, List.map_nil, pst_pt, tr_cons, tr_nil, and_true]
    exact hR.rename _ _ _ _
  · rename_i h
    simp only [List.map_nil, tr_nil, sst, rename_fst_of_not _ _ _ h]

/-! ### `open_log_file` -/

theorem openFileT_chain (hR : Rules R Good) (s : St) (n : FName) (now : Nat) :
    Tr R (sst s) ((openPts s n now).map pst) (sst (openS s n now)) := by
  unfold openS openPts openFileT
  by_cases hs : s.cfg.symlink = true <;> cases hg : s.dir.get n <;>
    by_cases ha : s.cfg.append = true <;>
    simp [hs, hg, ha, sst]
  all_goals and_intros
  all_goals first
    | exact hR.refl _
    | exact hR.linkRemove _ _
    | exact hR.linkCreate _ _
    | exact hR.create _ _ _ _ hg rfl
    | exact hR.trunc _ _ _ _ hg

theorem openS_cfg (s : St) (n : FName) (now : Nat) : (openS s n now).cfg = s.cfg := by
  unfold openS openFileT
  by_cases hs : s.cfg.symlink = true <;> simp [hs]

/-- the last point of `open_log_file` shows the state it returns -/
theorem open_after_mem (s : St) (n : FName) (now : Nat) :
    (⟨"open.after", (openS s n now).dir, (openS s n now).link⟩ : Pt) ∈ openPts s n now := by
  unfold openS openPts openFileT
  by_cases hs : s.cfg.symlink = true <;> simp [hs, pt]

/-! ### `State::initialize` -/

/-- the naming prelude of `initStateT` (state, ifx, idx, stamp, points), verbatim -/
def initPre (s : St) (r : RotCfg) (now : Nat) : St × Infix × Nat × Nat × List Pt :=
  match r.naming with
  | .timestampsDirect =>
    let t := if !s.cfg.append then now else (latestStamp s.dir).getD now
    (s, if !s.cfg.append then collisionFree s.dir t else appendTarget s.dir t, 0, t, [])
  | .timestamps =>
    let curN : FName := ⟨some .cur, false⟩
    if !s.cfg.append then
      let date := createdOr s.dir curN now
      let target : FName := ⟨some (collisionFree s.dir date), false⟩
      let (d, _) := s.dir.rename curN target
      let s' := { s with dir := d }
      (s', .cur, 0, now, [pt "rename.before" s, pt "rename.after" s'])
    else (s, .cur, 0, createdOr s.dir curN now, [])
  | .numbers =>
    let idx := match highestIndex s.dir with | none => 0 | some h => h + 1
    if !s.cfg.append then
      let (d, renamed) := s.dir.rename ⟨some .cur, false⟩ ⟨some (.num idx), false⟩
      let s' := { s with dir := d }
      (s', .cur, if renamed then idx + 1 else idx, 0,
        [pt "rename.before" s] ++ (if renamed then [pt "rename.after" s'] else []))
    else (s, .cur, idx, 0, [])
  | .numbersDirect =>
    let idx := match highestIndex s.dir with
      | none => 0
      | some h => if s.cfg.append then h else h + 1
    (s, .num idx, idx, 0, [])

/-- the rest of `initStateT` (open, cleanup), verbatim -/
def initRest (r : RotCfg) (now : Nat) (q : St × Infix × Nat × Nat × List Pt) : St × List Pt :=
  let (s, ifx, idx, stamp, tr0) := q
  let n : FName := ⟨some ifx, false⟩
  let (s, tr1) := openFileT s n now
  let size := if s.cfg.append then fileLen s.dir n else 0
  let created := createdOr s.dir n now
  let (d, tr2) := cleanupT now s.cfg r s.link s.dir
  ({ s with dir := d, act := some ⟨n, n, [], false, idx, stamp, size, created⟩ }, tr0 ++ tr1 ++ tr2)

theorem initStateT_some (s : St) (now : Nat) (r : RotCfg) (hr : s.cfg.rot = some r) :
    initStateT s now = initRest r now (initPre s r now) := by
  unfold initStateT
  simp only [hr]
  rfl

theorem initPre_chain (hR : Rules R Good) (s : St) (r : RotCfg) (now : Nat) :
    Tr R (sst s) ((initPre s r now).2.2.2.2.map pst) (sst (initPre s r now).1) := by
  unfold initPre
  cases hn : r.naming <;> by_cases ha : s.cfg.append = true <;> simp [ha]
  · exact ⟨hR.refl _, rename_step hR s _ _ _⟩
  · exact ⟨hR.refl _, hR.rename _ _ _ _⟩

theorem initRest_chain (hR : Rules R Good) (r : RotCfg) (now : Nat) (x : Dir × Option FName)
    (q : St × Infix × Nat × Nat × List Pt) (hg : StartsGood Good (initRest r now q).2)
    (h : Tr R x (q.2.2.2.2.map pst) (sst q.1)) :
    Tr R x ((initRest r now q).2.map pst) (sst (initRest r now q).1) := by
  obtain ⟨s, ifx, idx, stamp, tr0⟩ := q
  simp only [initRest, openFileT_eq, cleanupT_eq, List.map_append] at hg ⊢
  refine Tr.append (Tr.append h (openFileT_chain hR _ _ _)) (hR.cleanup _ _ _ _ _ ?_)
  exact hg _ (List.mem_append_left _ (List.mem_append_right _
    (open_after_mem s ⟨some ifx, false⟩ now))) (Or.inl rfl)

theorem initStateT_chain (hR : Rules R Good) (s : St) (now : Nat)
    (hg : StartsGood Good (initStateT s now).2) :
    Tr R (sst s) ((initStateT s now).2.map pst) (sst (initStateT s now).1) := by
  cases hr : s.cfg.rot with
  | none =>
    unfold initStateT
    simp only [hr, openFileT_eq]
    exact openFileT_chain hR s _ now
  | some r =>
    rw [initStateT_some s now r hr] at hg ⊢
    exact initRest_chain hR r now _ _ hg (initPre_chain hR s r now)

theorem initPre_cfg (s : St) (r : RotCfg) (now : Nat) : (initPre s r now).1.cfg = s.cfg := by
  unfold initPre
  cases hn : r.naming <;> by_cases ha : s.cfg.append = true <;> simp [ha]

theorem initRest_cfg (r : RotCfg) (now : Nat) (q : St × Infix × Nat × Nat × List Pt) :
    (initRest r now q).1.cfg = q.1.cfg := by
  obtain ⟨s, ifx, idx, stamp, tr0⟩ := q
  simp only [initRest, openFileT_eq, cleanupT_eq, openS_cfg]

theorem initStateT_cfg (s : St) (now : Nat) : (initStateT s now).1.cfg = s.cfg := by
  cases hr : s.cfg.rot with
  | none =>
    unfold initStateT
    simp only [hr, openFileT_eq, openS_cfg]
  | some r => rw [initStateT_some s now r hr, initRest_cfg, initPre_cfg]

/-! ### rotation -/

/-- the naming prelude of `mountNextCoreT` (state, writer, ifx, points), verbatim -/
def mountPre (s : St) (a : Active) (r : RotCfg) (now : Nat) : St × Active × Infix × List Pt :=
  match r.naming with
  | .timestamps =>
    let target : FName := ⟨some (collisionFree s.dir a.stamp), false⟩
    let curN : FName := ⟨some .cur, false⟩
    let (d, renamed) := s.dir.rename curN target
    let a' := if renamed && a.handle = curN then { a with handle := target } else a
    let s' := { s with dir := d }
    (s', { a' with stamp := createdOr d curN now }, .cur, [pt "rename.before" s, pt "rename.after" s'])
  | .timestampsDirect =>
    (s, { a with stamp := now }, collisionFree s.dir now, [])
  | .numbers =>
    let target : FName := ⟨some (.num a.idx), false⟩
    let curN : FName := ⟨some .cur, false⟩
    let (d, renamed) := s.dir.rename curN target
    let a' := if renamed && a.handle = curN then { a with handle := target } else a
    let s' := { s with dir := d }
    (s', { a' with idx := if renamed then a.idx + 1 else a.idx }, .cur,
      [pt "rename.before" s] ++ (if renamed then [pt "rename.after" s'] else []))
  | .numbersDirect =>
    (s, { a with idx := a.idx + 1 }, .num (a.idx + 1), [])

/-- the rest of `mountNextCoreT` (open, replace the writer, cleanup), verbatim -/
def mountRest (r : RotCfg) (now : Nat) (q : St × Active × Infix × List Pt) : St × Active × List Pt :=
  let (s, a, ifx, tr0) := q
  let n : FName := ⟨some ifx, false⟩
  let p1 := pt "rot.infix_chosen" s
  let (s, tr1) := openFileT s n now
  let p2 := pt "rot.opened" s
  let (s, a) := flushAct s a
  let a := { a with handle := n, path := n, unbuffered := false, size := 0,
                    created := createdOr s.dir n now }
  let p3 := pt "rot.mounted" s
  let (d, tr2) := cleanupT now s.cfg r s.link s.dir
  ({ s with dir := d }, a, tr0 ++ [p1] ++ tr1 ++ [p2, p3] ++ tr2)

theorem mountNextCoreT_due (s : St) (a : Active) (r : RotCfg) (force : Bool) (now : Nat)
    (h : (force || rotationNecessary r a now) = true) :
    mountNextCoreT s a r force now = mountRest r now (mountPre s a r now) := by
  unfold mountNextCoreT
  simp only [h, Bool.not_true, Bool.false_eq_true, if_false]
  rfl

theorem mountPre_chain (hR : Rules R Good) (s : St) (a : Active) (r : RotCfg) (now : Nat) :
    Tr R (sst s) ((mountPre s a r now).2.2.2.map pst) (sst (mountPre s a r now).1) := by
  unfold mountPre
  cases hn : r.naming <;> simp
  · exact ⟨hR.refl _, rename_step hR s _ _ _⟩
  · exact ⟨hR.refl _, hR.rename _ _ _ _⟩

theorem mountRest_chain (hR : Rules R Good) (r : RotCfg) (now : Nat) (x : Dir × Option FName)
    (q : St × Active × Infix × List Pt) (hg : StartsGood Good (mountRest r now q).2.2)
    (h : Tr R x (q.2.2.2.map pst) (sst q.1)) :
    Tr R x ((mountRest r now q).2.2.map pst) (sst (mountRest r now q).1) := by
  obtain ⟨s, a, ifx, tr0⟩ := q
  simp only [mountRest, openFileT_eq, cleanupT_eq, flushAct, List.map_append] at hg ⊢
  refine Tr.append (Tr.append (Tr.append (Tr.append h ?_) (openFileT_chain hR _ _ _)) ?_)
    (hR.cleanup _ _ _ _ _ ?_)
  · simp only [List.map_cons, List.map_nil, pst_pt, tr_cons, tr_nil, and_true]
    exact hR.refl _
  · simp only [List.map_cons, List.map_nil, pst_pt, tr_cons, tr_nil]
    exact ⟨hR.refl _, hR.append _ _ _ _, rfl⟩
  · exact hg (pt "rot.mounted" { openS s ⟨some ifx, false⟩ now with
        dir := (openS s ⟨some ifx, false⟩ now).dir.append a.handle a.pending })
      (by simp) (Or.inr rfl)

theorem mountNextCoreT_chain (hR : Rules R Good) (s : St) (a : Active) (r : RotCfg) (force : Bool)
    (now : Nat) (hg : StartsGood Good (mountNextCoreT s a r force now).2.2) :
    Tr R (sst s) ((mountNextCoreT s a r force now).2.2.map pst)
      (sst (mountNextCoreT s a r force now).1) := by
  by_cases h : (force || rotationNecessary r a now) = true
  · rw [mountNextCoreT_due s a r force now h] at hg ⊢
    exact mountRest_chain hR r now _ _ hg (mountPre_chain hR s a r now)
  · simp [mountNextCoreT, h]

/-- when the rotation takes place, its first recorded point shows the state it started from -/
theorem mountNextCoreT_head (s : St) (a : Active) (r : RotCfg) (force : Bool) (now : Nat)
    (h : (force || rotationNecessary r a now) = true) :
    ((mountNextCoreT s a r force now).2.2.map pst).head? = some (sst s) := by
  rw [mountNextCoreT_due s a r force now h]
  unfold mountRest mountPre
  cases hn : r.naming <;> simp [openFileT_eq, cleanupT_eq]

theorem mountPre_cfg (s : St) (a : Active) (r : RotCfg) (now : Nat) :
    (mountPre s a r now).1.cfg = s.cfg := by
  unfold mountPre
  cases hn : r.naming <;> simp

theorem mountRest_cfg (r : RotCfg) (now : Nat) (q : St × Active × Infix × List Pt) :
    (mountRest r now q).1.cfg = q.1.cfg := by
  obtain ⟨s, a, ifx, tr0⟩ := q
  simp only [mountRest, openFileT_eq, cleanupT_eq, flushAct, openS_cfg]

theorem mountNextCoreT_cfg (s : St) (a : Active) (r : RotCfg) (force : Bool) (now : Nat) :
    (mountNextCoreT s a r force now).1.cfg = s.cfg := by
  by_cases h : (force || rotationNecessary r a now) = true
  · rw [mountNextCoreT_due s a r force now h, mountRest_cfg, mountPre_cfg]
  · simp [mountNextCoreT, h]

/-- `mount_next_linewriter_if_necessary`: the initial `current_write.flush()` has no point of its
    own, but the first point of the rotation proper shows the state right after it -/
theorem mountNextT_chain (hR : Rules R Good) (s : St) (a : Active) (r : RotCfg) (force : Bool)
    (now : Nat) (hg : StartsGood Good (mountNextT s a r force now).2.2) :
    Tr R (sst s) ((mountNextT s a r force now).2.2.map pst)
      (sst (mountNextT s a r force now).1) := by
  by_cases h : (force || rotationNecessary r a now) = true
  · rw [FV.FlwA.mountNextT_due s a r force now h] at hg ⊢
    have hc := mountNextCoreT_chain hR (flushAct s a).1 (flushAct s a).2 r true now hg
    have hh := mountNextCoreT_head (flushAct s a).1 (flushAct s a).2 r true now rfl
    generalize ((mountNextCoreT (flushAct s a).1 (flushAct s a).2 r true now).2.2.map pst) = l
      at hc hh
    cases l with
    | nil => simp at hh
    | cons p rest =>
      simp only [List.head?_cons, Option.some.injEq] at hh
      subst hh
      exact Tr.step_front (hR.append s.dir s.link a.handle a.pending) hc
  · simp [mountNextT, h]

theorem mountNextT_cfg (s : St) (a : Active) (r : RotCfg) (force : Bool) (now : Nat) :
    (mountNextT s a r force now).1.cfg = s.cfg := by
  by_cases h : (force || rotationNecessary r a now) = true
  · rw [FV.FlwA.mountNextT_due s a r force now h, mountNextCoreT_cfg]
    rfl
  · simp [mountNextT, h]

/-! ### `State::write_buffer` -/

/-- direct mode: `write_all` is one write(2) on the open descriptor -/
theorem writeRaw_direct (s : St) (a : Active) (b : List Nat) (hcap : s.cfg.cap = none) :
    writeRaw s a b = ({ s with dir := s.dir.append a.handle b }, a) := by
  unfold writeRaw
  simp [hcap]

/-- `writeBufferT` behind the lazy initialisation, verbatim -/
def wbRest (b : List Nat) (now : Nat) (q : St × List Pt) : St × List Pt :=
  let (s, tr0) := q
  match s.act with
  | none => (s, tr0)
  | some a =>
    let (s, a, tr1) := match s.cfg.rot with
      | none => (s, a, [])
      | some r => mountNextT s a r false now
    let p1 := pt "write.before" s
    let (s, a) := writeRaw s a b
    let a := { a with size := a.size + b.length }
    let s := { s with act := some a }
    (s, tr0 ++ tr1 ++ [p1, pt "write.after" s])

theorem writeBufferT_eq (s : St) (b : List Nat) (now : Nat) :
    writeBufferT s b now =
      wbRest b now (match s.act with | some _ => (s, []) | none => initStateT s now) := rfl

/-- rotation (if due, trace `m.2.2` to the state `m.1`) and the write itself -/
theorem wbMount_chain (hR : Rules R Good) (s : St) (b : List Nat) (x : Dir × Option FName)
    (tr0 : List Pt) (m : St × Active × List Pt) (hcap : m.1.cfg.cap = none)
    (h0 : Tr R x (tr0.map pst) (sst s)) (hm : Tr R (sst s) (m.2.2.map pst) (sst m.1)) :
    Tr R x
      ((tr0 ++ m.2.2 ++ [pt "write.before" m.1,
          pt "write.after" { (writeRaw m.1 m.2.1 b).1 with
            act := some { (writeRaw m.1 m.2.1 b).2 with
              size := (writeRaw m.1 m.2.1 b).2.size + b.length } }]).map pst)
      (sst { (writeRaw m.1 m.2.1 b).1 with
        act := some { (writeRaw m.1 m.2.1 b).2 with
          size := (writeRaw m.1 m.2.1 b).2.size + b.length } }) := by
  rw [writeRaw_direct _ _ _ hcap, List.map_append, List.map_append]
  refine Tr.append (Tr.append h0 hm) ?_
  simp only [List.map_cons, List.map_nil, pst_pt, tr_cons, tr_nil, and_true]
  exact ⟨hR.refl _, hR.append _ _ _ _⟩

theorem wbRest_chain (hR : Rules R Good) (b : List Nat) (now : Nat) (x : Dir × Option FName)
    (q : St × List Pt) (hcap : q.1.cfg.cap = none) (hg : StartsGood Good (wbRest b now q).2)
    (h : Tr R x (q.2.map pst) (sst q.1)) :
    Tr R x ((wbRest b now q).2.map pst) (sst (wbRest b now q).1) := by
  obtain ⟨s, tr0⟩ := q
  unfold wbRest at hg ⊢
  cases ha : s.act with
  | none => simpa [ha] using h
  | some a =>
    cases hr : s.cfg.rot with
    | none =>
      simp only [ha, hr]
      exact wbMount_chain hR s b x tr0 (s, a, []) hcap h (Tr.refl _ _)
    | some r =>
      simp only [ha, hr] at hg ⊢
      exact wbMount_chain hR s b x tr0 (mountNextT s a r false now)
        (by rw [mountNextT_cfg]; exact hcap) h
        (mountNextT_chain hR s a r false now (hg.mono (fun p hp => by simp [hp])))

/-- the points of the lazy initialisation are points of the write -/
theorem wbRest_prefix (b : List Nat) (now : Nat) (q : St × List Pt) :
    ∀ p ∈ q.2, p ∈ (wbRest b now q).2 := by
  obtain ⟨s, tr0⟩ := q
  intro p hp
  unfold wbRest
  cases ha : s.act with
  | none => simpa [ha] using hp
  | some a =>
    cases hr : s.cfg.rot with
    | none => simp [ha, hr, hp]
    | some r => simp [ha, hr, hp]

theorem writeBufferT_chain (hR : Rules R Good) (s : St) (b : List Nat) (now : Nat)
    (hcap : s.cfg.cap = none) (hg : StartsGood Good (writeBufferT s b now).2) :
    Tr R (sst s) ((writeBufferT s b now).2.map pst) (sst (writeBufferT s b now).1) := by
  rw [writeBufferT_eq] at hg ⊢
  cases ha : s.act with
  | some a =>
    simp only [ha] at hg
    exact wbRest_chain hR b now _ (s, []) hcap hg (Tr.refl _ _)
  | none =>
    simp only [ha] at hg
    exact wbRest_chain hR b now _ (initStateT s now) (by rw [initStateT_cfg]; exact hcap) hg
      (initStateT_chain hR s now (hg.mono (wbRest_prefix b now _)))

/-! ### one operation -/

theorem stepT_chain (hR : Rules R Good) (s : St) (op : Op) (now : Nat)
    (hop : (∃ b, op = .write b) ∨ op = .rotate) (hcap : s.cfg.cap = none)
    (hg : StartsGood Good (stepT s op now).2) :
    Tr R (sst s) ((stepT s op now).2.map pst) (sst (stepT s op now).1) := by
  rcases hop with ⟨b, rfl⟩ | rfl
  · exact writeBufferT_chain hR s b now hcap hg
  · unfold stepT at hg ⊢
    cases ha : s.act with
    | none => exact Tr.refl _ _
    | some a =>
      cases hr : s.cfg.rot with
      | none => exact Tr.refl _ _
      | some r =>
        simp only [ha, hr] at hg
        exact mountNextT_chain hR s a r true now hg

end generic

end FV.Gap
