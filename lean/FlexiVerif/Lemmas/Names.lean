import FlexiVerif.Model.Names
/-
  Helper lemmas for the string level of the file names (`Model/Names.lean`):
  byte offsets vs. characters, `splitExt`, decimal rendering (`natToText`, `pad`),
  the code-point order `ltText`, and the characterisation of `acceptFile`.
-/
namespace FV.Names
open FV FV.Flw

/-! ### byte length and byte offsets -/

@[simp] theorem blen_nil : blen [] = 0 := rfl
@[simp] theorem blen_cons (c : Char) (s : List Char) : blen (c :: s) = utf8Len c + blen s := by
  simp [blen]
@[simp] theorem blen_append (a b : List Char) : blen (a ++ b) = blen a + blen b := by
  simp [blen]

theorem utf8Len_pos (c : Char) : 0 < utf8Len c := by
  unfold utf8Len; simp only []; split
  · omega
  · split
    · omega
    · split <;> omega

theorem utf8Len_underscore : utf8Len '_' = 1 := by decide

theorem blen_pos {s : List Char} (h : s ≠ []) : 0 < blen s := by
  cases s with
  | nil => exact absurd rfl h
  | cons c cs => have := utf8Len_pos c; simp; omega

theorem blen_eq_zero {s : List Char} (h : blen s = 0) : s = [] := by
  cases s with
  | nil => rfl
  | cons c cs => have := utf8Len_pos c; simp at h; omega

/-- the byte offset `blen p` in `p ++ r` is the character boundary after `p` -/
theorem byteDrop_blen_append (p r : List Char) : byteDrop (blen p) (p ++ r) = some r := by
  induction p with
  | nil => cases r <;> simp [byteDrop]
  | cons c cs ih =>
    have hc := utf8Len_pos c
    obtain ⟨k, hk⟩ : ∃ k, utf8Len c + blen cs = k + 1 := ⟨utf8Len c + blen cs - 1, by omega⟩
    simp only [blen_cons, List.cons_append, hk, byteDrop]
    have : utf8Len c ≤ k + 1 := by omega
    simp only [this, if_true]
    have : k + 1 - utf8Len c = blen cs := by omega
    rw [this]; exact ih

/-- the byte at offset `blen p` of `p ++ c :: r` is `_` iff the character `c` is `_` -/
theorem byteIsUnderscore_blen_append (p : List Char) (c : Char) (r : List Char) :
    byteIsUnderscore (blen p) (p ++ c :: r) = decide (c = '_') := by
  induction p with
  | nil => simp [byteIsUnderscore]
  | cons d ds ih =>
    have hd := utf8Len_pos d
    obtain ⟨k, hk⟩ : ∃ k, utf8Len d + blen ds = k + 1 := ⟨utf8Len d + blen ds - 1, by omega⟩
    simp only [blen_cons, List.cons_append, hk, byteIsUnderscore]
    have : utf8Len d ≤ k + 1 := by omega
    simp only [this, if_true]
    have : k + 1 - utf8Len d = blen ds := by omega
    rw [this]; exact ih

theorem byteIsUnderscore_blen_self (p : List Char) : byteIsUnderscore (blen p) p = false := by
  induction p with
  | nil => simp [byteIsUnderscore]
  | cons d ds ih =>
    have hd := utf8Len_pos d
    obtain ⟨k, hk⟩ : ∃ k, utf8Len d + blen ds = k + 1 := ⟨utf8Len d + blen ds - 1, by omega⟩
    simp only [blen_cons, hk, byteIsUnderscore]
    have : utf8Len d ≤ k + 1 := by omega
    simp only [this, if_true]
    have : k + 1 - utf8Len d = blen ds := by omega
    rw [this]; exact ih

/-- `byteIsUnderscore` at the boundary after `p`: the next character exists and is `_` -/
theorem byteIsUnderscore_blen_append_true {p r : List Char}
    (h : byteIsUnderscore (blen p) (p ++ r) = true) : ∃ r', r = '_' :: r' := by
  cases r with
  | nil => simp [byteIsUnderscore_blen_self] at h
  | cons c cs =>
    rw [byteIsUnderscore_blen_append] at h
    exact ⟨cs, by simp at h; rw [h]⟩

/-- inversion: a successful `byteDrop` cuts at a character boundary -/
theorem byteDrop_eq_some {n : Nat} {s r : List Char} (h : byteDrop n s = some r) :
    ∃ p, s = p ++ r ∧ blen p = n := by
  induction s generalizing n with
  | nil =>
    cases n with
    | zero => simp [byteDrop] at h; exact ⟨[], by simp [h]⟩
    | succ k => simp [byteDrop] at h
  | cons c cs ih =>
    cases n with
    | zero => simp [byteDrop] at h; exact ⟨[], by simp [h]⟩
    | succ k =>
      simp only [byteDrop] at h
      split at h
      · rename_i hle
        obtain ⟨p, hp, hb⟩ := ih h
        exact ⟨c :: p, by simp [hp], by simp [hb]; omega⟩
      · simp at h

/-- inversion: the byte at offset `n` is `_` only at a character boundary before a `_` -/
theorem byteIsUnderscore_eq_true {n : Nat} {s : List Char} (h : byteIsUnderscore n s = true) :
    ∃ p r, s = p ++ '_' :: r ∧ blen p = n := by
  induction s generalizing n with
  | nil => simp [byteIsUnderscore] at h
  | cons c cs ih =>
    cases n with
    | zero => simp [byteIsUnderscore] at h; exact ⟨[], cs, by simp [h], rfl⟩
    | succ k =>
      simp only [byteIsUnderscore] at h
      split at h
      · rename_i hle
        obtain ⟨p, r, hp, hb⟩ := ih h
        exact ⟨c :: p, r, by simp [hp], by simp [hb]; omega⟩
      · simp at h

/-- a byte offset inside a multi-byte character: `byteDrop` answers `none` (Rust `str::get`) -/
theorem byteDrop_inside_char (p : List Char) (c : Char) (r : List Char) (k : Nat)
    (h0 : 0 < k) (h1 : k < utf8Len c) : byteDrop (blen p + k) (p ++ c :: r) = none := by
  induction p with
  | nil =>
    obtain ⟨j, rfl⟩ : ∃ j, k = j + 1 := ⟨k - 1, by omega⟩
    have : ¬ utf8Len c ≤ j + 1 := by omega
    simp [byteDrop, this]
  | cons d ds ih =>
    have hd := utf8Len_pos d
    obtain ⟨j, hj⟩ : ∃ j, utf8Len d + blen ds + k = j + 1 := ⟨utf8Len d + blen ds + k - 1, by omega⟩
    simp only [blen_cons, List.cons_append, hj, byteDrop]
    have : utf8Len d ≤ j + 1 := by omega
    simp only [this, if_true]
    have : j + 1 - utf8Len d = blen ds + k := by omega
    rw [this]; exact ih

/-! ### prefixes -/

theorem blen_le_of_prefix {a b : List Char} (h : a <+: b) : blen a ≤ blen b := by
  obtain ⟨t, rfl⟩ := h; simp

/-- two prefixes of the same text: the one with more bytes extends the other -/
theorem prefix_of_blen_lt {a b n : List Char} (ha : a <+: n) (hb : b <+: n)
    (h : blen a < blen b) : ∃ r, b = a ++ r ∧ r ≠ [] := by
  rcases List.prefix_or_prefix_of_prefix ha hb with h1 | h1
  · obtain ⟨r, rfl⟩ := h1
    refine ⟨r, rfl, ?_⟩
    rintro rfl; simp at h
  · have := blen_le_of_prefix h1; omega

/-! ### `splitExt` -/

theorem findLastDot_no_dot (s : List Char) (i : Nat) (acc : Option Nat) (h : '.' ∉ s) :
    splitExt.findLastDot s i acc = acc := by
  induction s generalizing i acc with
  | nil => rfl
  | cons c cs ih =>
    have hc : c ≠ '.' := fun e => h (by simp [e])
    have hcs : '.' ∉ cs := fun e => h (by simp [e])
    simp [splitExt.findLastDot, hc, ih _ _ hcs]

theorem findLastDot_append (a s : List Char) (i : Nat) (acc : Option Nat) (h : '.' ∉ s) :
    splitExt.findLastDot (a ++ '.' :: s) i acc = some (i + a.length) := by
  induction a generalizing i acc with
  | nil => simp [splitExt.findLastDot, findLastDot_no_dot _ _ _ h]
  | cons c cs ih =>
    simp only [List.cons_append, splitExt.findLastDot, ih, List.length_cons]
    congr 1; omega

/-- last occurrence of a character -/
theorem exists_last_dot {l : List Char} (h : '.' ∈ l) :
    ∃ a s, l = a ++ '.' :: s ∧ '.' ∉ s := by
  induction l with
  | nil => simp at h
  | cons c cs ih =>
    by_cases hcs : '.' ∈ cs
    · obtain ⟨a, s, rfl, hs⟩ := ih hcs
      exact ⟨c :: a, s, rfl, hs⟩
    · have hc : c = '.' := by
        rcases List.mem_cons.mp h with e | e
        · exact e.symm
        · exact absurd e hcs
      subst hc
      exact ⟨[], cs, rfl, hcs⟩

/-- `Path::file_stem`/`extension` of `a.s`: exact side conditions (`a` non-empty: the dot-file
    rule; not the name `..`) -/
theorem splitExt_append (a s : List Char) (ha : a ≠ []) (hs : '.' ∉ s)
    (hdd : ¬ (a = ['.'] ∧ s = [])) : splitExt (a ++ '.' :: s) = (a, some s) := by
  have hne : a ++ '.' :: s ≠ ['.', '.'] := by
    intro e
    cases a with
    | nil => exact ha rfl
    | cons c cs =>
      cases cs with
      | nil => simp at e; exact hdd ⟨by rw [e.1], e.2⟩
      | cons d ds => simp at e
  unfold splitExt
  rw [if_neg hne, findLastDot_append _ _ _ _ hs]
  cases a with
  | nil => exact absurd rfl ha
  | cons c cs => simp

/-- no dot except possibly as first character: no extension -/
theorem splitExt_no_dot (name : List Char) (h : '.' ∉ name.tail) : splitExt name = (name, none) := by
  unfold splitExt
  split
  · rfl
  · cases name with
    | nil => rfl
    | cons c cs =>
      simp only [List.tail_cons] at h
      simp only [splitExt.findLastDot, findLastDot_no_dot _ _ _ h]
      by_cases hc : c = '.' <;> simp [hc]

/-- complete description of `splitExt` -/
theorem splitExt_spec (name : List Char) :
    splitExt name = (name, none) ∨
    ∃ stem e, splitExt name = (stem, some e) ∧ name = stem ++ '.' :: e ∧ '.' ∉ e ∧ stem ≠ [] := by
  by_cases hdd : name = ['.', '.']
  · left; simp [splitExt, hdd]
  by_cases hd : '.' ∈ name.tail
  · right
    cases name with
    | nil => simp at hd
    | cons c cs =>
      simp only [List.tail_cons] at hd
      obtain ⟨a, s, rfl, hs⟩ := exists_last_dot hd
      refine ⟨c :: a, s, ?_, rfl, hs, by simp⟩
      have := splitExt_append (c :: a) s (by simp) hs (by
        rintro ⟨h1, h2⟩
        simp at h1
        apply hdd
        simp [h1.1, h1.2, h2])
      simpa using this
  · left; exact splitExt_no_dot name hd

theorem splitExt_fst_prefix (name : List Char) : (splitExt name).1 <+: name := by
  rcases splitExt_spec name with h | ⟨stem, e, h, hn, _, _⟩
  · rw [h]; exact List.prefix_refl _
  · rw [h]; exact ⟨'.' :: e, hn.symm⟩

/-- stem and extension reassemble the name (for every name) -/
theorem splitExt_reassemble (name : List Char) :
    (splitExt name).1 ++ (match (splitExt name).2 with | some e => '.' :: e | none => []) = name := by
  rcases splitExt_spec name with h | ⟨stem, e, h, hn, _, _⟩
  · rw [h]; simp
  · rw [h]; simp [hn]

/-! ### `acceptFile`: the byte-offset code is a character-level statement -/

/-- fixed name part plus the separating underscore (nothing if the fixed part is empty) -/
def sepPrefix (sp : Spec) : List Char :=
  if (fixedPart sp).isEmpty then [] else fixedPart sp ++ ['_']

theorem appendUnderscore_fixed (sp : Spec) : appendUnderscore (fixedPart sp) = sepPrefix sp := by
  unfold appendUnderscore sepPrefix; split <;> simp_all

theorem sepPrefix_of_empty {sp : Spec} (h : fixedPart sp = []) : sepPrefix sp = [] := by
  simp [sepPrefix, h]

theorem sepPrefix_of_ne {sp : Spec} (h : fixedPart sp ≠ []) : sepPrefix sp = fixedPart sp ++ ['_'] := by
  simp [sepPrefix, h]

theorem fixed_prefix_sepPrefix (sp : Spec) : fixedPart sp <+: sepPrefix sp := by
  unfold sepPrefix; split
  · rename_i h; simp at h; simp [h]
  · exact List.prefix_append _ _

/-- the stem test of `acceptFile` (its second conjunct) -/
def acceptStem (sp : Spec) (tsOk : List Char → Bool) (f : IFilter) (stem : List Char) : Bool :=
  let fixed := fixedPart sp
  let start := if fixed.isEmpty then 0 else blen fixed + 1
  if blen stem ≤ start then false
  else if start > 0 && !byteIsUnderscore (start - 1) stem then false
  else match byteDrop start stem with
    | none => false
    | some mi => filterInfix tsOk f (mi.takeWhile (· ≠ '.'))

theorem acceptFile_eq (sp : Spec) (tsOk : List Char → Bool) (f : IFilter)
    (osfx : Option (List Char)) (name : List Char) :
    acceptFile sp tsOk f osfx name =
      ((match osfx with | some sfx => (splitExt name).2 == some sfx | none => true) &&
        acceptStem sp tsOk f (splitExt name).1) := rfl

/-- a stem of the documented shape: the byte arithmetic finds exactly the text after the
    separator -/
theorem acceptStem_sepPrefix (sp : Spec) (tsOk : List Char → Bool) (f : IFilter)
    (mi : List Char) (hmi : mi ≠ []) :
    acceptStem sp tsOk f (sepPrefix sp ++ mi) = filterInfix tsOk f (mi.takeWhile (· ≠ '.')) := by
  have hpos := blen_pos hmi
  by_cases he : fixedPart sp = []
  · have h0 : ¬ blen mi ≤ 0 := by omega
    simp [acceptStem, sepPrefix, he, byteDrop, h0]
  · have h1 : byteIsUnderscore (blen (fixedPart sp)) (fixedPart sp ++ '_' :: mi) = true := by
      rw [byteIsUnderscore_blen_append]; simp
    have h2 : byteDrop (blen (fixedPart sp) + 1) (fixedPart sp ++ '_' :: mi) = some mi := by
      have := byteDrop_blen_append (fixedPart sp ++ ['_']) mi
      simpa [utf8Len_underscore] using this
    have h3 : ¬ (blen (fixedPart sp) + (utf8Len '_' + blen mi) ≤ blen (fixedPart sp) + 1) := by
      rw [utf8Len_underscore]; omega
    simp [acceptStem, sepPrefix, he, h1, h2, h3]

/-- inversion of the stem test, no assumption on the stem: some text with as many BYTES as the
    fixed part, an underscore, a non-empty rest whose first dot-free piece passes the filter -/
theorem acceptStem_true_raw {sp : Spec} {tsOk : List Char → Bool} {f : IFilter} {stem : List Char}
    (hne : fixedPart sp ≠ []) (h : acceptStem sp tsOk f stem = true) :
    ∃ p mi, stem = p ++ '_' :: mi ∧ blen p = blen (fixedPart sp) ∧ mi ≠ [] ∧
      filterInfix tsOk f (mi.takeWhile (· ≠ '.')) = true := by
  simp only [acceptStem, List.isEmpty_iff, hne, if_false] at h
  split at h
  · simp at h
  · rename_i hlen
    split at h
    · simp at h
    · rename_i hu
      simp only [Nat.add_sub_cancel, Bool.and_eq_true, decide_eq_true_eq, Bool.not_eq_true',
        not_and, Bool.not_eq_false] at hu
      have hu' := hu (by omega)
      obtain ⟨p, r, rfl, hb⟩ := byteIsUnderscore_eq_true hu'
      have hd : byteDrop (blen (fixedPart sp) + 1) (p ++ '_' :: r) = some r := by
        have := byteDrop_blen_append (p ++ ['_']) r
        simpa [utf8Len_underscore, hb] using this
      rw [hd] at h
      refine ⟨p, r, rfl, hb, ?_, h⟩
      rintro rfl
      simp [utf8Len_underscore, hb] at hlen

/-- inversion of the stem test when stem and fixed part are prefixes of the same name (the caller
    of `filter_files` has checked `starts_with(fixed)`) -/
theorem acceptStem_true {sp : Spec} {tsOk : List Char → Bool} {f : IFilter} {stem name : List Char}
    (hs : stem <+: name) (hf : fixedPart sp <+: name) (h : acceptStem sp tsOk f stem = true) :
    ∃ mi, stem = sepPrefix sp ++ mi ∧ mi ≠ [] ∧
      filterInfix tsOk f (mi.takeWhile (· ≠ '.')) = true := by
  by_cases he : fixedPart sp = []
  · simp only [acceptStem, he, List.isEmpty_nil, if_true, byteDrop] at h
    split at h
    · simp at h
    · rename_i hlen
      simp only [Nat.lt_irrefl, decide_false, Bool.false_and, Bool.false_eq_true, if_false] at h
      refine ⟨stem, by simp [sepPrefix_of_empty he], ?_, h⟩
      rintro rfl; simp at hlen
  · obtain ⟨p, mi, rfl, hb, hmi, hfi⟩ := acceptStem_true_raw he h
    have hp : p <+: name := List.IsPrefix.trans (List.prefix_append _ _) hs
    have : p = fixedPart sp := by
      rcases List.prefix_or_prefix_of_prefix hp hf with h1 | h1
      · obtain ⟨r, hr⟩ := h1
        have : blen r = 0 := by rw [← hr] at hb; simp at hb; omega
        rw [blen_eq_zero this] at hr; simpa using hr
      · obtain ⟨r, hr⟩ := h1
        have : blen r = 0 := by rw [← hr] at hb; simp at hb; omega
        rw [blen_eq_zero this] at hr; simpa using hr.symm
    subst this
    exact ⟨mi, by simp [sepPrefix_of_ne he], hmi, hfi⟩

/-! ### cutting at the first dot -/

theorem takeWhile_nodot {i : List Char} (h : '.' ∉ i) : i.takeWhile (· ≠ '.') = i := by
  induction i with
  | nil => rfl
  | cons c cs ih =>
    have hc : c ≠ '.' := fun e => h (by simp [e])
    have hcs : '.' ∉ cs := fun e => h (by simp [e])
    simpa [List.takeWhile_cons, hc] using ih hcs

theorem dropWhile_nodot {i : List Char} (h : '.' ∉ i) : i.dropWhile (· ≠ '.') = [] := by
  induction i with
  | nil => rfl
  | cons c cs ih =>
    have hc : c ≠ '.' := fun e => h (by simp [e])
    have hcs : '.' ∉ cs := fun e => h (by simp [e])
    simpa [List.dropWhile_cons, hc] using ih hcs

theorem takeWhile_append_dot (mi x : List Char) :
    (mi ++ '.' :: x).takeWhile (· ≠ '.') = mi.takeWhile (· ≠ '.') := by
  induction mi with
  | nil => simp
  | cons c cs ih =>
    by_cases hc : c = '.'
    · simp [hc]
    · simp only [List.cons_append, List.takeWhile_cons, ne_eq, hc, not_false_eq_true, decide_true,
        if_true, ih]

theorem dropWhile_append_dot (mi x : List Char) :
    (mi ++ '.' :: x).dropWhile (· ≠ '.') = mi.dropWhile (· ≠ '.') ++ '.' :: x := by
  induction mi with
  | nil => simp
  | cons c cs ih =>
    by_cases hc : c = '.'
    · simp [hc]
    · simp only [List.cons_append, List.dropWhile_cons, ne_eq, hc, not_false_eq_true, decide_true,
        if_true, ih]

theorem not_mem_takeWhile_dot (l : List Char) : '.' ∉ l.takeWhile (· ≠ '.') := by
  induction l with
  | nil => simp
  | cons c cs ih =>
    by_cases hc : c = '.'
    · simp [hc]
    · simpa [List.takeWhile_cons, hc, Ne.symm hc] using ih

/-- a tail that is empty or starts with a dot -/
def DotTail (t : List Char) : Prop := t = [] ∨ ∃ t', t = '.' :: t'

theorem dotTail_nil : DotTail [] := Or.inl rfl
theorem dotTail_cons (t : List Char) : DotTail ('.' :: t) := Or.inr ⟨t, rfl⟩
theorem dotTail_append {a b : List Char} (ha : DotTail a) (hb : DotTail b) : DotTail (a ++ b) := by
  rcases ha with rfl | ⟨t, rfl⟩
  · simpa using hb
  · exact Or.inr ⟨t ++ b, rfl⟩

theorem takeWhile_dotTail {i t : List Char} (hi : '.' ∉ i) (ht : DotTail t) :
    (i ++ t).takeWhile (· ≠ '.') = i := by
  rcases ht with rfl | ⟨t', rfl⟩
  · simpa using takeWhile_nodot hi
  · rw [takeWhile_append_dot]; exact takeWhile_nodot hi

theorem dropWhile_dotTail {i t : List Char} (hi : '.' ∉ i) (ht : DotTail t) :
    (i ++ t).dropWhile (· ≠ '.') = t := by
  rcases ht with rfl | ⟨t', rfl⟩
  · simpa using dropWhile_nodot hi
  · rw [dropWhile_append_dot, dropWhile_nodot hi]; rfl

theorem dotTail_dropWhile (l : List Char) : DotTail (l.dropWhile (· ≠ '.')) := by
  induction l with
  | nil => exact Or.inl rfl
  | cons c cs ih =>
    by_cases hc : c = '.'
    · subst hc; right; exact ⟨cs, by simp⟩
    · simpa [List.dropWhile_cons, hc] using ih

/-! ### the infix and the remainder of a name, as the code sees them -/

/-- the text between the separator after the fixed part and the first dot -/
def nameInfix (sp : Spec) (name : List Char) : List Char :=
  (name.drop (sepPrefix sp).length).takeWhile (· ≠ '.')

/-- everything from the first dot after the separator on: `[.restart-NNNN][.suffix][.gz]` for the
    logger's own files -/
def nameTail (sp : Spec) (name : List Char) : List Char :=
  (name.drop (sepPrefix sp).length).dropWhile (· ≠ '.')

/-- the part of the STEM from the first dot after the separator on (what `acceptFile` ignores) -/
def stemTail (sp : Spec) (name : List Char) : List Char :=
  ((splitExt name).1.drop (sepPrefix sp).length).dropWhile (· ≠ '.')

theorem nameInfix_shape (sp : Spec) (i t : List Char) (hi : '.' ∉ i) (ht : DotTail t) :
    nameInfix sp (sepPrefix sp ++ i ++ t) = i := by
  simp only [nameInfix, List.append_assoc, List.drop_left]
  exact takeWhile_dotTail hi ht

theorem nameTail_shape (sp : Spec) (i t : List Char) (hi : '.' ∉ i) (ht : DotTail t) :
    nameTail sp (sepPrefix sp ++ i ++ t) = t := by
  simp only [nameTail, List.append_assoc, List.drop_left]
  exact dropWhile_dotTail hi ht

/-- decomposition of an accepted name (first form: on the stem) -/
theorem accept_decomp {sp : Spec} {tsOk : List Char → Bool} {f : IFilter}
    {osfx : Option (List Char)} {name : List Char}
    (hpre : fixedPart sp <+: name) (h : acceptFile sp tsOk f osfx name = true) :
    ∃ mi, (splitExt name).1 = sepPrefix sp ++ mi ∧ mi ≠ [] ∧
      (∀ s, osfx = some s → (splitExt name).2 = some s) ∧
      filterInfix tsOk f (mi.takeWhile (· ≠ '.')) = true := by
  rw [acceptFile_eq, Bool.and_eq_true] at h
  obtain ⟨mi, h1, h2, h3⟩ := acceptStem_true (splitExt_fst_prefix name) hpre h.2
  refine ⟨mi, h1, h2, ?_, h3⟩
  intro s hs
  have := h.1
  rw [hs] at this
  simpa using this

/-- decomposition of an accepted name (second form: on the whole name) -/
theorem accept_infix {sp : Spec} {tsOk : List Char → Bool} {f : IFilter}
    {osfx : Option (List Char)} {name : List Char}
    (hpre : fixedPart sp <+: name) (h : acceptFile sp tsOk f osfx name = true) :
    name = sepPrefix sp ++ nameInfix sp name ++ nameTail sp name ∧
    filterInfix tsOk f (nameInfix sp name) = true ∧
    (∀ s, osfx = some s → ∃ a, name = a ++ '.' :: s ∧ '.' ∉ s ∧
        nameTail sp name = stemTail sp name ++ '.' :: s) ∧
    ((splitExt name).2 = none → nameTail sp name = stemTail sp name) := by
  obtain ⟨mi, h1, h2, h3, h4⟩ := accept_decomp hpre h
  have hre := splitExt_reassemble name
  rw [h1] at hre
  rcases splitExt_spec name with hs | ⟨stem, e, hs, hn, he, _⟩
  · rw [hs] at hre h3 h1
    simp only [List.append_nil] at hre h1
    have hI : nameInfix sp name = mi.takeWhile (· ≠ '.') := by
      simp only [nameInfix]; rw [h1, List.drop_left]
    have hT : nameTail sp name = mi.dropWhile (· ≠ '.') := by
      simp only [nameTail]; rw [h1, List.drop_left]
    have hS : stemTail sp name = mi.dropWhile (· ≠ '.') := by
      simp only [stemTail]; rw [hs]; simp only []; rw [h1, List.drop_left]
    refine ⟨?_, by rw [hI]; exact h4, ?_, ?_⟩
    · rw [hI, hT, List.append_assoc, List.takeWhile_append_dropWhile]; exact h1
    · intro s hs'; have := h3 s hs'; simp at this
    · intro _; rw [hT, hS]
  · rw [hs] at hre h3 h1
    simp only at hre h1
    have hI : nameInfix sp name = mi.takeWhile (· ≠ '.') := by
      simp only [nameInfix]; rw [← hre, List.append_assoc, List.drop_left, takeWhile_append_dot]
    have hT : nameTail sp name = mi.dropWhile (· ≠ '.') ++ '.' :: e := by
      simp only [nameTail]; rw [← hre, List.append_assoc, List.drop_left, dropWhile_append_dot]
    have hS : stemTail sp name = mi.dropWhile (· ≠ '.') := by
      simp only [stemTail]; rw [hs]; simp only []; rw [h1, List.drop_left]
    refine ⟨?_, by rw [hI]; exact h4, ?_, ?_⟩
    · rw [hI, hT, List.append_assoc, ← List.append_assoc (List.takeWhile _ mi),
        List.takeWhile_append_dropWhile, ← List.append_assoc]
      exact hre.symm
    · intro s hs'
      have := h3 s hs'
      simp only [Option.some.injEq] at this
      subst this
      exact ⟨stem, hn, he, by rw [hT, hS]⟩
    · intro hnone; rw [hs] at hnone; simp at hnone

/-! ### names of the documented shape -/

/-- `fixed_<i><tail>.<e>`: the verdict is the filter's verdict on `i` (if the demanded suffix is
    `e` or none is demanded) -/
theorem acceptFile_of_ext (sp : Spec) (tsOk : List Char → Bool) (f : IFilter)
    (osfx : Option (List Char)) (i t e : List Char) (hi : i ≠ []) (hdi : '.' ∉ i)
    (he : '.' ∉ e) (ht : DotTail t) (ho : osfx = none ∨ osfx = some e) :
    acceptFile sp tsOk f osfx (sepPrefix sp ++ i ++ t ++ '.' :: e) = filterInfix tsOk f i := by
  have hsplit : splitExt (sepPrefix sp ++ i ++ t ++ '.' :: e) = (sepPrefix sp ++ i ++ t, some e) := by
    apply splitExt_append _ _ _ he
    · rintro ⟨h1, _⟩
      cases i with
      | nil => exact hi rfl
      | cons c cs =>
        have hc : c ≠ '.' := fun e => hdi (by simp [e])
        have hm : c ∈ sepPrefix sp ++ c :: cs ++ t := by simp
        rw [h1] at hm
        simp at hm; exact hc hm
    · cases i with
      | nil => exact absurd rfl hi
      | cons c cs => simp
  rw [acceptFile_eq, hsplit]
  simp only []
  rw [List.append_assoc, acceptStem_sepPrefix _ _ _ _ (by simp [hi]), takeWhile_dotTail hdi ht]
  rcases ho with rfl | rfl <;> simp

/-- a demanded suffix different from the actual extension: rejected -/
theorem acceptFile_ext_mismatch (sp : Spec) (tsOk : List Char → Bool) (f : IFilter)
    (a e e' : List Char) (ha : a ≠ []) (he : '.' ∉ e) (hdd : ¬ (a = ['.'] ∧ e = []))
    (hne : e ≠ e') : acceptFile sp tsOk f (some e') (a ++ '.' :: e) = false := by
  rw [acceptFile_eq, splitExt_append a e ha he hdd]
  simp [hne]

/-- `fixed_<i>` without any extension -/
theorem acceptFile_of_noext (sp : Spec) (tsOk : List Char → Bool) (f : IFilter)
    (i : List Char) (hi : i ≠ []) (hdi : '.' ∉ i) (hp : '.' ∉ (fixedPart sp).tail) :
    acceptFile sp tsOk f none (sepPrefix sp ++ i) = filterInfix tsOk f i := by
  have hsplit : splitExt (sepPrefix sp ++ i) = (sepPrefix sp ++ i, none) := by
    apply splitExt_no_dot
    by_cases he : fixedPart sp = []
    · rw [sepPrefix_of_empty he]
      intro h; exact hdi (List.mem_of_mem_tail h)
    · rw [sepPrefix_of_ne he]
      cases hfp : fixedPart sp with
      | nil => exact absurd hfp he
      | cons c cs =>
        rw [hfp] at hp
        simp only [List.tail_cons] at hp
        simp only [List.cons_append, List.tail_cons, List.mem_append, List.mem_cons, List.not_mem_nil,
          or_false, not_or]
        exact ⟨⟨hp, by decide⟩, hdi⟩
  rw [acceptFile_eq, hsplit]
  simp only []
  rw [acceptStem_sepPrefix _ _ _ _ hi, takeWhile_nodot hdi]
  simp

/-- no extension but a suffix is demanded: rejected -/
theorem acceptFile_noext_some (sp : Spec) (tsOk : List Char → Bool) (f : IFilter)
    (name e : List Char) (hp : '.' ∉ name.tail) :
    acceptFile sp tsOk f (some e) name = false := by
  rw [acceptFile_eq, splitExt_no_dot name hp]; simp

/-! ### decimal rendering: `natToText`, `pad` -/

theorem digitChar_mod (n : Nat) : digitChar n = digitChar (n % 10) := by
  simp [digitChar]

theorem isDigit_digitChar (n : Nat) : isDigit (digitChar n) = true := by
  rw [digitChar_mod]
  have h : n % 10 < 10 := Nat.mod_lt _ (by decide)
  revert h; generalize n % 10 = m; revert m; decide

theorem digitChar_toNat (n : Nat) : (digitChar n).toNat = 48 + n % 10 := by
  rw [digitChar_mod]
  have h : n % 10 < 10 := Nat.mod_lt _ (by decide)
  have h2 : n % 10 % 10 = n % 10 := Nat.mod_mod _ _
  rw [← h2]
  revert h; generalize n % 10 = m; revert m; decide

theorem isDigit_zero : isDigit '0' = true := by decide

theorem ne_dot_of_isDigit {c : Char} (h : isDigit c = true) : c ≠ '.' := by
  rintro rfl; revert h; decide

theorem natDigits_fuel (f g n : Nat) (hf : n < f) (hg : n < g) : natDigits f n = natDigits g n := by
  induction f generalizing g n with
  | zero => omega
  | succ f ih =>
    cases g with
    | zero => omega
    | succ g =>
      simp only [natDigits]
      split
      · rfl
      · rw [ih g (n / 10) (by omega) (by omega)]

theorem natToText_lt10 {n : Nat} (h : n < 10) : natToText n = [digitChar n] := by
  simp [natToText, natDigits, h]

theorem natToText_ge10 {n : Nat} (h : 10 ≤ n) :
    natToText n = natToText (n / 10) ++ [digitChar n] := by
  have h' : ¬ n < 10 := by omega
  have e : natDigits (n + 1) n =
      if n < 10 then [digitChar n] else natDigits n (n / 10) ++ [digitChar n] := rfl
  unfold natToText
  rw [e, if_neg h', natDigits_fuel n (n / 10 + 1) (n / 10) (by omega) (by omega)]

theorem natToText_ne_nil (n : Nat) : natToText n ≠ [] := by
  by_cases h : n < 10
  · simp [natToText_lt10 h]
  · simp [natToText_ge10 (by omega : 10 ≤ n)]

theorem natToText_digits (n : Nat) : ∀ c ∈ natToText n, isDigit c = true := by
  induction n using Nat.strongRecOn with
  | _ n ih =>
    by_cases h : n < 10
    · simp [natToText_lt10 h, isDigit_digitChar]
    · rw [natToText_ge10 (by omega)]
      intro c hc
      rcases List.mem_append.mp hc with h1 | h1
      · exact ih (n / 10) (by omega) c h1
      · simp at h1; rw [h1]; exact isDigit_digitChar n

/-- `10^w ≤ n`: more than `w` digits -/
theorem natToText_length_gt (w n : Nat) (h : 10 ^ w ≤ n) : w < (natToText n).length := by
  induction w generalizing n with
  | zero =>
    have := natToText_ne_nil n
    cases hn : natToText n with
    | nil => exact absurd hn this
    | cons _ _ => simp
  | succ w ih =>
    have h10 : 10 ≤ n := by
      have : 0 < 10 ^ w := Nat.pow_pos (by decide)
      rw [Nat.pow_succ] at h; omega
    rw [natToText_ge10 h10]
    have := ih (n / 10) (by rw [Nat.pow_succ] at h; exact (Nat.le_div_iff_mul_le (by decide)).mpr h)
    simp; omega

/-- `w` digits of `n`, most significant first (= `pad w n` for `n < 10^w`) -/
def fixedDigits : Nat → Nat → List Char
  | 0, _ => []
  | w + 1, n => fixedDigits w (n / 10) ++ [digitChar n]

@[simp] theorem fixedDigits_length (w n : Nat) : (fixedDigits w n).length = w := by
  induction w generalizing n with
  | zero => rfl
  | succ w ih => simp [fixedDigits, ih]

theorem fixedDigits_zero (w : Nat) : fixedDigits w 0 = List.replicate w '0' := by
  induction w with
  | zero => rfl
  | succ w ih =>
    simp only [fixedDigits, Nat.zero_div, ih, List.replicate_succ']
    rfl

theorem pad_eq_fixedDigits (w n : Nat) (h : n < 10 ^ (w + 1)) :
    pad (w + 1) n = fixedDigits (w + 1) n := by
  induction w generalizing n with
  | zero =>
    have h' : n < 10 := by simpa using h
    simp [pad, padLeft, natToText_lt10 h', fixedDigits]
  | succ w ih =>
    by_cases h10 : n < 10
    · have h0 : n / 10 = 0 := by omega
      simp only [pad, padLeft, natToText_lt10 h10, List.length_singleton, Nat.add_sub_cancel]
      rw [fixedDigits, h0, fixedDigits_zero]
    · have hd : n / 10 < 10 ^ (w + 1) := by
        rw [Nat.pow_succ] at h; exact (Nat.div_lt_iff_lt_mul (by decide)).mpr h
      have := ih (n / 10) hd
      rw [fixedDigits, ← this]
      simp only [pad, padLeft, natToText_ge10 (by omega : 10 ≤ n), List.length_append,
        List.length_singleton, List.append_assoc]
      congr 2
      omega

theorem pad_length_of_lt (w n : Nat) (h : n < 10 ^ (w + 1)) : (pad (w + 1) n).length = w + 1 := by
  rw [pad_eq_fixedDigits w n h, fixedDigits_length]

theorem pad_length_ge (w n : Nat) : w ≤ (pad w n).length := by
  simp [pad, padLeft]; omega

theorem pad_length_eq_iff (w n : Nat) : (pad (w + 1) n).length = w + 1 ↔ n < 10 ^ (w + 1) := by
  constructor
  · intro h
    by_cases hlt : n < 10 ^ (w + 1)
    · exact hlt
    · have := natToText_length_gt (w + 1) n (by omega)
      simp [pad, padLeft] at h; omega
  · exact pad_length_of_lt w n

theorem pad_digits (w n : Nat) : ∀ c ∈ pad w n, isDigit c = true := by
  intro c hc
  simp only [pad, padLeft, List.mem_append, List.mem_replicate] at hc
  rcases hc with ⟨_, rfl⟩ | hc
  · exact isDigit_zero
  · exact natToText_digits n c hc

theorem pad_ne_nil (w n : Nat) : pad w n ≠ [] := by
  simp [pad, padLeft, natToText_ne_nil]

theorem dot_not_mem_pad (w n : Nat) : '.' ∉ pad w n :=
  fun h => ne_dot_of_isDigit (pad_digits w n _ h) rfl

/-! #### parsing back (`str::parse`), hence injectivity -/

theorem parseNatDigits_snoc (s : List Char) (c : Char) (acc : Nat) :
    parseNatDigits (s ++ [c]) acc =
      (parseNatDigits s acc).bind (fun v => if isDigit c then some (v * 10 + (c.toNat - 48)) else none) := by
  induction s generalizing acc with
  | nil => simp [parseNatDigits]
  | cons d ds ih =>
    simp only [List.cons_append, parseNatDigits]
    split
    · exact ih _
    · rfl

theorem parseNatDigits_natToText (n : Nat) : parseNatDigits (natToText n) 0 = some n := by
  induction n using Nat.strongRecOn with
  | _ n ih =>
    by_cases h : n < 10
    · simp [natToText_lt10 h, parseNatDigits, isDigit_digitChar, digitChar_toNat]; omega
    · rw [natToText_ge10 (by omega), parseNatDigits_snoc, ih (n / 10) (by omega)]
      simp [isDigit_digitChar, digitChar_toNat]; omega

theorem parseNatDigits_zeros (k : Nat) (s : List Char) :
    parseNatDigits (List.replicate k '0' ++ s) 0 = parseNatDigits s 0 := by
  induction k with
  | zero => rfl
  | succ k ih =>
    simp only [List.replicate_succ, List.cons_append, parseNatDigits, isDigit_zero, if_true]
    exact ih

/-- the padded rendering parses back to the number -/
theorem parseNatDigits_pad (w n : Nat) : parseNatDigits (pad w n) 0 = some n := by
  simp only [pad, padLeft, parseNatDigits_zeros, parseNatDigits_natToText]

theorem pad_injective (w : Nat) {n m : Nat} (h : pad w n = pad w m) : n = m := by
  have h1 := parseNatDigits_pad w n
  rw [h, parseNatDigits_pad] at h1
  exact (Option.some.inj h1).symm

/-! ### the code-point order `ltText` -/

@[simp] theorem ltText_cons_same (c : Char) (a b : List Char) :
    ltText (c :: a) (c :: b) = ltText a b := by
  simp [ltText]

theorem ltText_append_left (p a b : List Char) : ltText (p ++ a) (p ++ b) = ltText a b := by
  induction p with
  | nil => rfl
  | cons c cs ih => simpa using ih

theorem ltText_irrefl (a : List Char) : ltText a a = false := by
  induction a with
  | nil => rfl
  | cons c cs ih => simpa using ih

theorem ltText_asymm {a b : List Char} (h : ltText a b = true) : ltText b a = false := by
  induction a generalizing b with
  | nil => cases b <;> simp_all [ltText]
  | cons c cs ih =>
    cases b with
    | nil => simp [ltText] at h
    | cons d ds =>
      simp only [ltText] at h ⊢
      split at h
      · rename_i hlt
        have h1 : ¬ d.toNat < c.toNat := by omega
        simp [h1, hlt]
      · split at h
        · simp at h
        · rename_i h1 h2
          simp only [h2, h1, if_false]
          exact ih h

/-- a proper prefix sorts first -/
theorem ltText_prefix (a : List Char) (c : Char) (x : List Char) : ltText a (a ++ c :: x) = true := by
  have := ltText_append_left a [] (c :: x)
  simpa [ltText] using this

/-- texts of equal length decide the order of their extensions -/
theorem ltText_append_of_lt {a b : List Char} (s t : List Char) (hl : a.length = b.length)
    (h : ltText a b = true) : ltText (a ++ s) (b ++ t) = true := by
  induction a generalizing b with
  | nil => cases b <;> simp_all [ltText]
  | cons c cs ih =>
    cases b with
    | nil => simp at hl
    | cons d ds =>
      simp only [List.length_cons, Nat.add_right_cancel_iff] at hl
      simp only [ltText, List.cons_append] at h ⊢
      split
      · rfl
      · rename_i h1
        simp only [h1, if_false] at h
        split
        · rename_i h2; simp [h2] at h
        · rename_i h2
          simp only [h2, if_false] at h
          exact ih hl h

theorem ltText_fixedDigits (w a b : Nat) (h : a < b) (hb : b < 10 ^ w) :
    ltText (fixedDigits w a) (fixedDigits w b) = true := by
  induction w generalizing a b with
  | zero => simp at hb; omega
  | succ w ih =>
    simp only [fixedDigits]
    by_cases hd : a / 10 < b / 10
    · have hb' : b / 10 < 10 ^ w := by
        rw [Nat.pow_succ] at hb; exact (Nat.div_lt_iff_lt_mul (by decide)).mpr hb
      exact ltText_append_of_lt _ _ (by simp) (ih _ _ hd hb')
    · have he : a / 10 = b / 10 := by omega
      rw [he, ltText_append_left]
      have h1 : 48 + a % 10 < 48 + b % 10 := by omega
      simp [ltText, digitChar_toNat, h1]

/-- fixed-width big-endian rendering is monotone -/
theorem ltText_pad (w a b : Nat) (h : a < b) (hb : b < 10 ^ (w + 1)) :
    ltText (pad (w + 1) a) (pad (w + 1) b) = true := by
  rw [pad_eq_fixedDigits w a (by omega), pad_eq_fixedDigits w b hb]
  exact ltText_fixedDigits _ _ _ h hb

/-- one fixed-width field followed by more text: lexicographic step -/
theorem ltText_field (w a b : Nat) (s t : List Char) (ha : a < 10 ^ (w + 1)) (hb : b < 10 ^ (w + 1))
    (h : a < b ∨ (a = b ∧ ltText s t = true)) :
    ltText (pad (w + 1) a ++ s) (pad (w + 1) b ++ t) = true := by
  rcases h with h | ⟨rfl, h⟩
  · exact ltText_append_of_lt _ _ (by rw [pad_length_of_lt w a ha, pad_length_of_lt w b hb])
      (ltText_pad w a b h hb)
  · rw [ltText_append_left]; exact h

/-! ### `render` -/

/-- `.suffix` or nothing -/
def suffixText (sp : Spec) : List Char := match sp.suffix with | some s => '.' :: s | none => []
/-- `.gz` or nothing -/
def gzText (gz : Bool) : List Char := if gz then ".gz".toList else []

theorem dotTail_suffixText (sp : Spec) : DotTail (suffixText sp) := by
  unfold suffixText; split
  · exact dotTail_cons _
  · exact dotTail_nil

theorem dotTail_gzText (gz : Bool) : DotTail (gzText gz) := by
  cases gz
  · exact dotTail_nil
  · exact dotTail_cons _

theorem render_none (sp : Spec) (gz : Bool) :
    render sp ⟨none, gz⟩ = fixedPart sp ++ suffixText sp ++ gzText gz := by
  unfold render suffixText gzText
  cases sp.suffix <;> cases gz <;> simp

theorem render_some (sp : Spec) (i : Infix) (gz : Bool) (hne : ∀ k, i ≠ .ext k)
    (hr : renderInfix sp i ≠ []) :
    render sp ⟨some i, gz⟩ = sepPrefix sp ++ renderInfix sp i ++ suffixText sp ++ gzText gz := by
  cases i with
  | ext k => exact absurd rfl (hne k)
  | cur | num _ | ts _ _ =>
    simp only [render, suffixText, gzText, appendUnderscore_fixed, List.isEmpty_iff, hr, if_false]
    cases sp.suffix <;> cases gz <;> simp

theorem render_some_empty (sp : Spec) (i : Infix) (gz : Bool) (hne : ∀ k, i ≠ .ext k)
    (hr : renderInfix sp i = []) :
    render sp ⟨some i, gz⟩ = fixedPart sp ++ suffixText sp ++ gzText gz := by
  cases i with
  | ext k => exact absurd rfl (hne k)
  | cur | num _ | ts _ _ =>
    simp only [render, suffixText, gzText, List.isEmpty_iff, hr, if_true]
    cases sp.suffix <;> cases gz <;> simp

theorem numberInfix_ne_nil (n : Nat) : numberInfix n ≠ [] := by simp [numberInfix]

theorem dot_not_mem_numberInfix (n : Nat) : '.' ∉ numberInfix n := by
  simp only [numberInfix, List.mem_cons, not_or]
  exact ⟨by decide, dot_not_mem_pad 5 n⟩

theorem renderStamp_ne_nil (fmt k : Nat) : renderStamp fmt k ≠ [] := by
  unfold renderStamp; simp only []; split <;> simp

theorem dot_not_mem_renderStamp (fmt k : Nat) : '.' ∉ renderStamp fmt k := by
  unfold renderStamp; simp only []
  split <;> simp [dot_not_mem_pad]

/-! ### side conditions on the spec; names of the documented shape -/

/-- the suffix, if any, is non-empty and contains no dot -/
def Clean (sp : Spec) : Prop := ∀ s, sp.suffix = some s → s ≠ [] ∧ '.' ∉ s

/-- the part of `Clean` the selection theorems need -/
def SuffixNoDot (sp : Spec) : Prop := ∀ s, sp.suffix = some s → '.' ∉ s

theorem Clean.noDot {sp : Spec} (h : Clean sp) : SuffixNoDot sp := fun s hs => (h s hs).2

/-- WITHOUT suffix the extension test of `Path` looks into the fixed part: it must not contain a
    dot (except as very first character) -/
def DotSafe (sp : Spec) : Prop := sp.suffix = none → '.' ∉ (fixedPart sp).tail

/-- `fixed_<core><t>[.suffix].gz` is judged by the filter's verdict on `core` (no side condition
    on the spec) -/
theorem accept_shaped_gz (sp : Spec) (tsOk : List Char → Bool) (f : IFilter) (core t : List Char)
    (hc : core ≠ []) (hd : '.' ∉ core) (ht : DotTail t) :
    acceptFile sp tsOk f (some "gz".toList) (sepPrefix sp ++ core ++ t ++ suffixText sp ++ gzText true)
      = filterInfix tsOk f core := by
  have := acceptFile_of_ext sp tsOk f (some "gz".toList) core (t ++ suffixText sp) "gz".toList hc hd
    (by decide) (dotTail_append ht (dotTail_suffixText sp)) (Or.inr rfl)
  rw [← this]
  simp [gzText]

/-- `fixed_<core><t>[.suffix]` is judged by the filter's verdict on `core` -/
theorem accept_shaped_plain (sp : Spec) (tsOk : List Char → Bool) (f : IFilter) (core t : List Char)
    (hc : core ≠ []) (hd : '.' ∉ core) (ht : DotTail t) (hs : SuffixNoDot sp)
    (h0 : sp.suffix = none → t = [] → '.' ∉ (fixedPart sp).tail)
    (h1 : sp.suffix = none → ∀ t', t = '.' :: t' → '.' ∉ t') :
    acceptFile sp tsOk f sp.suffix (sepPrefix sp ++ core ++ t ++ suffixText sp) = filterInfix tsOk f core := by
  cases hsfx : sp.suffix with
  | some s =>
    have := acceptFile_of_ext sp tsOk f (some s) core t s hc hd (hs s hsfx) ht (Or.inr rfl)
    simpa [suffixText, hsfx] using this
  | none =>
    rcases ht with rfl | ⟨t', rfl⟩
    · have := acceptFile_of_noext sp tsOk f core hc hd (h0 hsfx rfl)
      simpa [suffixText, hsfx] using this
    · have := acceptFile_of_ext sp tsOk f none core [] t' hc hd (h1 hsfx t' rfl) dotTail_nil (Or.inl rfl)
      simpa [suffixText, hsfx] using this

/-! ### listing: membership -/

theorem mem_insNameDesc (a x : List Char) (l : List (List Char)) :
    a ∈ insNameDesc x l ↔ a = x ∨ a ∈ l := by
  induction l with
  | nil => simp [insNameDesc]
  | cons y ys ih =>
    simp only [insNameDesc]
    split
    · simp
    · simp only [List.mem_cons, ih]
      constructor
      · rintro (h | h | h)
        · exact Or.inr (Or.inl h)
        · exact Or.inl h
        · exact Or.inr (Or.inr h)
      · rintro (h | h | h)
        · exact Or.inr (Or.inl h)
        · exact Or.inl h
        · exact Or.inr (Or.inr h)

theorem mem_sortDesc (a : List Char) (l : List (List Char)) :
    a ∈ l.foldr insNameDesc [] ↔ a ∈ l := by
  induction l with
  | nil => simp
  | cons x xs ih => simp [List.foldr, mem_insNameDesc, ih]

/-- `read_dir_related_files` keeps exactly the names starting with the fixed part -/
theorem mem_relatedFiles (sp : Spec) (names : List (List Char)) (n : List Char) :
    n ∈ relatedFiles sp names ↔ n ∈ names ∧ (fixedPart sp).isPrefixOf n = true := by
  simp [relatedFiles, mem_sortDesc, List.mem_filter]

theorem mem_filterFiles (sp : Spec) (tsOk : List Char → Bool) (f : IFilter)
    (osfx : Option (List Char)) (files : List (List Char)) (n : List Char) :
    n ∈ filterFiles sp tsOk f osfx files ↔ n ∈ files ∧ acceptFile sp tsOk f osfx n = true := by
  simp [filterFiles, List.mem_filter]

end FV.Names
