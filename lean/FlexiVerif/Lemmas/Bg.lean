/-
  Lemmas about the background cleanup thread (`FlexiVerif/Model/Bg.lean`).

  * `foldl_apply`: the effect of a list of file operations, file by file (`eff`);
  * `plan_mem`: what a plan contains when the listing is "all files, newest first" and the newest
    `k + m` ranks all exist;
  * `Good`/`Sep`: the static shape of a directory, `pass_eq_explicit`: one whole pass over such a
    directory yields the explicit form `explicit k m n`;
  * `Inv`: the invariant of the reachable states, preserved by every step (`Inv.step`);
  * `drain_spec`: with enough fuel, draining ends quiescent.
-/
import FlexiVerif.Model.Bg
namespace FV.Bg

/-! ### the explicit form of the synchronous result -/

/-- what remains of rank `id` after `n` rotations: nothing if it is not among the newest `k + m`;
    compressed unless it is among the newest `k` -/
def keepOf (k m n : Nat) (id : Nat) : Option RF :=
  if n ≤ id + (k + m) then some ⟨id, decide (id + k < n)⟩ else none

/-- the ranks `n - (k+m) .. n - 1`, the `k` newest plain, the others compressed -/
def explicit (k m n : Nat) : Dir := (List.range n).filterMap (keepOf k m n)

theorem mem_explicit {k m n : Nat} {f : RF} :
    f ∈ explicit k m n ↔ f.id < n ∧ n ≤ f.id + (k + m) ∧ f.gz = decide (f.id + k < n) := by
  unfold explicit keepOf
  rw [List.mem_filterMap]
  constructor
  · rintro ⟨id, hid, h⟩
    rw [List.mem_range] at hid
    split at h
    · cases h; exact ⟨hid, by assumption, rfl⟩
    · cases h
  · rintro ⟨h1, h2, h3⟩
    refine ⟨f.id, List.mem_range.2 h1, ?_⟩
    rw [if_pos h2]
    cases f; simp_all

/-! ### list facts -/

theorem filterMap_congr' {α β : Type} {f g : α → Option β} :
    ∀ {l : List α}, (∀ x ∈ l, f x = g x) → l.filterMap f = l.filterMap g
  | [], _ => rfl
  | x :: l, h => by
    rw [List.filterMap_cons, List.filterMap_cons, h x (List.mem_cons_self ..),
      filterMap_congr' (l := l) (fun y hy => h y (List.mem_cons_of_mem _ hy))]

/-- strictly increasing lists of numbers are determined by their elements -/

theorem sorted_ext : ∀ (l₁ l₂ : List Nat), l₁.Pairwise (· < ·) → l₂.Pairwise (· < ·) →
    (∀ x, x ∈ l₁ ↔ x ∈ l₂) → l₁ = l₂
  | [], [], _, _, _ => rfl
  | [], y :: ys, _, _, h => by have := (h y).2 (List.mem_cons_self ..); cases this
  | x :: xs, [], _, _, h => by have := (h x).1 (List.mem_cons_self ..); cases this
  | x :: xs, y :: ys, h₁, h₂, h => by
    rw [List.pairwise_cons] at h₁ h₂
    have hxy : x = y := by
      have hx := (h x).1 (List.mem_cons_self ..)
      have hy := (h y).2 (List.mem_cons_self ..)
      rcases List.mem_cons.1 hx with e | hx'
      · exact e
      · rcases List.mem_cons.1 hy with e | hy'
        · exact e.symm
        · have := h₁.1 y hy'; have := h₂.1 x hx'; omega
    subst hxy
    congr 1
    apply sorted_ext xs ys h₁.2 h₂.2
    intro z
    constructor
    · intro hz
      have := h₁.1 z hz
      rcases List.mem_cons.1 ((h z).1 (List.mem_cons_of_mem _ hz)) with e | hz'
      · omega
      · exact hz'
    · intro hz
      have := h₂.1 z hz
      rcases List.mem_cons.1 ((h z).2 (List.mem_cons_of_mem _ hz)) with e | hz'
      · omega
      · exact hz'

/-! ### the effect of a list of operations, file by file -/

/-- what the operations `as` (in any order) make of the file `f` -/
def eff (as : List Act) (f : RF) : Option RF :=
  if Act.remove f.id ∈ as then none
  else some (if Act.compress f.id ∈ as then { f with gz := true } else f)

theorem apply_eq_filterMap (d : Dir) (a : Act) : apply d a = d.filterMap (eff [a]) := by
  induction d with
  | nil => cases a <;> rfl
  | cons f d ih =>
    cases a with
    | remove id =>
      simp only [apply] at ih ⊢
      by_cases h : f.id = id
      · rw [List.filter_cons_of_neg (by simp [h]), ih, List.filterMap_cons]
        simp [eff, h]
      · rw [List.filter_cons_of_pos (by simp [h]), ih, List.filterMap_cons]
        simp [eff, h]
    | compress id =>
      simp only [apply] at ih ⊢
      rw [List.map_cons, ih, List.filterMap_cons]
      by_cases h : f.id = id <;> simp [eff, h]

theorem eff_bind (a : Act) (as : List Act) (f : RF) :
    (eff [a] f).bind (eff as) = eff (a :: as) f := by
  cases a with
  | remove id =>
    by_cases h : f.id = id
    · simp [eff, h]
    · simp [eff, h]
  | compress id =>
    by_cases h : f.id = id
    · by_cases h' : Act.remove id ∈ as <;> simp [eff, h, h']
    · simp [eff, h]

theorem foldl_apply (as : List Act) (d : Dir) : as.foldl apply d = d.filterMap (eff as) := by
  induction as generalizing d with
  | nil =>
    have : eff [] = some := by funext f; simp [eff]
    rw [this, List.filterMap_some]; rfl
  | cons a as ih =>
    rw [List.foldl_cons, ih, apply_eq_filterMap, List.filterMap_filterMap]
    apply filterMap_congr'
    intro f _
    exact eff_bind a as f

/-! ### what a plan contains -/

/-- The listing `L` is strictly newest first, starts (index `i`) at most at rank `i`, and
    contains every rank from `i` on that is among the newest `k + m` of `n`: then the plan removes
    exactly the files that are not among the newest `k + m` and compresses exactly the plain
    files among them that are not among the newest `k`. -/
theorem plan_mem {k m n : Nat} : ∀ (L : List RF) (i : Nat),
    L.Pairwise (fun a b => b.id < a.id) →
    (∀ f ∈ L, f.id + i < n) →
    (∀ id, id + i < n → n ≤ id + (k + m) → ∃ f ∈ L, f.id = id) →
    (∀ id, Act.remove id ∈ plan k m L i ↔ (∃ f ∈ L, f.id = id) ∧ id + (k + m) < n) ∧
    (∀ id, Act.compress id ∈ plan k m L i ↔
        ∃ f ∈ L, f.id = id ∧ f.gz = false ∧ id + k < n ∧ n ≤ id + (k + m))
  | [], i, _, _, _ => by simp [plan]
  | f :: rest, i, hp, hA, hB => by
    rw [List.pairwise_cons] at hp
    have hf : f.id + i < n := hA f (List.mem_cons_self ..)
    have hhead : i < k + m → f.id + i + 1 = n := by
      intro hi
      obtain ⟨g, hg, hgid⟩ := hB (n - 1 - i) (by omega) (by omega)
      rcases List.mem_cons.1 hg with e | hg'
      · subst e; omega
      · have := hp.1 g hg'; omega
    obtain ⟨ih1, ih2⟩ := plan_mem (k := k) (m := m) (n := n) rest (i + 1) hp.2
      (fun g hg => by have := hp.1 g hg; omega)
      (fun id h1 h2 => by
        obtain ⟨g, hg, hgid⟩ := hB id (by omega) h2
        rcases List.mem_cons.1 hg with e | hg'
        · subst e; have := hhead (by omega); omega
        · exact ⟨g, hg', hgid⟩)
    constructor
    · intro id
      rw [plan]
      by_cases h1 : i ≥ k + m
      · rw [if_pos h1, List.mem_cons, ih1]
        constructor
        · rintro (e | ⟨⟨g, hg, hgid⟩, h⟩)
          · cases e; exact ⟨⟨f, List.mem_cons_self .., rfl⟩, by omega⟩
          · exact ⟨⟨g, List.mem_cons_of_mem _ hg, hgid⟩, h⟩
        · rintro ⟨⟨g, hg, hgid⟩, h⟩
          rcases List.mem_cons.1 hg with e | hg'
          · subst e; left; rw [hgid]
          · right; exact ⟨⟨g, hg', hgid⟩, h⟩
      · have hh := hhead (by omega)
        have hrest : Act.remove id ∈ plan k m (f :: rest) i ↔ Act.remove id ∈ plan k m rest (i + 1) := by
          rw [plan, if_neg h1]
          split
          · split
            · rfl
            · simp
          · rfl
        rw [← plan, hrest, ih1]
        constructor
        · rintro ⟨⟨g, hg, hgid⟩, h⟩
          exact ⟨⟨g, List.mem_cons_of_mem _ hg, hgid⟩, h⟩
        · rintro ⟨⟨g, hg, hgid⟩, h⟩
          rcases List.mem_cons.1 hg with e | hg'
          · subst e; omega
          · exact ⟨⟨g, hg', hgid⟩, h⟩
    · intro id
      have hcons : (∃ g ∈ f :: rest, g.id = id ∧ g.gz = false ∧ id + k < n ∧ n ≤ id + (k + m)) ↔
          (f.id = id ∧ f.gz = false ∧ id + k < n ∧ n ≤ id + (k + m)) ∨
          (∃ g ∈ rest, g.id = id ∧ g.gz = false ∧ id + k < n ∧ n ≤ id + (k + m)) := by
        simp only [List.mem_cons, exists_eq_or_imp]
      rw [hcons, ← ih2, plan]
      by_cases h1 : i ≥ k + m
      · rw [if_pos h1]
        simp only [List.mem_cons, reduceCtorEq, false_or]
        constructor
        · intro h; exact Or.inr h
        · rintro (⟨e, _, _, h⟩ | h)
          · omega
          · exact h
      · have hh := hhead (by omega)
        rw [if_neg h1]
        by_cases h2 : i ≥ k
        · rw [if_pos h2]
          cases hgz : f.gz
          · simp only [Bool.false_eq_true, if_false, List.mem_cons, Act.compress.injEq]
            constructor
            · rintro (e | h)
              · left; exact ⟨e.symm, trivial, by omega, by omega⟩
              · right; exact h
            · rintro (⟨e, _⟩ | h)
              · left; exact e.symm
              · right; exact h
          · simp only [if_true]
            constructor
            · intro h; exact Or.inr h
            · rintro (⟨_, e, _⟩ | h)
              · cases e
              · exact h
        · rw [if_neg h2]
          constructor
          · intro h; exact Or.inr h
          · rintro (⟨e, _, _, _⟩ | h)
            · omega
            · exact h

/-! ### the static shape of a directory -/

/-- the directory `d`, `n` files having been rotated so far: strictly oldest first, the newest
    `k + m` ranks all exist, the newest `k` are plain -/
structure Good (k m : Nat) (d : Dir) (n : Nat) : Prop where
  sorted : d.Pairwise (fun a b => a.id < b.id)
  lt : ∀ f ∈ d, f.id < n
  ex : ∀ id, id < n → n ≤ id + (k + m) → ∃ f ∈ d, f.id = id
  plain : ∀ f ∈ d, n ≤ f.id + k → f.gz = false

/-- every compressed file is older than every plain file: the listing is "all files, newest
    first" -/
def Sep (d : Dir) : Prop := ∀ f ∈ d, ∀ g ∈ d, f.gz = false → g.gz = true → g.id < f.id

theorem mem_listing {d : Dir} {f : RF} : f ∈ listing d ↔ f ∈ d := by
  unfold listing
  simp only [List.mem_append, List.mem_reverse, List.mem_filter]
  cases f.gz <;> simp

theorem listing_pairwise {d : Dir} (hs : d.Pairwise (fun a b => a.id < b.id)) (hsep : Sep d) :
    (listing d).Pairwise (fun a b => b.id < a.id) := by
  unfold listing
  rw [List.pairwise_append, List.pairwise_reverse, List.pairwise_reverse]
  refine ⟨hs.filter _, hs.filter _, ?_⟩
  intro a ha b hb
  rw [List.mem_reverse, List.mem_filter] at ha hb
  exact hsep a ha.1 b hb.1 (by simpa using ha.2) (by simpa using hb.2)

theorem Good.plan_mem {k m n : Nat} {d : Dir} (hg : Good k m d n) (hsep : Sep d) :
    (∀ id, Act.remove id ∈ plan k m (listing d) 0 ↔ (∃ f ∈ d, f.id = id) ∧ id + (k + m) < n) ∧
    (∀ id, Act.compress id ∈ plan k m (listing d) 0 ↔
        ∃ f ∈ d, f.id = id ∧ f.gz = false ∧ id + k < n ∧ n ≤ id + (k + m)) := by
  have := FV.Bg.plan_mem (k := k) (m := m) (n := n) (listing d) 0 (listing_pairwise hg.sorted hsep)
    (fun f hf => by have := hg.lt f (mem_listing.1 hf); omega)
    (fun id h1 h2 => by
      obtain ⟨f, hf, e⟩ := hg.ex id (by omega) h2
      exact ⟨f, mem_listing.2 hf, e⟩)
  simpa only [mem_listing] using this

theorem Good.explicit (k m n : Nat) : Good k m (explicit k m n) n where
  sorted := by
    unfold FV.Bg.explicit
    refine List.Pairwise.filterMap (R := (· < ·)) _ ?_ List.pairwise_lt_range
    intro a a' h b hb b' hb'
    unfold keepOf at hb hb'
    split at hb <;> cases hb
    split at hb' <;> cases hb'
    exact h
  lt := fun f hf => (mem_explicit.1 hf).1
  ex := fun id h1 h2 => ⟨⟨id, decide (id + k < n)⟩, mem_explicit.2 ⟨h1, h2, rfl⟩, rfl⟩
  plain := fun f hf h => by
    rw [(mem_explicit.1 hf).2.2]; simp; omega

theorem sep_explicit (k m n : Nat) : Sep (explicit k m n) := by
  intro f hf g hg h1 h2
  rw [(mem_explicit.1 hf).2.2] at h1
  rw [(mem_explicit.1 hg).2.2] at h2
  simp at h1 h2
  omega

theorem Good.rotate {k m n : Nat} {d : Dir} (hg : Good k m d n) :
    Good k m (d ++ [⟨n, false⟩]) (n + 1) where
  sorted := by
    rw [List.pairwise_append]
    refine ⟨hg.sorted, List.pairwise_singleton .., ?_⟩
    intro a ha b hb
    rw [List.mem_singleton] at hb; subst hb
    exact hg.lt a ha
  lt := by
    intro f hf
    rcases List.mem_append.1 hf with h | h
    · have := hg.lt f h; omega
    · rw [List.mem_singleton] at h; subst h; exact Nat.lt_succ_self _
  ex := by
    intro id h1 h2
    by_cases h : id = n
    · exact ⟨⟨n, false⟩, by simp, h.symm⟩
    · obtain ⟨f, hf, e⟩ := hg.ex id (by omega) (by omega)
      exact ⟨f, List.mem_append_left _ hf, e⟩
  plain := by
    intro f hf h
    rcases List.mem_append.1 hf with h' | h'
    · exact hg.plain f h' (by omega)
    · rw [List.mem_singleton] at h'; subst h'; rfl

theorem Sep.rotate {n : Nat} {d : Dir} (hlt : ∀ f ∈ d, f.id < n) (hs : Sep d) :
    Sep (d ++ [⟨n, false⟩]) := by
  intro f hf g hg h1 h2
  rcases List.mem_append.1 hg with hg' | hg'
  · rcases List.mem_append.1 hf with hf' | hf'
    · exact hs f hf' g hg' h1 h2
    · rw [List.mem_singleton] at hf'; subst hf'; exact hlt g hg'
  · rw [List.mem_singleton] at hg'; subst hg'; cases h2

/-- distinct files have distinct ranks -/
theorem eq_of_id_eq {d : Dir} (hs : d.Pairwise (fun a b => a.id < b.id)) {f g : RF}
    (hf : f ∈ d) (hg : g ∈ d) (h : f.id = g.id) : f = g := by
  induction d with
  | nil => cases hf
  | cons x d ih =>
    rw [List.pairwise_cons] at hs
    rcases List.mem_cons.1 hf with e1 | hf' <;> rcases List.mem_cons.1 hg with e2 | hg'
    · rw [e1, e2]
    · subst e1; have := hs.1 g hg'; omega
    · subst e2; have := hs.1 f hf'; omega
    · exact ih hs.2 hf' hg'

/-- **One whole pass** over a well-shaped directory yields the explicit form. -/
theorem pass_eq_explicit {k m n : Nat} {d : Dir} (hg : Good k m d n) (hsep : Sep d) :
    (plan k m (listing d) 0).foldl apply d = explicit k m n := by
  obtain ⟨hr, hc⟩ := hg.plan_mem hsep
  rw [foldl_apply]
  have h1 : d.filterMap (eff (plan k m (listing d) 0)) = d.filterMap (fun f => keepOf k m n f.id) := by
    apply filterMap_congr'
    intro f hf
    unfold eff keepOf
    by_cases hrm : f.id + (k + m) < n
    · rw [if_pos ((hr f.id).2 ⟨⟨f, hf, rfl⟩, hrm⟩), if_neg (show ¬ n ≤ f.id + (k + m) by omega)]
    · rw [if_neg (fun h => hrm ((hr f.id).1 h).2), if_pos (show n ≤ f.id + (k + m) by omega)]
      congr 1
      by_cases hk : f.id + k < n
      · cases hgz : f.gz
        · rw [if_pos ((hc f.id).2 ⟨f, hf, rfl, hgz, hk, by omega⟩)]
          simp [hk]
        · have : f = ⟨f.id, decide (f.id + k < n)⟩ := by cases f; simp_all
          split
          · simp [hk]
          · exact this
      · have hgz := hg.plain f hf (by omega)
        rw [if_neg (fun h => by obtain ⟨_, _, _, _, h', _⟩ := (hc f.id).1 h; exact hk h')]
        cases f; simp_all
  have h2 : d.filterMap (fun f => keepOf k m n f.id) = (d.map (·.id)).filterMap (keepOf k m n) := by
    rw [List.filterMap_map]; rfl
  have h3 : ∀ l : List Nat, l.filterMap (keepOf k m n) =
      (l.filter (fun id => decide (n ≤ id + (k + m)))).filterMap (keepOf k m n) := by
    intro l
    rw [List.filterMap_filter]
    apply filterMap_congr'
    intro id _
    unfold keepOf
    by_cases h : n ≤ id + (k + m) <;> simp [h]
  rw [h1, h2, h3, FV.Bg.explicit, h3 (List.range n)]
  congr 1
  apply sorted_ext
  · apply List.Pairwise.filter
    rw [List.pairwise_map]
    exact hg.sorted
  · exact List.Pairwise.filter _ List.pairwise_lt_range
  · intro id
    simp only [List.mem_filter, List.mem_map, List.mem_range, decide_eq_true_eq]
    constructor
    · rintro ⟨⟨f, hf, e⟩, h⟩
      have := hg.lt f hf
      exact ⟨by omega, h⟩
    · rintro ⟨h1, h2⟩
      obtain ⟨f, hf, e⟩ := hg.ex id h1 h2
      exact ⟨⟨f, hf, e⟩, h2⟩

theorem pass_explicit {k m n : Nat} {d : Dir} (hg : Good k m d n) (hsep : Sep d) :
    pass k m d = explicit k m n := pass_eq_explicit hg hsep

/-- the synchronous cleanup, explicitly -/
theorem syncDir_eq_explicit (k m : Nat) : ∀ n, syncDir k m n = explicit k m n
  | 0 => rfl
  | n + 1 => by
    rw [syncDir, syncDir_eq_explicit k m n]
    exact pass_explicit (Good.explicit k m n).rotate
      (Sep.rotate (Good.explicit k m n).lt (sep_explicit k m n))

/-! ### the invariant of the reachable states -/

/-- what a pending operation may touch: only files an up-to-date pass would treat alike -/
def ActOk (k m next : Nat) : Act → Prop
  | .remove id => id + (k + m) < next
  | .compress id => id + k < next

structure Inv (k m : Nat) (s : Sys) : Prop where
  good : Good k m s.d s.next
  /-- a pending removal concerns a file that is not among the newest `k + m`, a pending
      compression one that is not among the newest `k` -/
  curOk : ∀ a ∈ s.cur, ActOk k m s.next a
  /-- a plain file that is older than a compressed file, or older than a file that is about to be
      compressed, is itself about to be removed or compressed: when the thread is idle, the
      compressed files are older than the plain ones -/
  pending : ∀ f ∈ s.d, ∀ g ∈ s.d, f.gz = false → f.id < g.id →
    (g.gz = true ∨ Act.compress g.id ∈ s.cur) → (Act.remove f.id ∈ s.cur ∨ Act.compress f.id ∈ s.cur)
  /-- nothing queued: the pass the thread is working on is the last word -/
  fin : s.queue = 0 → s.cur.foldl apply s.d = explicit k m s.next

theorem Inv.init (k m : Nat) : Inv k m {} where
  good := ⟨List.Pairwise.nil, fun _ h => (by cases h), fun id h => (by cases h),
    fun _ h => (by cases h)⟩
  curOk := fun _ h => by cases h
  pending := fun _ h => by cases h
  fin := fun _ => rfl

theorem Inv.sep {k m : Nat} {s : Sys} (h : Inv k m s) (hc : s.cur = []) : Sep s.d := by
  intro f hf g hg h1 h2
  have hne : f.id ≠ g.id := by
    intro e
    have := eq_of_id_eq h.good.sorted hf hg e
    subst this; rw [h1] at h2; cases h2
  have : ¬ f.id < g.id := by
    intro hlt
    have := h.pending f hf g hg h1 hlt (Or.inl h2)
    rw [hc] at this; simp at this
  omega

theorem Inv.kick {k m : Nat} {s : Sys} (h : Inv k m s) : Inv k m (step k m s .kick) where
  good := h.good
  curOk := h.curOk
  pending := h.pending
  fin := by intro e; simp [step] at e

theorem Inv.rotate {k m : Nat} {s : Sys} (h : Inv k m s) : Inv k m (step k m s .rotate) where
  good := h.good.rotate
  curOk := by
    intro a ha
    have := h.curOk a ha
    cases a <;> simp only [ActOk, step] at this ⊢ <;> omega
  pending := by
    intro f hf g hg h1 h2 h3
    simp only [step] at hf hg h3 ⊢
    rcases List.mem_append.1 hf with hf' | hf'
    · rcases List.mem_append.1 hg with hg' | hg'
      · exact h.pending f hf' g hg' h1 h2 h3
      · rw [List.mem_singleton] at hg'; subst hg'
        rcases h3 with h3 | h3
        · cases h3
        · have := h.curOk _ h3; simp only [ActOk] at this; omega
    · rw [List.mem_singleton] at hf'; subst hf'
      rcases List.mem_append.1 hg with hg' | hg'
      · have := h.good.lt g hg'; simp only at h2; omega
      · rw [List.mem_singleton] at hg'; subst hg'; simp only at h2; omega
  fin := by intro e; simp [step] at e

theorem Inv.take {k m : Nat} {s : Sys} (h : Inv k m s) : Inv k m (step k m s .take) := by
  show Inv k m (if s.cur = [] ∧ s.queue > 0 then
    { s with queue := s.queue - 1, cur := plan k m (listing s.d) 0 } else s)
  split
  · rename_i hen
    have hsep := h.sep hen.1
    obtain ⟨hr, hc⟩ := h.good.plan_mem hsep
    exact {
      good := h.good
      curOk := by
        intro a ha
        cases a with
        | remove id => exact ((hr id).1 ha).2
        | compress id => obtain ⟨_, _, _, _, h', _⟩ := (hc id).1 ha; exact h'
      pending := by
        intro f hf g hg h1 h2 h3
        simp only at hf hg h3 ⊢
        rcases h3 with h3 | h3
        · have := hsep f hf g hg h1 h3; omega
        · obtain ⟨_, _, _, _, h', _⟩ := (hc g.id).1 h3
          by_cases hrm : f.id + (k + m) < s.next
          · exact Or.inl ((hr f.id).2 ⟨⟨f, hf, rfl⟩, hrm⟩)
          · exact Or.inr ((hc f.id).2 ⟨f, hf, rfl, h1, by omega, by omega⟩)
      fin := fun _ => pass_eq_explicit h.good hsep }
  · exact h

theorem Inv.exec {k m : Nat} {s : Sys} (h : Inv k m s) : Inv k m (step k m s .exec) := by
  show Inv k m (match s.cur with
    | [] => s
    | a :: rest => { s with d := apply s.d a, cur := rest })
  split
  · exact h
  · rename_i a rest hcur
    have hcurOk := h.curOk
    have hpend := h.pending
    have hfin := h.fin
    rw [hcur] at hcurOk hpend hfin
    have ha := hcurOk a (List.mem_cons_self ..)
    cases a with
    | remove x =>
      simp only [ActOk] at ha
      have hmem : ∀ f, f ∈ apply s.d (.remove x) ↔ f ∈ s.d ∧ f.id ≠ x := by
        intro f; simp [apply]
      exact {
        good := {
          sorted := h.good.sorted.filter _
          lt := fun f hf => h.good.lt f ((hmem f).1 hf).1
          ex := by
            intro id (h1 : id < s.next) (h2 : s.next ≤ id + (k + m))
            obtain ⟨f, hf, e⟩ := h.good.ex id h1 h2
            exact ⟨f, (hmem f).2 ⟨hf, by omega⟩, e⟩
          plain := fun f hf => h.good.plain f ((hmem f).1 hf).1 }
        curOk := fun b hb => hcurOk b (List.mem_cons_of_mem _ hb)
        pending := by
          intro f hf g hg h1 h2 h3
          simp only at hf hg h3 ⊢
          have hf' := (hmem f).1 hf
          have hg' := (hmem g).1 hg
          have := hpend f hf'.1 g hg'.1 h1 h2 (h3.imp id (List.mem_cons_of_mem _))
          simp only [List.mem_cons, Act.remove.injEq, reduceCtorEq, false_or] at this
          rcases this with (e | h') | h'
          · exact absurd e hf'.2
          · exact Or.inl h'
          · exact Or.inr h'
        fin := hfin }
    | compress x =>
      simp only [ActOk] at ha
      have hmem : ∀ f', f' ∈ apply s.d (.compress x) ↔
          ∃ f ∈ s.d, (if f.id = x then { f with gz := true } else f) = f' := by
        intro f'; simp [apply]
      exact {
        good := {
          sorted := by
            show (List.map _ s.d).Pairwise _
            rw [List.pairwise_map]
            refine h.good.sorted.imp ?_
            intro a b hab
            by_cases h1 : a.id = x <;> by_cases h2 : b.id = x <;> simp [h1, h2] <;> omega
          lt := by
            intro f' hf'
            obtain ⟨f, hf, e⟩ := (hmem f').1 hf'
            have := h.good.lt f hf
            subst e; split <;> exact this
          ex := by
            intro id h1 h2
            obtain ⟨f, hf, e⟩ := h.good.ex id h1 h2
            refine ⟨_, (hmem _).2 ⟨f, hf, rfl⟩, ?_⟩
            split <;> exact e
          plain := by
            intro f' hf' hk
            obtain ⟨f, hf, e⟩ := (hmem f').1 hf'
            subst e
            by_cases hx : f.id = x
            · rw [if_pos hx] at hk; simp only at hk; omega
            · rw [if_neg hx] at hk ⊢; exact h.good.plain f hf hk }
        curOk := fun b hb => hcurOk b (List.mem_cons_of_mem _ hb)
        pending := by
          intro f' hf' g' hg' h1 h2 h3
          simp only at hf' hg' h3 ⊢
          obtain ⟨f, hf, ef⟩ := (hmem f').1 hf'
          obtain ⟨g, hg, eg⟩ := (hmem g').1 hg'
          have hfx : f.id ≠ x := by
            intro e; rw [if_pos e] at ef; subst ef; cases h1
          rw [if_neg hfx] at ef; subst ef
          have hgid : g'.id = g.id := by subst eg; split <;> rfl
          rw [hgid] at h2 h3
          have hpre : g.gz = true ∨ Act.compress g.id ∈ Act.compress x :: rest := by
            rcases h3 with h3 | h3
            · by_cases hgx : g.id = x
              · right; rw [hgx]; exact List.mem_cons_self ..
              · left; rw [if_neg hgx] at eg; subst eg; exact h3
            · right; exact List.mem_cons_of_mem _ h3
          have := hpend f hf g hg h1 h2 hpre
          simp only [List.mem_cons, Act.compress.injEq, reduceCtorEq, false_or] at this
          rcases this with h' | e | h'
          · exact Or.inl h'
          · exact absurd e hfx
          · exact Or.inr h'
        fin := hfin }

theorem Inv.step {k m : Nat} {s : Sys} (h : Inv k m s) : ∀ st, Inv k m (step k m s st)
  | .kick => h.kick
  | .rotate => h.rotate
  | .take => h.take
  | .exec => h.exec

theorem Inv.run {k m : Nat} (sched : List Step) : ∀ {s : Sys}, Inv k m s → Inv k m (run k m s sched) := by
  induction sched with
  | nil => intro s h; exact h
  | cons st sched ih => intro s h; exact ih (h.step st)

theorem run_next (k m : Nat) (sched : List Step) :
    ∀ s : Sys, (run k m s sched).next = s.next + rotations sched := by
  induction sched with
  | nil => intro s; rfl
  | cons st sched ih =>
    intro s
    show (run k m (step k m s st) sched).next = _
    rw [ih]
    cases st with
    | kick => simp [step, rotations]
    | rotate => simp [step, rotations]; omega
    | take => simp only [step]; split <;> simp [rotations]
    | exec => simp only [step]; split <;> simp [rotations]

/-! ### draining -/

theorem plan_length_le (k m : Nat) : ∀ (L : List RF) (i : Nat), (plan k m L i).length ≤ L.length
  | [], _ => by simp [plan]
  | f :: rest, i => by
    have := plan_length_le k m rest (i + 1)
    rw [plan]
    split
    · simp only [List.length_cons]; omega
    · split
      · split
        · simp only [List.length_cons]; omega
        · simp only [List.length_cons]; omega
      · simp only [List.length_cons]; omega

theorem listing_length (d : Dir) : (listing d).length = d.length := by
  unfold listing
  rw [List.length_append, List.length_reverse, List.length_reverse]
  induction d with
  | nil => rfl
  | cons f d ih =>
    cases h : f.gz <;> simp [h] <;> omega

theorem apply_length_le (d : Dir) (a : Act) : (apply d a).length ≤ d.length := by
  cases a with
  | remove id => exact List.length_filter_le ..
  | compress id => simp [apply]

/-- with enough fuel, draining preserves the invariant and the rank counter and ends quiescent -/
theorem drain_spec {k m : Nat} : ∀ (fuel : Nat) (s : Sys), Inv k m s →
    s.cur.length + s.queue * (s.d.length + 2) ≤ fuel →
    Inv k m (drain k m fuel s) ∧ (drain k m fuel s).next = s.next ∧
      (drain k m fuel s).queue = 0 ∧ (drain k m fuel s).cur = []
  | 0, s, h, hf => by
    have h1 : s.cur.length = 0 := by omega
    have h2 : s.queue = 0 := by
      have : s.queue * (s.d.length + 2) = 0 := by omega
      rcases Nat.mul_eq_zero.1 this with h | h
      · exact h
      · omega
    exact ⟨h, rfl, h2, List.length_eq_zero_iff.1 h1⟩
  | fuel + 1, s, h, hf => by
    rw [drain]
    split
    · rename_i a rest hcur
      have hstep : step k m s .exec = { s with d := apply s.d a, cur := rest } := by
        simp only [step]; rw [hcur]
      have := drain_spec fuel (step k m s .exec) h.exec (by
        rw [hstep]; simp only
        rw [hcur] at hf
        have h1 := apply_length_le s.d a
        have h2 : s.queue * ((apply s.d a).length + 2) ≤ s.queue * (s.d.length + 2) :=
          Nat.mul_le_mul_left _ (by omega)
        simp only [List.length_cons] at hf
        omega)
      rw [hstep] at this ⊢
      exact this
    · rename_i hcur
      split
      · rename_i hq
        have hstep : step k m s .take =
            { s with queue := s.queue - 1, cur := plan k m (listing s.d) 0 } := by
          simp only [step]; rw [if_pos ⟨hcur, hq⟩]
        have := drain_spec fuel (step k m s .take) h.take (by
          rw [hstep]; simp only
          rw [hcur] at hf
          have h1 := plan_length_le k m (listing s.d) 0
          rw [listing_length] at h1
          obtain ⟨q, hq'⟩ : ∃ q, s.queue = q + 1 := ⟨s.queue - 1, by omega⟩
          rw [hq'] at hf ⊢
          simp only [Nat.add_sub_cancel, List.length_nil, Nat.succ_mul] at hf ⊢
          omega)
        rw [hstep] at this ⊢
        exact this
      · rename_i hq
        exact ⟨h, rfl, by omega, hcur⟩

theorem drainAll_spec {k m : Nat} {s : Sys} (h : Inv k m s) :
    (drainAll k m s).d = explicit k m s.next ∧ (drainAll k m s).queue = 0 ∧
      (drainAll k m s).cur = [] := by
  obtain ⟨hi, hn, hq, hc⟩ := drain_spec (k := k) (m := m)
    (s.cur.length + s.queue * (s.d.length + 2) + 1) s h (Nat.le_succ _)
  have := hi.fin hq
  rw [hc, hn] at this
  exact ⟨this, hq, hc⟩

end FV.Bg
