import FlexiVerif.Model.Text
/-
  Helper lemmas about the text layer (`splitOn`, `trim`, `hasWs`).
-/
namespace FV

/-! ### `splitOn` -/

theorem splitOn_ne_nil (sep : Char) (s : List Char) : splitOn sep s ≠ [] := by
  induction s with
  | nil => simp [splitOn]
  | cons c cs ih =>
    simp only [splitOn]
    split
    · simp
    · split <;> simp

/-- no separator: one piece -/
theorem splitOn_of_not_mem (sep : Char) (a : List Char) (h : sep ∉ a) : splitOn sep a = [a] := by
  induction a with
  | nil => rfl
  | cons c cs ih =>
    have hc : c ≠ sep := fun e => h (by simp [e])
    have hcs : sep ∉ cs := fun e => h (by simp [e])
    simp [splitOn, hc, ih hcs]

/-- first separator: the text before it is the first piece -/
theorem splitOn_append_sep (sep : Char) (a b : List Char) (h : sep ∉ a) :
    splitOn sep (a ++ sep :: b) = a :: splitOn sep b := by
  induction a with
  | nil => simp [splitOn]
  | cons c cs ih =>
    have hc : c ≠ sep := fun e => h (by simp [e])
    have hcs : sep ∉ cs := fun e => h (by simp [e])
    simp [splitOn, hc, ih hcs]

/-! ### whitespace and trimming -/

/-- the first and the last character (if any) are not whitespace -/
def NoEdgeWs (s : List Char) : Prop :=
  (∀ c, s.head? = some c → isWs c = false) ∧ (∀ c, s.getLast? = some c → isWs c = false)

theorem noEdgeWs_nil : NoEdgeWs [] := by simp [NoEdgeWs]

theorem hasWs_eq_false_iff (s : List Char) : hasWs s = false ↔ ∀ c ∈ s, isWs c = false := by
  simp [hasWs]

theorem noEdgeWs_of_hasWs (s : List Char) (h : hasWs s = false) : NoEdgeWs s := by
  rw [hasWs_eq_false_iff] at h
  refine ⟨fun c hc => h c (List.mem_of_head? hc), fun c hc => h c (List.mem_of_getLast? hc)⟩

theorem trimStart_ws_append (a s : List Char) (ha : ∀ c ∈ a, isWs c = true) :
    trimStart (a ++ s) = trimStart s := by
  induction a with
  | nil => rfl
  | cons c cs ih =>
    have hc : isWs c = true := ha c (by simp)
    have := ih (fun d hd => ha d (by simp [hd]))
    simp only [trimStart] at this ⊢
    simp [hc, this]

theorem trimStart_of_head (s : List Char) (h : ∀ c, s.head? = some c → isWs c = false) :
    trimStart s = s := by
  cases s with
  | nil => rfl
  | cons c cs => simp [trimStart, List.dropWhile, h c rfl]

theorem trimEnd_append_ws (s b : List Char) (hb : ∀ c ∈ b, isWs c = true) :
    trimEnd (s ++ b) = trimEnd s := by
  have := trimStart_ws_append b.reverse s.reverse (fun c hc => hb c (by simpa using hc))
  simp only [trimStart] at this
  simp [trimEnd, this]

theorem trimEnd_of_last (s : List Char) (h : ∀ c, s.getLast? = some c → isWs c = false) :
    trimEnd s = s := by
  have := trimStart_of_head s.reverse (by simpa using h)
  simp only [trimStart] at this
  simp [trimEnd, this]

/-- trimming removes exactly the whitespace padding around a core without edge whitespace -/
theorem trim_pad (a core b : List Char) (ha : ∀ c ∈ a, isWs c = true) (hb : ∀ c ∈ b, isWs c = true)
    (hc : NoEdgeWs core) : trim (a ++ core ++ b) = core := by
  unfold trim
  rw [List.append_assoc, trimStart_ws_append a _ ha]
  cases core with
  | nil =>
    have h1 : trimStart ([] ++ b) = [] := by
      have := trimStart_ws_append b [] hb
      simpa [trimStart] using this
    rw [h1]; rfl
  | cons c cs =>
    rw [trimStart_of_head]
    · rw [trimEnd_append_ws _ _ hb, trimEnd_of_last _ hc.2]
    · intro d hd
      exact hc.1 d (by simpa using hd)

theorem trim_of_noEdgeWs (s : List Char) (h : NoEdgeWs s) : trim s = s := by
  simpa using trim_pad [] s [] (by simp) (by simp) h

theorem trim_of_hasWs (s : List Char) (h : hasWs s = false) : trim s = s :=
  trim_of_noEdgeWs s (noEdgeWs_of_hasWs s h)

theorem trim_pad_left (a core : List Char) (ha : ∀ c ∈ a, isWs c = true) (hc : NoEdgeWs core) :
    trim (a ++ core) = core := by
  simpa using trim_pad a core [] ha (by simp) hc

theorem trim_pad_right (core b : List Char) (hb : ∀ c ∈ b, isWs c = true) (hc : NoEdgeWs core) :
    trim (core ++ b) = core := by
  simpa using trim_pad [] core b (by simp) hb hc

theorem isWs_space : isWs ' ' = true := by decide

/-- a leading blank is invisible to `trim` -/
theorem trim_cons_space (s : List Char) : trim (' ' :: s) = trim s := by
  simp [trim, trimStart, List.dropWhile, isWs_space]

/-! ### inversion of `splitOn` -/

theorem splitOn_eq_singleton (sep : Char) (t p : List Char) (h : splitOn sep t = [p]) :
    p = t ∧ sep ∉ t := by
  induction t generalizing p with
  | nil => simp [splitOn] at h; simp [h]
  | cons c cs ih =>
    simp only [splitOn] at h
    split at h
    · simp [splitOn_ne_nil] at h
    · rename_i hc
      split at h
      · rename_i hnil; exact absurd hnil (splitOn_ne_nil _ _)
      · rename_i hd tl heq
        simp only [List.cons.injEq] at h
        obtain ⟨rfl, rfl⟩ := h
        obtain ⟨rfl, hmem⟩ := ih hd heq
        refine ⟨rfl, ?_⟩
        simp only [List.mem_cons, not_or]
        exact ⟨fun e => hc e.symm, hmem⟩

theorem splitOn_eq_cons_cons (sep : Char) (t p q : List Char) (r : List (List Char))
    (h : splitOn sep t = p :: q :: r) :
    ∃ t', t = p ++ sep :: t' ∧ sep ∉ p ∧ splitOn sep t' = q :: r := by
  induction t generalizing p with
  | nil => simp [splitOn] at h
  | cons c cs ih =>
    simp only [splitOn] at h
    split at h
    · rename_i hc
      simp only [List.cons.injEq] at h
      obtain ⟨rfl, h2⟩ := h
      exact ⟨cs, by simp [hc], by simp, h2⟩
    · rename_i hc
      split at h
      · simp at h
      · rename_i hd tl heq
        simp only [List.cons.injEq] at h
        obtain ⟨rfl, rfl⟩ := h
        obtain ⟨t', rfl, hmem, hrest⟩ := ih hd heq
        refine ⟨t', by simp, ?_, hrest⟩
        simp only [List.mem_cons, not_or]
        exact ⟨fun e => hc e.symm, hmem⟩

/-! ### `trim` cuts a text into whitespace, core, whitespace -/

def AllWs (a : List Char) : Prop := ∀ c ∈ a, isWs c = true

instance (a : List Char) : Decidable (AllWs a) := by unfold AllWs; infer_instance

theorem allWs_nil : AllWs [] := by simp [AllWs]

theorem head_dropWhile_ws (s : List Char) :
    ∀ c, (s.dropWhile isWs).head? = some c → isWs c = false := by
  induction s with
  | nil => simp
  | cons d ds ih =>
    intro c hc
    simp only [List.dropWhile] at hc
    split at hc
    · exact ih c hc
    · rename_i hd
      simp at hc; subst hc; simpa using hd

theorem mem_takeWhile_ws (s : List Char) : ∀ c ∈ s.takeWhile isWs, isWs c = true := by
  induction s with
  | nil => simp
  | cons d ds ih =>
    intro c hc
    simp only [List.takeWhile] at hc
    split at hc
    · rename_i hd
      rcases List.mem_cons.mp hc with rfl | h
      · exact hd
      · exact ih c h
    · simp at hc

theorem trimStart_decomp (s : List Char) :
    ∃ a, s = a ++ trimStart s ∧ AllWs a := by
  refine ⟨s.takeWhile isWs, by simp [trimStart], ?_⟩
  intro c hc
  exact mem_takeWhile_ws _ c hc

theorem trimEnd_decomp (s : List Char) :
    ∃ b, s = trimEnd s ++ b ∧ AllWs b := by
  refine ⟨(s.reverse.takeWhile isWs).reverse, ?_, ?_⟩
  · have := (List.takeWhile_append_dropWhile (p := isWs) (l := s.reverse))
    have h2 := congrArg List.reverse this
    simp only [List.reverse_append, List.reverse_reverse] at h2
    simpa [trimEnd] using h2.symm
  · intro c hc
    exact mem_takeWhile_ws _ c (List.mem_reverse.mp hc)

theorem trim_decomp (s : List Char) :
    ∃ a b, s = a ++ trim s ++ b ∧ AllWs a ∧ AllWs b ∧ NoEdgeWs (trim s) := by
  obtain ⟨a, ha, hwa⟩ := trimStart_decomp s
  obtain ⟨b, hb, hwb⟩ := trimEnd_decomp (trimStart s)
  refine ⟨a, b, ?_, hwa, hwb, ?_, ?_⟩
  · unfold trim
    rw [List.append_assoc, ← hb, ← ha]
  · intro c hc
    have hh := head_dropWhile_ws s
    cases hcore : trim s with
    | nil => simp [hcore] at hc
    | cons d ds =>
      rw [hcore] at hc
      simp at hc; subst hc
      unfold trim at hcore
      rw [hcore] at hb
      apply hh d
      show (trimStart s).head? = some d
      rw [hb]; rfl
  · intro c hc
    have hh := head_dropWhile_ws (trimStart s).reverse
    apply hh c
    simpa [trim, trimEnd] using hc

theorem noEdgeWs_trim (s : List Char) : NoEdgeWs (trim s) := by
  obtain ⟨_, _, _, _, _, h⟩ := trim_decomp s
  exact h

theorem trim_trim (s : List Char) : trim (trim s) = trim s :=
  trim_of_noEdgeWs _ (noEdgeWs_trim s)

theorem allWs_not_mem (a : List Char) (h : AllWs a) (c : Char) (hc : isWs c = false) : c ∉ a := by
  intro hmem
  rw [h c hmem] at hc
  exact absurd hc (by simp)

theorem trim_allWs (b : List Char) (h : AllWs b) : trim b = [] := by
  simpa using trim_pad [] [] b (by simp) h noEdgeWs_nil

end FV
