import FlexiVerif.Lemmas.FlwRefineA
import FlexiVerif.Lemmas.FlwAbs
/-
  C06 for `Naming.numbers` / `Naming.timestamps` and the non-rotating writer: restarting the
  logger (a new process on the same directory, `Op.restart`) never destroys or reorders the
  records of earlier runs.

  Builds on `Lemmas/FlwRefineA.lean` (`InvAct`, `writeRaw_spec`, `rotate_dir`, …).
-/
namespace FV.FlwA
open FV.Flw

/-! ### relations between directories -/

/-- every file is still there under its name, content extended, birth time kept -/
def Same (d d' : Dir) : Prop :=
  ∀ n f, d.get n = some f →
    ∃ f', d'.get n = some f' ∧ f.data <+: f'.data ∧ f'.created = f.created

/-- every file is still there with its content extended — under its name, or (only `rCURRENT`)
    under a name that did not exist before -/
def Moved (d d' : Dir) : Prop :=
  ∀ n f, d.get n = some f →
    (∃ f', d'.get n = some f' ∧ f.data <+: f'.data) ∨
    (n = curN ∧ ∃ n', d.get n' = none ∧ ∃ f', d'.get n' = some f' ∧ f.data <+: f'.data)

theorem Same.refl (d : Dir) : Same d d :=
  fun _ f h => ⟨f, h, List.prefix_refl _, rfl⟩

theorem Same.trans {d d' d'' : Dir} (h1 : Same d d') (h2 : Same d' d'') : Same d d'' := by
  intro n f hf
  obtain ⟨f', hf', hp, hc⟩ := h1 n f hf
  obtain ⟨f'', hf'', hp', hc'⟩ := h2 n f' hf'
  exact ⟨f'', hf'', hp.trans hp', hc'.trans hc⟩

theorem Same.moved {d d' : Dir} (h : Same d d') : Moved d d' := by
  intro n f hf
  obtain ⟨f', hf', hp, -⟩ := h n f hf
  exact Or.inl ⟨f', hf', hp⟩

theorem Moved.then_same {d d' d'' : Dir} (h1 : Moved d d') (h2 : Same d' d'') : Moved d d'' := by
  intro n f hf
  rcases h1 n f hf with ⟨f', hf', hp⟩ | ⟨hn, n', hn', f', hf', hp⟩
  · obtain ⟨f'', hf'', hp', -⟩ := h2 n f' hf'
    exact Or.inl ⟨f'', hf'', hp.trans hp'⟩
  · obtain ⟨f'', hf'', hp', -⟩ := h2 n' f' hf'
    exact Or.inr ⟨hn, n', hn', f'', hf'', hp.trans hp'⟩

theorem Same.then_moved {d d' d'' : Dir} (h1 : Same d d') (h2 : Moved d' d'') : Moved d d'' := by
  intro n f hf
  obtain ⟨f', hf', hp, -⟩ := h1 n f hf
  rcases h2 n f' hf' with ⟨f'', hf'', hp'⟩ | ⟨hn, n', hn', f'', hf'', hp'⟩
  · exact Or.inl ⟨f'', hf'', hp.trans hp'⟩
  · refine Or.inr ⟨hn, n', ?_, f'', hf'', hp.trans hp'⟩
    cases hg : d.get n' with
    | none => rfl
    | some g =>
      obtain ⟨g', hg', -, -⟩ := h1 n' g hg
      rw [hn'] at hg'
      cases hg'

theorem same_set_new (d : Dir) (n : FName) (v : File) (h : d.get n = none) : Same d (d.set n v) := by
  intro m f hf
  have hne : m ≠ n := by
    intro e
    rw [e, h] at hf
    cases hf
  exact ⟨f, by rw [get_set_ne _ _ _ _ hne]; exact hf, List.prefix_refl _, rfl⟩

theorem same_set_ext (d : Dir) (n : FName) (f v : File) (h : d.get n = some f)
    (hp : f.data <+: v.data) (hc : v.created = f.created) : Same d (d.set n v) := by
  intro m g hg
  by_cases hne : m = n
  · subst hne
    rw [h] at hg
    cases hg
    exact ⟨v, get_set_self _ _ _, hp, hc⟩
  · exact ⟨g, by rw [get_set_ne _ _ _ _ hne]; exact hg, List.prefix_refl _, rfl⟩

theorem same_append (d : Dir) (n : FName) (b : List Nat) : Same d (d.append n b) := by
  cases h : d.get n with
  | none =>
    have : d.append n b = d := by simp [Dir.append, h]
    rw [this]
    exact Same.refl d
  | some f =>
    rw [append_of_get d n f b h]
    exact same_set_ext d n f _ h (List.prefix_append _ _) rfl

theorem same_writeRaw (s : St) (act : Active) (b : List Nat) :
    Same s.dir (writeRaw s act b).1.dir := by
  unfold writeRaw
  split
  · exact same_append _ _ _
  · rename_i c _
    by_cases hfl : act.pending.length + b.length > c
    · by_cases hb : b.length ≥ c
      · simp only [if_pos hfl, if_pos hb, flushAct]
        exact (same_append _ _ _).trans (same_append _ _ _)
      · simp only [if_pos hfl, if_neg hb, flushAct]
        exact same_append _ _ _
    · by_cases hb : b.length ≥ c
      · simp only [if_neg hfl, if_pos hb]
        exact same_append _ _ _
      · simp only [if_neg hfl, if_neg hb]
        exact Same.refl _

/-! ### `highestIndex` -/

/-- the index `initState` starts from -/
def idx0 (d : Dir) : Nat :=
  match highestIndex d with
  | none => 0
  | some h => h + 1

def nextOf : Option Nat → Nat
  | none => 0
  | some h => h + 1

def hiStep (acc : Option Nat) (e : FName × File) : Option Nat :=
  match e.1.ifx with
  | some (.num n) => some (match acc with | none => n | some a => max a n)
  | _ => acc

theorem l_hi (l : List (FName × File)) : ∀ acc : Option Nat,
    nextOf acc ≤ nextOf (l.foldl hiStep acc) ∧
    ∀ e ∈ l, ∀ n, e.1.ifx = some (.num n) → n < nextOf (l.foldl hiStep acc) := by
  induction l with
  | nil => intro acc; simp
  | cons x t ih =>
    intro acc
    obtain ⟨h1, h2⟩ := ih (hiStep acc x)
    simp only [List.foldl_cons]
    have hx : nextOf acc ≤ nextOf (hiStep acc x) ∧
        ∀ n, x.1.ifx = some (.num n) → n < nextOf (hiStep acc x) := by
      unfold hiStep
      split
      · rename_i n hn
        constructor
        · cases acc <;> simp [nextOf]
          omega
        · intro m hm
          rw [hn] at hm
          cases hm
          cases acc <;> simp [nextOf]
          omega
      · rename_i hn
        refine ⟨Nat.le_refl _, ?_⟩
        intro m hm
        exact absurd hm (hn m)
    refine ⟨Nat.le_trans hx.1 h1, ?_⟩
    intro e he n hn
    rcases List.mem_cons.1 he with rfl | he
    · exact Nat.lt_of_lt_of_le (hx.2 n hn) h1
    · exact h2 e he n hn

theorem idx0_gt (d : Dir) : ∀ e ∈ ents d, ∀ n, e.1.ifx = some (.num n) → n < idx0 d :=
  (l_hi d none).2

/-! ### the rename at the start of a run -/

/-- rename `rCURRENT` to a fresh name above all others and create a new `rCURRENT` -/
theorem rotate_dir0 (d : Dir) (f : File) (ti : Infix) (now : Nat)
    (hcur : d.get curN = some f) (hrot : ti.rotated = true)
    (hfresh : ∀ e ∈ ents d, e.1.ifx ≠ some ti)
    (hkey : ∀ e ∈ ents d, ∀ j, e.1.ifx = some j → j.rotated = true → keyLt ti.key j.key = false) :
    ∃ d1, d.rename curN ⟨some ti, false⟩ = (d1, true) ∧ d1.get curN = none ∧
      (d1.set curN ⟨[], now⟩).get curN = some ⟨[], now⟩ ∧
      rotatedAsc (d1.set curN ⟨[], now⟩) = rotatedAsc d ++ [(⟨some ti, false⟩, f)] ∧
      (∀ e ∈ ents (d1.set curN ⟨[], now⟩), e.1 = curN ∨ e.1 = ⟨some ti, false⟩ ∨ e ∈ ents d) ∧
      Moved d (d1.set curN ⟨[], now⟩) ∧
      d.get ⟨some ti, false⟩ = none ∧ (d1.set curN ⟨[], now⟩).get ⟨some ti, false⟩ = some f := by
  have hne : curN ≠ (⟨some ti, false⟩ : FName) := by
    intro h
    cases h
    simp [Infix.rotated] at hrot
  have hrotN : ∀ v, isRot ((⟨some ti, false⟩ : FName), v) = true := fun v => by simp [isRot, hrot]
  have hnrC : ∀ v, isRot (curN, v) = false := fun v => by simp [isRot, Infix.rotated]
  have habs : d.get ⟨some ti, false⟩ = none := by
    rw [get_eq_none_iff]
    intro e he h
    apply hfresh e he
    rw [h]
  refine ⟨(d.erase curN).set ⟨some ti, false⟩ f, by simp [Dir.rename, hcur], ?_, get_set_self _ _ _,
    ?_, ?_, ?_, habs, by rw [get_set_ne _ _ _ _ hne.symm, get_set_self]⟩
  · rw [get_set_ne _ _ _ _ hne, get_erase_self]
  · rw [rotatedAsc_set_of_not_rot _ _ _ hnrC, rotatedAsc_set_rot _ _ _ (hrotN _),
      erase_of_not_mem (d.erase curN), rotatedAsc_erase _ _ hnrC]
    · apply insAsc_last _ ti rfl
      intro y hy j hj
      obtain ⟨hy1, hy2⟩ := (mem_rotatedAsc d y).1 hy
      apply hkey y hy1 j hj
      simpa [isRot, hj] using hy2
    · intro e he h
      obtain ⟨he1, -⟩ := (mem_erase d curN e).1 he
      apply hfresh e he1
      rw [h]
  · intro e he
    rcases (mem_set _ _ _ e).1 he with h | ⟨h, -⟩
    · left; rw [h]
    rcases (mem_set _ _ _ e).1 h with h | ⟨h, -⟩
    · right; left; rw [h]
    right; right
    exact ((mem_erase d curN e).1 h).1
  · intro n g hg
    by_cases hn : n = curN
    · subst hn
      rw [hcur] at hg
      cases hg
      refine Or.inr ⟨rfl, ⟨some ti, false⟩, habs, f, ?_, List.prefix_refl _⟩
      rw [get_set_ne _ _ _ _ hne.symm, get_set_self]
    · have hn2 : n ≠ ⟨some ti, false⟩ := by
        intro e
        rw [e, habs] at hg
        cases hg
      refine Or.inl ⟨g, ?_, List.prefix_refl _⟩
      rw [get_set_ne _ _ _ _ hn, get_set_ne _ _ _ _ hn2, get_erase_ne _ _ _ hn]
      exact hg

/-! ### the running writer: `FlwRefineA`'s invariant plus the birth-time bookkeeping -/

/-- what is needed beyond `InvAct` to survive a restart: the roll state's `created` is the birth
    time of the current file, and for `timestamps` so is `current_timestamp` -/
structure Ext (cfg : Cfg) (d : Dir) (act : Active) : Prop where
  fcreated : cfg.rot.isSome → ∀ f, d.get (cnOf cfg) = some f → f.created = act.created
  stamp : (∃ r, cfg.rot = some r ∧ r.naming = .timestamps) → act.stamp = act.created

/-- the name the current file is rotated to -/
def targetOf (r : RotCfg) (d : Dir) (act : Active) : Infix :=
  match r.naming with
  | .timestamps => collisionFree d act.stamp
  | _ => .num act.idx

theorem target_facts {cfg : Cfg} {d : Dir} {act : Active} {a : Abs} {r : RotCfg}
    (hr : cfg.rot = some r) (hnm : r.naming = .numbers ∨ r.naming = .timestamps)
    (hi : InvAct cfg d act a) :
    (targetOf r d act).rotated = true ∧
    (∀ e ∈ ents d, e.1.ifx ≠ some (targetOf r d act)) ∧
    (∀ e ∈ ents d, ∀ j, e.1.ifx = some j → j.rotated = true →
      keyLt (targetOf r d act).key j.key = false) ∧
    (∀ idx' stamp', (r.naming = .numbers → act.idx < idx') →
      (r.naming = .timestamps → act.stamp ≤ stamp') →
      Bound cfg idx' stamp' (targetOf r d act) ∧
        ∀ i, Bound cfg act.idx act.stamp i → Bound cfg idx' stamp' i) := by
  have hcn := cnOf_some hr
  rcases hnm with hn | hn
  · have ht : targetOf r d act = .num act.idx := by simp [targetOf, hn]
    have hnt : ¬ ∃ r', cfg.rot = some r' ∧ r'.naming = .timestamps := by
      rintro ⟨r', h1, h2⟩
      rw [hr] at h1
      cases h1
      rw [hn] at h2
      cases h2
    rw [ht]
    refine ⟨rfl, ?_, ?_, ?_⟩
    · intro e he
      rcases hi.names e he with h1 | ⟨-, i, h2, h3⟩
      · rw [h1, hcn]; simp
      · rw [h2]
        cases i <;> simp [Bound] at h3 ⊢
        omega
    · intro e he j hj hjr
      rcases hi.names e he with h1 | ⟨-, i, h2, h3⟩
      · rw [h1, hcn] at hj
        cases hj
        simp [Infix.rotated] at hjr
      · rw [h2] at hj
        cases hj
        cases j with
        | num n =>
          apply keyLt_false_of_lt
          simp only [Infix.key]
          exact h3.2
        | ts k r => exact absurd h3.1 hnt
        | cur => exact absurd h3 id
        | ext n => exact absurd h3 id
    · intro idx' stamp' h1 _
      have h1 := h1 hn
      refine ⟨⟨⟨r, hr, hn⟩, h1⟩, ?_⟩
      intro i hb
      cases i with
      | num n => exact ⟨hb.1, Nat.lt_trans hb.2 h1⟩
      | ts k r => exact absurd hb.1 hnt
      | cur => exact absurd hb id
      | ext n => exact absurd hb id
  · have ht : targetOf r d act = collisionFree d act.stamp := by simp [targetOf, hn]
    have hnn : ¬ ∃ r', cfg.rot = some r' ∧ r'.naming = .numbers := by
      rintro ⟨r', h1, h2⟩
      rw [hr] at h1
      cases h1
      rw [hn] at h2
      cases h2
    obtain ⟨rr, hti⟩ := collisionFree_ts d act.stamp
    rw [ht]
    refine ⟨by rw [hti]; rfl, fun e he => collisionFree_fresh d act.stamp e he, ?_, ?_⟩
    · intro e he j hj hjr
      rcases hi.names e he with h1 | ⟨-, i, h2, h3⟩
      · rw [h1, hcn] at hj
        cases hj
        simp [Infix.rotated] at hjr
      · rw [h2] at hj
        cases hj
        cases j with
        | num n => exact absurd h3.1 hnn
        | ts k r => exact collisionFree_key d act.stamp e he k r h2 h3.2
        | cur => exact absurd h3 id
        | ext n => exact absurd h3 id
    · intro idx' stamp' _ h2
      have h2 := h2 hn
      rw [hti]
      refine ⟨⟨⟨r, hr, hn⟩, h2⟩, ?_⟩
      intro i hb
      cases i with
      | num n => exact absurd hb.1 hnn
      | ts k r => exact ⟨hb.1, Nat.le_trans hb.2 h2⟩
      | cur => exact absurd hb id
      | ext n => exact absurd hb id

/-- the rotation proper (any `append`): invariant, birth-time bookkeeping, and the old
    current file moved to a name that did not exist -/
theorem mountNextCore_rot2 (s : St) (act : Active) (a : Abs) (r : RotCfg) (force : Bool) (now : Nat)
    (hr : s.cfg.rot = some r) (hcl : r.cleanup = none)
    (hnm : r.naming = .numbers ∨ r.naming = .timestamps)
    (hi : InvAct s.cfg s.dir act a) (hst : act.stamp ≤ now)
    (h : (force || rotationNecessary r act now) = true) :
    ∃ s' act', mountNextCore s act r force now noFaults = (s', act', false) ∧ s'.cfg = s.cfg ∧
      InvAct s.cfg s'.dir act' (a.rotate now) ∧ Ext s.cfg s'.dir act' ∧ act'.stamp ≤ now ∧
      Moved s.dir s'.dir := by
  obtain ⟨f, hf, hdata⟩ := hi.file
  have hcn := cnOf_some hr
  rw [hcn] at hf
  have hh : act.handle = curN := by rw [hi.handle, hcn]
  obtain ⟨htr, hfresh, hkey, hb⟩ := target_facts hr hnm hi
  obtain ⟨d1, hren, hg1, hg3, hasc, hmem⟩ :=
    rotate_dir s.dir f (targetOf r s.dir act) act.pending now hf htr hfresh hkey
  obtain ⟨d1', hren', -, -, -, -, hmv, -, -⟩ :=
    rotate_dir0 s.dir f (targetOf r s.dir act) now hf htr hfresh hkey
  have hd1 : d1' = d1 := by
    rw [hren] at hren'
    cases hren'
    rfl
  subst hd1
  have hmv3 := hmv.then_same (same_append _ ⟨some (targetOf r s.dir act), false⟩ act.pending)
  have hcr : ∀ d3 : Dir, d3.get curN = some ⟨[], now⟩ → createdOr d3 curN now = now := by
    intro d3 h3
    simp [createdOr, h3]
  rcases hnm with hn | hn
  · have ht : targetOf r s.dir act = .num act.idx := by simp [targetOf, hn]
    rw [ht] at hren hg3 hasc hmem hmv3 hb
    obtain ⟨s', he, hc', hd'⟩ := mountNextCore_numbers s act r force now hn hcl h d1' hren hh hg1
    obtain ⟨hb1, hb2⟩ := hb (act.idx + 1) act.stamp (fun _ => Nat.lt_succ_self _)
      (fun _ => Nat.le_refl _)
    refine ⟨s', _, he, hc', ?_, ?_, hst, ?_⟩
    · rw [hd']
      exact hi.rotated hr f hdata (.num act.idx) _ _ _ now hg3 hasc hmem hb1 hb2
    · rw [hd']
      constructor
      · intro _ g hg
        rw [hcn, hg3] at hg
        cases hg
        exact (hcr _ hg3).symm
      · rintro ⟨r', h1, h2⟩
        rw [hr] at h1
        cases h1
        rw [hn] at h2
        cases h2
    · rw [hd']
      exact hmv3
  · have ht : targetOf r s.dir act = collisionFree s.dir act.stamp := by simp [targetOf, hn]
    rw [ht] at hren hg3 hasc hmem hmv3 hb
    obtain ⟨s', he, hc', hd'⟩ := mountNextCore_timestamps s act r force now hn hcl h d1' hren hh hg1
    obtain ⟨hb1, hb2⟩ := hb act.idx now (fun _ => by rw [hn] at *; contradiction) (fun _ => hst)
    refine ⟨s', _, he, hc', ?_, ?_, Nat.le_refl _, ?_⟩
    · rw [hd']
      exact hi.rotated hr f hdata (collisionFree s.dir act.stamp) _ _ _ now hg3 hasc hmem hb1 hb2
    · rw [hd']
      constructor
      · intro _ g hg
        rw [hcn, hg3] at hg
        cases hg
        exact (hcr _ hg3).symm
      · intro _
        exact (hcr _ hg3).symm
    · rw [hd']
      exact hmv3

/-- `mountNext` when it rotates (any `append`): invariant, birth-time bookkeeping, and the old
    current file moved to a name that did not exist -/
theorem mountNext_rot2 (s : St) (act : Active) (a : Abs) (r : RotCfg) (force : Bool) (now : Nat)
    (hr : s.cfg.rot = some r) (hcl : r.cleanup = none)
    (hnm : r.naming = .numbers ∨ r.naming = .timestamps)
    (hi : InvAct s.cfg s.dir act a) (hst : act.stamp ≤ now)
    (h : (force || rotationNecessary r act now) = true) :
    ∃ s' act', mountNext s act r force now noFaults = (s', act', false) ∧ s'.cfg = s.cfg ∧
      InvAct s.cfg s'.dir act' (a.rotate now) ∧ Ext s.cfg s'.dir act' ∧ act'.stamp ≤ now ∧
      Moved s.dir s'.dir := by
  rw [mountNext_due s act r force now noFaults h]
  obtain ⟨s', act', h1, h2, h3, h4, h5, h6⟩ :=
    mountNextCore_rot2 (flushAct s act).1 (flushAct s act).2 a r true now hr hcl hnm hi.flush hst rfl
  exact ⟨s', act', h1, h2, h3, h4, h5, (same_append s.dir act.handle act.pending).then_moved h6⟩

/-- the invariant for another writer state on the same directory -/
theorem InvAct.change {cfg : Cfg} {d : Dir} {act : Active} {a : Abs} (h : InvAct cfg d act a)
    (act' : Active) (a' : Abs)
    (hh : act'.handle = cnOf cfg) (hp : act'.path = cnOf cfg) (hu : act'.unbuffered = false)
    (hpend : act'.pending = act.pending)
    (hb : ∀ e ∈ ents d, ∀ i, e.1.ifx = some i → Bound cfg act.idx act.stamp i →
      Bound cfg act'.idx act'.stamp i)
    (hcl : a'.closed = a.closed) (hcur : a'.cur = a.cur) (hst : a'.started = true)
    (hs : cfg.rot.isSome → act'.size = a'.size ∧ act'.created = a'.created) :
    InvAct cfg d act' a' where
  file := by
    obtain ⟨f, hf, hd⟩ := h.file
    exact ⟨f, hf, by rw [hpend, hcur]; exact hd⟩
  handle := hh
  path := hp
  unbuf := hu
  names := by
    intro e he
    rcases h.names e he with h1 | ⟨h1, i, h2, h3⟩
    · exact Or.inl h1
    · exact Or.inr ⟨h1, i, h2, hb e he i h2 h3⟩
  closed := by rw [hcl]; exact h.closed
  direct := by
    intro hc
    rw [hpend]
    exact h.direct hc
  started := hst
  size := hs

theorem writeRaw_act (s : St) (act : Active) (b : List Nat) :
    (writeRaw s act b).2.created = act.created ∧ (writeRaw s act b).2.stamp = act.stamp := by
  unfold writeRaw
  split
  · exact ⟨rfl, rfl⟩
  · rename_i c _
    by_cases hfl : act.pending.length + b.length > c
    · by_cases hb : b.length ≥ c
      · simp only [if_pos hfl, if_pos hb, flushAct, and_self]
      · simp only [if_pos hfl, if_neg hb, flushAct, and_self]
    · by_cases hb : b.length ≥ c
      · simp only [if_neg hfl, if_pos hb, and_self]
      · simp only [if_neg hfl, if_neg hb, and_self]

theorem Ext.same {cfg : Cfg} {d d' : Dir} {act act' : Active} (h : Ext cfg d act)
    (hs : Same d d') (hf : ∃ f, d.get (cnOf cfg) = some f)
    (hc : act'.created = act.created) (hst : act'.stamp = act.stamp) : Ext cfg d' act' := by
  constructor
  · intro hr f' hf'
    obtain ⟨f, hf⟩ := hf
    obtain ⟨f'', hf'', -, hcr⟩ := hs _ f hf
    rw [hf'] at hf''
    cases hf''
    rw [hcr, hc]
    exact h.fcreated hr f hf
  · intro hr
    rw [hst, hc]
    exact h.stamp hr

/-- the writer is mounted and consistent with the abstract state `a` -/
def Run (t : Nat) (s : St) (a : Abs) : Prop :=
  ∃ act, s.act = some act ∧ InvAct s.cfg s.dir act a ∧ Ext s.cfg s.dir act ∧ act.stamp ≤ t

theorem wrote_run (s2 : St) (act2 : Active) (a2 : Abs) (b : List Nat) (t : Nat)
    (hi : InvAct s2.cfg s2.dir act2 a2) (he : Ext s2.cfg s2.dir act2) (hst : act2.stamp ≤ t) :
    (wrote s2 act2 b).cfg = s2.cfg ∧
    Run t (wrote s2 act2 b) { a2 with cur := a2.cur ++ b, size := a2.size + b.length } ∧
    Same s2.dir (wrote s2 act2 b).dir := by
  obtain ⟨hcfg, hI⟩ := wrote_inv s2.cfg s2 act2 a2 b t rfl hi hst
  have hsame : Same s2.dir (wrote s2 act2 b).dir := same_writeRaw s2 act2 b
  refine ⟨hcfg, ⟨_, rfl, ?_, ?_, ?_⟩, hsame⟩
  · rw [hcfg]
    exact hI.1
  · rw [hcfg]
    obtain ⟨f, hf, -⟩ := hi.file
    exact he.same hsame ⟨f, hf⟩ (writeRaw_act s2 act2 b).1 (writeRaw_act s2 act2 b).2
  · exact hI.2

theorem writeBuffer_started2 (s : St) (act : Active) (a : Abs) (b : List Nat) (now : Nat)
    (hra : ∀ r, s.cfg.rot = some r →
      r.cleanup = none ∧ (r.naming = .numbers ∨ r.naming = .timestamps))
    (hact : s.act = some act) (hi : InvAct s.cfg s.dir act a) (he : Ext s.cfg s.dir act)
    (hst : act.stamp ≤ now) :
    (writeBuffer s b now noFaults).1.cfg = s.cfg ∧
    Run now (writeBuffer s b now noFaults).1 (Abs.step s.cfg.rot a (.write b) now) ∧
    Moved s.dir (writeBuffer s b now noFaults).1.dir := by
  cases hr : s.cfg.rot with
  | none =>
    rw [writeBuffer_none_rot s act b now hact hr]
    have habs : Abs.step none a (.write b) now =
        { a with cur := a.cur ++ b, size := a.size + b.length } := by
      simp [Abs.step, hi.started]
    rw [habs]
    obtain ⟨h1, h2, h3⟩ := wrote_run s act a b now hi he hst
    exact ⟨h1, h2, h3.moved⟩
  | some r =>
    obtain ⟨hcl, hnm⟩ := hra r hr
    obtain ⟨hsz, hcr⟩ := hi.size (by simp [hr])
    have hne := nec_eq r act a now hsz hcr
    by_cases hnec : rotationNecessary r act now = true
    · obtain ⟨s2, act2, hm, hc2, hi2, he2, hst2, hmv⟩ :=
        mountNext_rot2 s act a r false now hr hcl hnm hi hst (by simp [hnec])
      rw [writeBuffer_some_rot s act b now r s2 act2 hact hr hm]
      have habs : Abs.step (some r) a (.write b) now =
          { a.rotate now with cur := (a.rotate now).cur ++ b,
                              size := (a.rotate now).size + b.length } := by
        simp [Abs.step, hi.started, hne, hnec]
      rw [habs]
      rw [← hc2] at hi2 he2
      obtain ⟨h1, h2, h3⟩ := wrote_run s2 act2 _ b now hi2 he2 hst2
      exact ⟨h1.trans hc2, h2, hmv.then_same h3⟩
    · have hm := mountNext_skip s act r false now noFaults (by simpa using hnec)
      rw [writeBuffer_some_rot s act b now r s act hact hr hm]
      have habs : Abs.step (some r) a (.write b) now =
          { a with cur := a.cur ++ b, size := a.size + b.length } := by
        simp [Abs.step, hi.started, hne, hnec]
      rw [habs]
      obtain ⟨h1, h2, h3⟩ := wrote_run s act a b now hi he hst
      exact ⟨h1, h2, h3.moved⟩

/-! ### `initState` on what earlier runs left -/

theorem openFile_append (s : St) (n : FName) (now : Nat) (f : File) (h : s.dir.get n = some f)
    (ha : s.cfg.append = true) :
    ∃ s', openFile s n now noFaults 0 = (s', true) ∧ s'.cfg = s.cfg ∧ s'.dir = s.dir ∧
      s'.act = s.act := by
  unfold openFile
  by_cases hs : s.cfg.symlink = true <;> simp [hs, hit, noFaults, h, ha]

theorem openFile_trunc (s : St) (n : FName) (now : Nat) (f : File) (h : s.dir.get n = some f)
    (ha : s.cfg.append = false) :
    ∃ s', openFile s n now noFaults 0 = (s', true) ∧ s'.cfg = s.cfg ∧
      s'.dir = s.dir.set n ⟨[], f.created⟩ ∧ s'.act = s.act := by
  unfold openFile
  by_cases hs : s.cfg.symlink = true <;> simp [hs, hit, noFaults, h, ha]

theorem initState_plain (s s1 : St) (now : Nat) (hr : s.cfg.rot = none)
    (ho : openFile s plainN now noFaults 0 = (s1, true)) :
    initState s now noFaults =
      ({ s1 with act := some ⟨plainN, plainN, [], false, 0, 0, 0, 0⟩ }, true) := by
  simp [initState, hr, ho]

theorem initState_numbers_app (s s1 : St) (r : RotCfg) (now : Nat) (hr : s.cfg.rot = some r)
    (hn : r.naming = .numbers) (hcl : r.cleanup = none) (ha : s.cfg.append = true)
    (ho : openFile s curN now noFaults 0 = (s1, true)) (hc1 : s1.cfg = s.cfg) :
    initState s now noFaults =
      ({ s1 with act := some ⟨curN, curN, [], false, idx0 s.dir, 0, fileLen s1.dir curN,
                               createdOr s1.dir curN now⟩ }, true) := by
  have ha1 : s1.cfg.append = true := by rw [hc1]; exact ha
  cases hh : highestIndex s.dir <;>
    simp [initState, hr, hn, ha, ha1, ho, cleanup, hcl, idx0, hh]

theorem initState_timestamps_app (s s1 : St) (r : RotCfg) (now : Nat) (hr : s.cfg.rot = some r)
    (hn : r.naming = .timestamps) (hcl : r.cleanup = none) (ha : s.cfg.append = true)
    (ho : openFile s curN now noFaults 0 = (s1, true)) (hc1 : s1.cfg = s.cfg) :
    initState s now noFaults =
      ({ s1 with act := some ⟨curN, curN, [], false, 0, createdOr s.dir curN now,
                               fileLen s1.dir curN, createdOr s1.dir curN now⟩ }, true) := by
  have ha1 : s1.cfg.append = true := by rw [hc1]; exact ha
  simp [initState, hr, hn, ha, ha1, ho, cleanup, hcl]

theorem initState_numbers_new (s s1 : St) (r : RotCfg) (now : Nat) (d1 : Dir) (rn : Bool)
    (hr : s.cfg.rot = some r)
    (hn : r.naming = .numbers) (hcl : r.cleanup = none) (ha : s.cfg.append = false)
    (hren : s.dir.rename curN ⟨some (.num (idx0 s.dir)), false⟩ = (d1, rn))
    (ho : openFile { s with dir := d1 } curN now noFaults 0 = (s1, true)) (hc1 : s1.cfg = s.cfg) :
    initState s now noFaults =
      ({ s1 with act := some ⟨curN, curN, [], false, if rn then idx0 s.dir + 1 else idx0 s.dir, 0,
                               0, createdOr s1.dir curN now⟩ }, true) := by
  have ha1 : s1.cfg.append = false := by rw [hc1]; exact ha
  have hr0 : hit noFaults.renameF 0 = false := rfl
  unfold idx0 at hren ⊢
  cases hh : highestIndex s.dir <;> rw [hh] at hren <;>
    simp [initState, hr, hn, ha, ha1, hr0, hren, ho, cleanup, hcl, hh]

theorem initState_timestamps_new (s s1 : St) (r : RotCfg) (now : Nat) (d1 : Dir) (rn : Bool)
    (hr : s.cfg.rot = some r)
    (hn : r.naming = .timestamps) (hcl : r.cleanup = none) (ha : s.cfg.append = false)
    (hren : s.dir.rename curN
      ⟨some (collisionFree s.dir (createdOr s.dir curN now)), false⟩ = (d1, rn))
    (ho : openFile { s with dir := d1 } curN now noFaults 0 = (s1, true)) (hc1 : s1.cfg = s.cfg) :
    initState s now noFaults =
      ({ s1 with act := some ⟨curN, curN, [], false, 0, now, 0, createdOr s1.dir curN now⟩ },
        true) := by
  have ha1 : s1.cfg.append = false := by rw [hc1]; exact ha
  have hr0 : hit noFaults.renameF 0 = false := rfl
  simp [initState, hr, hn, ha, ha1, hr0, hren, ho, cleanup, hcl]

/-- abstract effect of the (lazy) initialisation of a new run on what earlier runs left:
    * nothing was ever written: the first file is created;
    * `append`: the current file is continued — same content, same birth time, the size counter
      is the length of the file found;
    * no `append`, rotation: the file found is closed (becomes the newest rotated file) and a new
      empty current file is created — exactly a rotation;
    * no `append`, no rotation: the file is truncated (the documented exception). -/
def reinit (rot : Option RotCfg) (append : Bool) (a : Abs) (now : Nat) : Abs :=
  if a.started then
    if append then { a with size := a.cur.length }
    else match rot with
      | some _ => a.rotate now
      | none => { a with cur := [] }
  else { a with started := true, created := now }

/-- what this file assumes about the rotation configuration -/
def RotA (rot : Option RotCfg) : Prop :=
  ∀ r, rot = some r → r.cleanup = none ∧ (r.naming = .numbers ∨ r.naming = .timestamps)

theorem moved_nil (d' : Dir) : Moved [] d' := by
  intro n f hf
  cases hf

/-- first initialisation ever (empty directory), any `append` -/
theorem initState_empty (s : St) (now : Nat) (hra : RotA s.cfg.rot) (hd : s.dir = []) :
    ∃ s', initState s now noFaults = (s', true) ∧ s'.cfg = s.cfg ∧
      Run now s' ⟨[], [], true, 0, now⟩ ∧ Moved s.dir s'.dir := by
  have hg0 : ∀ n, s.dir.get n = none := by intro n; rw [hd]; rfl
  have hset : ∀ n v, s.dir.set n v = Dir.set [] n v := by intro n v; rw [hd]
  cases hr : s.cfg.rot with
  | none =>
    have hcn : cnOf s.cfg = plainN := by simp [cnOf, hr]
    obtain ⟨s1, ho, hc1, hd1, -⟩ := openFile_new s plainN now (hg0 _)
    refine ⟨_, initState_plain s s1 now hr ho, hc1, ⟨_, rfl, ?_, ?_, Nat.zero_le _⟩, ?_⟩
    · simp only [hc1, hd1, hset]
      have := InvAct.init s.cfg now 0 0 0 (by simp [hr])
      rw [hcn] at this
      exact this
    · simp only [hc1]
      exact ⟨by simp [hr], by simp [hr]⟩
    · rw [hd]; exact moved_nil _
  | some r =>
    obtain ⟨hcl, hnm⟩ := hra r hr
    have hcn : cnOf s.cfg = curN := by simp [cnOf, hr]
    have hinv : ∀ idx stamp, InvAct s.cfg (Dir.set [] curN ⟨[], now⟩)
        ⟨curN, curN, [], false, idx, stamp, 0, now⟩ ⟨[], [], true, 0, now⟩ := by
      intro idx stamp
      have := InvAct.init s.cfg now idx stamp now (fun _ => rfl)
      rw [hcn] at this
      exact this
    have hgs : (Dir.set [] curN ⟨[], now⟩).get curN = some ⟨[], now⟩ :=
      get_set_self ([] : Dir) curN ⟨[], now⟩
    have hcr : createdOr (Dir.set [] curN ⟨[], now⟩) curN now = now := by
      simp [createdOr, hgs]
    have hfl : fileLen (Dir.set [] curN ⟨[], now⟩) curN = 0 := by
      simp [fileLen, hgs]
    have hext : ∀ idx stamp, (r.naming = .timestamps → stamp = now) →
        Ext s.cfg (Dir.set [] curN ⟨[], now⟩) ⟨curN, curN, [], false, idx, stamp, 0, now⟩ := by
      intro idx stamp hs
      constructor
      · intro _ f hf
        rw [hcn, hgs] at hf
        cases hf
        rfl
      · rintro ⟨r', h1, h2⟩
        rw [hr] at h1
        cases h1
        exact hs h2
    cases ha : s.cfg.append with
    | true =>
      obtain ⟨s1, ho, hc1, hd1, -⟩ := openFile_new s curN now (hg0 _)
      rw [hset] at hd1
      rcases hnm with hn | hn
      · refine ⟨_, initState_numbers_app s s1 r now hr hn hcl ha ho hc1, hc1,
          ⟨_, rfl, ?_, ?_, Nat.zero_le _⟩, ?_⟩
        · simp only [hc1, hd1, hcr, hfl]
          exact hinv _ _
        · simp only [hc1, hd1, hcr, hfl]
          exact hext _ _ (by rw [hn]; intro h; cases h)
        · rw [hd]; exact moved_nil _
      · have hc0 : createdOr s.dir curN now = now := by simp [createdOr, hg0]
        refine ⟨_, initState_timestamps_app s s1 r now hr hn hcl ha ho hc1, hc1,
          ⟨_, rfl, ?_, ?_, ?_⟩, ?_⟩
        · simp only [hc1, hd1, hcr, hfl]
          exact hinv _ _
        · simp only [hc1, hd1, hcr, hfl, hc0]
          exact hext _ _ (fun _ => rfl)
        · simp only [hc0]
          exact Nat.le_refl _
        · rw [hd]; exact moved_nil _
    | false =>
      have hren : ∀ tn, s.dir.rename curN tn = (s.dir, false) := by
        intro tn
        simp [Dir.rename, hg0]
      obtain ⟨s1, ho, hc1, hd1, -⟩ := openFile_new { s with dir := s.dir } curN now (hg0 _)
      replace hc1 : s1.cfg = s.cfg := hc1
      replace hd1 : s1.dir = s.dir.set curN ⟨[], now⟩ := hd1
      rw [hset] at hd1
      rcases hnm with hn | hn
      · refine ⟨_, initState_numbers_new s s1 r now s.dir false hr hn hcl ha (hren _) ho hc1, hc1,
          ⟨_, rfl, ?_, ?_, Nat.zero_le _⟩, ?_⟩
        · simp only [hc1, hd1, hcr]
          exact hinv _ _
        · simp only [hc1, hd1, hcr]
          exact hext _ _ (by rw [hn]; intro h; cases h)
        · rw [hd]; exact moved_nil _
      · refine ⟨_, initState_timestamps_new s s1 r now s.dir false hr hn hcl ha (hren _) ho hc1, hc1,
          ⟨_, rfl, ?_, ?_, Nat.le_refl _⟩, ?_⟩
        · simp only [hc1, hd1, hcr]
          exact hinv _ _
        · simp only [hc1, hd1, hcr]
          exact hext _ _ (fun _ => rfl)
        · rw [hd]; exact moved_nil _

theorem reinit_append (rot : Option RotCfg) (a : Abs) (now : Nat) (h : a.started = true) :
    reinit rot true a now = { a with size := a.cur.length } := by
  simp [reinit, h]

theorem reinit_rotate (r : RotCfg) (a : Abs) (now : Nat) (h : a.started = true) :
    reinit (some r) false a now = a.rotate now := by
  simp [reinit, h]

theorem reinit_truncate (a : Abs) (now : Nat) (h : a.started = true) :
    reinit none false a now = { a with cur := [] } := by
  simp [reinit, h]

theorem reinit_first (rot : Option RotCfg) (app : Bool) (a : Abs) (now : Nat)
    (h : a.started = false) : reinit rot app a now = { a with started := true, created := now } := by
  simp [reinit, h]

/-- the name under which a run without `append` preserves the current file `f` it finds:
    `get_highest_index + 1` resp. the collision-free infix for the file's creation time -/
def restartTarget (r : RotCfg) (d : Dir) (f : File) : Infix :=
  match r.naming with
  | .timestamps => collisionFree d f.created
  | _ => .num (idx0 d)

/-- initialisation of a new run on a directory left by earlier runs (`g`: the flushed writer of
    the previous run, kept as a ghost) -/
theorem initState_ghost (s : St) (g : Active) (a : Abs) (now : Nat) (hra : RotA s.cfg.rot)
    (hg : g.pending = []) (hi : InvAct s.cfg s.dir g a) (he : Ext s.cfg s.dir g)
    (hst : g.stamp ≤ now) :
    ∃ s', initState s now noFaults = (s', true) ∧ s'.cfg = s.cfg ∧
      Run now s' (reinit s.cfg.rot s.cfg.append a now) ∧
      (s.cfg.rot.isSome = true ∨ s.cfg.append = true → Moved s.dir s'.dir) ∧
      (s.cfg.append = false → ∀ r, s.cfg.rot = some r → ∃ f, s.dir.get curN = some f ∧
        s.dir.get ⟨some (restartTarget r s.dir f), false⟩ = none ∧
        s'.dir.get ⟨some (restartTarget r s.dir f), false⟩ = some f ∧
        s'.dir.get curN = some ⟨[], now⟩) := by
  obtain ⟨f, hf, hdata⟩ := hi.file
  have hfa : f.data = a.cur := by rw [← hdata, hg]; simp
  cases hr : s.cfg.rot with
  | none =>
    have hcn : cnOf s.cfg = plainN := by simp [cnOf, hr]
    rw [hcn] at hf
    have hbf : ∀ i idx st, ¬ Bound s.cfg idx st i := by
      intro i idx st
      cases i <;> simp [Bound, hr]
    cases ha : s.cfg.append with
    | true =>
      obtain ⟨s1, ho, hc1, hd1, -⟩ := openFile_append s plainN now f hf ha
      refine ⟨_, initState_plain s s1 now hr ho, hc1, ⟨_, rfl, ?_, ?_, Nat.zero_le _⟩, ?_⟩
      · simp only [hc1, hd1]
        rw [reinit_append _ _ _ hi.started]
        exact hi.change _ _ hcn.symm hcn.symm rfl hg.symm
          (fun e _ i _ hb => absurd hb (hbf _ _ _)) rfl rfl hi.started (by simp [hr])
      · simp only [hc1]
        exact ⟨by simp [hr], by simp [hr]⟩
      · refine ⟨?_, fun _ r' h => by cases h⟩
        intro _
        simp only [hd1]
        exact (Same.refl _).moved
    | false =>
      obtain ⟨s1, ho, hc1, hd1, -⟩ := openFile_trunc s plainN now f hf ha
      refine ⟨_, initState_plain s s1 now hr ho, hc1, ⟨_, rfl, ?_, ?_, Nat.zero_le _⟩, ?_⟩
      · simp only [hc1, hd1]
        rw [reinit_truncate _ _ hi.started]
        have h1 := hi.upd (SameRot.set s.cfg s.dir ⟨[], f.created⟩) ⟨[], f.created⟩ [] [] 0
          (get_set_self _ _ _) rfl (fun _ => rfl)
        rw [hcn] at h1
        exact h1.change _ _ hcn.symm hcn.symm rfl rfl
          (fun e _ i _ hb => absurd hb (hbf _ _ _)) rfl rfl hi.started (by simp [hr])
      · simp only [hc1]
        exact ⟨by simp [hr], by simp [hr]⟩
      · exact ⟨fun h => by simp at h, fun _ r' h => by cases h⟩
  | some r =>
    obtain ⟨hcl, hnm⟩ := hra r hr
    have hcn : cnOf s.cfg = curN := by simp [cnOf, hr]
    have hrs : s.cfg.rot.isSome = true := by simp [hr]
    rw [hcn] at hf
    have hfc : f.created = g.created := he.fcreated hrs f (by rw [hcn]; exact hf)
    have hgc : g.created = a.created := (hi.size hrs).2
    have hnum_ts : r.naming = .numbers → ¬ ∃ r', s.cfg.rot = some r' ∧ r'.naming = .timestamps := by
      rintro hn ⟨r', h1, h2⟩
      rw [hr] at h1
      cases h1
      rw [hn] at h2
      cases h2
    have hts_num : r.naming = .timestamps → ¬ ∃ r', s.cfg.rot = some r' ∧ r'.naming = .numbers := by
      rintro hn ⟨r', h1, h2⟩
      rw [hr] at h1
      cases h1
      rw [hn] at h2
      cases h2
    cases ha : s.cfg.append with
    | true =>
      obtain ⟨s1, ho, hc1, hd1, -⟩ := openFile_append s curN now f hf ha
      have hlen : fileLen s.dir curN = f.data.length := by simp [fileLen, hf]
      have hcr0 : createdOr s.dir curN now = f.created := by simp [createdOr, hf]
      have hsz : s.cfg.rot.isSome = true → f.data.length = a.cur.length ∧ f.created = a.created :=
        fun _ => ⟨by rw [hfa], hfc.trans hgc⟩
      have hext : ∀ idx stamp, (r.naming = .timestamps → stamp = f.created) →
          Ext s.cfg s.dir ⟨curN, curN, [], false, idx, stamp, f.data.length, f.created⟩ := by
        intro idx stamp hs
        constructor
        · intro _ f' hf'
          rw [hcn, hf] at hf'
          cases hf'
          rfl
        · rintro ⟨r', h1, h2⟩
          rw [hr] at h1
          cases h1
          exact hs h2
      rcases hnm with hn | hn
      · refine ⟨_, initState_numbers_app s s1 r now hr hn hcl ha ho hc1, hc1,
          ⟨_, rfl, ?_, ?_, Nat.zero_le _⟩, ?_⟩
        · simp only [hc1, hd1, hlen, hcr0]
          rw [reinit_append _ _ _ hi.started]
          refine hi.change _ _ hcn.symm hcn.symm rfl hg.symm ?_ rfl rfl hi.started hsz
          intro e hem i hifx hb
          cases i with
          | num n => exact ⟨hb.1, idx0_gt s.dir e hem n hifx⟩
          | ts k r => exact absurd hb.1 (hnum_ts hn)
          | cur => exact absurd hb id
          | ext n => exact absurd hb id
        · simp only [hc1, hd1, hlen, hcr0]
          exact hext _ _ (by rw [hn]; intro h; cases h)
        · refine ⟨?_, fun h => by cases h⟩
          intro _
          simp only [hd1]
          exact (Same.refl _).moved
      · have hgs : g.stamp = g.created := he.stamp ⟨r, hr, hn⟩
        refine ⟨_, initState_timestamps_app s s1 r now hr hn hcl ha ho hc1, hc1,
          ⟨_, rfl, ?_, ?_, ?_⟩, ?_⟩
        · simp only [hc1, hd1, hlen, hcr0]
          rw [reinit_append _ _ _ hi.started]
          refine hi.change _ _ hcn.symm hcn.symm rfl hg.symm ?_ rfl rfl hi.started hsz
          intro e hem i hifx hb
          cases i with
          | num n => exact absurd hb.1 (hts_num hn)
          | ts k r => exact ⟨hb.1, by rw [hfc, ← hgs]; exact hb.2⟩
          | cur => exact absurd hb id
          | ext n => exact absurd hb id
        · simp only [hc1, hd1, hlen, hcr0]
          exact hext _ _ (fun _ => rfl)
        · simp only [hcr0]
          rw [hfc, ← hgs]
          exact hst
        · refine ⟨?_, fun h => by cases h⟩
          intro _
          simp only [hd1]
          exact (Same.refl _).moved
    | false =>
      -- the ghost with the index `initState` computes
      have hi' : InvAct s.cfg s.dir { g with idx := idx0 s.dir } a := by
        refine hi.change _ _ hi.handle hi.path hi.unbuf rfl ?_ rfl rfl hi.started hi.size
        intro e hem i hifx hb
        cases i with
        | num n => exact ⟨hb.1, idx0_gt s.dir e hem n hifx⟩
        | ts k r => exact hb
        | cur => exact absurd hb id
        | ext n => exact absurd hb id
      obtain ⟨htr, hfresh, hkey, hb⟩ := target_facts hr hnm hi'
      obtain ⟨d1, hren, hg1, hg2, hasc, hmem, hmv, htabs, htget⟩ :=
        rotate_dir0 s.dir f (targetOf r s.dir { g with idx := idx0 s.dir }) now hf htr hfresh hkey
      obtain ⟨s1, ho, hc1, hd1, -⟩ := openFile_new { s with dir := d1 } curN now hg1
      replace hc1 : s1.cfg = s.cfg := hc1
      replace hd1 : s1.dir = d1.set curN ⟨[], now⟩ := hd1
      have hcr : createdOr (d1.set curN ⟨[], now⟩) curN now = now := by simp [createdOr, hg2]
      have hfile : (⟨f.data ++ g.pending, f.created⟩ : File) = f := by
        cases f
        simp [hg]
      have hext : ∀ idx stamp, (r.naming = .timestamps → stamp = now) →
          Ext s.cfg (d1.set curN ⟨[], now⟩) ⟨curN, curN, [], false, idx, stamp, 0, now⟩ := by
        intro idx stamp hs
        constructor
        · intro _ f' hf'
          rw [hcn, hg2] at hf'
          cases hf'
          rfl
        · rintro ⟨r', h1, h2⟩
          rw [hr] at h1
          cases h1
          exact hs h2
      rcases hnm with hn | hn
      · have ht : targetOf r s.dir { g with idx := idx0 s.dir } = .num (idx0 s.dir) := by
          simp [targetOf, hn]
        rw [ht] at hren hasc hmem hb htabs htget
        obtain ⟨hb1, hb2⟩ := hb (idx0 s.dir + 1) 0 (fun _ => Nat.lt_succ_self _)
          (by rw [hn]; intro h; cases h)
        refine ⟨_, initState_numbers_new s s1 r now d1 true hr hn hcl ha hren ho hc1, hc1,
          ⟨_, rfl, ?_, ?_, Nat.zero_le _⟩, ?_⟩
        · simp only [hc1, hd1, if_true, hcr]
          rw [reinit_rotate _ _ _ hi.started]
          have := hi'.rotated hr f hdata (.num (idx0 s.dir)) _ (idx0 s.dir + 1) 0 now hg2
            (by rw [hasc]; simp only [hfile]) hmem hb1 hb2
          rw [hcr] at this
          exact this
        · simp only [hc1, hd1, if_true, hcr]
          exact hext _ _ (by rw [hn]; intro h; cases h)
        · refine ⟨?_, ?_⟩
          · intro _
            simp only [hd1]
            exact hmv
          · intro _ r' hr'
            cases hr'
            have hrt : restartTarget r s.dir f = .num (idx0 s.dir) := by
              simp [restartTarget, hn]
            refine ⟨f, hf, ?_, ?_, ?_⟩
            · rw [hrt]; exact htabs
            · rw [hrt]; simp only [hd1]; exact htget
            · simp only [hd1]; exact hg2
      · have hgs : g.stamp = g.created := he.stamp ⟨r, hr, hn⟩
        have hcr0 : createdOr s.dir curN now = g.stamp := by
          simp [createdOr, hf, hfc, hgs]
        have ht : targetOf r s.dir { g with idx := idx0 s.dir } =
            collisionFree s.dir (createdOr s.dir curN now) := by
          simp [targetOf, hn, hcr0]
        rw [ht] at hren hasc hmem hb htabs htget
        obtain ⟨hb1, hb2⟩ := hb 0 now (by rw [hn]; intro h; cases h) (fun _ => hst)
        refine ⟨_, initState_timestamps_new s s1 r now d1 true hr hn hcl ha hren ho hc1, hc1,
          ⟨_, rfl, ?_, ?_, Nat.le_refl _⟩, ?_⟩
        · simp only [hc1, hd1, hcr]
          rw [reinit_rotate _ _ _ hi.started]
          have := hi'.rotated hr f hdata _ _ 0 now now hg2
            (by rw [hasc]; simp only [hfile]) hmem hb1 hb2
          rw [hcr] at this
          exact this
        · simp only [hc1, hd1, hcr]
          exact hext _ _ (fun _ => rfl)
        · refine ⟨?_, ?_⟩
          · intro _
            simp only [hd1]
            exact hmv
          · intro _ r' hr'
            cases hr'
            have hco : createdOr s.dir curN now = f.created := by simp [createdOr, hf]
            have hrt : restartTarget r s.dir f = collisionFree s.dir f.created := by
              simp [restartTarget, hn]
            rw [hco] at htabs htget
            refine ⟨f, hf, ?_, ?_, ?_⟩
            · rw [hrt]; exact htabs
            · rw [hrt]; simp only [hd1]; exact htget
            · simp only [hd1]; exact hg2

/-! ### the multi-run machine -/

theorem Moved.trans {d d' d'' : Dir} (h1 : Moved d d') (h2 : Moved d' d'') : Moved d d'' := by
  intro n f hf
  rcases h1 n f hf with ⟨f', hf', hp⟩ | ⟨hn, n', hn', f', hf', hp⟩
  · rcases h2 n f' hf' with ⟨f'', hf'', hp'⟩ | ⟨hn2, n'', hn'', f'', hf'', hp'⟩
    · exact Or.inl ⟨f'', hf'', hp.trans hp'⟩
    · refine Or.inr ⟨hn2, n'', ?_, f'', hf'', hp.trans hp'⟩
      cases hg : d.get n'' with
      | none => rfl
      | some g =>
        exfalso
        rcases h1 n'' g hg with ⟨g', hg', -⟩ | ⟨hc, -⟩
        · rw [hn''] at hg'
          cases hg'
        · rw [hc, ← hn2, hf'] at hn''
          cases hn''
  · have hne : n' ≠ curN := by
      intro e
      rw [e, ← hn, hf] at hn'
      cases hn'
    rcases h2 n' f' hf' with ⟨f'', hf'', hp'⟩ | ⟨hn2, -⟩
    · exact Or.inr ⟨hn, n', hn', f'', hf'', hp.trans hp'⟩
    · exact absurd hn2 hne

/-- abstract state of a sequence of runs: the abstract log, whether the current process has
    mounted its writer, and the `append` setting of the current run -/
structure MAbs where
  abs : Abs
  live : Bool
  append : Bool

def MAbs.step (rot : Option RotCfg) (m : MAbs) (op : Op) (now : Nat) : MAbs :=
  match op with
  | .write b =>
    ⟨Abs.step rot (if m.live then m.abs else reinit rot m.append m.abs now) (.write b) now, true,
      m.append⟩
  | .rotate => if m.live then { m with abs := Abs.step rot m.abs .rotate now } else m
  | .restart c => ⟨m.abs, false, c.append⟩
  | _ => m

def MAbs.run (rot : Option RotCfg) (m : MAbs) (ops : List (Op × Nat × Faults)) : MAbs :=
  ops.foldl (fun m o => m.step rot o.1 o.2.1) m

/-- between a restart and the next write: nothing on disk yet, or what the (flushed) writer `g`
    of the previous run left -/
def Ghost (t : Nat) (s : St) (a : Abs) : Prop :=
  (s.dir = [] ∧ a = Abs.init) ∨
  ∃ g : Active, g.pending = [] ∧ InvAct s.cfg s.dir g a ∧ Ext s.cfg s.dir g ∧ g.stamp ≤ t

def MInv (rot : Option RotCfg) (t : Nat) (s : St) (m : MAbs) : Prop :=
  s.cfg.rot = rot ∧ s.cfg.append = m.append ∧
  ((m.live = true ∧ Run t s m.abs) ∨ (m.live = false ∧ s.act = none ∧ Ghost t s m.abs))

def Allowed (rot : Option RotCfg) (op : Op) : Prop :=
  op.plain = true ∨ ∃ c, op = .restart c ∧ c.rot = rot

def isRestart : Op → Bool
  | .restart _ => true
  | _ => false

def endsRun : Op → Bool
  | .flush | .shutdown | .restart _ => true
  | _ => false

/-- nothing is left in the `BufWriter` -/
def Flushed (s : St) : Prop := ∀ act, s.act = some act → act.pending = []

theorem flushed_after (s : St) (op : Op) (now : Nat) (fl : Faults) (h : endsRun op = true) :
    Flushed (step s op now fl).1 := by
  intro act hact
  cases op with
  | flush =>
    cases ha : s.act with
    | none => simp [step, ha] at hact
    | some a =>
      simp [step, ha, flushAct] at hact
      rw [← hact]
  | shutdown =>
    cases ha : s.act with
    | none => simp [step, ha] at hact
    | some a =>
      simp [step, ha, flushAct] at hact
      rw [← hact]
  | restart c => simp [step] at hact
  | write b => cases h
  | rotate => cases h
  | reset c => cases h
  | extRename => cases h
  | extRemove => cases h
  | reopen => cases h

theorem cnOf_congr {cfg cfg' : Cfg} (h : cfg'.rot = cfg.rot) : cnOf cfg' = cnOf cfg := by
  unfold cnOf
  rw [h]

theorem bound_congr {cfg cfg' : Cfg} (h : cfg'.rot = cfg.rot) (idx st : Nat) (i : Infix) :
    Bound cfg' idx st i ↔ Bound cfg idx st i := by
  cases i <;> simp [Bound, h]

/-- a flushed writer state stays consistent when only `append`/`cap`/`symlink` change -/
theorem InvAct.recfg {cfg cfg' : Cfg} {d : Dir} {act : Active} {a : Abs} (h : InvAct cfg d act a)
    (hr : cfg'.rot = cfg.rot) (hp : act.pending = []) : InvAct cfg' d act a where
  file := by rw [cnOf_congr hr]; exact h.file
  handle := by rw [cnOf_congr hr]; exact h.handle
  path := by rw [cnOf_congr hr]; exact h.path
  unbuf := h.unbuf
  names := by
    intro e he
    rw [cnOf_congr hr]
    rcases h.names e he with h1 | ⟨h1, i, h2, h3⟩
    · exact Or.inl h1
    · exact Or.inr ⟨h1, i, h2, (bound_congr hr _ _ _).2 h3⟩
  closed := h.closed
  direct := fun _ => hp
  started := h.started
  size := by rw [hr]; exact h.size

theorem Ext.recfg {cfg cfg' : Cfg} {d : Dir} {act : Active} (h : Ext cfg d act)
    (hr : cfg'.rot = cfg.rot) : Ext cfg' d act where
  fcreated := by rw [hr, cnOf_congr hr]; exact h.fcreated
  stamp := by rw [hr]; exact h.stamp

theorem Ghost.mono {t t' : Nat} {s : St} {a : Abs} (h : Ghost t s a) (ht : t ≤ t') : Ghost t' s a := by
  rcases h with h | ⟨g, h1, h2, h3, h4⟩
  · exact Or.inl h
  · exact Or.inr ⟨g, h1, h2, h3, Nat.le_trans h4 ht⟩

theorem Run.mono {t t' : Nat} {s : St} {a : Abs} (h : Run t s a) (ht : t ≤ t') : Run t' s a := by
  obtain ⟨act, h1, h2, h3, h4⟩ := h
  exact ⟨act, h1, h2, h3, Nat.le_trans h4 ht⟩

/-- a write when the writer is not mounted: `initState`, then the ordinary write -/
theorem write_unmounted (rot : Option RotCfg) (hra : RotA rot) (s : St) (a : Abs) (t : Nat)
    (b : List Nat) (now : Nat) (hrot : s.cfg.rot = rot) (hnone : s.act = none)
    (hg : Ghost t s a) (ht : t ≤ now) :
    (writeBuffer s b now noFaults).1.cfg = s.cfg ∧
    Run now (writeBuffer s b now noFaults).1
      (Abs.step rot (reinit rot s.cfg.append a now) (.write b) now) ∧
    (rot.isSome = true ∨ s.cfg.append = true → Moved s.dir (writeBuffer s b now noFaults).1.dir) := by
  have hra' : RotA s.cfg.rot := by rw [hrot]; exact hra
  rcases hg with ⟨hd, ha⟩ | ⟨g, hgp, hI, hE, hst⟩
  · subst ha
    obtain ⟨s1, hin, hc1, ⟨act1, ha1, hI1, hE1, hst1⟩, hmv1⟩ := initState_empty s now hra' hd
    rw [writeBuffer_init s s1 act1 b now hnone hin ha1]
    have hre : reinit rot s.cfg.append Abs.init now = ⟨[], [], true, 0, now⟩ := by
      rw [reinit_first _ _ _ _ rfl]
      rfl
    rw [hre]
    obtain ⟨h1, h2, h3⟩ := writeBuffer_started2 s1 act1 _ b now (by rw [hc1]; exact hra') ha1 hI1 hE1 hst1
    rw [hc1, hrot] at h2
    exact ⟨h1.trans hc1, h2, fun _ => hmv1.trans h3⟩
  · obtain ⟨s1, hin, hc1, ⟨act1, ha1, hI1, hE1, hst1⟩, hmv1, -⟩ :=
      initState_ghost s g a now hra' hgp hI hE (Nat.le_trans hst ht)
    rw [writeBuffer_init s s1 act1 b now hnone hin ha1]
    obtain ⟨h1, h2, h3⟩ := writeBuffer_started2 s1 act1 _ b now (by rw [hc1]; exact hra') ha1 hI1 hE1 hst1
    rw [hc1, hrot] at h2
    rw [hrot] at hmv1
    exact ⟨h1.trans hc1, h2, fun h => (hmv1 h).trans h3⟩

/-- one operation of a multi-run history -/
theorem mstep_inv (rot : Option RotCfg) (hra : RotA rot) (s : St) (m : MAbs) (t : Nat) (op : Op)
    (now : Nat) (hi : MInv rot t s m) (hop : Allowed rot op)
    (hfl : isRestart op = true → Flushed s) (ht : op.usesClock = true → t ≤ now) :
    MInv rot (if op.usesClock then now else t) (step s op now noFaults).1 (m.step rot op now) ∧
    (rot.isSome = true ∨ s.cfg.append = true → Moved s.dir (step s op now noFaults).1.dir) := by
  obtain ⟨hrot, happ, hi⟩ := hi
  have hra' : RotA s.cfg.rot := by rw [hrot]; exact hra
  have hsame : Moved s.dir s.dir := (Same.refl _).moved
  cases op with
  | write b =>
    have ht := ht rfl
    simp only [Op.usesClock, if_true, step, MAbs.step]
    rcases hi with ⟨hl, act, hact, hI, hE, hst⟩ | ⟨hl, hnone, hg⟩
    · obtain ⟨h1, h2, h3⟩ := writeBuffer_started2 s act m.abs b now hra' hact hI hE
        (Nat.le_trans hst ht)
      rw [hrot] at h2
      refine ⟨⟨by rw [h1]; exact hrot, by rw [h1]; exact happ, Or.inl ⟨rfl, ?_⟩⟩, fun _ => h3⟩
      simp only [hl, if_true]
      exact h2
    · obtain ⟨h1, h2, h3⟩ := write_unmounted rot hra s m.abs t b now hrot hnone hg ht
      refine ⟨⟨by rw [h1]; exact hrot, by rw [h1]; exact happ, Or.inl ⟨rfl, ?_⟩⟩, h3⟩
      simp only [hl, Bool.false_eq_true, if_false]
      rw [← happ]
      exact h2
  | rotate =>
    have ht := ht rfl
    simp only [Op.usesClock, if_true, MAbs.step]
    rcases hi with ⟨hl, act, hact, hI, hE, hst⟩ | ⟨hl, hnone, hg⟩
    · simp only [hl, if_true]
      cases hr : s.cfg.rot with
      | none =>
        have hs : step s .rotate now noFaults = (s, .ok) := by simp [step, hact, hr]
        have habs : Abs.step rot m.abs .rotate now = m.abs := by
          rw [← hrot, hr]
          rfl
        rw [hs, habs]
        exact ⟨⟨hrot, happ, Or.inl ⟨rfl, act, hact, hI, hE, Nat.le_trans hst ht⟩⟩, fun _ => hsame⟩
      | some r =>
        obtain ⟨hcl, hnm⟩ := hra' r hr
        obtain ⟨s2, act2, hm, hc2, hi2, he2, hst2, hmv⟩ :=
          mountNext_rot2 s act m.abs r true now hr hcl hnm hI (Nat.le_trans hst ht) rfl
        have hs : (step s .rotate now noFaults).1 = { s2 with act := some act2 } := by
          simp [step, hact, hr, hm]
        have habs : Abs.step rot m.abs .rotate now = m.abs.rotate now := by
          rw [← hrot, hr]
          simp [Abs.step, hI.started]
        rw [hs, habs]
        refine ⟨⟨by simp only [hc2]; exact hrot, by simp only [hc2]; exact happ,
          Or.inl ⟨rfl, act2, rfl, ?_, ?_, hst2⟩⟩, fun _ => hmv⟩
        · simp only [hc2]; exact hi2
        · simp only [hc2]; exact he2
    · have hs : step s .rotate now noFaults = (s, .ok) := by simp [step, hnone]
      simp only [hl, Bool.false_eq_true, if_false]
      rw [hs]
      exact ⟨⟨hrot, happ, Or.inr ⟨hl, hnone, hg.mono ht⟩⟩, fun _ => hsame⟩
  | flush | shutdown =>
    simp only [Op.usesClock, Bool.false_eq_true, if_false, MAbs.step]
    rcases hi with ⟨hl, act, hact, hI, hE, hst⟩ | ⟨hl, hnone, hg⟩
    · obtain ⟨f, hf, hdata⟩ := hI.file
      have hsm : Same s.dir (s.dir.append act.handle act.pending) := same_append _ _ _
      have hflush : InvAct s.cfg (s.dir.append act.handle act.pending)
          { act with pending := [] } m.abs := by
        have e : s.dir.append act.handle act.pending =
            s.dir.set (cnOf s.cfg) ⟨f.data ++ act.pending, f.created⟩ := by
          rw [hI.handle, append_of_get _ _ f _ hf]
        rw [e]
        have := hI.upd (SameRot.set s.cfg s.dir ⟨f.data ++ act.pending, f.created⟩) _ [] m.abs.cur 0
          (get_set_self _ _ _) (by simp [hdata]) (fun _ => rfl)
        exact this
      have hext : Ext s.cfg (s.dir.append act.handle act.pending) { act with pending := [] } :=
        hE.same hsm ⟨f, hf⟩ rfl rfl
      first
        | (have hs : (step s .flush now noFaults).1 =
              { s with dir := s.dir.append act.handle act.pending,
                       act := some { act with pending := [] } } := by
             simp [step, hact, flushAct]
           rw [hs]
           exact ⟨⟨hrot, happ, Or.inl ⟨hl, _, rfl, hflush, hext, hst⟩⟩, fun _ => hsm.moved⟩)
        | (have hs : (step s .shutdown now noFaults).1 =
              { s with dir := s.dir.append act.handle act.pending,
                       act := some { act with pending := [] } } := by
             simp [step, hact, flushAct]
           rw [hs]
           exact ⟨⟨hrot, happ, Or.inl ⟨hl, _, rfl, hflush, hext, hst⟩⟩, fun _ => hsm.moved⟩)
    · first
        | (have hs : step s .flush now noFaults = (s, .ok) := by simp [step, hnone]
           rw [hs]
           exact ⟨⟨hrot, happ, Or.inr ⟨hl, hnone, hg⟩⟩, fun _ => hsame⟩)
        | (have hs : step s .shutdown now noFaults = (s, .ok) := by simp [step, hnone]
           rw [hs]
           exact ⟨⟨hrot, happ, Or.inr ⟨hl, hnone, hg⟩⟩, fun _ => hsame⟩)
  | restart c =>
    have hc : c.rot = s.cfg.rot := by
      rcases hop with h | ⟨c', h1, h2⟩
      · cases h
      · cases h1
        rw [h2, hrot]
    simp only [Op.usesClock, Bool.false_eq_true, if_false, MAbs.step, step]
    refine ⟨⟨hc.trans hrot, rfl, Or.inr ⟨rfl, rfl, ?_⟩⟩, fun _ => hsame⟩
    rcases hi with ⟨hl, act, hact, hI, hE, hst⟩ | ⟨hl, hnone, hg⟩
    · have hp := hfl rfl act hact
      exact Or.inr ⟨act, hp, hI.recfg hc hp, hE.recfg hc, hst⟩
    · rcases hg with h | ⟨g, h1, h2, h3, h4⟩
      · exact Or.inl h
      · exact Or.inr ⟨g, h1, h2.recfg hc h1, h3.recfg hc, h4⟩
  | reset _ =>
    rcases hop with h | ⟨c', h1, -⟩
    · cases h
    · cases h1
  | extRename =>
    rcases hop with h | ⟨c', h1, -⟩
    · cases h
    · cases h1
  | extRemove =>
    rcases hop with h | ⟨c', h1, -⟩
    · cases h
    · cases h1
  | reopen =>
    rcases hop with h | ⟨c', h1, -⟩
    · cases h
    · cases h1

/-! ### multi-run histories -/

/-- a process that ends has flushed (dropping the handle = shutdown): every restart directly
    follows a flush, a shutdown or another restart, or is the first operation -/
def FlushedBeforeRestart : List (Op × Nat × Faults) → Prop
  | o1 :: o2 :: rest =>
    (isRestart o2.1 = true → endsRun o1.1 = true) ∧ FlushedBeforeRestart (o2 :: rest)
  | _ => True

/-- plain operations and restarts with the same rotation configuration (`append`, `cap`,
    `symlink`, `hasSuffix` may change per run), no faults, monotone clock -/
def MultiRun (rot : Option RotCfg) (ops : List (Op × Nat × Faults)) : Prop :=
  (∀ o ∈ ops, (o.1.plain = true ∨ ∃ c, o.1 = .restart c ∧ c.rot = rot) ∧ o.2.2 = noFaults) ∧
  Monotone ops ∧ FlushedBeforeRestart ops

/-- `P` relates the directories before and after every single step of the run -/
def stepsOK (P : Dir → Dir → Prop) (s : St) : List (Op × Nat × Faults) → Prop
  | [] => True
  | o :: os => P s.dir (step s o.1 o.2.1 o.2.2).1.dir ∧ stepsOK P (step s o.1 o.2.1 o.2.2).1 os

theorem mrun_inv (rot : Option RotCfg) (hra : RotA rot) (ops : List (Op × Nat × Faults)) :
    ∀ (s : St) (m : MAbs) (t : Nat), MInv rot t s m →
      (∀ o ∈ ops, Allowed rot o.1 ∧ o.2.2 = noFaults) → Monotone ops →
      FlushedBeforeRestart ops →
      (∀ o, ops.head? = some o → isRestart o.1 = true → Flushed s) →
      (∀ o ∈ ops, o.1.usesClock = true → t ≤ o.2.1) →
      (∃ t', MInv rot t' (runOps s ops) (MAbs.run rot m ops)) ∧
      (rot.isSome = true → stepsOK Moved s ops) := by
  induction ops with
  | nil => intro s m t hi _ _ _ _ _; exact ⟨⟨t, hi⟩, fun _ => trivial⟩
  | cons o os ih =>
    intro s m t hi hpl hmono hfbr hhead hlb
    obtain ⟨op, now, fl⟩ := o
    obtain ⟨hp, hfl⟩ := hpl (op, now, fl) (List.mem_cons_self)
    simp only at hp hfl
    subst hfl
    obtain ⟨hstep, hmv⟩ := mstep_inv rot hra s m t op now hi hp (hhead _ rfl)
      (hlb (op, now, noFaults) (List.mem_cons_self))
    have hrun : runOps s ((op, now, noFaults) :: os) =
        runOps (step s op now noFaults).1 os := rfl
    have habs : MAbs.run rot m ((op, now, noFaults) :: os) =
        MAbs.run rot (m.step rot op now) os := rfl
    rw [hrun, habs]
    have hmono' : Monotone os := by
      unfold Monotone at hmono ⊢
      by_cases hu : op.usesClock = true
      · rw [List.filter_cons_of_pos (by simpa using hu), List.map_cons, List.pairwise_cons] at hmono
        exact hmono.2
      · rw [List.filter_cons_of_neg (by simpa using hu)] at hmono
        exact hmono
    have hfbr' : FlushedBeforeRestart os := by
      cases os with
      | nil => trivial
      | cons o2 rest => exact hfbr.2
    have hhead' : ∀ o, os.head? = some o → isRestart o.1 = true →
        Flushed (step s op now noFaults).1 := by
      intro o2 ho2 hr2
      cases os with
      | nil => cases ho2
      | cons o2' rest =>
        simp only [List.head?_cons, Option.some.injEq] at ho2
        subst ho2
        exact flushed_after s op now noFaults (hfbr.1 hr2)
    have hlb' : ∀ o ∈ os, o.1.usesClock = true →
        (if op.usesClock then now else t) ≤ o.2.1 := by
      intro o ho hou
      by_cases hu : op.usesClock = true
      · rw [if_pos hu]
        unfold Monotone at hmono
        rw [List.filter_cons_of_pos (by simpa using hu), List.map_cons, List.pairwise_cons] at hmono
        apply hmono.1
        exact List.mem_map_of_mem (List.mem_filter.2 ⟨ho, by simpa using hou⟩)
      · rw [if_neg hu]
        exact hlb o (List.mem_cons_of_mem _ ho) hou
    obtain ⟨h1, h2⟩ := ih _ _ _ hstep (fun o ho => hpl o (List.mem_cons_of_mem _ ho)) hmono' hfbr'
      hhead' hlb'
    exact ⟨h1, fun hr => ⟨hmv (Or.inl hr), h2 hr⟩⟩

/-! ### the stream -/

/-- all bytes of the abstract log in order -/
def flat (a : Abs) : List Nat := a.closed.flatten ++ a.cur

def rec1 : Op → List Nat
  | .write b => b
  | _ => []

theorem written_cons (op : Op) (now : Nat) (fl : Faults) (os : List (Op × Nat × Faults)) :
    written ((op, now, fl) :: os) = rec1 op ++ written os := by
  cases op <;> simp [written, records, rec1]

theorem flat_rotate (a : Abs) (now : Nat) : flat (a.rotate now) = flat a := by
  simp [flat, Abs.rotate]

theorem flat_step (rot : Option RotCfg) (a : Abs) (op : Op) (now : Nat) :
    flat (Abs.step rot a op now) = flat a ++ rec1 op := by
  cases op with
  | write b =>
    simp only [Abs.step, rec1]
    have key : ∀ a0 : Abs, flat
        { (match rot with
            | some r => if absNecessary r a0 now then a0.rotate now else a0
            | none => a0) with
          cur := (match rot with
            | some r => if absNecessary r a0 now then a0.rotate now else a0
            | none => a0).cur ++ b,
          size := (match rot with
            | some r => if absNecessary r a0 now then a0.rotate now else a0
            | none => a0).size + b.length } = flat a0 ++ b := by
      intro a0
      cases rot with
      | none => simp [flat]
      | some r =>
        by_cases hn : absNecessary r a0 now = true
        · simp [hn, flat, Abs.rotate]
        · simp [hn, flat]
    by_cases hs : a.started = true
    · simp only [hs, if_true]
      exact key a
    · simp only [hs]
      exact key _
  | rotate =>
    simp only [Abs.step, rec1, List.append_nil]
    cases rot with
    | none => rfl
    | some r =>
      by_cases hs : a.started = true
      · simp only [hs, if_true]
        exact flat_rotate a now
      · simp only [hs]
        rfl
  | flush => simp [Abs.step, rec1]
  | shutdown => simp [Abs.step, rec1]
  | restart c => simp [Abs.step, rec1]
  | reset c => simp [Abs.step, rec1]
  | extRename => simp [Abs.step, rec1]
  | extRemove => simp [Abs.step, rec1]
  | reopen => simp [Abs.step, rec1]

/-- except for the truncation by a non-rotating writer without `append`, the initialisation of
    a run keeps the stream -/
theorem flat_reinit (rot : Option RotCfg) (app : Bool) (a : Abs) (now : Nat)
    (h : rot.isSome = true ∨ app = true ∨ a.started = false) :
    flat (reinit rot app a now) = flat a := by
  unfold reinit
  by_cases hs : a.started = true
  · simp only [hs, if_true]
    cases app with
    | true => rfl
    | false =>
      cases rot with
      | some r => exact flat_rotate a now
      | none => simp [hs] at h
  · simp only [hs]
    rfl

/-- restarts that may lose the stream: none if the writer rotates, else those without `append` -/
def KeepsStream (rot : Option RotCfg) (ops : List (Op × Nat × Faults)) : Prop :=
  rot.isSome = true ∨ ∀ o ∈ ops, ∀ c, o.1 = .restart c → c.append = true

theorem MAbs.run_flat (rot : Option RotCfg) (ops : List (Op × Nat × Faults))
    (hk : KeepsStream rot ops) : ∀ m : MAbs,
    (rot.isSome = true ∨ m.live = true ∨ m.append = true ∨ m.abs.started = false) →
    flat (MAbs.run rot m ops).abs = flat m.abs ++ written ops := by
  induction ops with
  | nil => intro m _; simp [MAbs.run, written, records]
  | cons o os ih =>
    intro m hm
    obtain ⟨op, now, fl⟩ := o
    have hrun : MAbs.run rot m ((op, now, fl) :: os) = MAbs.run rot (m.step rot op now) os := rfl
    have hk' : KeepsStream rot os := by
      rcases hk with h | h
      · exact Or.inl h
      · exact Or.inr (fun o ho => h o (List.mem_cons_of_mem _ ho))
    rw [hrun, written_cons, ← List.append_assoc]
    have hstep : flat (m.step rot op now).abs = flat m.abs ++ rec1 op ∧
        (rot.isSome = true ∨ (m.step rot op now).live = true ∨ (m.step rot op now).append = true ∨
          (m.step rot op now).abs.started = false) := by
      cases op with
      | write b =>
        refine ⟨?_, Or.inr (Or.inl rfl)⟩
        show flat (Abs.step rot (if m.live then m.abs else reinit rot m.append m.abs now)
          (.write b) now) = flat m.abs ++ b
        rw [flat_step]
        simp only [rec1]
        by_cases hl : m.live = true
        · rw [if_pos hl]
        · rw [if_neg hl, flat_reinit]
          rcases hm with h | h | h | h
          · exact Or.inl h
          · exact absurd h hl
          · exact Or.inr (Or.inl h)
          · exact Or.inr (Or.inr h)
      | rotate =>
        by_cases hl : m.live = true
        · have e : m.step rot .rotate now = { m with abs := Abs.step rot m.abs .rotate now } := by
            simp [MAbs.step, hl]
          rw [e]
          refine ⟨?_, Or.inr (Or.inl hl)⟩
          show flat (Abs.step rot m.abs .rotate now) = flat m.abs ++ rec1 .rotate
          rw [flat_step]
        · have e : m.step rot .rotate now = m := by
            simp [MAbs.step, hl]
          rw [e]
          exact ⟨by simp [rec1], hm⟩
      | restart c =>
        refine ⟨by simp [MAbs.step, rec1], ?_⟩
        rcases hk with h | h
        · exact Or.inl h
        · exact Or.inr (Or.inr (Or.inl (h _ List.mem_cons_self c rfl)))
      | flush => exact ⟨by simp [MAbs.step, rec1], hm⟩
      | shutdown => exact ⟨by simp [MAbs.step, rec1], hm⟩
      | reset c => exact ⟨by simp [MAbs.step, rec1], hm⟩
      | extRename => exact ⟨by simp [MAbs.step, rec1], hm⟩
      | extRemove => exact ⟨by simp [MAbs.step, rec1], hm⟩
      | reopen => exact ⟨by simp [MAbs.step, rec1], hm⟩
    rw [ih hk' _ hstep.2, hstep.1]

/-- what a reader sees is the abstract stream -/
theorem MInv.view {rot : Option RotCfg} {t : Nat} {s : St} {m : MAbs} (h : MInv rot t s m) :
    (viewFiles s).flatten = flat m.abs := by
  obtain ⟨-, -, h⟩ := h
  rcases h with ⟨-, act, hact, hI, -, -⟩ | ⟨-, hnone, hg⟩
  · rw [view_of_inv hact hI]
    simp [Abs.files, hI.started, flat]
  · have hv : viewFiles s = parts s.dir := by simp [viewFiles, hnone]
    rw [hv]
    rcases hg with ⟨hd, ha⟩ | ⟨g, hgp, hI, -, -⟩
    · rw [hd, ha]
      rfl
    · obtain ⟨f, -, hdata, hp⟩ := parts_of_inv hI
      rw [hp]
      rw [hgp] at hdata
      simp [flat, ← hdata]

theorem minv_init (cfg : Cfg) : MInv cfg.rot 0 (init cfg []) ⟨Abs.init, false, cfg.append⟩ :=
  ⟨rfl, rfl, Or.inr ⟨rfl, rfl, Or.inl ⟨rfl, rfl⟩⟩⟩

/-! ### C06: the theorems -/

theorem multiRun_allowed {rot : Option RotCfg} {ops : List (Op × Nat × Faults)}
    (hm : MultiRun rot ops) : ∀ o ∈ ops, Allowed rot o.1 ∧ o.2.2 = noFaults := hm.1

/-- **Refinement of the multi-run machine.** From an empty directory, for any sequence of runs
    (same rotation configuration — none, `numbers` or `timestamps`, any criterion —; `append`,
    capacity, symlink free per run) the concrete state is consistent with the abstract log in
    which a restart + first write acts as `reinit`. -/
theorem multi_run_refines (cfg : Cfg) (hra : RotA cfg.rot) (ops : List (Op × Nat × Faults))
    (hm : MultiRun cfg.rot ops) :
    (∃ t, MInv cfg.rot t (runOps (init cfg []) ops)
      (MAbs.run cfg.rot ⟨Abs.init, false, cfg.append⟩ ops)) ∧
    (cfg.rot.isSome = true → stepsOK Moved (init cfg []) ops) := by
  obtain ⟨h1, h2, h3⟩ := hm
  exact mrun_inv cfg.rot hra ops (init cfg []) _ 0 (minv_init cfg) h1 h2 h3
    (fun _ _ _ act h => by cases h) (fun _ _ _ => Nat.zero_le _)

/-- the stream of a multi-run history, for every configuration in which no run truncates -/
theorem multi_run_stream (cfg : Cfg) (hra : RotA cfg.rot) (ops : List (Op × Nat × Faults))
    (hm : MultiRun cfg.rot ops) (hk : KeepsStream cfg.rot ops) :
    (viewFiles (runOps (init cfg []) ops)).flatten = written ops := by
  obtain ⟨⟨t, hi⟩, -⟩ := multi_run_refines cfg hra ops hm
  rw [hi.view, MAbs.run_flat cfg.rot ops hk _ (Or.inr (Or.inr (Or.inr rfl)))]
  rfl

/-- **C06, stream.** `numbers`/`timestamps`, every criterion, any capacity and any `append` per
    run: every record of every run is on disk (pending buffer included) exactly once, in
    logging order, whatever the sequence of runs. -/
theorem multi_run_stream_A (cfg : Cfg) (r : RotCfg) (hr : cfg.rot = some r)
    (hcl : r.cleanup = none) (hnm : r.naming = .numbers ∨ r.naming = .timestamps)
    (ops : List (Op × Nat × Faults)) (hm : MultiRun cfg.rot ops) :
    (viewFiles (runOps (init cfg []) ops)).flatten = written ops := by
  apply multi_run_stream cfg ?_ ops hm (Or.inl (by simp [hr]))
  intro r' h
  rw [hr] at h
  cases h
  exact ⟨hcl, hnm⟩

/-- the non-rotating writer keeps the stream as long as every new run appends -/
theorem multi_run_stream_plain_append (cfg : Cfg) (hr : cfg.rot = none)
    (ops : List (Op × Nat × Faults)) (hm : MultiRun cfg.rot ops)
    (ha : ∀ o ∈ ops, ∀ c, o.1 = .restart c → c.append = true) :
    (viewFiles (runOps (init cfg []) ops)).flatten = written ops := by
  apply multi_run_stream cfg ?_ ops hm (Or.inr ha)
  intro r' h
  rw [hr] at h
  cases h

/-- between a restart and the next write the view is just the directory -/
theorem viewFiles_unmounted (s : St) (h : s.act = none) : viewFiles s = parts s.dir := by
  simp [viewFiles, h]

/-- with an empty buffer the view is what `readAll` reads -/
theorem view_flushed (s : St) (h : Flushed s) : (viewFiles s).flatten = readAll s.dir := by
  rw [viewFiles_no_pending s h, parts_flatten]

/-! #### the shape of a restart -/

/-- **C06, one restart.** From any reachable flushed state: a restart with configuration `c`
    followed by the first write. The invariant holds again with the abstract state
    `Abs.step rot (reinit rot c.append a now) (.write b) now`, and (with rotation, or with
    `append`) every file is still there, `rCURRENT` possibly under a name that did not exist. -/
theorem restart_write_A (rot : Option RotCfg) (hra : RotA rot) (s : St) (m : MAbs) (t : Nat)
    (c : Cfg) (b : List Nat) (now0 now : Nat) (hi : MInv rot t s m) (hfl : Flushed s)
    (hc : c.rot = rot) (ht : t ≤ now) :
    MInv rot now (step (step s (.restart c) now0 noFaults).1 (.write b) now noFaults).1
      ⟨Abs.step rot (reinit rot c.append m.abs now) (.write b) now, true, c.append⟩ ∧
    (rot.isSome = true ∨ c.append = true →
      Moved s.dir (step (step s (.restart c) now0 noFaults).1 (.write b) now noFaults).1.dir) := by
  obtain ⟨h1, -⟩ := mstep_inv rot hra s m t (.restart c) now0 hi (Or.inr ⟨c, rfl, hc⟩)
    (fun _ => hfl) (fun h => by cases h)
  obtain ⟨h2, h3⟩ := mstep_inv rot hra _ _ t (.write b) now h1 (Or.inl rfl)
    (fun h => by cases h) (fun _ => ht)
  exact ⟨h2, h3⟩

theorem absNecessary_rotate (r : RotCfg) (a : Abs) (now : Nat) :
    absNecessary r (a.rotate now) now = false := by
  unfold absNecessary Abs.rotate
  cases r.maxSize <;> cases r.age <;> simp

/-- without `append` (rotating writer): the file found is closed — it becomes the newest rotated
    file, even if it is empty — and the record starts a new current file -/
theorem restart_noappend_shape (r : RotCfg) (a : Abs) (b : List Nat) (now : Nat)
    (h : a.started = true) :
    Abs.step (some r) (reinit (some r) false a now) (.write b) now =
      ⟨a.closed ++ [a.cur], b, true, b.length, now⟩ := by
  rw [reinit_rotate r a now h]
  have hs : (a.rotate now).started = true := by simp [Abs.rotate, h]
  simp [Abs.step, hs, absNecessary_rotate]
  simp [Abs.rotate]

/-- with `append`: the roll state is taken from the file found (`size` = its length, `created` =
    its birth time); unless the criterion then asks for a rotation, the record is appended to
    the same current file and no file is closed -/
theorem restart_append_shape (rot : Option RotCfg) (a : Abs) (b : List Nat) (now : Nat)
    (h : a.started = true)
    (hn : ∀ r, rot = some r → absNecessary r { a with size := a.cur.length } now = false) :
    Abs.step rot (reinit rot true a now) (.write b) now =
      { a with cur := a.cur ++ b, size := a.cur.length + b.length } := by
  rw [reinit_append rot a now h]
  obtain ⟨cl, cu, st, sz, cr⟩ := a
  simp only at h
  subst h
  cases rot with
  | none => simp [Abs.step]
  | some r =>
    have hn' := hn r rfl
    simp only at hn'
    simp [Abs.step, hn']

/-- nothing on disk yet (restart before any write): the run starts like the first one -/
theorem restart_first_shape (rot : Option RotCfg) (app : Bool) (b : List Nat) (now : Nat) :
    Abs.step rot (reinit rot app Abs.init now) (.write b) now =
      Abs.step rot Abs.init (.write b) now := by
  rw [reinit_first rot app Abs.init now rfl]
  simp [Abs.step, Abs.init]

/-- **C06, the name of the preserved file.** A run without `append` (rotating writer) that finds
    a current file `f` (flushed content = the abstract current file) renames it, during the
    initialisation triggered by its first write, to `restartTarget` — `r(highest index + 1)`
    resp. the collision-free timestamp infix of the file's creation time — a name that did not
    exist, and creates a new empty `rCURRENT`. -/
theorem restart_noappend_names (rot : Option RotCfg) (hra : RotA rot) (s : St) (m : MAbs) (t : Nat)
    (c : Cfg) (now0 now : Nat) (hi : MInv rot t s m) (hfl : Flushed s) (hc : c.rot = rot)
    (ha : c.append = false) (r : RotCfg) (hr : rot = some r) (hs : m.abs.started = true)
    (ht : t ≤ now) :
    ∃ f, s.dir.get curN = some f ∧ f.data = m.abs.cur ∧
      s.dir.get ⟨some (restartTarget r s.dir f), false⟩ = none ∧
      (initState (step s (.restart c) now0 noFaults).1 now noFaults).1.dir.get
        ⟨some (restartTarget r s.dir f), false⟩ = some f ∧
      (initState (step s (.restart c) now0 noFaults).1 now noFaults).1.dir.get curN =
        some ⟨[], now⟩ := by
  obtain ⟨⟨hrot1, -, h1⟩, -⟩ := mstep_inv rot hra s m t (.restart c) now0 hi
    (Or.inr ⟨c, rfl, hc⟩) (fun _ => hfl) (fun h => by cases h)
  rcases h1 with ⟨hl, -⟩ | ⟨-, -, hg⟩
  · cases hl
  rcases hg with ⟨-, ha0⟩ | ⟨g, hgp, hI, hE, hst⟩
  · replace ha0 : m.abs = Abs.init := ha0
    rw [ha0] at hs
    cases hs
  have hra1 : RotA (step s (.restart c) now0 noFaults).1.cfg.rot := by rw [hrot1]; exact hra
  obtain ⟨s', hin, -, -, -, hnames⟩ :=
    initState_ghost _ g m.abs now hra1 hgp hI hE (Nat.le_trans hst ht)
  obtain ⟨f, hf, h1, h2, h3⟩ := hnames ha r (hrot1.trans hr)
  obtain ⟨f', hf', hd⟩ := hI.file
  rw [cnOf_some (hrot1.trans hr)] at hf'
  rw [hf] at hf'
  cases hf'
  rw [hin]
  refine ⟨f, hf, ?_, h1, h2, h3⟩
  replace hd : f.data ++ g.pending = m.abs.cur := hd
  rw [← hd, hgp]
  simp

/-! #### the non-rotating writer -/

theorem closed_nil_of_plain {cfg : Cfg} {d : Dir} {act : Active} {a : Abs}
    (h : InvAct cfg d act a) (hr : cfg.rot = none) : a.closed = [] := by
  rw [← h.closed]
  have : rotatedAsc d = [] := by
    apply List.eq_nil_iff_forall_not_mem.2
    intro e he
    obtain ⟨he1, he2⟩ := (mem_rotatedAsc d e).1 he
    rcases h.names e he1 with h1 | ⟨-, i, -, hb⟩
    · have := isRot_cnOf cfg e.2
      rw [← h1] at this
      rw [this] at he2
      cases he2
    · cases i <;> simp [Bound, hr] at hb
  rw [this]
  rfl

theorem MInv.plain_flat {t : Nat} {s : St} {m : MAbs} (h : MInv none t s m) :
    m.abs.closed = [] ∧ (m.abs.started = false → m.abs.cur = []) := by
  obtain ⟨hr, -, h⟩ := h
  rcases h with ⟨-, act, -, hI, -, -⟩ | ⟨-, -, hg⟩
  · exact ⟨closed_nil_of_plain hI hr, fun hs => by rw [hI.started] at hs; cases hs⟩
  · rcases hg with ⟨-, ha⟩ | ⟨g, -, hI, -, -⟩
    · rw [ha]
      exact ⟨rfl, fun _ => rfl⟩
    · exact ⟨closed_nil_of_plain hI hr, fun hs => by rw [hI.started] at hs; cases hs⟩

/-- **C06, non-rotating writer with `append`:** the stream continues -/
theorem restart_write_plain_append (s : St) (m : MAbs) (t : Nat) (c : Cfg) (b : List Nat)
    (now0 now : Nat) (hi : MInv none t s m) (hfl : Flushed s) (hc : c.rot = none)
    (ha : c.append = true) (ht : t ≤ now) :
    (viewFiles (step (step s (.restart c) now0 noFaults).1 (.write b) now noFaults).1).flatten =
      (viewFiles s).flatten ++ b := by
  obtain ⟨h2, -⟩ := restart_write_A none (fun _ h => by cases h) s m t c b now0 now hi hfl hc ht
  rw [h2.view, hi.view]
  show flat (Abs.step none (reinit none c.append m.abs now) (.write b) now) = _
  rw [flat_step, flat_reinit none c.append m.abs now (Or.inr (Or.inl ha))]
  rfl

/-- **C06, non-rotating writer without `append`** (the documented exception): the first write
    of the new run truncates the file — afterwards the log is exactly that record -/
theorem restart_write_plain_truncate (s : St) (m : MAbs) (t : Nat) (c : Cfg) (b : List Nat)
    (now0 now : Nat) (hi : MInv none t s m) (hfl : Flushed s) (hc : c.rot = none)
    (ha : c.append = false) (ht : t ≤ now) :
    (viewFiles (step (step s (.restart c) now0 noFaults).1 (.write b) now noFaults).1).flatten =
      b := by
  obtain ⟨h2, -⟩ := restart_write_A none (fun _ h => by cases h) s m t c b now0 now hi hfl hc ht
  rw [h2.view]
  show flat (Abs.step none (reinit none c.append m.abs now) (.write b) now) = _
  obtain ⟨hcl, hcur⟩ := hi.plain_flat
  rw [flat_step, ha]
  have : flat (reinit none false m.abs now) = [] := by
    unfold reinit
    by_cases hs : m.abs.started = true
    · simp [hs, flat, hcl]
    · have hs' : m.abs.started = false := by simpa using hs
      simp [hs', flat, hcl, hcur hs']
  rw [this]
  rfl

/-! #### no name is ever reused -/

theorem runOps_append (s : St) (a b : List (Op × Nat × Faults)) :
    runOps s (a ++ b) = runOps (runOps s a) b := by
  simp [runOps, List.foldl_append]

theorem stepsOK_at (P : Dir → Dir → Prop) (pre : List (Op × Nat × Faults)) :
    ∀ (s : St) (o : Op × Nat × Faults) (post : List (Op × Nat × Faults)),
      stepsOK P s (pre ++ o :: post) → P (runOps s pre).dir (runOps s (pre ++ [o])).dir := by
  induction pre with
  | nil =>
    intro s o post h
    exact h.1
  | cons x xs ih =>
    intro s o post h
    exact ih _ o post h.2

/-- **C06, fresh names.** In every step of a multi-run history (rotating writer), every file of
    the directory is still there afterwards with its content extended — under its own name, or,
    only for `rCURRENT`, under a name (plain or gz) that did not exist before: no existing file
    is ever overwritten, truncated or removed, no existing name is ever the target of a rename. -/
theorem fresh_names_A (cfg : Cfg) (r : RotCfg) (hr : cfg.rot = some r)
    (hcl : r.cleanup = none) (hnm : r.naming = .numbers ∨ r.naming = .timestamps)
    (pre : List (Op × Nat × Faults)) (o : Op × Nat × Faults) (post : List (Op × Nat × Faults))
    (hm : MultiRun cfg.rot (pre ++ o :: post)) :
    Moved (runOps (init cfg []) pre).dir (runOps (init cfg []) (pre ++ [o])).dir := by
  have hra : RotA cfg.rot := by
    intro r' h
    rw [hr] at h
    cases h
    exact ⟨hcl, hnm⟩
  obtain ⟨-, h⟩ := multi_run_refines cfg hra _ hm
  exact stepsOK_at Moved pre _ o post (h (by simp [hr]))

/-! ### non-vacuity -/

/-- three restarts: with `append` and direct writes; without `append` (twice in a row, buffer of
    2 bytes, symlink); without `append` on an empty current file (right after a forced rotation,
    same second) -/
def exRuns (r : RotCfg) : List (Op × Nat × Faults) :=
  [(.write [1, 2], 20240131100000, noFaults), (.flush, 0, noFaults),
   (.restart ⟨some r, true, none, false, true⟩, 0, noFaults),
   (.write [3], 20240131100001, noFaults), (.shutdown, 0, noFaults),
   (.restart ⟨some r, false, some 2, true, true⟩, 0, noFaults),
   (.restart ⟨some r, false, some 2, true, true⟩, 0, noFaults),
   (.write [4, 5, 6], 20240131100002, noFaults), (.rotate, 20240131100002, noFaults),
   (.flush, 0, noFaults),
   (.restart ⟨some r, false, some 8, false, true⟩, 0, noFaults),
   (.write [7], 20240131100002, noFaults)]

def exRotN : RotCfg := ⟨some 3, none, .numbers, none⟩
def exRotT : RotCfg := ⟨none, some .minute, .timestamps, none⟩

theorem exRuns_multiRun (r : RotCfg) : MultiRun (some r) (exRuns r) := by
  refine ⟨?_, ?_, ?_⟩
  · intro o ho
    simp only [exRuns, List.mem_cons, List.mem_nil_iff, or_false] at ho
    rcases ho with rfl | rfl | rfl | rfl | rfl | rfl | rfl | rfl | rfl | rfl | rfl | rfl <;>
      first
        | exact ⟨Or.inl rfl, rfl⟩
        | exact ⟨Or.inr ⟨_, rfl, rfl⟩, rfl⟩
  · unfold Monotone exRuns
    simp [Op.usesClock]
  · simp [exRuns, FlushedBeforeRestart, isRestart, endsRun]

example : MultiRun (some exRotN) (exRuns exRotN) ∧ exRotN.cleanup = none ∧
    (exRotN.naming = .numbers ∨ exRotN.naming = .timestamps) :=
  ⟨exRuns_multiRun _, rfl, Or.inl rfl⟩

example : MultiRun (some exRotT) (exRuns exRotT) ∧ exRotT.cleanup = none ∧
    (exRotT.naming = .numbers ∨ exRotT.naming = .timestamps) :=
  ⟨exRuns_multiRun _, rfl, Or.inr rfl⟩

/-- what the theorems say about these histories: the run with `append` continued the file, the
    runs without `append` preserved what they found (`[1,2,3]`, and the empty file) -/
example : viewFiles (runOps (init ⟨some exRotN, false, some 4, false, true⟩ []) (exRuns exRotN)) =
    [[1, 2, 3], [4, 5, 6], [], [7]] := by decide

example : viewFiles (runOps (init ⟨some exRotT, true, some 4, false, true⟩ []) (exRuns exRotT)) =
    [[1, 2, 3], [4, 5, 6], [], [7]] := by decide

/-- the non-rotating writer: a run with `append`, then one without -/
def exPlain : List (Op × Nat × Faults) :=
  [(.write [1, 2], 5, noFaults), (.shutdown, 0, noFaults),
   (.restart ⟨none, true, some 4, false, true⟩, 0, noFaults), (.write [3], 6, noFaults),
   (.flush, 0, noFaults),
   (.restart ⟨none, false, none, false, true⟩, 0, noFaults), (.write [4], 7, noFaults)]

example : MultiRun none exPlain := by
  refine ⟨?_, ?_, ?_⟩
  · intro o ho
    simp only [exPlain, List.mem_cons, List.mem_nil_iff, or_false] at ho
    rcases ho with rfl | rfl | rfl | rfl | rfl | rfl | rfl <;>
      first
        | exact ⟨Or.inl rfl, rfl⟩
        | exact ⟨Or.inr ⟨_, rfl, rfl⟩, rfl⟩
  · unfold Monotone exPlain
    decide
  · simp [exPlain, FlushedBeforeRestart, isRestart, endsRun]

example : viewFiles (runOps (init ⟨none, false, none, false, true⟩ []) (exPlain.take 5)) =
    [[1, 2, 3]] ∧
    viewFiles (runOps (init ⟨none, false, none, false, true⟩ []) exPlain) = [[4]] := by decide

end FV.FlwA
