import FlexiVerif.Model.FlwAbs
/-
  Facts about the abstract rotating log `Abs` and about the reading functions, used by the
  property files C01/C08/C09/C15.
-/
namespace FV.Flw

/-- the byte lists written by a history, in order -/
def records : List (Op × Nat × Faults) → List (List Nat)
  | [] => []
  | (.write b, _, _) :: rest => b :: records rest
  | _ :: rest => records rest

def written (ops : List (Op × Nat × Faults)) : List Nat := (records ops).flatten

theorem records_append (a b : List (Op × Nat × Faults)) : records (a ++ b) = records a ++ records b := by
  induction a with
  | nil => rfl
  | cons o os ih =>
    obtain ⟨op, n, f⟩ := o
    cases op <;> simp [records, ih]

theorem parts_flatten (d : Dir) : (parts d).flatten = readAll d := by
  unfold parts readAll
  cases h1 : d.get ⟨some .cur, false⟩ <;> cases h2 : d.get ⟨none, false⟩ <;>
    simp [List.flatten_append]

/-- with an empty buffer the view is just the files -/
theorem viewFiles_no_pending (s : St) (h : ∀ a, s.act = some a → a.pending = []) :
    viewFiles s = parts s.dir := by
  unfold viewFiles
  cases ha : s.act with
  | none => rfl
  | some a =>
    simp only []
    have hp := h a ha
    cases hr : (parts s.dir).reverse with
    | nil => simp at hr; simp [hr]
    | cons last rest =>
      have : parts s.dir = rest.reverse ++ [last] := by
        have := congrArg List.reverse hr; simpa using this
      simp [hp, this]

/-! ### the abstract machine -/

/-- the groups of records behind the abstract files -/
structure Groups where
  closed : List (List (List Nat))
  cur : List (List Nat)

def Abs.Matches (a : Abs) (g : Groups) : Prop :=
  a.closed = g.closed.map List.flatten ∧ a.cur = g.cur.flatten

theorem Abs.rotate_matches (a : Abs) (g : Groups) (now : Nat) (h : a.Matches g) :
    (a.rotate now).Matches ⟨g.closed ++ [g.cur], []⟩ := by
  obtain ⟨h1, h2⟩ := h
  simp [Abs.rotate, Abs.Matches, h1, h2]

/-- one abstract step either keeps the groups, appends a record to the current group, or closes
    the current group (and possibly then appends) -/
theorem Abs.step_matches (rot : Option RotCfg) (a : Abs) (g : Groups) (o : Op × Nat × Faults)
    (h : a.Matches g) :
    ∃ g', (a.step rot o.1 o.2.1).Matches g' ∧
      g'.closed.flatten ++ g'.cur = g.closed.flatten ++ g.cur ++ records [o] := by
  obtain ⟨op, now, fl⟩ := o
  cases op with
  | write b =>
    simp only [Abs.step, records]
    -- `started`/`created` do not matter for the groups
    have key : ∀ a0 : Abs, a0.Matches g →
        ∃ g', ({ (match rot with
                  | some r => if absNecessary r a0 now then a0.rotate now else a0
                  | none => a0) with
                cur := (match rot with
                  | some r => if absNecessary r a0 now then a0.rotate now else a0
                  | none => a0).cur ++ b,
                size := (match rot with
                  | some r => if absNecessary r a0 now then a0.rotate now else a0
                  | none => a0).size + b.length } : Abs).Matches g' ∧
          g'.closed.flatten ++ g'.cur = g.closed.flatten ++ g.cur ++ [b] := by
      intro a0 h0
      cases rot with
      | none =>
        exact ⟨⟨g.closed, g.cur ++ [b]⟩, ⟨h0.1, by simp [h0.2]⟩, by simp⟩
      | some r =>
        by_cases hn : absNecessary r a0 now = true
        · simp only [hn, if_true]
          have hm := Abs.rotate_matches a0 g now h0
          exact ⟨⟨g.closed ++ [g.cur], [b]⟩, ⟨hm.1, by simp [hm.2]⟩, by simp⟩
        · simp only [hn]
          exact ⟨⟨g.closed, g.cur ++ [b]⟩, ⟨h0.1, by simp [h0.2]⟩, by simp⟩
    by_cases hs : a.started = true
    · simp only [hs, if_true]
      exact key a h
    · simp only [hs]
      exact key _ (by exact ⟨h.1, h.2⟩)
  | rotate =>
    simp only [Abs.step, records]
    cases rot with
    | none => exact ⟨g, h, by simp⟩
    | some r =>
      by_cases hs : a.started = true
      · simp only [hs, if_true]
        exact ⟨_, Abs.rotate_matches a g now h, by simp⟩
      · simp only [hs]
        exact ⟨g, h, by simp⟩
  | flush => exact ⟨g, h, by simp [records]⟩
  | shutdown => exact ⟨g, h, by simp [records]⟩
  | restart c => exact ⟨g, h, by simp [records]⟩
  | reset c => exact ⟨g, h, by simp [records]⟩
  | extRename => exact ⟨g, h, by simp [records]⟩
  | extRemove => exact ⟨g, h, by simp [records]⟩
  | reopen => exact ⟨g, h, by simp [records]⟩

theorem Abs.run_matches (rot : Option RotCfg) (a : Abs) (g : Groups) (ops : List (Op × Nat × Faults))
    (h : a.Matches g) :
    ∃ g', (Abs.run rot a ops).Matches g' ∧
      g'.closed.flatten ++ g'.cur = g.closed.flatten ++ g.cur ++ records ops := by
  induction ops generalizing a g with
  | nil => exact ⟨g, h, by simp [records]⟩
  | cons o os ih =>
    obtain ⟨g1, hm1, he1⟩ := Abs.step_matches rot a g o h
    obtain ⟨g2, hm2, he2⟩ := ih (a.step rot o.1 o.2.1) g1 hm1
    refine ⟨g2, hm2, ?_⟩
    rw [he2, he1]
    have : records (o :: os) = records [o] ++ records os := by
      simpa using records_append [o] os
    rw [this]; simp

theorem rotIf_started (rot : Option RotCfg) (a : Abs) (now : Nat) :
    (match rot with
      | some r => if absNecessary r a now then a.rotate now else a
      | none => a).started = a.started := by
  cases rot with
  | none => rfl
  | some r => simp only []; split <;> simp [Abs.rotate]

theorem Abs.write_started (rot : Option RotCfg) (a : Abs) (b : List Nat) (now : Nat) :
    (a.step rot (.write b) now).started = true := by
  cases rot with
  | none => by_cases hs : a.started = true <;> simp [Abs.step, hs]
  | some r =>
    by_cases hs : a.started = true
    · simp only [Abs.step, hs, if_true]; split <;> simp [Abs.rotate, hs]
    · have hs' : a.started = false := by simpa using hs
      simp only [Abs.step, hs']
      split
      · rename_i h; simp at h
      · split <;> simp [Abs.rotate]

/-- `started` is set by the first write and never reset -/
theorem Abs.step_started (rot : Option RotCfg) (a : Abs) (op : Op) (now : Nat) (h : a.started = true) :
    (a.step rot op now).started = true := by
  cases op with
  | write b => exact Abs.write_started rot a b now
  | rotate =>
    simp only [Abs.step]
    cases rot with
    | none => exact h
    | some r => simp [Abs.rotate, h]
  | _ => exact h

theorem Abs.run_started (rot : Option RotCfg) (a : Abs) (ops : List (Op × Nat × Faults))
    (h : a.started = true) : (Abs.run rot a ops).started = true := by
  induction ops generalizing a with
  | nil => exact h
  | cons o os ih => exact ih _ (Abs.step_started rot a o.1 o.2.1 h)

theorem Abs.run_not_started (rot : Option RotCfg) (a : Abs) (ops : List (Op × Nat × Faults))
    (h : (Abs.run rot a ops).started = false) (hs : a.started = false) : records ops = [] := by
  induction ops generalizing a with
  | nil => rfl
  | cons o os ih =>
    obtain ⟨op, now, fl⟩ := o
    have hrun : Abs.run rot a ((op, now, fl) :: os) = Abs.run rot (a.step rot op now) os := rfl
    rw [hrun] at h
    cases op with
    | write b =>
      exfalso
      have := Abs.run_started rot _ os (Abs.write_started rot a b now)
      rw [this] at h; exact absurd h (by simp)
    | rotate =>
      have e : a.step rot .rotate now = a := by
        simp only [Abs.step]; cases rot <;> simp [hs]
      rw [e] at h
      simp only [records]; exact ih a h hs
    | flush => simp only [records]; exact ih a h hs
    | shutdown => simp only [records]; exact ih a h hs
    | restart c => simp only [records]; exact ih a h hs
    | reset c => simp only [records]; exact ih a h hs
    | extRename => simp only [records]; exact ih a h hs
    | extRemove => simp only [records]; exact ih a h hs
    | reopen => simp only [records]; exact ih a h hs

theorem flatten_map_flatten (gs : List (List (List Nat))) :
    (gs.map List.flatten).flatten = gs.flatten.flatten := by
  induction gs with
  | nil => rfl
  | cons x xs ih => simp [ih]

/-- **Abstract stream theorem**: the abstract files are the records, grouped contiguously, each
    exactly once, in order. -/
theorem Abs.files_groups (rot : Option RotCfg) (ops : List (Op × Nat × Faults)) :
    ∃ groups : List (List (List Nat)),
      groups.flatten = records ops ∧ (Abs.run rot Abs.init ops).files = groups.map List.flatten := by
  obtain ⟨g, hm, he⟩ := Abs.run_matches rot Abs.init ⟨[], []⟩ ops (by simp [Abs.Matches, Abs.init])
  simp only [List.flatten_nil, List.nil_append] at he
  by_cases hs : (Abs.run rot Abs.init ops).started = true
  · refine ⟨g.closed ++ [g.cur], by simpa using he, ?_⟩
    simp [Abs.files, hs, hm.1, hm.2]
  · have hs' : (Abs.run rot Abs.init ops).started = false := by simpa using hs
    have := Abs.run_not_started rot Abs.init ops hs' rfl
    exact ⟨[], by simp [this], by simp [Abs.files, hs']⟩

theorem Abs.files_flatten (rot : Option RotCfg) (ops : List (Op × Nat × Faults)) :
    (Abs.run rot Abs.init ops).files.flatten = written ops := by
  obtain ⟨groups, h1, h2⟩ := Abs.files_groups rot ops
  rw [h2, written, ← h1, flatten_map_flatten]

end FV.Flw
