import FlexiVerif.Lemmas.FlwDirA
/-
  Refinement `Flw ⊑ FlwAbs` for the configurations that write to `rCURRENT`
  (`Naming.numbers`, `Naming.timestamps`) and for the non-rotating writer.
-/
namespace FV.FlwA
open FV.Flw

/-- configurations handled here: no rotation, or rotation with `Naming.numbers` / `Naming.timestamps` -/
def CfgA (cfg : Cfg) : Prop :=
  cfg.append = false ∧ NoCleanup cfg ∧
  ∀ r, cfg.rot = some r → (r.naming = .numbers ∨ r.naming = .timestamps)

/-! ### the invariant -/

abbrev curN : FName := ⟨some .cur, false⟩
abbrev plainN : FName := ⟨none, false⟩

/-- the name of the file being written -/
def cnOf (cfg : Cfg) : FName :=
  match cfg.rot with
  | some _ => curN
  | none => plainN

/-- what the naming state knows about the infix of a rotated file -/
def Bound (cfg : Cfg) (idx stamp : Nat) : Infix → Prop
  | .num n => (∃ r, cfg.rot = some r ∧ r.naming = .numbers) ∧ n < idx
  | .ts k _ => (∃ r, cfg.rot = some r ∧ r.naming = .timestamps) ∧ k ≤ stamp
  | _ => False

structure InvAct (cfg : Cfg) (d : Dir) (act : Active) (a : Abs) : Prop where
  file : ∃ f, d.get (cnOf cfg) = some f ∧ f.data ++ act.pending = a.cur
  handle : act.handle = cnOf cfg
  path : act.path = cnOf cfg
  unbuf : act.unbuffered = false
  names : ∀ e ∈ ents d, e.1 = cnOf cfg ∨
    (e.1.gz = false ∧ ∃ i, e.1.ifx = some i ∧ Bound cfg act.idx act.stamp i)
  closed : (rotatedAsc d).map (·.2.data) = a.closed
  direct : cfg.cap = none → act.pending = []
  started : a.started = true
  size : cfg.rot.isSome → act.size = a.size ∧ act.created = a.created

/-- `t`: a lower bound of all clock readings still to come -/
def Inv (cfg : Cfg) (t : Nat) (s : St) (a : Abs) : Prop :=
  s.cfg = cfg ∧
  match s.act with
  | none => s.dir = [] ∧ a = Abs.init
  | some act => InvAct cfg s.dir act a ∧ act.stamp ≤ t

theorem bound_rotated {cfg : Cfg} {idx stamp : Nat} {i : Infix} (h : Bound cfg idx stamp i) :
    i.rotated = true := by
  cases i <;> simp_all [Bound, Infix.rotated]

theorem isRot_cnOf (cfg : Cfg) (v : File) : isRot (cnOf cfg, v) = false := by
  unfold cnOf isRot
  cases cfg.rot <;> rfl

theorem cnOf_cases (cfg : Cfg) : cnOf cfg = curN ∨ cnOf cfg = plainN := by
  unfold cnOf
  cases cfg.rot <;> simp

/-! ### what a reader sees -/

theorem parts_of_inv {cfg : Cfg} {d : Dir} {act : Active} {a : Abs} (h : InvAct cfg d act a) :
    ∃ f, d.get (cnOf cfg) = some f ∧ f.data ++ act.pending = a.cur ∧
      parts d = a.closed ++ [f.data] := by
  obtain ⟨f, hf, hd⟩ := h.file
  refine ⟨f, hf, hd, ?_⟩
  have hext : extAsc d = [] := by
    apply extAsc_eq_nil
    intro e he n hn
    rcases h.names e he with h1 | ⟨-, i, hi, hb⟩
    · rcases cnOf_cases cfg with h2 | h2 <;> rw [h1, h2] at hn <;> simp at hn
    · rw [hi] at hn
      cases hn
      exact hb
  unfold parts
  rw [hext, h.closed]
  cases hr : cfg.rot with
  | none =>
    have hcn : cnOf cfg = plainN := by simp [cnOf, hr]
    rw [hcn] at hf
    have hcur : d.get ⟨some .cur, false⟩ = none := by
      rw [get_eq_none_iff]
      intro e he
      rcases h.names e he with h1 | ⟨-, i, hi, hb⟩
      · rw [h1, hcn]; simp [plainN]
      · cases i <;> simp [Bound, hr] at hb
    change d.get plainN = some f at hf
    simp [hcur, show d.get ⟨none, false⟩ = some f from hf]
  | some r =>
    have hcn : cnOf cfg = curN := by simp [cnOf, hr]
    rw [hcn] at hf
    have hpl : d.get ⟨none, false⟩ = none := by
      rw [get_eq_none_iff]
      intro e he
      rcases h.names e he with h1 | ⟨-, i, hi, hb⟩
      · rw [h1, hcn]; simp [curN]
      · intro h2
        rw [h2] at hi
        simp at hi
    simp [hpl, show d.get ⟨some .cur, false⟩ = some f from hf]

theorem view_of_inv {cfg : Cfg} {s : St} {act : Active} {a : Abs} (hact : s.act = some act)
    (h : InvAct cfg s.dir act a) : viewFiles s = a.files := by
  obtain ⟨f, -, hd, hp⟩ := parts_of_inv h
  unfold viewFiles Abs.files
  rw [hact]
  simp [hp, h.started, hd]

/-! ### changes of the current file only -/

/-- `d'` differs from `d` at most in the entry of `cn` -/
def SameRot (cn : FName) (d d' : Dir) : Prop :=
  (∀ e ∈ ents d', e.1 = cn ∨ e ∈ ents d) ∧ rotatedAsc d' = rotatedAsc d

theorem SameRot.refl (cn : FName) (d : Dir) : SameRot cn d d :=
  ⟨fun _ he => Or.inr he, rfl⟩

theorem SameRot.trans {cn : FName} {d d' d'' : Dir} (h1 : SameRot cn d d') (h2 : SameRot cn d' d'') :
    SameRot cn d d'' := by
  refine ⟨fun e he => ?_, h2.2.trans h1.2⟩
  rcases h2.1 e he with h | h
  · exact Or.inl h
  · exact h1.1 e h

theorem SameRot.set (cfg : Cfg) (d : Dir) (v : File) : SameRot (cnOf cfg) d (d.set (cnOf cfg) v) := by
  refine ⟨fun e he => ?_, rotatedAsc_set_of_not_rot d _ v (isRot_cnOf cfg)⟩
  rcases (mem_set d _ v e).1 he with h | h
  · left; rw [h]
  · exact Or.inr h.1

theorem append_of_get (d : Dir) (n : FName) (f : File) (b : List Nat) (h : d.get n = some f) :
    d.append n b = d.set n ⟨f.data ++ b, f.created⟩ := by
  simp [Dir.append, h]

theorem InvAct.upd {cfg : Cfg} {d d' : Dir} {act : Active} {a : Abs} (h : InvAct cfg d act a)
    (hsr : SameRot (cnOf cfg) d d') (f' : File) (p' c' : List Nat) (k : Nat)
    (hget : d'.get (cnOf cfg) = some f') (hdata : f'.data ++ p' = c')
    (hdir : cfg.cap = none → p' = []) :
    InvAct cfg d' { act with pending := p', size := act.size + k }
      { a with cur := c', size := a.size + k } where
  file := ⟨f', hget, hdata⟩
  handle := h.handle
  path := h.path
  unbuf := h.unbuf
  names := by
    intro e he
    rcases hsr.1 e he with h1 | h1
    · exact Or.inl h1
    · exact h.names e h1
  closed := by rw [hsr.2]; exact h.closed
  direct := hdir
  started := h.started
  size := by
    intro hr
    obtain ⟨h1, h2⟩ := h.size hr
    exact ⟨by simp [h1], h2⟩

/-! ### `writeRaw`, `flushAct` -/

theorem get_append_self (d : Dir) (n : FName) (f : File) (b : List Nat) (h : d.get n = some f) :
    (d.append n b).get n = some ⟨f.data ++ b, f.created⟩ := by
  rw [append_of_get d n f b h, get_set_self]

/-- the `BufWriter` rule: file content ++ buffer grows by exactly `b` -/
theorem writeRaw_spec (cfg : Cfg) (s : St) (act : Active) (b : List Nat) (f : File)
    (hcfg : s.cfg = cfg) (hh : act.handle = cnOf cfg)
    (hf : s.dir.get (cnOf cfg) = some f) (hu : act.unbuffered = false)
    (hd : cfg.cap = none → act.pending = []) :
    ∃ d' p' f', writeRaw s act b = ({ s with dir := d' }, { act with pending := p' }) ∧
      SameRot (cnOf cfg) s.dir d' ∧ d'.get (cnOf cfg) = some f' ∧
      f'.data ++ p' = f.data ++ act.pending ++ b ∧ (cfg.cap = none → p' = []) := by
  subst hcfg
  obtain ⟨handle, path, pending, unb, idx, stamp, size, created⟩ := act
  simp only at hh hu hd ⊢
  subst hh hu
  unfold writeRaw
  simp only [Bool.false_eq_true, if_false]
  cases hcap : s.cfg.cap with
  | none =>
    refine ⟨s.dir.append (cnOf s.cfg) b, pending, ⟨f.data ++ b, f.created⟩, rfl, ?_, ?_, ?_, ?_⟩
    · rw [append_of_get _ _ f b hf]
      exact SameRot.set s.cfg _ _
    · exact get_append_self _ _ f b hf
    · simp [hd hcap]
    · intro _; exact hd hcap
  | some c =>
    by_cases hfl : pending.length + b.length > c
    · -- the buffer is flushed first
      have hf1 := get_append_self _ _ f pending hf
      have hs1 : SameRot (cnOf s.cfg) s.dir (s.dir.append (cnOf s.cfg) pending) := by
        rw [append_of_get _ _ f _ hf]
        exact SameRot.set s.cfg _ _
      by_cases hb : b.length ≥ c
      · refine ⟨(s.dir.append (cnOf s.cfg) pending).append (cnOf s.cfg) b, [],
          ⟨f.data ++ pending ++ b, f.created⟩, ?_, ?_, ?_, ?_, ?_⟩
        · simp only [if_pos hfl, if_pos hb, flushAct]
        · refine hs1.trans ?_
          rw [append_of_get _ _ _ b hf1]
          exact SameRot.set s.cfg _ _
        · exact get_append_self _ _ _ b hf1
        · simp
        · intro _; rfl
      · refine ⟨s.dir.append (cnOf s.cfg) pending, b, ⟨f.data ++ pending, f.created⟩,
          ?_, hs1, hf1, ?_, ?_⟩
        · simp only [if_pos hfl, if_neg hb, flushAct, List.nil_append]
        · simp
        · intro h; cases h
    · by_cases hb : b.length ≥ c
      · have hp : pending = [] := by
          apply List.eq_nil_of_length_eq_zero
          omega
        subst hp
        refine ⟨s.dir.append (cnOf s.cfg) b, [], ⟨f.data ++ b, f.created⟩, ?_, ?_, ?_, ?_, ?_⟩
        · simp only [if_neg hfl, if_pos hb]
        · rw [append_of_get _ _ f b hf]
          exact SameRot.set s.cfg _ _
        · exact get_append_self _ _ f b hf
        · simp
        · intro _; rfl
      · refine ⟨s.dir, pending ++ b, f, ?_, SameRot.refl _ _, hf, ?_, ?_⟩
        · simp only [if_neg hfl, if_neg hb]
        · simp
        · intro h; cases h

/-! ### rotation: the directory -/

theorem rotatedAsc_set_rot (d : Dir) (n : FName) (v : File) (h : isRot (n, v) = true) :
    rotatedAsc (d.set n v) = insAsc (n, v) (rotatedAsc (d.erase n)) := by
  unfold Dir.set
  rw [rotatedAsc_cons, if_pos h]

/-- rename `rCURRENT` to a fresh name above all others, create a new `rCURRENT`, flush the old
    buffer into the renamed file -/
theorem rotate_dir (d : Dir) (f : File) (ti : Infix) (p : List Nat) (now : Nat)
    (hcur : d.get curN = some f) (hrot : ti.rotated = true)
    (hfresh : ∀ e ∈ ents d, e.1.ifx ≠ some ti)
    (hkey : ∀ e ∈ ents d, ∀ j, e.1.ifx = some j → j.rotated = true → keyLt ti.key j.key = false) :
    ∃ d1, d.rename curN ⟨some ti, false⟩ = (d1, true) ∧ d1.get curN = none ∧
      ((d1.set curN ⟨[], now⟩).append ⟨some ti, false⟩ p).get curN = some ⟨[], now⟩ ∧
      rotatedAsc ((d1.set curN ⟨[], now⟩).append ⟨some ti, false⟩ p) =
        rotatedAsc d ++ [(⟨some ti, false⟩, ⟨f.data ++ p, f.created⟩)] ∧
      (∀ e ∈ ents ((d1.set curN ⟨[], now⟩).append ⟨some ti, false⟩ p),
        e.1 = curN ∨ e.1 = ⟨some ti, false⟩ ∨ e ∈ ents d) := by
  have hne : curN ≠ (⟨some ti, false⟩ : FName) := by
    intro h
    cases h
    simp [Infix.rotated] at hrot
  have hrotN : ∀ v, isRot ((⟨some ti, false⟩ : FName), v) = true := fun v => by simp [isRot, hrot]
  have hnrC : ∀ v, isRot (curN, v) = false := fun v => by simp [isRot, Infix.rotated]
  refine ⟨(d.erase curN).set ⟨some ti, false⟩ f, by simp [Dir.rename, hcur], ?_, ?_⟩
  · rw [get_set_ne _ _ _ _ hne, get_erase_self]
  have hg2 : (((d.erase curN).set ⟨some ti, false⟩ f).set curN ⟨[], now⟩).get ⟨some ti, false⟩ =
      some f := by
    rw [get_set_ne _ _ _ _ hne.symm, get_set_self]
  rw [append_of_get _ _ f p hg2]
  refine ⟨?_, ?_, ?_⟩
  · rw [get_set_ne _ _ _ _ hne, get_set_self]
  · rw [rotatedAsc_set_rot _ _ _ (hrotN _), erase_set_ne _ _ _ _ hne,
      rotatedAsc_set_of_not_rot _ _ _ hnrC, erase_set_self,
      erase_of_not_mem (d.erase curN), rotatedAsc_erase _ _ hnrC]
    · apply insAsc_last _ ti rfl
      intro y hy j hj
      obtain ⟨hy1, hy2⟩ := (mem_rotatedAsc d y).1 hy
      apply hkey y hy1 j hj
      simpa [isRot, hj] using hy2
    · intro e he h
      obtain ⟨he1, -⟩ := (mem_erase d curN e).1 he
      apply hfresh e he1
      rw [h]
  · intro e he
    rcases (mem_set _ _ _ e).1 he with h | ⟨h, -⟩
    · right; left; rw [h]
    rcases (mem_set _ _ _ e).1 h with h | ⟨h, -⟩
    · left; rw [h]
    rcases (mem_set _ _ _ e).1 h with h | ⟨h, -⟩
    · right; left; rw [h]
    right; right
    exact ((mem_erase d curN e).1 h).1

/-! ### the model functions -/

theorem mountNext_skip (s : St) (act : Active) (r : RotCfg) (force : Bool) (now : Nat) (fl : Faults)
    (h : (force || rotationNecessary r act now) = false) :
    mountNext s act r force now fl = (s, act, false) := by
  simp [mountNext, h]

theorem openFile_new (s : St) (n : FName) (now : Nat) (h : s.dir.get n = none) :
    ∃ s', openFile s n now noFaults 0 = (s', true) ∧ s'.cfg = s.cfg ∧
      s'.dir = s.dir.set n ⟨[], now⟩ ∧ s'.act = s.act := by
  unfold openFile
  by_cases hs : s.cfg.symlink = true <;> simp [hs, hit, noFaults, h]

theorem mountNextCore_numbers (s : St) (act : Active) (r : RotCfg) (force : Bool) (now : Nat)
    (hn : r.naming = .numbers) (hcl : r.cleanup = none)
    (h : (force || rotationNecessary r act now) = true)
    (d1 : Dir) (hren : s.dir.rename curN ⟨some (.num act.idx), false⟩ = (d1, true))
    (hh : act.handle = curN) (hget : d1.get curN = none) :
    ∃ s', mountNextCore s act r force now noFaults =
        (s', ⟨curN, curN, [], false, act.idx + 1, act.stamp, 0, createdOr s'.dir curN now⟩, false) ∧
      s'.cfg = s.cfg ∧
      s'.dir = (d1.set curN ⟨[], now⟩).append ⟨some (.num act.idx), false⟩ act.pending := by
  obtain ⟨s2, ho, hc2, hd2, -⟩ := openFile_new { s with dir := d1 } curN now hget
  refine ⟨{ s2 with dir := s2.dir.append ⟨some (.num act.idx), false⟩ act.pending }, ?_, hc2, ?_⟩
  · have hr0 : hit noFaults.renameF 0 = false := rfl
    simp [mountNextCore, h, hn, hr0, hren, hh, ho, flushAct, cleanup, hcl]
  · simp [hd2]

theorem mountNextCore_timestamps (s : St) (act : Active) (r : RotCfg) (force : Bool) (now : Nat)
    (hn : r.naming = .timestamps) (hcl : r.cleanup = none)
    (h : (force || rotationNecessary r act now) = true)
    (d1 : Dir)
    (hren : s.dir.rename curN ⟨some (collisionFree s.dir act.stamp), false⟩ = (d1, true))
    (hh : act.handle = curN) (hget : d1.get curN = none) :
    ∃ s', mountNextCore s act r force now noFaults =
        (s', ⟨curN, curN, [], false, act.idx, now, 0, createdOr s'.dir curN now⟩, false) ∧
      s'.cfg = s.cfg ∧
      s'.dir = (d1.set curN ⟨[], now⟩).append
        ⟨some (collisionFree s.dir act.stamp), false⟩ act.pending := by
  obtain ⟨s2, ho, hc2, hd2, -⟩ := openFile_new { s with dir := d1 } curN now hget
  refine ⟨{ s2 with dir := s2.dir.append ⟨some (collisionFree s.dir act.stamp), false⟩ act.pending },
    ?_, hc2, ?_⟩
  · have hr0 : hit noFaults.renameF 0 = false := rfl
    have hcr : createdOr d1 curN now = now := by simp [createdOr, hget]
    simp [mountNextCore, h, hn, hr0, hren, hh, ho, flushAct, cleanup, hcl, hcr]
  · simp [hd2]

/-! ### rotation preserves the invariant -/

theorem cnOf_some {cfg : Cfg} {r : RotCfg} (hr : cfg.rot = some r) : cnOf cfg = curN := by
  simp [cnOf, hr]

theorem InvAct.rotated {cfg : Cfg} {d : Dir} {act : Active} {a : Abs} {r : RotCfg}
    (hi : InvAct cfg d act a) (hr : cfg.rot = some r) (f : File)
    (hdata : f.data ++ act.pending = a.cur) (ti : Infix) (d3 : Dir) (idx' stamp' now : Nat)
    (hget : d3.get curN = some ⟨[], now⟩)
    (hasc : rotatedAsc d3 =
      rotatedAsc d ++ [(⟨some ti, false⟩, ⟨f.data ++ act.pending, f.created⟩)])
    (hmem : ∀ e ∈ ents d3, e.1 = curN ∨ e.1 = ⟨some ti, false⟩ ∨ e ∈ ents d)
    (hb : Bound cfg idx' stamp' ti)
    (hmono : ∀ i, Bound cfg act.idx act.stamp i → Bound cfg idx' stamp' i) :
    InvAct cfg d3 ⟨curN, curN, [], false, idx', stamp', 0, createdOr d3 curN now⟩
      (a.rotate now) where
  file := by
    rw [cnOf_some hr]
    exact ⟨_, hget, rfl⟩
  handle := (cnOf_some hr).symm
  path := (cnOf_some hr).symm
  unbuf := rfl
  names := by
    intro e he
    rw [cnOf_some hr]
    rcases hmem e he with h | h | h
    · exact Or.inl h
    · right
      rw [h]
      exact ⟨rfl, ti, rfl, hb⟩
    · rcases hi.names e h with h1 | ⟨h1, i, h2, h3⟩
      · left; rw [h1, cnOf_some hr]
      · right
        exact ⟨h1, i, h2, hmono i h3⟩
  closed := by
    rw [hasc]
    simp [hi.closed, Abs.rotate, hdata]
  direct := fun _ => rfl
  started := hi.started
  size := by
    intro _
    simp [Abs.rotate, createdOr, hget]

theorem mountNextCore_rot (cfg : Cfg) (hc : CfgA cfg) (s : St) (act : Active) (a : Abs) (r : RotCfg)
    (force : Bool) (now : Nat) (hcfg : s.cfg = cfg) (hr : cfg.rot = some r)
    (hi : InvAct cfg s.dir act a) (hst : act.stamp ≤ now)
    (h : (force || rotationNecessary r act now) = true) :
    ∃ s' act', mountNextCore s act r force now noFaults = (s', act', false) ∧ s'.cfg = cfg ∧
      InvAct cfg s'.dir act' (a.rotate now) ∧ act'.stamp ≤ now := by
  obtain ⟨-, hcl, hnm⟩ := hc
  have hcl := hcl r hr
  obtain ⟨f, hf, hdata⟩ := hi.file
  have hcn := cnOf_some hr
  rw [hcn] at hf
  have hh : act.handle = curN := by rw [hi.handle, hcn]
  rcases hnm r hr with hn | hn
  · -- numbers
    have hnt : ¬ ∃ r', cfg.rot = some r' ∧ r'.naming = .timestamps := by
      rintro ⟨r', h1, h2⟩
      rw [hr] at h1
      cases h1
      rw [hn] at h2
      cases h2
    obtain ⟨d1, hren, hg1, hg3, hasc, hmem⟩ := rotate_dir s.dir f (.num act.idx) act.pending now hf rfl
      (by
        intro e he
        rcases hi.names e he with h1 | ⟨-, i, h2, h3⟩
        · rw [h1, hcn]; simp
        · rw [h2]
          cases i <;> simp [Bound] at h3 ⊢
          omega)
      (by
        intro e he j hj hjr
        rcases hi.names e he with h1 | ⟨-, i, h2, h3⟩
        · rw [h1, hcn] at hj
          cases hj
          simp [Infix.rotated] at hjr
        · rw [h2] at hj
          cases hj
          cases j with
          | num n =>
            apply keyLt_false_of_lt
            simp only [Infix.key]
            exact h3.2
          | ts k r => exact absurd h3.1 hnt
          | cur => exact absurd h3 id
          | ext n => exact absurd h3 id)
    obtain ⟨s', he, hc', hd'⟩ := mountNextCore_numbers s act r force now hn hcl h d1 hren hh hg1
    refine ⟨s', _, he, hc'.trans hcfg, ?_, hst⟩
    rw [hd'] at *
    apply hi.rotated hr f hdata (.num act.idx) _ _ _ now hg3 hasc hmem
    · exact ⟨⟨r, hr, hn⟩, Nat.lt_succ_self _⟩
    · intro i hb
      cases i with
      | num n => exact ⟨hb.1, Nat.lt_succ_of_lt hb.2⟩
      | ts k r => exact absurd hb.1 hnt
      | cur => exact absurd hb id
      | ext n => exact absurd hb id
  · -- timestamps
    have hnn : ¬ ∃ r', cfg.rot = some r' ∧ r'.naming = .numbers := by
      rintro ⟨r', h1, h2⟩
      rw [hr] at h1
      cases h1
      rw [hn] at h2
      cases h2
    obtain ⟨rr, hti⟩ := collisionFree_ts s.dir act.stamp
    obtain ⟨d1, hren, hg1, hg3, hasc, hmem⟩ := rotate_dir s.dir f (collisionFree s.dir act.stamp)
      act.pending now hf (by rw [hti]; rfl)
      (fun e he => collisionFree_fresh s.dir act.stamp e he)
      (by
        intro e he j hj hjr
        rcases hi.names e he with h1 | ⟨-, i, h2, h3⟩
        · rw [h1, hcn] at hj
          cases hj
          simp [Infix.rotated] at hjr
        · rw [h2] at hj
          cases hj
          cases j with
          | num n => exact absurd h3.1 hnn
          | ts k r => exact collisionFree_key s.dir act.stamp e he k r h2 h3.2
          | cur => exact absurd h3 id
          | ext n => exact absurd h3 id)
    obtain ⟨s', he, hc', hd'⟩ := mountNextCore_timestamps s act r force now hn hcl h d1 hren hh hg1
    refine ⟨s', _, he, hc'.trans hcfg, ?_, Nat.le_refl _⟩
    rw [hd'] at *
    apply hi.rotated hr f hdata (collisionFree s.dir act.stamp) _ _ _ now hg3 hasc hmem
    · rw [hti]
      exact ⟨⟨r, hr, hn⟩, hst⟩
    · intro i hb
      cases i with
      | num n => exact absurd hb.1 hnn
      | ts k r => exact ⟨hb.1, Nat.le_trans hb.2 hst⟩
      | cur => exact absurd hb id
      | ext n => exact absurd hb id

/-- the flush of the `BufWriter` preserves the invariant -/
theorem InvAct.flush {cfg : Cfg} {d : Dir} {act : Active} {a : Abs} (hi : InvAct cfg d act a) :
    InvAct cfg (d.append act.handle act.pending) { act with pending := [] } a := by
  obtain ⟨f, hf, hdata⟩ := hi.file
  have e : d.append act.handle act.pending =
      d.set (cnOf cfg) ⟨f.data ++ act.pending, f.created⟩ := by
    rw [hi.handle, append_of_get _ _ f _ hf]
  rw [e]
  have := hi.upd (SameRot.set cfg d ⟨f.data ++ act.pending, f.created⟩) _ [] a.cur 0
    (get_set_self _ _ _) (by simp [hdata]) (fun _ => rfl)
  exact this

/-- the rotation as the code does it: flush into `rCURRENT`, then rename it -/
theorem mountNext_rot (cfg : Cfg) (hc : CfgA cfg) (s : St) (act : Active) (a : Abs) (r : RotCfg)
    (force : Bool) (now : Nat) (hcfg : s.cfg = cfg) (hr : cfg.rot = some r)
    (hi : InvAct cfg s.dir act a) (hst : act.stamp ≤ now)
    (h : (force || rotationNecessary r act now) = true) :
    ∃ s' act', mountNext s act r force now noFaults = (s', act', false) ∧ s'.cfg = cfg ∧
      InvAct cfg s'.dir act' (a.rotate now) ∧ act'.stamp ≤ now := by
  rw [mountNext_due s act r force now noFaults h]
  exact mountNextCore_rot cfg hc { s with dir := s.dir.append act.handle act.pending }
    { act with pending := [] } a r true now hcfg hr hi.flush hst rfl

/-! ### initialisation -/

theorem InvAct.init (cfg : Cfg) (now idx stamp cr : Nat) (hcr : cfg.rot.isSome → cr = now) :
    InvAct cfg (Dir.set [] (cnOf cfg) ⟨[], now⟩) ⟨cnOf cfg, cnOf cfg, [], false, idx, stamp, 0, cr⟩
      ⟨[], [], true, 0, now⟩ where
  file := ⟨_, get_set_self _ _ _, rfl⟩
  handle := rfl
  path := rfl
  unbuf := rfl
  names := by
    intro e he
    rcases (mem_set _ _ _ e).1 he with h | ⟨h, -⟩
    · left; rw [h]
    · simp [ents] at h
  closed := by
    have := rotatedAsc_set_of_not_rot ([] : Dir) (cnOf cfg) ⟨[], now⟩ (isRot_cnOf cfg)
    rw [this]
    rfl
  direct := fun _ => rfl
  started := rfl
  size := fun h => ⟨rfl, hcr h⟩

theorem initState_spec (cfg : Cfg) (hc : CfgA cfg) (s : St) (now : Nat) (hcfg : s.cfg = cfg)
    (hd : s.dir = []) :
    ∃ s' act, initState s now noFaults = (s', true) ∧ s'.cfg = cfg ∧ s'.act = some act ∧
      InvAct cfg s'.dir act ⟨[], [], true, 0, now⟩ ∧ act.stamp ≤ now := by
  obtain ⟨happ, hcl, hnm⟩ := hc
  obtain ⟨dir, scfg, sact, link, linkGen, errs, extCtr, archived⟩ := s
  simp only at hcfg hd
  subst hcfg hd
  have hr0 : hit noFaults.renameF 0 = false := rfl
  cases hr : scfg.rot with
  | none =>
    have hcn : cnOf scfg = plainN := by simp [cnOf, hr]
    obtain ⟨s1, ho, hc1, hd1, -⟩ := openFile_new
      ⟨[], scfg, sact, link, linkGen, errs, extCtr, archived⟩ plainN now rfl
    refine ⟨{ s1 with act := some ⟨plainN, plainN, [], false, 0, 0, 0, 0⟩ }, _, ?_, hc1, rfl, ?_,
      Nat.zero_le _⟩
    · simp [initState, hr, ho]
    · simp only [hd1]
      have := InvAct.init scfg now 0 0 0 (by simp [hr])
      rw [hcn] at this
      exact this
  | some r =>
    have hcn : cnOf scfg = curN := by simp [cnOf, hr]
    have hcl := hcl r hr
    obtain ⟨s1, ho, hc1, hd1, -⟩ := openFile_new
      ⟨[], scfg, sact, link, linkGen, errs, extCtr, archived⟩ curN now rfl
    have hcr : createdOr (Dir.set [] curN ⟨[], now⟩) curN now = now := by
      have := get_set_self ([] : Dir) curN ⟨[], now⟩
      simp [createdOr, this]
    simp only at hd1 hc1
    have happ1 : s1.cfg.append = false := by rw [hc1]; exact happ
    rcases hnm r hr with hn | hn
    · refine ⟨{ s1 with act := some ⟨curN, curN, [], false, 0, 0, 0, now⟩ }, _, ?_, hc1, rfl, ?_,
        Nat.zero_le _⟩
      · simp [initState, hr, hn, happ, happ1, hr0, highestIndex, rename_nil, ho, cleanup, hcl, hd1, hcr]
      · simp only [hd1]
        have := InvAct.init scfg now 0 0 now (fun _ => rfl)
        rw [hcn] at this
        exact this
    · refine ⟨{ s1 with act := some ⟨curN, curN, [], false, 0, now, 0, now⟩ }, _, ?_, hc1, rfl, ?_,
        Nat.le_refl _⟩
      · simp [initState, hr, hn, happ, happ1, hr0, rename_nil, ho, cleanup, hcl, hd1, hcr]
      · simp only [hd1]
        have := InvAct.init scfg now 0 now now (fun _ => rfl)
        rw [hcn] at this
        exact this

/-! ### `writeBuffer` -/

/-- the result of `writeBuffer` once the writer is mounted on `(s2, act2)` -/
def wrote (s2 : St) (act2 : Active) (b : List Nat) : St :=
  { (writeRaw s2 act2 b).1 with
    act := some { (writeRaw s2 act2 b).2 with size := (writeRaw s2 act2 b).2.size + b.length } }

theorem writeBuffer_none_rot (s : St) (act : Active) (b : List Nat) (now : Nat)
    (hact : s.act = some act) (hrot : s.cfg.rot = none) :
    writeBuffer s b now noFaults = (wrote s act b, .ok) := by
  have hw0 : hit noFaults.writeF 0 = false := rfl
  simp [writeBuffer, hact, hrot, hw0, wrote]

theorem writeBuffer_some_rot (s : St) (act : Active) (b : List Nat) (now : Nat) (r : RotCfg)
    (s2 : St) (act2 : Active)
    (hact : s.act = some act) (hrot : s.cfg.rot = some r)
    (hm : mountNext s act r false now noFaults = (s2, act2, false)) :
    writeBuffer s b now noFaults = (wrote s2 act2 b, .ok) := by
  have hw0 : hit noFaults.writeF 0 = false := rfl
  simp [writeBuffer, hact, hrot, hw0, hm, wrote]

theorem writeBuffer_init (s s1 : St) (act1 : Active) (b : List Nat) (now : Nat)
    (hact : s.act = none) (hi : initState s now noFaults = (s1, true)) (h1 : s1.act = some act1) :
    writeBuffer s b now noFaults = writeBuffer s1 b now noFaults := by
  simp [writeBuffer, hact, hi, h1]

theorem wrote_inv (cfg : Cfg) (s2 : St) (act2 : Active) (a2 : Abs) (b : List Nat) (t : Nat)
    (hcfg : s2.cfg = cfg) (hi : InvAct cfg s2.dir act2 a2) (hst : act2.stamp ≤ t) :
    Inv cfg t (wrote s2 act2 b) { a2 with cur := a2.cur ++ b, size := a2.size + b.length } := by
  obtain ⟨f, hf, hdata⟩ := hi.file
  obtain ⟨d', p', f', hw, hsr, hget, hd, hdir⟩ :=
    writeRaw_spec cfg s2 act2 b f hcfg hi.handle hf hi.unbuf hi.direct
  unfold wrote
  rw [hw]
  refine ⟨hcfg, ?_⟩
  refine ⟨hi.upd hsr f' p' _ b.length hget ?_ hdir, hst⟩
  rw [hd, hdata]

theorem nec_eq (r : RotCfg) (act : Active) (a : Abs) (now : Nat) (h1 : act.size = a.size)
    (h2 : act.created = a.created) : absNecessary r a now = rotationNecessary r act now := by
  unfold absNecessary rotationNecessary
  rw [h1, h2]
  rfl

theorem writeBuffer_started (cfg : Cfg) (hc : CfgA cfg) (s : St) (act : Active) (a : Abs)
    (b : List Nat) (now : Nat) (hcfg : s.cfg = cfg) (hact : s.act = some act)
    (hi : InvAct cfg s.dir act a) (hst : act.stamp ≤ now) :
    Inv cfg now (writeBuffer s b now noFaults).1 (Abs.step cfg.rot a (.write b) now) := by
  cases hr : cfg.rot with
  | none =>
    rw [writeBuffer_none_rot s act b now hact (by rw [hcfg]; exact hr)]
    have habs : Abs.step none a (.write b) now =
        { a with cur := a.cur ++ b, size := a.size + b.length } := by
      simp [Abs.step, hi.started]
    rw [habs]
    exact wrote_inv cfg s act a b now hcfg hi hst
  | some r =>
    obtain ⟨hsz, hcr⟩ := hi.size (by simp [hr])
    have hne := nec_eq r act a now hsz hcr
    by_cases hnec : rotationNecessary r act now = true
    · obtain ⟨s2, act2, hm, hc2, hi2, hst2⟩ :=
        mountNext_rot cfg hc s act a r false now hcfg hr hi hst (by simp [hnec])
      rw [writeBuffer_some_rot s act b now r s2 act2 hact (by rw [hcfg]; exact hr) hm]
      have habs : Abs.step (some r) a (.write b) now =
          { a.rotate now with cur := (a.rotate now).cur ++ b,
                              size := (a.rotate now).size + b.length } := by
        simp [Abs.step, hi.started, hne, hnec]
      rw [habs]
      exact wrote_inv cfg s2 act2 _ b now hc2 hi2 hst2
    · have hm := mountNext_skip s act r false now noFaults (by simpa using hnec)
      rw [writeBuffer_some_rot s act b now r s act hact (by rw [hcfg]; exact hr) hm]
      have habs : Abs.step (some r) a (.write b) now =
          { a with cur := a.cur ++ b, size := a.size + b.length } := by
        simp [Abs.step, hi.started, hne, hnec]
      rw [habs]
      exact wrote_inv cfg s act a b now hcfg hi hst

/-! ### one operation -/

theorem step_inv (cfg : Cfg) (hc : CfgA cfg) (s : St) (a : Abs) (t : Nat) (op : Op) (now : Nat)
    (hi : Inv cfg t s a) (hp : op.plain = true) (ht : op.usesClock = true → t ≤ now) :
    Inv cfg (if op.usesClock then now else t) (step s op now noFaults).1
      (Abs.step cfg.rot a op now) := by
  obtain ⟨hcfg, hi⟩ := hi
  cases op with
  | write b =>
    have ht := ht rfl
    simp only [Op.usesClock, if_true, step]
    cases hact : s.act with
    | none =>
      rw [hact] at hi
      obtain ⟨hd, ha⟩ := hi
      subst ha
      obtain ⟨s1, act1, hin, hc1, ha1, hi1, hst1⟩ := initState_spec cfg hc s now hcfg hd
      rw [writeBuffer_init s s1 act1 b now hact hin ha1]
      have habs : Abs.step cfg.rot Abs.init (.write b) now =
          Abs.step cfg.rot ⟨[], [], true, 0, now⟩ (.write b) now := by
        simp [Abs.step, Abs.init]
      rw [habs]
      exact writeBuffer_started cfg hc s1 act1 _ b now hc1 ha1 hi1 hst1
    | some act =>
      rw [hact] at hi
      exact writeBuffer_started cfg hc s act a b now hcfg hact hi.1 (Nat.le_trans hi.2 ht)
  | rotate =>
    have ht := ht rfl
    simp only [Op.usesClock, if_true]
    cases hact : s.act with
    | none =>
      rw [hact] at hi
      obtain ⟨hd, ha⟩ := hi
      subst ha
      have hs : step s .rotate now noFaults = (s, .ok) := by simp [step, hact]
      have habs : Abs.step cfg.rot Abs.init .rotate now = Abs.init := by
        unfold Abs.step
        cases cfg.rot <;> rfl
      rw [hs, habs]
      refine ⟨hcfg, ?_⟩
      rw [hact]
      exact ⟨hd, rfl⟩
    | some act =>
      rw [hact] at hi
      obtain ⟨hi, hst⟩ := hi
      cases hr : cfg.rot with
      | none =>
        have hs : step s .rotate now noFaults = (s, .ok) := by
          simp [step, hact, hcfg, hr]
        rw [hs]
        refine ⟨hcfg, ?_⟩
        rw [hact]
        exact ⟨hi, Nat.le_trans hst ht⟩
      | some r =>
        obtain ⟨s2, act2, hm, hc2, hi2, hst2⟩ :=
          mountNext_rot cfg hc s act a r true now hcfg hr hi (Nat.le_trans hst ht) rfl
        have hs : (step s .rotate now noFaults).1 = { s2 with act := some act2 } := by
          simp [step, hact, hcfg, hr, hm]
        have habs : Abs.step (some r) a .rotate now = a.rotate now := by
          simp [Abs.step, hi.started]
        rw [hs, habs]
        exact ⟨hc2, hi2, hst2⟩
  | flush | shutdown =>
    simp only [Op.usesClock, Bool.false_eq_true, if_false]
    cases hact : s.act with
    | none =>
      rw [hact] at hi
      first
        | (have hs : step s .flush now noFaults = (s, .ok) := by simp [step, hact]
           rw [hs]; refine ⟨hcfg, ?_⟩; rw [hact]; exact hi)
        | (have hs : step s .shutdown now noFaults = (s, .ok) := by simp [step, hact]
           rw [hs]; refine ⟨hcfg, ?_⟩; rw [hact]; exact hi)
    | some act =>
      rw [hact] at hi
      obtain ⟨hi, hst⟩ := hi
      obtain ⟨f, hf, hdata⟩ := hi.file
      have hflush : InvAct cfg (s.dir.append act.handle act.pending) { act with pending := [] } a :=
        hi.flush
      first
        | (have hs : (step s .flush now noFaults).1 =
              { s with dir := s.dir.append act.handle act.pending,
                       act := some { act with pending := [] } } := by
             simp [step, hact, flushAct]
           rw [hs]; exact ⟨hcfg, hflush, hst⟩)
        | (have hs : (step s .shutdown now noFaults).1 =
              { s with dir := s.dir.append act.handle act.pending,
                       act := some { act with pending := [] } } := by
             simp [step, hact, flushAct]
           rw [hs]; exact ⟨hcfg, hflush, hst⟩)
  | restart _ => cases hp
  | reset _ => cases hp
  | extRename => cases hp
  | extRemove => cases hp
  | reopen => cases hp

/-! ### histories -/

theorem run_inv (cfg : Cfg) (hc : CfgA cfg) (ops : List (Op × Nat × Faults)) :
    ∀ (s : St) (a : Abs) (t : Nat), Inv cfg t s a →
      (∀ o ∈ ops, o.1.plain = true ∧ o.2.2 = noFaults) → Monotone ops →
      (∀ o ∈ ops, o.1.usesClock = true → t ≤ o.2.1) →
      ∃ t', Inv cfg t' (runOps s ops) (Abs.run cfg.rot a ops) := by
  induction ops with
  | nil => intro s a t hi _ _ _; exact ⟨t, hi⟩
  | cons o os ih =>
    intro s a t hi hpl hmono hlb
    obtain ⟨op, now, fl⟩ := o
    obtain ⟨hp, hfl⟩ := hpl (op, now, fl) (List.mem_cons_self)
    simp only at hp hfl
    subst hfl
    have hstep := step_inv cfg hc s a t op now hi hp (hlb (op, now, noFaults) (List.mem_cons_self))
    have hrun : runOps s ((op, now, noFaults) :: os) =
        runOps (step s op now noFaults).1 os := rfl
    have habs : Abs.run cfg.rot a ((op, now, noFaults) :: os) =
        Abs.run cfg.rot (Abs.step cfg.rot a op now) os := rfl
    rw [hrun, habs]
    apply ih _ _ _ hstep (fun o ho => hpl o (List.mem_cons_of_mem _ ho))
    · -- the rest of the history is monotone
      unfold Monotone at hmono ⊢
      by_cases hu : op.usesClock = true
      · rw [List.filter_cons_of_pos (by simpa using hu), List.map_cons, List.pairwise_cons] at hmono
        exact hmono.2
      · rw [List.filter_cons_of_neg (by simpa using hu)] at hmono
        exact hmono
    · intro o ho hou
      by_cases hu : op.usesClock = true
      · rw [if_pos hu]
        unfold Monotone at hmono
        rw [List.filter_cons_of_pos (by simpa using hu), List.map_cons, List.pairwise_cons] at hmono
        apply hmono.1
        exact List.mem_map_of_mem (List.mem_filter.2 ⟨ho, by simpa using hou⟩)
      · rw [if_neg hu]
        exact hlb o (List.mem_cons_of_mem _ ho) hou

/-- **Refinement** for the non-rotating writer and for the namings that write to `rCURRENT`:
    for every criterion, buffer capacity, symlink/suffix setting and plain history the files on
    disk (reading order, pending buffer included) are the abstract closed files followed by the
    abstract current file, and the rotation bookkeeping (`size`, `created`) agrees. -/
theorem refines_A (cfg : Cfg) (hc : CfgA cfg) (ops : List (Op × Nat × Faults))
    (hp : PlainHistory ops) : Refines cfg ops := by
  obtain ⟨hpl, hmono⟩ := hp
  have h0 : Inv cfg 0 (init cfg []) Abs.init := ⟨rfl, rfl, rfl⟩
  obtain ⟨t', hcfg, hi⟩ := run_inv cfg hc ops (init cfg []) Abs.init 0 h0 hpl hmono
    (fun _ _ _ => Nat.zero_le _)
  unfold Refines
  simp only
  generalize runOps (init cfg []) ops = s at hcfg hi
  generalize Abs.run cfg.rot Abs.init ops = a at hi
  cases hact : s.act with
  | none =>
    rw [hact] at hi
    obtain ⟨hd, ha⟩ := hi
    subst ha
    refine ⟨?_, ?_, fun _ => rfl⟩
    · unfold viewFiles
      rw [hact, hd]
      rfl
    · intro act h
      cases h
  | some act =>
    rw [hact] at hi
    obtain ⟨hi, -⟩ := hi
    refine ⟨view_of_inv hact hi, ?_, ?_⟩
    · intro act' h
      cases h
      exact ⟨hi.started, hi.size⟩
    · intro h
      cases h

/-! ### non-vacuity -/

/-- `Naming.timestamps`, size-or-age criterion, buffer of 4 bytes, symlink: writes (one empty, one
    larger than the buffer), three forced rotations within one second (base name, then
    `.restart-0000`, `.restart-0001`), an age rotation (`.restart-0002`), a flush and a shutdown
    with unrelated clock readings -/
example : CfgA ⟨some ⟨some 3, some .minute, .timestamps, none⟩, false, some 4, true, true⟩ ∧
    PlainHistory [(.write [1, 2], 20240131100000, noFaults), (.rotate, 20240131100000, noFaults),
      (.write [], 20240131100000, noFaults), (.rotate, 20240131100000, noFaults),
      (.rotate, 20240131100000, noFaults), (.write [3, 4, 5, 6, 7], 20240131100001, noFaults),
      (.flush, 0, noFaults), (.write [8], 20240131100130, noFaults),
      (.shutdown, 5, noFaults)] := by
  refine ⟨⟨rfl, ?_, ?_⟩, ?_, ?_⟩
  · intro r h; cases h; rfl
  · intro r h; cases h; exact Or.inr rfl
  · decide
  · unfold Monotone; decide

/-- … and what the theorem says about it -/
example : viewFiles (runOps
    (init ⟨some ⟨some 3, some .minute, .timestamps, none⟩, false, some 4, true, true⟩ [])
    [(.write [1, 2], 20240131100000, noFaults), (.rotate, 20240131100000, noFaults),
      (.write [], 20240131100000, noFaults), (.rotate, 20240131100000, noFaults),
      (.rotate, 20240131100000, noFaults), (.write [3, 4, 5, 6, 7], 20240131100001, noFaults),
      (.flush, 0, noFaults), (.write [8], 20240131100130, noFaults),
      (.shutdown, 5, noFaults)]) = [[1, 2], [], [], [3, 4, 5, 6, 7], [8]] := by decide

/-- `Naming.numbers`, direct writes -/
example : CfgA ⟨some ⟨some 1, none, .numbers, none⟩, false, none, false, true⟩ ∧
    PlainHistory [(.rotate, 7, noFaults), (.write [1, 2], 7, noFaults),
      (.write [3], 9, noFaults), (.rotate, 9, noFaults)] := by
  refine ⟨⟨rfl, ?_, ?_⟩, ?_, ?_⟩
  · intro r h; cases h; rfl
  · intro r h; cases h; exact Or.inl rfl
  · decide
  · unfold Monotone; decide

/-- no rotation, `BufWriter` of capacity 0 -/
example : CfgA ⟨none, false, some 0, false, true⟩ ∧
    PlainHistory [(.write [1], 3, noFaults), (.flush, 0, noFaults), (.write [], 3, noFaults)] := by
  refine ⟨⟨rfl, ?_, ?_⟩, ?_, ?_⟩
  · intro r h; cases h
  · intro r h; cases h
  · decide
  · unfold Monotone; decide

end FV.FlwA
