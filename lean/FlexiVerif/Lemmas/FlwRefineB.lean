/-
  Refinement `Flw ⊑ FlwAbs` for the *direct* namings (`Naming.numbersDirect`,
  `Naming.timestampsDirect`): the current file carries a rotated-style name.
-/
import FlexiVerif.Lemmas.FlwDirB
namespace FV.FlwB
open FV.Flw

/-- configurations handled here: rotation with `Naming.numbersDirect` / `Naming.timestampsDirect` -/
def CfgB (cfg : Cfg) : Prop :=
  cfg.append = false ∧ NoCleanup cfg ∧
  ∃ r, cfg.rot = some r ∧ (r.naming = .numbersDirect ∨ r.naming = .timestampsDirect)

/-! ### the model functions without faults -/

/-- opening a file that does not exist yet -/
theorem openFile_new (s : St) (n : FName) (now : Nat) (h : s.dir.get n = none) :
    (openFile s n now noFaults 0).2 = true ∧
    (openFile s n now noFaults 0).1.cfg = s.cfg ∧
    (openFile s n now noFaults 0).1.act = s.act ∧
    (openFile s n now noFaults 0).1.dir = s.dir.set n ⟨[], now⟩ := by
  unfold openFile
  cases s.cfg.symlink <;> simp [hit, noFaults, h]

theorem openFile_ok (s : St) (n : FName) (now : Nat) :
    openFile s n now noFaults 0 = ((openFile s n now noFaults 0).1, true) := by
  unfold openFile
  cases s.cfg.symlink <;> simp [hit, noFaults]

/-- what `mountNextCore` does once the new infix is chosen (no faults, no cleanup) -/
def rotTail (s : St) (a : Active) (i : Infix) (now : Nat) : St × Active × Bool :=
  let n : FName := ⟨some i, false⟩
  let s1 := (openFile s n now noFaults 0).1
  let d := s1.dir.append a.handle a.pending
  ({ s1 with dir := d },
   { a with pending := [], handle := n, path := n, unbuffered := false, size := 0,
            created := createdOr d n now }, false)

theorem mountNext_skip (s : St) (a : Active) (r : RotCfg) (force : Bool) (now : Nat) (fl : Faults)
    (h : (force || rotationNecessary r a now) = false) :
    mountNext s a r force now fl = (s, a, false) := by
  unfold mountNext
  simp [h]

theorem mountNextCore_skip (s : St) (a : Active) (r : RotCfg) (force : Bool) (now : Nat) (fl : Faults)
    (h : (force || rotationNecessary r a now) = false) :
    mountNextCore s a r force now fl = (s, a, false) := by
  unfold mountNextCore
  simp [h]

theorem mountNextCore_nD (s : St) (a : Active) (r : RotCfg) (force : Bool) (now : Nat)
    (hn : r.naming = .numbersDirect) (hc : r.cleanup = none)
    (h : (force || rotationNecessary r a now) = true) :
    mountNextCore s a r force now noFaults =
      rotTail s { a with idx := a.idx + 1 } (.num (a.idx + 1)) now := by
  unfold mountNextCore
  simp only [h, hn]
  rw [openFile_ok]
  simp [rotTail, flushAct, cleanup, hc]

theorem mountNextCore_tD (s : St) (a : Active) (r : RotCfg) (force : Bool) (now : Nat)
    (hn : r.naming = .timestampsDirect) (hc : r.cleanup = none)
    (h : (force || rotationNecessary r a now) = true) :
    mountNextCore s a r force now noFaults =
      rotTail s { a with stamp := now } (collisionFree s.dir now) now := by
  unfold mountNextCore
  simp only [h, hn]
  rw [openFile_ok]
  simp [rotTail, flushAct, cleanup, hc]

/-! ### the invariant (naming-independent part) -/

/-- the writer is active: the directory consists of plain rotated-style files with pairwise
    different keys, the handle is the one with the largest key; in key order the files are the
    abstract closed files followed by the current one (whose abstract content includes the
    pending bytes) -/
structure ActInv (cap : Option Nat) (d : List (FName × File)) (act : Active) (a : Abs) :
    Prop where
  started : a.started = true
  dir : ∃ pre f, DirIs d (pre ++ [(act.handle, f)]) ∧ pre.map (·.2.data) = a.closed ∧
    f.data ++ act.pending = a.cur
  unbuf : act.unbuffered = false
  direct : cap = none → act.pending = []
  size : act.size = a.size
  created : act.created = a.created

theorem DirIs.append_last {d pre : List (FName × File)} {n : FName} {f : File}
    (h : DirIs d (pre ++ [(n, f)])) (b : List Nat) :
    DirIs (Dir.append d n b) (pre ++ [(n, { f with data := f.data ++ b })]) :=
  DirIs.append (L2 := []) h b

theorem flushAct_inv {cap : Option Nat} (s : St) (act : Active) (a : Abs)
    (h : ActInv cap s.dir act a) :
    (flushAct s act).1.cfg = s.cfg ∧ (flushAct s act).2.handle = act.handle ∧
    (flushAct s act).2.idx = act.idx ∧
    ActInv cap (flushAct s act).1.dir (flushAct s act).2 a := by
  obtain ⟨pre, f, hd, hpre, hcur⟩ := h.dir
  refine ⟨rfl, rfl, rfl, h.started, ⟨pre, _, hd.append_last act.pending, hpre, ?_⟩, h.unbuf,
    fun _ => rfl, h.size, h.created⟩
  simpa [flushAct] using hcur

theorem writeRaw_inv (s : St) (act : Active) (a : Abs) (b : List Nat)
    (h : ActInv s.cfg.cap s.dir act a) :
    (writeRaw s act b).1.cfg = s.cfg ∧ (writeRaw s act b).2.handle = act.handle ∧
    (writeRaw s act b).2.idx = act.idx ∧
    ActInv s.cfg.cap (writeRaw s act b).1.dir
      { (writeRaw s act b).2 with size := (writeRaw s act b).2.size + b.length }
      { a with cur := a.cur ++ b, size := a.size + b.length } := by
  obtain ⟨pre, f, hd, hpre, hcur⟩ := h.dir
  have hst := h.started
  have hsz := h.size
  have hcr := h.created
  have hub := h.unbuf
  cases hcap : s.cfg.cap with
  | none =>
    have e : writeRaw s act b = ({ s with dir := s.dir.append act.handle b }, act) := by
      simp [writeRaw, hub, hcap]
    have hp : act.pending = [] := h.direct hcap
    rw [e]
    refine ⟨rfl, rfl, rfl, hst, ⟨pre, _, hd.append_last b, hpre, ?_⟩, hub, fun _ => hp, ?_, hcr⟩
    · simp [hp] at hcur ⊢; rw [hcur]
    · simp [hsz]
  | some c =>
    by_cases h1 : act.pending.length + b.length > c <;> by_cases h2 : b.length ≥ c
    · have e : writeRaw s act b =
          ({ s with dir := (s.dir.append act.handle act.pending).append act.handle b },
           { act with pending := [] }) := by
        simp [writeRaw, hub, hcap, h1, h2, flushAct]
      rw [e]
      refine ⟨rfl, rfl, rfl, hst,
        ⟨pre, _, (hd.append_last act.pending).append_last b, hpre, ?_⟩, hub,
        fun hh => (by cases hh), ?_, hcr⟩
      · simp [← hcur]
      · simp [hsz]
    · have e : writeRaw s act b =
          ({ s with dir := s.dir.append act.handle act.pending },
           { act with pending := [] ++ b }) := by
        simp [writeRaw, hub, hcap, h1, h2, flushAct]
      rw [e]
      refine ⟨rfl, rfl, rfl, hst,
        ⟨pre, _, hd.append_last act.pending, hpre, ?_⟩, hub, fun hh => (by cases hh),
        ?_, hcr⟩
      · simp [← hcur]
      · simp [hsz]
    · have e : writeRaw s act b = ({ s with dir := s.dir.append act.handle b }, act) := by
        simp [writeRaw, hub, hcap, h1, h2]
      rw [e]
      have hp : act.pending = [] := by
        have : act.pending.length = 0 := by omega
        exact List.length_eq_zero_iff.1 this
      refine ⟨rfl, rfl, rfl, hst,
        ⟨pre, _, hd.append_last b, hpre, ?_⟩, hub, fun hh => (by cases hh),
        ?_, hcr⟩
      · simp [hp] at hcur ⊢; rw [hcur]
      · simp [hsz]
    · have e : writeRaw s act b = (s, { act with pending := act.pending ++ b }) := by
        simp [writeRaw, hub, hcap, h1, h2]
      rw [e]
      refine ⟨rfl, rfl, rfl, hst,
        ⟨pre, _, hd, hpre, ?_⟩, hub, fun hh => (by cases hh),
        ?_, hcr⟩
      · simp [← hcur]
      · simp [hsz]

/-- rotation to a name whose key is above the key of the handle (hence above all keys) -/
theorem rotTail_inv {cap : Option Nat} (s : St) (act : Active) (a : Abs) (i : Infix) (now : Nat)
    (h : ActInv cap s.dir act a) (hi : i.rotated = true)
    (hk : keyLt (nkey act.handle) i.key = true) :
    (rotTail s act i now).1.cfg = s.cfg ∧
    (rotTail s act i now).2.1.handle = ⟨some i, false⟩ ∧
    (rotTail s act i now).2.1.idx = act.idx ∧
    (rotTail s act i now).2.2 = false ∧
    ActInv cap (rotTail s act i now).1.dir (rotTail s act i now).2.1 (a.rotate now) := by
  obtain ⟨pre, f, hd, hpre, hcur⟩ := h.dir
  have hn : PlainRot ⟨some i, false⟩ := ⟨i, rfl, hi⟩
  have hkey : nkey ⟨some i, false⟩ = i.key := rfl
  -- the new key is above all keys
  have hall : ∀ e ∈ pre ++ [(act.handle, f)], keyLt (nkey e.1) (nkey ⟨some i, false⟩) = true := by
    intro e he
    rw [hkey]
    rcases List.mem_append.1 he with he | he
    · have hs := hd.2.1
      simp only [List.map_append, List.map_cons, List.map_nil, List.pairwise_append,
        List.mem_map, List.mem_singleton] at hs
      exact keyLt_trans (hs.2.2 e.1 ⟨e, he, rfl⟩ _ rfl) hk
    · simp only [List.mem_singleton] at he
      subst he; exact hk
  have hget : s.dir.get ⟨some i, false⟩ = none := hd.get_none _ (ne_of_keyLt hall)
  obtain ⟨_, hcfg, _, hdir⟩ := openFile_new s ⟨some i, false⟩ now hget
  have hd1 := hd.set_new ⟨some i, false⟩ ⟨[], now⟩ hn hall
  rw [List.append_assoc] at hd1
  have hd2 := DirIs.append hd1 act.pending
  have hd2' : DirIs ((s.dir.set ⟨some i, false⟩ ⟨[], now⟩).append act.handle act.pending)
      ((pre ++ [(act.handle, { f with data := f.data ++ act.pending })]) ++
        [(⟨some i, false⟩, ⟨[], now⟩)]) := by
    rw [List.append_assoc]; exact hd2
  have hcr : createdOr ((s.dir.set ⟨some i, false⟩ ⟨[], now⟩).append act.handle act.pending)
      ⟨some i, false⟩ now = now := by
    unfold createdOr
    rw [hd2'.get_some ⟨some i, false⟩ ⟨[], now⟩ (by simp)]
  refine ⟨hcfg, rfl, rfl, rfl, ?_⟩
  simp only [rotTail, hdir]
  refine ⟨h.started, ⟨_, _, hd2', ?_, ?_⟩, rfl, fun _ => rfl, rfl, ?_⟩
  · simp [Abs.rotate, hpre, hcur]
  · simp [Abs.rotate]
  · simp only [Abs.rotate]; exact hcr

/-! ### `collisionFree` -/

theorem le_foldl_max (ss : List Nat) : ∀ (s x : Nat), x ≤ s ∨ x ∈ ss → x ≤ ss.foldl max s := by
  induction ss with
  | nil => intro s x h; simpa using h
  | cons t ss ih =>
    intro s x h
    rw [List.foldl_cons]
    apply ih
    rcases h with h | h
    · left; omega
    · rcases List.mem_cons.1 h with h | h
      · left; omega
      · right; exact h

theorem ts_key_lt_of_lt (k now : Nat) (r r' : Option Nat) (h : k < now) :
    keyLt (Infix.key (.ts k r)) (Infix.key (.ts now r')) = true := by
  cases r <;> cases r' <;> simp [Infix.key, keyLt, h]

/-- the name chosen at a rotation under `timestampsDirect` lies above a file of the directory
    that carries a stamp `≤ now` and has the largest key -/
theorem collisionFree_key {d L : List (FName × File)} (h : DirIs d L) (now k : Nat)
    (r : Option Nat) (f : File) (hmem : (⟨some (.ts k r), false⟩, f) ∈ L) (hk : k ≤ now) :
    ∃ r', collisionFree d now = .ts now r' ∧
      keyLt (Infix.key (.ts k r)) (Infix.key (.ts now r')) = true := by
  have hgetd : Dir.get d ⟨some (.ts k r), false⟩ = some f := h.get_some _ _ hmem
  have hmemd : (⟨some (.ts k r), false⟩, f) ∈ d := h.1.symm.subset hmem
  unfold collisionFree
  extract_lets sib base
  have hA : ∀ r0, r = some r0 → k = now → r0 ∈ sib := by
    intro r0 hr hkn
    subst hr hkn
    simp only [sib, List.mem_filterMap]
    exact ⟨_, hmemd, by simp⟩
  have hB : r = none → k = now → base = true := by
    intro hr hkn
    subst hr hkn
    simp [base, Dir.has, hgetd]
  clear_value sib base
  by_cases hlt : k < now
  · split
    · split
      · exact ⟨_, rfl, ts_key_lt_of_lt _ _ _ _ hlt⟩
      · exact ⟨_, rfl, ts_key_lt_of_lt _ _ _ _ hlt⟩
    · exact ⟨_, rfl, ts_key_lt_of_lt _ _ _ _ hlt⟩
  · have hkn : k = now := by omega
    subst hkn
    cases r with
    | none =>
      simp only [hB rfl rfl, Bool.true_or, if_true]
      split
      · exact ⟨_, rfl, by simp [Infix.key, keyLt]⟩
      · exact ⟨_, rfl, by simp [Infix.key, keyLt]⟩
    | some r0 =>
      have hm := hA r0 rfl rfl
      cases sib with
      | nil => simp at hm
      | cons t ss =>
        simp only [List.isEmpty_cons, Bool.not_false, Bool.or_true, if_true]
        refine ⟨_, rfl, ?_⟩
        have := le_foldl_max ss t r0 (by
          rcases List.mem_cons.1 hm with hm | hm
          · left; omega
          · right; exact hm)
        simp [Infix.key, keyLt]; omega

/-! ### the naming-specific part of the invariant -/

/-- `numbersDirect`: the handle is `num idx`; `timestampsDirect`: the handle carries a stamp
    that is not in the future (`lo` is a lower bound for all later clock readings) -/
def NamingInv (nm : Naming) (lo : Nat) (act : Active) : Prop :=
  match nm with
  | .numbersDirect => act.handle = ⟨some (.num act.idx), false⟩
  | .timestampsDirect => ∃ k r, act.handle = ⟨some (.ts k r), false⟩ ∧ k ≤ lo
  | _ => False

theorem NamingInv.mono {nm : Naming} {lo lo' : Nat} {act : Active} (h : NamingInv nm lo act)
    (hle : lo ≤ lo') : NamingInv nm lo' act := by
  cases nm with
  | numbersDirect => exact h
  | timestampsDirect =>
    obtain ⟨k, r, hh, hk⟩ := h
    exact ⟨k, r, hh, Nat.le_trans hk hle⟩
  | numbers => exact h
  | timestamps => exact h

theorem NamingInv.congr {nm : Naming} {lo : Nat} {act act' : Active} (h : NamingInv nm lo act)
    (h1 : act'.handle = act.handle) (h2 : act'.idx = act.idx) : NamingInv nm lo act' := by
  cases nm with
  | numbersDirect => simp only [NamingInv] at h ⊢; rw [h1, h2]; exact h
  | timestampsDirect => simp only [NamingInv] at h ⊢; rw [h1]; exact h
  | numbers => exact h
  | timestamps => exact h

theorem rotationNecessary_eq (r : RotCfg) (act : Active) (a : Abs) (now : Nat)
    (hs : act.size = a.size) (hc : act.created = a.created) :
    rotationNecessary r act now = absNecessary r a now := by
  unfold rotationNecessary absNecessary
  rw [hs, hc]
  cases r.maxSize <;> cases r.age <;> rfl

theorem mountNextCore_inv (s : St) (act : Active) (a : Abs) (r : RotCfg) (force : Bool)
    (now lo : Nat) (hB : r.naming = .numbersDirect ∨ r.naming = .timestampsDirect)
    (hc : r.cleanup = none) (h : ActInv s.cfg.cap s.dir act a) (hn : NamingInv r.naming lo act)
    (hlo : lo ≤ now) :
    (mountNextCore s act r force now noFaults).1.cfg = s.cfg ∧
    (mountNextCore s act r force now noFaults).2.2 = false ∧
    ActInv s.cfg.cap (mountNextCore s act r force now noFaults).1.dir
      (mountNextCore s act r force now noFaults).2.1
      (if (force || absNecessary r a now) = true then a.rotate now else a) ∧
    NamingInv r.naming now (mountNextCore s act r force now noFaults).2.1 := by
  have hnec := rotationNecessary_eq r act a now h.size h.created
  by_cases hrot : (force || absNecessary r a now) = true
  · rw [if_pos hrot]
    rcases hB with hnm | hnm
    · rw [mountNextCore_nD s act r force now hnm hc (by rw [hnec]; exact hrot)]
      rw [hnm] at hn ⊢
      simp only [NamingInv] at hn
      have h1 : ActInv s.cfg.cap s.dir { act with idx := act.idx + 1 } a :=
        ⟨h.started, h.dir, h.unbuf, h.direct, h.size, h.created⟩
      obtain ⟨hcfg, hh, hidx, hf, hinv⟩ :=
        rotTail_inv s { act with idx := act.idx + 1 } a (.num (act.idx + 1)) now h1 rfl
          (by show keyLt (nkey act.handle) _ = true
              rw [hn]; simp [nkey, Infix.key, keyLt])
      refine ⟨hcfg, hf, hinv, ?_⟩
      simp only [NamingInv]
      rw [hh, hidx]
    · rw [hnm] at hn ⊢
      obtain ⟨k, r0, hh0, hk⟩ := hn
      obtain ⟨pre, f, hd, _, _⟩ := h.dir
      obtain ⟨r', hcf, hkey⟩ := collisionFree_key hd now k r0 f
        (by rw [← hh0]; simp) (Nat.le_trans hk hlo)
      rw [mountNextCore_tD s act r force now hnm hc (by rw [hnec]; exact hrot), hcf]
      have h1 : ActInv s.cfg.cap s.dir { act with stamp := now } a :=
        ⟨h.started, h.dir, h.unbuf, h.direct, h.size, h.created⟩
      obtain ⟨hcfg, hh, hidx, hf, hinv⟩ :=
        rotTail_inv s { act with stamp := now } a (.ts now r') now h1 rfl
          (by show keyLt (nkey act.handle) _ = true
              rw [hh0]; exact hkey)
      exact ⟨hcfg, hf, hinv, now, r', hh, Nat.le_refl _⟩
  · rw [if_neg hrot]
    rw [mountNextCore_skip s act r force now noFaults (by rw [hnec]; simpa using hrot)]
    exact ⟨rfl, rfl, h, hn.mono hlo⟩

/-- `mountNext`: the flush preserves the invariant, the rotation proper follows -/
theorem mountNext_inv (s : St) (act : Active) (a : Abs) (r : RotCfg) (force : Bool)
    (now lo : Nat) (hB : r.naming = .numbersDirect ∨ r.naming = .timestampsDirect)
    (hc : r.cleanup = none) (h : ActInv s.cfg.cap s.dir act a) (hn : NamingInv r.naming lo act)
    (hlo : lo ≤ now) :
    (mountNext s act r force now noFaults).1.cfg = s.cfg ∧
    (mountNext s act r force now noFaults).2.2 = false ∧
    ActInv s.cfg.cap (mountNext s act r force now noFaults).1.dir
      (mountNext s act r force now noFaults).2.1
      (if (force || absNecessary r a now) = true then a.rotate now else a) ∧
    NamingInv r.naming now (mountNext s act r force now noFaults).2.1 := by
  have hnec := rotationNecessary_eq r act a now h.size h.created
  by_cases hrot : (force || absNecessary r a now) = true
  · rw [if_pos hrot, mountNext_due s act r force now noFaults (by rw [hnec]; exact hrot)]
    obtain ⟨f1, f2, f3, f4⟩ := flushAct_inv s act a h
    have := mountNextCore_inv (flushAct s act).1 (flushAct s act).2 a r true now lo hB hc
      (by rw [f1]; exact f4) (hn.congr f2 f3) hlo
    rw [f1] at this
    simpa using this
  · rw [if_neg hrot]
    rw [mountNext_skip s act r force now noFaults (by rw [hnec]; simpa using hrot)]
    exact ⟨rfl, rfl, h, hn.mono hlo⟩

/-! ### initialisation -/

theorem initState_nD (s : St) (r : RotCfg) (now : Nat) (hrot : s.cfg.rot = some r)
    (hnm : r.naming = .numbersDirect) (hc : r.cleanup = none) (happ : s.cfg.append = false)
    (hdir : s.dir = []) :
    initState s now noFaults =
      (let n : FName := ⟨some (.num 0), false⟩
       let s1 := (openFile s n now noFaults 0).1
       ({ s1 with act := some ⟨n, n, [], false, 0, 0, 0, createdOr s1.dir n now⟩ }, true)) := by
  unfold initState
  simp only [hrot, hnm, hdir, highestIndex, List.foldl_nil]
  rw [openFile_ok]
  have hcfg : (openFile s ⟨some (.num 0), false⟩ now noFaults 0).1.cfg = s.cfg := by
    unfold openFile
    cases s.cfg.symlink <;> simp [hit, noFaults]
  simp [cleanup, hc, hcfg, happ]

theorem initState_tD (s : St) (r : RotCfg) (now : Nat) (hrot : s.cfg.rot = some r)
    (hnm : r.naming = .timestampsDirect) (hc : r.cleanup = none) (happ : s.cfg.append = false)
    (hdir : s.dir = []) :
    initState s now noFaults =
      (let n : FName := ⟨some (.ts now none), false⟩
       let s1 := (openFile s n now noFaults 0).1
       ({ s1 with act := some ⟨n, n, [], false, 0, now, 0, createdOr s1.dir n now⟩ }, true)) := by
  unfold initState
  have hcf : collisionFree [] now = .ts now none := by
    simp [collisionFree, Dir.has, Dir.get]
  simp only [hrot, hnm, hdir, happ]
  simp only [Bool.not_false, if_true, hcf]
  rw [openFile_ok]
  have hcfg : (openFile s ⟨some (.ts now none), false⟩ now noFaults 0).1.cfg = s.cfg := by
    unfold openFile
    cases s.cfg.symlink <;> simp [hit, noFaults]
  simp [cleanup, hc, hcfg, happ]

theorem DirIs.single (n : FName) (v : File) (hn : PlainRot n) : DirIs [(n, v)] ([] ++ [(n, v)]) := by
  refine ⟨List.Perm.refl _, ?_, ?_⟩
  · simp
  · intro m hm
    simp only [List.nil_append, List.map_cons, List.map_nil, List.mem_singleton] at hm
    subst hm; exact hn

/-- the first file -/
theorem openFirst_inv {cap : Option Nat} (s : St) (n : FName) (now idx stamp : Nat)
    (hn : PlainRot n) (hdir : s.dir = []) :
    (openFile s n now noFaults 0).1.cfg = s.cfg ∧
    ActInv cap (openFile s n now noFaults 0).1.dir
      ⟨n, n, [], false, idx, stamp, 0, createdOr (openFile s n now noFaults 0).1.dir n now⟩
      ⟨[], [], true, 0, now⟩ := by
  have hget : s.dir.get n = none := by rw [hdir]; rfl
  obtain ⟨_, hcfg, _, hd⟩ := openFile_new s n now hget
  have hd' : (openFile s n now noFaults 0).1.dir = [(n, ⟨[], now⟩)] := by
    rw [hd, hdir]; rfl
  refine ⟨hcfg, ?_⟩
  rw [hd']
  refine ⟨rfl, ⟨[], ⟨[], now⟩, DirIs.single n _ hn, rfl, rfl⟩, rfl, fun _ => rfl, rfl, ?_⟩
  simp [createdOr, Dir.get]

/-! ### the invariant -/

def Inv (cfg : Cfg) (r : RotCfg) (lo : Nat) (s : St) (a : Abs) : Prop :=
  s.cfg = cfg ∧
  match s.act with
  | none => s.dir = [] ∧ a = Abs.init
  | some act => ActInv cfg.cap s.dir act a ∧ NamingInv r.naming lo act

/-- the premises on the configuration, unpacked -/
structure CfgR (cfg : Cfg) (r : RotCfg) : Prop where
  rot : cfg.rot = some r
  append : cfg.append = false
  cleanup : r.cleanup = none
  naming : r.naming = .numbersDirect ∨ r.naming = .timestampsDirect

theorem initState_inv {cfg : Cfg} {r : RotCfg} (hc : CfgR cfg r) (s : St) (now : Nat)
    (hcfg : s.cfg = cfg) (hdir : s.dir = []) :
    (initState s now noFaults).2 = true ∧ (initState s now noFaults).1.cfg = cfg ∧
    ∃ act, (initState s now noFaults).1.act = some act ∧
      ActInv cfg.cap (initState s now noFaults).1.dir act ⟨[], [], true, 0, now⟩ ∧
      NamingInv r.naming now act := by
  subst hcfg
  rcases hc.naming with hnm | hnm
  · rw [initState_nD s r now hc.rot hnm hc.cleanup hc.append hdir]
    obtain ⟨h1, h2⟩ := openFirst_inv (cap := s.cfg.cap) s ⟨some (.num 0), false⟩ now 0 0
      ⟨_, rfl, rfl⟩ hdir
    refine ⟨rfl, h1, _, rfl, h2, ?_⟩
    rw [hnm]; rfl
  · rw [initState_tD s r now hc.rot hnm hc.cleanup hc.append hdir]
    obtain ⟨h1, h2⟩ := openFirst_inv (cap := s.cfg.cap) s ⟨some (.ts now none), false⟩ now 0 now
      ⟨_, rfl, rfl⟩ hdir
    refine ⟨rfl, h1, _, rfl, h2, ?_⟩
    rw [hnm]; exact ⟨now, none, rfl, Nat.le_refl _⟩

/-! ### writing -/

theorem writeBuffer_some (s s1 : St) (act act1 : Active) (r : RotCfg) (b : List Nat) (now : Nat)
    (hact : s.act = some act) (hrot : s.cfg.rot = some r)
    (hm : mountNext s act r false now noFaults = (s1, act1, false)) :
    writeBuffer s b now noFaults =
      ({ (writeRaw s1 act1 b).1 with
          act := some { (writeRaw s1 act1 b).2 with
                          size := (writeRaw s1 act1 b).2.size + b.length } }, .ok) := by
  unfold writeBuffer
  simp only [hact, hrot, hm]
  simp [hit, noFaults]

theorem writeBuffer_none (s : St) (act : Active) (b : List Nat) (now : Nat) (fl : Faults)
    (hact : s.act = none) (hok : (initState s now fl).2 = true)
    (hact' : (initState s now fl).1.act = some act) :
    writeBuffer s b now fl = writeBuffer (initState s now fl).1 b now fl := by
  generalize hp : initState s now fl = p at *
  obtain ⟨s0, ok⟩ := p
  simp only at hok hact'
  subst hok
  conv => lhs; unfold writeBuffer
  simp only [hact, hp]
  conv => rhs; unfold writeBuffer
  simp only [hact']

theorem write_some {cfg : Cfg} {r : RotCfg} (hc : CfgR cfg r) (s : St) (act : Active) (a : Abs)
    (lo : Nat) (b : List Nat) (now : Nat) (hcfg : s.cfg = cfg) (hact : s.act = some act)
    (hA : ActInv cfg.cap s.dir act a) (hN : NamingInv r.naming lo act) (hlo : lo ≤ now) :
    Inv cfg r now (writeBuffer s b now noFaults).1 (Abs.step (some r) a (.write b) now) := by
  subst hcfg
  obtain ⟨m1, m2, m3, m4⟩ := mountNext_inv s act a r false now lo hc.naming hc.cleanup hA hN hlo
  generalize e : mountNext s act r false now noFaults = m at *
  obtain ⟨s1, act1, rerr⟩ := m
  simp only at m1 m2 m3 m4
  subst m2
  rw [writeBuffer_some s s1 act act1 r b now hact hc.rot e]
  rw [← m1] at m3
  obtain ⟨w1, w2, w3, w4⟩ := writeRaw_inv s1 act1 _ b m3
  rw [m1] at w4
  refine ⟨by simp only [w1, m1], ?_⟩
  simp only
  refine ⟨?_, ?_⟩
  · have hs : a.started = true := hA.started
    simpa [Abs.step, hs] using w4
  · exact NamingInv.congr m4 w2 w3

/-! ### one operation -/

theorem step_inv {cfg : Cfg} {r : RotCfg} (hc : CfgR cfg r) (s : St) (a : Abs) (lo : Nat)
    (op : Op) (now : Nat) (hI : Inv cfg r lo s a) (hp : op.plain = true)
    (hlo : op.usesClock = true → lo ≤ now) :
    Inv cfg r (if op.usesClock = true then now else lo) (step s op now noFaults).1
      (Abs.step (some r) a op now) := by
  obtain ⟨hcfg, hI⟩ := hI
  cases op with
  | write b =>
    have hlo' : lo ≤ now := hlo rfl
    simp only [Op.usesClock, if_true, step]
    cases hact : s.act with
    | some act =>
      rw [hact] at hI
      exact write_some hc s act a lo b now hcfg hact hI.1 hI.2 hlo'
    | none =>
      rw [hact] at hI
      obtain ⟨hdir, ha⟩ := hI
      obtain ⟨i1, i2, act0, i3, i4, i5⟩ := initState_inv hc s now hcfg hdir
      rw [writeBuffer_none s act0 b now noFaults hact i1 i3]
      have := write_some hc _ act0 _ now b now i2 i3 i4 i5 (Nat.le_refl _)
      rw [ha]
      exact this
  | rotate =>
    have hlo' : lo ≤ now := hlo rfl
    simp only [Op.usesClock, if_true, step]
    cases hact : s.act with
    | some act =>
      rw [hact] at hI
      simp only [hcfg, hc.rot]
      rw [← hcfg] at hI
      obtain ⟨m1, m2, m3, m4⟩ :=
        mountNext_inv s act a r true now lo hc.naming hc.cleanup hI.1 hI.2 hlo'
      rw [hcfg] at m1 m3
      refine ⟨m1, ?_⟩
      simp only
      refine ⟨?_, m4⟩
      have hs : a.started = true := hI.1.started
      simpa [Abs.step, hs] using m3
    | none =>
      rw [hact] at hI
      obtain ⟨hdir, ha⟩ := hI
      refine ⟨hcfg, ?_⟩
      simp only [hact]
      exact ⟨hdir, by rw [ha]; rfl⟩
  | flush =>
    simp only [Op.usesClock, Bool.false_eq_true, if_false, step]
    cases hact : s.act with
    | some act =>
      rw [hact] at hI
      obtain ⟨f1, f2, f3, f4⟩ := flushAct_inv s act a hI.1
      exact ⟨by simp only [f1, hcfg], f4, hI.2.congr f2 f3⟩
    | none =>
      rw [hact] at hI
      refine ⟨hcfg, ?_⟩
      simp only [hact]
      exact hI
  | shutdown =>
    simp only [Op.usesClock, Bool.false_eq_true, if_false, step]
    cases hact : s.act with
    | some act =>
      rw [hact] at hI
      obtain ⟨f1, f2, f3, f4⟩ := flushAct_inv s act a hI.1
      exact ⟨by simp only [f1, hcfg], f4, hI.2.congr f2 f3⟩
    | none =>
      rw [hact] at hI
      refine ⟨hcfg, ?_⟩
      simp only [hact]
      exact hI
  | restart _ => simp [Op.plain] at hp
  | reset _ => simp [Op.plain] at hp
  | extRename => simp [Op.plain] at hp
  | extRemove => simp [Op.plain] at hp
  | reopen => simp [Op.plain] at hp

/-! ### histories -/

theorem monotone_tail {o : Op × Nat × Faults} {ops : List (Op × Nat × Faults)}
    (h : Monotone (o :: ops)) :
    Monotone ops ∧ (o.1.usesClock = true → ∀ o' ∈ ops, o'.1.usesClock = true → o.2.1 ≤ o'.2.1) := by
  unfold Monotone at *
  by_cases hu : o.1.usesClock = true
  · rw [List.filter_cons_of_pos (by simpa using hu), List.map_cons, List.pairwise_cons] at h
    refine ⟨h.2, fun _ o' ho' hu' => h.1 _ ?_⟩
    exact List.mem_map.2 ⟨o', List.mem_filter.2 ⟨ho', by simpa using hu'⟩, rfl⟩
  · rw [List.filter_cons_of_neg (by simpa using hu)] at h
    exact ⟨h, fun hh => absurd hh hu⟩

theorem run_inv {cfg : Cfg} {r : RotCfg} (hc : CfgR cfg r) :
    ∀ (ops : List (Op × Nat × Faults)) (lo : Nat) (s : St) (a : Abs), Inv cfg r lo s a →
      (∀ o ∈ ops, o.1.plain = true ∧ o.2.2 = noFaults) →
      (∀ o ∈ ops, o.1.usesClock = true → lo ≤ o.2.1) → Monotone ops →
      ∃ lo', Inv cfg r lo' (runOps s ops) (Abs.run (some r) a ops) := by
  intro ops
  induction ops with
  | nil => intro lo s a hI _ _ _; exact ⟨lo, hI⟩
  | cons o ops ih =>
    intro lo s a hI hp hlo hm
    obtain ⟨hm1, hm2⟩ := monotone_tail hm
    obtain ⟨hp1, hp2⟩ := hp o (by simp)
    have hstep := step_inv hc s a lo o.1 o.2.1 hI hp1 (hlo o (by simp))
    have e1 : runOps s (o :: ops) = runOps (step s o.1 o.2.1 noFaults).1 ops := by
      rw [← hp2]; rfl
    have e2 : Abs.run (some r) a (o :: ops) = Abs.run (some r) (Abs.step (some r) a o.1 o.2.1) ops :=
      rfl
    rw [e1, e2]
    refine ih _ _ _ hstep (fun o' ho' => hp o' (by simp [ho'])) ?_ hm1
    intro o' ho' hu'
    by_cases hu : o.1.usesClock = true
    · rw [if_pos hu]; exact hm2 hu o' ho' hu'
    · rw [if_neg hu]; exact hlo o' (by simp [ho']) hu'

theorem CfgB.cfgR {cfg : Cfg} (hc : CfgB cfg) : ∃ r, CfgR cfg r := by
  obtain ⟨happ, hcl, r, hrot, hnm⟩ := hc
  exact ⟨r, hrot, happ, hcl r hrot, hnm⟩

theorem inv_init (cfg : Cfg) (r : RotCfg) : Inv cfg r 0 (init cfg []) Abs.init :=
  ⟨rfl, rfl, rfl⟩

/-- what the invariant says about the view -/
theorem Inv.view {cfg : Cfg} {r : RotCfg} {lo : Nat} {s : St} {a : Abs} (h : Inv cfg r lo s a) :
    viewFiles s = a.files ∧
    (∀ act, s.act = some act → a.started = true ∧ act.size = a.size ∧ act.created = a.created) ∧
    (s.act = none → a.started = false) := by
  obtain ⟨_, hI⟩ := h
  unfold viewFiles
  cases hact : s.act with
  | none =>
    rw [hact] at hI
    obtain ⟨hdir, ha⟩ := hI
    refine ⟨?_, fun act h => (by cases h), fun _ => (by rw [ha]; rfl)⟩
    rw [hdir, ha]; rfl
  | some act =>
    rw [hact] at hI
    obtain ⟨hA, _⟩ := hI
    obtain ⟨pre, f, hd, hpre, hcur⟩ := hA.dir
    refine ⟨?_, ?_, fun h => (by cases h)⟩
    · simp only [parts_eq hd, Abs.files, hA.started, if_true]
      simp [hpre, hcur]
    · intro act' h
      cases h
      exact ⟨hA.started, hA.size, hA.created⟩

/-- **Refinement for the direct namings.** -/
theorem refines_B (cfg : Cfg) (hc : CfgB cfg) (ops : List (Op × Nat × Faults))
    (hp : PlainHistory ops) : Refines cfg ops := by
  obtain ⟨r, hr⟩ := hc.cfgR
  obtain ⟨lo, hI⟩ := run_inv hr ops 0 (init cfg []) Abs.init (inv_init cfg r) hp.1
    (fun _ _ _ => Nat.zero_le _) hp.2
  obtain ⟨v1, v2, v3⟩ := hI.view
  unfold Refines
  rw [hr.rot]
  exact ⟨v1, fun act h => ⟨(v2 act h).1, fun _ => (v2 act h).2⟩, v3⟩

/-! ### non-vacuity -/

/-- `timestampsDirect`, size-or-age criterion, small buffer, symlink -/
def exCfgT : Cfg :=
  { rot := some ⟨some 3, some .minute, .timestampsDirect, none⟩, append := false, cap := some 4,
    symlink := true }

/-- `numbersDirect`, no criterion, direct writing -/
def exCfgN : Cfg :=
  { rot := some ⟨none, none, .numbersDirect, none⟩, append := false, cap := none,
    symlink := false, hasSuffix := false }

/-- a history with empty writes, forced rotations within one second (restart siblings), a
    flush/shutdown carrying an arbitrary clock value, and an age rotation -/
def exOps : List (Op × Nat × Faults) :=
  [(.rotate, 3, noFaults), (.write [1, 2, 3], 5, noFaults), (.rotate, 5, noFaults),
   (.write [], 5, noFaults), (.rotate, 5, noFaults), (.flush, 0, noFaults),
   (.write [4, 5, 6, 7, 8], 7, noFaults), (.write [9], 7, noFaults), (.shutdown, 1, noFaults),
   (.write [10], 120, noFaults)]

example : CfgB exCfgT :=
  ⟨rfl, fun r h => by cases h; rfl, _, rfl, Or.inr rfl⟩

example : CfgB exCfgN :=
  ⟨rfl, fun r h => by cases h; rfl, _, rfl, Or.inl rfl⟩

example : PlainHistory exOps := by
  unfold PlainHistory Monotone; decide

example : viewFiles (runOps (init exCfgT []) exOps) = [[1, 2, 3], [], [4, 5, 6, 7, 8], [9], [10]] := by
  decide

example : viewFiles (runOps (init exCfgN []) exOps) = [[1, 2, 3], [], [4, 5, 6, 7, 8, 9, 10]] := by
  decide

example : Refines exCfgT exOps :=
  refines_B _ ⟨rfl, fun r h => by cases h; rfl, _, rfl, Or.inr rfl⟩ _
    (by unfold PlainHistory Monotone; decide)

end FV.FlwB
