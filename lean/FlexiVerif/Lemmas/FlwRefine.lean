import FlexiVerif.Lemmas.FlwRefineA
import FlexiVerif.Lemmas.FlwRefineB
/-
  The refinement `Flw ⊑ FlwAbs` for every naming scheme.
-/
namespace FV.Flw

/-- **Refinement theorem.** For every configuration without append and without cleanup — every
    naming scheme, every criterion (size, age, both, none), every buffer capacity, with or
    without rotation — and every plain history (writes, forced rotations, flushes, shutdowns,
    monotone clock), the concrete writer started on an empty directory refines the abstract
    rotating log. -/
theorem refines_all (cfg : Cfg) (ha : cfg.append = false) (hn : NoCleanup cfg)
    (ops : List (Op × Nat × Faults)) (hp : PlainHistory ops) : Refines cfg ops := by
  cases hr : cfg.rot with
  | none => exact FV.FlwA.refines_A cfg ⟨ha, hn, by intro r h; simp [hr] at h⟩ ops hp
  | some r =>
    cases hnm : r.naming with
    | numbers =>
      exact FV.FlwA.refines_A cfg ⟨ha, hn, by intro r' h; rw [hr] at h; cases h; exact Or.inl hnm⟩ ops hp
    | timestamps =>
      exact FV.FlwA.refines_A cfg ⟨ha, hn, by intro r' h; rw [hr] at h; cases h; exact Or.inr hnm⟩ ops hp
    | numbersDirect => exact FV.FlwB.refines_B cfg ⟨ha, hn, r, hr, Or.inl hnm⟩ ops hp
    | timestampsDirect => exact FV.FlwB.refines_B cfg ⟨ha, hn, r, hr, Or.inr hnm⟩ ops hp

end FV.Flw
