import FlexiVerif.Lemmas.Text
import FlexiVerif.Lemmas.Spec
/-
  Helper lemmas about `LogSpecification::parse`, `Display` and the TOML form.
-/
namespace FV.Spec
open FV

/-! ### level words -/

theorem level_cases {l : Nat} (h : l ≤ 5) : l = 0 ∨ l = 1 ∨ l = 2 ∨ l = 3 ∨ l = 4 ∨ l = 5 := by
  omega

theorem parseLevel_levelWord (l : Nat) (h : l ≤ 5) : parseLevel (levelWord l) = some l := by
  rcases level_cases h with rfl | rfl | rfl | rfl | rfl | rfl <;> decide

theorem hasWs_levelWord (l : Nat) : hasWs (levelWord l) = false := by
  unfold levelWord; split <;> decide

theorem levelWord_ne_nil (l : Nat) : levelWord l ≠ [] := by
  unfold levelWord; split <;> decide

theorem eq_not_mem_levelWord (l : Nat) : '=' ∉ levelWord l := by
  unfold levelWord; split <;> decide

theorem comma_not_mem_levelWord (l : Nat) : ',' ∉ levelWord l := by
  unfold levelWord; split <;> decide

theorem slash_not_mem_levelWord (l : Nat) : '/' ∉ levelWord l := by
  unfold levelWord; split <;> decide

theorem parsePart_levelWord (l : Nat) (h : l ≤ 5) : parsePart (levelWord l) = .filter ⟨none, l⟩ := by
  rcases level_cases h with rfl | rfl | rfl | rfl | rfl | rfl <;> decide

/-! ### clean module names -/

/-- characters allowed in a module name: no whitespace, none of `,` `=` `/` -/
def cleanChar (c : Char) : Bool := !isWs c && c ≠ ',' && c ≠ '=' && c ≠ '/'

/-- a non-empty module name of clean characters (covers every Rust path) -/
def CleanName (n : List Char) : Prop := n ≠ [] ∧ ∀ c ∈ n, cleanChar c = true

instance (n : List Char) : Decidable (CleanName n) := by unfold CleanName; infer_instance

theorem cleanChar_iff (c : Char) :
    cleanChar c = true ↔ isWs c = false ∧ c ≠ ',' ∧ c ≠ '=' ∧ c ≠ '/' := by
  simp [cleanChar, and_assoc]

theorem CleanName.hasWs {n : List Char} (h : CleanName n) : hasWs n = false := by
  rw [hasWs_eq_false_iff]
  intro c hc
  exact ((cleanChar_iff c).mp (h.2 c hc)).1

theorem CleanName.not_mem {n : List Char} (h : CleanName n) :
    ',' ∉ n ∧ '=' ∉ n ∧ '/' ∉ n := by
  refine ⟨fun hc => ?_, fun hc => ?_, fun hc => ?_⟩ <;>
  · have := (cleanChar_iff _).mp (h.2 _ hc)
    simp at this

/-- the text `Display` writes for one named filter -/
def partText (n : List Char) (l : Nat) : List Char := n ++ " = ".toList ++ levelWord l

theorem parsePart_partText (n : List Char) (l : Nat) (hn : CleanName n) (hl : l ≤ 5) :
    parsePart (partText n l) = .filter ⟨some n, l⟩ := by
  have hws := hn.hasWs
  have hne := hn.1
  obtain ⟨-, heq, -⟩ := hn.not_mem
  have hedge : NoEdgeWs (partText n l) := by
    constructor
    · intro c hc
      cases n with
      | nil => exact absurd rfl hne
      | cons d ds =>
        simp [partText] at hc
        subst hc
        exact (hasWs_eq_false_iff _).mp hws _ (by simp)
    · intro c hc
      have h1 : (levelWord l).getLast? = some c := by
        simp only [partText, List.getLast?_append] at hc
        cases hlw : (levelWord l).getLast? with
        | none => simp [levelWord_ne_nil] at hlw
        | some d => simpa [hlw] using hc
      exact (hasWs_eq_false_iff _).mp (hasWs_levelWord l) c (List.mem_of_getLast? h1)
  have htrim : trim (partText n l) = partText n l := trim_of_noEdgeWs _ hedge
  have hsplit : splitOn '=' (partText n l) = [n ++ [' '], ' ' :: levelWord l] := by
    have : partText n l = (n ++ [' ']) ++ '=' :: (' ' :: levelWord l) := by
      simp [partText]
    rw [this, splitOn_append_sep _ _ _ (by simpa using heq),
      splitOn_of_not_mem _ _ (by simpa using eq_not_mem_levelWord l)]
  have h0 : trim (n ++ [' ']) = n :=
    trim_pad_right n [' '] (by simp [isWs_space]) (noEdgeWs_of_hasWs n hws)
  have h1 : trim (' ' :: levelWord l) = levelWord l := by
    rw [trim_cons_space, trim_of_hasWs _ (hasWs_levelWord l)]
  have hemp : (partText n l).isEmpty = false := by
    cases n with
    | nil => exact absurd rfl hne
    | cons d ds => simp [partText]
  have hemp1 : (levelWord l).isEmpty = false := by
    simpa using levelWord_ne_nil l
  unfold parsePart
  simp only [htrim, hsplit, h0, h1, hemp, hemp1, hws, trim_of_hasWs _ (hasWs_levelWord l),
    trim_of_hasWs _ hws, parseLevel_levelWord l hl]
  simp

theorem parsePart_cons_space (s : List Char) : parsePart (' ' :: s) = parsePart s := by
  unfold parsePart
  rw [trim_cons_space]

/-! ### `Display` of named filters -/

/-- every filter carries a clean name and a level ≤ 5 -/
def AllNamed (ms : List MF) : Prop := ∀ m ∈ ms, (∃ n, m.name = some n ∧ CleanName n) ∧ m.lvl ≤ 5

theorem AllNamed.tail {m : MF} {ms : List MF} (h : AllNamed (m :: ms)) : AllNamed ms :=
  fun x hx => h x (List.mem_cons_of_mem _ hx)

theorem displayNamed_append_default (c : Bool) (a : List MF) (l : Nat) :
    displayNamed c (a ++ [⟨none, l⟩]) = displayNamed c a := by
  induction a generalizing c with
  | nil => simp [displayNamed]
  | cons m ms ih =>
    simp only [List.cons_append, displayNamed]
    split <;> simp [ih]

theorem comma_not_mem_partText (n : List Char) (l : Nat) (hn : CleanName n) :
    ',' ∉ partText n l := by
  have := hn.not_mem.1
  have := comma_not_mem_levelWord l
  simp [partText, *]

theorem slash_not_mem_partText (n : List Char) (l : Nat) (hn : CleanName n) :
    '/' ∉ partText n l := by
  have := hn.not_mem.2.2
  have := slash_not_mem_levelWord l
  simp [partText, *]

/-- the items obtained from `w` followed by the `, name = level` chunks of `ms` -/
theorem items_displayNamed (w : List Char) (hw : ',' ∉ w) (ms : List MF) (h : AllNamed ms) :
    (splitOn ',' (w ++ displayNamed true ms)).map parsePart =
      parsePart w :: ms.map Item.filter := by
  induction ms generalizing w with
  | nil => simp [displayNamed, splitOn_of_not_mem _ _ hw]
  | cons m ms ih =>
    obtain ⟨⟨n, hn, hc⟩, hl⟩ := h m (by simp)
    have hd : displayNamed true (m :: ms) =
        ',' :: ((' ' :: partText n m.lvl) ++ displayNamed true ms) := by
      simp [displayNamed, hn, partText]
    rw [hd, splitOn_append_sep _ _ _ hw, List.map_cons,
      ih (' ' :: partText n m.lvl) (by simpa using comma_not_mem_partText n m.lvl hc) h.tail,
      parsePart_cons_space, parsePart_partText n m.lvl hc hl]
    have : m = ⟨some n, m.lvl⟩ := by cases m; simp_all
    rw [← this]; rfl

theorem slash_not_mem_displayNamed (c : Bool) (ms : List MF) (h : AllNamed ms) :
    '/' ∉ displayNamed c ms := by
  induction ms generalizing c with
  | nil => simp [displayNamed]
  | cons m ms ih =>
    obtain ⟨⟨n, hn, hc⟩, hl⟩ := h m (by simp)
    have h1 := hc.not_mem.2.2
    have h2 := slash_not_mem_levelWord m.lvl
    have h3 := ih true h.tail
    simp only [displayNamed, hn]
    cases c <;> simp [h1, h2, h3]

/-- `displayNamed false` of a non-empty list of named filters -/
theorem displayNamed_false_cons (m : MF) (ms : List MF) (n : List Char) (hn : m.name = some n) :
    displayNamed false (m :: ms) = partText n m.lvl ++ displayNamed true ms := by
  simp [displayNamed, hn, partText]

/-! ### `levelSort` -/

theorem filterMap_filter (l : List MF) : (l.map Item.filter).filterMap Item.filter? = l := by
  induction l with
  | nil => rfl
  | cons m ms ih => simp [Item.filter?, ih]

theorem any_isErr_filter (l : List MF) : (l.map Item.filter).any Item.isErr = false := by
  induction l with
  | nil => rfl
  | cons m ms ih => simp [Item.isErr]

theorem nlen_pos_of_named (m : MF) (n : List Char) (hn : m.name = some n) (hne : n ≠ []) :
    0 < nlen m := by
  simp only [nlen, hn]
  cases n with
  | nil => exact absurd rfl hne
  | cons c cs => rw [blen_cons]; have := utf8Len_pos c; omega

/-- the default goes behind all filters with a (non-empty) name -/
theorem ins_default (l : Nat) (named : List MF) (h : ∀ m ∈ named, 0 < nlen m) :
    ins ⟨none, l⟩ named = named ++ [⟨none, l⟩] := by
  induction named with
  | nil => rfl
  | cons x xs ih =>
    have hx := h x (by simp)
    have : ¬ nlen x ≤ nlen (⟨none, l⟩ : MF) := by simp [nlen] at hx ⊢; omega
    simp [ins, this, ih (fun m hm => h m (by simp [hm]))]

theorem levelSort_default_cons (l : Nat) (named : List MF) (hs : Sorted named)
    (h : ∀ m ∈ named, 0 < nlen m) :
    levelSort (⟨none, l⟩ :: named) = named ++ [⟨none, l⟩] := by
  simp only [levelSort, levelSort_of_sorted named hs]
  exact ins_default l named h

theorem Sorted.left {a b : List MF} (h : Sorted (a ++ b)) : Sorted a := by
  unfold Sorted at *
  exact (List.pairwise_append.mp h).1

/-! ### `parse` when the module section is known -/

theorem parse_of_items (s : List Char) (rxok : Bool) (L : List MF) (hs : '/' ∉ s)
    (hi : (splitOn ',' s).map parsePart = L.map Item.filter) :
    parse s rxok = ⟨true, levelSort L, none⟩ := by
  unfold parse
  rw [splitOn_of_not_mem _ _ hs]
  simp only [List.length_nil, hi, filterMap_filter, any_isErr_filter]
  simp

/-! ### TOML form -/

theorem insKey_perm (x : List Char × List Char) (l : List (List Char × List Char)) :
    (insKey x l).Perm (x :: l) := by
  induction l with
  | nil => simp [insKey]
  | cons y ys ih =>
    simp only [insKey]; split
    · exact (List.Perm.cons y ih).trans (List.Perm.swap x y ys)
    · exact List.Perm.refl _

theorem sortKey_perm (l : List (List Char × List Char)) : (l.foldr insKey []).Perm l := by
  induction l with
  | nil => exact List.Perm.refl _
  | cons x xs ih => exact (insKey_perm x _).trans (List.Perm.cons x ih)

/-- what `to_toml_impl` writes for one named filter -/
def encKV (m : MF) : List Char × List Char := (m.name.getD [], levelWord m.lvl)

/-- what `from_toml` reads from one entry of the `modules` table (when the level parses) -/
def decKV (kv : List Char × List Char) : MF := ⟨some kv.1, (parseLevel kv.2).getD 0⟩

theorem decKV_encKV (m : MF) (n : List Char) (hn : m.name = some n) (hl : m.lvl ≤ 5) :
    decKV (encKV m) = m := by
  cases m with
  | mk name lvl =>
    simp only at hn hl
    subst hn
    simp [decKV, encKV, parseLevel_levelWord lvl hl]

/-- the `Option` fold of `from_toml` succeeds on tables all of whose levels parse
    (`f` = the step function of `fromToml`, characterised by `hf`) -/
theorem fromToml_fold (f : List Char × List Char → Option (List MF) → Option (List MF))
    (hf : ∀ kv l lv, parseLevel kv.2 = some lv → f kv (some l) = some (⟨some kv.1, lv⟩ :: l))
    (L : List (List Char × List Char))
    (h : ∀ kv ∈ L, (parseLevel kv.2).isSome = true) :
    L.foldr f (some []) = some (L.map decKV) := by
  induction L with
  | nil => rfl
  | cons kv rest ih =>
    have h1 := h kv (by simp)
    rw [List.foldr_cons, ih (fun x hx => h x (by simp [hx]))]
    cases hp : parseLevel kv.2 with
    | none => simp [hp] at h1
    | some lv => simp [decKV, hp, hf kv _ lv hp]

theorem filterMap_named (named : List MF) (h : AllNamed named) :
    named.filterMap (fun m => m.name.map (fun n => (n, levelWord m.lvl))) = named.map encKV := by
  induction named with
  | nil => rfl
  | cons m ms ih =>
    obtain ⟨⟨n, hn, -⟩, -⟩ := h m (by simp)
    simp [hn, encKV, ih h.tail]

theorem map_dec_enc (named : List MF) (h : AllNamed named) :
    (named.map encKV).map decKV = named := by
  induction named with
  | nil => rfl
  | cons m ms ih =>
    obtain ⟨⟨n, hn, -⟩, hl⟩ := h m (by simp)
    simp only [List.map_cons, decKV_encKV m n hn hl, ih h.tail]

theorem toToml_no_default (named : List MF) (h : AllNamed named) :
    toToml named = ⟨none, named.map encKV⟩ := by
  unfold toToml
  rw [filterMap_named named h]
  congr 1
  split
  · rename_i l hlast
    obtain ⟨⟨n, hn, -⟩, -⟩ := h _ (List.mem_of_getLast? hlast)
    simp at hn
  · rfl

theorem toToml_default (named : List MF) (l : Nat) (h : AllNamed named) :
    toToml (named ++ [⟨none, l⟩]) = ⟨some (levelWord l), named.map encKV⟩ := by
  unfold toToml
  rw [List.filterMap_append, filterMap_named named h]
  simp

/-- `from_toml` on a document written for named filters with level words -/
theorem fromToml_named (named : List MF) (h : AllNamed named) (g : Option Nat)
    (hg : ∀ l, g = some l → l ≤ 5) :
    ∃ X, X.Perm named ∧
      fromToml ⟨g.map levelWord, named.map encKV⟩ =
        some (levelSort ((g.map (fun l => (⟨none, l⟩ : MF))).toList ++ X)) := by
  refine ⟨((named.map encKV).foldr insKey []).map decKV, ?_, ?_⟩
  · have := (sortKey_perm (named.map encKV)).map decKV
    rwa [map_dec_enc named h] at this
  · unfold fromToml
    simp only
    rw [fromToml_fold _ (fun kv l lv hp => by simp [hp])]
    · cases g with
      | none => rfl
      | some l => simp [parseLevel_levelWord l (hg l rfl)]
    · intro kv hkv
      have hmem := (sortKey_perm (named.map encKV)).mem_iff.mp hkv
      obtain ⟨m, hm, rfl⟩ := List.mem_map.mp hmem
      simp [encKV, parseLevel_levelWord m.lvl (h m hm).2]

/-! ### inversion of `parseLevel` -/

theorem lowerChar_of_isWs (c : Char) (h : isWs c = true) : lowerChar c = c := by
  unfold lowerChar
  have h1 : ¬ ('A' ≤ c ∧ c ≤ 'Z') := by
    intro ⟨ha, hz⟩
    rw [Char.le_def, UInt32.le_iff_toNat_le] at ha hz
    have ha' : 65 ≤ c.toNat := ha
    have hz' : c.toNat ≤ 90 := hz
    simp [isWs] at h
    omega
  have h2 : ¬ c.toNat = 0x212A := by
    simp [isWs] at h
    omega
  simp [h1, h2]

theorem parseLevel_some (w : List Char) (l : Nat) (h : parseLevel w = some l) :
    lower w = levelWord l ∧ l ≤ 5 := by
  unfold parseLevel at h
  simp only at h
  repeat' split at h
  all_goals first
    | (cases h; exact ⟨‹_›, by decide⟩)
    | (exact absurd h (by simp))

/-- a text that reads as a level contains no whitespace -/
theorem hasWs_of_parseLevel (w : List Char) (l : Nat) (h : parseLevel w = some l) :
    hasWs w = false := by
  obtain ⟨hw, -⟩ := parseLevel_some w l h
  rw [hasWs_eq_false_iff]
  intro c hc
  cases hws : isWs c with
  | false => rfl
  | true =>
    have hmem : lowerChar c ∈ lower w := List.mem_map.mpr ⟨c, hc, rfl⟩
    rw [lowerChar_of_isWs c hws, hw] at hmem
    have := (hasWs_eq_false_iff _).mp (hasWs_levelWord l) c hmem
    rw [this] at hws; exact absurd hws (by simp)

theorem parseLevel_ne_nil (w : List Char) (l : Nat) (h : parseLevel w = some l) : w ≠ [] := by
  rintro rfl
  have : parseLevel [] = none := by decide
  rw [this] at h; exact absurd h (by simp)

theorem isWs_eq_sign : isWs '=' = false := by decide

end FV.Spec
