/-
  The invariant behind C07: the refinement invariant of `FlwRefineA/B`, except that the
  directory holds only the newest rotated files, the oldest of them compressed.
-/
import FlexiVerif.Lemmas.FlwCleanup
import FlexiVerif.Lemmas.FlwCleanupLossless
namespace FV.FlwC
open FV.Flw
open FV.FlwA (ents isRot curN)
open FV.FlwB (nkey keyLt_irrefl keyLt_trans keyLt_asymm openFile_ok openFile_new)

/-! ### the model functions without faults -/

/-- what `mountNextCore` does once the new infix is chosen (no faults) -/
def rotTailC (s : St) (a : Active) (i : Infix) (r : RotCfg) (now : Nat) : St × Active × Bool :=
  let n : FName := ⟨some i, false⟩
  let s1 := (openFile s n now noFaults 0).1
  let d := s1.dir.append a.handle a.pending
  ({ s1 with dir := (cleanup now s1.cfg r noFaults d).1 },
   { a with pending := [], handle := n, path := n, unbuffered := false, size := 0,
            created := createdOr d n now }, (cleanup now s1.cfg r noFaults d).2)

/-- the directory `rotTailC` hands to `cleanup` -/
def preCleanupDir (s : St) (a : Active) (i : Infix) (now : Nat) : Dir :=
  (openFile s ⟨some i, false⟩ now noFaults 0).1.dir.append a.handle a.pending

theorem rotTailC_cleanup (s : St) (a : Active) (i : Infix) (r : RotCfg) (now : Nat) :
    (rotTailC s a i r now).1.dir =
      (cleanup now (openFile s ⟨some i, false⟩ now noFaults 0).1.cfg r noFaults
        (preCleanupDir s a i now)).1 := rfl

theorem openFile_snd (s : St) (n : FName) (now : Nat) :
    (openFile s n now noFaults 0).2 = true := by
  rw [openFile_ok]

theorem mountNextCore_nD (s : St) (a : Active) (r : RotCfg) (force : Bool) (now : Nat)
    (hn : r.naming = .numbersDirect)
    (h : (force || rotationNecessary r a now) = true) :
    mountNextCore s a r force now noFaults =
      rotTailC s { a with idx := a.idx + 1 } (.num (a.idx + 1)) r now := by
  unfold mountNextCore
  simp only [h, hn]
  rw [openFile_ok]
  simp [rotTailC, flushAct]

theorem mountNextCore_tD (s : St) (a : Active) (r : RotCfg) (force : Bool) (now : Nat)
    (hn : r.naming = .timestampsDirect)
    (h : (force || rotationNecessary r a now) = true) :
    mountNextCore s a r force now noFaults =
      rotTailC s { a with stamp := now } (collisionFree s.dir now) r now := by
  unfold mountNextCore
  simp only [h, hn]
  rw [openFile_ok]
  simp [rotTailC, flushAct]

theorem mountNextCore_n (s : St) (a : Active) (r : RotCfg) (force : Bool) (now : Nat) (f : File)
    (hn : r.naming = .numbers) (hh : a.handle = curN) (hf : s.dir.get curN = some f)
    (h : (force || rotationNecessary r a now) = true) :
    mountNextCore s a r force now noFaults =
      rotTailC { s with dir := (s.dir.erase curN).set ⟨some (.num a.idx), false⟩ f }
        { a with handle := ⟨some (.num a.idx), false⟩, idx := a.idx + 1 } .cur r now := by
  unfold mountNextCore
  have hr0 : hit noFaults.renameF 0 = false := rfl
  simp only [h, hn, hr0, Dir.rename, hf, hh]
  simp [rotTailC, flushAct, openFile_snd]

theorem mountNextCore_t (s : St) (a : Active) (r : RotCfg) (force : Bool) (now : Nat) (f : File)
    (hn : r.naming = .timestamps) (hh : a.handle = curN) (hf : s.dir.get curN = some f)
    (h : (force || rotationNecessary r a now) = true) :
    mountNextCore s a r force now noFaults =
      rotTailC { s with dir := (s.dir.erase curN).set ⟨some (collisionFree s.dir a.stamp), false⟩ f }
        { a with handle := ⟨some (collisionFree s.dir a.stamp), false⟩,
                 stamp := createdOr ((s.dir.erase curN).set
                   ⟨some (collisionFree s.dir a.stamp), false⟩ f) curN now } .cur r now := by
  unfold mountNextCore
  have hr0 : hit noFaults.renameF 0 = false := rfl
  simp only [h, hn, hr0, Dir.rename, hf, hh]
  simp [rotTailC, flushAct, openFile_snd]

theorem openFile_cfg (s : St) (n : FName) (now : Nat) :
    (openFile s n now noFaults 0).1.cfg = s.cfg := by
  unfold openFile
  cases s.cfg.symlink <;> simp [hit, noFaults]

/-- infix, index and stamp of the first file -/
def firstName (nm : Naming) (now : Nat) : Infix × Nat × Nat :=
  match nm with
  | .numbers => (.cur, 0, 0)
  | .timestamps => (.cur, 0, now)
  | .numbersDirect => (.num 0, 0, 0)
  | .timestampsDirect => (.ts now none, 0, now)

theorem initState_eq (s : St) (r : RotCfg) (now : Nat) (hrot : s.cfg.rot = some r)
    (happ : s.cfg.append = false) (hdir : s.dir = []) :
    initState s now noFaults =
      (let n : FName := ⟨some (firstName r.naming now).1, false⟩
       let s1 := (openFile s n now noFaults 0).1
       let c := cleanup now s1.cfg r noFaults s1.dir
       if c.2 then ({ s1 with dir := c.1 }, false)
       else ({ s1 with dir := c.1, act := some ⟨n, n, [], false, (firstName r.naming now).2.1,
                (firstName r.naming now).2.2, 0, createdOr s1.dir n now⟩ }, true)) := by
  obtain ⟨dir, scfg, sact, link, linkGen, errs, extCtr, archived⟩ := s
  simp only at hrot happ hdir
  subst hdir
  have hr0 : hit noFaults.renameF 0 = false := rfl
  have hcf : collisionFree [] now = .ts now none := by
    simp [collisionFree, Dir.has, Dir.get]
  cases hnm : r.naming <;>
    simp [initState, hrot, hnm, happ, hr0, hcf, highestIndex, FV.FlwA.rename_nil, firstName,
      openFile_snd, openFile_cfg, createdOr, FV.FlwA.get_nil]

/-! ### the description of the directory -/

/-- the number of *closed* plain files kept: for the direct namings the current file is one of
    the `kk` plain files of the listing -/
def kcOf (r : RotCfg) (k : Nat) : Nat := kkOf r k - (if r.naming.writesDirect then 1 else 0)

/-- what the naming state knows about the infix of a closed file -/
def Below (nm : Naming) (idx stamp : Nat) (h : FName) (i : Infix) : Prop :=
  match nm with
  | .numbers => ∃ n, i = .num n ∧ n < idx
  | .numbersDirect => ∃ n, i = .num n ∧ n < idx
  | .timestamps => ∃ k r, i = .ts k r ∧ k ≤ stamp
  | .timestampsDirect => ∃ k r, i = .ts k r ∧ k ≤ stamp ∧ keyLt i.key (nkey h) = true

/-- the name of the file being written -/
def HandleOK (nm : Naming) (idx stamp : Nat) (h : FName) : Prop :=
  match nm with
  | .numbers => h = curN
  | .timestamps => h = curN
  | .numbersDirect => h = ⟨some (.num idx), false⟩
  | .timestampsDirect => ∃ r0, h = ⟨some (.ts stamp r0), false⟩

/-- the directory `d` consists of the current file `(h, f)` and the closed files `C` (newest
    first): at most `kc + m`, the newest `kc` plain, the others compressed; their contents are
    the newest abstract closed files -/
structure CDir (hs : Bool) (kc m : Nat) (nm : Naming) (idx stamp : Nat) (d : Dir) (h : FName)
    (f : File) (C : List E) (closed : List (List Nat)) : Prop where
  perm : List.Perm d ((h, f) :: C)
  sorted : SortedD C
  pat : Pat hs kc C
  len : C.length ≤ kc + m
  data : C.map (·.2.data) = closed.reverse.take (kc + m)
  below : ∀ e ∈ C, ∃ i, e.1.ifx = some i ∧ Below nm idx stamp h i
  handle : HandleOK nm idx stamp h

theorem Below.rotated {nm : Naming} {idx stamp : Nat} {h : FName} {i : Infix}
    (hb : Below nm idx stamp h i) : i.rotated = true := by
  cases nm <;> simp only [Below] at hb
  · obtain ⟨n, rfl, -⟩ := hb; rfl
  · obtain ⟨n, rfl, -⟩ := hb; rfl
  · obtain ⟨k, r, rfl, -⟩ := hb; rfl
  · obtain ⟨k, r, rfl, -⟩ := hb; rfl

theorem HandleOK.gz {nm : Naming} {idx stamp : Nat} {h : FName} (hh : HandleOK nm idx stamp h) :
    h.gz = false := by
  cases nm <;> simp only [HandleOK] at hh
  · rw [hh]
  · rw [hh]
  · rw [hh]
  · obtain ⟨r0, rfl⟩ := hh; rfl

/-- for the direct namings the current file carries the largest key -/
theorem Below.key_lt {nm : Naming} {idx stamp : Nat} {h : FName} {i : Infix}
    (hd : nm.writesDirect = true) (hh : HandleOK nm idx stamp h)
    (hb : Below nm idx stamp h i) : keyLt i.key (nkey h) = true := by
  cases nm <;> simp only [Below, HandleOK, Naming.writesDirect] at hb hh hd
  · cases hd
  · obtain ⟨n, rfl, hn⟩ := hb
    rw [hh]
    simp [nkey, Infix.key, keyLt, hn]
  · cases hd
  · exact hb.choose_spec.choose_spec.2.2

theorem HandleOK.rotN {nm : Naming} {idx stamp : Nat} {h : FName}
    (hd : nm.writesDirect = true) (hh : HandleOK nm idx stamp h) : RotN h := by
  cases nm <;> simp only [HandleOK, Naming.writesDirect] at hh hd
  · cases hd
  · rw [hh]; exact ⟨_, rfl, rfl⟩
  · cases hd
  · obtain ⟨r0, rfl⟩ := hh; exact ⟨_, rfl, rfl⟩

theorem HandleOK.cur {nm : Naming} {idx stamp : Nat} {h : FName}
    (hd : nm.writesDirect = false) (hh : HandleOK nm idx stamp h) : h = curN := by
  cases nm <;> simp only [HandleOK, Naming.writesDirect] at hh hd
  · exact hh
  · cases hd
  · exact hh
  · cases hd

namespace CDir
variable {hs : Bool} {kc m : Nat} {nm : Naming} {idx stamp : Nat} {d : Dir} {h : FName}
  {f : File} {C : List E} {closed : List (List Nat)}

theorem rotN (hd : CDir hs kc m nm idx stamp d h f C closed) : ∀ e ∈ C, RotN e.1 := hd.sorted.2

theorem h_notin (hd : CDir hs kc m nm idx stamp d h f C closed) : ∀ e ∈ C, e.1 ≠ h := by
  intro e he heq
  obtain ⟨i, hi, hb⟩ := hd.below e he
  cases hw : nm.writesDirect with
  | false =>
    have := hd.handle.cur hw
    rw [← heq, ] at this
    rw [this] at hi
    cases hi
    have := hb.rotated
    simp [Infix.rotated] at this
  | true =>
    have := hb.key_lt hw hd.handle
    rw [← heq] at this
    simp only [nkey, hi] at this
    rw [keyLt_irrefl] at this
    cases this

theorem names_nodup (hd : CDir hs kc m nm idx stamp d h f C closed) :
    (((h, f) :: C).map (·.1)).Nodup := by
  rw [List.map_cons, List.nodup_cons]
  refine ⟨?_, names_nodup_of_ifxs hd.sorted.ifxs_nodup⟩
  intro hmem
  obtain ⟨e, he, heq⟩ := List.mem_map.1 hmem
  exact hd.h_notin e he heq

theorem get_handle (hd : CDir hs kc m nm idx stamp d h f C closed) : d.get h = some f :=
  get_of_perm hd.perm hd.names_nodup (by simp)

/-- for the direct namings the whole directory is sorted -/
theorem sortedAll (hd : CDir hs kc m nm idx stamp d h f C closed) (hw : nm.writesDirect = true) :
    SortedD ((h, f) :: C) := by
  constructor
  · rw [List.pairwise_cons]
    refine ⟨?_, hd.sorted.1⟩
    intro e he
    obtain ⟨i, hi, hb⟩ := hd.below e he
    have := hb.key_lt hw hd.handle
    simpa [nkey, hi] using this
  · intro e he
    rcases List.mem_cons.1 he with rfl | he
    · exact hd.handle.rotN hw
    · exact hd.sorted.2 e he

/-- replacing the content of the current file -/
theorem upd (hd : CDir hs kc m nm idx stamp d h f C closed) {d' : Dir} {f' : File}
    (hp : List.Perm d' ((h, f') :: C)) : CDir hs kc m nm idx stamp d' h f' C closed :=
  ⟨hp, hd.sorted, hd.pat, hd.len, hd.data, hd.below, hd.handle⟩

theorem parts_eq (hd : CDir hs kc m nm idx stamp d h f C closed) :
    parts d = C.reverse.map (·.2.data) ++ [f.data] := by
  cases hw : nm.writesDirect with
  | false =>
    have hcur := hd.handle.cur hw
    have hp : List.Perm d ([(h, f)] ++ C) := hd.perm
    have hX : ∀ e ∈ [(h, f)], isRot e = false := by
      intro e he
      simp only [List.mem_singleton] at he
      rw [he, hcur]; rfl
    have hext : ∀ e ∈ [(h, f)], ∀ n, e.1.ifx ≠ some (.ext n) := by
      intro e he n
      simp only [List.mem_singleton] at he
      rw [he, hcur]; simp
    rw [parts_of_perm hp hX hext hd.sorted]
    have h1 : Dir.get d ⟨some .cur, false⟩ = some f := by
      have := hd.get_handle
      rw [hcur] at this
      exact this
    have h2 : Dir.get d ⟨none, false⟩ = none := by
      apply get_none_of_perm hd.perm
      intro e he heq
      rcases List.mem_cons.1 he with rfl | he
      · rw [hcur] at heq; cases heq
      · obtain ⟨i, hi, -⟩ := hd.rotN e he
        rw [heq] at hi; cases hi
    rw [h1, h2]
    simp
  | true =>
    have hs := hd.sortedAll hw
    have hp : List.Perm d ([] ++ (h, f) :: C) := hd.perm
    rw [parts_of_perm hp (by simp) (by simp) hs]
    have h1 : Dir.get d ⟨some .cur, false⟩ = none := by
      apply get_none_of_perm hd.perm
      intro e he heq
      obtain ⟨i, hi, hr⟩ := hs.2 e he
      rw [heq] at hi
      cases hi
      simp [Infix.rotated] at hr
    have h2 : Dir.get d ⟨none, false⟩ = none := by
      apply get_none_of_perm hd.perm
      intro e he heq
      obtain ⟨i, hi, hr⟩ := hs.2 e he
      rw [heq] at hi
      cases hi
    rw [h1, h2]
    simp

end CDir

/-! ### rotation followed by cleanup -/

theorem take_cons_take {α : Type} (K : Nat) (x : α) (l : List α) :
    (x :: l.take K).take K = (x :: l).take K := by
  cases K with
  | zero => rfl
  | succ K0 =>
    rw [List.take_succ_cons, List.take_succ_cons, List.take_take]
    congr 2
    omega

theorem SortedD.cons_congr {h : FName} {f f' : File} {C : List E} (hs : SortedD ((h, f) :: C)) :
    SortedD ((h, f') :: C) := by
  constructor
  · have := hs.1
    rw [List.pairwise_cons] at this ⊢
    exact this
  · intro e he
    rcases List.mem_cons.1 he with rfl | he
    · exact hs.2 (h, f) (by simp)
    · exact hs.2 e (by simp [he])

theorem kkOf_direct {r : RotCfg} {k : Nat} (hw : r.naming.writesDirect = true) :
    kkOf r k = kcOf r k + 1 := by
  unfold kcOf kkOf
  simp only [hw, if_true, Bool.true_and]
  by_cases hk : k = 0 <;> simp [hk]
  omega

theorem kkOf_indirect {r : RotCfg} {k : Nat} (hw : r.naming.writesDirect = false) :
    kkOf r k = kcOf r k := by
  unfold kcOf kkOf
  simp [hw]

theorem cleanup_spec' (now : Nat) (cfg : Cfg) (r : RotCfg) (k m : Nat)
    (hc : r.cleanup = some (k, m)) (d : Dir) (X N A B : List E) (hAB : N = A ++ B)
    (hp : List.Perm d (X ++ N))
    (hX : ∀ e ∈ X, isRot e = false) (hXn : (ifxs X).Nodup) (hN : SortedD N)
    (hA : ∀ e ∈ A, e.1.gz = false) (hB : ∀ e ∈ B, e.1.gz = true) :
    ∃ d' : Dir, cleanup now cfg r noFaults d = (d', false) ∧
      List.Perm d' (X ++ T cfg.hasSuffix now (kkOf r k) m N) := by
  subst hAB
  exact cleanup_spec now cfg r k m hc d X A B hp hX hXn hN hA hB

/-- the heart of C07: opening the next file, flushing the old writer and cleaning up leaves the
    new current file and the newest closed files, the older ones compressed -/
theorem rotTailC_spec (cfg : Cfg) (r : RotCfg) (k m : Nat) (hc : r.cleanup = some (k, m))
    (s : St) (hcfg : s.cfg = cfg) (act : Active) (ti : Infix) (now : Nat) (f : File)
    (C : List E) (closed : List (List Nat))
    (hp : List.Perm s.dir ((act.handle, f) :: C)) (hsC : SortedD ((act.handle, f) :: C))
    (hgz : act.handle.gz = false) (hpat : Pat cfg.hasSuffix (kcOf r k) C)
    (hdata : C.map (·.2.data) = closed.reverse.take (kcOf r k + m))
    (hnew : if r.naming.writesDirect = true
      then ti.rotated = true ∧ keyLt (nkey act.handle) ti.key = true else ti = .cur)
    (hbelow : ∀ e ∈ (act.handle, f) :: C, ∃ i, e.1.ifx = some i ∧
      Below r.naming act.idx act.stamp ⟨some ti, false⟩ i)
    (hh : HandleOK r.naming act.idx act.stamp ⟨some ti, false⟩) :
    (rotTailC s act ti r now).2.2 = false ∧ (rotTailC s act ti r now).1.cfg = cfg ∧
    (rotTailC s act ti r now).1.act = s.act ∧
    (rotTailC s act ti r now).2.1 =
      { act with pending := [], handle := ⟨some ti, false⟩, path := ⟨some ti, false⟩,
                 unbuffered := false, size := 0, created := now } ∧
    ∃ C', CDir cfg.hasSuffix (kcOf r k) m r.naming act.idx act.stamp
      (rotTailC s act ti r now).1.dir ⟨some ti, false⟩ ⟨[], now⟩ C'
      (closed ++ [f.data ++ act.pending]) ∧
      FV.FlwL.IfxDistinct (preCleanupDir s act ti now) := by
  -- the new name is new
  have hnotin : ∀ e ∈ (act.handle, f) :: C, e.1 ≠ (⟨some ti, false⟩ : FName) := by
    intro e he heq
    by_cases hw : r.naming.writesDirect = true
    · rw [if_pos hw] at hnew
      have h1 : keyLt (nkey e.1) ti.key = true := by
        rcases List.mem_cons.1 he with rfl | he
        · exact hnew.2
        · have := hsC.1
          rw [List.pairwise_cons] at this
          exact keyLt_trans (this.1 e he) hnew.2
      rw [heq] at h1
      simp only [nkey] at h1
      rw [keyLt_irrefl] at h1
      cases h1
    · rw [if_neg hw] at hnew
      obtain ⟨i, hi, hr⟩ := hsC.2 e he
      rw [heq] at hi
      cases hi
      rw [hnew] at hr
      simp [Infix.rotated] at hr
  have hget : s.dir.get ⟨some ti, false⟩ = none := get_none_of_perm hp hnotin
  obtain ⟨-, hocfg, hoact, hodir⟩ := openFile_new s ⟨some ti, false⟩ now hget
  have hnd0 : (((act.handle, f) :: C).map (·.1)).Nodup := names_nodup_of_ifxs hsC.ifxs_nodup
  have hp1 : List.Perm (s.dir.set ⟨some ti, false⟩ ⟨[], now⟩)
      ((⟨some ti, false⟩, ⟨[], now⟩) :: (act.handle, f) :: C) := perm_set_new _ hp hnotin
  have hnd1 : (((⟨some ti, false⟩, (⟨[], now⟩ : File)) :: (act.handle, f) :: C).map (·.1)).Nodup := by
    rw [List.map_cons, List.nodup_cons]
    refine ⟨?_, hnd0⟩
    intro hmem
    obtain ⟨e, he, heq⟩ := List.mem_map.1 hmem
    exact hnotin e he heq
  have hp2 : List.Perm ((s.dir.set ⟨some ti, false⟩ ⟨[], now⟩).append act.handle act.pending)
      ((⟨some ti, false⟩, ⟨[], now⟩) ::
        (act.handle, { f with data := f.data ++ act.pending }) :: C) :=
    perm_append_old (M1 := [(⟨some ti, false⟩, ⟨[], now⟩)]) act.pending hp1 hnd1
  have hnd2 : (((⟨some ti, false⟩, (⟨[], now⟩ : File)) ::
      (act.handle, ({ f with data := f.data ++ act.pending } : File)) :: C).map (·.1)).Nodup := by
    simpa using hnd1
  have hcr : createdOr ((s.dir.set ⟨some ti, false⟩ ⟨[], now⟩).append act.handle act.pending)
      ⟨some ti, false⟩ now = now := by
    unfold createdOr
    rw [get_of_perm (f := ⟨[], now⟩) hp2 hnd2 (by simp)]
  have hsC' : SortedD ((act.handle, ({ f with data := f.data ++ act.pending } : File)) :: C) :=
    hsC.cons_congr
  -- no infix occurs twice in the directory handed to `cleanup`
  have hdist : FV.FlwL.IfxDistinct (preCleanupDir s act ti now) := by
    have e : preCleanupDir s act ti now =
        (s.dir.set ⟨some ti, false⟩ ⟨[], now⟩).append act.handle act.pending := by
      unfold preCleanupDir; rw [hodir]
    rw [e]
    refine (List.Perm.pairwise_iff (fun hxy => Ne.symm hxy) hp2).2 (List.pairwise_cons.2 ⟨?_, ?_⟩)
    · intro e he heq
      simp only at heq
      by_cases hw : r.naming.writesDirect = true
      · rw [if_pos hw] at hnew
        have h1 : keyLt (nkey e.1) ti.key = true := by
          rcases List.mem_cons.1 he with rfl | he
          · exact hnew.2
          · have := hsC.1
            rw [List.pairwise_cons] at this
            exact keyLt_trans (this.1 e he) hnew.2
        simp only [nkey, ← heq] at h1
        rw [keyLt_irrefl] at h1
        cases h1
      · rw [if_neg hw] at hnew
        obtain ⟨i, hi, hr⟩ := hsC'.2 e he
        rw [hi] at heq
        cases heq
        rw [hnew] at hr
        simp [Infix.rotated] at hr
    · have := hsC'.ifxs_nodup
      unfold ifxs at this
      rw [List.nodup_iff_pairwise_ne, List.pairwise_map] at this
      exact this
  -- the listing, split into its plain and compressed part
  obtain ⟨A0, B0, hAB, hA0, hB0, -, -⟩ := hpat.split
  -- cleanup
  have hclean : ∃ d4 : Dir, cleanup now cfg r noFaults
        ((s.dir.set ⟨some ti, false⟩ ⟨[], now⟩).append act.handle act.pending) = (d4, false) ∧
      List.Perm d4 ((⟨some ti, false⟩, ⟨[], now⟩) :: T cfg.hasSuffix now (kcOf r k) m
        ((act.handle, { f with data := f.data ++ act.pending }) :: C)) := by
    by_cases hw : r.naming.writesDirect = true
    · rw [if_pos hw] at hnew
      have hsAll : SortedD ((⟨some ti, false⟩, (⟨[], now⟩ : File)) ::
          (act.handle, ({ f with data := f.data ++ act.pending } : File)) :: C) := by
        constructor
        · rw [List.pairwise_cons]
          refine ⟨?_, hsC'.1⟩
          intro e he
          rcases List.mem_cons.1 he with rfl | he
          · exact hnew.2
          · have := hsC.1
            rw [List.pairwise_cons] at this
            exact keyLt_trans (this.1 e he) hnew.2
        · intro e he
          rcases List.mem_cons.1 he with rfl | he
          · exact ⟨ti, rfl, hnew.1⟩
          · exact hsC'.2 e he
      obtain ⟨d4, h1, h2⟩ := cleanup_spec' now cfg r k m hc
        ((s.dir.set ⟨some ti, false⟩ ⟨[], now⟩).append act.handle act.pending) []
        ((⟨some ti, false⟩, ⟨[], now⟩) :: (act.handle, { f with data := f.data ++ act.pending }) :: C)
        ((⟨some ti, false⟩, ⟨[], now⟩) :: (act.handle, { f with data := f.data ++ act.pending }) :: A0)
        B0 (by rw [hAB]; rfl) hp2
        (by simp) (by simp [ifxs])
        hsAll
        (by
          intro e he
          rcases List.mem_cons.1 he with rfl | he
          · rfl
          rcases List.mem_cons.1 he with rfl | he
          · exact hgz
          · exact hA0 e he)
        hB0
      refine ⟨d4, h1, ?_⟩
      rw [kkOf_direct hw, T_cons_succ] at h2
      exact h2
    · have hw' : r.naming.writesDirect = false := by simpa using hw
      rw [if_neg hw] at hnew
      obtain ⟨d4, h1, h2⟩ := cleanup_spec' now cfg r k m hc
        ((s.dir.set ⟨some ti, false⟩ ⟨[], now⟩).append act.handle act.pending)
        [(⟨some ti, false⟩, ⟨[], now⟩)]
        ((act.handle, { f with data := f.data ++ act.pending }) :: C)
        ((act.handle, { f with data := f.data ++ act.pending }) :: A0)
        B0 (by rw [hAB]; rfl) hp2
        (by
          intro e he
          simp only [List.mem_singleton] at he
          rw [he, hnew]; rfl)
        (by simp [ifxs])
        hsC'
        (by
          intro e he
          rcases List.mem_cons.1 he with rfl | he
          · exact hgz
          · exact hA0 e he)
        hB0
      refine ⟨d4, h1, ?_⟩
      rw [kkOf_indirect hw'] at h2
      exact h2
  obtain ⟨d4, hcl, hp4⟩ := hclean
  have hres : rotTailC s act ti r now =
      ({ (openFile s ⟨some ti, false⟩ now noFaults 0).1 with dir := d4 },
       { act with pending := [], handle := ⟨some ti, false⟩, path := ⟨some ti, false⟩,
                  unbuffered := false, size := 0, created := now }, false) := by
    unfold rotTailC
    simp only [hodir, hocfg, hcfg, hcl, hcr]
  rw [hres]
  refine ⟨rfl, hocfg.trans hcfg, hoact, rfl, _, ⟨hp4, T_sorted _ _ _ _ hsC', ?_, T_length _ _ _ _ _,
    ?_, ?_, hh⟩, hdist⟩
  · exact hpat.T now m (act.handle, _) hgz
  · rw [T_data, List.map_cons, hdata, take_cons_take]
    simp
  · intro e he
    obtain ⟨e0, he0, hi0⟩ := mem_T he
    rw [hi0]
    rcases List.mem_cons.1 he0 with rfl | he0
    · exact hbelow (act.handle, f) (by simp)
    · exact hbelow e0 (by simp [he0])

/-! ### the invariant -/

structure CInv (cfg : Cfg) (r : RotCfg) (k m : Nat) (d : Dir) (act : Active) (a : Abs) : Prop where
  started : a.started = true
  dir : ∃ f C, CDir cfg.hasSuffix (kcOf r k) m r.naming act.idx act.stamp d act.handle f C a.closed ∧
    f.data ++ act.pending = a.cur
  unbuf : act.unbuffered = false
  direct : cfg.cap = none → act.pending = []
  size : act.size = a.size
  created : act.created = a.created

/-- `t`: a lower bound of all clock readings still to come -/
def Inv (cfg : Cfg) (r : RotCfg) (k m : Nat) (t : Nat) (s : St) (a : Abs) : Prop :=
  s.cfg = cfg ∧
  match s.act with
  | none => s.dir = [] ∧ a = Abs.init
  | some act => CInv cfg r k m s.dir act a ∧ act.stamp ≤ t

/-! ### writing and flushing -/

theorem writeRaw_perm (s : St) (act : Active) (b : List Nat) (f : File) (M : List E)
    (hp : List.Perm s.dir ((act.handle, f) :: M))
    (hnd : (((act.handle, f) :: M).map (·.1)).Nodup) (hu : act.unbuffered = false)
    (hd : s.cfg.cap = none → act.pending = []) :
    ∃ (d' : Dir) (p' : List Nat) (f' : File),
      writeRaw s act b = ({ s with dir := d' }, { act with pending := p' }) ∧
      List.Perm d' ((act.handle, f') :: M) ∧ f'.data ++ p' = f.data ++ act.pending ++ b ∧
      (s.cfg.cap = none → p' = []) := by
  obtain ⟨handle, path, pending, unb, idx, stamp, size, created⟩ := act
  simp only at hu hp hnd hd ⊢
  subst hu
  have app : ∀ (d : Dir) (f1 : File) (x : List Nat), List.Perm d ((handle, f1) :: M) →
      List.Perm (d.append handle x) ((handle, { f1 with data := f1.data ++ x }) :: M) := by
    intro d f1 x h
    exact perm_append_old (M1 := []) x h (by simpa using hnd)
  cases hcap : s.cfg.cap with
  | none =>
    have hpd := hd hcap
    refine ⟨s.dir.append handle b, pending, _, ?_, app _ _ b hp, ?_, fun _ => hpd⟩
    · simp [writeRaw, hcap]
    · simp [hpd]
  | some c =>
    by_cases h1 : pending.length + b.length > c <;> by_cases h2 : b.length ≥ c
    · refine ⟨(s.dir.append handle pending).append handle b, [], _, ?_,
        app _ _ b (app _ _ pending hp), ?_, fun hh => (by cases hh)⟩
      · simp [writeRaw, hcap, h1, h2, flushAct]
      · simp
    · refine ⟨s.dir.append handle pending, [] ++ b, _, ?_, app _ _ pending hp, ?_,
        fun hh => (by cases hh)⟩
      · simp [writeRaw, hcap, h1, h2, flushAct]
      · simp
    · have hpd : pending = [] := by
        have : pending.length = 0 := by omega
        exact List.length_eq_zero_iff.1 this
      refine ⟨s.dir.append handle b, pending, _, ?_, app _ _ b hp, ?_,
        fun hh => (by cases hh)⟩
      · simp [writeRaw, hcap, h1, h2]
      · simp [hpd]
    · refine ⟨s.dir, pending ++ b, f, ?_, hp, ?_, fun hh => (by cases hh)⟩
      · simp [writeRaw, hcap, h1, h2]
      · simp

/-- the result of `writeBuffer` once the writer is mounted on `(s2, act2)` -/
def wrote (s2 : St) (act2 : Active) (b : List Nat) : St :=
  { (writeRaw s2 act2 b).1 with
    act := some { (writeRaw s2 act2 b).2 with size := (writeRaw s2 act2 b).2.size + b.length } }

theorem wrote_inv (cfg : Cfg) (r : RotCfg) (k m : Nat) (s2 : St) (act2 : Active) (a2 : Abs)
    (b : List Nat) (t : Nat) (hcfg : s2.cfg = cfg) (hi : CInv cfg r k m s2.dir act2 a2)
    (hst : act2.stamp ≤ t) :
    Inv cfg r k m t (wrote s2 act2 b) { a2 with cur := a2.cur ++ b, size := a2.size + b.length } := by
  obtain ⟨f, C, hd, hcur⟩ := hi.dir
  obtain ⟨d', p', f', hw, hp', hdat, hdir⟩ := writeRaw_perm s2 act2 b f C hd.perm hd.names_nodup
    hi.unbuf (by rw [hcfg]; exact hi.direct)
  unfold wrote
  rw [hw]
  refine ⟨hcfg, ?_⟩
  refine ⟨⟨hi.started, ⟨f', C, hd.upd hp', ?_⟩, hi.unbuf, ?_, ?_, hi.created⟩, hst⟩
  · simp only [hdat, hcur]
  · intro h; exact hdir (by rw [hcfg]; exact h)
  · simp [hi.size]

theorem flush_inv (cfg : Cfg) (r : RotCfg) (k m : Nat) (s : St) (act : Active) (a : Abs)
    (hi : CInv cfg r k m s.dir act a) :
    CInv cfg r k m (s.dir.append act.handle act.pending) { act with pending := [] } a := by
  obtain ⟨f, C, hd, hcur⟩ := hi.dir
  have hp' := perm_append_old (M1 := []) act.pending hd.perm hd.names_nodup
  exact ⟨hi.started, ⟨_, C, hd.upd hp', by simpa using hcur⟩, hi.unbuf, fun _ => rfl, hi.size,
    hi.created⟩

/-! ### rotation preserves the invariant -/

/-- the premises on the configuration -/
structure CfgC (cfg : Cfg) (r : RotCfg) (k m : Nat) : Prop where
  rot : cfg.rot = some r
  append : cfg.append = false
  cleanup : r.cleanup = some (k, m)

theorem keyLt_total {x y : Nat × Nat} (hne : x ≠ y) (h : keyLt y x = false) : keyLt x y = true := by
  obtain ⟨x1, x2⟩ := x
  obtain ⟨y1, y2⟩ := y
  cases hxy : keyLt (x1, x2) (y1, y2) with
  | true => rfl
  | false =>
    exfalso
    apply hne
    simp [keyLt] at h hxy
    have : x1 = y1 := by omega
    have : x2 = y2 := by omega
    simp [*]

theorem ts_key_inj {a c : Nat} {b d : Option Nat} (h : (Infix.ts a b).key = (Infix.ts c d).key) :
    Infix.ts a b = Infix.ts c d := by
  cases b <;> cases d <;> simp [Infix.key] at h ⊢ <;> omega

theorem keyLt_total_ts {a c : Nat} {b d : Option Nat} (hne : Infix.ts a b ≠ Infix.ts c d)
    (h : keyLt (Infix.ts c d).key (Infix.ts a b).key = false) :
    keyLt (Infix.ts a b).key (Infix.ts c d).key = true :=
  keyLt_total (fun heq => hne (ts_key_inj heq)) h

theorem finish_rot {res : St × Active × Bool} {cfg : Cfg} {r : RotCfg} {k m : Nat} {a : Abs}
    {now : Nat} {X : Active} (h1 : res.2.2 = false) (h2 : res.1.cfg = cfg) (h4 : res.2.1 = X)
    (hinv : CInv cfg r k m res.1.dir X (a.rotate now)) (hst : X.stamp ≤ now) :
    ∃ s' act', res = (s', act', false) ∧ s'.cfg = cfg ∧
      CInv cfg r k m s'.dir act' (a.rotate now) ∧ act'.stamp ≤ now := by
  obtain ⟨s', act', e⟩ := res
  simp only at h1 h2 h4 hinv
  subst h1 h4
  exact ⟨_, _, rfl, h2, hinv, hst⟩

/-- the name chosen by `collisionFree` lies above every timestamp file with a stamp `≤ k` -/
theorem collisionFree_above (d : Dir) (k : Nat) (e : E) (he : e ∈ ents d) (k' : Nat)
    (r' : Option Nat) (h : e.1.ifx = some (.ts k' r')) (hk : k' ≤ k) :
    keyLt (Infix.ts k' r').key (collisionFree d k).key = true := by
  have h1 := FV.FlwA.collisionFree_key d k e he k' r' h hk
  have h2 := FV.FlwA.collisionFree_fresh d k e he
  obtain ⟨rr, hrr⟩ := FV.FlwA.collisionFree_ts d k
  rw [hrr] at h1 h2 ⊢
  apply keyLt_total_ts
  · intro heq
    rw [h, heq] at h2
    exact h2 rfl
  · exact h1

theorem CInv.of_rot {cfg : Cfg} {r : RotCfg} {k m : Nat} {d d' : Dir} {act act1 : Active}
    {a : Abs} (hi : CInv cfg r k m d act a) {f : File} (hcur : f.data ++ act.pending = a.cur)
    (ti : Infix) (now : Nat) {C' : List E}
    (hd' : CDir cfg.hasSuffix (kcOf r k) m r.naming act1.idx act1.stamp d' ⟨some ti, false⟩
      ⟨[], now⟩ C' (a.closed ++ [f.data ++ act.pending])) :
    CInv cfg r k m d'
      { act1 with pending := [], handle := ⟨some ti, false⟩, path := ⟨some ti, false⟩,
                  unbuffered := false, size := 0, created := now } (a.rotate now) := by
  refine ⟨hi.started, ⟨⟨[], now⟩, C', ?_, rfl⟩, rfl, fun _ => rfl, rfl, rfl⟩
  rw [hcur] at hd'
  exact hd'

theorem mountNextCore_rot {cfg : Cfg} {r : RotCfg} {k m : Nat} (hC : CfgC cfg r k m) (s : St)
    (act : Active) (a : Abs) (force : Bool) (now : Nat) (hcfg : s.cfg = cfg)
    (hi : CInv cfg r k m s.dir act a) (hst : act.stamp ≤ now)
    (h : (force || rotationNecessary r act now) = true) :
    (∃ s' act', mountNextCore s act r force now noFaults = (s', act', false) ∧ s'.cfg = cfg ∧
      CInv cfg r k m s'.dir act' (a.rotate now) ∧ act'.stamp ≤ now) ∧
    (∃ s0 act0 ti, mountNextCore s act r force now noFaults = rotTailC s0 act0 ti r now ∧
      FV.FlwL.IfxDistinct (preCleanupDir s0 act0 ti now)) := by
  obtain ⟨f, C, hd, hcur⟩ := hi.dir
  have hb := hd.below
  have hH := hd.handle
  cases hnm : r.naming with
  | numbers =>
    have hw : r.naming.writesDirect = false := by rw [hnm]; rfl
    rw [hnm] at hb hH
    simp only [Below, HandleOK] at hb hH
    have hf : s.dir.get curN = some f := by rw [← hH]; exact hd.get_handle
    rw [mountNextCore_n s act r force now f hnm hH hf h]
    have hperm0 : List.Perm s.dir ([] ++ (curN, f) :: C) := by rw [← hH]; exact hd.perm
    have hnd0 : (([] ++ (curN, f) :: C).map (fun e : E => e.1)).Nodup := by rw [← hH]; exact hd.names_nodup
    have hnotin : ∀ e ∈ C, e.1 ≠ (⟨some (.num act.idx), false⟩ : FName) := by
      intro e he heq
      obtain ⟨i, hi1, n, rfl, hn⟩ := hb e he
      rw [heq] at hi1
      cases hi1
      omega
    have hperm : List.Perm ((s.dir.erase curN).set ⟨some (.num act.idx), false⟩ f)
        ((⟨some (.num act.idx), false⟩, f) :: C) :=
      perm_set_new f (perm_erase_old hperm0 hnd0) hnotin
    have hsC : SortedD ((⟨some (.num act.idx), false⟩, f) :: C) := by
      constructor
      · rw [List.pairwise_cons]
        refine ⟨?_, hd.sorted.1⟩
        intro e he
        obtain ⟨i, hi1, n, rfl, hn⟩ := hb e he
        simp [nkey, hi1, Infix.key, keyLt, hn]
      · intro e he
        rcases List.mem_cons.1 he with rfl | he
        · exact ⟨_, rfl, rfl⟩
        · exact hd.sorted.2 e he
    obtain ⟨h1, h2, -, h4, C', h5, h6⟩ := rotTailC_spec cfg r k m hC.cleanup
      { s with dir := (s.dir.erase curN).set ⟨some (.num act.idx), false⟩ f } hcfg
      { act with handle := ⟨some (.num act.idx), false⟩, idx := act.idx + 1 } .cur now f C a.closed
      hperm hsC rfl hd.pat hd.data (by rw [if_neg (by simp [hw])])
      (by
        rw [hnm]
        intro e he
        rcases List.mem_cons.1 he with rfl | he
        · exact ⟨_, rfl, act.idx, rfl, Nat.lt_succ_self _⟩
        · obtain ⟨i, hi1, n, rfl, hn⟩ := hb e he
          exact ⟨_, hi1, n, rfl, Nat.lt_succ_of_lt hn⟩)
      (by rw [hnm]; rfl)
    exact ⟨finish_rot h1 h2 h4 (hi.of_rot hcur .cur now h5) hst, _, _, _, rfl, h6⟩
  | timestamps =>
    have hw : r.naming.writesDirect = false := by rw [hnm]; rfl
    rw [hnm] at hb hH
    simp only [Below, HandleOK] at hb hH
    have hf : s.dir.get curN = some f := by rw [← hH]; exact hd.get_handle
    rw [mountNextCore_t s act r force now f hnm hH hf h]
    obtain ⟨rr, hrr⟩ := FV.FlwA.collisionFree_ts s.dir act.stamp
    have hperm0 : List.Perm s.dir ([] ++ (curN, f) :: C) := by rw [← hH]; exact hd.perm
    have hnd0 : (([] ++ (curN, f) :: C).map (fun e : E => e.1)).Nodup := by rw [← hH]; exact hd.names_nodup
    have hmemC : ∀ e ∈ C, e ∈ ents s.dir := fun e he => hd.perm.symm.subset (by simp [he])
    have habove : ∀ e ∈ C, keyLt (nkey e.1) (collisionFree s.dir act.stamp).key = true := by
      intro e he
      obtain ⟨i, hi1, k', r', rfl, hk⟩ := hb e he
      have := collisionFree_above s.dir act.stamp e (hmemC e he) k' r' hi1 hk
      simpa [nkey, hi1] using this
    have hnotin : ∀ e ∈ C, e.1 ≠ (⟨some (collisionFree s.dir act.stamp), false⟩ : FName) := by
      intro e he heq
      have := habove e he
      rw [heq] at this
      simp only [nkey] at this
      rw [keyLt_irrefl] at this
      cases this
    have hperm : List.Perm ((s.dir.erase curN).set ⟨some (collisionFree s.dir act.stamp), false⟩ f)
        ((⟨some (collisionFree s.dir act.stamp), false⟩, f) :: C) :=
      perm_set_new f (perm_erase_old hperm0 hnd0) hnotin
    have hsC : SortedD ((⟨some (collisionFree s.dir act.stamp), false⟩, f) :: C) := by
      constructor
      · rw [List.pairwise_cons]
        refine ⟨?_, hd.sorted.1⟩
        intro e he
        exact habove e he
      · intro e he
        rcases List.mem_cons.1 he with rfl | he
        · exact ⟨_, rfl, by rw [hrr]; rfl⟩
        · exact hd.sorted.2 e he
    have hcr : createdOr ((s.dir.erase curN).set ⟨some (collisionFree s.dir act.stamp), false⟩ f)
        curN now = now := by
      unfold createdOr
      rw [get_none_of_perm hperm]
      intro e he heq
      obtain ⟨i, hi1, hr1⟩ := hsC.2 e he
      rw [heq] at hi1
      cases hi1
      simp [Infix.rotated] at hr1
    rw [hcr]
    obtain ⟨h1, h2, -, h4, C', h5, h6⟩ := rotTailC_spec cfg r k m hC.cleanup
      { s with dir := (s.dir.erase curN).set ⟨some (collisionFree s.dir act.stamp), false⟩ f } hcfg
      { act with handle := ⟨some (collisionFree s.dir act.stamp), false⟩, stamp := now } .cur now f C
      a.closed hperm hsC rfl hd.pat hd.data (by rw [if_neg (by simp [hw])])
      (by
        rw [hnm]
        intro e he
        rcases List.mem_cons.1 he with rfl | he
        · exact ⟨_, rfl, act.stamp, rr, hrr, hst⟩
        · obtain ⟨i, hi1, k', r', rfl, hk⟩ := hb e he
          exact ⟨_, hi1, k', r', rfl, Nat.le_trans hk hst⟩)
      (by rw [hnm]; rfl)
    exact ⟨finish_rot h1 h2 h4 (hi.of_rot hcur .cur now h5) (Nat.le_refl _), _, _, _, rfl, h6⟩
  | numbersDirect =>
    have hw : r.naming.writesDirect = true := by rw [hnm]; rfl
    have hsAll := hd.sortedAll hw
    rw [hnm] at hb hH
    simp only [Below, HandleOK] at hb hH
    rw [mountNextCore_nD s act r force now hnm h]
    obtain ⟨h1, h2, -, h4, C', h5, h6⟩ := rotTailC_spec cfg r k m hC.cleanup s hcfg
      { act with idx := act.idx + 1 } (.num (act.idx + 1)) now f C a.closed
      hd.perm hsAll (by rw [hH]) hd.pat hd.data
      (by
        rw [if_pos hw]
        refine ⟨rfl, ?_⟩
        show keyLt (nkey act.handle) _ = true
        rw [hH]
        simp [nkey, Infix.key, keyLt])
      (by
        rw [hnm]
        intro e he
        rcases List.mem_cons.1 he with rfl | he
        · exact ⟨.num act.idx, by rw [hH], act.idx, rfl, Nat.lt_succ_self _⟩
        · obtain ⟨i, hi1, n, rfl, hn⟩ := hb e he
          exact ⟨_, hi1, n, rfl, Nat.lt_succ_of_lt hn⟩)
      (by rw [hnm]; rfl)
    exact ⟨finish_rot h1 h2 h4 (hi.of_rot hcur _ now h5) hst, _, _, _, rfl, h6⟩
  | timestampsDirect =>
    have hw : r.naming.writesDirect = true := by rw [hnm]; rfl
    have hsAll := hd.sortedAll hw
    rw [hnm] at hb hH
    simp only [Below, HandleOK] at hb hH
    obtain ⟨r0, hH⟩ := hH
    rw [mountNextCore_tD s act r force now hnm h]
    obtain ⟨rr, hrr⟩ := FV.FlwA.collisionFree_ts s.dir now
    have hmemH : (act.handle, f) ∈ ents s.dir := hd.perm.symm.subset (by simp)
    have habove : keyLt (nkey act.handle) (collisionFree s.dir now).key = true := by
      have := collisionFree_above s.dir now (act.handle, f) hmemH act.stamp r0 (by rw [hH]) hst
      simpa [nkey, hH] using this
    obtain ⟨h1, h2, -, h4, C', h5, h6⟩ := rotTailC_spec cfg r k m hC.cleanup s hcfg
      { act with stamp := now } (collisionFree s.dir now) now f C a.closed
      hd.perm hsAll (by rw [hH]) hd.pat hd.data
      (by
        rw [if_pos hw]
        exact ⟨by rw [hrr]; rfl, habove⟩)
      (by
        rw [hnm]
        intro e he
        rcases List.mem_cons.1 he with rfl | he
        · refine ⟨.ts act.stamp r0, by rw [hH], act.stamp, r0, rfl, hst, ?_⟩
          have := habove
          simpa [nkey, hH] using this
        · obtain ⟨i, hi1, k', r', rfl, hk, hlt⟩ := hb e he
          exact ⟨_, hi1, k', r', rfl, Nat.le_trans hk hst, keyLt_trans hlt habove⟩)
      (by rw [hnm]; exact ⟨rr, by rw [hrr]⟩)
    exact ⟨finish_rot h1 h2 h4 (hi.of_rot hcur _ now h5) (Nat.le_refl _), _, _, _, rfl, h6⟩

/-- `mountNext`: the `BufWriter` is flushed into the file that is rotated out, then the
    rotation proper -/
theorem mountNext_rot {cfg : Cfg} {r : RotCfg} {k m : Nat} (hC : CfgC cfg r k m) (s : St)
    (act : Active) (a : Abs) (force : Bool) (now : Nat) (hcfg : s.cfg = cfg)
    (hi : CInv cfg r k m s.dir act a) (hst : act.stamp ≤ now)
    (h : (force || rotationNecessary r act now) = true) :
    (∃ s' act', mountNext s act r force now noFaults = (s', act', false) ∧ s'.cfg = cfg ∧
      CInv cfg r k m s'.dir act' (a.rotate now) ∧ act'.stamp ≤ now) ∧
    (∃ s0 act0 ti, mountNext s act r force now noFaults = rotTailC s0 act0 ti r now ∧
      FV.FlwL.IfxDistinct (preCleanupDir s0 act0 ti now)) := by
  rw [FV.FlwA.mountNext_due s act r force now noFaults h]
  exact mountNextCore_rot hC (flushAct s act).1 (flushAct s act).2 a true now hcfg
    (flush_inv cfg r k m s act a hi) hst rfl

/-! ### initialisation -/

theorem T_nil (hs : Bool) (now k m : Nat) : T hs now k m [] = [] := by simp [T]

/-- cleanup right after the first file has been created does nothing -/
theorem cleanup_first (now : Nat) (cfg : Cfg) (r : RotCfg) (k m : Nat) (hc : r.cleanup = some (k, m))
    (n : FName) (v : File)
    (hn : if r.naming.writesDirect = true then RotN n ∧ n.gz = false else n = curN) :
    ∃ d' : Dir, cleanup now cfg r noFaults (Dir.set [] n v) = (d', false) ∧
      List.Perm d' [(n, v)] := by
  have hd : Dir.set [] n v = [(n, v)] := rfl
  by_cases hw : r.naming.writesDirect = true
  · rw [if_pos hw] at hn
    obtain ⟨d', h1, h2⟩ := cleanup_spec' now cfg r k m hc (Dir.set [] n v) [] [(n, v)] [(n, v)] []
      rfl (by rw [hd]; exact List.Perm.refl _) (by simp) (by simp [ifxs])
      ⟨by simp, by intro e he; simp only [List.mem_singleton] at he; rw [he]; exact hn.1⟩
      (by intro e he; simp only [List.mem_singleton] at he; rw [he]; exact hn.2) (by simp)
    refine ⟨d', h1, ?_⟩
    rw [kkOf_direct hw, T_cons_succ, T_nil] at h2
    exact h2
  · rw [if_neg hw] at hn
    obtain ⟨d', h1, h2⟩ := cleanup_spec' now cfg r k m hc (Dir.set [] n v) [(n, v)] [] [] []
      rfl (by rw [hd]; exact List.Perm.refl _)
      (by intro e he; simp only [List.mem_singleton] at he; rw [he, hn]; rfl) (by simp [ifxs])
      ⟨by simp, by simp⟩ (by simp) (by simp)
    refine ⟨d', h1, ?_⟩
    rw [T_nil] at h2
    exact h2

theorem firstName_ok (nm : Naming) (now : Nat) :
    HandleOK nm (firstName nm now).2.1 (firstName nm now).2.2 ⟨some (firstName nm now).1, false⟩ ∧
    (firstName nm now).2.2 ≤ now ∧
    (if nm.writesDirect = true
      then RotN ⟨some (firstName nm now).1, false⟩ ∧ (⟨some (firstName nm now).1, false⟩ : FName).gz = false
      else (⟨some (firstName nm now).1, false⟩ : FName) = curN) := by
  cases nm
  · exact ⟨rfl, Nat.zero_le _, by simp [Naming.writesDirect, firstName]⟩
  · exact ⟨rfl, Nat.zero_le _, by simp [Naming.writesDirect, firstName, RotN, Infix.rotated]⟩
  · exact ⟨rfl, Nat.le_refl _, by simp [Naming.writesDirect, firstName]⟩
  · exact ⟨⟨none, rfl⟩, Nat.le_refl _, by simp [Naming.writesDirect, firstName, RotN, Infix.rotated]⟩

theorem initState_inv {cfg : Cfg} {r : RotCfg} {k m : Nat} (hC : CfgC cfg r k m) (s : St)
    (now : Nat) (hcfg : s.cfg = cfg) (hdir : s.dir = []) :
    ∃ s' act, initState s now noFaults = (s', true) ∧ s'.cfg = cfg ∧ s'.act = some act ∧
      CInv cfg r k m s'.dir act ⟨[], [], true, 0, now⟩ ∧ act.stamp ≤ now := by
  rw [initState_eq s r now (by rw [hcfg]; exact hC.rot) (by rw [hcfg]; exact hC.append) hdir]
  obtain ⟨hok1, hok2, hok3⟩ := firstName_ok r.naming now
  have hget : s.dir.get ⟨some (firstName r.naming now).1, false⟩ = none := by rw [hdir]; rfl
  obtain ⟨-, hocfg, -, hodir⟩ := openFile_new s ⟨some (firstName r.naming now).1, false⟩ now hget
  rw [hdir] at hodir
  obtain ⟨d', hcl, hp'⟩ := cleanup_first now cfg r k m hC.cleanup
    ⟨some (firstName r.naming now).1, false⟩ ⟨[], now⟩ hok3
  have hcr : createdOr (Dir.set [] ⟨some (firstName r.naming now).1, false⟩ ⟨[], now⟩)
      ⟨some (firstName r.naming now).1, false⟩ now = now := by
    simp [createdOr, Dir.set, Dir.get]
  simp only [hodir, hocfg, hcfg, hcl, hcr, Bool.false_eq_true, if_false]
  refine ⟨_, _, rfl, rfl, rfl, ?_, hok2⟩
  refine ⟨rfl, ⟨⟨[], now⟩, [], ⟨hp', ⟨List.Pairwise.nil, by simp⟩, Pat.nil _ _, Nat.zero_le _, by simp,
    by simp, hok1⟩, rfl⟩, rfl, fun _ => rfl, rfl, rfl⟩

/-! ### `writeBuffer`, one operation, histories -/

theorem writeBuffer_some_rot (s : St) (act : Active) (b : List Nat) (now : Nat) (r : RotCfg)
    (s2 : St) (act2 : Active)
    (hact : s.act = some act) (hrot : s.cfg.rot = some r)
    (hm : mountNext s act r false now noFaults = (s2, act2, false)) :
    writeBuffer s b now noFaults = (wrote s2 act2 b, .ok) := by
  have hw0 : hit noFaults.writeF 0 = false := rfl
  simp [writeBuffer, hact, hrot, hw0, hm, wrote]

theorem writeBuffer_init (s s1 : St) (act1 : Active) (b : List Nat) (now : Nat)
    (hact : s.act = none) (hi : initState s now noFaults = (s1, true)) (h1 : s1.act = some act1) :
    writeBuffer s b now noFaults = writeBuffer s1 b now noFaults := by
  simp [writeBuffer, hact, hi, h1]

theorem writeBuffer_started {cfg : Cfg} {r : RotCfg} {k m : Nat} (hC : CfgC cfg r k m) (s : St)
    (act : Active) (a : Abs) (b : List Nat) (now : Nat) (hcfg : s.cfg = cfg)
    (hact : s.act = some act) (hi : CInv cfg r k m s.dir act a) (hst : act.stamp ≤ now) :
    Inv cfg r k m now (writeBuffer s b now noFaults).1 (Abs.step (some r) a (.write b) now) := by
  have hne := FV.FlwA.nec_eq r act a now hi.size hi.created
  have hrot : s.cfg.rot = some r := by rw [hcfg]; exact hC.rot
  by_cases hnec : rotationNecessary r act now = true
  · obtain ⟨⟨s2, act2, hm, hc2, hi2, hst2⟩, -⟩ :=
      mountNext_rot hC s act a false now hcfg hi hst (by simp [hnec])
    rw [writeBuffer_some_rot s act b now r s2 act2 hact hrot hm]
    have habs : Abs.step (some r) a (.write b) now =
        { a.rotate now with cur := (a.rotate now).cur ++ b,
                            size := (a.rotate now).size + b.length } := by
      simp [Abs.step, hi.started, hne, hnec]
    rw [habs]
    exact wrote_inv cfg r k m s2 act2 _ b now hc2 hi2 hst2
  · have hm := FV.FlwA.mountNext_skip s act r false now noFaults (by simpa using hnec)
    rw [writeBuffer_some_rot s act b now r s act hact hrot hm]
    have habs : Abs.step (some r) a (.write b) now =
        { a with cur := a.cur ++ b, size := a.size + b.length } := by
      simp [Abs.step, hi.started, hne, hnec]
    rw [habs]
    exact wrote_inv cfg r k m s act a b now hcfg hi hst

theorem step_inv {cfg : Cfg} {r : RotCfg} {k m : Nat} (hC : CfgC cfg r k m) (s : St) (a : Abs)
    (t : Nat) (op : Op) (now : Nat) (hi : Inv cfg r k m t s a) (hp : op.plain = true)
    (ht : op.usesClock = true → t ≤ now) :
    Inv cfg r k m (if op.usesClock then now else t) (step s op now noFaults).1
      (Abs.step (some r) a op now) := by
  obtain ⟨hcfg, hi⟩ := hi
  cases op with
  | write b =>
    have ht := ht rfl
    simp only [Op.usesClock, if_true, step]
    cases hact : s.act with
    | none =>
      rw [hact] at hi
      obtain ⟨hd, ha⟩ := hi
      subst ha
      obtain ⟨s1, act1, hin, hc1, ha1, hi1, hst1⟩ := initState_inv hC s now hcfg hd
      rw [writeBuffer_init s s1 act1 b now hact hin ha1]
      have habs : Abs.step (some r) Abs.init (.write b) now =
          Abs.step (some r) ⟨[], [], true, 0, now⟩ (.write b) now := by
        simp [Abs.step, Abs.init]
      rw [habs]
      exact writeBuffer_started hC s1 act1 _ b now hc1 ha1 hi1 hst1
    | some act =>
      rw [hact] at hi
      exact writeBuffer_started hC s act a b now hcfg hact hi.1 (Nat.le_trans hi.2 ht)
  | rotate =>
    have ht := ht rfl
    simp only [Op.usesClock, if_true]
    cases hact : s.act with
    | none =>
      rw [hact] at hi
      obtain ⟨hd, ha⟩ := hi
      subst ha
      have hs : step s .rotate now noFaults = (s, .ok) := by simp [step, hact]
      have habs : Abs.step (some r) Abs.init .rotate now = Abs.init := rfl
      rw [hs, habs]
      refine ⟨hcfg, ?_⟩
      rw [hact]
      exact ⟨hd, rfl⟩
    | some act =>
      rw [hact] at hi
      obtain ⟨hi, hst⟩ := hi
      obtain ⟨⟨s2, act2, hm, hc2, hi2, hst2⟩, -⟩ :=
        mountNext_rot hC s act a true now hcfg hi (Nat.le_trans hst ht) rfl
      have hs : (step s .rotate now noFaults).1 = { s2 with act := some act2 } := by
        simp [step, hact, hcfg, hC.rot, hm]
      have habs : Abs.step (some r) a .rotate now = a.rotate now := by
        simp [Abs.step, hi.started]
      rw [hs, habs]
      exact ⟨hc2, hi2, hst2⟩
  | flush =>
    simp only [Op.usesClock, Bool.false_eq_true, if_false]
    cases hact : s.act with
    | none =>
      rw [hact] at hi
      have hs : step s .flush now noFaults = (s, .ok) := by simp [step, hact]
      rw [hs]; refine ⟨hcfg, ?_⟩; rw [hact]; exact hi
    | some act =>
      rw [hact] at hi
      have hs : (step s .flush now noFaults).1 =
          { s with dir := s.dir.append act.handle act.pending,
                   act := some { act with pending := [] } } := by
        simp [step, hact, flushAct]
      rw [hs]
      exact ⟨hcfg, flush_inv cfg r k m s act a hi.1, hi.2⟩
  | shutdown =>
    simp only [Op.usesClock, Bool.false_eq_true, if_false]
    cases hact : s.act with
    | none =>
      rw [hact] at hi
      have hs : step s .shutdown now noFaults = (s, .ok) := by simp [step, hact]
      rw [hs]; refine ⟨hcfg, ?_⟩; rw [hact]; exact hi
    | some act =>
      rw [hact] at hi
      have hs : (step s .shutdown now noFaults).1 =
          { s with dir := s.dir.append act.handle act.pending,
                   act := some { act with pending := [] } } := by
        simp [step, hact, flushAct]
      rw [hs]
      exact ⟨hcfg, flush_inv cfg r k m s act a hi.1, hi.2⟩
  | restart _ => cases hp
  | reset _ => cases hp
  | extRename => cases hp
  | extRemove => cases hp
  | reopen => cases hp

theorem run_inv {cfg : Cfg} {r : RotCfg} {k m : Nat} (hC : CfgC cfg r k m) :
    ∀ (ops : List (Op × Nat × Faults)) (t : Nat) (s : St) (a : Abs), Inv cfg r k m t s a →
      (∀ o ∈ ops, o.1.plain = true ∧ o.2.2 = noFaults) →
      (∀ o ∈ ops, o.1.usesClock = true → t ≤ o.2.1) → Monotone ops →
      ∃ t', Inv cfg r k m t' (runOps s ops) (Abs.run (some r) a ops) := by
  intro ops
  induction ops with
  | nil => intro t s a hI _ _ _; exact ⟨t, hI⟩
  | cons o ops ih =>
    intro t s a hI hp hlo hm
    obtain ⟨hm1, hm2⟩ := FV.FlwB.monotone_tail hm
    obtain ⟨hp1, hp2⟩ := hp o (by simp)
    have hstep := step_inv hC s a t o.1 o.2.1 hI hp1 (hlo o (by simp))
    have e1 : runOps s (o :: ops) = runOps (step s o.1 o.2.1 noFaults).1 ops := by
      rw [← hp2]; rfl
    have e2 : Abs.run (some r) a (o :: ops) =
        Abs.run (some r) (Abs.step (some r) a o.1 o.2.1) ops := rfl
    rw [e1, e2]
    refine ih _ _ _ hstep (fun o' ho' => hp o' (by simp [ho'])) ?_ hm1
    intro o' ho' hu'
    by_cases hu : o.1.usesClock = true
    · rw [if_pos hu]; exact hm2 hu o' ho' hu'
    · rw [if_neg hu]; exact hlo o' (by simp [ho']) hu'

theorem inv_init (cfg : Cfg) (r : RotCfg) (k m : Nat) : Inv cfg r k m 0 (init cfg []) Abs.init :=
  ⟨rfl, rfl, rfl⟩

/-- the invariant holds after every plain history -/
theorem inv_run {cfg : Cfg} {r : RotCfg} {k m : Nat} (hC : CfgC cfg r k m)
    (ops : List (Op × Nat × Faults)) (hp : PlainHistory ops) :
    ∃ t, Inv cfg r k m t (runOps (init cfg []) ops) (Abs.run cfg.rot Abs.init ops) := by
  rw [hC.rot]
  exact run_inv hC ops 0 _ _ (inv_init cfg r k m) hp.1 (fun _ _ _ => Nat.zero_le _) hp.2

end FV.FlwC
