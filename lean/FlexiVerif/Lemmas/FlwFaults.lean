/-
  The file log writer under I/O faults (property C19): a refinement `Flw ⊑ FlwAbs-with-faults`
  that holds for *every* fault schedule.

  * `Abs.fstep`: the abstract rotating log with faults — an operation either has its full
    abstract effect or a well-defined part of it (a failed initialisation / rotation / write is
    a no-op of the abstract state);
  * `FAct`/`FRel`: the invariant. It generalises the invariants of `FlwRefineA`/`FlwRefineB`:
    the descriptor's file exists, is the LAST file in reading order, the rotated names are
    strictly ordered by key and the naming state (`idx`/`stamp`) bounds them, so that the next
    name is fresh and above all others. It covers the states that only faults produce (current
    file renamed but `rCURRENT` not re-opened; `idx`/`stamp` advanced without a new file);
  * `step_frel`: every plain operation with ARBITRARY faults preserves the invariant and is the
    abstract step-with-faults; its result and error events are characterised exactly.
-/
import FlexiVerif.Lemmas.FlwRefineA
import FlexiVerif.Lemmas.FlwRefineB
namespace FV.FlwF
open FV.Flw

/-! ### directories: the descriptor's file is the last one in reading order -/

abbrev curN : FName := ⟨some .cur, false⟩
abbrev plainN : FName := ⟨none, false⟩

theorem erase_erase (d : Dir) (n : FName) : (d.erase n).erase n = d.erase n :=
  FlwA.erase_of_not_mem _ _ (fun e he => ((FlwA.mem_erase d n e).1 he).2)

theorem erase_of_get_none (d : Dir) (n : FName) (h : d.get n = none) : d.erase n = d :=
  FlwA.erase_of_not_mem d n ((FlwA.get_eq_none_iff d n).1 h)

/-- `cn` is the name of the "current" file of the scheme (`rCURRENT`, or the plain file of a
    non-rotating writer); `L` (names `ns`) are the other files sorted by key.
    Either the descriptor `h` is on `cn` (which then is read last), or `cn` does not exist and
    the descriptor is on the file with the greatest key. `closed` are the contents before it. -/
def Last (cn : FName) (d : Dir) (h : FName) (f : File) (closed : List (List Nat))
    (ns : List FName) : Prop :=
  ∃ L : List (FName × File), L.map (·.1) = ns ∧ FlwB.DirIs (d.erase cn) L ∧ d.get h = some f ∧
    ((h = cn ∧ L.map (·.2.data) = closed) ∨
     (d.get cn = none ∧ ∃ pre, L = pre ++ [(h, f)] ∧ pre.map (·.2.data) = closed))

theorem not_plainRot_cur : ¬ FlwB.PlainRot curN := by
  rintro ⟨i, hi, hr⟩
  cases hi
  simp [Infix.rotated] at hr

theorem not_plainRot_plain : ¬ FlwB.PlainRot plainN := by
  rintro ⟨i, hi, hr⟩
  cases hi

theorem not_plainRot_cnOf (cfg : Cfg) : ¬ FlwB.PlainRot (FlwA.cnOf cfg) := by
  rcases FlwA.cnOf_cases cfg with h | h <;> rw [h]
  · exact not_plainRot_cur
  · exact not_plainRot_plain

/-- what a reader sees -/
theorem Last.parts {cn : FName} {d : Dir} {h : FName} {f : File} {closed : List (List Nat)}
    {ns : List FName} (hcn : cn = curN ∨ cn = plainN) (hl : Last cn d h f closed ns) :
    parts d = closed ++ [f.data] := by
  obtain ⟨L, -, hD, hget, hst⟩ := hl
  have hnr : ∀ v, FlwA.isRot (cn, v) = false := by
    intro v
    rcases hcn with rfl | rfl <;> rfl
  have hext : extAsc d = [] := by
    apply FlwA.extAsc_eq_nil
    intro e he n hn
    by_cases hc : e.1 = cn
    · rcases hcn with rfl | rfl <;> rw [hc] at hn <;> simp at hn
    · obtain ⟨i, hi, hr⟩ := hD.plainRot e ((FlwA.mem_erase d cn e).2 ⟨he, hc⟩)
      rw [hi] at hn
      cases hn
      simp [Infix.rotated] at hr
  have hrot : rotatedAsc d = L := by
    rw [← FlwA.rotatedAsc_erase d cn hnr]
    exact FlwB.rotatedAsc_eq hD
  have hother : ∀ m : FName, m ≠ cn → ¬ FlwB.PlainRot m → d.get m = none := by
    intro m hm hp
    rw [← FlwA.get_erase_ne d cn m hm]
    exact hD.get_not_plainRot m hp
  unfold Flw.parts
  rw [hext, hrot]
  rcases hst with ⟨rfl, hc⟩ | ⟨hnone, pre, rfl, hc⟩
  · rcases hcn with rfl | rfl
    · have h2 := hother plainN (by simp) not_plainRot_plain
      simp [show d.get ⟨some .cur, false⟩ = some f from hget,
        show d.get ⟨none, false⟩ = none from h2, hc]
    · have h2 := hother curN (by simp) not_plainRot_cur
      simp [show d.get ⟨none, false⟩ = some f from hget,
        show d.get ⟨some .cur, false⟩ = none from h2, hc]
  · rcases hcn with rfl | rfl
    · have h2 := hother plainN (by simp) not_plainRot_plain
      simp [show d.get ⟨some .cur, false⟩ = none from hnone,
        show d.get ⟨none, false⟩ = none from h2, hc]
    · have h2 := hother curN (by simp) not_plainRot_cur
      simp [show d.get ⟨none, false⟩ = none from hnone,
        show d.get ⟨some .cur, false⟩ = none from h2, hc]

/-- appending to the descriptor's file -/
theorem Last.append {cn : FName} {d : Dir} {h : FName} {f : File} {closed : List (List Nat)}
    {ns : List FName} (hl : Last cn d h f closed ns) (b : List Nat) :
    Last cn (d.append h b) h ⟨f.data ++ b, f.created⟩ closed ns := by
  obtain ⟨L, hns, hD, hget, hst⟩ := hl
  rw [FlwA.append_of_get d h f b hget]
  rcases hst with ⟨rfl, hc⟩ | ⟨hnone, pre, rfl, hc⟩
  · refine ⟨L, hns, ?_, FlwA.get_set_self _ _ _, Or.inl ⟨rfl, hc⟩⟩
    rw [FlwA.erase_set_self]
    exact hD
  · have hne : h ≠ cn := by
      intro e
      rw [e, hnone] at hget
      cases hget
    refine ⟨pre ++ [(h, ⟨f.data ++ b, f.created⟩)], ?_, ?_, FlwA.get_set_self _ _ _, Or.inr ⟨?_, pre, rfl, hc⟩⟩
    · rw [← hns]; simp
    · rw [FlwA.erase_set_ne _ _ _ _ hne]
      exact FlwB.DirIs.set_old (L2 := []) hD _
    · rw [FlwA.get_set_ne _ _ _ _ (Ne.symm hne)]
      exact hnone

/-- the key of the new name is above all keys of a sorted list whose last entry it exceeds -/
theorem above_all {pre : List (FName × File)} {h : FName} {f : File} {k : Nat × Nat}
    (hok : FlwB.NamesOK ((pre ++ [(h, f)]).map (·.1)))
    (hk : keyLt (FlwB.nkey h) k = true) :
    ∀ e ∈ pre ++ [(h, f)], keyLt (FlwB.nkey e.1) k = true := by
  intro e he
  rcases List.mem_append.1 he with he | he
  · have hs := hok.1
    simp only [List.map_append, List.map_cons, List.map_nil, List.pairwise_append,
      List.mem_map, List.mem_singleton] at hs
    exact FlwB.keyLt_trans (hs.2.2 e.1 ⟨e, he, rfl⟩ _ rfl) hk
  · simp only [List.mem_singleton] at he
    subst he
    exact hk

/-- `rename(cn → t)` when the descriptor is on `cn`: it follows the file -/
theorem Last.rename {cn : FName} {d : Dir} {f : File} {closed : List (List Nat)}
    {ns : List FName} (hcn : ¬ FlwB.PlainRot cn) (hl : Last cn d cn f closed ns) (t : FName)
    (ht : FlwB.PlainRot t) (hk : ∀ n ∈ ns, keyLt (FlwB.nkey n) (FlwB.nkey t) = true) :
    d.rename cn t = ((d.erase cn).set t f, true) ∧
    ((d.erase cn).set t f).get cn = none ∧
    Last cn ((d.erase cn).set t f) t f closed (ns ++ [t]) := by
  obtain ⟨L, hns, hD, hget, hst⟩ := hl
  have hne : cn ≠ t := by
    intro e
    rw [e] at hcn
    exact hcn ht
  have hc : L.map (·.2.data) = closed := by
    rcases hst with ⟨-, hc⟩ | ⟨hnone, -⟩
    · exact hc
    · rw [hnone] at hget
      cases hget
  have hnone : ((d.erase cn).set t f).get cn = none := by
    rw [FlwA.get_set_ne _ _ _ _ hne, FlwA.get_erase_self]
  refine ⟨by simp [Dir.rename, hget], hnone, L ++ [(t, f)], by simp [hns], ?_,
    FlwA.get_set_self _ _ _, Or.inr ⟨hnone, L, rfl, hc⟩⟩
  rw [FlwA.erase_set_ne _ _ _ _ (Ne.symm hne), erase_erase]
  apply hD.set_new t f ht
  intro e he
  apply hk
  rw [← hns]
  exact List.mem_map.2 ⟨e, he, rfl⟩

/-- the descriptor is on the file with the greatest key and `cn` does not exist: open `cn`
    (created empty), the old `BufWriter` flushes into the old file, the descriptor moves to `cn` -/
theorem Last.openCur {cn : FName} {d : Dir} {h : FName} {f : File} {closed : List (List Nat)}
    {ns : List FName} (hl : Last cn d h f closed ns) (hnone : d.get cn = none) (p : List Nat)
    (now : Nat) :
    Last cn ((d.set cn ⟨[], now⟩).append h p) cn ⟨[], now⟩ (closed ++ [f.data ++ p]) ns := by
  obtain ⟨L, hns, hD, hget, hst⟩ := hl
  have hne : h ≠ cn := by
    intro e
    rw [e, hnone] at hget
    cases hget
  obtain ⟨pre, hL, hc⟩ : ∃ pre, L = pre ++ [(h, f)] ∧ pre.map (·.2.data) = closed := by
    rcases hst with ⟨e, -⟩ | ⟨-, h2⟩
    · exact absurd e hne
    · exact h2
  subst hL
  have hg : (d.set cn ⟨[], now⟩).get h = some f := by
    rw [FlwA.get_set_ne _ _ _ _ hne]
    exact hget
  rw [FlwA.append_of_get _ h f p hg]
  refine ⟨pre ++ [(h, ⟨f.data ++ p, f.created⟩)], by rw [← hns]; simp, ?_, ?_,
    Or.inl ⟨rfl, by simp [hc]⟩⟩
  · rw [FlwA.erase_set_ne _ _ _ _ hne, FlwA.erase_set_self]
    exact FlwB.DirIs.set_old (L2 := []) hD _
  · rw [FlwA.get_set_ne _ _ _ _ (Ne.symm hne), FlwA.get_set_self]

/-- the descriptor is on the file with the greatest key and `cn` does not exist: open a new
    file `t` above it, the old `BufWriter` flushes into the old file, the descriptor moves to `t` -/
theorem Last.openNew {cn : FName} {d : Dir} {h : FName} {f : File} {closed : List (List Nat)}
    {ns : List FName} (hcn : ¬ FlwB.PlainRot cn) (hl : Last cn d h f closed ns)
    (hnone : d.get cn = none) (t : FName) (ht : FlwB.PlainRot t)
    (hk : keyLt (FlwB.nkey h) (FlwB.nkey t) = true) (p : List Nat) (now : Nat) :
    d.get t = none ∧
    Last cn ((d.set t ⟨[], now⟩).append h p) t ⟨[], now⟩ (closed ++ [f.data ++ p]) (ns ++ [t]) := by
  obtain ⟨L, hns, hD, hget, hst⟩ := hl
  have hne : h ≠ cn := by
    intro e
    rw [e, hnone] at hget
    cases hget
  have hnt : cn ≠ t := by
    intro e
    rw [e] at hcn
    exact hcn ht
  obtain ⟨pre, hL, hc⟩ : ∃ pre, L = pre ++ [(h, f)] ∧ pre.map (·.2.data) = closed := by
    rcases hst with ⟨e, -⟩ | ⟨-, h2⟩
    · exact absurd e hne
    · exact h2
  subst hL
  have hall := above_all (k := FlwB.nkey t) hD.2 hk
  have hht : h ≠ t := by
    intro e
    rw [e, FlwB.keyLt_irrefl] at hk
    cases hk
  have hde : d.erase cn = d := erase_of_get_none d cn hnone
  rw [hde] at hD
  have hgt : d.get t = none := hD.get_none t (FlwB.ne_of_keyLt hall)
  have hg : (d.set t ⟨[], now⟩).get h = some f := by
    rw [FlwA.get_set_ne _ _ _ _ hht]
    exact hget
  rw [FlwA.append_of_get _ h f p hg]
  have hd1 := hD.set_new t ⟨[], now⟩ ht hall
  rw [List.append_assoc] at hd1
  have hd2 := FlwB.DirIs.set_old hd1 ⟨f.data ++ p, f.created⟩
  have hn2 : ((d.set t ⟨[], now⟩).set h ⟨f.data ++ p, f.created⟩).get cn = none := by
    rw [FlwA.get_set_ne _ _ _ _ (Ne.symm hne), FlwA.get_set_ne _ _ _ _ hnt]
    exact hnone
  refine ⟨hgt, (pre ++ [(h, ⟨f.data ++ p, f.created⟩)]) ++ [(t, ⟨[], now⟩)],
    by rw [← hns]; simp, ?_, ?_, Or.inr ⟨hn2, _, rfl, by simp [hc]⟩⟩
  · rw [erase_of_get_none _ cn hn2, List.append_assoc]
    exact hd2
  · rw [FlwA.get_set_ne _ _ _ _ (Ne.symm hht), FlwA.get_set_self]

/-! ### the abstract machine with faults -/

/-- the namings that rename `rCURRENT` at a rotation (and at initialisation) -/
def renames : Naming → Bool
  | .numbers | .timestamps => true
  | _ => false

/-- the file-system calls of an initialisation / of a rotation succeed: the `open`, and for the
    namings that write to `rCURRENT` the `rename` before it -/
def ioOk (rot : Option RotCfg) (fl : Faults) : Bool :=
  !(hit fl.openF 0) &&
    (match rot with
     | some r => !(renames r.naming && hit fl.renameF 0)
     | none => true)

/-- **The abstract rotating log with faults.** A failed initialisation, a failed (or partially
    performed) rotation and a failed write leave the abstract state unchanged; everything else
    is `Abs.step`. -/
def fstep (rot : Option RotCfg) (a : Abs) (op : Op) (now : Nat) (fl : Faults) : Abs :=
  match op with
  | .write b =>
    if !a.started && !ioOk rot fl then a
    else
      let a := if a.started then a else { a with started := true, created := now }
      let a := match rot with
        | some r => if absNecessary r a now && ioOk rot fl then a.rotate now else a
        | none => a
      if hit fl.writeF 0 then a else { a with cur := a.cur ++ b, size := a.size + b.length }
  | .rotate =>
    match rot with
    | some _ => if a.started && ioOk rot fl then a.rotate now else a
    | none => a
  | _ => a

/-- the error-channel events of an operation -/
def ferrs (rot : Option RotCfg) (a : Abs) (op : Op) (now : Nat) (fl : Faults) : List ErrKind :=
  match op with
  | .write _ =>
    if !a.started && !ioOk rot fl then [.write]
    else
      let a := if a.started then a else { a with started := true, created := now }
      (match rot with
        | some r => if absNecessary r a now && !ioOk rot fl then [ErrKind.logfile] else []
        | none => []) ++
      (if hit fl.writeF 0 then [ErrKind.write] else [])
  | _ => []

/-- the result of an operation -/
def fres (rot : Option RotCfg) (a : Abs) (op : Op) (now : Nat) (fl : Faults) : Res :=
  match op with
  | .write _ => if (ferrs rot a op now fl).isEmpty then .ok else .err
  | .rotate =>
    match rot with
    | some _ => if a.started && !ioOk rot fl then .err else .ok
    | none => .ok
  | _ => .ok

def frun (rot : Option RotCfg) (a : Abs) (ops : List (Op × Nat × Faults)) : Abs :=
  ops.foldl (fun a o => fstep rot a o.1 o.2.1 o.2.2) a

theorem ioOk_noFaults (rot : Option RotCfg) : ioOk rot noFaults = true := by
  cases rot <;> simp [ioOk, hit, noFaults]

theorem fstep_noFaults (rot : Option RotCfg) (a : Abs) (op : Op) (now : Nat) :
    fstep rot a op now noFaults = Abs.step rot a op now := by
  have hw : hit noFaults.writeF 0 = false := rfl
  cases op <;> cases rot <;> cases hs : a.started <;> simp [fstep, Abs.step, ioOk_noFaults, hw, hs]

theorem ferrs_noFaults (rot : Option RotCfg) (a : Abs) (op : Op) (now : Nat) :
    ferrs rot a op now noFaults = [] := by
  have hw : hit noFaults.writeF 0 = false := rfl
  cases op <;> simp [ferrs, ioOk_noFaults, hw]
  cases rot <;> simp

theorem fres_noFaults (rot : Option RotCfg) (a : Abs) (op : Op) (now : Nat) :
    fres rot a op now noFaults = .ok := by
  cases op <;> simp [fres, ferrs_noFaults, ioOk_noFaults]
  cases rot <;> simp

/-! ### the invariant -/

/-- what the naming state knows about the names: the next name is fresh and above all others -/
def NameInv (cfg : Cfg) (lo : Nat) (act : Active) (ns : List FName) : Prop :=
  match cfg.rot with
  | none => True
  | some r =>
    match r.naming with
    | .numbers => ∀ n ∈ ns, ∃ k, n = ⟨some (.num k), false⟩ ∧ k < act.idx
    | .timestamps => act.stamp ≤ lo ∧
        ∀ n ∈ ns, ∃ k r, n = ⟨some (.ts k r), false⟩ ∧ k ≤ act.stamp
    | .numbersDirect => ∃ j, act.handle = ⟨some (.num j), false⟩ ∧ j ≤ act.idx
    | .timestampsDirect => ∃ k r, act.handle = ⟨some (.ts k r), false⟩ ∧ k ≤ lo

/-- the writer is active. `lo`: a lower bound of all clock readings still to come. -/
structure FAct (cfg : Cfg) (lo : Nat) (d : Dir) (act : Active) (a : Abs) : Prop where
  started : a.started = true
  last : ∃ f ns, Last (FlwA.cnOf cfg) d act.handle f a.closed ns ∧
    f.data ++ act.pending = a.cur ∧ NameInv cfg lo act ns
  unbuf : act.unbuffered = false
  direct : cfg.cap = none → act.pending = []
  size : cfg.rot.isSome → act.size = a.size ∧ act.created = a.created

/-- **The invariant**, relating the concrete state to the abstract one -/
def FRel (cfg : Cfg) (lo : Nat) (s : St) (a : Abs) : Prop :=
  s.cfg = cfg ∧
  match s.act with
  | none => s.dir = [] ∧ a = Abs.init
  | some act => FAct cfg lo s.dir act a

theorem nameInv_none {cfg : Cfg} (hr : cfg.rot = none) (lo : Nat) (act : Active)
    (ns : List FName) : NameInv cfg lo act ns := by
  simp [NameInv, hr]

theorem nameInv_numbers {cfg : Cfg} {r : RotCfg} (hr : cfg.rot = some r) (hn : r.naming = .numbers)
    (lo : Nat) (act : Active) (ns : List FName) :
    NameInv cfg lo act ns ↔ ∀ n ∈ ns, ∃ k, n = ⟨some (.num k), false⟩ ∧ k < act.idx := by
  simp only [NameInv, hr, hn]

theorem nameInv_timestamps {cfg : Cfg} {r : RotCfg} (hr : cfg.rot = some r)
    (hn : r.naming = .timestamps) (lo : Nat) (act : Active) (ns : List FName) :
    NameInv cfg lo act ns ↔ (act.stamp ≤ lo ∧
      ∀ n ∈ ns, ∃ k r, n = ⟨some (.ts k r), false⟩ ∧ k ≤ act.stamp) := by
  simp only [NameInv, hr, hn]

theorem nameInv_nD {cfg : Cfg} {r : RotCfg} (hr : cfg.rot = some r)
    (hn : r.naming = .numbersDirect) (lo : Nat) (act : Active) (ns : List FName) :
    NameInv cfg lo act ns ↔ ∃ j, act.handle = ⟨some (.num j), false⟩ ∧ j ≤ act.idx := by
  simp only [NameInv, hr, hn]

theorem nameInv_tD {cfg : Cfg} {r : RotCfg} (hr : cfg.rot = some r)
    (hn : r.naming = .timestampsDirect) (lo : Nat) (act : Active) (ns : List FName) :
    NameInv cfg lo act ns ↔ ∃ k r, act.handle = ⟨some (.ts k r), false⟩ ∧ k ≤ lo := by
  simp only [NameInv, hr, hn]

theorem NameInv.congr {cfg : Cfg} {lo lo' : Nat} {act act' : Active} {ns : List FName}
    (h : NameInv cfg lo act ns) (hlo : lo ≤ lo') (h1 : act'.handle = act.handle)
    (h2 : act'.idx = act.idx) (h3 : act'.stamp = act.stamp) : NameInv cfg lo' act' ns := by
  cases hr : cfg.rot with
  | none => exact nameInv_none hr _ _ _
  | some r =>
    cases hn : r.naming with
    | numbers =>
      rw [nameInv_numbers hr hn] at h ⊢
      rw [h2]; exact h
    | timestamps =>
      rw [nameInv_timestamps hr hn] at h ⊢
      rw [h3]; exact ⟨Nat.le_trans h.1 hlo, h.2⟩
    | numbersDirect =>
      rw [nameInv_nD hr hn] at h ⊢
      rw [h1, h2]; exact h
    | timestampsDirect =>
      rw [nameInv_tD hr hn] at h ⊢
      rw [h1]
      obtain ⟨k, r, e, hk⟩ := h
      exact ⟨k, r, e, Nat.le_trans hk hlo⟩

theorem FAct.mono {cfg : Cfg} {lo lo' : Nat} {d : Dir} {act : Active} {a : Abs}
    (h : FAct cfg lo d act a) (hlo : lo ≤ lo') : FAct cfg lo' d act a := by
  obtain ⟨f, ns, h1, h2, h3⟩ := h.last
  exact ⟨h.started, ⟨f, ns, h1, h2, h3.congr hlo rfl rfl rfl⟩, h.unbuf, h.direct, h.size⟩

/-- what a reader sees -/
theorem FAct.view {cfg : Cfg} {lo : Nat} {s : St} {act : Active} {a : Abs}
    (hact : s.act = some act) (h : FAct cfg lo s.dir act a) : viewFiles s = a.files := by
  obtain ⟨f, ns, hl, hd, -⟩ := h.last
  have hp := hl.parts (FlwA.cnOf_cases cfg)
  unfold viewFiles Abs.files
  rw [hact]
  simp [hp, h.started, hd]

theorem FRel.view {cfg : Cfg} {lo : Nat} {s : St} {a : Abs} (h : FRel cfg lo s a) :
    viewFiles s = a.files ∧
    (∀ act, s.act = some act → a.started = true ∧
      (cfg.rot.isSome → act.size = a.size ∧ act.created = a.created)) ∧
    (s.act = none → a.started = false) := by
  obtain ⟨-, hI⟩ := h
  cases hact : s.act with
  | none =>
    rw [hact] at hI
    obtain ⟨hd, ha⟩ := hI
    refine ⟨?_, fun act h => (by cases h), fun _ => (by rw [ha]; rfl)⟩
    unfold viewFiles
    rw [hact, hd, ha]
    rfl
  | some act =>
    rw [hact] at hI
    refine ⟨hI.view hact, ?_, fun h => (by cases h)⟩
    intro act' h
    cases h
    exact ⟨hI.started, hI.size⟩

/-! ### the model functions under faults -/

theorem openFile_spec (s : St) (n : FName) (now : Nat) (fl : Faults) :
    (openFile s n now fl 0).1.cfg = s.cfg ∧ (openFile s n now fl 0).1.errs = s.errs ∧
    (openFile s n now fl 0).1.act = s.act ∧
    (openFile s n now fl 0).2 = !(hit fl.openF 0) ∧
    (hit fl.openF 0 = true → (openFile s n now fl 0).1.dir = s.dir) ∧
    (hit fl.openF 0 = false → s.dir.get n = none →
      (openFile s n now fl 0).1.dir = s.dir.set n ⟨[], now⟩) := by
  unfold openFile
  cases hs : s.cfg.symlink <;> cases hf : hit fl.openF 0 <;> simp
  all_goals intro h; simp [h]

/-- `mountNextCore` once the infix is chosen: open, flush the old writer, switch -/
def mountTail (s : St) (a : Active) (ifx : Infix) (r : RotCfg) (now : Nat) (fl : Faults) :
    St × Active × Bool :=
  let n : FName := ⟨some ifx, false⟩
  let (s, ok) := openFile s n now fl 0
  if !ok then (s, a, true)
  else
    let (s, a) := flushAct s a
    let a := { a with handle := n, path := n, unbuffered := false, size := 0,
                      created := createdOr s.dir n now }
    let (d, cerr) := cleanup now s.cfg r fl s.dir
    ({ s with dir := d }, a, cerr)

theorem mountNextCore_numbers (s : St) (a : Active) (r : RotCfg) (force : Bool) (now : Nat)
    (fl : Faults) (hn : r.naming = .numbers)
    (h : (force || rotationNecessary r a now) = true) :
    mountNextCore s a r force now fl =
      if hit fl.renameF 0 then (s, a, true)
      else
        let p := s.dir.rename curN ⟨some (.num a.idx), false⟩
        let a1 := if p.2 && a.handle = curN then { a with handle := ⟨some (.num a.idx), false⟩ } else a
        mountTail { s with dir := p.1 } { a1 with idx := if p.2 then a1.idx + 1 else a1.idx }
          .cur r now fl := by
  unfold mountNextCore mountTail
  simp only [h, hn, Bool.not_true, Bool.false_eq_true, if_false]
  cases hf : hit fl.renameF 0
  · simp only [Bool.false_eq_true, if_false]
  · simp only [if_true]

theorem mountNextCore_timestamps (s : St) (a : Active) (r : RotCfg) (force : Bool) (now : Nat)
    (fl : Faults) (hn : r.naming = .timestamps)
    (h : (force || rotationNecessary r a now) = true) :
    mountNextCore s a r force now fl =
      if hit fl.renameF 0 then (s, a, true)
      else
        let t : FName := ⟨some (collisionFree s.dir a.stamp), false⟩
        let p := s.dir.rename curN t
        let a1 := if p.2 && a.handle = curN then { a with handle := t } else a
        mountTail { s with dir := p.1 } { a1 with stamp := createdOr p.1 curN now }
          .cur r now fl := by
  unfold mountNextCore mountTail
  simp only [h, hn, Bool.not_true, Bool.false_eq_true, if_false]
  cases hf : hit fl.renameF 0
  · simp only [Bool.false_eq_true, if_false]
  · simp only [if_true]

theorem mountNextCore_nD (s : St) (a : Active) (r : RotCfg) (force : Bool) (now : Nat)
    (fl : Faults) (hn : r.naming = .numbersDirect)
    (h : (force || rotationNecessary r a now) = true) :
    mountNextCore s a r force now fl =
      mountTail s { a with idx := a.idx + 1 } (.num (a.idx + 1)) r now fl := by
  unfold mountNextCore mountTail
  simp only [h, hn, Bool.not_true, Bool.false_eq_true, if_false]

theorem mountNextCore_tD (s : St) (a : Active) (r : RotCfg) (force : Bool) (now : Nat)
    (fl : Faults) (hn : r.naming = .timestampsDirect)
    (h : (force || rotationNecessary r a now) = true) :
    mountNextCore s a r force now fl =
      mountTail s { a with stamp := now } (collisionFree s.dir now) r now fl := by
  unfold mountNextCore mountTail
  simp only [h, hn, Bool.not_true, Bool.false_eq_true, if_false]

theorem mountTail_fail (s : St) (a : Active) (ifx : Infix) (r : RotCfg) (now : Nat) (fl : Faults)
    (hf : hit fl.openF 0 = true) :
    (mountTail s a ifx r now fl).1.cfg = s.cfg ∧ (mountTail s a ifx r now fl).1.errs = s.errs ∧
    (mountTail s a ifx r now fl).1.dir = s.dir ∧ (mountTail s a ifx r now fl).2 = (a, true) := by
  obtain ⟨h1, h2, -, h4, h5, -⟩ := openFile_spec s ⟨some ifx, false⟩ now fl
  unfold mountTail
  simp only [h4, hf, Bool.not_true, Bool.not_false, if_true]
  exact ⟨h1, h2, h5 hf, trivial⟩

theorem mountTail_ok (s : St) (a : Active) (ifx : Infix) (r : RotCfg) (now : Nat) (fl : Faults)
    (hf : hit fl.openF 0 = false) (hcl : r.cleanup = none)
    (hget : s.dir.get ⟨some ifx, false⟩ = none) :
    (mountTail s a ifx r now fl).1.cfg = s.cfg ∧ (mountTail s a ifx r now fl).1.errs = s.errs ∧
    (mountTail s a ifx r now fl).1.dir =
      (s.dir.set ⟨some ifx, false⟩ ⟨[], now⟩).append a.handle a.pending ∧
    (mountTail s a ifx r now fl).2 =
      ({ a with pending := [], handle := ⟨some ifx, false⟩, path := ⟨some ifx, false⟩,
                unbuffered := false, size := 0,
                created := createdOr ((s.dir.set ⟨some ifx, false⟩ ⟨[], now⟩).append a.handle
                  a.pending) ⟨some ifx, false⟩ now }, false) := by
  obtain ⟨h1, h2, -, h4, -, h6⟩ := openFile_spec s ⟨some ifx, false⟩ now fl
  have h6 := h6 hf hget
  unfold mountTail
  simp only [h4, hf, Bool.not_false, Bool.not_true, Bool.false_eq_true, if_false, flushAct,
    cleanup, hcl, h6]
  exact ⟨h1, h2, trivial, trivial⟩

/-! ### flushing and writing -/

theorem FAct.flush {cfg : Cfg} {lo : Nat} {d : Dir} {act : Active} {a : Abs}
    (h : FAct cfg lo d act a) :
    FAct cfg lo (d.append act.handle act.pending) { act with pending := [] } a := by
  obtain ⟨f, ns, hl, hd, hN⟩ := h.last
  exact ⟨h.started, ⟨_, ns, hl.append act.pending, by simpa using hd,
    hN.congr (Nat.le_refl _) rfl rfl rfl⟩, h.unbuf, fun _ => rfl, h.size⟩

/-- the `BufWriter` rule: file content ++ buffer grows by exactly `b`, in the last file -/
theorem writeRaw_last (s : St) (act : Active) (b : List Nat) (cn : FName) (f : File)
    (closed : List (List Nat)) (ns : List FName)
    (hu : act.unbuffered = false) (hd : s.cfg.cap = none → act.pending = [])
    (hl : Last cn s.dir act.handle f closed ns) :
    ∃ d' p' f', writeRaw s act b = ({ s with dir := d' }, { act with pending := p' }) ∧
      Last cn d' act.handle f' closed ns ∧
      f'.data ++ p' = f.data ++ act.pending ++ b ∧ (s.cfg.cap = none → p' = []) := by
  obtain ⟨handle, path, pending, unb, idx, stamp, size, created⟩ := act
  simp only at hu hd hl ⊢
  subst hu
  cases hcap : s.cfg.cap with
  | none =>
    have hp := hd hcap
    refine ⟨s.dir.append handle b, pending, _, ?_, hl.append b, by simp [hp], fun _ => hp⟩
    simp [writeRaw, hcap]
  | some c =>
    by_cases h1 : pending.length + b.length > c <;> by_cases h2 : b.length ≥ c
    · refine ⟨(s.dir.append handle pending).append handle b, [], _, ?_,
        (hl.append pending).append b, by simp, fun hh => (by cases hh)⟩
      simp [writeRaw, hcap, h1, h2, flushAct]
    · refine ⟨s.dir.append handle pending, b, _, ?_,
        hl.append pending, by simp, fun hh => (by cases hh)⟩
      simp [writeRaw, hcap, h1, h2, flushAct]
    · have hp : pending = [] := by
        have : pending.length = 0 := by omega
        exact List.length_eq_zero_iff.1 this
      refine ⟨s.dir.append handle b, pending, _, ?_, hl.append b, by simp [hp],
        fun hh => (by cases hh)⟩
      simp [writeRaw, hcap, h1, h2]
    · refine ⟨s.dir, pending ++ b, f, ?_, hl, by simp, fun hh => (by cases hh)⟩
      simp [writeRaw, hcap, h1, h2]

theorem writeRaw_fact {cfg : Cfg} {lo : Nat} (s : St) (act : Active) (a : Abs) (b : List Nat)
    (hcfg : s.cfg = cfg) (h : FAct cfg lo s.dir act a) :
    (writeRaw s act b).1.cfg = cfg ∧ (writeRaw s act b).1.errs = s.errs ∧
    FAct cfg lo (writeRaw s act b).1.dir
      { (writeRaw s act b).2 with size := (writeRaw s act b).2.size + b.length }
      { a with cur := a.cur ++ b, size := a.size + b.length } := by
  subst hcfg
  obtain ⟨f, ns, hl, hd, hN⟩ := h.last
  obtain ⟨d', p', f', hw, hl', hd', hdir⟩ :=
    writeRaw_last s act b _ f a.closed ns h.unbuf h.direct hl
  rw [hw]
  refine ⟨rfl, rfl, h.started, ⟨f', ns, hl', ?_, hN.congr (Nat.le_refl _) rfl rfl rfl⟩, h.unbuf,
    hdir, ?_⟩
  · simp only [hd', hd]
  · intro hr
    obtain ⟨h1, h2⟩ := h.size hr
    exact ⟨by simp [h1], h2⟩

/-! ### rotation -/

theorem Last.mem_names {cn : FName} {d : Dir} {h : FName} {f : File} {closed : List (List Nat)}
    {ns : List FName} (hl : Last cn d h f closed ns) {n : FName} (hn : n ∈ ns) :
    ∃ v, (n, v) ∈ FlwA.ents d := by
  obtain ⟨L, hns, hD, -, -⟩ := hl
  rw [← hns] at hn
  obtain ⟨e, he, rfl⟩ := List.mem_map.1 hn
  exact ⟨e.2, ((FlwA.mem_erase d cn e).1 (hD.1.symm.subset he)).1⟩

theorem Last.get_new {cn : FName} {d : Dir} {h : FName} {f : File} {closed : List (List Nat)}
    {ns : List FName} (hl : Last cn d h f closed ns) : d.get h = some f := by
  obtain ⟨L, -, -, hg, -⟩ := hl
  exact hg

/-- the descriptor is on `cn` as soon as `cn` exists -/
theorem Last.handle_of_cur {cn : FName} {d : Dir} {h : FName} {f : File}
    {closed : List (List Nat)} {ns : List FName} (hl : Last cn d h f closed ns) {f0 : File}
    (hc : d.get cn = some f0) : h = cn := by
  obtain ⟨L, -, -, -, hst⟩ := hl
  rcases hst with ⟨e, -⟩ | ⟨hnone, -⟩
  · exact e
  · rw [hnone] at hc
    cases hc

/-- assembling the invariant after a completed rotation -/
theorem FAct.rotated {cfg : Cfg} {lo : Nat} {d : Dir} {act : Active} {a : Abs}
    (hA : FAct cfg lo d act a) {f : File} (hdata : f.data ++ act.pending = a.cur)
    (d' : Dir) (n : FName) (ns' : List FName) (idx' stamp' now : Nat)
    (hl : Last (FlwA.cnOf cfg) d' n ⟨[], now⟩ (a.closed ++ [f.data ++ act.pending]) ns')
    (hN : NameInv cfg now ⟨n, n, [], false, idx', stamp', 0, createdOr d' n now⟩ ns') :
    FAct cfg now d' ⟨n, n, [], false, idx', stamp', 0, createdOr d' n now⟩ (a.rotate now) := by
  refine ⟨hA.started, ⟨⟨[], now⟩, ns', ?_, rfl, hN⟩, rfl, fun _ => rfl, fun _ => ⟨rfl, ?_⟩⟩
  · rw [hdata] at hl
    exact hl
  · simp [createdOr, hl.get_new, Abs.rotate]

/-- for the namings that write to `rCURRENT` the naming invariant does not mention the handle -/
theorem NameInv.congrA {cfg : Cfg} {r : RotCfg} (hr : cfg.rot = some r)
    (hnm : renames r.naming = true) {lo : Nat} {act act' : Active} {ns : List FName}
    (h : NameInv cfg lo act ns) (h2 : act'.idx = act.idx) (h3 : act'.stamp = act.stamp) :
    NameInv cfg lo act' ns := by
  cases hn : r.naming with
  | numbers =>
    rw [nameInv_numbers hr hn] at h ⊢
    rw [h2]; exact h
  | timestamps =>
    rw [nameInv_timestamps hr hn] at h ⊢
    rw [h3]; exact h
  | numbersDirect => rw [hn] at hnm; cases hnm
  | timestampsDirect => rw [hn] at hnm; cases hnm

/-- (`numbers`/`timestamps`) after the rename step: open `rCURRENT`; if that fails the writer
    stays on the renamed file -/
theorem mountTail_cur {cfg : Cfg} {r : RotCfg} (hr : cfg.rot = some r) (hcl : r.cleanup = none)
    (hnm : renames r.naming = true) (s1 : St) (act1 : Active) (a : Abs) (now : Nat) (fl : Faults)
    (hcfg : s1.cfg = cfg) (hA : FAct cfg now s1.dir act1 a) (hnone : s1.dir.get curN = none) :
    (mountTail s1 act1 .cur r now fl).1.cfg = cfg ∧
    (mountTail s1 act1 .cur r now fl).1.errs = s1.errs ∧
    (mountTail s1 act1 .cur r now fl).2.2 = hit fl.openF 0 ∧
    FAct cfg now (mountTail s1 act1 .cur r now fl).1.dir (mountTail s1 act1 .cur r now fl).2.1
      (if hit fl.openF 0 then a else a.rotate now) := by
  cases hf : hit fl.openF 0 with
  | true =>
    obtain ⟨h1, h2, h3, h4⟩ := mountTail_fail s1 act1 .cur r now fl hf
    rw [h3, h4]
    exact ⟨h1.trans hcfg, h2, rfl, hA⟩
  | false =>
    obtain ⟨h1, h2, h3, h4⟩ := mountTail_ok s1 act1 .cur r now fl hf hcl hnone
    rw [h3, h4]
    refine ⟨h1.trans hcfg, h2, rfl, ?_⟩
    obtain ⟨f, ns, hl, hd, hN⟩ := hA.last
    rw [FlwA.cnOf_some hr] at hl
    have hl' := hl.openCur hnone act1.pending now
    simp only [Bool.false_eq_true, if_false]
    apply hA.rotated hd _ curN ns act1.idx act1.stamp now
    · rw [FlwA.cnOf_some hr]; exact hl'
    · exact hN.congrA hr hnm rfl rfl

/-- (direct namings) open the file with the new name; if that fails the writer stays on the old
    file -/
theorem mountTail_new {cfg : Cfg} {r : RotCfg} (hr : cfg.rot = some r) (hcl : r.cleanup = none)
    (s1 : St) (act1 : Active) (a : Abs) (now : Nat) (fl : Faults) (i : Infix)
    (hcfg : s1.cfg = cfg) (hA : FAct cfg now s1.dir act1 a) (hnone : s1.dir.get curN = none)
    (hi : i.rotated = true) (hk : keyLt (FlwB.nkey act1.handle) i.key = true)
    (hN : ∀ ns c, NameInv cfg now
      ⟨⟨some i, false⟩, ⟨some i, false⟩, [], false, act1.idx, act1.stamp, 0, c⟩ ns) :
    (mountTail s1 act1 i r now fl).1.cfg = cfg ∧
    (mountTail s1 act1 i r now fl).1.errs = s1.errs ∧
    (mountTail s1 act1 i r now fl).2.2 = hit fl.openF 0 ∧
    FAct cfg now (mountTail s1 act1 i r now fl).1.dir (mountTail s1 act1 i r now fl).2.1
      (if hit fl.openF 0 then a else a.rotate now) := by
  cases hf : hit fl.openF 0 with
  | true =>
    obtain ⟨h1, h2, h3, h4⟩ := mountTail_fail s1 act1 i r now fl hf
    rw [h3, h4]
    exact ⟨h1.trans hcfg, h2, rfl, hA⟩
  | false =>
    obtain ⟨f, ns, hl, hd, -⟩ := hA.last
    rw [FlwA.cnOf_some hr] at hl
    obtain ⟨hget, hl'⟩ := hl.openNew not_plainRot_cur hnone ⟨some i, false⟩ ⟨i, rfl, hi⟩ hk
      act1.pending now
    obtain ⟨h1, h2, h3, h4⟩ := mountTail_ok s1 act1 i r now fl hf hcl hget
    rw [h3, h4]
    refine ⟨h1.trans hcfg, h2, rfl, ?_⟩
    simp only [Bool.false_eq_true, if_false]
    apply hA.rotated hd _ ⟨some i, false⟩ (ns ++ [⟨some i, false⟩]) act1.idx act1.stamp now
    · rw [FlwA.cnOf_some hr]; exact hl'
    · exact hN _ _

theorem keyLt_total {a b : Nat × Nat} (h : keyLt a b = false) (hne : a ≠ b) :
    keyLt b a = true := by
  obtain ⟨a1, a2⟩ := a
  obtain ⟨b1, b2⟩ := b
  simp only [keyLt, Bool.or_eq_false_iff, Bool.and_eq_false_iff, decide_eq_false_iff_not,
    Bool.or_eq_true, Bool.and_eq_true, decide_eq_true_eq, ne_eq, Prod.mk.injEq] at *
  omega

theorem ts_key_inj {k k' : Nat} {r r' : Option Nat}
    (h : (Infix.ts k r).key = (Infix.ts k' r').key) : k = k' ∧ r = r' := by
  cases r <;> cases r' <;> simp [Infix.key] at h ⊢ <;> omega

/-- (`numbers`) the rename step of a rotation: either `rCURRENT` becomes `r<idx>` and the
    descriptor follows it, or there is no `rCURRENT` (an earlier rotation got that far) and
    nothing happens. Afterwards there is no `rCURRENT`. -/
theorem rename_numbers {cfg : Cfg} {r : RotCfg} (hr : cfg.rot = some r) (hn : r.naming = .numbers)
    {lo : Nat} (d : Dir) (act : Active) (a : Abs) (now : Nat) (hA : FAct cfg lo d act a)
    (hlo : lo ≤ now) :
    FAct cfg now (d.rename curN ⟨some (.num act.idx), false⟩).1
      { (if (d.rename curN ⟨some (.num act.idx), false⟩).2 && act.handle = curN
          then { act with handle := ⟨some (.num act.idx), false⟩ } else act) with
        idx := if (d.rename curN ⟨some (.num act.idx), false⟩).2
          then (if (d.rename curN ⟨some (.num act.idx), false⟩).2 && act.handle = curN
            then { act with handle := ⟨some (.num act.idx), false⟩ } else act).idx + 1
          else (if (d.rename curN ⟨some (.num act.idx), false⟩).2 && act.handle = curN
            then { act with handle := ⟨some (.num act.idx), false⟩ } else act).idx } a ∧
    (d.rename curN ⟨some (.num act.idx), false⟩).1.get curN = none := by
  obtain ⟨f, ns, hl, hd, hN⟩ := hA.last
  rw [FlwA.cnOf_some hr] at hl
  cases hc : d.get curN with
  | none =>
    have e : d.rename curN ⟨some (.num act.idx), false⟩ = (d, false) := by
      simp [Dir.rename, hc]
    rw [e]
    simp only [Bool.false_and, Bool.false_eq_true, if_false]
    exact ⟨hA.mono hlo, hc⟩
  | some f0 =>
    have hh : act.handle = curN := hl.handle_of_cur hc
    rw [hh] at hl
    rw [nameInv_numbers hr hn] at hN
    obtain ⟨e, hnone, hl'⟩ := hl.rename not_plainRot_cur ⟨some (.num act.idx), false⟩
      ⟨_, rfl, rfl⟩ (by
        intro n hn'
        obtain ⟨k, rfl, hk⟩ := hN n hn'
        simp [FlwB.nkey, Infix.key, keyLt, hk])
    rw [e]
    simp only [hh, Bool.true_and, decide_true, if_true]
    refine ⟨⟨hA.started, ⟨f, ns ++ [⟨some (.num act.idx), false⟩], ?_, hd, ?_⟩, hA.unbuf,
      hA.direct, hA.size⟩, hnone⟩
    · rw [FlwA.cnOf_some hr]; exact hl'
    · rw [nameInv_numbers hr hn]
      intro n hn'
      rcases List.mem_append.1 hn' with h1 | h1
      · obtain ⟨k, e1, hk⟩ := hN n h1
        exact ⟨k, e1, Nat.lt_succ_of_lt hk⟩
      · simp only [List.mem_singleton] at h1
        exact ⟨act.idx, h1, Nat.lt_succ_self _⟩

/-- (`timestamps`) the rename step of a rotation -/
theorem rename_timestamps {cfg : Cfg} {r : RotCfg} (hr : cfg.rot = some r)
    (hn : r.naming = .timestamps) {lo : Nat} (d : Dir) (act : Active) (a : Abs) (now : Nat)
    (hA : FAct cfg lo d act a) (hlo : lo ≤ now) :
    FAct cfg now (d.rename curN ⟨some (collisionFree d act.stamp), false⟩).1
      { (if (d.rename curN ⟨some (collisionFree d act.stamp), false⟩).2 && act.handle = curN
          then { act with handle := ⟨some (collisionFree d act.stamp), false⟩ } else act) with
        stamp := createdOr (d.rename curN ⟨some (collisionFree d act.stamp), false⟩).1 curN now } a ∧
    (d.rename curN ⟨some (collisionFree d act.stamp), false⟩).1.get curN = none := by
  obtain ⟨f, ns, hl, hd, hN⟩ := hA.last
  rw [FlwA.cnOf_some hr] at hl
  rw [nameInv_timestamps hr hn] at hN
  obtain ⟨hst, hN⟩ := hN
  have hmono : ∀ n ∈ ns, ∃ k r, n = ⟨some (.ts k r), false⟩ ∧ k ≤ now := by
    intro n hn'
    obtain ⟨k, r0, e1, hk⟩ := hN n hn'
    exact ⟨k, r0, e1, Nat.le_trans hk (Nat.le_trans hst hlo)⟩
  cases hc : d.get curN with
  | none =>
    have e : d.rename curN ⟨some (collisionFree d act.stamp), false⟩ = (d, false) := by
      simp [Dir.rename, hc]
    rw [e]
    simp only [Bool.false_and, Bool.false_eq_true, if_false, createdOr, hc]
    refine ⟨⟨hA.started, ⟨f, ns, ?_, hd, ?_⟩, hA.unbuf, hA.direct, hA.size⟩, trivial⟩
    · rw [FlwA.cnOf_some hr]; exact hl
    · rw [nameInv_timestamps hr hn]
      exact ⟨Nat.le_refl _, hmono⟩
  | some f0 =>
    have hh : act.handle = curN := hl.handle_of_cur hc
    obtain ⟨r0, ht⟩ := FlwA.collisionFree_ts d act.stamp
    have hl0 := hl
    rw [hh] at hl
    obtain ⟨e, hnone, hl'⟩ := hl.rename not_plainRot_cur ⟨some (collisionFree d act.stamp), false⟩
      ⟨_, rfl, by rw [ht]; rfl⟩ (by
        intro n hn'
        obtain ⟨k, r1, e1, hk⟩ := hN n hn'
        obtain ⟨v, hv⟩ := hl0.mem_names hn'
        have h1 := FlwA.collisionFree_key d act.stamp (n, v) hv k r1 (by rw [e1]) hk
        have h2 := FlwA.collisionFree_fresh d act.stamp (n, v) hv
        subst e1
        simp only [FlwB.nkey]
        apply keyLt_total h1
        intro heq
        rw [ht] at heq h2
        obtain ⟨rfl, rfl⟩ := ts_key_inj heq
        exact h2 rfl)
    rw [e]
    simp only [hh, Bool.true_and, decide_true, if_true, createdOr, hnone]
    refine ⟨⟨hA.started, ⟨f, ns ++ [⟨some (collisionFree d act.stamp), false⟩], ?_, hd, ?_⟩,
      hA.unbuf, hA.direct, hA.size⟩, trivial⟩
    · rw [FlwA.cnOf_some hr]; exact hl'
    · rw [nameInv_timestamps hr hn]
      refine ⟨Nat.le_refl _, ?_⟩
      intro n hn'
      rcases List.mem_append.1 hn' with h1 | h1
      · exact hmono n h1
      · simp only [List.mem_singleton] at h1
        exact ⟨act.stamp, r0, by rw [h1, ht], Nat.le_trans hst hlo⟩

theorem Last.cur_none {cn : FName} {d : Dir} {h : FName} {f : File} {closed : List (List Nat)}
    {ns : List FName} (hl : Last cn d h f closed ns) (hne : h ≠ cn) : d.get cn = none := by
  obtain ⟨L, -, -, -, hst⟩ := hl
  rcases hst with ⟨e, -⟩ | ⟨hnone, -⟩
  · exact absurd e hne
  · exact hnone

theorem ioOk_renames {rot : Option RotCfg} {r : RotCfg} (hr : rot = some r)
    (hnm : renames r.naming = true) (fl : Faults) :
    ioOk rot fl = (!(hit fl.openF 0) && !(hit fl.renameF 0)) := by
  simp [ioOk, hr, hnm]

theorem ioOk_direct {rot : Option RotCfg} {r : RotCfg} (hr : rot = some r)
    (hnm : renames r.naming = false) (fl : Faults) : ioOk rot fl = !(hit fl.openF 0) := by
  simp [ioOk, hr, hnm]

/-- the rotation proper under faults -/
theorem mountNextCore_frel {cfg : Cfg} {r : RotCfg} (hr : cfg.rot = some r) (hcl : r.cleanup = none)
    (s : St) (act : Active) (a : Abs) (force : Bool) (now lo : Nat) (fl : Faults)
    (hcfg : s.cfg = cfg) (hA : FAct cfg lo s.dir act a) (hlo : lo ≤ now) :
    (mountNextCore s act r force now fl).1.cfg = cfg ∧
    (mountNextCore s act r force now fl).1.errs = s.errs ∧
    (mountNextCore s act r force now fl).2.2 =
      ((force || absNecessary r a now) && !(ioOk cfg.rot fl)) ∧
    FAct cfg now (mountNextCore s act r force now fl).1.dir (mountNextCore s act r force now fl).2.1
      (if (force || absNecessary r a now) && ioOk cfg.rot fl then a.rotate now else a) := by
  obtain ⟨hsz, hcr⟩ := hA.size (by simp [hr])
  have hnec := FlwB.rotationNecessary_eq r act a now hsz hcr
  cases hdue : (force || absNecessary r a now) with
  | false =>
    rw [FlwB.mountNextCore_skip s act r force now fl (by rw [hnec]; exact hdue)]
    simp only [Bool.false_and, Bool.false_eq_true, if_false]
    exact ⟨hcfg, trivial, trivial, hA.mono hlo⟩
  | true =>
    have hdue' : (force || rotationNecessary r act now) = true := by rw [hnec]; exact hdue
    simp only [Bool.true_and]
    cases hn : r.naming with
    | numbers =>
      have hnm : renames r.naming = true := by rw [hn]; rfl
      rw [mountNextCore_numbers s act r force now fl hn hdue', ioOk_renames hr hnm]
      cases hrf : hit fl.renameF 0 with
      | true =>
        simp only [if_true, Bool.not_true, Bool.and_false, Bool.not_false, Bool.false_eq_true,
          if_false]
        exact ⟨hcfg, trivial, trivial, hA.mono hlo⟩
      | false =>
        simp only [Bool.false_eq_true, if_false, Bool.not_false, Bool.and_true, Bool.not_not]
        obtain ⟨hA1, hnone⟩ := rename_numbers hr hn s.dir act a now hA hlo
        obtain ⟨m1, m2, m3, m4⟩ := mountTail_cur hr hcl hnm
          { s with dir := (s.dir.rename curN ⟨some (.num act.idx), false⟩).1 } _ a now fl hcfg
          hA1 hnone
        refine ⟨m1, m2, m3, ?_⟩
        cases hof : hit fl.openF 0 <;> simp only [hof] at m4 ⊢ <;> exact m4
    | timestamps =>
      have hnm : renames r.naming = true := by rw [hn]; rfl
      rw [mountNextCore_timestamps s act r force now fl hn hdue', ioOk_renames hr hnm]
      cases hrf : hit fl.renameF 0 with
      | true =>
        simp only [if_true, Bool.not_true, Bool.and_false, Bool.not_false, Bool.false_eq_true,
          if_false]
        exact ⟨hcfg, trivial, trivial, hA.mono hlo⟩
      | false =>
        simp only [Bool.false_eq_true, if_false, Bool.not_false, Bool.and_true, Bool.not_not]
        obtain ⟨hA1, hnone⟩ := rename_timestamps hr hn s.dir act a now hA hlo
        obtain ⟨m1, m2, m3, m4⟩ := mountTail_cur hr hcl hnm
          { s with dir := (s.dir.rename curN ⟨some (collisionFree s.dir act.stamp), false⟩).1 } _
          a now fl hcfg hA1 hnone
        refine ⟨m1, m2, m3, ?_⟩
        cases hof : hit fl.openF 0 <;> simp only [hof] at m4 ⊢ <;> exact m4
    | numbersDirect =>
      have hnm : renames r.naming = false := by rw [hn]; rfl
      rw [mountNextCore_nD s act r force now fl hn hdue', ioOk_direct hr hnm]
      obtain ⟨f, ns, hl, hd, hN⟩ := hA.last
      have hN0 := hN
      rw [nameInv_nD hr hn] at hN
      obtain ⟨j, hj, hjle⟩ := hN
      rw [FlwA.cnOf_some hr] at hl
      have hnone : s.dir.get curN = none := hl.cur_none (by rw [hj]; simp [FlwA.curN])
      have hA1 : FAct cfg now s.dir { act with idx := act.idx + 1 } a := by
        refine ⟨hA.started, ⟨f, ns, ?_, hd, ?_⟩, hA.unbuf, hA.direct, hA.size⟩
        · rw [FlwA.cnOf_some hr]; exact hl
        · rw [nameInv_nD hr hn]
          exact ⟨j, hj, Nat.le_succ_of_le hjle⟩
      obtain ⟨m1, m2, m3, m4⟩ := mountTail_new hr hcl s { act with idx := act.idx + 1 } a now fl
        (.num (act.idx + 1)) hcfg hA1 hnone rfl
        (by
          show keyLt (FlwB.nkey act.handle) _ = true
          rw [hj]
          simp only [FlwB.nkey, Infix.key, keyLt]
          simp
          exact decide_eq_true (Nat.lt_succ_of_le hjle))
        (by
          intro ns' c
          rw [nameInv_nD hr hn]
          exact ⟨act.idx + 1, rfl, Nat.le_refl _⟩)
      simp only [Bool.not_not]
      refine ⟨m1, m2, m3, ?_⟩
      cases hof : hit fl.openF 0 <;> simp only [hof] at m4 ⊢ <;> exact m4
    | timestampsDirect =>
      have hnm : renames r.naming = false := by rw [hn]; rfl
      rw [mountNextCore_tD s act r force now fl hn hdue', ioOk_direct hr hnm]
      obtain ⟨f, ns, hl, hd, hN⟩ := hA.last
      rw [nameInv_tD hr hn] at hN
      obtain ⟨k, r0, hh, hk⟩ := hN
      rw [FlwA.cnOf_some hr] at hl
      have hnone : s.dir.get curN = none := hl.cur_none (by rw [hh]; simp [FlwA.curN])
      have hA1 : FAct cfg now s.dir { act with stamp := now } a := by
        refine ⟨hA.started, ⟨f, ns, ?_, hd, ?_⟩, hA.unbuf, hA.direct, hA.size⟩
        · rw [FlwA.cnOf_some hr]; exact hl
        · rw [nameInv_tD hr hn]
          exact ⟨k, r0, hh, Nat.le_trans hk hlo⟩
      obtain ⟨r', hcf, hkey⟩ : ∃ r', collisionFree s.dir now = .ts now r' ∧
          keyLt (Infix.key (.ts k r0)) (Infix.key (.ts now r')) = true := by
        obtain ⟨L, -, hD, hget, hst⟩ := hl
        rw [erase_of_get_none _ _ hnone] at hD
        apply FlwB.collisionFree_key hD now k r0 f _ (Nat.le_trans hk hlo)
        rw [← hh]
        rcases hst with ⟨e, -⟩ | ⟨-, pre, rfl, -⟩
        · rw [hh] at e; cases e
        · simp
      rw [hcf]
      obtain ⟨m1, m2, m3, m4⟩ := mountTail_new hr hcl s { act with stamp := now } a now fl
        (.ts now r') hcfg hA1 hnone rfl
        (by
          show keyLt (FlwB.nkey act.handle) _ = true
          rw [hh]
          exact hkey)
        (by
          intro ns' c
          rw [nameInv_tD hr hn]
          exact ⟨now, r', rfl, Nat.le_refl _⟩)
      simp only [Bool.not_not]
      refine ⟨m1, m2, m3, ?_⟩
      cases hof : hit fl.openF 0 <;> simp only [hof] at m4 ⊢ <;> exact m4

/-- **Rotation under faults.** Whatever fails, the invariant is kept; the rotation has its
    abstract effect iff it was due and both file-system calls succeeded; otherwise the abstract
    state is unchanged (the `BufWriter` has been flushed into the descriptor's file, though) and
    an error is returned. -/
theorem mountNext_frel {cfg : Cfg} {r : RotCfg} (hr : cfg.rot = some r) (hcl : r.cleanup = none)
    (s : St) (act : Active) (a : Abs) (force : Bool) (now lo : Nat) (fl : Faults)
    (hcfg : s.cfg = cfg) (hA : FAct cfg lo s.dir act a) (hlo : lo ≤ now) :
    (mountNext s act r force now fl).1.cfg = cfg ∧
    (mountNext s act r force now fl).1.errs = s.errs ∧
    (mountNext s act r force now fl).2.2 =
      ((force || absNecessary r a now) && !(ioOk cfg.rot fl)) ∧
    FAct cfg now (mountNext s act r force now fl).1.dir (mountNext s act r force now fl).2.1
      (if (force || absNecessary r a now) && ioOk cfg.rot fl then a.rotate now else a) := by
  obtain ⟨hsz, hcr⟩ := hA.size (by simp [hr])
  have hnec := FlwB.rotationNecessary_eq r act a now hsz hcr
  cases hdue : (force || absNecessary r a now) with
  | false =>
    rw [FlwB.mountNext_skip s act r force now fl (by rw [hnec]; exact hdue)]
    simp only [Bool.false_and, Bool.false_eq_true, if_false]
    exact ⟨hcfg, trivial, trivial, hA.mono hlo⟩
  | true =>
    rw [FlwB.mountNext_due s act r force now fl (by rw [hnec]; exact hdue)]
    have := mountNextCore_frel hr hcl (flushAct s act).1 (flushAct s act).2 a true now lo fl hcfg
      hA.flush hlo
    have he : (flushAct s act).1.errs = s.errs := rfl
    rw [he] at this
    simpa using this

/-! ### initialisation -/

/-- `initState` once the infix and the naming state are chosen -/
def initTail (s : St) (ifx : Infix) (idx stamp : Nat) (r : RotCfg) (now : Nat) (fl : Faults) :
    St × Bool :=
  let n : FName := ⟨some ifx, false⟩
  let (s, ok) := openFile s n now fl 0
  if !ok then (s, false)
  else
    let size := if s.cfg.append then fileLen s.dir n else 0
    let created := createdOr s.dir n now
    let (d, cerr) := cleanup now s.cfg r fl s.dir
    if cerr then ({ s with dir := d }, false)
    else ({ s with dir := d, act := some ⟨n, n, [], false, idx, stamp, size, created⟩ }, true)

theorem initState_numbers (s : St) (r : RotCfg) (now : Nat) (fl : Faults)
    (hr : s.cfg.rot = some r) (hn : r.naming = .numbers) (happ : s.cfg.append = false)
    (hdir : s.dir = []) :
    initState s now fl =
      if hit fl.renameF 0 then (s, false) else initTail s .cur 0 0 r now fl := by
  obtain ⟨dir, scfg, sact, link, linkGen, errs, extCtr, archived⟩ := s
  simp only at hr happ hdir
  subst hdir
  unfold initState initTail
  simp only [hr, hn, happ]
  cases hf : hit fl.renameF 0
  · simp only [Bool.false_eq_true, if_false]
    rfl
  · simp only [if_true]
    rfl

theorem initState_timestamps (s : St) (r : RotCfg) (now : Nat) (fl : Faults)
    (hr : s.cfg.rot = some r) (hn : r.naming = .timestamps) (happ : s.cfg.append = false)
    (hdir : s.dir = []) :
    initState s now fl =
      if hit fl.renameF 0 then (s, false) else initTail s .cur 0 now r now fl := by
  obtain ⟨dir, scfg, sact, link, linkGen, errs, extCtr, archived⟩ := s
  simp only at hr happ hdir
  subst hdir
  unfold initState initTail
  simp only [hr, hn, happ]
  cases hf : hit fl.renameF 0
  · simp only [Bool.false_eq_true, if_false]
    rfl
  · simp only [if_true]
    rfl

theorem initState_nD (s : St) (r : RotCfg) (now : Nat) (fl : Faults)
    (hr : s.cfg.rot = some r) (hn : r.naming = .numbersDirect) (happ : s.cfg.append = false)
    (hdir : s.dir = []) :
    initState s now fl = initTail s (.num 0) 0 0 r now fl := by
  obtain ⟨dir, scfg, sact, link, linkGen, errs, extCtr, archived⟩ := s
  simp only at hr happ hdir
  subst hdir
  unfold initState initTail
  simp only [hr, hn, happ]
  rfl

theorem initState_tD (s : St) (r : RotCfg) (now : Nat) (fl : Faults)
    (hr : s.cfg.rot = some r) (hn : r.naming = .timestampsDirect) (happ : s.cfg.append = false)
    (hdir : s.dir = []) :
    initState s now fl = initTail s (.ts now none) 0 now r now fl := by
  obtain ⟨dir, scfg, sact, link, linkGen, errs, extCtr, archived⟩ := s
  simp only at hr happ hdir
  subst hdir
  have hcf : collisionFree [] now = .ts now none := by
    simp [collisionFree, Dir.has, Dir.get]
  unfold initState initTail
  simp only [hr, hn, happ, Bool.not_false, if_true, hcf]

theorem initTail_spec (s : St) (ifx : Infix) (idx stamp : Nat) (r : RotCfg) (now : Nat)
    (fl : Faults) (hdir : s.dir = []) (happ : s.cfg.append = false) (hcl : r.cleanup = none) :
    (initTail s ifx idx stamp r now fl).2 = !(hit fl.openF 0) ∧
    (initTail s ifx idx stamp r now fl).1.cfg = s.cfg ∧
    (initTail s ifx idx stamp r now fl).1.errs = s.errs ∧
    (hit fl.openF 0 = true → (initTail s ifx idx stamp r now fl).1.dir = [] ∧
      (initTail s ifx idx stamp r now fl).1.act = s.act) ∧
    (hit fl.openF 0 = false →
      (initTail s ifx idx stamp r now fl).1.dir = [(⟨some ifx, false⟩, ⟨[], now⟩)] ∧
      (initTail s ifx idx stamp r now fl).1.act =
        some ⟨⟨some ifx, false⟩, ⟨some ifx, false⟩, [], false, idx, stamp, 0, now⟩) := by
  obtain ⟨h1, h2, h3, h4, h5, h6⟩ := openFile_spec s ⟨some ifx, false⟩ now fl
  have hget : s.dir.get ⟨some ifx, false⟩ = none := by rw [hdir]; rfl
  cases hf : hit fl.openF 0 with
  | true =>
    have h5 := h5 hf
    unfold initTail
    simp only [h4, hf, Bool.not_true, Bool.not_false, if_true]
    exact ⟨trivial, h1, h2, fun _ => ⟨h5.trans hdir, h3⟩, fun h => (by cases h)⟩
  | false =>
    have h6 := h6 hf hget
    rw [hdir] at h6
    have h6' : (openFile s ⟨some ifx, false⟩ now fl 0).1.dir = [(⟨some ifx, false⟩, ⟨[], now⟩)] := h6
    have happ' : (openFile s ⟨some ifx, false⟩ now fl 0).1.cfg.append = false := by
      rw [h1]; exact happ
    have hcr : createdOr [((⟨some ifx, false⟩ : FName), (⟨[], now⟩ : File))] ⟨some ifx, false⟩ now = now := by
      simp [createdOr, Dir.get]
    unfold initTail
    simp only [h4, hf, Bool.not_false, Bool.not_true, Bool.false_eq_true, if_false, cleanup, hcl,
      happ', h6', hcr]
    exact ⟨trivial, h1, h2, fun h => (by cases h), fun _ => ⟨rfl, trivial⟩⟩

theorem dirIs_nil : FlwB.DirIs [] [] :=
  ⟨List.Perm.refl _, List.Pairwise.nil, fun _ h => by simp at h⟩

/-- the first file, under the name of the "current" file -/
theorem FAct.init_cur (cfg : Cfg) (now idx stamp cr : Nat) (hcr : cfg.rot.isSome → cr = now)
    (hN : NameInv cfg now ⟨FlwA.cnOf cfg, FlwA.cnOf cfg, [], false, idx, stamp, 0, cr⟩ []) :
    FAct cfg now [(FlwA.cnOf cfg, ⟨[], now⟩)]
      ⟨FlwA.cnOf cfg, FlwA.cnOf cfg, [], false, idx, stamp, 0, cr⟩ ⟨[], [], true, 0, now⟩ := by
  have he : Dir.erase [(FlwA.cnOf cfg, (⟨[], now⟩ : File))] (FlwA.cnOf cfg) = [] := by
    simp [Dir.erase] <;> rfl
  have hg : Dir.get [(FlwA.cnOf cfg, (⟨[], now⟩ : File))] (FlwA.cnOf cfg) = some ⟨[], now⟩ := by
    simp [Dir.get]
  have hl : Last (FlwA.cnOf cfg) [(FlwA.cnOf cfg, (⟨[], now⟩ : File))] (FlwA.cnOf cfg) ⟨[], now⟩
      [] [] := by
    refine ⟨[], rfl, ?_, hg, Or.inl ⟨rfl, rfl⟩⟩
    rw [he]
    exact dirIs_nil
  exact ⟨rfl, ⟨⟨[], now⟩, [], hl, rfl, hN⟩, rfl, fun _ => rfl, fun h => ⟨rfl, hcr h⟩⟩

/-- the first file, under a rotated-style name (direct namings) -/
theorem FAct.init_new (cfg : Cfg) (r : RotCfg) (hr : cfg.rot = some r) (i : Infix)
    (hi : i.rotated = true) (now idx stamp : Nat)
    (hN : NameInv cfg now ⟨⟨some i, false⟩, ⟨some i, false⟩, [], false, idx, stamp, 0, now⟩
      [⟨some i, false⟩]) :
    FAct cfg now [(⟨some i, false⟩, ⟨[], now⟩)]
      ⟨⟨some i, false⟩, ⟨some i, false⟩, [], false, idx, stamp, 0, now⟩ ⟨[], [], true, 0, now⟩ := by
  have hne : (⟨some i, false⟩ : FName) ≠ curN := by
    intro e
    cases e
    simp [Infix.rotated] at hi
  have hg : Dir.get [((⟨some i, false⟩ : FName), (⟨[], now⟩ : File))] curN = none := by
    simp [Dir.get, hne]
  refine ⟨rfl, ⟨⟨[], now⟩, [⟨some i, false⟩], ⟨[(⟨some i, false⟩, ⟨[], now⟩)], rfl, ?_, ?_,
    Or.inr ⟨?_, [], rfl, rfl⟩⟩, rfl, hN⟩, rfl, fun _ => rfl, fun _ => ⟨rfl, rfl⟩⟩
  · rw [FlwA.cnOf_some hr, erase_of_get_none _ _ hg]
    exact FlwB.DirIs.single _ _ ⟨i, rfl, hi⟩
  · simp [Dir.get]
  · rw [FlwA.cnOf_some hr]; exact hg

/-- the configurations considered: no append, no cleanup; every naming scheme, criterion,
    buffer capacity, symlink/suffix setting -/
structure CfgF (cfg : Cfg) : Prop where
  append : cfg.append = false
  nocleanup : NoCleanup cfg

theorem initTail_frel {cfg : Cfg} (s : St) (ifx : Infix) (idx stamp : Nat) (r : RotCfg) (now : Nat)
    (fl : Faults) (hcfg : s.cfg = cfg) (hdir : s.dir = []) (hact : s.act = none)
    (happ : cfg.append = false) (hcl : r.cleanup = none)
    (hF : FAct cfg now [(⟨some ifx, false⟩, ⟨[], now⟩)]
      ⟨⟨some ifx, false⟩, ⟨some ifx, false⟩, [], false, idx, stamp, 0, now⟩ ⟨[], [], true, 0, now⟩) :
    (initTail s ifx idx stamp r now fl).2 = !(hit fl.openF 0) ∧
    (initTail s ifx idx stamp r now fl).1.cfg = cfg ∧
    (initTail s ifx idx stamp r now fl).1.errs = s.errs ∧
    (hit fl.openF 0 = true → (initTail s ifx idx stamp r now fl).1.dir = [] ∧
      (initTail s ifx idx stamp r now fl).1.act = none) ∧
    (hit fl.openF 0 = false → ∃ act, (initTail s ifx idx stamp r now fl).1.act = some act ∧
      FAct cfg now (initTail s ifx idx stamp r now fl).1.dir act ⟨[], [], true, 0, now⟩) := by
  obtain ⟨h1, h2, h3, h4, h5⟩ := initTail_spec s ifx idx stamp r now fl hdir
    (by rw [hcfg]; exact happ) hcl
  refine ⟨h1, h2.trans hcfg, h3, fun h => ?_, fun h => ?_⟩
  · obtain ⟨h6, h7⟩ := h4 h
    exact ⟨h6, h7.trans hact⟩
  · obtain ⟨h6, h7⟩ := h5 h
    refine ⟨_, h7, ?_⟩
    rw [h6]
    exact hF

/-- **Initialisation under faults**: it succeeds iff its file-system calls succeed; if it fails
    the state stays `Initial` on an empty directory (and is retried by the next write) -/
theorem initState_frel {cfg : Cfg} (hc : CfgF cfg) (s : St) (now : Nat) (fl : Faults)
    (hcfg : s.cfg = cfg) (hdir : s.dir = []) (hact : s.act = none) :
    (initState s now fl).2 = ioOk cfg.rot fl ∧ (initState s now fl).1.cfg = cfg ∧
    (initState s now fl).1.errs = s.errs ∧
    (ioOk cfg.rot fl = false → (initState s now fl).1.dir = [] ∧
      (initState s now fl).1.act = none) ∧
    (ioOk cfg.rot fl = true → ∃ act, (initState s now fl).1.act = some act ∧
      FAct cfg now (initState s now fl).1.dir act ⟨[], [], true, 0, now⟩) := by
  have happ := hc.append
  cases hr : cfg.rot with
  | none =>
    have hcn : FlwA.cnOf cfg = plainN := by simp [FlwA.cnOf, hr]
    have hio : ioOk none fl = !(hit fl.openF 0) := by simp [ioOk]
    obtain ⟨h1, h2, h3, h4, h5, h6⟩ := openFile_spec s plainN now fl
    have hget : s.dir.get plainN = none := by rw [hdir]; rfl
    have hF := FAct.init_cur cfg now 0 0 0 (by simp [hr]) (nameInv_none hr _ _ _)
    rw [hcn] at hF
    rw [hio]
    unfold initState
    simp only [hcfg ▸ hr]
    cases hf : hit fl.openF 0 with
    | true =>
      simp only [h4, hf, Bool.not_true, Bool.not_false, if_true]
      exact ⟨trivial, h1.trans hcfg, h2, fun _ => ⟨(h5 hf).trans hdir, h3.trans hact⟩,
        fun h => (by cases h)⟩
    | false =>
      have h6 := h6 hf hget
      rw [hdir] at h6
      simp only [h4, hf, Bool.not_false, Bool.not_true, Bool.false_eq_true, if_false]
      refine ⟨trivial, h1.trans hcfg, h2, fun h => (by cases h), fun _ => ⟨_, rfl, ?_⟩⟩
      simp only [h6]
      exact hF
  | some r =>
    have hr' : s.cfg.rot = some r := by rw [hcfg]; exact hr
    have happ' : s.cfg.append = false := by rw [hcfg]; exact happ
    have hcl := hc.nocleanup r hr
    cases hn : r.naming with
    | numbers =>
      have hnm : renames r.naming = true := by rw [hn]; rfl
      have hF := FAct.init_cur cfg now 0 0 now (fun _ => rfl)
        ((nameInv_numbers hr hn _ _ _).2 (fun n h => by simp at h))
      rw [FlwA.cnOf_some hr] at hF
      obtain ⟨i1, i2, i3, i4, i5⟩ := initTail_frel s .cur 0 0 r now fl hcfg hdir hact happ hcl hF
      rw [initState_numbers s r now fl hr' hn happ' hdir, ioOk_renames rfl hnm]
      cases hrf : hit fl.renameF 0 with
      | true =>
        simp only [if_true, Bool.not_true, Bool.and_false]
        exact ⟨trivial, hcfg, trivial, fun _ => ⟨hdir, hact⟩, fun h => (by cases h)⟩
      | false =>
        simp only [Bool.false_eq_true, if_false, Bool.not_false, Bool.and_true]
        refine ⟨i1, i2, i3, fun h => i4 (by simpa using h), fun h => i5 (by simpa using h)⟩
    | timestamps =>
      have hnm : renames r.naming = true := by rw [hn]; rfl
      have hF := FAct.init_cur cfg now 0 now now (fun _ => rfl)
        ((nameInv_timestamps hr hn _ _ _).2 ⟨Nat.le_refl _, fun n h => by simp at h⟩)
      rw [FlwA.cnOf_some hr] at hF
      obtain ⟨i1, i2, i3, i4, i5⟩ := initTail_frel s .cur 0 now r now fl hcfg hdir hact happ hcl hF
      rw [initState_timestamps s r now fl hr' hn happ' hdir, ioOk_renames rfl hnm]
      cases hrf : hit fl.renameF 0 with
      | true =>
        simp only [if_true, Bool.not_true, Bool.and_false]
        exact ⟨trivial, hcfg, trivial, fun _ => ⟨hdir, hact⟩, fun h => (by cases h)⟩
      | false =>
        simp only [Bool.false_eq_true, if_false, Bool.not_false, Bool.and_true]
        refine ⟨i1, i2, i3, fun h => i4 (by simpa using h), fun h => i5 (by simpa using h)⟩
    | numbersDirect =>
      have hnm : renames r.naming = false := by rw [hn]; rfl
      have hF := FAct.init_new cfg r hr (.num 0) rfl now 0 0
        ((nameInv_nD hr hn _ _ _).2 ⟨0, rfl, Nat.le_refl _⟩)
      obtain ⟨i1, i2, i3, i4, i5⟩ := initTail_frel s (.num 0) 0 0 r now fl hcfg hdir hact happ hcl hF
      rw [initState_nD s r now fl hr' hn happ' hdir, ioOk_direct rfl hnm]
      refine ⟨i1, i2, i3, fun h => i4 (by simpa using h), fun h => i5 (by simpa using h)⟩
    | timestampsDirect =>
      have hnm : renames r.naming = false := by rw [hn]; rfl
      have hF := FAct.init_new cfg r hr (.ts now none) rfl now 0 now
        ((nameInv_tD hr hn _ _ _).2 ⟨now, none, rfl, Nat.le_refl _⟩)
      obtain ⟨i1, i2, i3, i4, i5⟩ := initTail_frel s (.ts now none) 0 now r now fl hcfg hdir hact
        happ hcl hF
      rw [initState_tD s r now fl hr' hn happ' hdir, ioOk_direct rfl hnm]
      refine ⟨i1, i2, i3, fun h => i4 (by simpa using h), fun h => i5 (by simpa using h)⟩

/-! ### `writeBuffer` -/

/-- `writeBuffer` once the writer is mounted: report the rotation error, then write -/
def writeTail (s : St) (a : Active) (rerr : Bool) (b : List Nat) (fl : Faults) : St × Res :=
  let s := if rerr then { s with errs := s.errs ++ [.logfile] } else s
  if hit fl.writeF 0 then ({ s with act := some a, errs := s.errs ++ [.write] }, .err)
  else
    let (s, a) := writeRaw s a b
    let a := { a with size := a.size + b.length }
    ({ s with act := some a }, if rerr then .err else .ok)

theorem writeBuffer_some (s : St) (act : Active) (b : List Nat) (now : Nat) (fl : Faults)
    (hact : s.act = some act) :
    writeBuffer s b now fl =
      match s.cfg.rot with
      | none => writeTail s act false b fl
      | some r =>
        writeTail (mountNext s act r false now fl).1 (mountNext s act r false now fl).2.1
          (mountNext s act r false now fl).2.2 b fl := by
  unfold writeBuffer writeTail
  simp only [hact]
  cases s.cfg.rot <;> rfl

theorem writeBuffer_init_fail (s : St) (b : List Nat) (now : Nat) (fl : Faults)
    (hact : s.act = none) (hok : (initState s now fl).2 = false) :
    writeBuffer s b now fl =
      ({ (initState s now fl).1 with errs := (initState s now fl).1.errs ++ [.write] }, .err) := by
  unfold writeBuffer
  simp only [hact, hok]
  rfl

theorem writeTail_frel {cfg : Cfg} (s1 : St) (act1 : Active) (a1 : Abs) (rerr : Bool)
    (b : List Nat) (now : Nat) (fl : Faults) (hcfg : s1.cfg = cfg)
    (hA : FAct cfg now s1.dir act1 a1) :
    FRel cfg now (writeTail s1 act1 rerr b fl).1
      (if hit fl.writeF 0 then a1
       else { a1 with cur := a1.cur ++ b, size := a1.size + b.length }) ∧
    (writeTail s1 act1 rerr b fl).1.errs =
      s1.errs ++ (if rerr then [ErrKind.logfile] else []) ++
        (if hit fl.writeF 0 then [ErrKind.write] else []) ∧
    (writeTail s1 act1 rerr b fl).2 = (if rerr || hit fl.writeF 0 then .err else .ok) := by
  cases hw : hit fl.writeF 0 with
  | true =>
    cases rerr <;> simp only [writeTail, hw, if_true, Bool.false_eq_true, if_false] <;>
      exact ⟨⟨hcfg, hA⟩, by simp, by simp⟩
  | false =>
    cases rerr
    · obtain ⟨w1, w2, w3⟩ := writeRaw_fact s1 act1 a1 b hcfg hA
      simp only [writeTail, hw, Bool.false_eq_true, if_false]
      exact ⟨⟨w1, w3⟩, by simp [w2], by simp⟩
    · obtain ⟨w1, w2, w3⟩ := writeRaw_fact (lo := now)
        { s1 with errs := s1.errs ++ [ErrKind.logfile] } act1 a1 b hcfg hA
      simp only [writeTail, hw, if_true, Bool.false_eq_true, if_false]
      exact ⟨⟨w1, w3⟩, by simp [w2], by simp⟩

/-- a write on a mounted writer: rotation (complete, or failed in any way), then the write
    (performed or failed) -/
theorem writeBuffer_active {cfg : Cfg} (hc : CfgF cfg) (s : St) (act : Active) (a : Abs)
    (b : List Nat) (now lo : Nat) (fl : Faults) (hcfg : s.cfg = cfg) (hact : s.act = some act)
    (hA : FAct cfg lo s.dir act a) (hlo : lo ≤ now) :
    FRel cfg now (writeBuffer s b now fl).1 (fstep cfg.rot a (.write b) now fl) ∧
    (writeBuffer s b now fl).1.errs = s.errs ++ ferrs cfg.rot a (.write b) now fl ∧
    (writeBuffer s b now fl).2 = fres cfg.rot a (.write b) now fl := by
  have hst := hA.started
  rw [writeBuffer_some s act b now fl hact]
  cases hr : cfg.rot with
  | none =>
    simp only [hcfg ▸ hr]
    obtain ⟨t1, t2, t3⟩ := writeTail_frel s act a false b now fl hcfg (hA.mono hlo)
    refine ⟨?_, ?_, ?_⟩
    · simpa [fstep, hst] using t1
    · rw [t2]; simp [ferrs, hst]
    · rw [t3]; cases hw : hit fl.writeF 0 <;> simp [fres, ferrs, hst, hw]
  | some r =>
    simp only [hcfg ▸ hr]
    obtain ⟨m1, m2, m3, m4⟩ := mountNext_frel hr (hc.nocleanup r hr) s act a false now lo fl hcfg
      hA hlo
    rw [hr] at m3 m4
    simp only [Bool.false_or] at m3 m4
    rw [m3]
    obtain ⟨t1, t2, t3⟩ := writeTail_frel _ _ _ (absNecessary r a now && !ioOk (some r) fl) b now fl
      m1 m4
    rw [m2] at t2
    refine ⟨?_, ?_, ?_⟩
    · simpa [fstep, hst] using t1
    · rw [t2]; simp [ferrs, hst]
    · rw [t3]
      cases hw : hit fl.writeF 0 <;> cases hn : absNecessary r a now <;>
        cases hio : ioOk (some r) fl <;> simp [fres, ferrs, hst, hw, hn, hio]

/-- **One operation under arbitrary faults**: the invariant is preserved, the abstract state
    moves by the abstract step-with-faults, result and error events are as specified. -/
theorem step_frel {cfg : Cfg} (hc : CfgF cfg) (s : St) (a : Abs) (lo : Nat) (op : Op) (now : Nat)
    (fl : Faults) (hI : FRel cfg lo s a) (hp : op.plain = true)
    (hlo : op.usesClock = true → lo ≤ now) :
    FRel cfg (if op.usesClock then now else lo) (step s op now fl).1 (fstep cfg.rot a op now fl) ∧
    (step s op now fl).1.errs = s.errs ++ ferrs cfg.rot a op now fl ∧
    (step s op now fl).2 = fres cfg.rot a op now fl := by
  obtain ⟨hcfg, hI⟩ := hI
  cases op with
  | write b =>
    have hlo' : lo ≤ now := hlo rfl
    simp only [Op.usesClock, if_true, step]
    cases hact : s.act with
    | some act =>
      rw [hact] at hI
      exact writeBuffer_active hc s act a b now lo fl hcfg hact hI hlo'
    | none =>
      rw [hact] at hI
      obtain ⟨hdir, ha⟩ := hI
      subst ha
      obtain ⟨i1, i2, i3, i4, i5⟩ := initState_frel hc s now fl hcfg hdir hact
      cases hio : ioOk cfg.rot fl with
      | false =>
        rw [writeBuffer_init_fail s b now fl hact (by rw [i1]; exact hio)]
        obtain ⟨i6, i7⟩ := i4 hio
        refine ⟨⟨i2, ?_⟩, ?_, ?_⟩
        · simp only [i7]
          exact ⟨i6, by simp [fstep, Abs.init, hio]⟩
        · simp [i3, ferrs, Abs.init, hio]
        · simp [fres, ferrs, Abs.init, hio]
      | true =>
        obtain ⟨act0, i6, i7⟩ := i5 hio
        rw [FlwB.writeBuffer_none s act0 b now fl hact (by rw [i1]; exact hio) i6]
        obtain ⟨w1, w2, w3⟩ := writeBuffer_active hc _ act0 _ b now now fl i2 i6 i7 (Nat.le_refl _)
        refine ⟨?_, ?_, ?_⟩
        · simpa [fstep, Abs.init, hio] using w1
        · rw [w2, i3]; simp [ferrs, Abs.init, hio]
        · rw [w3]; simp [fres, ferrs, Abs.init, hio]
  | rotate =>
    have hlo' : lo ≤ now := hlo rfl
    simp only [Op.usesClock, if_true]
    cases hact : s.act with
    | none =>
      rw [hact] at hI
      obtain ⟨hdir, ha⟩ := hI
      subst ha
      have hs : step s .rotate now fl = (s, .ok) := by simp [step, hact]
      rw [hs]
      refine ⟨⟨hcfg, ?_⟩, ?_, ?_⟩
      · simp only [hact]
        exact ⟨hdir, by cases cfg.rot <;> simp [fstep, Abs.init]⟩
      · simp [ferrs]
      · cases cfg.rot <;> simp [fres, Abs.init]
    | some act =>
      rw [hact] at hI
      cases hr : cfg.rot with
      | none =>
        have hs : step s .rotate now fl = (s, .ok) := by simp [step, hact, hcfg, hr]
        rw [hs]
        refine ⟨⟨hcfg, ?_⟩, ?_, ?_⟩
        · simp only [hact]
          exact hI.mono hlo'
        · simp [ferrs]
        · simp [fres]
      | some r =>
        obtain ⟨m1, m2, m3, m4⟩ := mountNext_frel hr (hc.nocleanup r hr) s act a true now lo fl hcfg
          hI hlo'
        rw [hr] at m3 m4
        simp only [Bool.true_or, Bool.true_and] at m3 m4
        have hs : step s .rotate now fl =
            ({ (mountNext s act r true now fl).1 with act := some (mountNext s act r true now fl).2.1 },
             if (mountNext s act r true now fl).2.2 then .err else .ok) := by
          simp [step, hact, hcfg, hr]
        rw [hs, m3]
        refine ⟨⟨m1, ?_⟩, ?_, ?_⟩
        · simpa [fstep, hI.started] using m4
        · simp [ferrs, m2]
        · cases hio : ioOk (some r) fl <;> simp [fres, hI.started, hio]
  | flush =>
    simp only [Op.usesClock, Bool.false_eq_true, if_false, step]
    cases hact : s.act with
    | none =>
      rw [hact] at hI
      refine ⟨⟨hcfg, ?_⟩, by simp [ferrs], by simp [fres]⟩
      simp only [hact]
      exact hI
    | some act =>
      rw [hact] at hI
      exact ⟨⟨hcfg, hI.flush⟩, by simp [ferrs, flushAct], by simp [fres]⟩
  | shutdown =>
    simp only [Op.usesClock, Bool.false_eq_true, if_false, step]
    cases hact : s.act with
    | none =>
      rw [hact] at hI
      refine ⟨⟨hcfg, ?_⟩, by simp [ferrs], by simp [fres]⟩
      simp only [hact]
      exact hI
    | some act =>
      rw [hact] at hI
      exact ⟨⟨hcfg, hI.flush⟩, by simp [ferrs, flushAct], by simp [fres]⟩
  | restart _ => simp [Op.plain] at hp
  | reset _ => simp [Op.plain] at hp
  | extRename => simp [Op.plain] at hp
  | extRemove => simp [Op.plain] at hp
  | reopen => simp [Op.plain] at hp

/-! ### histories -/

/-- histories of writes, forced rotations, flushes and shutdowns with a monotone clock and
    ARBITRARY faults on every operation -/
def FaultyHistory (ops : List (Op × Nat × Faults)) : Prop :=
  (∀ o ∈ ops, o.1.plain = true) ∧ Monotone ops

/-- the last clock reading of a history (`lo` if there is none) -/
def lastClock (lo : Nat) (ops : List (Op × Nat × Faults)) : Nat :=
  ops.foldl (fun lo o => if o.1.usesClock then o.2.1 else lo) lo

/-- the write of `write b` is performed: the writer is (or gets) initialised and the `write`
    call does not fail. Recomputed from the model functions (`b` does not matter). -/
def wrote (s : St) (_b : List Nat) (now : Nat) (fl : Faults) : Bool :=
  (match s.act with
   | some _ => true
   | none => (initState s now fl).2) && !(hit fl.writeF 0)

/-- the records of those `write` operations of a history (run from `s`) whose own write was
    performed -/
def accepted : St → List (Op × Nat × Faults) → List (List Nat)
  | _, [] => []
  | s, (op, now, fl) :: rest =>
    (match op with
     | .write b => if wrote s b now fl then [b] else []
     | _ => []) ++ accepted (step s op now fl).1 rest

theorem accepted_append (s : St) (xs ys : List (Op × Nat × Faults)) :
    accepted s (xs ++ ys) = accepted s xs ++ accepted (runOps s xs) ys := by
  induction xs generalizing s with
  | nil => rfl
  | cons o os ih =>
    obtain ⟨op, now, fl⟩ := o
    have : runOps s ((op, now, fl) :: os) = runOps (step s op now fl).1 os := rfl
    simp only [List.cons_append, accepted, ih, this, List.append_assoc]

theorem runOps_append (s : St) (xs ys : List (Op × Nat × Faults)) :
    runOps s (xs ++ ys) = runOps (runOps s xs) ys := by
  simp [runOps, List.foldl_append]

theorem frun_append (rot : Option RotCfg) (a : Abs) (xs ys : List (Op × Nat × Faults)) :
    frun rot a (xs ++ ys) = frun rot (frun rot a xs) ys := by
  simp [frun, List.foldl_append]

theorem frun_noFaults (rot : Option RotCfg) (a : Abs) (ops : List (Op × Nat × Faults))
    (h : ∀ o ∈ ops, o.2.2 = noFaults) : frun rot a ops = Abs.run rot a ops := by
  induction ops generalizing a with
  | nil => rfl
  | cons o os ih =>
    have e1 : frun rot a (o :: os) = frun rot (fstep rot a o.1 o.2.1 o.2.2) os := rfl
    have e2 : Abs.run rot a (o :: os) = Abs.run rot (Abs.step rot a o.1 o.2.1) os := rfl
    rw [e1, e2, h o (by simp), fstep_noFaults]
    exact ih _ (fun o' ho' => h o' (by simp [ho']))

/-- before the first file exists the abstract state is the initial one -/
def AbsWF (a : Abs) : Prop := a.started = false → a.closed = [] ∧ a.cur = []

theorem FRel.wf {cfg : Cfg} {lo : Nat} {s : St} {a : Abs} (h : FRel cfg lo s a) : AbsWF a := by
  obtain ⟨-, hI⟩ := h
  cases hact : s.act with
  | none =>
    rw [hact] at hI
    rw [hI.2]
    intro _
    exact ⟨rfl, rfl⟩
  | some act =>
    rw [hact] at hI
    intro h
    rw [hI.started] at h
    cases h

/-- the abstract condition for "the write is performed" -/
def fwrote (rot : Option RotCfg) (a : Abs) (fl : Faults) : Bool :=
  (a.started || ioOk rot fl) && !(hit fl.writeF 0)

theorem wrote_eq {cfg : Cfg} (hc : CfgF cfg) {lo : Nat} {s : St} {a : Abs} (h : FRel cfg lo s a)
    (b : List Nat) (now : Nat) (fl : Faults) : wrote s b now fl = fwrote cfg.rot a fl := by
  obtain ⟨hcfg, hI⟩ := h
  unfold wrote fwrote
  cases hact : s.act with
  | none =>
    rw [hact] at hI
    obtain ⟨hdir, ha⟩ := hI
    obtain ⟨i1, -⟩ := initState_frel hc s now fl hcfg hdir hact
    simp [i1, ha, Abs.init]
  | some act =>
    rw [hact] at hI
    simp [hI.started]

/-- the byte stream of an abstract state -/
def stream (a : Abs) : List Nat := a.closed.flatten ++ a.cur

theorem files_stream {a : Abs} (hwf : AbsWF a) : a.files.flatten = stream a := by
  cases hs : a.started with
  | false =>
    obtain ⟨h1, h2⟩ := hwf hs
    simp [Abs.files, stream, hs, h1, h2]
  | true => simp [Abs.files, stream, hs]

theorem stream_rotate (a : Abs) (now : Nat) : stream (a.rotate now) = stream a := by
  simp [stream, Abs.rotate]

theorem stream_rotIf (rot : Option RotCfg) (c : RotCfg → Bool) (a : Abs) (now : Nat) :
    stream (match rot with
      | some r => if c r then a.rotate now else a
      | none => a) = stream a ∧
    (match rot with
      | some r => if c r then a.rotate now else a
      | none => a).started = a.started := by
  cases rot with
  | none => exact ⟨rfl, rfl⟩
  | some r =>
    cases hc : c r <;> simp [hc, stream, Abs.rotate]

/-- **Abstract stream theorem with faults**: an operation appends exactly the record of a
    performed write to the stream, nothing else changes it -/
theorem fstep_stream (rot : Option RotCfg) (a : Abs) (op : Op) (now : Nat) (fl : Faults)
    (hwf : AbsWF a) :
    AbsWF (fstep rot a op now fl) ∧
    stream (fstep rot a op now fl) =
      stream a ++ (match op with
        | .write b => if fwrote rot a fl then b else []
        | _ => []) := by
  cases op with
  | write b =>
    simp only [fstep]
    by_cases h0 : (!a.started && !ioOk rot fl) = true
    · rw [if_pos h0]
      have : fwrote rot a fl = false := by
        unfold fwrote
        cases hs : a.started <;> cases hio : ioOk rot fl <;> simp [hs, hio] at h0 ⊢
      simp [this, hwf]
    · rw [if_neg h0]
      have h0' : (a.started || ioOk rot fl) = true := by
        cases hs : a.started <;> cases hio : ioOk rot fl <;> simp [hs, hio] at h0 ⊢
      have hA : stream (if a.started = true then a else { a with started := true, created := now })
            = stream a ∧
          (if a.started = true then a else { a with started := true, created := now }).started
            = true := by
        cases hs : a.started <;> simp [stream, hs]
      have hfw : fwrote rot a fl = !(hit fl.writeF 0) := by
        unfold fwrote
        rw [h0', Bool.true_and]
      rw [hfw]
      obtain ⟨hA1, hA2⟩ := hA
      obtain ⟨hB1, hB2⟩ := stream_rotIf rot (fun r => absNecessary r
        (if a.started = true then a else { a with started := true, created := now }) now &&
          ioOk rot fl)
        (if a.started = true then a else { a with started := true, created := now }) now
      rw [hA1] at hB1
      rw [hA2] at hB2
      cases hw : hit fl.writeF 0 with
      | true =>
        simp only [if_true, Bool.not_true, Bool.false_eq_true, if_false, List.append_nil]
        exact ⟨fun h => (by rw [hB2] at h; cases h), hB1⟩
      | false =>
        simp only [Bool.false_eq_true, if_false, Bool.not_false, if_true]
        refine ⟨fun h => (by simp only at h; rw [hB2] at h; cases h), ?_⟩
        simp only [stream] at hB1 ⊢
        rw [← List.append_assoc, hB1]
  | rotate =>
    simp only [fstep, List.append_nil]
    cases rot with
    | none => exact ⟨hwf, rfl⟩
    | some r =>
      simp only
      by_cases h : (a.started && ioOk (some r) fl) = true
      · rw [if_pos h]
        refine ⟨fun h' => ?_, stream_rotate a now⟩
        have : a.started = true := by
          cases hs : a.started <;> simp [hs] at h ⊢
        simp [Abs.rotate, this] at h'
      · rw [if_neg h]
        exact ⟨hwf, rfl⟩
  | flush => exact ⟨hwf, by simp [fstep]⟩
  | shutdown => exact ⟨hwf, by simp [fstep]⟩
  | restart _ => exact ⟨hwf, by simp [fstep]⟩
  | reset _ => exact ⟨hwf, by simp [fstep]⟩
  | extRename => exact ⟨hwf, by simp [fstep]⟩
  | extRemove => exact ⟨hwf, by simp [fstep]⟩
  | reopen => exact ⟨hwf, by simp [fstep]⟩

/-- **Refinement with faults, for histories.** -/
theorem run_frel {cfg : Cfg} (hc : CfgF cfg) :
    ∀ (ops : List (Op × Nat × Faults)) (lo : Nat) (s : St) (a : Abs), FRel cfg lo s a →
      (∀ o ∈ ops, o.1.plain = true) → (∀ o ∈ ops, o.1.usesClock = true → lo ≤ o.2.1) →
      Monotone ops →
      FRel cfg (lastClock lo ops) (runOps s ops) (frun cfg.rot a ops) ∧
      stream (frun cfg.rot a ops) = stream a ++ (accepted s ops).flatten := by
  intro ops
  induction ops with
  | nil => intro lo s a hI _ _ _; exact ⟨hI, by simp [frun, accepted]⟩
  | cons o os ih =>
    intro lo s a hI hp hlo hm
    obtain ⟨op, now, fl⟩ := o
    obtain ⟨hm1, hm2⟩ := FlwB.monotone_tail hm
    have hp1 : op.plain = true := hp (op, now, fl) (by simp)
    obtain ⟨hstep, -, -⟩ := step_frel hc s a lo op now fl hI hp1 (hlo (op, now, fl) (by simp))
    have e1 : runOps s ((op, now, fl) :: os) = runOps (step s op now fl).1 os := rfl
    have e2 : frun cfg.rot a ((op, now, fl) :: os) = frun cfg.rot (fstep cfg.rot a op now fl) os :=
      rfl
    have e3 : lastClock lo ((op, now, fl) :: os) =
        lastClock (if op.usesClock then now else lo) os := rfl
    obtain ⟨r1, r2⟩ := ih _ _ _ hstep (fun o' ho' => hp o' (by simp [ho'])) (by
      intro o' ho' hu'
      by_cases hu : op.usesClock = true
      · rw [if_pos hu]; exact hm2 hu o' ho' hu'
      · rw [if_neg hu]; exact hlo o' (by simp [ho']) hu') hm1
    rw [e1, e2, e3]
    refine ⟨r1, ?_⟩
    rw [r2, (fstep_stream cfg.rot a op now fl hI.wf).2]
    simp only [accepted, List.flatten_append, List.append_assoc]
    congr 1
    congr 1
    cases op <;> simp [wrote_eq hc hI]
    split <;> simp

theorem frel_init (cfg : Cfg) : FRel cfg 0 (init cfg []) Abs.init := ⟨rfl, rfl, rfl⟩

/-! ### what the invariant says about the directory -/

/-- the descriptor's file exists and is the last file in reading order; the rotated files are
    strictly ordered by key (so the listing order is unambiguous) -/
theorem FAct.usable {cfg : Cfg} {lo : Nat} {d : Dir} {act : Active} {a : Abs}
    (h : FAct cfg lo d act a) :
    ∃ f, d.get act.handle = some f ∧ (parts d).getLast? = some f.data ∧
      act.unbuffered = false ∧
      ((rotatedAsc d).map (fun e => FlwB.nkey e.1)).Pairwise (fun x y => keyLt x y = true) := by
  obtain ⟨f, ns, hl, -, -⟩ := h.last
  have hp := hl.parts (FlwA.cnOf_cases cfg)
  refine ⟨f, hl.get_new, by simp [hp], h.unbuf, ?_⟩
  obtain ⟨L, -, hD, -, -⟩ := hl
  have hnr : ∀ v, FlwA.isRot (FlwA.cnOf cfg, v) = false := FlwA.isRot_cnOf cfg
  rw [← FlwA.rotatedAsc_erase d _ hnr, FlwB.rotatedAsc_eq hD]
  have := hD.2.1
  rw [List.pairwise_map] at this ⊢
  exact this

end FV.FlwF
