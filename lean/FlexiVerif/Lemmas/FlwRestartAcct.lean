import FlexiVerif.Lemmas.FlwRestartA
import FlexiVerif.Lemmas.FlwRestartB
import FlexiVerif.Lemmas.FlwRules
/-
  The rotation bookkeeping of the writer (`current_size`, `created_at`) across restarts.

  `Ok r s a f`: the writer `a` of the state `s` writes to the file `f` (the file its descriptor
  refers to), its size counter is the length of that file plus the buffered bytes, and its
  `created` is the birth time recorded for that file. `Good r s` says this of the mounted writer
  (if any). The invariant is inductive over plain operations and restarts (no faults, no
  cleanup) for all four namings; it needs no abstract machine, no monotone clock and no "flushed
  before restart": a new run derives everything from the directory (`initState_spec`).
  Only for `numbersDirect` with `append` the freshness of the next index is needed (else the
  rotation would re-open an older file without truncating it while resetting the counter to 0):
  it comes from FlwRestartB's invariant (`FV.FlwB.HW`, `FV.FlwB.Inv2.hw`).

  * `initState_spec`        what a new run starts from (counter = size of the file found / 0)
  * `mountNext_rot`         a rotation: empty new file created "now", the old one complete
  * `write_mounted`         one write of a mounted writer: decision and effect
  * `step_good`, `run_good`, `good_of_hist`   the invariant along multi-run histories
  * `MAbs_run_size`, `MInv.files`              the abstract multi-run machine of FlwRestartA
-/
namespace FV.Acct
open FV.Flw
open FV.FlwA (curN)

/-! ### the directory -/

theorem get_append_ne (d : Dir) (n m : FName) (b : List Nat) (h : m ≠ n) :
    (d.append n b).get m = d.get m := by
  unfold Dir.append
  cases hg : d.get n with
  | none => rfl
  | some f =>
    simp only []
    exact FV.FlwA.get_set_ne d n m _ h

/-- after `rename a b` the source name is free -/
theorem rename_get_src (d : Dir) (a b : FName) (h : a ≠ b) : (d.rename a b).1.get a = none := by
  unfold Dir.rename
  cases hg : d.get a with
  | none => exact hg
  | some v =>
    simp only []
    rw [FV.FlwA.get_set_ne _ _ _ _ h, FV.FlwA.get_erase_self]

theorem openFile_dir (s : St) (n : FName) (now : Nat) :
    (openFile s n now noFaults 0).1.dir =
      match s.dir.get n with
      | some f => if s.cfg.append then s.dir else s.dir.set n { f with data := [] }
      | none => s.dir.set n ⟨[], now⟩ := by
  unfold openFile
  cases s.cfg.symlink <;> rfl

/-- `open(create, append | truncate)` without faults: the file exists afterwards — the file
    found (truncated unless `append`; the birth time stays), or a new empty file born `now`;
    no other name is touched -/
theorem openFile_spec (s : St) (n : FName) (now : Nat) :
    ∃ f, (openFile s n now noFaults 0).1.dir.get n = some f ∧
      (∀ m, m ≠ n → (openFile s n now noFaults 0).1.dir.get m = s.dir.get m) ∧
      (∀ f0, s.dir.get n = some f0 →
        f = ⟨if s.cfg.append = true then f0.data else [], f0.created⟩) ∧
      (s.dir.get n = none → f = ⟨[], now⟩) := by
  rw [openFile_dir]
  cases hg : s.dir.get n with
  | none =>
    exact ⟨⟨[], now⟩, FV.FlwA.get_set_self _ _ _, fun m hm => FV.FlwA.get_set_ne _ _ _ _ hm,
      (fun f0 h => by cases h), fun _ => rfl⟩
  | some f0 =>
    cases ha : s.cfg.append with
    | true =>
      refine ⟨f0, by simpa using hg, (fun m _ => by simp), ?_, fun h => by cases h⟩
      intro f1 h1
      cases h1
      rfl
    | false =>
      refine ⟨⟨[], f0.created⟩, by simp, (fun m hm => by simpa using FV.FlwA.get_set_ne _ _ _ _ hm),
        ?_, fun h => by cases h⟩
      intro f1 h1
      cases h1
      rfl

/-! ### the invariant -/

/-- the namings that write to `rCURRENT` -/
def rcur (nm : Naming) : Prop := nm = .numbers ∨ nm = .timestamps

/-- the writer `a` of state `s` and the file `f` its descriptor refers to: the size counter is
    the length of the file plus the buffered bytes, `created` is the recorded birth time -/
structure Ok (r : RotCfg) (s : St) (a : Active) (f : File) : Prop where
  file : s.dir.get a.handle = some f
  size : a.size = f.data.length + a.pending.length
  created : a.created = f.created
  direct : (if a.unbuffered then none else s.cfg.cap) = none → a.pending = []
  cur : rcur r.naming → a.handle = curN

def Good (r : RotCfg) (s : St) : Prop :=
  s.cfg.rot = some r ∧ ∀ a, s.act = some a → ∃ f, Ok r s a f

/-! ### `flushAct`, `writeRaw` -/

theorem flushAct_get (s : St) (a : Active) (f : File) (hf : s.dir.get a.handle = some f) :
    (flushAct s a).1.dir.get a.handle = some ⟨f.data ++ a.pending, f.created⟩ :=
  FV.FlwA.get_append_self _ _ f _ hf

theorem flushAct_ok {r : RotCfg} {s : St} {a : Active} {f : File} (h : Ok r s a f) :
    Ok r (flushAct s a).1 (flushAct s a).2 ⟨f.data ++ a.pending, f.created⟩ where
  file := flushAct_get s a f h.file
  size := by
    have := h.size
    simp only [flushAct, List.length_append, List.length_nil]
    omega
  created := h.created
  direct := fun _ => rfl
  cur := h.cur

/-- the `BufWriter` rule: file content ++ buffer grows by exactly `b`; only the file of the
    descriptor changes; its birth time stays -/
theorem writeRaw_file (s : St) (a : Active) (b : List Nat) (f : File)
    (hf : s.dir.get a.handle = some f)
    (hd : (if a.unbuffered then none else s.cfg.cap) = none → a.pending = []) :
    ∃ d' p' f', writeRaw s a b = ({ s with dir := d' }, { a with pending := p' }) ∧
      d'.get a.handle = some f' ∧ f'.created = f.created ∧
      f'.data ++ p' = f.data ++ a.pending ++ b ∧
      ((if a.unbuffered then none else s.cfg.cap) = none → p' = []) ∧
      (∀ m, m ≠ a.handle → d'.get m = s.dir.get m) := by
  unfold writeRaw
  split
  · rename_i hcap
    have hp := hd hcap
    refine ⟨_, a.pending, ⟨f.data ++ b, f.created⟩, rfl, FV.FlwA.get_append_self _ _ f b hf, rfl,
      by simp [hp], fun _ => hp, fun m hm => get_append_ne _ _ _ _ hm⟩
  · rename_i c hcap
    have hnone : ¬ ((if a.unbuffered then none else s.cfg.cap) = none) := by
      rw [hcap]
      simp
    by_cases hfl : a.pending.length + b.length > c
    · have hf1 := FV.FlwA.get_append_self _ _ f a.pending hf
      by_cases hb : b.length ≥ c
      · simp only [if_pos hfl, if_pos hb, flushAct]
        refine ⟨_, [], ⟨f.data ++ a.pending ++ b, f.created⟩, rfl,
          FV.FlwA.get_append_self _ _ _ b hf1, rfl, by simp, fun h => absurd h hnone, ?_⟩
        intro m hm
        rw [get_append_ne _ _ _ _ hm, get_append_ne _ _ _ _ hm]
      · simp only [if_pos hfl, if_neg hb, flushAct]
        refine ⟨_, b, ⟨f.data ++ a.pending, f.created⟩, by simp, hf1, rfl, by simp,
          fun h => absurd h hnone, fun m hm => get_append_ne _ _ _ _ hm⟩
    · by_cases hb : b.length ≥ c
      · simp only [if_neg hfl, if_pos hb]
        have hp : a.pending = [] := List.eq_nil_of_length_eq_zero (by omega)
        refine ⟨_, a.pending, ⟨f.data ++ b, f.created⟩, rfl,
          FV.FlwA.get_append_self _ _ f b hf, rfl, by simp [hp], fun h => absurd h hnone,
          fun m hm => get_append_ne _ _ _ _ hm⟩
      · simp only [if_neg hfl, if_neg hb]
        exact ⟨s.dir, a.pending ++ b, f, rfl, hf, rfl, by simp, fun h => absurd h hnone,
          fun _ _ => rfl⟩

/-- the write proper (after the rotation check): `FV.FlwA.wrote` -/
theorem wrote_ok {r : RotCfg} {s : St} {a : Active} {f : File} (b : List Nat) (h : Ok r s a f) :
    ∃ a' f', (FV.FlwA.wrote s a b).act = some a' ∧ (FV.FlwA.wrote s a b).cfg = s.cfg ∧
      Ok r (FV.FlwA.wrote s a b) a' f' ∧ a'.handle = a.handle ∧ f'.created = f.created ∧
      f'.data ++ a'.pending = f.data ++ a.pending ++ b ∧
      (∀ m, m ≠ a.handle → (FV.FlwA.wrote s a b).dir.get m = s.dir.get m) := by
  obtain ⟨d', p', f', hw, hget, hcr, hdata, hdir, hoth⟩ := writeRaw_file s a b f h.file h.direct
  unfold FV.FlwA.wrote
  rw [hw]
  refine ⟨_, f', rfl, rfl, ⟨hget, ?_, h.created.trans hcr.symm, hdir, h.cur⟩, rfl, hcr, hdata, hoth⟩
  have hl := congrArg List.length hdata
  have := h.size
  simp only [List.length_append] at hl ⊢
  omega

/-! ### initialisation of a run -/

/-- the four namings -/
theorem naming_cases (nm : Naming) :
    nm = .numbers ∨ nm = .timestamps ∨ nm = .numbersDirect ∨ nm = .timestampsDirect := by
  cases nm <;> simp

theorem not_rcur_of_direct {nm : Naming} (h : nm = .numbersDirect ∨ nm = .timestampsDirect) :
    ¬ rcur nm := by
  intro hc
  rcases h with h | h <;> rcases hc with h' | h' <;> rw [h] at h' <;> cases h'

/-- shape of `initState`: some preparation (`sp`: for the rCURRENT namings without `append` the
    left-over current file has been renamed away), then `openFile` of the chosen name `i`; the
    counters are read from the file opened -/
def InitForm (s : St) (r : RotCfg) (now : Nat) : Prop :=
  ∃ (sp : St) (i : Infix) (idx stamp : Nat),
    sp.cfg = s.cfg ∧ (s.cfg.append = true → sp.dir = s.dir) ∧
    (s.cfg.append = false → sp.dir.get ⟨some i, false⟩ = none) ∧
    (rcur r.naming → i = .cur) ∧
    initState s now noFaults =
      ({ (openFile sp ⟨some i, false⟩ now noFaults 0).1 with
          act := some ⟨⟨some i, false⟩, ⟨some i, false⟩, [], false, idx, stamp,
            if s.cfg.append = true then
              fileLen (openFile sp ⟨some i, false⟩ now noFaults 0).1.dir ⟨some i, false⟩ else 0,
            createdOr (openFile sp ⟨some i, false⟩ now noFaults 0).1.dir ⟨some i, false⟩ now⟩ },
        true)

/-- `initState` (rotation configured, no faults, no cleanup) has this shape for all namings -/
theorem initState_form (s : St) (r : RotCfg) (now : Nat) (hrot : s.cfg.rot = some r)
    (hcl : r.cleanup = none) : InitForm s r now := by
  have hdirect : r.naming = .numbersDirect ∨ r.naming = .timestampsDirect → InitForm s r now :=
    fun hB =>
      ⟨s, (FV.FlwB.initPre s r.naming now).1, (FV.FlwB.initPre s r.naming now).2.1,
        (FV.FlwB.initPre s r.naming now).2.2, rfl, fun _ => rfl,
        fun ha => FV.FlwB.initPre_fresh s r.naming now ha,
        fun hc => absurd hc (not_rcur_of_direct hB),
        FV.FlwB.initState_B s r now hrot hB hcl⟩
  have hne : ∀ t : Infix, t.rotated = true → curN ≠ (⟨some t, false⟩ : FName) := by
    intro t ht h
    cases h
    simp [Infix.rotated] at ht
  rcases naming_cases r.naming with hnm | hnm | hnm | hnm
  · cases ha : s.cfg.append with
    | true =>
      refine ⟨s, .cur, FV.FlwA.idx0 s.dir, 0, rfl, fun _ => rfl, (fun h => by simp [ha] at h),
        fun _ => rfl, ?_⟩
      rw [FV.FlwA.initState_numbers_app s _ r now hrot hnm hcl ha (FV.FlwB.openFile_ok s curN now)
        (FV.FlwB.openFile_cfg s curN now noFaults 0)]
      simp [ha]
    | false =>
      have hren : s.dir.rename curN ⟨some (.num (FV.FlwA.idx0 s.dir)), false⟩ =
          ((s.dir.rename curN ⟨some (.num (FV.FlwA.idx0 s.dir)), false⟩).1,
           (s.dir.rename curN ⟨some (.num (FV.FlwA.idx0 s.dir)), false⟩).2) := rfl
      refine ⟨{ s with dir := (s.dir.rename curN ⟨some (.num (FV.FlwA.idx0 s.dir)), false⟩).1 },
        .cur, (if (s.dir.rename curN ⟨some (.num (FV.FlwA.idx0 s.dir)), false⟩).2 = true
          then FV.FlwA.idx0 s.dir + 1 else FV.FlwA.idx0 s.dir), 0, rfl,
        (fun h => by simp [ha] at h), fun _ => rename_get_src _ _ _ (hne _ rfl),
        fun _ => rfl, ?_⟩
      rw [FV.FlwA.initState_numbers_new s _ r now _ _ hrot hnm hcl ha hren
        (FV.FlwB.openFile_ok _ curN now) (FV.FlwB.openFile_cfg _ curN now noFaults 0)]
      simp [ha]
  · cases ha : s.cfg.append with
    | true =>
      refine ⟨s, .cur, 0, FV.Flw.createdOr s.dir curN now, rfl, fun _ => rfl,
        (fun h => by simp [ha] at h), fun _ => rfl, ?_⟩
      rw [FV.FlwA.initState_timestamps_app s _ r now hrot hnm hcl ha
        (FV.FlwB.openFile_ok s curN now) (FV.FlwB.openFile_cfg s curN now noFaults 0)]
      simp [ha]
    | false =>
      obtain ⟨rr, hti⟩ := FV.FlwA.collisionFree_ts s.dir (createdOr s.dir curN now)
      have hren : s.dir.rename curN
            ⟨some (collisionFree s.dir (createdOr s.dir curN now)), false⟩ =
          ((s.dir.rename curN ⟨some (collisionFree s.dir (createdOr s.dir curN now)), false⟩).1,
           (s.dir.rename curN ⟨some (collisionFree s.dir (createdOr s.dir curN now)), false⟩).2) :=
        rfl
      refine ⟨{ s with dir := (s.dir.rename curN
          ⟨some (collisionFree s.dir (createdOr s.dir curN now)), false⟩).1 },
        .cur, 0, now, rfl, (fun h => by simp [ha] at h),
        fun _ => rename_get_src _ _ _ (hne _ (by rw [hti]; rfl)), fun _ => rfl, ?_⟩
      rw [FV.FlwA.initState_timestamps_new s _ r now _ _ hrot hnm hcl ha hren
        (FV.FlwB.openFile_ok _ curN now) (FV.FlwB.openFile_cfg _ curN now noFaults 0)]
      simp [ha]
  · exact hdirect (Or.inl hnm)
  · exact hdirect (Or.inr hnm)

/-- **What a run starts from** (all namings, rotation configured, no faults, no cleanup).
    `initState` succeeds; the writer is mounted on a file `f` that exists, with an empty buffer,
    and its bookkeeping agrees with that file (`Ok`). With `append` the file found under the
    chosen name (if any) is continued unchanged — the counter starts at its length, `created` is
    its recorded birth time; without `append` the file is new: empty and born `now`. -/
theorem initState_spec (s : St) (r : RotCfg) (now : Nat) (hrot : s.cfg.rot = some r)
    (hcl : r.cleanup = none) :
    ∃ s1 a f, initState s now noFaults = (s1, true) ∧ s1.cfg = s.cfg ∧ s1.act = some a ∧
      a.pending = [] ∧ Ok r s1 a f ∧
      (s.cfg.append = true → a.size = fileLen s.dir a.handle ∧
        (∀ f0, s.dir.get a.handle = some f0 → f = f0) ∧
        (s.dir.get a.handle = none → f = ⟨[], now⟩)) ∧
      (s.cfg.append = false → a.size = 0 ∧ f = ⟨[], now⟩) := by
  obtain ⟨sp, i, idx, stamp, hcfg, happ, hfresh, hcur, hinit⟩ := initState_form s r now hrot hcl
  obtain ⟨f, hget, -, hfound, hnew⟩ := openFile_spec sp ⟨some i, false⟩ now
  have hlen : fileLen (openFile sp ⟨some i, false⟩ now noFaults 0).1.dir ⟨some i, false⟩ =
      f.data.length := by simp [fileLen, hget]
  have hcr : createdOr (openFile sp ⟨some i, false⟩ now noFaults 0).1.dir ⟨some i, false⟩ now =
      f.created := by simp [createdOr, hget]
  have hc1 : (openFile sp ⟨some i, false⟩ now noFaults 0).1.cfg = s.cfg :=
    (FV.FlwB.openFile_cfg sp _ now noFaults 0).trans hcfg
  refine ⟨_, _, f, hinit, hc1, rfl, rfl, ?_, ?_, ?_⟩
  · refine ⟨hget, ?_, hcr, fun _ => rfl, fun h => by rw [hcur h]⟩
    simp only [List.length_nil, Nat.add_zero]
    cases ha : s.cfg.append with
    | true => simpa using hlen
    | false =>
      rw [hnew (hfresh ha)]
      simp
  · intro ha
    have hd := happ ha
    have hsa : sp.cfg.append = true := by rw [hcfg]; exact ha
    simp only [ha, if_true]
    cases hg : s.dir.get ⟨some i, false⟩ with
    | none =>
      have hf := hnew (by rw [hd]; exact hg)
      refine ⟨?_, (fun f0 h => by cases h), fun _ => hf⟩
      rw [hlen, hf]
      simp [fileLen, hg]
    | some f0 =>
      have hf := hfound f0 (by rw [hd]; exact hg)
      simp only [hsa, if_true] at hf
      refine ⟨?_, (fun f1 h => by cases h; exact hf), fun h => by cases h⟩
      rw [hlen, hf]
      simp [fileLen, hg]
  · intro ha
    refine ⟨by simp [ha], hnew (hfresh ha)⟩

/-! ### rotation -/

/-- outcome of a rotation of the writer `a` (on file `f`): the writer is on a new, empty file
    born `now` with counters reset; the old file is complete (buffer flushed into it) under some
    other name `n'` (its own name for the direct namings, the rotated name for rCURRENT) -/
structure Rotated (s : St) (a : Active) (f : File) (now : Nat) (s' : St) (a' : Active) :
    Prop where
  cfg : s'.cfg = s.cfg
  pending : a'.pending = []
  unbuf : a'.unbuffered = false
  size : a'.size = 0
  created : a'.created = now
  file : s'.dir.get a'.handle = some ⟨[], now⟩
  old : ∃ n', n' ≠ a'.handle ∧ s'.dir.get n' = some ⟨f.data ++ a.pending, f.created⟩

theorem Rotated.ok {r : RotCfg} {s : St} {a : Active} {f : File} {now : Nat} {s' : St}
    {a' : Active} (h : Rotated s a f now s' a') (hc : rcur r.naming → a'.handle = curN) :
    Ok r s' a' ⟨[], now⟩ where
  file := h.file
  size := by rw [h.size, h.pending]; rfl
  created := h.created
  direct := fun _ => h.pending
  cur := hc

/-- the tail of a rotation for the direct namings -/
theorem rotTail_spec (sp : St) (ap : Active) (i : Infix) (now : Nat) (F : File)
    (hfresh : sp.dir.get ⟨some i, false⟩ = none) (hp : ap.pending = [])
    (hF : sp.dir.get ap.handle = some F) :
    ∃ s' a', FV.FlwB.rotTail sp ap i now = (s', a', false) ∧ s'.cfg = sp.cfg ∧
      a'.pending = [] ∧ a'.unbuffered = false ∧ a'.size = 0 ∧ a'.created = now ∧
      a'.handle = ⟨some i, false⟩ ∧
      s'.dir.get a'.handle = some ⟨[], now⟩ ∧ ap.handle ≠ a'.handle ∧
      s'.dir.get ap.handle = some F := by
  have hne : ap.handle ≠ (⟨some i, false⟩ : FName) := by
    intro h
    rw [h, hfresh] at hF
    cases hF
  obtain ⟨-, hc1, -, hd1⟩ := FV.FlwB.openFile_new sp ⟨some i, false⟩ now hfresh
  have hg1 : ((openFile sp ⟨some i, false⟩ now noFaults 0).1.dir.append ap.handle ap.pending).get
      ⟨some i, false⟩ = some ⟨[], now⟩ := by
    rw [get_append_ne _ _ _ _ hne.symm, hd1, FV.FlwA.get_set_self]
  have hg2 : ((openFile sp ⟨some i, false⟩ now noFaults 0).1.dir.append ap.handle ap.pending).get
      ap.handle = some F := by
    have : (openFile sp ⟨some i, false⟩ now noFaults 0).1.dir.get ap.handle = some F := by
      rw [hd1, FV.FlwA.get_set_ne _ _ _ _ hne]
      exact hF
    rw [FV.FlwA.get_append_self _ _ F _ this, hp]
    simp
  refine ⟨_, _, rfl, hc1, rfl, rfl, rfl, ?_, rfl, hg1, hne, hg2⟩
  simp [createdOr, hg1]

theorem rot_rcur_dir (d : Dir) (F : File) (t : Infix) (now : Nat) (ht : t.rotated = true)
    (hF : d.get curN = some F) :
    ∃ d1, d.rename curN ⟨some t, false⟩ = (d1, true) ∧ d1.get curN = none ∧
      ((d1.set curN ⟨[], now⟩).append ⟨some t, false⟩ []).get curN = some ⟨[], now⟩ ∧
      ((d1.set curN ⟨[], now⟩).append ⟨some t, false⟩ []).get ⟨some t, false⟩ = some F := by
  have hne : curN ≠ (⟨some t, false⟩ : FName) := by
    intro h
    cases h
    simp [Infix.rotated] at ht
  refine ⟨(d.erase curN).set ⟨some t, false⟩ F, by simp [Dir.rename, hF], ?_, ?_, ?_⟩
  · rw [FV.FlwA.get_set_ne _ _ _ _ hne, FV.FlwA.get_erase_self]
  · rw [get_append_ne _ _ _ _ hne, FV.FlwA.get_set_self]
  · have : (((d.erase curN).set ⟨some t, false⟩ F).set curN ⟨[], now⟩).get ⟨some t, false⟩ =
        some F := by
      rw [FV.FlwA.get_set_ne _ _ _ _ hne.symm, FV.FlwA.get_set_self]
    rw [FV.FlwA.get_append_self _ _ F _ this]
    simp

/-- **A rotation** (`mountNext` when it is due; all namings, no faults, no cleanup). For
    `numbersDirect` the next index must be free (`hw`). -/
theorem mountNext_rot {r : RotCfg} (s : St) (a : Active) (f : File) (force : Bool) (now : Nat)
    (hcl : r.cleanup = none) (hdue : (force || rotationNecessary r a now) = true)
    (hok : Ok r s a f)
    (hw : r.naming = .numbersDirect → s.dir.get ⟨some (.num (a.idx + 1)), false⟩ = none) :
    ∃ s' a', mountNext s a r force now noFaults = (s', a', false) ∧ Rotated s a f now s' a' ∧
      (rcur r.naming → a'.handle = curN) := by
  have hF := flushAct_get s a f hok.file
  rw [FV.FlwA.mountNext_due s a r force now noFaults hdue]
  rcases naming_cases r.naming with hnm | hnm | hnm | hnm
  rotate_left 2
  · -- numbersDirect
    rw [FV.FlwB.mountNextCore_nD _ _ r true now hnm hcl rfl]
    obtain ⟨s', a', h1, h2, h3, h4, h5, h6, h7, h8, h9, h10⟩ :=
      rotTail_spec (flushAct s a).1 { (flushAct s a).2 with idx := (flushAct s a).2.idx + 1 }
        (.num ((flushAct s a).2.idx + 1)) now _
        (FV.FlwB.get_append_none _ _ _ _ (hw hnm)) rfl hF
    exact ⟨s', a', h1, ⟨h2, h3, h4, h5, h6, h8, _, h9, h10⟩,
      fun hc => absurd hc (not_rcur_of_direct (Or.inl hnm))⟩
  · -- timestampsDirect
    rw [FV.FlwB.mountNextCore_tD _ _ r true now hnm hcl rfl]
    obtain ⟨s', a', h1, h2, h3, h4, h5, h6, h7, h8, h9, h10⟩ :=
      rotTail_spec (flushAct s a).1 { (flushAct s a).2 with stamp := now }
        (collisionFree (flushAct s a).1.dir now) now _
        (FV.FlwB.collisionFree_get _ _) rfl hF
    exact ⟨s', a', h1, ⟨h2, h3, h4, h5, h6, h8, _, h9, h10⟩,
      fun hc => absurd hc (not_rcur_of_direct (Or.inr hnm))⟩
  · -- numbers
    have hh : a.handle = curN := hok.cur (Or.inl hnm)
    rw [hh] at hF
    obtain ⟨d1, hren, hg1, hg2, hg3⟩ :=
      rot_rcur_dir (flushAct s a).1.dir _ (.num a.idx) now rfl hF
    obtain ⟨s', he, hc', hd'⟩ := FV.FlwA.mountNextCore_numbers (flushAct s a).1 (flushAct s a).2 r
      true now hnm hcl rfl d1 hren hh hg1
    replace hd' : s'.dir = (d1.set curN ⟨[], now⟩).append ⟨some (.num a.idx), false⟩ [] := hd'
    refine ⟨s', _, he, ⟨hc', rfl, rfl, rfl, ?_, ?_, ⟨some (.num a.idx), false⟩, ?_, ?_⟩,
      fun _ => rfl⟩
    · simp only [hd']
      simp [createdOr, hg2]
    · simp only [hd']
      exact hg2
    · intro h
      cases h
    · rw [hd']
      exact hg3
  · -- timestamps
    have hh : a.handle = curN := hok.cur (Or.inr hnm)
    rw [hh] at hF
    obtain ⟨rr, hti⟩ := FV.FlwA.collisionFree_ts (flushAct s a).1.dir (flushAct s a).2.stamp
    obtain ⟨d1, hren, hg1, hg2, hg3⟩ :=
      rot_rcur_dir (flushAct s a).1.dir _
        (collisionFree (flushAct s a).1.dir (flushAct s a).2.stamp) now (by rw [hti]; rfl) hF
    obtain ⟨s', he, hc', hd'⟩ := FV.FlwA.mountNextCore_timestamps (flushAct s a).1
      (flushAct s a).2 r true now hnm hcl rfl d1 hren hh hg1
    replace hd' : s'.dir = (d1.set curN ⟨[], now⟩).append
      ⟨some (collisionFree (flushAct s a).1.dir (flushAct s a).2.stamp), false⟩ [] := hd'
    refine ⟨s', _, he, ⟨hc', rfl, rfl, rfl, ?_, ?_,
      ⟨some (collisionFree (flushAct s a).1.dir (flushAct s a).2.stamp), false⟩, ?_, ?_⟩,
      fun _ => rfl⟩
    · simp only [hd']
      simp [createdOr, hg2]
    · simp only [hd']
      exact hg2
    · rw [hti]
      intro h
      cases h
    · rw [hd']
      exact hg3

/-! ### one write -/

/-- **One write of a mounted writer** (all namings, no faults, no cleanup): the decision is
    `rotationNecessary r a now`. If it is taken, the old file is complete under another name and
    the record is all there is in the new file, born `now`; otherwise the record is appended to
    the same file. In both cases the bookkeeping agrees with the file written to afterwards. -/
theorem write_mounted {r : RotCfg} (s : St) (a : Active) (f : File) (b : List Nat) (now : Nat)
    (hrot : s.cfg.rot = some r) (hcl : r.cleanup = none) (hact : s.act = some a)
    (hok : Ok r s a f)
    (hw : r.naming = .numbersDirect → s.dir.get ⟨some (.num (a.idx + 1)), false⟩ = none) :
    ∃ a' f', (writeBuffer s b now noFaults).1.act = some a' ∧
      (writeBuffer s b now noFaults).1.cfg = s.cfg ∧
      Ok r (writeBuffer s b now noFaults).1 a' f' ∧
      (rotationNecessary r a now = true →
        f'.data ++ a'.pending = b ∧ f'.created = now ∧
        ∃ n', n' ≠ a'.handle ∧
          (writeBuffer s b now noFaults).1.dir.get n' = some ⟨f.data ++ a.pending, f.created⟩) ∧
      (rotationNecessary r a now = false →
        a'.handle = a.handle ∧ f'.data ++ a'.pending = f.data ++ a.pending ++ b ∧
        f'.created = f.created) := by
  by_cases hnec : rotationNecessary r a now = true
  · obtain ⟨s2, a2, hm, hR, hc⟩ := mountNext_rot s a f false now hcl (by simp [hnec]) hok hw
    rw [FV.FlwA.writeBuffer_some_rot s a b now r s2 a2 hact hrot hm]
    obtain ⟨a', f', h1, h2, h3, h4, h5, h6, h7⟩ := wrote_ok b (hR.ok hc)
    refine ⟨a', f', h1, h2.trans hR.cfg, h3, ?_, fun h => by rw [hnec] at h; cases h⟩
    intro _
    obtain ⟨n', hn1, hn2⟩ := hR.old
    refine ⟨by simpa [hR.pending] using h6, h5, n', by rw [h4]; exact hn1, ?_⟩
    rw [h7 n' hn1]
    exact hn2
  · have hnec' : rotationNecessary r a now = false := by simpa using hnec
    have hm := FV.FlwA.mountNext_skip s a r false now noFaults (by simp [hnec'])
    rw [FV.FlwA.writeBuffer_some_rot s a b now r s a hact hrot hm]
    obtain ⟨a', f', h1, h2, h3, h4, h5, h6, h7⟩ := wrote_ok b hok
    exact ⟨a', f', h1, h2, h3, fun h => absurd h hnec, fun _ => ⟨h4, h6, h5⟩⟩

/-- the state in which a write arriving at `now` finds the writer: as it is, or (first write of
    a run) lazily initialised by `initState` -/
def mounted (s : St) (now : Nat) : St :=
  match s.act with
  | some _ => s
  | none => (initState s now noFaults).1

theorem mounted_of_some {s : St} {a : Active} (now : Nat) (h : s.act = some a) :
    mounted s now = s := by
  unfold mounted
  rw [h]

theorem mounted_of_none {s : St} (now : Nat) (h : s.act = none) :
    mounted s now = (initState s now noFaults).1 := by
  unfold mounted
  rw [h]

/-- a write is the lazy initialisation followed by the write of a mounted writer -/
theorem writeBuffer_mounted {r : RotCfg} (s : St) (b : List Nat) (now : Nat)
    (hrot : s.cfg.rot = some r) (hcl : r.cleanup = none) :
    writeBuffer s b now noFaults = writeBuffer (mounted s now) b now noFaults := by
  cases hact : s.act with
  | some a => rw [mounted_of_some now hact]
  | none =>
    obtain ⟨s1, a1, f1, hin, -, ha1, -⟩ := initState_spec s r now hrot hcl
    rw [mounted_of_none now hact, hin]
    exact FV.FlwA.writeBuffer_init s s1 a1 b now hact hin ha1

/-! ### the invariant along a history -/

theorem Ok.congr {r : RotCfg} {s s' : St} {a : Active} {f : File} (h : Ok r s a f)
    (hd : s'.dir = s.dir) (hc : s'.cfg = s.cfg) : Ok r s' a f where
  file := by rw [hd]; exact h.file
  size := h.size
  created := h.created
  direct := by rw [hc]; exact h.direct
  cur := h.cur

/-- one operation of a multi-run history keeps the bookkeeping invariant -/
theorem step_good {r : RotCfg} (hcl : r.cleanup = none) (s : St) (op : Op) (now : Nat)
    (hg : Good r s) (hop : op.plain = true ∨ ∃ c, op = .restart c ∧ c.rot = some r)
    (h1 : FV.FlwB.HW r s) (h2 : s.act = none → FV.FlwB.HW r (initState s now noFaults).1) :
    Good r (step s op now noFaults).1 := by
  obtain ⟨hrot, hg⟩ := hg
  cases op with
  | write b =>
    simp only [step]
    cases hact : s.act with
    | some a =>
      obtain ⟨f, hok⟩ := hg a hact
      obtain ⟨a', f', e1, e2, e3, -, -⟩ :=
        write_mounted s a f b now hrot hcl hact hok (fun hn => h1 hn a hact)
      refine ⟨by rw [e2]; exact hrot, fun a'' ha'' => ?_⟩
      rw [e1] at ha''
      cases ha''
      exact ⟨f', e3⟩
    | none =>
      obtain ⟨s1, a1, f1, hin, hc1, ha1, -, hok1, -, -⟩ := initState_spec s r now hrot hcl
      rw [FV.FlwA.writeBuffer_init s s1 a1 b now hact hin ha1]
      have hw1 : FV.FlwB.HW r s1 := by
        have := h2 hact
        rw [hin] at this
        exact this
      obtain ⟨a', f', e1, e2, e3, -, -⟩ :=
        write_mounted s1 a1 f1 b now (by rw [hc1]; exact hrot) hcl ha1 hok1
          (fun hn => hw1 hn a1 ha1)
      refine ⟨by rw [e2, hc1]; exact hrot, fun a'' ha'' => ?_⟩
      rw [e1] at ha''
      cases ha''
      exact ⟨f', e3⟩
  | rotate =>
    cases hact : s.act with
    | none =>
      have hs : step s .rotate now noFaults = (s, .ok) := by simp [step, hact]
      rw [hs]
      exact ⟨hrot, hg⟩
    | some a =>
      obtain ⟨f, hok⟩ := hg a hact
      obtain ⟨s', a', hm, hR, hc⟩ :=
        mountNext_rot s a f true now hcl rfl hok (fun hn => h1 hn a hact)
      have hs : (step s .rotate now noFaults).1 = { s' with act := some a' } := by
        simp [step, hact, hrot, hm]
      rw [hs]
      refine ⟨by simp only [hR.cfg]; exact hrot, fun a'' ha'' => ?_⟩
      cases ha''
      exact ⟨_, (hR.ok hc).congr rfl rfl⟩
  | flush =>
    cases hact : s.act with
    | none =>
      have hs : step s .flush now noFaults = (s, .ok) := by simp [step, hact]
      rw [hs]
      exact ⟨hrot, hg⟩
    | some a =>
      obtain ⟨f, hok⟩ := hg a hact
      have hs : (step s .flush now noFaults).1 =
          { (flushAct s a).1 with act := some (flushAct s a).2 } := by
        simp [step, hact]
      rw [hs]
      refine ⟨hrot, fun a'' ha'' => ?_⟩
      cases ha''
      exact ⟨_, (flushAct_ok hok).congr rfl rfl⟩
  | shutdown =>
    cases hact : s.act with
    | none =>
      have hs : step s .shutdown now noFaults = (s, .ok) := by simp [step, hact]
      rw [hs]
      exact ⟨hrot, hg⟩
    | some a =>
      obtain ⟨f, hok⟩ := hg a hact
      have hs : (step s .shutdown now noFaults).1 =
          { (flushAct s a).1 with act := some (flushAct s a).2 } := by
        simp [step, hact]
      rw [hs]
      refine ⟨hrot, fun a'' ha'' => ?_⟩
      cases ha''
      exact ⟨_, (flushAct_ok hok).congr rfl rfl⟩
  | restart c =>
    rcases hop with h | ⟨c', h1', h2'⟩
    · cases h
    · cases h1'
      exact ⟨h2', fun a ha => by cases ha⟩
  | reset _ =>
    rcases hop with h | ⟨c', h1', -⟩
    · cases h
    · cases h1'
  | extRename =>
    rcases hop with h | ⟨c', h1', -⟩
    · cases h
    · cases h1'
  | extRemove =>
    rcases hop with h | ⟨c', h1', -⟩
    · cases h
    · cases h1'
  | reopen =>
    rcases hop with h | ⟨c', h1', -⟩
    · cases h
    · cases h1'

/-- plain operations and restarts that keep the rotation configuration (`append`, capacity,
    symlink free per run), no faults — nothing else: no monotone clock, restarts need not be
    preceded by a flush -/
def Runs (rot : Option RotCfg) (ops : List (Op × Nat × Faults)) : Prop :=
  ∀ o ∈ ops, (o.1.plain = true ∨ ∃ c, o.1 = .restart c ∧ c.rot = rot) ∧ o.2.2 = noFaults

/-- the histories of the bookkeeping theorems: `Runs`; only for `numbersDirect` (where the
    freshness of the next index is taken from FlwRestartB's invariant) a `FV.FlwB.MultiRun` -/
def Hist (r : RotCfg) (ops : List (Op × Nat × Faults)) : Prop :=
  Runs (some r) ops ∧ (r.naming = .numbersDirect → FV.FlwB.MultiRun (some r) ops)

theorem Hist.of_multiRunA {r : RotCfg} {ops : List (Op × Nat × Faults)}
    (hm : FV.FlwA.MultiRun (some r) ops) (hnm : r.naming = .numbers ∨ r.naming = .timestamps) :
    Hist r ops :=
  ⟨hm.1, fun h => by rcases hnm with h' | h' <;> rw [h] at h' <;> cases h'⟩

theorem Hist.of_multiRunB {r : RotCfg} {ops : List (Op × Nat × Faults)}
    (hm : FV.FlwB.MultiRun (some r) ops) : Hist r ops :=
  ⟨hm.1, fun _ => hm⟩

theorem Hist.of_runs {r : RotCfg} {ops : List (Op × Nat × Faults)}
    (hm : Runs (some r) ops) (hnm : r.naming ≠ .numbersDirect) : Hist r ops :=
  ⟨hm, fun h => absurd h hnm⟩

theorem Hist.prefix {r : RotCfg} {a b : List (Op × Nat × Faults)} (h : Hist r (a ++ b)) :
    Hist r a := by
  refine ⟨fun o ho => h.1 o (List.mem_append_left _ ho), fun hn => ?_⟩
  obtain ⟨h1, h2, h3⟩ := h.2 hn
  exact ⟨fun o ho => h1 o (List.mem_append_left _ ho), FV.FlwB.monotone_prefix h2,
    FV.FlwB.flushed_prefix _ _ h3⟩

theorem run_good {r : RotCfg} (hcl : r.cleanup = none) (ops : List (Op × Nat × Faults)) :
    ∀ s, Good r s → Runs (some r) ops →
      (∀ pre o post, ops = pre ++ o :: post → FV.FlwB.HW r (runOps s pre) ∧
        ((runOps s pre).act = none →
          FV.FlwB.HW r (initState (runOps s pre) o.2.1 noFaults).1)) →
      Good r (runOps s ops) := by
  induction ops with
  | nil => intro s hg _ _; exact hg
  | cons o os ih =>
    intro s hg hr hw
    obtain ⟨hp1, hp2⟩ := hr o List.mem_cons_self
    obtain ⟨hw1, hw2⟩ := hw [] o os rfl
    have e1 : ∀ l, runOps s (o :: l) = runOps (step s o.1 o.2.1 noFaults).1 l := by
      intro l
      rw [← hp2]
      rfl
    rw [e1]
    refine ih _ (step_good hcl s o.1 o.2.1 hg hp1 hw1 hw2)
      (fun o' ho' => hr o' (List.mem_cons_of_mem _ ho')) ?_
    intro pre o' post hos
    have := hw (o :: pre) o' post (by rw [hos]; rfl)
    rw [e1] at this
    exact this

theorem good_init (cfg : Cfg) (r : RotCfg) (hrot : cfg.rot = some r) : Good r (init cfg []) :=
  ⟨hrot, fun a h => by cases h⟩

/-- `numbersDirect`: the next index is free before every step (from FlwRestartB's invariant) -/
theorem hw_of_hist {r : RotCfg} (hcl : r.cleanup = none) (cfg : Cfg) (hrot : cfg.rot = some r)
    (ops : List (Op × Nat × Faults)) (hh : Hist r ops) :
    ∀ pre o post, ops = pre ++ o :: post → FV.FlwB.HW r (runOps (init cfg []) pre) ∧
      ((runOps (init cfg []) pre).act = none →
        FV.FlwB.HW r (initState (runOps (init cfg []) pre) o.2.1 noFaults).1) := by
  intro pre o post hops
  by_cases hnm : r.naming = .numbersDirect
  · obtain ⟨hp, hmono, hf⟩ := hh.2 hnm
    subst hops
    obtain ⟨lo, hI⟩ := FV.FlwB.run_inv2 (Or.inl hnm) hcl pre 0 (init cfg []) []
      (FV.FlwB.inv2_init cfg r hrot) (fun o' ho' => hp o' (List.mem_append_left _ ho'))
      (fun _ _ _ => Nat.zero_le _) (FV.FlwB.monotone_prefix hmono)
      (FV.FlwB.flushed_prefix _ _ hf) (fun _ _ _ _ act h => by cases h)
    exact ⟨hI.hw, fun hact => hI.hw_init (Or.inl hnm) hcl o.2.1 hact⟩
  · exact ⟨fun h => absurd h hnm, fun _ h => absurd h hnm⟩

/-- **The bookkeeping invariant holds after every multi-run history** (from an empty directory;
    all namings, any criterion, no cleanup) -/
theorem good_of_hist (cfg : Cfg) (r : RotCfg) (hrot : cfg.rot = some r) (hcl : r.cleanup = none)
    (ops : List (Op × Nat × Faults)) (hh : Hist r ops) : Good r (runOps (init cfg []) ops) :=
  run_good hcl ops _ (good_init cfg r hrot) hh.1 (hw_of_hist hcl cfg hrot ops hh)

/-- what a write at the end of a history finds: the mounted writer, its file, the agreement of
    the bookkeeping; and, at the first write of a run, where the counters come from -/
theorem mounted_spec (cfg : Cfg) (r : RotCfg) (hrot : cfg.rot = some r) (hcl : r.cleanup = none)
    (pre : List (Op × Nat × Faults)) (o : Op × Nat × Faults) (hh : Hist r (pre ++ [o])) :
    ∃ a f, (mounted (runOps (init cfg []) pre) o.2.1).act = some a ∧
      (mounted (runOps (init cfg []) pre) o.2.1).cfg = (runOps (init cfg []) pre).cfg ∧
      (runOps (init cfg []) pre).cfg.rot = some r ∧
      Ok r (mounted (runOps (init cfg []) pre) o.2.1) a f ∧
      (r.naming = .numbersDirect →
        (mounted (runOps (init cfg []) pre) o.2.1).dir.get ⟨some (.num (a.idx + 1)), false⟩ =
          none) ∧
      ((runOps (init cfg []) pre).act = none → a.pending = [] ∧
        ((runOps (init cfg []) pre).cfg.append = true →
          a.size = fileLen (runOps (init cfg []) pre).dir a.handle ∧
          (∀ f0, (runOps (init cfg []) pre).dir.get a.handle = some f0 → f = f0) ∧
          ((runOps (init cfg []) pre).dir.get a.handle = none → f = ⟨[], o.2.1⟩)) ∧
        ((runOps (init cfg []) pre).cfg.append = false → a.size = 0 ∧ f = ⟨[], o.2.1⟩)) := by
  obtain ⟨hrot', hg⟩ := good_of_hist cfg r hrot hcl pre hh.prefix
  obtain ⟨hw1, hw2⟩ := hw_of_hist hcl cfg hrot (pre ++ [o]) hh pre o [] rfl
  cases hact : (runOps (init cfg []) pre).act with
  | some a =>
    obtain ⟨f, hok⟩ := hg a hact
    rw [mounted_of_some _ hact]
    exact ⟨a, f, hact, rfl, hrot', hok, fun hn => hw1 hn a hact, fun h => by cases h⟩
  | none =>
    obtain ⟨s1, a1, f1, hin, hc1, ha1, hp1, hok1, happ, hnapp⟩ :=
      initState_spec (runOps (init cfg []) pre) r o.2.1 hrot' hcl
    have hw := hw2 hact
    rw [mounted_of_none _ hact]
    rw [hin] at hw ⊢
    exact ⟨a1, f1, ha1, hc1, hrot', hok1, fun hn => hw hn a1 ha1, fun _ => ⟨hp1, happ, hnapp⟩⟩

theorem runOps_snoc (s : St) (pre : List (Op × Nat × Faults)) (o : Op × Nat × Faults) :
    runOps s (pre ++ [o]) = (step (runOps s pre) o.1 o.2.1 o.2.2).1 := by
  simp [runOps, List.foldl_append]

/-- **A write at the end of a multi-run history**, all in one: the mounted writer `a` and its
    file `f` (bookkeeping in agreement), where the counters come from at the first write of a
    run, the step as the write of the mounted writer, and decision and effect of the step -/
theorem write_step (cfg : Cfg) (r : RotCfg) (hrot : cfg.rot = some r) (hcl : r.cleanup = none)
    (pre : List (Op × Nat × Faults)) (b : List Nat) (now : Nat)
    (hh : Hist r (pre ++ [(.write b, now, noFaults)])) :
    ∃ a f, (mounted (runOps (init cfg []) pre) now).act = some a ∧
      Ok r (mounted (runOps (init cfg []) pre) now) a f ∧
      runOps (init cfg []) (pre ++ [(.write b, now, noFaults)]) =
        (writeBuffer (mounted (runOps (init cfg []) pre) now) b now noFaults).1 ∧
      ((runOps (init cfg []) pre).act = none → a.pending = [] ∧
        ((runOps (init cfg []) pre).cfg.append = true →
          a.size = fileLen (runOps (init cfg []) pre).dir a.handle ∧
          (∀ f0, (runOps (init cfg []) pre).dir.get a.handle = some f0 → f = f0) ∧
          ((runOps (init cfg []) pre).dir.get a.handle = none → f = ⟨[], now⟩)) ∧
        ((runOps (init cfg []) pre).cfg.append = false → a.size = 0 ∧ f = ⟨[], now⟩)) ∧
      ∃ a' f', (runOps (init cfg []) (pre ++ [(.write b, now, noFaults)])).act = some a' ∧
        Ok r (runOps (init cfg []) (pre ++ [(.write b, now, noFaults)])) a' f' ∧
        (rotationNecessary r a now = true →
          f'.data ++ a'.pending = b ∧ f'.created = now ∧
          ∃ n', n' ≠ a'.handle ∧
            (runOps (init cfg []) (pre ++ [(.write b, now, noFaults)])).dir.get n' =
              some ⟨f.data ++ a.pending, f.created⟩) ∧
        (rotationNecessary r a now = false →
          a'.handle = a.handle ∧ f'.data ++ a'.pending = f.data ++ a.pending ++ b ∧
          f'.created = f.created) := by
  obtain ⟨a, f, h1, h2, h3, hok, hw, h6⟩ := mounted_spec cfg r hrot hcl pre _ hh
  have hrun : runOps (init cfg []) (pre ++ [(.write b, now, noFaults)]) =
      (writeBuffer (mounted (runOps (init cfg []) pre) now) b now noFaults).1 := by
    rw [runOps_snoc]
    show (writeBuffer (runOps (init cfg []) pre) b now noFaults).1 = _
    rw [writeBuffer_mounted _ b now h3 hcl]
  obtain ⟨a', f', e1, -, e3, e4, e5⟩ :=
    write_mounted (mounted (runOps (init cfg []) pre) now) a f b now (by rw [h2]; exact h3) hcl h1
      hok hw
  refine ⟨a, f, h1, hok, hrun, h6, a', f', ?_⟩
  rw [hrun]
  exact ⟨e1, e3, e4, e5⟩

/-! ### the abstract multi-run machine of FlwRestartA -/

open FV.FlwA in
theorem reinit_size (r : RotCfg) (app : Bool) (a : Abs) (now : Nat)
    (h : a.size = a.cur.length) :
    (reinit (some r) app a now).size = (reinit (some r) app a now).cur.length := by
  unfold reinit
  by_cases hs : a.started = true
  · cases app <;> simp [hs, Abs.rotate]
  · simp [hs, h]

open FV.FlwA in
theorem MAbs_step_size (r : RotCfg) (m : MAbs) (op : Op) (now : Nat)
    (h : m.abs.size = m.abs.cur.length) :
    (m.step (some r) op now).abs.size = (m.step (some r) op now).abs.cur.length := by
  cases op with
  | write b =>
    simp only [MAbs.step]
    apply Abs.step_size
    by_cases hl : m.live = true
    · simp [hl, h]
    · simp only [hl, Bool.false_eq_true, if_false]
      exact reinit_size r m.append m.abs now h
  | rotate =>
    simp only [MAbs.step]
    by_cases hl : m.live = true
    · simp only [hl, if_true]
      exact Abs.step_size _ _ _ _ h
    · simp only [hl, Bool.false_eq_true, if_false]
      exact h
  | _ => exact h

open FV.FlwA in
/-- **Accounting of the abstract multi-run machine**: across any sequence of runs (with a
    rotation configuration) the accounted size is the length of the abstract current file -/
theorem MAbs_run_size (r : RotCfg) (ops : List (Op × Nat × Faults)) :
    ∀ m : MAbs, m.abs.size = m.abs.cur.length →
      (MAbs.run (some r) m ops).abs.size = (MAbs.run (some r) m ops).abs.cur.length := by
  induction ops with
  | nil => intro m h; exact h
  | cons o os ih => intro m h; exact ih _ (MAbs_step_size r m o.1 o.2.1 h)

open FV.FlwA in
/-- what a reader sees is the abstract list of files -/
theorem MInv_files {rot : Option RotCfg} {t : Nat} {s : St} {m : MAbs} (h : MInv rot t s m) :
    viewFiles s = m.abs.files := by
  obtain ⟨-, -, h⟩ := h
  rcases h with ⟨-, act, hact, hI, -, -⟩ | ⟨-, hnone, hg⟩
  · exact view_of_inv hact hI
  · have hv : viewFiles s = parts s.dir := by simp [viewFiles, hnone]
    rw [hv]
    rcases hg with ⟨hd, ha⟩ | ⟨g, hgp, hI, -, -⟩
    · rw [hd, ha]
      rfl
    · obtain ⟨f, -, hdata, hp⟩ := parts_of_inv hI
      rw [hp]
      rw [hgp] at hdata
      simp [Abs.files, hI.started, ← hdata]

/-- a prefix of a multi-run history (FlwRestartA) is a multi-run history -/
theorem flushedA_prefix : ∀ (a b : List (Op × Nat × Faults)),
    FV.FlwA.FlushedBeforeRestart (a ++ b) → FV.FlwA.FlushedBeforeRestart a
  | [], _, _ => trivial
  | [_], _, _ => trivial
  | x :: y :: rest, b, h => by
    simp only [List.cons_append, FV.FlwA.FlushedBeforeRestart] at h ⊢
    exact ⟨h.1, flushedA_prefix (y :: rest) b h.2⟩

theorem multiRunA_prefix {rot : Option RotCfg} {a b : List (Op × Nat × Faults)}
    (h : FV.FlwA.MultiRun rot (a ++ b)) : FV.FlwA.MultiRun rot a :=
  ⟨fun o ho => h.1 o (List.mem_append_left _ ho), FV.FlwB.monotone_prefix h.2.1,
    flushedA_prefix a b h.2.2⟩

open FV.FlwA in
theorem MAbs_run_snoc (rot : Option RotCfg) (m : MAbs) (pre : List (Op × Nat × Faults))
    (o : Op × Nat × Faults) :
    MAbs.run rot m (pre ++ [o]) = (MAbs.run rot m pre).step rot o.1 o.2.1 := by
  simp [MAbs.run, List.foldl_append]

/-- the files after a write of the abstract machine under a pure size criterion -/
theorem abs_write_files (r : RotCfg) (N : Nat) (hN : r.maxSize = some N ∧ r.age = none) (a : Abs)
    (hst : a.started = true) (hsz : a.size = a.cur.length) (b : List Nat) (now : Nat) :
    (a.step (some r) (.write b) now).files =
      if a.cur.length > N then a.closed ++ [a.cur, b] else a.closed ++ [a.cur ++ b] := by
  rw [Abs.step_write_some, absNecessary_size r N hN, Abs.start_of_started a now hst, hsz]
  by_cases h : a.cur.length > N <;> simp [h, Abs.files]

end FV.Acct
