/-
  Helpers for C07 (cleanup): directories with compressed files described up to permutation by a
  list sorted by descending key (newest first), the specification of `listing`, of
  `cleanupLoop`/`cleanup` without faults as a pure list transformation, and its properties.
-/
import FlexiVerif.Lemmas.FlwRefine
namespace FV.FlwC
open FV.Flw
open FV.FlwA (ents isRot curN)
open FV.FlwB (nkey keyLt_irrefl keyLt_trans keyLt_asymm)

abbrev E := FName × File

/-! ### generic insertion sort -/

/-- `insAsc`/`insDesc` for an arbitrary comparison of keys -/
def insBy (lt : Nat × Nat → Nat × Nat → Bool) (x : E) : List E → List E
  | [] => [x]
  | y :: ys =>
    match x.1.ifx, y.1.ifx with
    | some a, some b => if lt a.key b.key then x :: y :: ys else y :: insBy lt x ys
    | _, _ => y :: insBy lt x ys

theorem insAsc_eq (x : E) (l : List E) : insAsc x l = insBy keyLt x l := by
  induction l with
  | nil => rfl
  | cons y ys ih =>
    cases hx : x.1.ifx <;> cases hy : y.1.ifx <;> simp [insAsc, insBy, hx, hy, ih]

theorem insDesc_eq (x : E) (l : List E) : insDesc x l = insBy (fun a b => keyLt b a) x l := by
  induction l with
  | nil => rfl
  | cons y ys ih =>
    cases hx : x.1.ifx <;> cases hy : y.1.ifx <;> simp [insDesc, insBy, hx, hy, ih]

theorem foldr_insAsc_eq (l : List E) : l.foldr insAsc [] = l.foldr (insBy keyLt) [] := by
  induction l with
  | nil => rfl
  | cons x xs ih => rw [List.foldr_cons, List.foldr_cons, ih, insAsc_eq]

theorem sortDesc_eq (l : List E) : sortDesc l = l.foldr (insBy (fun a b => keyLt b a)) [] := by
  unfold sortDesc
  induction l with
  | nil => rfl
  | cons x xs ih => rw [List.foldr_cons, List.foldr_cons, ih, insDesc_eq]

/-- a name with a rotated-style infix (plain or compressed) -/
def RotN (n : FName) : Prop := ∃ i, n.ifx = some i ∧ i.rotated = true

theorem insBy_middle (lt : Nat × Nat → Nat × Nat → Bool)
    (hasymm : ∀ a b, lt a b = true → lt b a = false) (x : E) (hx : RotN x.1) :
    ∀ (L1 L2 : List E),
      (∀ y ∈ L1, RotN y.1 ∧ lt (nkey y.1) (nkey x.1) = true) →
      (∀ y ∈ L2, RotN y.1 ∧ lt (nkey x.1) (nkey y.1) = true) →
      insBy lt x (L1 ++ L2) = L1 ++ x :: L2 := by
  obtain ⟨i, hi, _⟩ := hx
  intro L1
  induction L1 with
  | nil =>
    intro L2 _ h2
    cases L2 with
    | nil => simp [insBy]
    | cons y ys =>
      obtain ⟨⟨j, hj, _⟩, hlt⟩ := h2 y (by simp)
      simp only [nkey, hi, hj] at hlt
      simp [insBy, hi, hj, hlt]
  | cons y L1 ih =>
    intro L2 h1 h2
    obtain ⟨⟨j, hj, _⟩, hlt⟩ := h1 y (by simp)
    simp only [nkey, hi, hj] at hlt
    have hnlt := hasymm _ _ hlt
    have := ih L2 (fun z hz => h1 z (by simp [hz])) h2
    simp [insBy, hi, hj, hnlt, this]

/-- sorted w.r.t. `lt`, all names rotated-style -/
def SortedBy (lt : Nat × Nat → Nat × Nat → Bool) (L : List E) : Prop :=
  L.Pairwise (fun x y => lt (nkey x.1) (nkey y.1) = true) ∧ ∀ e ∈ L, RotN e.1

theorem foldr_insBy_eq_of_perm (lt : Nat × Nat → Nat × Nat → Bool)
    (hasymm : ∀ a b, lt a b = true → lt b a = false) :
    ∀ (d L : List E), List.Perm d L → SortedBy lt L → d.foldr (insBy lt) [] = L := by
  intro d
  induction d with
  | nil => intro L hp _; simpa using hp.symm.eq_nil
  | cons x d ih =>
    intro L hp hok
    have hx : x ∈ L := hp.subset (by simp)
    obtain ⟨L1, L2, rfl⟩ := List.append_of_mem hx
    have hp' : List.Perm d (L1 ++ L2) := (hp.trans List.perm_middle).cons_inv
    have hok1 := hok.1
    have hok2 := hok.2
    simp only [List.pairwise_append, List.pairwise_cons, List.mem_cons, List.mem_append] at hok1 hok2
    have hok' : SortedBy lt (L1 ++ L2) := by
      constructor
      · simp only [List.pairwise_append]
        refine ⟨hok1.1, hok1.2.1.2, ?_⟩
        intro a ha b hb
        exact hok1.2.2 a ha b (Or.inr hb)
      · intro n hn
        simp only [List.mem_append] at hn
        rcases hn with hn | hn
        · exact hok2 n (Or.inl hn)
        · exact hok2 n (Or.inr (Or.inr hn))
    rw [List.foldr_cons, ih _ hp' hok']
    apply insBy_middle lt hasymm
    · exact hok2 _ (Or.inr (Or.inl rfl))
    · intro y hy
      exact ⟨hok2 _ (Or.inl hy), hok1.2.2 _ hy _ (Or.inl rfl)⟩
    · intro y hy
      exact ⟨hok2 _ (Or.inr (Or.inr hy)), hok1.2.1.1 _ hy⟩

/-- newest first -/
abbrev SortedD (L : List E) : Prop := SortedBy (fun a b => keyLt b a) L
/-- oldest first -/
abbrev SortedA (L : List E) : Prop := SortedBy keyLt L

theorem sortDesc_eq_of_perm (d L : List E) (hp : List.Perm d L) (hs : SortedD L) :
    sortDesc d = L := by
  rw [sortDesc_eq]
  exact foldr_insBy_eq_of_perm _ (fun a b h => keyLt_asymm h) d L hp hs

theorem foldr_insAsc_eq_of_perm (d L : List E) (hp : List.Perm d L) (hs : SortedA L) :
    d.foldr insAsc [] = L := by
  rw [foldr_insAsc_eq]
  exact foldr_insBy_eq_of_perm _ (fun a b h => keyLt_asymm h) d L hp hs

theorem SortedD.reverse {L : List E} (h : SortedD L) : SortedA L.reverse := by
  refine ⟨?_, fun e he => h.2 e (List.mem_reverse.1 he)⟩
  rw [List.pairwise_reverse]
  exact h.1

theorem SortedD.sublist {L L' : List E} (h : SortedD L) (hs : List.Sublist L' L) : SortedD L' :=
  ⟨h.1.sublist hs, fun e he => h.2 e (hs.subset he)⟩

/-! ### directories up to permutation -/

theorem erase_def (d : List E) (n : FName) :
    Dir.erase d n = List.filter (fun e : E => decide (e.1 ≠ n)) d := rfl

theorem set_def (d : List E) (n : FName) (v : File) :
    Dir.set d n v = (n, v) :: List.filter (fun e : E => decide (e.1 ≠ n)) d := rfl

theorem filter_ne_self (M : List E) (n : FName) (h : ∀ e ∈ M, e.1 ≠ n) :
    List.filter (fun e : E => decide (e.1 ≠ n)) M = M := by
  rw [List.filter_eq_self]
  intro e he
  simpa using h e he

theorem perm_erase_new {d M : List E} {n : FName} (hp : List.Perm d M) (h : ∀ e ∈ M, e.1 ≠ n) :
    List.Perm (Dir.erase d n) M := by
  rw [erase_def]
  have := hp.filter (fun e : E => decide (e.1 ≠ n))
  rwa [filter_ne_self M n h] at this

theorem perm_set_new {d M : List E} {n : FName} (v : File) (hp : List.Perm d M)
    (h : ∀ e ∈ M, e.1 ≠ n) : List.Perm (Dir.set d n v) ((n, v) :: M) :=
  List.Perm.cons _ (perm_erase_new hp h)

theorem perm_erase_old {d M1 M2 : List E} {n : FName} {f : File}
    (hp : List.Perm d (M1 ++ (n, f) :: M2))
    (hnd : ((M1 ++ (n, f) :: M2).map (·.1)).Nodup) :
    List.Perm (Dir.erase d n) (M1 ++ M2) := by
  rw [erase_def]
  have := hp.filter (fun e : E => decide (e.1 ≠ n))
  simp only [List.map_append, List.map_cons, List.nodup_append, List.nodup_cons, List.mem_map,
    List.mem_cons] at hnd
  have e1 : List.filter (fun e : E => decide (e.1 ≠ n)) M1 = M1 := by
    apply filter_ne_self
    intro e he
    exact hnd.2.2 e.1 ⟨e, he, rfl⟩ n (Or.inl rfl)
  have e2 : List.filter (fun e : E => decide (e.1 ≠ n)) M2 = M2 := by
    apply filter_ne_self
    intro e he hh
    exact hnd.2.1.1 ⟨e, he, hh⟩
  rwa [List.filter_append, List.filter_cons_of_neg (by simp), e1, e2] at this

theorem perm_set_old {d M1 M2 : List E} {n : FName} {f : File} (v : File)
    (hp : List.Perm d (M1 ++ (n, f) :: M2))
    (hnd : ((M1 ++ (n, f) :: M2).map (·.1)).Nodup) :
    List.Perm (Dir.set d n v) (M1 ++ (n, v) :: M2) :=
  (List.Perm.cons _ (perm_erase_old hp hnd)).trans List.perm_middle.symm

theorem get_of_perm {d M : List E} {n : FName} {f : File} (hp : List.Perm d M)
    (hnd : (M.map (·.1)).Nodup) (h : (n, f) ∈ M) : Dir.get d n = some f :=
  FV.FlwB.get_eq_some_of_mem d n f ((hp.map _).nodup_iff.2 hnd) (hp.symm.subset h)

theorem get_none_of_perm {d M : List E} {n : FName} (hp : List.Perm d M)
    (h : ∀ e ∈ M, e.1 ≠ n) : Dir.get d n = none :=
  FV.FlwB.get_eq_none_of_not_mem d n (fun e he => h e (hp.subset he))

theorem perm_append_old {d M1 M2 : List E} {n : FName} {f : File} (b : List Nat)
    (hp : List.Perm d (M1 ++ (n, f) :: M2))
    (hnd : ((M1 ++ (n, f) :: M2).map (·.1)).Nodup) :
    List.Perm (Dir.append d n b) (M1 ++ (n, { f with data := f.data ++ b }) :: M2) := by
  unfold Dir.append
  rw [get_of_perm (f := f) hp hnd (by simp)]
  exact perm_set_old _ hp hnd

/-- injectivity on the members of a list whose image has no duplicates -/
theorem inj_of_nodup_map {α β : Type} (g : α → β) :
    ∀ (l : List α), (l.map g).Nodup → ∀ x ∈ l, ∀ y ∈ l, g x = g y → x = y := by
  intro l
  induction l with
  | nil => intro _ x hx; cases hx
  | cons a as ih =>
    intro hnd x hx y hy hxy
    simp only [List.map_cons, List.nodup_cons, List.mem_map, not_exists, not_and] at hnd
    rcases List.mem_cons.1 hx with h1 | h1 <;> rcases List.mem_cons.1 hy with h2 | h2
    · rw [h1, h2]
    · subst h1; exact absurd hxy.symm (hnd.1 y h2)
    · subst h2; exact absurd hxy (hnd.1 x h1)
    · exact ih hnd.2 x h1 y h2 hxy

/-- the infixes of the entries -/
abbrev ifxs (M : List E) : List (Option Infix) := M.map (·.1.ifx)

theorem names_nodup_of_ifxs {M : List E} (h : (ifxs M).Nodup) : (M.map (·.1)).Nodup := by
  unfold ifxs at h
  rw [List.nodup_iff_pairwise_ne, List.pairwise_map] at *
  exact h.imp (fun hne heq => hne (by rw [heq]))

theorem key_inj_rot {i j : Infix} (hi : i.rotated = true) (hj : j.rotated = true)
    (hk : i.key = j.key) (hsame : (∃ a b, i = .num a ∧ j = .num b) ∨
      (∃ a b c d, i = .ts a b ∧ j = .ts c d)) : i = j := by
  rcases hsame with ⟨a, b, rfl, rfl⟩ | ⟨a, b, c, d, rfl, rfl⟩
  · simp [Infix.key] at hk; rw [hk]
  · cases b <;> cases d <;> simp [Infix.key] at hk ⊢ <;> omega

theorem SortedD.ifxs_nodup {L : List E} (h : SortedD L) : (ifxs L).Nodup := by
  unfold ifxs
  rw [List.nodup_iff_pairwise_ne, List.pairwise_map]
  refine List.Pairwise.imp ?_ h.1
  intro a b hab heq
  simp only [nkey, heq] at hab
  simp [keyLt_irrefl] at hab

/-! ### reading a described directory -/

theorem isRot_of_rotN {e : E} (h : RotN e.1) : isRot e = true := by
  obtain ⟨i, hi, hr⟩ := h
  simp [isRot, hi, hr]

theorem filter_isRot {X N : List E} (hX : ∀ e ∈ X, isRot e = false) (hN : ∀ e ∈ N, RotN e.1) :
    List.filter isRot (X ++ N) = N := by
  rw [List.filter_append, List.filter_eq_nil_iff.2 (fun e he => by simp [hX e he]),
    List.filter_eq_self.2 (fun e he => isRot_of_rotN (hN e he))]
  rfl

theorem rotatedAsc_of_perm {d X N : List E} (hp : List.Perm d (X ++ N))
    (hX : ∀ e ∈ X, isRot e = false) (hN : SortedD N) : rotatedAsc d = N.reverse := by
  show (List.filter isRot d).foldr insAsc [] = N.reverse
  apply foldr_insAsc_eq_of_perm _ _ _ hN.reverse
  have := hp.filter isRot
  rw [filter_isRot hX hN.2] at this
  exact this.trans (List.reverse_perm N).symm

theorem parts_of_perm {d X N : List E} (hp : List.Perm d (X ++ N))
    (hX : ∀ e ∈ X, isRot e = false) (hext : ∀ e ∈ X, ∀ n, e.1.ifx ≠ some (.ext n))
    (hN : SortedD N) :
    parts d = N.reverse.map (·.2.data) ++
      (Dir.get d ⟨some .cur, false⟩).toList.map (·.data) ++
      (Dir.get d ⟨none, false⟩).toList.map (·.data) := by
  have hx : extAsc d = [] := by
    apply FV.FlwA.extAsc_eq_nil
    intro e he n hn
    rcases List.mem_append.1 (hp.subset he) with h | h
    · exact hext e h n hn
    · obtain ⟨i, hi, hr⟩ := hN.2 e h
      rw [hi] at hn
      cases hn
      simp [Infix.rotated] at hr
  have hr := rotatedAsc_of_perm hp hX hN
  unfold parts
  simp only [hx, hr, List.map_nil, List.nil_append]
  cases Dir.get d ⟨some .cur, false⟩ <;> cases Dir.get d ⟨none, false⟩ <;> simp

theorem listing_eq (d : List E) :
    listing d = sortDesc (List.filter (fun e : E => decide (e.1.gz = false) && isRot e) d) ++
      sortDesc (List.filter (fun e : E => decide (e.1.gz = true) && isRot e) d) := rfl

/-- the listing of a directory whose rotated-style files are `A ++ B` (newest first), the
    plain ones `A` being newer than the compressed ones `B` -/
theorem listing_of_perm {d X A B : List E} (hp : List.Perm d (X ++ (A ++ B)))
    (hX : ∀ e ∈ X, isRot e = false) (hN : SortedD (A ++ B))
    (hA : ∀ e ∈ A, e.1.gz = false) (hB : ∀ e ∈ B, e.1.gz = true) :
    listing d = A ++ B := by
  have hrA : ∀ e ∈ A, isRot e = true := fun e he => isRot_of_rotN (hN.2 e (by simp [he]))
  have hrB : ∀ e ∈ B, isRot e = true := fun e he => isRot_of_rotN (hN.2 e (by simp [he]))
  rw [listing_eq]
  congr 1
  · apply sortDesc_eq_of_perm _ _ _ (hN.sublist (List.sublist_append_left A B))
    have := hp.filter (fun e : E => decide (e.1.gz = false) && isRot e)
    have e1 : List.filter (fun e : E => decide (e.1.gz = false) && isRot e) X = [] :=
      List.filter_eq_nil_iff.2 (fun e he => by simp [hX e he])
    have e2 : List.filter (fun e : E => decide (e.1.gz = false) && isRot e) A = A :=
      List.filter_eq_self.2 (fun e he => by simp [hA e he, hrA e he])
    have e3 : List.filter (fun e : E => decide (e.1.gz = false) && isRot e) B = [] :=
      List.filter_eq_nil_iff.2 (fun e he => by simp [hB e he])
    rw [List.filter_append, List.filter_append, e1, e2, e3] at this
    simpa using this
  · apply sortDesc_eq_of_perm _ _ _ (hN.sublist (List.sublist_append_right A B))
    have := hp.filter (fun e : E => decide (e.1.gz = true) && isRot e)
    have e1 : List.filter (fun e : E => decide (e.1.gz = true) && isRot e) X = [] :=
      List.filter_eq_nil_iff.2 (fun e he => by simp [hX e he])
    have e2 : List.filter (fun e : E => decide (e.1.gz = true) && isRot e) A = [] :=
      List.filter_eq_nil_iff.2 (fun e he => by simp [hA e he])
    have e3 : List.filter (fun e : E => decide (e.1.gz = true) && isRot e) B = B :=
      List.filter_eq_self.2 (fun e he => by simp [hB e he, hrB e he])
    rw [List.filter_append, List.filter_append, e1, e2, e3] at this
    simpa using this

/-! ### `cleanupLoop` as a list transformation -/

/-- compression of one listing entry (tagged identity on the data) -/
def gzf (hs : Bool) (now : Nat) (e : E) : E :=
  if e.1.gz || !hs then e else ({ e.1 with gz := true }, ⟨e.2.data, now⟩)

theorem gzf_ifx (hs : Bool) (now : Nat) (e : E) : (gzf hs now e).1.ifx = e.1.ifx := by
  unfold gzf; split <;> rfl

theorem gzf_data (hs : Bool) (now : Nat) (e : E) : (gzf hs now e).2.data = e.2.data := by
  unfold gzf; split <;> rfl

theorem gzf_nkey (hs : Bool) (now : Nat) (e : E) : nkey (gzf hs now e).1 = nkey e.1 := by
  unfold nkey; rw [gzf_ifx]

theorem gzf_rotN (hs : Bool) (now : Nat) (e : E) (h : RotN e.1) : RotN (gzf hs now e).1 := by
  unfold RotN; rw [gzf_ifx]; exact h

theorem gzf_gz_true (now : Nat) (e : E) : (gzf true now e).1.gz = true := by
  unfold gzf
  by_cases h : e.1.gz = true <;> simp [h]

theorem gzf_false (now : Nat) (e : E) : gzf false now e = e := by
  simp [gzf]

/-- what is left of the listing, entry by entry (mirrors `cleanupLoop`) -/
def cl (hs : Bool) (now k m : Nat) : List E → Nat → List E
  | [], _ => []
  | e :: rest, i =>
    if i ≥ k + m then cl hs now k m rest (i + 1)
    else if i ≥ k then gzf hs now e :: cl hs now k m rest (i + 1)
    else e :: cl hs now k m rest (i + 1)

theorem hit_none (n : Nat) : hit none n = false := by simp [hit]

/-- without faults `cleanupLoop` never aborts, and the resulting directory consists of the
    untouched entries `X` and the transformed listing -/
theorem cleanupLoop_spec (hs : Bool) (now k m : Nat) :
    ∀ (l : List E) (i : Nat) (d : Dir) (X : List E) (rc gc : Nat),
      List.Perm d (X ++ l) → (ifxs (X ++ l)).Nodup →
      ∃ d' : Dir, cleanupLoop now hs k m noFaults l i d rc gc = (d', false) ∧
        List.Perm d' (X ++ cl hs now k m l i) := by
  intro l
  induction l with
  | nil =>
    intro i d X rc gc hp _
    exact ⟨d, rfl, by simpa [cl] using hp⟩
  | cons e rest ih =>
    intro i d X rc gc hp hnd
    obtain ⟨n, f⟩ := e
    have hnames := names_nodup_of_ifxs hnd
    -- keeping the entry
    have keep : ∀ rc gc, ∃ d' : Dir,
        cleanupLoop now hs k m noFaults rest (i + 1) d rc gc = (d', false) ∧
        List.Perm d' (X ++ (n, f) :: cl hs now k m rest (i + 1)) := by
      intro rc gc
      obtain ⟨d', h1, h2⟩ := ih (i + 1) d (X ++ [(n, f)]) rc gc
        (by simpa using hp) (by simpa using hnd)
      exact ⟨d', h1, by simpa using h2⟩
    by_cases h1 : i ≥ k + m
    · -- delete
      have hp1 : List.Perm (Dir.erase d n) (X ++ rest) := perm_erase_old hp hnames
      have hnd1 : (ifxs (X ++ rest)).Nodup := by
        refine hnd.sublist ?_
        exact (List.Sublist.append_left (List.sublist_cons_self _ _) _).map _
      obtain ⟨d', h2, h3⟩ := ih (i + 1) (Dir.erase d n) X (rc + 1) gc hp1 hnd1
      refine ⟨d', ?_, ?_⟩
      · rw [cleanupLoop.eq_def]
        simp only [h1, if_true]
        rw [show hit noFaults.removeF rc = false from hit_none rc]
        exact h2
      · simpa [cl, h1] using h3
    · by_cases h2 : i ≥ k
      · by_cases h3 : (n.gz || !hs) = true
        · obtain ⟨d', h4, h5⟩ := keep rc gc
          refine ⟨d', ?_, ?_⟩
          · rw [cleanupLoop.eq_def]
            simp only [h1, h2, h3, if_true, if_false]
            exact h4
          · have : gzf hs now (n, f) = (n, f) := by simp only [gzf, h3, if_true]
            simpa [cl, h1, h2, this] using h5
        · -- compress
          have hgz : n.gz = false := by
            cases hh : n.gz <;> simp [hh] at h3 ⊢
          have hne : ∀ e ∈ X ++ (n, f) :: rest, e.1 ≠ ({ n with gz := true } : FName) := by
            intro e he heq
            have := inj_of_nodup_map (fun e : E => e.1.ifx) _ hnd e he (n, f) (by simp)
              (by simp [heq])
            rw [this] at heq
            simp only at heq
            rw [heq] at hgz
            simp at hgz
          have hp1 := perm_set_new ⟨f.data, now⟩ hp hne
          have hp2 : List.Perm (Dir.erase (Dir.set d { n with gz := true } ⟨f.data, now⟩) n)
              ((({ n with gz := true } : FName), (⟨f.data, now⟩ : File)) :: X ++ rest) := by
            apply perm_erase_old (f := f) (M1 := (_, _) :: X) hp1
            simp only [List.cons_append, List.map_cons, List.nodup_cons]
            refine ⟨?_, hnames⟩
            intro hmem
            obtain ⟨e, he, heq⟩ := List.mem_map.1 hmem
            exact hne e he heq
          have hp3 : List.Perm (Dir.erase (Dir.set d { n with gz := true } ⟨f.data, now⟩) n)
              ((X ++ [(({ n with gz := true } : FName), (⟨f.data, now⟩ : File))]) ++ rest) := by
            refine hp2.trans ?_
            simp only [List.cons_append, List.append_assoc, List.nil_append]
            exact List.perm_middle.symm
          obtain ⟨d', h4, h5⟩ := ih (i + 1) _ _ (rc + 1) (gc + 1) hp3
            (by simpa [ifxs] using hnd)
          refine ⟨d', ?_, ?_⟩
          · rw [cleanupLoop.eq_def]
            simp only [h1, h2, h3, if_true, if_false]
            rw [show hit noFaults.gzF gc = false from hit_none gc,
              show hit noFaults.removeF rc = false from hit_none rc]
            exact h4
          · have : gzf hs now (n, f) = ({ n with gz := true }, ⟨f.data, now⟩) := by
              simp only [gzf, h3]; rfl
            simpa [cl, h1, h2, this] using h5
      · obtain ⟨d', h4, h5⟩ := keep rc gc
        refine ⟨d', ?_, ?_⟩
        · rw [cleanupLoop.eq_def]
          simp only [h1, h2, if_false]
          exact h4
        · simpa [cl, h1, h2] using h5

/-- closed form: keep the first `k` entries, compress the next `m`, drop the rest -/
def T (hs : Bool) (now k m : Nat) (N : List E) : List E :=
  N.take k ++ ((N.drop k).take m).map (gzf hs now)

theorem cl_eq (hs : Bool) (now k m : Nat) : ∀ (l : List E) (i : Nat),
    cl hs now k m l i =
      l.take (k - i) ++ ((l.drop (k - i)).take (k + m - i - (k - i))).map (gzf hs now) := by
  intro l
  induction l with
  | nil => intro i; simp [cl]
  | cons e rest ih =>
    intro i
    by_cases h1 : i ≥ k + m
    · have a : k - i = 0 := by omega
      have b : k + m - i - (k - i) = 0 := by omega
      have a' : k - (i + 1) = 0 := by omega
      have b' : k + m - (i + 1) - (k - (i + 1)) = 0 := by omega
      rw [cl, if_pos h1, ih, b, a, b', a']
      simp
    · by_cases h2 : i ≥ k
      · have a : k - i = 0 := by omega
        have b : k + m - i - (k - i) = (k + m - (i + 1) - (k - (i + 1))) + 1 := by omega
        have a' : k - (i + 1) = 0 := by omega
        rw [cl, if_neg h1, if_pos h2, ih, b, a, a']
        simp [List.take_succ_cons]
      · have a : k - i = (k - (i + 1)) + 1 := by omega
        have b : k + m - i - (k - i) = k + m - (i + 1) - (k - (i + 1)) := by omega
        rw [cl, if_neg h1, if_neg h2, ih, b, a]
        simp [List.take_succ_cons]

theorem cl_zero (hs : Bool) (now k m : Nat) (l : List E) : cl hs now k m l 0 = T hs now k m l := by
  rw [cl_eq]
  have : k + m - 0 - (k - 0) = m := by omega
  rw [this]
  rfl

theorem T_length (hs : Bool) (now k m : Nat) (N : List E) : (T hs now k m N).length ≤ k + m := by
  simp only [T, List.length_append, List.length_map, List.length_take, List.length_drop]
  omega

theorem T_data (hs : Bool) (now k m : Nat) (N : List E) :
    (T hs now k m N).map (·.2.data) = (N.map (·.2.data)).take (k + m) := by
  have : (fun e : E => e.2.data) ∘ gzf hs now = fun e : E => e.2.data := by
    funext e
    exact gzf_data hs now e
  simp only [T, List.map_append, List.map_map, this, List.map_take, List.map_drop]
  rw [List.take_add]

theorem T_sorted (hs : Bool) (now k m : Nat) {N : List E} (h : SortedD N) :
    SortedD (T hs now k m N) := by
  have hN : N = N.take k ++ N.drop k := (List.take_append_drop k N).symm
  have h1 := h.1
  rw [hN, List.pairwise_append] at h1
  constructor
  · unfold T
    rw [List.pairwise_append]
    refine ⟨h1.1, ?_, ?_⟩
    · rw [List.pairwise_map]
      refine (h1.2.1.sublist (List.take_sublist _ _)).imp ?_
      intro a b hab
      rw [gzf_nkey, gzf_nkey]
      exact hab
    · intro a ha b hb
      obtain ⟨b0, hb0, rfl⟩ := List.mem_map.1 hb
      rw [gzf_nkey]
      exact h1.2.2 a ha b0 (List.mem_of_mem_take hb0)
  · intro e he
    unfold T at he
    rcases List.mem_append.1 he with he | he
    · exact h.2 e (List.mem_of_mem_take he)
    · obtain ⟨b0, hb0, rfl⟩ := List.mem_map.1 he
      exact gzf_rotN hs now b0 (h.2 b0 (List.mem_of_mem_drop (List.mem_of_mem_take hb0)))

/-- the compression pattern: the newest `k` are plain, the others compressed (if the
    configuration has a suffix; otherwise nothing is compressed) -/
def Pat (hs : Bool) (k : Nat) (C : List E) : Prop :=
  (∀ e ∈ C.take k, e.1.gz = false) ∧ (∀ e ∈ C.drop k, e.1.gz = hs)

theorem Pat.nil (hs : Bool) (k : Nat) : Pat hs k [] := by
  constructor <;> intro e he <;> simp at he

theorem Pat.all_plain {k : Nat} {C : List E} (h : Pat false k C) : ∀ e ∈ C, e.1.gz = false := by
  intro e he
  rw [← List.take_append_drop k C] at he
  rcases List.mem_append.1 he with he | he
  · exact h.1 e he
  · exact h.2 e he

theorem Pat.split {hs : Bool} {k : Nat} {C : List E} (h : Pat hs k C) :
    ∃ A B, C = A ++ B ∧ (∀ e ∈ A, e.1.gz = false) ∧ (∀ e ∈ B, e.1.gz = true) ∧
      (hs = true → A = C.take k ∧ B = C.drop k) ∧ (hs = false → A = C ∧ B = []) := by
  cases hs with
  | true =>
    exact ⟨C.take k, C.drop k, (List.take_append_drop k C).symm, h.1, h.2, fun _ => ⟨rfl, rfl⟩,
      fun hh => (by cases hh)⟩
  | false =>
    exact ⟨C, [], by simp, h.all_plain, by simp, fun hh => (by cases hh), fun _ => ⟨rfl, rfl⟩⟩

theorem mem_take_cons_succ {x e : E} {C : List E} {k : Nat} (h : e ∈ (x :: C).take k) :
    e = x ∨ e ∈ C.take k := by
  cases k with
  | zero => simp at h
  | succ k0 =>
    rw [List.take_succ_cons] at h
    rcases List.mem_cons.1 h with h | h
    · exact Or.inl h
    · right
      have : C.take k0 = (C.take (k0 + 1)).take k0 := by
        rw [List.take_take]; congr 1; omega
      rw [this] at h
      exact List.mem_of_mem_take h

theorem Pat.T {hs : Bool} {k : Nat} {C : List E} (h : Pat hs k C) (now m : Nat) (x : E)
    (hx : x.1.gz = false) : Pat hs k (T hs now k m (x :: C)) := by
  have hlen : ((x :: C).take k).length ≤ k := by
    rw [List.length_take]; omega
  constructor
  · intro e he
    unfold FV.FlwC.T at he
    rw [List.take_append] at he
    rcases List.mem_append.1 he with he | he
    · rcases mem_take_cons_succ (List.mem_of_mem_take he) with rfl | h1
      · exact hx
      · exact h.1 e h1
    · -- the second part is only reached if the first is shorter than `k`
      by_cases hk : k ≤ (x :: C).length
      · have : k - ((x :: C).take k).length = 0 := by
          rw [List.length_take]; omega
        rw [this] at he
        simp at he
      · have : (x :: C).drop k = [] := by
          apply List.drop_eq_nil_of_le; omega
        rw [this] at he
        simp at he
  · intro e he
    unfold FV.FlwC.T at he
    rw [List.drop_append] at he
    rcases List.mem_append.1 he with he | he
    · rw [List.drop_eq_nil_of_le hlen] at he
      simp at he
    · obtain ⟨e0, he0, rfl⟩ := List.mem_map.1 (List.mem_of_mem_drop he)
      cases hs with
      | true => exact gzf_gz_true now e0
      | false =>
        rw [gzf_false]
        rcases List.mem_cons.1 (List.mem_of_mem_drop (List.mem_of_mem_take he0)) with rfl | h1
        · exact hx
        · exact h.all_plain e0 h1

/-! ### `cleanup` on a described directory -/

/-- the number of plain files kept, as the code computes it -/
def kkOf (r : RotCfg) (k : Nat) : Nat := if r.naming.writesDirect && k = 0 then 1 else k

theorem isRot_congr {e e' : E} (h : e.1.ifx = e'.1.ifx) : isRot e = isRot e' := by
  unfold isRot; rw [h]

theorem ifxs_nodup_append {X N : List E} (hX : ∀ e ∈ X, isRot e = false) (hXn : (ifxs X).Nodup)
    (hN : SortedD N) : (ifxs (X ++ N)).Nodup := by
  unfold ifxs
  rw [List.map_append, List.nodup_append]
  refine ⟨hXn, hN.ifxs_nodup, ?_⟩
  intro a ha b hb hab
  obtain ⟨e, he, rfl⟩ := List.mem_map.1 ha
  obtain ⟨e', he', rfl⟩ := List.mem_map.1 hb
  have h1 := hX e he
  have h2 := isRot_of_rotN (hN.2 e' he')
  rw [isRot_congr hab, h2] at h1
  cases h1

theorem cleanup_spec (now : Nat) (cfg : Cfg) (r : RotCfg) (k m : Nat) (hc : r.cleanup = some (k, m))
    (d : Dir) (X A B : List E) (hp : List.Perm d (X ++ (A ++ B)))
    (hX : ∀ e ∈ X, isRot e = false) (hXn : (ifxs X).Nodup) (hN : SortedD (A ++ B))
    (hA : ∀ e ∈ A, e.1.gz = false) (hB : ∀ e ∈ B, e.1.gz = true) :
    ∃ d' : Dir, cleanup now cfg r noFaults d = (d', false) ∧
      List.Perm d' (X ++ T cfg.hasSuffix now (kkOf r k) m (A ++ B)) := by
  have hl : listing d = A ++ B := listing_of_perm hp hX hN hA hB
  obtain ⟨d', h1, h2⟩ := cleanupLoop_spec cfg.hasSuffix now (kkOf r k) m (A ++ B) 0 d X 0 0 hp
    (ifxs_nodup_append hX hXn hN)
  refine ⟨d', ?_, ?_⟩
  · unfold cleanup
    simp only [hc]
    rw [hl]
    exact h1
  · rw [cl_zero] at h2
    exact h2

theorem T_cons_succ (hs : Bool) (now k m : Nat) (x : E) (N : List E) :
    T hs now (k + 1) m (x :: N) = x :: T hs now k m N := by
  simp [T]

theorem mem_T {hs : Bool} {now k m : Nat} {N : List E} {e : E} (h : e ∈ T hs now k m N) :
    ∃ e0 ∈ N, e.1.ifx = e0.1.ifx := by
  unfold T at h
  rcases List.mem_append.1 h with h | h
  · exact ⟨e, List.mem_of_mem_take h, rfl⟩
  · obtain ⟨e0, he0, rfl⟩ := List.mem_map.1 h
    exact ⟨e0, List.mem_of_mem_drop (List.mem_of_mem_take he0), gzf_ifx hs now e0⟩

end FV.FlwC
