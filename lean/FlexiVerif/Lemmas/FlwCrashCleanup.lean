import FlexiVerif.Model.FlwTrace
import FlexiVerif.Lemmas.FlwCleanupLossless
import FlexiVerif.Lemmas.FlwCrashA
/-
  C11, cleanup part — a process killed at ANY recorded point of a cleanup pass
  (`cleanupLoopT`, `Model/FlwTrace.lean`) has lost no rotated file that is within the keep limits
  of the listing: the file is completely on disk, as the plain file or as its compressed twin.

  The induction is over the remaining suffix `l` of the listing at index `i` with the directory
  `d` the loop has reached (`Inv`): in every directory `d'` the loop goes through from there
    (A) every entry of `l` whose index is `< k + m` is `Held` in `d'`,
    (B) every name that is neither the name of an entry of `l` nor the compressed twin of one
        is in `d'` what it is in `d`.
  `loopT_inv` needs: the infixes of `l` are pairwise different, every entry of `l` is in `d` with
  its data. For `l = listing d0`, `d = d0` both follow from `IfxDistinct d0`.
-/
namespace FV.FlwCC
open FV.Flw
open FV.FlwA (ents)
open FV.FlwL (IfxNe IfxDistinct)

/-- the bytes `data` of the rotated file with infix `i` are completely on disk in `d`: as the
    plain file or as its compressed twin (same body as `FV.C11Cleanup.Held`) -/
def Held (d : Dir) (i : Infix) (data : List Nat) : Prop :=
  (∃ f, d.get ⟨some i, false⟩ = some f ∧ f.data = data) ∨
  (∃ f, d.get ⟨some i, true⟩ = some f ∧ f.data = data)

/-- the compressed twin of a name -/
abbrev gzOf (n : FName) : FName := { n with gz := true }

theorem held_of_get (d : Dir) (n : FName) (f : File) (i : Infix) (h : d.get n = some f)
    (hi : n.ifx = some i) : Held d i f.data := by
  obtain ⟨ifx, gz⟩ := n
  cases hi
  cases gz
  · exact Or.inl ⟨f, h, rfl⟩
  · exact Or.inr ⟨f, h, rfl⟩

theorem held_of_get_gz (d : Dir) (n : FName) (f : File) (i : Infix)
    (h : d.get (gzOf n) = some f) (hi : n.ifx = some i) : Held d i f.data := by
  obtain ⟨ifx, gz⟩ := n
  cases hi
  exact Or.inr ⟨f, h, rfl⟩

/-- `Held` only looks at the two names with the infix -/
theorem held_congr (d d' : Dir) (i : Infix) (data : List Nat)
    (h : ∀ b, d'.get ⟨some i, b⟩ = d.get ⟨some i, b⟩) (hd : Held d i data) : Held d' i data := by
  rcases hd with ⟨f, hf, hdat⟩ | ⟨f, hf, hdat⟩
  · exact Or.inl ⟨f, by rw [h]; exact hf, hdat⟩
  · exact Or.inr ⟨f, by rw [h]; exact hf, hdat⟩

/-- in a directory without duplicate infixes every entry is what `get` returns for its name -/
theorem get_of_mem (d : List (FName × File)) (hd : d.Pairwise IfxNe) (n : FName) (f : File)
    (h : (n, f) ∈ d) : Dir.get d n = some f := by
  induction d with
  | nil => cases h
  | cons x t ih =>
    obtain ⟨k, v⟩ := x
    obtain ⟨hx, ht⟩ := List.pairwise_cons.1 hd
    rcases List.mem_cons.1 h with h | h
    · cases h
      simp [Dir.get]
    · have hk : k ≠ n := fun hkn => hx (n, f) h (by rw [hkn])
      simp only [Dir.get, hk, if_false]
      exact ih ht h

/-- every entry of the listing is in the directory with exactly its data -/
theorem listing_get (d0 : Dir) (hd : IfxDistinct d0) (e : FName × File) (he : e ∈ listing d0) :
    d0.get e.1 = some e.2 :=
  get_of_mem d0 hd e.1 e.2 ((FV.FlwL.mem_listing d0 e).1 he).1

/-! ### the invariant -/

/-- what holds in a directory `d'` the loop goes through after it has reached `d` with the
    suffix `l` (first index `i`) still to do -/
def Inv (k m : Nat) (l : List (FName × File)) (i : Nat) (d d' : Dir) : Prop :=
  (∀ (j : Nat) (n : FName) (f : File) (ix : Infix), l[j]? = some (n, f) → n.ifx = some ix →
      i + j < k + m → Held d' ix f.data) ∧
  (∀ x : FName, (∀ e ∈ l, e.1 ≠ x) → (∀ e ∈ l, gzOf e.1 ≠ x) → d'.get x = d.get x)

/-- nothing done yet -/
theorem inv_refl (k m : Nat) (l : List (FName × File)) (i : Nat) (d : Dir)
    (h : ∀ e ∈ l, d.get e.1 = some e.2) : Inv k m l i d d := by
  refine ⟨?_, fun _ _ _ => rfl⟩
  intro j n f ix hj hix _
  exact held_of_get d n f ix (h (n, f) (List.mem_of_getElem? hj)) hix

/-- what one step of the loop on the head `(n, f)` may do to the directory (`dX`: the directory
    at a point of the step or after it): only `n` and its compressed twin change, and if `n` is
    within the keep limits it is still `Held` -/
def Ok (k m : Nat) (n : FName) (f : File) (i : Nat) (d dX : Dir) : Prop :=
  (∀ x : FName, x ≠ n → x ≠ gzOf n → dX.get x = d.get x) ∧
  (∀ ix : Infix, n.ifx = some ix → i < k + m → Held dX ix f.data)

theorem ok_self (k m : Nat) (n : FName) (f : File) (i : Nat) (d : Dir) (hn : d.get n = some f) :
    Ok k m n f i d d :=
  ⟨fun _ _ _ => rfl, fun ix hix _ => held_of_get d n f ix hn hix⟩

theorem ok_erase (k m : Nat) (n : FName) (f : File) (i : Nat) (d : Dir) (hi : i ≥ k + m) :
    Ok k m n f i d (d.erase n) :=
  ⟨fun x hx _ => FV.FlwA.get_erase_ne d n x hx, fun _ _ h => absurd h (by omega)⟩

theorem ne_gzOf (n : FName) (hg : n.gz = false) : n ≠ gzOf n := by
  intro h
  have := congrArg FName.gz h
  rw [hg] at this
  cases this

/-- the compressed twin exists (empty, or with the data): the plain file is untouched -/
theorem ok_set (k m : Nat) (n : FName) (f : File) (i : Nat) (d : Dir) (v : File)
    (hn : d.get n = some f) (hg : n.gz = false) : Ok k m n f i d (d.set (gzOf n) v) := by
  refine ⟨fun x _ hx => FV.FlwA.get_set_ne d _ x v hx, fun ix hix _ => ?_⟩
  apply held_of_get _ n f ix _ hix
  rw [FV.FlwA.get_set_ne d _ n v (ne_gzOf n hg)]
  exact hn

/-- the plain file is erased after the finished copy exists -/
theorem ok_removed (k m : Nat) (n : FName) (f : File) (i : Nat) (d : Dir) (now : Nat)
    (hg : n.gz = false) : Ok k m n f i d ((d.set (gzOf n) ⟨f.data, now⟩).erase n) := by
  refine ⟨fun x hx hx' => ?_, fun ix hix _ => ?_⟩
  · rw [FV.FlwA.get_erase_ne _ n x hx, FV.FlwA.get_set_ne d _ x _ hx']
  · apply held_of_get_gz _ n ⟨f.data, now⟩ ix _ hix
    rw [FV.FlwA.get_erase_ne _ n _ (ne_gzOf n hg).symm, FV.FlwA.get_set_self]

/-- an `Ok` step keeps the entries of the rest of the list in the directory -/
theorem ok_rest (k m : Nat) (n : FName) (f : File) (rest : List (FName × File)) (i : Nat)
    (d dX : Dir) (hhead : ∀ e ∈ rest, n.ifx ≠ e.1.ifx) (hr : ∀ e ∈ rest, d.get e.1 = some e.2)
    (hok : Ok k m n f i d dX) : ∀ e ∈ rest, dX.get e.1 = some e.2 := by
  intro e he
  rw [hok.1 e.1 (fun h => hhead e he (by rw [h])) (fun h => hhead e he (by rw [h]))]
  exact hr e he

/-- the invariant of the rest of the list after an `Ok` step is the invariant of the list -/
theorem inv_step (k m : Nat) (n : FName) (f : File) (rest : List (FName × File)) (i : Nat)
    (d dN d' : Dir) (hhead : ∀ e ∈ rest, n.ifx ≠ e.1.ifx) (hok : Ok k m n f i d dN)
    (h : Inv k m rest (i + 1) dN d') : Inv k m ((n, f) :: rest) i d d' := by
  obtain ⟨hA, hB⟩ := h
  refine ⟨?_, ?_⟩
  · intro j n' f' ix hj hix hlt
    cases j with
    | zero =>
      rw [List.getElem?_cons_zero] at hj
      cases hj
      apply held_congr dN d' ix f.data _ (hok.2 ix hix (by omega))
      intro b
      apply hB
      · intro e he h
        exact hhead e he (by rw [h, hix])
      · intro e he h
        have := congrArg FName.ifx h
        exact hhead e he (by rw [hix]; exact this.symm)
    | succ j =>
      rw [List.getElem?_cons_succ] at hj
      exact hA j n' f' ix hj hix (by omega)
  · intro x h1 h2
    have hxn : x ≠ n := fun h => h1 (n, f) List.mem_cons_self h.symm
    have hxg : x ≠ gzOf n := fun h => h2 (n, f) List.mem_cons_self h.symm
    rw [hB x (fun e he => h1 e (List.mem_cons_of_mem _ he))
      (fun e he => h2 e (List.mem_cons_of_mem _ he))]
    exact hok.1 x hxn hxg

/-- the invariant at a point of the step on the head -/
theorem inv_point (k m : Nat) (n : FName) (f : File) (rest : List (FName × File)) (i : Nat)
    (d dX : Dir) (hhead : ∀ e ∈ rest, n.ifx ≠ e.1.ifx) (hr : ∀ e ∈ rest, d.get e.1 = some e.2)
    (hok : Ok k m n f i d dX) : Inv k m ((n, f) :: rest) i d dX :=
  inv_step k m n f rest i d dX dX hhead hok
    (inv_refl k m rest (i + 1) dX (ok_rest k m n f rest i d dX hhead hr hok))

/-- one unfolding of the loop: the step on the head goes to `dN` through the points `new`, all
    of them `Ok` -/
theorem cons_case (k m : Nat) (n : FName) (f : File) (rest : List (FName × File)) (i : Nat)
    (d dN : Dir) (acc acc' new : List Pt) (res : Dir × List Pt)
    (hhead : ∀ e ∈ rest, n.ifx ≠ e.1.ifx) (hr : ∀ e ∈ rest, d.get e.1 = some e.2)
    (hN : Ok k m n f i d dN) (hacc : ∀ p ∈ acc', p ∈ acc ∨ p ∈ new)
    (hnew : ∀ p ∈ new, Ok k m n f i d p.dir)
    (ih : Inv k m rest (i + 1) dN res.1 ∧
      ∀ p ∈ res.2, p ∈ acc' ∨ Inv k m rest (i + 1) dN p.dir) :
    Inv k m ((n, f) :: rest) i d res.1 ∧
      ∀ p ∈ res.2, p ∈ acc ∨ Inv k m ((n, f) :: rest) i d p.dir := by
  refine ⟨inv_step k m n f rest i d dN _ hhead hN ih.1, ?_⟩
  intro p hp
  rcases ih.2 p hp with h | h
  · rcases hacc p h with h | h
    · exact Or.inl h
    · exact Or.inr (inv_point k m n f rest i d p.dir hhead hr (hnew p h))
  · exact Or.inr (inv_step k m n f rest i d dN _ hhead hN h)

/-- **the invariant holds at every point of the loop and in the directory it returns** -/
theorem loopT_inv (now : Nat) (hs : Bool) (k m : Nat) (link : Option FName)
    (l : List (FName × File)) (hp : l.Pairwise IfxNe) :
    ∀ (i : Nat) (d : Dir) (acc : List Pt), (∀ e ∈ l, d.get e.1 = some e.2) →
      Inv k m l i d (cleanupLoopT now hs k m link l i d acc).1 ∧
      ∀ p ∈ (cleanupLoopT now hs k m link l i d acc).2, p ∈ acc ∨ Inv k m l i d p.dir := by
  induction l with
  | nil =>
    intro i d acc h
    rw [cleanupLoopT]
    exact ⟨inv_refl k m [] i d h, fun p hp => Or.inl hp⟩
  | cons x rest ih =>
    intro i d acc h
    obtain ⟨n, f⟩ := x
    obtain ⟨hhead, hrest⟩ := List.pairwise_cons.1 hp
    have hn : d.get n = some f := h (n, f) List.mem_cons_self
    have hr : ∀ e ∈ rest, d.get e.1 = some e.2 := fun e he => h e (List.mem_cons_of_mem _ he)
    have hself := ok_self k m n f i d hn
    rw [cleanupLoopT]
    by_cases h1 : i ≥ k + m
    · simp only [h1, if_true]
      have hE := ok_erase k m n f i d h1
      refine cons_case k m n f rest i d (d.erase n) acc _ _ _ hhead hr hE
        (fun p hp => List.mem_append.1 hp) ?_
        (ih hrest _ _ _ (ok_rest k m n f rest i d _ hhead hr hE))
      intro p hp
      simp only [List.mem_cons, List.not_mem_nil, or_false] at hp
      rcases hp with rfl | rfl
      · exact hself
      · exact hE
    · simp only [h1, if_false]
      by_cases h2 : i ≥ k
      · simp only [h2, if_true]
        by_cases h3 : (n.gz || !hs) = true
        · simp only [h3, if_true]
          exact cons_case k m n f rest i d d acc acc [] _ hhead hr hself
            (fun p hp => Or.inl hp) (fun p hp => nomatch hp) (ih hrest _ _ _ hr)
        · simp only [h3]
          have hg : n.gz = false := by
            cases hgz : n.gz
            · rfl
            · rw [hgz] at h3
              exact absurd rfl h3
          have hR := ok_removed k m n f i d now hg
          refine cons_case k m n f rest i d _ acc _ _ _ hhead hr hR
            (fun p hp => List.mem_append.1 hp) ?_
            (ih hrest _ _ _ (ok_rest k m n f rest i d _ hhead hr hR))
          intro p hp
          simp only [List.mem_cons, List.not_mem_nil, or_false] at hp
          rcases hp with rfl | rfl | rfl | rfl | rfl
          · exact hself
          · exact ok_set k m n f i d _ hn hg
          · exact ok_set k m n f i d _ hn hg
          · exact ok_set k m n f i d _ hn hg
          · exact hR
      · simp only [h2, if_false]
        exact cons_case k m n f rest i d d acc acc [] _ hhead hr hself
          (fun p hp => Or.inl hp) (fun p hp => nomatch hp) (ih hrest _ _ _ hr)

/-! ### the pass on a listing -/

/-- the whole pass on the listing of a directory without duplicate infixes -/
theorem pass_inv (now : Nat) (hs : Bool) (k m : Nat) (link : Option FName) (d0 : Dir)
    (hd : IfxDistinct d0) (d : Dir)
    (h : d = (cleanupLoopT now hs k m link (listing d0) 0 d0 []).1 ∨
      ∃ p ∈ (cleanupLoopT now hs k m link (listing d0) 0 d0 []).2, p.dir = d) :
    Inv k m (listing d0) 0 d0 d := by
  have hinv := loopT_inv now hs k m link (listing d0) (FV.FlwL.listing_pairwise d0 hd) 0 d0 []
    (listing_get d0 hd)
  rcases h with rfl | ⟨p, hp, rfl⟩
  · exact hinv.1
  · rcases hinv.2 p hp with h | h
    · cases h
    · exact h

/-- the un-instrumented pass is the first projection -/
theorem loopT_fst (now : Nat) (hs : Bool) (k m : Nat) (link : Option FName)
    (l : List (FName × File)) (i : Nat) (d : Dir) (acc : List Pt) (rc gc : Nat) :
    (cleanupLoopT now hs k m link l i d acc).1 =
      (cleanupLoop now hs k m noFaults l i d rc gc).1 := by
  rw [FV.FlwA.cleanupLoopT_fst now hs k m link l i d acc rc gc]

end FV.FlwCC
