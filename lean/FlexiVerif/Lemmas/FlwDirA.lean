import FlexiVerif.Model.FlwAbs
/-
  Lemmas on the abstract file system (`Dir`), on the listing sort (`insAsc`, `rotatedAsc`,
  `extAsc`) and on the name choice (`collisionFree`) used by the refinement proof for the
  namings that write to `rCURRENT` (`Lemmas/FlwRefineA.lean`).
-/
namespace FV.FlwA
open FV.Flw

/-! ### `Dir.get` / `Dir.set` / `Dir.erase` -/

/-- the entries of a directory as a list (`Dir` is a plain `def`, so `e ∈ d` does not elaborate;
    statements use `e ∈ ents d`, which is type-correct at every transparency) -/
abbrev ents (d : Dir) : List (FName × File) := d


/-! Since `Dir` is not reducible, `rw`/`simp` cannot instantiate list lemmas with a `d : Dir`.
    The list-level facts are therefore proved for `l : List (FName × File)` first (`l_…`) and
    transferred by definitional unfolding. -/

theorem l_mem_erase (l : List (FName × File)) (n : FName) (e : FName × File) :
    e ∈ l.filter (fun e => e.1 ≠ n) ↔ e ∈ l ∧ e.1 ≠ n := by
  simp [List.mem_filter]

theorem mem_erase (d : Dir) (n : FName) (e : FName × File) :
    e ∈ ents (d.erase n) ↔ e ∈ ents d ∧ e.1 ≠ n := l_mem_erase d n e

theorem mem_set (d : Dir) (n : FName) (v : File) (e : FName × File) :
    e ∈ ents (d.set n v) ↔ e = (n, v) ∨ (e ∈ ents d ∧ e.1 ≠ n) :=
  List.mem_cons.trans (or_congr Iff.rfl (mem_erase d n e))

theorem get_eq_none_iff (d : Dir) (n : FName) : d.get n = none ↔ ∀ e ∈ ents d, e.1 ≠ n := by
  induction d with
  | nil => simp [Dir.get]
  | cons x t ih =>
    obtain ⟨k, v⟩ := x
    by_cases h : k = n
    · simp [Dir.get, h]
    · simp [Dir.get, h, ih]

theorem mem_of_get (d : Dir) (n : FName) (v : File) (h : d.get n = some v) : (n, v) ∈ ents d := by
  induction d with
  | nil => simp [Dir.get] at h
  | cons x t ih =>
    obtain ⟨k, w⟩ := x
    by_cases hk : k = n
    · simp [Dir.get, hk] at h
      simp [hk, h]
    · simp [Dir.get, hk] at h
      exact List.mem_cons_of_mem _ (ih h)

@[simp] theorem get_erase_self (d : Dir) (n : FName) : (d.erase n).get n = none := by
  rw [get_eq_none_iff]
  intro e he
  exact ((mem_erase d n e).1 he).2

theorem get_erase_ne (d : Dir) (n m : FName) (h : m ≠ n) : (d.erase n).get m = d.get m := by
  induction d with
  | nil => rfl
  | cons x t ih =>
    obtain ⟨k, w⟩ := x
    unfold Dir.erase at ih ⊢
    by_cases hk : k = n
    · have : k ≠ m := by rw [hk]; exact fun h' => h h'.symm
      rw [List.filter_cons_of_neg (by simp [hk]), ih]
      simp [Dir.get, this]
    · rw [List.filter_cons_of_pos (by simp [hk])]
      by_cases hm : k = m
      · simp [Dir.get, hm]
      · simp only [Dir.get, hm, if_false]
        exact ih

@[simp] theorem get_set_self (d : Dir) (n : FName) (v : File) : (d.set n v).get n = some v := by
  simp [Dir.set, Dir.get]

theorem get_set_ne (d : Dir) (n m : FName) (v : File) (h : m ≠ n) :
    (d.set n v).get m = d.get m := by
  have : n ≠ m := fun h' => h h'.symm
  simp [Dir.set, Dir.get, this, get_erase_ne d n m h]

theorem l_erase_of_not_mem (l : List (FName × File)) (n : FName) (h : ∀ e ∈ l, e.1 ≠ n) :
    l.filter (fun e => e.1 ≠ n) = l := by
  rw [List.filter_eq_self]
  intro e he
  simp [h e he]

theorem erase_of_not_mem (d : Dir) (n : FName) (h : ∀ e ∈ ents d, e.1 ≠ n) : d.erase n = d :=
  l_erase_of_not_mem d n h

theorem l_erase_set_ne (l : List (FName × File)) (n m : FName) (v : File) (h : n ≠ m) :
    ((n, v) :: l.filter (fun e => e.1 ≠ n)).filter (fun e => e.1 ≠ m) =
      (n, v) :: (l.filter (fun e => e.1 ≠ m)).filter (fun e => e.1 ≠ n) := by
  rw [List.filter_cons_of_pos (by simp [h]), List.filter_filter, List.filter_filter]
  congr 1
  apply List.filter_congr
  intro e _
  exact Bool.and_comm _ _

theorem erase_set_ne (d : Dir) (n m : FName) (v : File) (h : n ≠ m) :
    (d.set n v).erase m = (d.erase m).set n v := l_erase_set_ne d n m v h

theorem l_erase_set_self (l : List (FName × File)) (n : FName) (v : File) :
    ((n, v) :: l.filter (fun e => e.1 ≠ n)).filter (fun e => e.1 ≠ n) =
      l.filter (fun e => e.1 ≠ n) := by
  rw [List.filter_cons_of_neg (by simp), List.filter_filter]
  apply List.filter_congr
  intro e _
  simp

theorem erase_set_self (d : Dir) (n : FName) (v : File) : (d.set n v).erase n = d.erase n :=
  l_erase_set_self d n v

theorem get_nil (n : FName) : Dir.get [] n = none := rfl

theorem rename_nil (a b : FName) : Dir.rename [] a b = ([], false) := rfl

/-! ### the listing sort -/

/-- the selection of `rotatedAsc` -/
def isRot (e : FName × File) : Bool :=
  match e.1.ifx with
  | some i => i.rotated
  | none => false

theorem rotatedAsc_eq (d : Dir) : rotatedAsc d = (List.filter isRot d).foldr insAsc [] := rfl

theorem rotatedAsc_nil : rotatedAsc [] = [] := rfl

theorem l_rot_cons (x : FName × File) (l : List (FName × File)) :
    ((x :: l).filter isRot).foldr insAsc [] =
      if isRot x then insAsc x ((l.filter isRot).foldr insAsc []) else
        (l.filter isRot).foldr insAsc [] := by
  by_cases h : isRot x = true
  · simp [List.filter, h]
  · simp [List.filter, h]

theorem rotatedAsc_cons (x : FName × File) (d : Dir) :
    rotatedAsc (x :: d) = if isRot x then insAsc x (rotatedAsc d) else rotatedAsc d :=
  l_rot_cons x d

theorem l_rot_erase (l : List (FName × File)) (n : FName) (h : ∀ v, isRot (n, v) = false) :
    ((l.filter (fun e => e.1 ≠ n)).filter isRot).foldr insAsc [] =
      (l.filter isRot).foldr insAsc [] := by
  rw [List.filter_filter]
  congr 1
  apply List.filter_congr
  intro e _
  by_cases he : e.1 = n
  · have := h e.2
    rw [← he] at this
    simp [he, this]
  · simp [he]

theorem rotatedAsc_erase (d : Dir) (n : FName) (h : ∀ v, isRot (n, v) = false) :
    rotatedAsc (d.erase n) = rotatedAsc d := l_rot_erase d n h

theorem rotatedAsc_set_of_not_rot (d : Dir) (n : FName) (v : File)
    (h : ∀ v, isRot (n, v) = false) : rotatedAsc (d.set n v) = rotatedAsc d := by
  have h1 : rotatedAsc (d.set n v) = rotatedAsc (d.erase n) := by
    have := rotatedAsc_cons (n, v) (d.erase n)
    rw [h v] at this
    exact this
  rw [h1, rotatedAsc_erase d n h]

theorem mem_insAsc (x y : FName × File) (l : List (FName × File)) :
    y ∈ insAsc x l ↔ y = x ∨ y ∈ l := by
  induction l with
  | nil => simp [insAsc]
  | cons z zs ih =>
    unfold insAsc
    split
    · split
      · simp
      · simp only [List.mem_cons, ih]
        constructor
        · rintro (h | h | h) <;> simp [h]
        · rintro (h | h | h) <;> simp [h]
    · simp only [List.mem_cons, ih]
      constructor
      · rintro (h | h | h) <;> simp [h]
      · rintro (h | h | h) <;> simp [h]

theorem l_mem_rot (l : List (FName × File)) (e : FName × File) :
    e ∈ (l.filter isRot).foldr insAsc [] ↔ e ∈ l ∧ isRot e = true := by
  induction l with
  | nil => simp
  | cons x t ih =>
    rw [l_rot_cons]
    by_cases h : isRot x = true
    · rw [if_pos h, mem_insAsc, ih, List.mem_cons]
      constructor
      · rintro (rfl | ⟨h1, h2⟩)
        · exact ⟨Or.inl rfl, h⟩
        · exact ⟨Or.inr h1, h2⟩
      · rintro ⟨rfl | h1, h2⟩
        · exact Or.inl rfl
        · exact Or.inr ⟨h1, h2⟩
    · rw [if_neg h, ih, List.mem_cons]
      constructor
      · rintro ⟨h1, h2⟩
        exact ⟨Or.inr h1, h2⟩
      · rintro ⟨rfl | h1, h2⟩
        · exact absurd h2 h
        · exact ⟨h1, h2⟩

theorem mem_rotatedAsc (d : Dir) (e : FName × File) :
    e ∈ rotatedAsc d ↔ e ∈ ents d ∧ isRot e = true := l_mem_rot d e

/-- an element whose key is not below any key of the list is inserted last -/
theorem insAsc_last (x : FName × File) (i : Infix) (hx : x.1.ifx = some i)
    (l : List (FName × File))
    (h : ∀ y ∈ l, ∀ j, y.1.ifx = some j → keyLt i.key j.key = false) :
    insAsc x l = l ++ [x] := by
  induction l with
  | nil => rfl
  | cons z zs ih =>
    have ih' := ih (fun y hy => h y (List.mem_cons_of_mem _ hy))
    unfold insAsc
    split
    · rename_i a b ha hb
      rw [hx] at ha
      cases ha
      have := h z (List.mem_cons_self) b hb
      simp [this, ih']
    · simp [ih']

/-- no files moved away by somebody else -/
theorem l_ext_nil (l : List (FName × File))
    (h : ∀ e ∈ l, ∀ n, e.1.ifx ≠ some (.ext n)) :
    (l.filterMap (fun e => match e.1.ifx with
      | some (.ext n) => some (n, e.2) | _ => none)).foldr insExt [] = [] := by
  rw [List.filterMap_eq_nil_iff.2]
  · rfl
  · intro e he
    split
    · rename_i n hn
      exact absurd hn (h e he n)
    · rfl

theorem extAsc_eq_nil (d : Dir)
    (h : ∀ e ∈ ents d, ∀ n, e.1.ifx ≠ some (.ext n)) : extAsc d = [] := l_ext_nil d h

/-! ### `collisionFree` -/

theorem le_foldl_max_init (l : List Nat) (s : Nat) : s ≤ l.foldl max s := by
  induction l generalizing s with
  | nil => simp
  | cons x xs ih =>
    simp only [List.foldl_cons]
    have := ih (max s x)
    omega

theorem le_foldl_max (l : List Nat) (s r : Nat) (h : r = s ∨ r ∈ l) : r ≤ l.foldl max s := by
  induction l generalizing s with
  | nil => simp at h; simp [h]
  | cons x xs ih =>
    simp only [List.foldl_cons]
    rcases h with rfl | h
    · have := le_foldl_max_init xs (max r x)
      omega
    · rcases List.mem_cons.1 h with rfl | h
      · have := le_foldl_max_init xs (max s r)
        omega
      · exact ih _ (Or.inr h)

/-- the restart numbers of the files with stamp `k` -/
def siblings (d : Dir) (k : Nat) : List Nat :=
  d.filterMap (fun e => match e.1.ifx with
    | some (.ts k' (some r)) => if k' = k then some r else none
    | _ => none)

theorem mem_siblings (d : Dir) (k r : Nat) (e : FName × File) (he : e ∈ ents d)
    (h : e.1.ifx = some (.ts k (some r))) : r ∈ siblings d k :=
  List.mem_filterMap.2 ⟨e, he, by simp [h]⟩

theorem collisionFree_eq (d : Dir) (k : Nat) :
    collisionFree d k =
      if (d.has ⟨some (.ts k none), false⟩ || d.has ⟨some (.ts k none), true⟩) ||
          !(siblings d k).isEmpty then
        match siblings d k with
        | [] => .ts k (some 0)
        | s :: ss => .ts k (some (ss.foldl max s + 1))
      else .ts k none := rfl

/-- `collisionFree` yields a timestamp infix with the requested stamp … -/
theorem collisionFree_ts (d : Dir) (k : Nat) : ∃ r, collisionFree d k = .ts k r := by
  rw [collisionFree_eq]
  split
  · split
    · exact ⟨_, rfl⟩
    · exact ⟨_, rfl⟩
  · exact ⟨_, rfl⟩

/-- … that no file of the directory has (plain or compressed) … -/
theorem collisionFree_fresh (d : Dir) (k : Nat) (e : FName × File) (he : e ∈ ents d) :
    e.1.ifx ≠ some (collisionFree d k) := by
  rw [collisionFree_eq]
  intro heq
  split at heq
  · split at heq
    · rename_i hs
      have := mem_siblings d k 0 e he heq
      rw [hs] at this
      simp at this
    · rename_i s ss hs
      have := mem_siblings d k _ e he heq
      rw [hs] at this
      have := le_foldl_max ss s _ (List.mem_cons.1 this)
      omega
  · rename_i hc
    simp only [Bool.or_eq_true, Bool.not_eq_true', not_or, Bool.not_eq_true,
      Bool.not_eq_false] at hc
    obtain ⟨⟨h1, h2⟩, -⟩ := hc
    unfold Dir.has at h1 h2
    simp only [Option.isSome_eq_false_iff, Option.isNone_iff_eq_none] at h1 h2
    rw [get_eq_none_iff] at h1 h2
    obtain ⟨⟨ifx, gz⟩, f⟩ := e
    simp only at heq
    cases gz
    · exact h1 _ he (by simp [heq])
    · exact h2 _ he (by simp [heq])

theorem keyLt_false_of_lt (a b : Nat × Nat) (h : b.1 < a.1) : keyLt a b = false := by
  unfold keyLt
  have h1 : ¬ a.1 < b.1 := by omega
  have h2 : ¬ a.1 = b.1 := by omega
  simp [h1, h2]

theorem keyLt_false_of_le (a b : Nat × Nat) (h1 : a.1 = b.1) (h2 : b.2 ≤ a.2) :
    keyLt a b = false := by
  unfold keyLt
  have h3 : ¬ a.1 < b.1 := by omega
  have h4 : ¬ a.2 < b.2 := by omega
  simp [h3, h4]

theorem key_ts_fst (k : Nat) (r : Option Nat) : (Infix.ts k r).key.1 = k := by
  cases r <;> rfl

/-- … and whose key is not below the key of any timestamp file with a stamp `≤ k`. -/
theorem collisionFree_key (d : Dir) (k : Nat) (e : FName × File) (he : e ∈ ents d)
    (k' : Nat) (r' : Option Nat) (h : e.1.ifx = some (.ts k' r')) (hk : k' ≤ k) :
    keyLt (collisionFree d k).key (Infix.ts k' r').key = false := by
  by_cases hlt : k' < k
  · obtain ⟨r, hr⟩ := collisionFree_ts d k
    rw [hr]
    apply keyLt_false_of_lt
    rw [key_ts_fst, key_ts_fst]
    exact hlt
  · have hkk : k' = k := by omega
    subst hkk
    rw [collisionFree_eq]
    cases r' with
    | none =>
      apply keyLt_false_of_le
      · split
        · split <;> rfl
        · rfl
      · exact Nat.zero_le _
    | some r =>
      have hm := mem_siblings d k' r e he h
      split
      · split
        · rename_i hs
          rw [hs] at hm
          simp at hm
        · rename_i s ss hs
          rw [hs] at hm
          have := le_foldl_max ss s _ (List.mem_cons.1 hm)
          apply keyLt_false_of_le
          · rfl
          · simp only [Infix.key]
            omega
      · rename_i hc
        cases hs : siblings d k' with
        | nil => rw [hs] at hm; simp at hm
        | cons s ss => simp [hs] at hc

/-! ### `mountNext`: the initial flush, then the rotation proper -/

/-- when a rotation is due, `mountNext` flushes the `BufWriter` into the file that is rotated out
    and then runs the rotation proper -/
theorem mountNext_due (s : St) (a : Active) (r : RotCfg) (force : Bool) (now : Nat) (fl : Faults)
    (h : (force || rotationNecessary r a now) = true) :
    mountNext s a r force now fl =
      mountNextCore (flushAct s a).1 (flushAct s a).2 r true now fl := by
  simp [mountNext, h]

end FV.FlwA
