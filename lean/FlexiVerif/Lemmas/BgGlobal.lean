/-
  Helpers for the global induction of `Props/C07BgGlobal.lean`.

  Part 1 (`FV.Bg`): what a pass leaves depends only on the FLAGS it finds, not on the ranks, as
  long as the ranks are strictly increasing along the list.
  * `mapId`, `pass_mapId`: a pass commutes with every relabelling of the ranks that is injective
    on the ranks that occur;
  * `canon_eq`: a directory with strictly increasing ranks is a relabelling of the directory
    numbered by position (`FlwBr.ofFlags`);
  * `pass_flags_congr`: two directories with strictly increasing ranks and the same flags are
    left with the same flags by a pass.
  * `syncDir_succ_flags`: hence a directory with the flags of `syncDir k m N`, extended by a
    newest plain file and cleaned up once, has the flags of `syncDir k m (N + 1)`.
  No premise "the compressed files are the older ones" is needed: `Bg.listing` is a function of
  the flags and the positions, the ranks only serve as identifiers.

  Part 2 (`FV.FlwBr`): the steps of the concrete model that do not rotate (write, flush, the
  opening of the first file) read through `rotatedAsc … |>.map tag`: `rotatedAsc_tag_congr`,
  `wrote_tags`, `init_tags`.
-/
import FlexiVerif.Lemmas.FlwBgBridge
namespace FV.Bg

/-- ranks strictly increasing along the list -/
def Asc (D : Dir) : Prop := D.Pairwise (fun a b => a.id < b.id)

/-- the flags of a directory, oldest first -/
abbrev flags (D : Dir) : List Bool := D.map (·.gz)

/-! ### relabelling the ranks -/

/-- relabel the ranks -/
def mapId (φ : Nat → Nat) (D : Dir) : Dir := D.map (fun f => ⟨φ f.id, f.gz⟩)

/-- the rank an operation concerns -/
def Act.rank : Act → Nat
  | .remove id => id
  | .compress id => id

def Act.mapId (φ : Nat → Nat) : Act → Act
  | .remove id => .remove (φ id)
  | .compress id => .compress (φ id)

theorem flags_mapId (φ : Nat → Nat) (D : Dir) : flags (mapId φ D) = flags D := by
  unfold flags mapId
  rw [List.map_map]
  rfl

theorem mem_mapId {φ : Nat → Nat} {D : Dir} {g : RF} :
    g ∈ mapId φ D ↔ ∃ f ∈ D, (⟨φ f.id, f.gz⟩ : RF) = g := by
  unfold mapId
  rw [List.mem_map]

theorem listing_mapId (φ : Nat → Nat) (D : Dir) : listing (mapId φ D) = mapId φ (listing D) := by
  unfold listing mapId
  rw [List.filter_map, List.filter_map, List.map_append, List.map_reverse, List.map_reverse]
  rfl

theorem plan_mapId (φ : Nat → Nat) (k m : Nat) : ∀ (L : List RF) (i : Nat),
    plan k m (mapId φ L) i = (plan k m L i).map (Act.mapId φ)
  | [], _ => rfl
  | f :: rest, i => by
    have ih := plan_mapId φ k m rest (i + 1)
    have hc : mapId φ (f :: rest) = ⟨φ f.id, f.gz⟩ :: mapId φ rest := rfl
    rw [hc, plan, plan, ih]
    by_cases h1 : i ≥ k + m
    · rw [if_pos h1, if_pos h1]; rfl
    · rw [if_neg h1, if_neg h1]
      by_cases h2 : i ≥ k
      · rw [if_pos h2, if_pos h2]
        cases hg : f.gz
        · simp only [Bool.false_eq_true, if_false]; rfl
        · simp only [if_true]
      · rw [if_neg h2, if_neg h2]

/-- a plan only mentions ranks of its listing -/
theorem plan_rank (k m : Nat) : ∀ (L : List RF) (i : Nat),
    ∀ a ∈ plan k m L i, ∃ f ∈ L, f.id = a.rank
  | [], _ => by intro a ha; simp [plan] at ha
  | f :: rest, i => by
    intro a ha
    have ih := plan_rank k m rest (i + 1)
    have hrest : a ∈ plan k m rest (i + 1) → ∃ g ∈ f :: rest, g.id = a.rank := by
      intro h
      obtain ⟨g, hg, e⟩ := ih a h
      exact ⟨g, List.mem_cons_of_mem _ hg, e⟩
    rw [plan] at ha
    split at ha
    · rcases List.mem_cons.1 ha with rfl | h
      · exact ⟨f, List.mem_cons_self .., rfl⟩
      · exact hrest h
    · split at ha
      · split at ha
        · exact hrest ha
        · rcases List.mem_cons.1 ha with rfl | h
          · exact ⟨f, List.mem_cons_self .., rfl⟩
          · exact hrest h
      · exact hrest ha

theorem apply_mapId (φ : Nat → Nat) (D : Dir) (a : Act)
    (hinj : ∀ f ∈ D, φ f.id = φ a.rank → f.id = a.rank) :
    apply (mapId φ D) (a.mapId φ) = mapId φ (apply D a) := by
  cases a with
  | remove id =>
    simp only [Act.rank] at hinj
    show List.filter _ (List.map _ D) = List.map _ (List.filter _ D)
    rw [List.filter_map]
    congr 1
    apply List.filter_congr
    intro f hf
    by_cases h : f.id = id
    · simp [h]
    · have : φ f.id ≠ φ id := fun e => h (hinj f hf e)
      simp [h, this]
  | compress id =>
    simp only [Act.rank] at hinj
    show List.map _ (List.map _ D) = List.map _ (List.map _ D)
    rw [List.map_map, List.map_map]
    apply List.map_congr_left
    intro f hf
    by_cases h : f.id = id
    · simp [h]
    · have : φ f.id ≠ φ id := fun e => h (hinj f hf e)
      simp [h, this]

/-- the ranks of a directory after an operation are among those before -/
theorem apply_ids (D : Dir) (a : Act) : ∀ g ∈ apply D a, ∃ f ∈ D, f.id = g.id := by
  intro g hg
  cases a with
  | remove id =>
    exact ⟨g, (List.mem_filter.1 hg).1, rfl⟩
  | compress id =>
    obtain ⟨f, hf, e⟩ := List.mem_map.1 hg
    refine ⟨f, hf, ?_⟩
    subst e
    split <;> rfl

theorem foldl_apply_mapId (φ : Nat → Nat) (S : Nat → Prop)
    (hinj : ∀ x y, S x → S y → φ x = φ y → x = y) : ∀ (P : List Act) (D : Dir),
    (∀ f ∈ D, S f.id) → (∀ a ∈ P, S a.rank) →
    (P.map (Act.mapId φ)).foldl apply (mapId φ D) = mapId φ (P.foldl apply D)
  | [], _, _, _ => rfl
  | a :: P, D, hD, hP => by
    rw [List.map_cons, List.foldl_cons, List.foldl_cons,
      apply_mapId φ D a (fun f hf e => hinj _ _ (hD f hf) (hP a (List.mem_cons_self ..)) e)]
    apply foldl_apply_mapId φ S hinj P
    · intro g hg
      obtain ⟨f, hf, e⟩ := apply_ids D a g hg
      rw [← e]
      exact hD f hf
    · intro b hb
      exact hP b (List.mem_cons_of_mem _ hb)

/-- **A pass commutes with every relabelling of the ranks** that is injective on the ranks that
    occur. -/
theorem pass_mapId (φ : Nat → Nat) (S : Nat → Prop)
    (hinj : ∀ x y, S x → S y → φ x = φ y → x = y) (k m : Nat) (D : Dir)
    (hD : ∀ f ∈ D, S f.id) : pass k m (mapId φ D) = mapId φ (pass k m D) := by
  unfold pass
  rw [listing_mapId, plan_mapId]
  apply foldl_apply_mapId φ S hinj _ D hD
  intro a ha
  obtain ⟨f, hf, e⟩ := plan_rank k m _ _ a ha
  rw [← e]
  exact hD f (mem_listing.1 hf)

/-! ### a directory with increasing ranks is a relabelling of the canonical one -/

theorem canon_aux (ψ : Nat → Nat) : ∀ (l : List RF) (n : Nat),
    (∀ i (h : i < l.length), ψ (n + i) = l[i].id) →
    (((l.map (·.gz)).zipIdx n).map (fun x => (⟨x.2, x.1⟩ : RF))).map
      (fun f => (⟨ψ f.id, f.gz⟩ : RF)) = l
  | [], _, _ => rfl
  | a :: l, n, h => by
    rw [List.map_cons, List.zipIdx_cons, List.map_cons, List.map_cons,
      canon_aux ψ l (n + 1) (fun i hi => by
        have := h (i + 1) (by simp only [List.length_cons]; omega)
        rw [show n + 1 + i = n + (i + 1) by omega, this]
        rfl)]
    have h0 := h 0 (by simp)
    simp only [Nat.add_zero, List.getElem_cons_zero] at h0
    rw [h0]

/-- the relabelling that takes the position to the rank -/
def rankAt (D : Dir) (i : Nat) : Nat := (D[i]?.getD ⟨0, false⟩).id

theorem rankAt_lt {D : Dir} {i : Nat} (h : i < D.length) : rankAt D i = D[i].id := by
  unfold rankAt
  rw [List.getElem?_eq_getElem h]
  rfl

theorem canon_eq (D : Dir) : mapId (rankAt D) (FV.FlwBr.ofFlags (flags D)) = D := by
  unfold mapId FV.FlwBr.ofFlags flags
  apply canon_aux (rankAt D) D 0
  intro i h
  rw [Nat.zero_add, rankAt_lt h]

theorem rankAt_inj {D : Dir} (h : Asc D) :
    ∀ x y, x < D.length → y < D.length → rankAt D x = rankAt D y → x = y := by
  intro x y hx hy e
  rw [rankAt_lt hx, rankAt_lt hy] at e
  have hp := List.pairwise_iff_getElem.1 h
  by_cases h1 : x < y
  · have := hp x y hx hy h1; omega
  · by_cases h2 : y < x
    · have := hp y x hy hx h2; omega
    · omega

/-- **The flags a pass leaves are those it leaves on the directory numbered by position.** -/
theorem pass_canon (k m : Nat) (D : Dir) (h : Asc D) :
    flags (pass k m D) = flags (pass k m (FV.FlwBr.ofFlags (flags D))) := by
  have e := pass_mapId (rankAt D) (fun x => x < D.length) (rankAt_inj h) k m
    (FV.FlwBr.ofFlags (flags D)) (fun f hf => by
      have := FV.FlwBr.ofFlags_lt hf
      simpa [flags] using this)
  rw [canon_eq] at e
  rw [e, flags_mapId]

/-! ### a pass keeps the ranks increasing -/

theorem eff_id {P : List Act} {f g : RF} (h : eff P f = some g) : g.id = f.id := by
  unfold eff at h
  split at h
  · cases h
  · cases h
    split <;> rfl

theorem Asc.pass {D : Dir} (h : Asc D) (k m : Nat) : Asc (pass k m D) := by
  unfold FV.Bg.pass
  rw [foldl_apply]
  refine List.Pairwise.filterMap (R := fun a b : RF => a.id < b.id) _ ?_ h
  intro a a' hlt b hb b' hb'
  rw [eff_id hb, eff_id hb']
  exact hlt

/-- **(A) The flags a pass leaves depend only on the flags it finds**, not on the ranks, as long
    as the ranks are strictly increasing along the list; and the ranks stay strictly
    increasing. -/
theorem pass_flags_congr (k m : Nat) (D D' : Dir) (h : Asc D) (h' : Asc D')
    (hf : D.map (·.gz) = D'.map (·.gz)) :
    (pass k m D).map (·.gz) = (pass k m D').map (·.gz) ∧ Asc (pass k m D) ∧ Asc (pass k m D') := by
  refine ⟨?_, h.pass k m, h'.pass k m⟩
  have e1 := pass_canon k m D h
  have e2 := pass_canon k m D' h'
  unfold flags at e1 e2
  rw [e1, e2, hf]

/-! ### one more rotation of the synchronous cleanup, up to the ranks -/

/-- A directory with strictly increasing ranks and the flags of `syncDir k m N`, extended by a
    new newest plain file (of whatever larger rank) and cleaned up once, has the flags of
    `syncDir k m (N + 1)`. -/
theorem syncDir_succ_flags (k m N : Nat) (D : Dir) (x : Nat) (hA : Asc D)
    (hx : ∀ f ∈ D, f.id < x) (h : flags D = flags (syncDir k m N)) :
    flags (pass k m (D ++ [⟨x, false⟩])) = flags (syncDir k m (N + 1)) := by
  show _ = flags (pass k m (syncDir k m N ++ [⟨N, false⟩]))
  refine (pass_flags_congr k m _ _ ?_ ?_ ?_).1
  · unfold Asc
    rw [List.pairwise_append]
    refine ⟨hA, List.pairwise_singleton .., ?_⟩
    intro a ha b hb
    rw [List.mem_singleton] at hb
    subst hb
    exact hx a ha
  · rw [syncDir_eq_explicit]
    exact (Good.explicit k m N).rotate.sorted
  · show flags (D ++ _) = flags (syncDir k m N ++ _)
    unfold flags at h ⊢
    rw [List.map_append, List.map_append, h]
    rfl

/-- a single plain file survives a pass that keeps at least one plain file -/
theorem pass_singleton (k m x : Nat) (hk : 1 ≤ k) : pass k m [⟨x, false⟩] = [⟨x, false⟩] := by
  have hp : plan k m (listing [⟨x, false⟩]) 0 = [] := by
    show plan k m [⟨x, false⟩] 0 = []
    rw [plan, if_neg (by omega), if_neg (by omega)]
    rfl
  unfold pass
  rw [hp]
  rfl

end FV.Bg

/-! ### Part 2: the steps of the concrete model that do not rotate -/
namespace FV.FlwBr
open FV.Flw FV.FlwC
open FV.FlwA (ents isRot curN)

theorem ofFlags_flags (fl : List Bool) : (ofFlags fl).map (·.gz) = fl := by
  unfold ofFlags
  rw [List.map_map]
  exact List.zipIdx_map_fst 0 _

/-- replacing the content of the current file does not change which rotated files there are -/
theorem rotatedAsc_tag_congr {hs : Bool} {kc m : Nat} {nm : Naming} {idx stamp : Nat} {d d' : Dir}
    {h : FName} {f f' : File} {C : List E} {closed : List (List Nat)}
    (hd : CDir hs kc m nm idx stamp d h f C closed) (hp : List.Perm d' ((h, f') :: C)) :
    (rotatedAsc d').map tag = (rotatedAsc d).map tag := by
  rw [rotatedAsc_of_cdir hd, rotatedAsc_of_cdir (hd.upd hp)]
  by_cases hw : nm.writesDirect = true
  · rw [if_pos hw, if_pos hw]
    simp [tag]
  · rw [if_neg hw, if_neg hw]

/-- writing (without rotation) does not change which rotated files there are -/
theorem wrote_tags {cfg : Cfg} {r : RotCfg} {k m : Nat} (s : St) (act : Active) (a : Abs)
    (b : List Nat) (hcfg : s.cfg = cfg) (hi : CInv cfg r k m s.dir act a) :
    (rotatedAsc (wrote s act b).dir).map tag = (rotatedAsc s.dir).map tag := by
  obtain ⟨f, C, hd, -⟩ := hi.dir
  obtain ⟨d', p', f', hw, hp', -, -⟩ := writeRaw_perm s act b f C hd.perm hd.names_nodup
    hi.unbuf (by rw [hcfg]; exact hi.direct)
  have e : (wrote s act b).dir = d' := by
    unfold wrote
    rw [hw]
  rw [e]
  exact rotatedAsc_tag_congr hd hp'

/-- the directory right after the first file has been opened: no rotated file for the `rCURRENT`
    namings, the current file (plain) for the direct namings -/
theorem init_tags {cfg : Cfg} {r : RotCfg} {k m : Nat} {d : Dir} {act : Active} {now : Nat}
    (hi : CInv cfg r k m d act ⟨[], [], true, 0, now⟩) :
    ((rotatedAsc d).map tag).map (·.2) = if r.naming.writesDirect = true then [false] else [] := by
  obtain ⟨f, C, hd, -⟩ := hi.dir
  have hC : C = [] := by
    have := hd.data
    simpa using this
  subst hC
  rw [rotatedAsc_of_cdir hd]
  by_cases hw : r.naming.writesDirect = true
  · rw [if_pos hw, if_pos hw]
    simp [tag, hd.handle.gz]
  · rw [if_neg hw, if_neg hw]
    rfl

end FV.FlwBr
