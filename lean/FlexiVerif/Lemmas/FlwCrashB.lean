/-
  Property C11 for the *direct* namings (`Naming.numbersDirect`, `Naming.timestampsDirect`), no
  cleanup: a process killed at any recorded point of a write (direct write mode) or of a forced
  rotation leaves a directory that contains every acknowledged record (at most the in-flight one
  in addition, nothing reordered), and a new logger started on that directory continues the
  stream.

  Main results: `crash_dirs_described_B`, `crash_safe_B`, `crash_safe_B_rotate`,
  `crash_last_point_B`, `crashDir_safe_B`, `restart_described`, `restart_from_crash_B`.
  The state projections of the instrumented functions needed here are part of
  `openFileT_spec`, `rotTailT_spec`, `initStateT_spec`, `mountNextT_points`.
-/
import FlexiVerif.Model.FlwTrace
import FlexiVerif.Lemmas.FlwRestartB
namespace FV.FlwB
open FV.Flw

/-! ### the instrumented functions: state projection and the directories of their points -/

theorem openFileT_spec (s : St) (n : FName) (now : Nat) :
    (openFileT s n now).1 = (openFile s n now noFaults 0).1 ∧
    ∀ p ∈ (openFileT s n now).2, p.dir = s.dir ∨ p.dir = (openFile s n now noFaults 0).1.dir := by
  unfold openFileT openFile
  cases s.cfg.symlink <;> simp [hit, noFaults, pt] <;> cases s.dir.get n <;> simp

/-- the tail of `mountNextCoreT` once the new infix is chosen (no cleanup) -/
def rotTailT (s : St) (a : Active) (i : Infix) (now : Nat) : St × Active × List Pt :=
  let n : FName := ⟨some i, false⟩
  let s1 := (openFileT s n now).1
  let d := s1.dir.append a.handle a.pending
  ({ s1 with dir := d },
   { a with pending := [], handle := n, path := n, unbuffered := false, size := 0,
            created := createdOr d n now },
   [pt "rot.infix_chosen" s] ++ (openFileT s n now).2 ++
     [pt "rot.opened" s1, pt "rot.mounted" { s1 with dir := d }])

theorem mountNextT_skip (s : St) (a : Active) (r : RotCfg) (force : Bool) (now : Nat)
    (h : (force || rotationNecessary r a now) = false) :
    mountNextT s a r force now = (s, a, []) := by
  unfold mountNextT
  simp [h]

theorem mountNextCoreT_skip (s : St) (a : Active) (r : RotCfg) (force : Bool) (now : Nat)
    (h : (force || rotationNecessary r a now) = false) :
    mountNextCoreT s a r force now = (s, a, []) := by
  unfold mountNextCoreT
  simp [h]

/-- when a rotation is due, the instrumented `mountNext` flushes (no point) and then runs the
    instrumented rotation proper -/
theorem mountNextT_due (s : St) (a : Active) (r : RotCfg) (force : Bool) (now : Nat)
    (h : (force || rotationNecessary r a now) = true) :
    mountNextT s a r force now = mountNextCoreT (flushAct s a).1 (flushAct s a).2 r true now := by
  simp [mountNextT, h]

theorem mountNextCoreT_nD (s : St) (a : Active) (r : RotCfg) (force : Bool) (now : Nat)
    (hn : r.naming = .numbersDirect) (hc : r.cleanup = none)
    (h : (force || rotationNecessary r a now) = true) :
    mountNextCoreT s a r force now =
      rotTailT s { a with idx := a.idx + 1 } (.num (a.idx + 1)) now := by
  unfold mountNextCoreT
  simp only [h, hn]
  simp [rotTailT, flushAct, cleanupT, hc]

theorem mountNextCoreT_tD (s : St) (a : Active) (r : RotCfg) (force : Bool) (now : Nat)
    (hn : r.naming = .timestampsDirect) (hc : r.cleanup = none)
    (h : (force || rotationNecessary r a now) = true) :
    mountNextCoreT s a r force now =
      rotTailT s { a with stamp := now } (collisionFree s.dir now) now := by
  unfold mountNextCoreT
  simp only [h, hn]
  simp [rotTailT, flushAct, cleanupT, hc]

theorem rotTailT_spec (s : St) (a : Active) (i : Infix) (now : Nat) :
    (rotTailT s a i now).1 = (rotTail s a i now).1 ∧
    (rotTailT s a i now).2.1 = (rotTail s a i now).2.1 ∧
    ∀ p ∈ (rotTailT s a i now).2.2, p.dir = s.dir ∨
      p.dir = (openFile s ⟨some i, false⟩ now noFaults 0).1.dir ∨
      p.dir = (rotTail s a i now).1.dir := by
  obtain ⟨h1, h2⟩ := openFileT_spec s ⟨some i, false⟩ now
  refine ⟨?_, ?_, ?_⟩
  · simp only [rotTailT, rotTail, h1]
  · simp only [rotTailT, rotTail, h1]
  · intro p hp
    simp only [rotTailT, List.mem_append, List.mem_cons, List.not_mem_nil, or_false] at hp
    rcases hp with (rfl | hp) | rfl | rfl
    · exact Or.inl rfl
    · rcases h2 p hp with h | h
      · exact Or.inl h
      · exact Or.inr (Or.inl h)
    · exact Or.inr (Or.inl (by simp only [pt, h1]))
    · exact Or.inr (Or.inr (by simp only [pt, rotTail, h1]))

theorem openFileT_cfg (s : St) (n : FName) (now : Nat) : (openFileT s n now).1.cfg = s.cfg := by
  rw [(openFileT_spec s n now).1]; exact openFile_cfg _ _ _ _ _

theorem initStateT_B (s : St) (r : RotCfg) (now : Nat) (hrot : s.cfg.rot = some r)
    (hB : r.naming = .numbersDirect ∨ r.naming = .timestampsDirect) (hc : r.cleanup = none) :
    initStateT s now =
      (let n : FName := ⟨some (initPre s r.naming now).1, false⟩
       let s1 := (openFileT s n now).1
       ({ s1 with act := some ⟨n, n, [], false, (initPre s r.naming now).2.1,
            (initPre s r.naming now).2.2,
            if s.cfg.append = true then fileLen s1.dir n else 0, createdOr s1.dir n now⟩ },
        (openFileT s n now).2)) := by
  unfold initStateT
  rcases hB with hnm | hnm
  · simp only [hrot, hnm, initPre]
    cases hh : highestIndex s.dir with
    | none =>
      simp [cleanupT, hc, openFileT_cfg]
    | some h =>
      cases happ : s.cfg.append with
      | false =>
        simp [cleanupT, hc, openFileT_cfg, happ]
      | true =>
        simp [cleanupT, hc, openFileT_cfg, happ]
  · simp only [hrot, hnm, initPre]
    cases happ : s.cfg.append with
    | false =>
      simp [cleanupT, hc, openFileT_cfg, happ]
    | true =>
      simp [cleanupT, hc, openFileT_cfg, happ]

theorem initStateT_spec (s : St) (r : RotCfg) (now : Nat) (hrot : s.cfg.rot = some r)
    (hB : r.naming = .numbersDirect ∨ r.naming = .timestampsDirect) (hc : r.cleanup = none) :
    (initStateT s now).1 = (initState s now noFaults).1 ∧
    ∀ p ∈ (initStateT s now).2, p.dir = s.dir ∨ p.dir = (initState s now noFaults).1.dir := by
  rw [initStateT_B s r now hrot hB hc, initState_B s r now hrot hB hc]
  obtain ⟨h1, h2⟩ := openFileT_spec s ⟨some (initPre s r.naming now).1, false⟩ now
  refine ⟨by simp only [h1], ?_⟩
  intro p hp
  exact h2 p hp

/-! ### described directories -/

/-- the unmounted case of `Inv2`: a directory of plain rotated-style files with pairwise
    different keys whose content in key order is `W`, the newest name having the shape of the
    naming (for timestamps: a stamp `≤ lo`) -/
def Described (nm : Naming) (lo : Nat) (d : List (FName × File)) (W : List Nat) : Prop :=
  ∃ L, DirIs d L ∧ (L.map (·.2.data)).flatten = W ∧ LastShape nm lo L

theorem Described.readAll {nm : Naming} {lo : Nat} {d : List (FName × File)} {W : List Nat}
    (h : Described nm lo d W) : readAll d = W := by
  obtain ⟨L, hd, hW, _⟩ := h
  have h1 := parts_flatten d
  rw [parts_eq hd, hW] at h1
  exact h1.symm

theorem Described.mono {nm : Naming} {lo lo' : Nat} {d : List (FName × File)} {W : List Nat}
    (h : Described nm lo d W) (hle : lo ≤ lo') : Described nm lo' d W := by
  obtain ⟨L, hd, hW, hL⟩ := h
  exact ⟨L, hd, hW, fun pre e he => (hL pre e he).mono hle⟩

theorem described_of_actInv {cap : Option Nat} {d : List (FName × File)} {act : Active} {a : Abs}
    {nm : Naming} {lo : Nat} (hA : ActInv cap d act a) (hp : act.pending = [])
    (hN : NamingInv nm lo act) : Described nm lo d ((a.closed ++ [a.cur]).flatten) := by
  obtain ⟨pre, f, hd, hpre, hcur⟩ := hA.dir
  refine ⟨_, hd, ?_, lastShape_of_handle hN.shape⟩
  rw [hp] at hcur
  simp only [List.append_nil] at hcur
  rw [← hpre, ← hcur]
  simp

/-- the directory between the creation of the new file and the next write to it -/
theorem described_after_open {cap : Option Nat} (s : St) {act : Active} {a : Abs}
    {nm : Naming} {lo : Nat} (i : Infix) (now : Nat) (hA : ActInv cap s.dir act a)
    (hp : act.pending = []) (hi : i.rotated = true)
    (hk : keyLt (nkey act.handle) i.key = true) (hS : Shape nm lo ⟨some i, false⟩) :
    Described nm lo (openFile s ⟨some i, false⟩ now noFaults 0).1.dir
      ((a.closed ++ [a.cur]).flatten) := by
  obtain ⟨pre, f, hd, hpre, hcur⟩ := hA.dir
  have hall := hd.above_all (key := i.key) hk
  have hget : s.dir.get ⟨some i, false⟩ = none :=
    hd.get_none _ (ne_of_keyLt (n := ⟨some i, false⟩) hall)
  rw [(openFile_new s ⟨some i, false⟩ now hget).2.2.2]
  refine ⟨_, hd.set_new ⟨some i, false⟩ ⟨[], now⟩ ⟨i, rfl, hi⟩ hall, ?_, lastShape_of_handle hS⟩
  rw [hp] at hcur
  simp only [List.append_nil] at hcur
  rw [← hpre, ← hcur]
  simp

theorem mountNextCoreT_points (s : St) (act : Active) (a : Abs) (r : RotCfg) (force : Bool)
    (now lo : Nat) (hB : r.naming = .numbersDirect ∨ r.naming = .timestampsDirect)
    (hc : r.cleanup = none) (hA : ActInv s.cfg.cap s.dir act a) (hN : NamingInv r.naming lo act)
    (hlo : lo ≤ now) (hp : act.pending = []) :
    (mountNextCoreT s act r force now).1 = (mountNextCore s act r force now noFaults).1 ∧
    (mountNextCoreT s act r force now).2.1 = (mountNextCore s act r force now noFaults).2.1 ∧
    (mountNextCore s act r force now noFaults).2.1.pending = [] ∧
    ∀ p ∈ (mountNextCoreT s act r force now).2.2,
      Described r.naming now p.dir ((a.closed ++ [a.cur]).flatten) := by
  have hnec := rotationNecessary_eq r act a now hA.size hA.created
  have hbefore : Described r.naming now s.dir ((a.closed ++ [a.cur]).flatten) :=
    (described_of_actInv hA hp hN).mono hlo
  obtain ⟨m1, _, m3, m4⟩ := mountNextCore_inv s act a r force now lo hB hc hA hN hlo
  by_cases hrot : (force || rotationNecessary r act now) = true
  · -- the common part once the equations are known
    have key : ∀ (act' : Active) (i : Infix), act'.handle = act.handle → act'.pending = [] →
        ActInv s.cfg.cap s.dir act' a →
        mountNextCore s act r force now noFaults = rotTail s act' i now →
        mountNextCoreT s act r force now = rotTailT s act' i now →
        i.rotated = true → keyLt (nkey act.handle) i.key = true →
        Shape r.naming now ⟨some i, false⟩ →
        (mountNextCoreT s act r force now).1 = (mountNextCore s act r force now noFaults).1 ∧
        (mountNextCoreT s act r force now).2.1 = (mountNextCore s act r force now noFaults).2.1 ∧
        (mountNextCore s act r force now noFaults).2.1.pending = [] ∧
        ∀ p ∈ (mountNextCoreT s act r force now).2.2,
          Described r.naming now p.dir ((a.closed ++ [a.cur]).flatten) := by
      intro act' i hh hp' hA' e1 e2 hi hk hS
      obtain ⟨t1, t2, t3⟩ := rotTailT_spec s act' i now
      have hfin : Described r.naming now (rotTail s act' i now).1.dir
          ((a.closed ++ [a.cur]).flatten) := by
        have := described_of_actInv m3 (by rw [e1]; rfl) m4
        rw [e1] at this
        rw [hnec] at hrot
        simpa [hrot, Abs.rotate] using this
      refine ⟨by rw [e1, e2, t1], by rw [e1, e2, t2], by rw [e1]; rfl, ?_⟩
      intro p hp
      rw [e2] at hp
      rcases t3 p hp with h | h | h
      · rw [h]; exact hbefore
      · rw [h]; exact described_after_open s i now hA' hp' hi (by rw [hh]; exact hk) hS
      · rw [h]; exact hfin
    rcases hB with hnm | hnm
    · have hN' := hN
      rw [hnm] at hN'
      simp only [NamingInv] at hN'
      refine key { act with idx := act.idx + 1 } (.num (act.idx + 1)) rfl hp
        ⟨hA.started, hA.dir, hA.unbuf, hA.direct, hA.size, hA.created⟩
        (mountNextCore_nD s act r force now hnm hc hrot) (mountNextCoreT_nD s act r force now hnm hc hrot)
        rfl (by rw [hN']; simp [nkey, Infix.key, keyLt]) (by rw [hnm]; exact ⟨_, rfl⟩)
    · have hN' := hN
      rw [hnm] at hN'
      obtain ⟨k, r0, hh0, hk⟩ := hN'
      obtain ⟨pre, f, hd, _, _⟩ := hA.dir
      obtain ⟨r', hcf, hkey⟩ := collisionFree_key hd now k r0 f
        (by rw [← hh0]; simp) (Nat.le_trans hk hlo)
      refine key { act with stamp := now } (.ts now r') rfl hp
        ⟨hA.started, hA.dir, hA.unbuf, hA.direct, hA.size, hA.created⟩
        (by rw [mountNextCore_tD s act r force now hnm hc hrot, hcf])
        (by rw [mountNextCoreT_tD s act r force now hnm hc hrot, hcf])
        rfl (by rw [hh0]; exact hkey) (by rw [hnm]; exact ⟨now, r', rfl, Nat.le_refl _⟩)
  · have hrot' : (force || rotationNecessary r act now) = false := by simpa using hrot
    rw [mountNextCoreT_skip s act r force now hrot', mountNextCore_skip s act r force now noFaults hrot']
    exact ⟨rfl, rfl, hp, fun p hp => by cases hp⟩

theorem mountNextT_points (s : St) (act : Active) (a : Abs) (r : RotCfg) (force : Bool)
    (now lo : Nat) (hB : r.naming = .numbersDirect ∨ r.naming = .timestampsDirect)
    (hc : r.cleanup = none) (hA : ActInv s.cfg.cap s.dir act a) (hN : NamingInv r.naming lo act)
    (hlo : lo ≤ now) (hp : act.pending = []) :
    (mountNextT s act r force now).1 = (mountNext s act r force now noFaults).1 ∧
    (mountNextT s act r force now).2.1 = (mountNext s act r force now noFaults).2.1 ∧
    (mountNext s act r force now noFaults).2.1.pending = [] ∧
    ∀ p ∈ (mountNextT s act r force now).2.2,
      Described r.naming now p.dir ((a.closed ++ [a.cur]).flatten) := by
  by_cases hrot : (force || rotationNecessary r act now) = true
  · rw [mountNextT_due s act r force now hrot, mountNext_due s act r force now noFaults hrot]
    obtain ⟨f1, f2, f3, f4⟩ := flushAct_inv s act a hA
    exact mountNextCoreT_points (flushAct s act).1 (flushAct s act).2 a r true now lo hB hc
      (by rw [f1]; exact f4) (hN.congr f2 f3) hlo rfl
  · have hrot' : (force || rotationNecessary r act now) = false := by simpa using hrot
    rw [mountNextT_skip s act r force now hrot', mountNext_skip s act r force now noFaults hrot']
    exact ⟨rfl, rfl, hp, fun p hp => by cases hp⟩

/-! ### the points of a write and of a forced rotation -/

theorem writeBufferT_some (s : St) (act : Active) (r : RotCfg) (b : List Nat) (now : Nat)
    (hact : s.act = some act) (hrot : s.cfg.rot = some r) :
    writeBufferT s b now =
      (let m := mountNextT s act r false now
       let w := writeRaw m.1 m.2.1 b
       let fin : St := { w.1 with act := some { w.2 with size := w.2.size + b.length } }
       (fin, m.2.2 ++ [pt "write.before" m.1, pt "write.after" fin])) := by
  unfold writeBufferT
  simp only [hact, hrot, List.nil_append]

theorem writeBufferT_none (s : St) (a0 : Active) (b : List Nat) (now : Nat)
    (hact : s.act = none) (h0 : (initStateT s now).1.act = some a0) :
    writeBufferT s b now =
      ((writeBufferT (initStateT s now).1 b now).1,
       (initStateT s now).2 ++ (writeBufferT (initStateT s now).1 b now).2) := by
  generalize hp : initStateT s now = p at *
  obtain ⟨s0, tr0⟩ := p
  simp only at h0
  conv => lhs; unfold writeBufferT
  simp only [hact, hp, h0]
  conv => rhs; unfold writeBufferT
  simp only [h0, List.nil_append, List.append_assoc]

/-- what the points of a write look like: all but the last one see `W`, the last one
    (`write.after`) sees `W ++ b` -/
def WritePoints (nm : Naming) (now : Nat) (W b : List Nat) (tr : List Pt) : Prop :=
  ∃ tr0 p1 p2, tr = tr0 ++ [p1, p2] ∧ (∀ p ∈ tr0, Described nm now p.dir W) ∧
    p1.name = "write.before" ∧ Described nm now p1.dir W ∧
    p2.name = "write.after" ∧ Described nm now p2.dir (W ++ b)

theorem write_points_some {r : RotCfg}
    (hB : r.naming = .numbersDirect ∨ r.naming = .timestampsDirect) (hc : r.cleanup = none)
    (s : St) (act : Active) (a : Abs) (lo : Nat) (b : List Nat) (now : Nat)
    (hrot : s.cfg.rot = some r) (hact : s.act = some act) (hcap : s.cfg.cap = none)
    (hA : ActInv s.cfg.cap s.dir act a) (hN : NamingInv r.naming lo act) (hlo : lo ≤ now) :
    WritePoints r.naming now ((a.closed ++ [a.cur]).flatten) b (writeBufferT s b now).2 := by
  have hp : act.pending = [] := hA.direct hcap
  obtain ⟨t1, t2, t3, t4⟩ := mountNextT_points s act a r false now lo hB hc hA hN hlo hp
  obtain ⟨m1, _, m3, m4⟩ := mountNext_inv s act a r false now lo hB hc hA hN hlo
  rw [writeBufferT_some s act r b now hact hrot]
  simp only
  rw [t1, t2]
  have hW1 : ((if (false || absNecessary r a now) = true then a.rotate now else a).closed ++
      [(if (false || absNecessary r a now) = true then a.rotate now else a).cur]).flatten =
      (a.closed ++ [a.cur]).flatten := by
    split <;> simp [Abs.rotate]
  refine ⟨_, _, _, rfl, t4, rfl, ?_, rfl, ?_⟩
  · have := described_of_actInv m3 t3 m4
    rw [hW1] at this
    exact this
  · rw [← m1] at m3
    obtain ⟨w1, w2, w3, w4⟩ := writeRaw_inv _ _ _ b m3
    have hcap' : (mountNext s act r false now noFaults).1.cfg.cap = none := by rw [m1]; exact hcap
    have := described_of_actInv w4 (w4.direct hcap') (NamingInv.congr m4 w2 w3)
    simp only [pt]
    have hW2 : ((if (false || absNecessary r a now) = true then a.rotate now else a).closed ++
        [(if (false || absNecessary r a now) = true then a.rotate now else a).cur ++ b]).flatten =
        (a.closed ++ [a.cur]).flatten ++ b := by
      split <;> simp [Abs.rotate]
    rw [hW2] at this
    exact this

theorem write_points {r : RotCfg}
    (hB : r.naming = .numbersDirect ∨ r.naming = .timestampsDirect) (hc : r.cleanup = none)
    (s : St) (W : List Nat) (lo : Nat) (b : List Nat) (now : Nat) (hI : Inv2 r lo s W)
    (hcap : s.cfg.cap = none) (hlo : lo ≤ now) :
    WritePoints r.naming now W b (stepT s (.write b) now).2 := by
  obtain ⟨hrot, hI⟩ := hI
  simp only [stepT]
  cases hact : s.act with
  | some act =>
    rw [hact] at hI
    obtain ⟨a, hA, hN, hW⟩ := hI
    rw [← hW]
    exact write_points_some hB hc s act a lo b now hrot hact hcap hA hN hlo
  | none =>
    rw [hact] at hI
    obtain ⟨L, hd, hW, hL⟩ := hI
    obtain ⟨s0, act0, a0, i1, i2, i3, _, i4, i5, i6, _⟩ :=
      init_inv2 s r now lo W L hrot hB hc hd hW hL hlo
    obtain ⟨e1, e2⟩ := initStateT_spec s r now hrot hB hc
    have j2 : (initState s now noFaults).1 = s0 := by rw [i1]
    rw [j2] at e1 e2
    rw [writeBufferT_none s act0 b now hact (by rw [e1]; exact i3), e1]
    rw [← i2] at i4
    obtain ⟨tr0, p1, p2, h1, h2, h3, h4, h5, h6⟩ :=
      write_points_some hB hc s0 act0 a0 now b now (by rw [i2]; exact hrot) i3
        (by rw [i2]; exact hcap) i4 i5 (Nat.le_refl _)
    rw [i6] at h2 h4 h6
    refine ⟨(initStateT s now).2 ++ tr0, p1, p2, by simp only [h1, List.append_assoc], ?_,
      h3, h4, h5, h6⟩
    intro p hp
    rcases List.mem_append.1 hp with hp | hp
    · rcases e2 p hp with h | h
      · rw [h]; exact ⟨L, hd, hW, fun pre e he => (hL pre e he).mono hlo⟩
      · rw [h]
        have := described_of_actInv i4 (i4.direct (by rw [i2]; exact hcap)) i5
        rw [i6] at this
        exact this
    · exact h2 p hp

theorem rotate_points {r : RotCfg}
    (hB : r.naming = .numbersDirect ∨ r.naming = .timestampsDirect) (hc : r.cleanup = none)
    (s : St) (W : List Nat) (lo : Nat) (now : Nat) (hI : Inv2 r lo s W)
    (hcap : s.cfg.cap = none) (hlo : lo ≤ now) :
    ∀ p ∈ (stepT s .rotate now).2, Described r.naming now p.dir W := by
  obtain ⟨hrot, hI⟩ := hI
  simp only [stepT]
  cases hact : s.act with
  | some act =>
    rw [hact] at hI
    obtain ⟨a, hA, hN, hW⟩ := hI
    simp only [hrot]
    rw [← hW]
    exact (mountNextT_points s act a r true now lo hB hc hA hN hlo (hA.direct hcap)).2.2.2
  | none => intro p hp; cases hp

/-! ### plain histories: configuration, activity, the guard -/

theorem mountNext_form (s : St) (act : Active) (r : RotCfg) (force : Bool) (now : Nat)
    (hB : r.naming = .numbersDirect ∨ r.naming = .timestampsDirect) (hc : r.cleanup = none) :
    ∃ s1 a1, mountNext s act r force now noFaults = (s1, a1, false) ∧ s1.cfg = s.cfg := by
  rcases mountNext_cases s act r force now hB hc with h | ⟨_, h⟩ | ⟨_, h⟩
  · exact ⟨s, act, h, rfl⟩
  · exact ⟨_, _, h, openFile_cfg _ _ _ _ _⟩
  · exact ⟨_, _, h, openFile_cfg _ _ _ _ _⟩

theorem writeBuffer_some_act (s : St) (act : Active) (r : RotCfg) (b : List Nat) (now : Nat)
    (hB : r.naming = .numbersDirect ∨ r.naming = .timestampsDirect) (hc : r.cleanup = none)
    (hrot : s.cfg.rot = some r) (hact : s.act = some act) :
    (writeBuffer s b now noFaults).1.cfg = s.cfg ∧
    (writeBuffer s b now noFaults).1.act.isSome = true := by
  obtain ⟨s1, a1, hm, hcfg⟩ := mountNext_form s act r false now hB hc
  rw [writeBuffer_some s s1 act a1 r b now hact hrot hm]
  exact ⟨by simp only [writeRaw_cfg, hcfg], rfl⟩

theorem step_plain_act {r : RotCfg}
    (hB : r.naming = .numbersDirect ∨ r.naming = .timestampsDirect) (hc : r.cleanup = none)
    (s : St) (op : Op) (now : Nat) (hrot : s.cfg.rot = some r) (hp : op.plain = true) :
    (step s op now noFaults).1.cfg = s.cfg ∧
    (s.act = none → (∀ b, op ≠ .write b) → (step s op now noFaults).1 = s) ∧
    ((s.act.isSome = true ∨ ∃ b, op = .write b) → (step s op now noFaults).1.act.isSome = true) := by
  cases op with
  | write b =>
    simp only [step]
    cases hact : s.act with
    | some act =>
      obtain ⟨w1, w2⟩ := writeBuffer_some_act s act r b now hB hc hrot hact
      exact ⟨w1, fun h => (by cases h), fun _ => w2⟩
    | none =>
      obtain ⟨i1, i2, ⟨act0, i3⟩, _⟩ := initState_ext s r now hrot hB hc
      rw [writeBuffer_none s act0 b now noFaults hact i1 i3]
      obtain ⟨w1, w2⟩ := writeBuffer_some_act _ act0 r b now hB hc (by rw [i2]; exact hrot) i3
      exact ⟨by rw [w1, i2], fun _ h => absurd rfl (h b), fun _ => w2⟩
  | rotate =>
    simp only [step]
    cases hact : s.act with
    | some act =>
      simp only [hrot]
      obtain ⟨s1, a1, hm, hcfg⟩ := mountNext_form s act r true now hB hc
      rw [hm]
      exact ⟨hcfg, fun h => (by cases h), fun _ => rfl⟩
    | none => exact ⟨rfl, fun _ _ => rfl, fun h => (by simp at h)⟩
  | flush =>
    simp only [step]
    cases hact : s.act with
    | some act => exact ⟨rfl, fun h => (by cases h), fun _ => rfl⟩
    | none => exact ⟨rfl, fun _ _ => rfl, fun h => (by simp at h)⟩
  | shutdown =>
    simp only [step]
    cases hact : s.act with
    | some act => exact ⟨rfl, fun h => (by cases h), fun _ => rfl⟩
    | none => exact ⟨rfl, fun _ _ => rfl, fun h => (by simp at h)⟩
  | restart _ => simp [Op.plain] at hp
  | reset _ => simp [Op.plain] at hp
  | extRename => simp [Op.plain] at hp
  | extRemove => simp [Op.plain] at hp
  | reopen => simp [Op.plain] at hp

theorem run_plain_cfg {r : RotCfg}
    (hB : r.naming = .numbersDirect ∨ r.naming = .timestampsDirect) (hc : r.cleanup = none) :
    ∀ (ops : List (Op × Nat × Faults)) (s : St), s.cfg.rot = some r →
      (∀ o ∈ ops, o.1.plain = true ∧ o.2.2 = noFaults) →
      (runOps s ops).cfg = s.cfg ∧
      (s.act.isSome = true → (runOps s ops).act.isSome = true) := by
  intro ops
  induction ops with
  | nil => intro s _ _; exact ⟨rfl, id⟩
  | cons o ops ih =>
    intro s hrot hp
    obtain ⟨hp1, hp2⟩ := hp o (by simp)
    have e1 : runOps s (o :: ops) = runOps (step s o.1 o.2.1 noFaults).1 ops := by
      rw [← hp2]; rfl
    obtain ⟨x1, _, x3⟩ := step_plain_act hB hc s o.1 o.2.1 hrot hp1
    obtain ⟨y1, y2⟩ := ih (step s o.1 o.2.1 noFaults).1 (by rw [x1]; exact hrot)
      (fun o' ho' => hp o' (by simp [ho']))
    rw [e1]
    exact ⟨by rw [y1, x1], fun h => y2 (x3 (Or.inl h))⟩

/-- as long as a plain history leaves the writer inactive nothing has happened -/
theorem runOps_inactive {r : RotCfg}
    (hB : r.naming = .numbersDirect ∨ r.naming = .timestampsDirect) (hc : r.cleanup = none) :
    ∀ (pre : List (Op × Nat × Faults)) (s : St), s.cfg.rot = some r → s.act = none →
      (∀ o ∈ pre, o.1.plain = true ∧ o.2.2 = noFaults) →
      (runOps s pre).act = none → runOps s pre = s := by
  intro pre
  induction pre with
  | nil => intro s _ _ _ _; rfl
  | cons o pre ih =>
    intro s hrot hact hp hn
    obtain ⟨hp1, hp2⟩ := hp o (by simp)
    have e1 : runOps s (o :: pre) = runOps (step s o.1 o.2.1 noFaults).1 pre := by
      rw [← hp2]; rfl
    obtain ⟨x1, x2, x3⟩ := step_plain_act hB hc s o.1 o.2.1 hrot hp1
    rw [e1] at hn ⊢
    by_cases hw : ∃ b, o.1 = .write b
    · exfalso
      have := (run_plain_cfg hB hc pre _ (by rw [x1]; exact hrot)
        (fun o' ho' => hp o' (by simp [ho']))).2 (x3 (Or.inr hw))
      rw [hn] at this
      simp at this
    · have hs : (step s o.1 o.2.1 noFaults).1 = s :=
        x2 hact (fun b hb => hw ⟨b, hb⟩)
      rw [hs] at hn ⊢
      exact ih s hrot hact (fun o' ho' => hp o' (by simp [ho'])) hn

theorem flushed_plain : ∀ (ops : List (Op × Nat × Faults)), (∀ o ∈ ops, o.1.plain = true) →
    flushedBeforeRestart ops = true
  | [], _ => rfl
  | [_], _ => rfl
  | x :: y :: rest, h => by
    have hy : isRestart y.1 = false := by
      have := h y (by simp)
      cases hy : y.1 <;> simp_all [Op.plain, isRestart]
    simp only [flushedBeforeRestart, hy, Bool.not_false, Bool.true_or, Bool.true_and]
    exact flushed_plain (y :: rest) (fun o ho => h o (by simp [ho]))

theorem plain_to_multi {r : RotCfg} {ops : List (Op × Nat × Faults)}
    (hp : ∀ o ∈ ops, o.1.plain = true ∧ o.2.2 = noFaults) :
    ∀ o ∈ ops, (o.1.plain = true ∨ ∃ c, o.1 = .restart c ∧ c.rot = some r) ∧ o.2.2 = noFaults :=
  fun o ho => ⟨Or.inl (hp o ho).1, (hp o ho).2⟩

theorem not_restart_of_plain {op : Op} (h : op.plain = true) : isRestart op = false := by
  cases op <;> simp_all [Op.plain, isRestart]

/-! ### `run_inv2` with a bound on the clock witness -/

theorem run_inv2_bound {r : RotCfg}
    (hB : r.naming = .numbersDirect ∨ r.naming = .timestampsDirect) (hc : r.cleanup = none)
    (B : Nat) :
    ∀ (ops : List (Op × Nat × Faults)) (lo : Nat) (s : St) (W : List Nat), Inv2 r lo s W →
      (∀ o ∈ ops, (o.1.plain = true ∨ ∃ c, o.1 = .restart c ∧ c.rot = some r) ∧ o.2.2 = noFaults) →
      (∀ o ∈ ops, o.1.usesClock = true → lo ≤ o.2.1) → Monotone ops →
      flushedBeforeRestart ops = true →
      (∀ o rest, ops = o :: rest → isRestart o.1 = true → Quiet s) →
      lo ≤ B → (∀ o ∈ ops, o.1.usesClock = true → o.2.1 ≤ B) →
      ∃ lo', lo' ≤ B ∧ Inv2 r lo' (runOps s ops) (W ++ written ops) := by
  intro ops
  induction ops with
  | nil =>
    intro lo s W hI _ _ _ _ _ hb _
    exact ⟨lo, hb, by simpa [written, records, runOps] using hI⟩
  | cons o ops ih =>
    intro lo s W hI hp hlo hm hf hq hb hB'
    obtain ⟨hm1, hm2⟩ := monotone_tail hm
    obtain ⟨hp1, hp2⟩ := hp o (by simp)
    have hstep := step_inv2 hB hc s W lo o.1 o.2.1 hI hp1 (hlo o (by simp)) (hq o ops rfl)
    have e1 : runOps s (o :: ops) = runOps (step s o.1 o.2.1 noFaults).1 ops := by
      rw [← hp2]; rfl
    rw [e1, written_cons, ← List.append_assoc]
    refine ih _ _ _ hstep.1 (fun o' ho' => hp o' (by simp [ho'])) ?_ hm1 ?_ ?_ ?_
      (fun o' ho' => hB' o' (by simp [ho']))
    · intro o' ho' hu'
      by_cases hu : o.1.usesClock = true
      · rw [if_pos hu]; exact hm2 hu o' ho' hu'
      · rw [if_neg hu]; exact hlo o' (by simp [ho']) hu'
    · cases ops with
      | nil => rfl
      | cons o2 rest =>
        simp only [flushedBeforeRestart, Bool.and_eq_true] at hf
        exact hf.2
    · intro o2 rest hops hr
      subst hops
      simp only [flushedBeforeRestart, Bool.and_eq_true, Bool.or_eq_true, Bool.not_eq_true'] at hf
      rcases hf.1 with h | h
      · rw [hr] at h; cases h
      · exact hstep.2 h
    · by_cases hu : o.1.usesClock = true
      · rw [if_pos hu]; exact hB' o (by simp) hu
      · rw [if_neg hu]; exact hb

/-! ### the state before the victim operation -/

theorem state_before_B (cfg : Cfg) (hc : CfgMB cfg) (r : RotCfg) (hrot : cfg.rot = some r)
    (ops : List (Op × Nat × Faults)) (o : Op × Nat × Faults) (hp : PlainHistory (ops ++ [o]))
    (hu : o.1.usesClock = true) :
    ∃ lo, lo ≤ o.2.1 ∧ Inv2 r lo (runOps (init cfg []) ops) (written ops) ∧
      (runOps (init cfg []) ops).cfg = cfg ∧
      ((runOps (init cfg []) ops).act = none → runOps (init cfg []) ops = init cfg []) := by
  obtain ⟨hcl, r', hrot', hB⟩ := hc
  rw [hrot] at hrot'; cases hrot'
  have hcl' := hcl r hrot
  obtain ⟨hpl, hmono⟩ := hp
  have hpl' : ∀ o' ∈ ops, o'.1.plain = true ∧ o'.2.2 = noFaults :=
    fun o' ho' => hpl o' (by simp [ho'])
  have hbound : ∀ o' ∈ ops, o'.1.usesClock = true → o'.2.1 ≤ o.2.1 := by
    intro o' ho' hu'
    unfold Monotone at hmono
    rw [List.filter_append, List.map_append, List.pairwise_append] at hmono
    refine hmono.2.2 _ (List.mem_map.2 ⟨o', List.mem_filter.2 ⟨ho', by simpa using hu'⟩, rfl⟩) _ ?_
    simp [hu]
  obtain ⟨lo, h1, h2⟩ := run_inv2_bound hB hcl' o.2.1 ops 0 (init cfg []) []
    (inv2_init cfg r hrot) (plain_to_multi hpl') (fun _ _ _ => Nat.zero_le _)
    (monotone_prefix hmono) (flushed_plain ops (fun o' ho' => (hpl' o' ho').1))
    (fun o' rest hops hr => by
      have := not_restart_of_plain (hpl' o' (by rw [hops]; simp)).1
      rw [hr] at this; cases this)
    (Nat.zero_le _) hbound
  refine ⟨lo, h1, by simpa using h2, (run_plain_cfg hB hcl' ops (init cfg []) hrot hpl').1, ?_⟩
  exact runOps_inactive hB hcl' ops (init cfg []) hrot rfl hpl'

/-! ### C11 -/

/-- **The crash directories are described directories.** Every recorded point of the victim
    operation (a write in direct mode, or a forced rotation) sees a directory of the shape of
    the unmounted case of `Inv2`: plain rotated-style files with pairwise different keys, the
    newest name of the naming's shape with a stamp `≤ now`, whose content in reading order is
    `written ops` (the directory before the operation, or that directory plus the new *empty*
    file with a key above all others) or `written ops ++ b` (the final directory of a write). -/
theorem crash_dirs_described_B (cfg : Cfg) (hc : CfgMB cfg) (hcap : cfg.cap = none) (r : RotCfg)
    (hrot : cfg.rot = some r) (ops : List (Op × Nat × Faults)) (op : Op) (now : Nat)
    (hop : (∃ b, op = .write b) ∨ op = .rotate)
    (hp : PlainHistory (ops ++ [(op, now, noFaults)])) :
    ∀ p ∈ (stepT (runOps (init cfg []) ops) op now).2,
      Described r.naming now p.dir (written ops) ∨
      Described r.naming now p.dir (written ops ++ opBytes op) := by
  have hu : op.usesClock = true := by
    rcases hop with ⟨b, rfl⟩ | rfl <;> rfl
  obtain ⟨lo, h1, h2, h3, h4⟩ := state_before_B cfg hc r hrot ops (op, now, noFaults) hp hu
  obtain ⟨hcl, r', hrot', hB⟩ := hc
  rw [hrot] at hrot'; cases hrot'
  have hcap' : (runOps (init cfg []) ops).cfg.cap = none := by rw [h3]; exact hcap
  rcases hop with ⟨b, rfl⟩ | rfl
  · obtain ⟨tr0, p1, p2, e, q0, _, q1, _, q2⟩ :=
      write_points hB (hcl r hrot) _ (written ops) lo b now h2 hcap' h1
    intro p hp
    rw [e] at hp
    simp only [List.mem_append, List.mem_cons, List.not_mem_nil, or_false] at hp
    rcases hp with hp | rfl | rfl
    · exact Or.inl (q0 p hp)
    · exact Or.inl q1
    · exact Or.inr q2
  · intro p hp
    exact Or.inl (rotate_points hB (hcl r hrot) _ (written ops) lo now h2 hcap' h1 p hp)

/-- **Crash safety in direct mode.** Whatever point of the victim write a kill hits, every
    acknowledged record is on disk, at most the in-flight record in addition, nothing is
    reordered; every point but the last sees exactly the acknowledged records; the last point is
    `write.after` and sees the in-flight record too. (Stated for any `cfg.append`; the first
    logger starts on the empty directory.) -/
theorem crash_safe_B (cfg : Cfg) (hc : CfgMB cfg) (hcap : cfg.cap = none)
    (ops : List (Op × Nat × Faults)) (b : List Nat) (now : Nat)
    (hp : PlainHistory (ops ++ [(.write b, now, noFaults)])) :
    (∀ p ∈ (stepT (runOps (init cfg []) ops) (.write b) now).2,
      readAll p.dir = written ops ∨ readAll p.dir = written ops ++ b) ∧
    ∃ tr0 p1 p2, (stepT (runOps (init cfg []) ops) (.write b) now).2 = tr0 ++ [p1, p2] ∧
      (∀ p ∈ tr0, readAll p.dir = written ops) ∧
      p1.name = "write.before" ∧ readAll p1.dir = written ops ∧
      p2.name = "write.after" ∧ readAll p2.dir = written ops ++ b := by
  obtain ⟨lo, h1, h2, h3, h4⟩ :=
    state_before_B cfg hc _ hc.2.choose_spec.1 ops (.write b, now, noFaults) hp rfl
  have hcap' : (runOps (init cfg []) ops).cfg.cap = none := by rw [h3]; exact hcap
  obtain ⟨tr0, p1, p2, e, q0, n1, q1, n2, q2⟩ :=
    write_points hc.2.choose_spec.2 (hc.1 _ hc.2.choose_spec.1) _ (written ops) lo b now h2 hcap' h1
  refine ⟨?_, tr0, p1, p2, e, fun p hp => (q0 p hp).readAll, n1, q1.readAll, n2, q2.readAll⟩
  intro p hp
  rw [e] at hp
  simp only [List.mem_append, List.mem_cons, List.not_mem_nil, or_false] at hp
  rcases hp with hp | rfl | rfl
  · exact Or.inl (q0 p hp).readAll
  · exact Or.inl q1.readAll
  · exact Or.inr q2.readAll

/-- a forced rotation: every point sees exactly the acknowledged records -/
theorem crash_safe_B_rotate (cfg : Cfg) (hc : CfgMB cfg) (hcap : cfg.cap = none)
    (ops : List (Op × Nat × Faults)) (now : Nat)
    (hp : PlainHistory (ops ++ [(.rotate, now, noFaults)])) :
    ∀ p ∈ (stepT (runOps (init cfg []) ops) .rotate now).2, readAll p.dir = written ops := by
  intro p hpm
  rcases crash_dirs_described_B cfg hc hcap _ hc.2.choose_spec.1 ops .rotate now (Or.inr rfl) hp
    p hpm with h | h
  · exact h.readAll
  · simpa [opBytes] using h.readAll

theorem crashDir_mem {s : St} {op : Op} {now : Nat} {name : String} {occ : Nat} {p : Pt}
    (h : crashDir s op now name occ = some p) : p ∈ (stepT s op now).2 := by
  unfold crashDir at h
  exact (List.mem_filter.1 (List.mem_of_getElem? h)).1

/-- a new logger on a described directory continues the stream -/
theorem restart_described {r : RotCfg}
    (hB : r.naming = .numbersDirect ∨ r.naming = .timestampsDirect) (hc : r.cleanup = none)
    (d : Dir) (W : List Nat) (now : Nat) (hD : Described r.naming now d W) (c : Cfg)
    (hcrot : c.rot = some r)
    (ops2 : List (Op × Nat × Faults)) (hp2 : PlainHistory ops2)
    (hclk : ∀ o ∈ ops2, o.1.usesClock = true → now ≤ o.2.1) :
    (viewFiles (runOps (init c d) ops2)).flatten = W ++ written ops2 := by
  have hI : Inv2 r now (init c d) W := ⟨hcrot, hD⟩
  obtain ⟨lo', hI'⟩ := run_inv2 hB hc ops2 now (init c d) W hI (plain_to_multi hp2.1) hclk hp2.2
    (flushed_plain ops2 (fun o ho => (hp2.1 o ho).1))
    (fun o' rest hops hr => by
      have := not_restart_of_plain (hp2.1 o' (by rw [hops]; simp)).1
      rw [hr] at this; cases this)
  exact hI'.view

/-- **Restart from any crash directory.** For every recorded point `p` of the victim operation
    and every configuration `c` of the new logger with the same rotation configuration (append
    on or off, any capacity; no guard for `timestampsDirect` with `append` since the `fix:` of
    finding D22), the new logger continues the stream: nothing that is on disk is lost or
    reordered, every new record follows. -/
theorem restart_from_crash_B (cfg : Cfg) (hc : CfgMB cfg) (hcap : cfg.cap = none) (r : RotCfg)
    (hrot : cfg.rot = some r) (ops : List (Op × Nat × Faults)) (op : Op) (now : Nat)
    (hop : (∃ b, op = .write b) ∨ op = .rotate)
    (hp : PlainHistory (ops ++ [(op, now, noFaults)]))
    (p : Pt) (hpm : p ∈ (stepT (runOps (init cfg []) ops) op now).2)
    (c : Cfg) (hcrot : c.rot = cfg.rot)
    (ops2 : List (Op × Nat × Faults)) (hp2 : PlainHistory ops2)
    (hclk : ∀ o ∈ ops2, o.1.usesClock = true → now ≤ o.2.1) :
    (viewFiles (runOps (init c p.dir) ops2)).flatten = readAll p.dir ++ written ops2 := by
  have hB : r.naming = .numbersDirect ∨ r.naming = .timestampsDirect := by
    obtain ⟨_, r', hrot', hB⟩ := hc
    rw [hrot] at hrot'; cases hrot'; exact hB
  have hcl : r.cleanup = none := hc.1 r hrot
  rcases crash_dirs_described_B cfg hc hcap r hrot ops op now hop hp p hpm with h | h
  · rw [h.readAll]
    exact restart_described hB hcl p.dir _ now h c (by rw [hcrot, hrot]) ops2 hp2 hclk
  · rw [h.readAll]
    exact restart_described hB hcl p.dir _ now h c (by rw [hcrot, hrot]) ops2 hp2 hclk

/-- the same for the directory `crashDir` returns -/
theorem crashDir_safe_B (cfg : Cfg) (hc : CfgMB cfg) (hcap : cfg.cap = none)
    (ops : List (Op × Nat × Faults)) (b : List Nat) (now : Nat)
    (hp : PlainHistory (ops ++ [(.write b, now, noFaults)])) (name : String) (occ : Nat) (p : Pt)
    (h : crashDir (runOps (init cfg []) ops) (.write b) now name occ = some p) :
    readAll p.dir = written ops ∨ readAll p.dir = written ops ++ b :=
  (crash_safe_B cfg hc hcap ops b now hp).1 p (crashDir_mem h)

/-- the last point of the victim write is `write.after`; it sees the in-flight record -/
theorem crash_last_point_B (cfg : Cfg) (hc : CfgMB cfg) (hcap : cfg.cap = none)
    (ops : List (Op × Nat × Faults)) (b : List Nat) (now : Nat)
    (hp : PlainHistory (ops ++ [(.write b, now, noFaults)])) :
    ∃ p, (stepT (runOps (init cfg []) ops) (.write b) now).2.getLast? = some p ∧
      p.name = "write.after" ∧ readAll p.dir = written ops ++ b := by
  obtain ⟨_, tr0, p1, p2, e, _, _, _, n2, q2⟩ := crash_safe_B cfg hc hcap ops b now hp
  exact ⟨p2, by rw [e]; simp, n2, q2⟩

theorem CfgB.cfgMB {cfg : Cfg} (h : CfgB cfg) : CfgMB cfg := ⟨h.2.1, h.2.2⟩

/-! ### non-vacuity -/

/-- `timestampsDirect`, direct mode, size criterion, symlink -/
def cCfgT : Cfg :=
  { rot := some ⟨some 2, none, .timestampsDirect, none⟩, append := false, cap := none,
    symlink := true }

def cCfgN (app : Bool) (cap : Option Nat) : Cfg :=
  { rot := some ⟨some 2, none, .numbersDirect, none⟩, append := app, cap := cap,
    symlink := false }

def cOps : List (Op × Nat × Faults) := [(.write [1, 2, 3], 5, noFaults)]

theorem cCfgT_ok : CfgMB cCfgT := ⟨fun r h => by cases h; rfl, _, rfl, Or.inr rfl⟩
theorem cCfgN_ok (app : Bool) (cap : Option Nat) : CfgMB (cCfgN app cap) :=
  ⟨fun r h => by cases h; rfl, _, rfl, Or.inl rfl⟩

theorem cOps_plain : PlainHistory (cOps ++ [(.write [4], 5, noFaults)]) := by
  unfold PlainHistory Monotone; decide

/-- the victim write rotates (size 3 > 2) within the second of the current file: the points in
    execution order … -/
example : (stepT (runOps (init cCfgT []) cOps) (.write [4]) 5).2.map (·.name) =
    ["rot.infix_chosen", "symlink.removed", "open.before", "open.after", "rot.opened",
     "rot.mounted", "write.before", "write.after"] := by decide

/-- … and what is readable at each of them -/
example : (stepT (runOps (init cCfgT []) cOps) (.write [4]) 5).2.map (fun p => readAll p.dir) =
    [[1, 2, 3], [1, 2, 3], [1, 2, 3], [1, 2, 3], [1, 2, 3], [1, 2, 3], [1, 2, 3], [1, 2, 3, 4]] := by
  decide

/-- the first write of a logger (initialisation on the empty directory) -/
example : (stepT (init cCfgT []) (.write [1]) 5).2.map (fun p => (p.name, readAll p.dir)) =
    [("symlink.removed", []), ("open.before", []), ("open.after", []), ("write.before", []),
     ("write.after", [1])] := by decide

/-- a forced rotation -/
example : (stepT (runOps (init cCfgT []) cOps) .rotate 7).2.map (fun p => (p.name, readAll p.dir)) =
    [("rot.infix_chosen", [1, 2, 3]), ("symlink.removed", [1, 2, 3]), ("open.before", [1, 2, 3]),
     ("open.after", [1, 2, 3]), ("rot.opened", [1, 2, 3]), ("rot.mounted", [1, 2, 3])] := by decide

example := crash_safe_B cCfgT cCfgT_ok rfl cOps [4] 5 cOps_plain

/-- killed at `open.after` (the new empty file `ts 5 (some 0)` exists), restarted without
    `append` in the same second: the new logger takes `ts 5 (some 1)` -/
example :
    (viewFiles (runOps (init cCfgT ((stepT (runOps (init cCfgT []) cOps) (.write [4]) 5).2[3]'(by
      decide)).dir) [(.write [7], 5, noFaults), (.write [8], 6, noFaults)])).flatten =
    readAll ((stepT (runOps (init cCfgT []) cOps) (.write [4]) 5).2[3]'(by decide)).dir ++
      written [(.write [7], 5, noFaults), (.write [8], 6, noFaults)] :=
  restart_from_crash_B cCfgT cCfgT_ok rfl _ rfl cOps (.write [4]) 5 (Or.inl ⟨_, rfl⟩) cOps_plain
    _ (List.getElem_mem _) cCfgT rfl _
    (by unfold PlainHistory Monotone; decide) (by decide)

example :
    viewFiles (runOps (init cCfgT ((stepT (runOps (init cCfgT []) cOps) (.write [4]) 5).2[3]'(by
      decide)).dir) [(.write [7], 5, noFaults), (.write [8], 6, noFaults)]) =
    [[1, 2, 3], [], [7, 8]] := by decide

/-- `numbersDirect`, killed at `rot.mounted`, restarted with `append` and a buffer -/
example :
    (viewFiles (runOps (init (cCfgN true (some 8))
      ((stepT (runOps (init (cCfgN false none) []) cOps) (.write [4]) 5).2[4]'(by decide)).dir)
      [(.write [7], 5, noFaults), (.write [8], 6, noFaults)])).flatten =
    readAll ((stepT (runOps (init (cCfgN false none) []) cOps) (.write [4]) 5).2[4]'(by
      decide)).dir ++ written [(.write [7], 5, noFaults), (.write [8], 6, noFaults)] :=
  restart_from_crash_B (cCfgN false none) (cCfgN_ok _ _) rfl _ rfl cOps (.write [4]) 5
    (Or.inl ⟨_, rfl⟩) (by unfold PlainHistory Monotone; decide)
    _ (List.getElem_mem _) (cCfgN true (some 8)) rfl _
    (by unfold PlainHistory Monotone; decide) (by decide)

example :
    ((stepT (runOps (init (cCfgN false none) []) cOps) (.write [4]) 5).2[4]'(by decide)).name =
      "rot.mounted" ∧
    viewFiles (runOps (init (cCfgN true (some 8))
      ((stepT (runOps (init (cCfgN false none) []) cOps) (.write [4]) 5).2[4]'(by decide)).dir)
      [(.write [7], 5, noFaults), (.write [8], 6, noFaults)]) = [[1, 2, 3], [7, 8]] := by decide

end FV.FlwB
