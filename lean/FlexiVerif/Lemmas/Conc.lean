import FlexiVerif.Model.Conc
/-
  Helper lemmas for the concurrency model (C03): the invariant of all reachable states and its
  preservation by every action, plus list lemmas (buckets of a list are a permutation of it).
-/
namespace FV.Conc

@[simp] theorem outSeqs_nil (t : Nat) : outSeqs t [] = [] := rfl

@[simp] theorem outSeqs_append (t : Nat) (a b : List (Nat × Nat × List Nat)) :
    outSeqs t (a ++ b) = outSeqs t a ++ outSeqs t b := by simp [outSeqs]

@[simp] theorem outSeqs_single (t t' k : Nat) (b : List Nat) :
    outSeqs t [(t', k, b)] = if t' = t then [k] else [] := by
  by_cases h : t' = t <;> simp [outSeqs, h]

@[simp] theorem chanSeqs_nil (t : Nat) : chanSeqs t [] = [] := rfl

@[simp] theorem chanSeqs_append (t : Nat) (a b : List Msg) :
    chanSeqs t (a ++ b) = chanSeqs t a ++ chanSeqs t b := by
  induction a with
  | nil => rfl
  | cons m a ih =>
    cases m with
    | data t' k bs => by_cases h : t' = t <;> simp [chanSeqs, h, ih]
    | flush => simp [chanSeqs, ih]
    | shutdown => simp [chanSeqs, ih]

@[simp] theorem chanSeqs_data (t t' k : Nat) (b : List Nat) (c : List Msg) :
    chanSeqs t (.data t' k b :: c) = (if t' = t then [k] else []) ++ chanSeqs t c := by
  by_cases h : t' = t <;> simp [chanSeqs, h]

@[simp] theorem chanSeqs_flush (t : Nat) (c : List Msg) : chanSeqs t (.flush :: c) = chanSeqs t c := rfl
@[simp] theorem chanSeqs_shutdown (t : Nat) (c : List Msg) :
    chanSeqs t (.shutdown :: c) = chanSeqs t c := rfl

theorem lineAt_bound {prog : List (List (List Nat))} {t k : Nat} {l : List Nat}
    (h : lineAt prog t k = some l) : k < (prog.getD t []).length := by
  unfold lineAt at h
  split at h
  · cases h
  · rename_i ls e
    have := (List.getElem?_eq_some_iff.mp h).1
    simpa [List.getD_eq_getElem?_getD, e] using this

/-- The invariant of all reachable states. -/
structure Inv (m : Mode) (cfg : Cfg) (prog : List (List (List Nat))) (s : St) : Prop where
  out_eq : s.out = (bytesOf s.outLines).flatten
  lines_ok : ∀ e ∈ s.outLines, lineAt prog e.1 e.2.1 = some e.2.2
  chan_ok : ∀ t k b, Msg.data t k b ∈ s.chan → lineAt prog t k = some b
  pend_ok : ∀ (t : Nat) (th : Th), s.ths[t]? = some th → th.pend = true → lineAt prog t th.sent = some th.buf
  seqs : ∀ (t : Nat) (th : Th), s.ths[t]? = some th → outSeqs t s.outLines ++ chanSeqs t s.chan = List.range th.sent
  pool_empty : ∀ b ∈ s.pool, b = []
  pool_bound : s.pool.length ≤ cfg.poolCapa
  tl_empty : m = .sync → ∀ (t : Nat) (th : Th), s.ths[t]? = some th → th.pend = false → th.buf = []
  sync_chan : m = .sync → s.chan = []
  len : s.ths.length = prog.length
  sent_le : ∀ (t : Nat) (th : Th), s.ths[t]? = some th → th.sent ≤ (prog.getD t []).length

theorem popBuf_snd_mem {pool : List (List Nat)} {b : List Nat} (h : b ∈ (popBuf pool).2) :
    b ∈ pool := by
  cases pool <;> simp_all [popBuf]

theorem popBuf_snd_length (pool : List (List Nat)) : (popBuf pool).2.length ≤ pool.length := by
  cases pool <;> simp [popBuf]

theorem popBuf_fst (pool : List (List Nat)) : (popBuf pool).1 = [] ∨ (popBuf pool).1 ∈ pool := by
  cases pool <;> simp [popBuf]

theorem inv_init (m : Mode) (cfg : Cfg) (prog : List (List (List Nat))) : Inv m cfg prog (init prog) := by
  constructor <;> simp [init, bytesOf]

theorem forall_set {P : Nat → Th → Prop} {l : List Th} {i : Nat} {a : Th}
    (h : ∀ t th, l[t]? = some th → P t th) (ha : P i a) :
    ∀ t th, (l.set i a)[t]? = some th → P t th := by
  intro t th
  rw [List.getElem?_set]
  split
  · split
    · intro e; cases e; subst_vars; exact ha
    · simp
  · exact h t th

theorem forall_set' {P : Nat → Th → Prop} {l : List Th} {i : Nat} {a : Th}
    (h : ∀ t th, t ≠ i → l[t]? = some th → P t th) (ha : P i a) :
    ∀ t th, (l.set i a)[t]? = some th → P t th := by
  intro t th
  rw [List.getElem?_set]
  split
  · split
    · intro e; cases e; subst_vars; exact ha
    · simp
  · rename_i hne; exact h t th (fun e => hne e.symm)

theorem recycle_empty {cfg : Cfg} (hc : cfg.clear = true) {pool : List (List Nat)} (b : List Nat)
    (h : ∀ x ∈ pool, x = []) : ∀ x ∈ recycle cfg.clear cfg.poolCapa cfg.msgCapa pool b, x = [] := by
  unfold recycle; split <;> grind

theorem recycle_bound (c : Bool) (pc mc : Nat) (pool : List (List Nat)) (b : List Nat)
    (h : pool.length ≤ pc) : (recycle c pc mc pool b).length ≤ pc := by
  unfold recycle; split <;> simp_all <;> omega

theorem inv_step {m : Mode} {cfg : Cfg} {prog : List (List (List Nat))} (hc : cfg.clear = true)
    {s : St} (h : Inv m cfg prog s) (a : Act) : Inv m cfg prog (step m cfg prog s a) := by
  cases a with
  | fmt t =>
    simp only [step]
    split
    · exact h
    · rename_i th hth
      split
      · exact h
      · rename_i hp
        split
        · exact h
        · rename_i l hl
          have hp' : th.pend = false := by simpa using hp
          cases m with
          | sync =>
            have hb : th.buf = [] := h.tl_empty rfl t th hth hp'
            exact {
              out_eq := h.out_eq, lines_ok := h.lines_ok, chan_ok := h.chan_ok
              pend_ok := forall_set h.pend_ok (by simp [hb, hl])
              seqs := forall_set h.seqs (h.seqs t th hth)
              pool_empty := h.pool_empty, pool_bound := h.pool_bound
              tl_empty := fun _ => forall_set (h.tl_empty rfl) (by simp)
              sync_chan := h.sync_chan
              len := by simp [h.len]
              sent_le := forall_set h.sent_le (h.sent_le t th hth) }
          | async =>
            have hb : (popBuf s.pool).1 = [] := by
              cases popBuf_fst s.pool with
              | inl e => exact e
              | inr e => exact h.pool_empty _ e
            exact {
              out_eq := h.out_eq, lines_ok := h.lines_ok, chan_ok := h.chan_ok
              pend_ok := forall_set h.pend_ok (by simp [hb, hl])
              seqs := forall_set h.seqs (h.seqs t th hth)
              pool_empty := fun b hb' => h.pool_empty b (popBuf_snd_mem hb')
              pool_bound := Nat.le_trans (popBuf_snd_length _) h.pool_bound
              tl_empty := by simp
              sync_chan := by simp
              len := by simp [h.len]
              sent_le := forall_set h.sent_le (h.sent_le t th hth) }
  | emit t =>
    simp only [step]
    cases m with
    | async => exact h
    | sync =>
      simp only []
      split
      · exact h
      · rename_i th hth
        split
        · rename_i hp
          have hl := h.pend_ok t th hth hp
          have hch := h.sync_chan rfl
          exact {
            out_eq := by simp [bytesOf, h.out_eq]
            lines_ok := by
              intro e he
              rw [List.mem_append, List.mem_singleton] at he
              cases he with
              | inl he => exact h.lines_ok e he
              | inr he => subst he; exact hl
            chan_ok := h.chan_ok
            pend_ok := forall_set h.pend_ok (by simp)
            seqs := forall_set' (fun t' th' hne ht' => by
                have := h.seqs t' th' ht'
                simp [hch, Ne.symm hne] at this ⊢; exact this) (by
                have := h.seqs t th hth
                simp [hch] at this
                simp [hch, this, List.range_succ])
            pool_empty := h.pool_empty, pool_bound := h.pool_bound
            tl_empty := fun _ => forall_set (h.tl_empty rfl) (by simp)
            sync_chan := h.sync_chan
            len := by simp [h.len]
            sent_le := forall_set h.sent_le (by have := lineAt_bound hl; simp only []; omega) }
        · exact h
  | send t =>
    simp only [step]
    cases m with
    | sync => exact h
    | async =>
      simp only []
      split
      · exact h
      · rename_i th hth
        split
        · rename_i hp
          have hl := h.pend_ok t th hth hp
          exact {
            out_eq := h.out_eq, lines_ok := h.lines_ok
            chan_ok := by
              intro t' k b he
              rw [List.mem_append, List.mem_singleton] at he
              cases he with
              | inl he => exact h.chan_ok t' k b he
              | inr he => cases he; exact hl
            pend_ok := forall_set h.pend_ok (by simp)
            seqs := forall_set' (fun t' th' hne ht' => by
                have := h.seqs t' th' ht'
                simp [Ne.symm hne] at this ⊢; exact this) (by
                have := h.seqs t th hth
                simp [← List.append_assoc, this, List.range_succ])
            pool_empty := h.pool_empty, pool_bound := h.pool_bound
            tl_empty := by simp
            sync_chan := by simp
            len := by simp [h.len]
            sent_le := forall_set h.sent_le (by have := lineAt_bound hl; simp only []; omega) }
        · exact h
  | recv =>
    simp only [step]
    cases m with
    | sync => exact h
    | async =>
      simp only []
      split
      · split
        · exact h
        · rename_i t k b c hch
          exact {
            out_eq := by simp [bytesOf, h.out_eq]
            lines_ok := by
              intro e he
              rw [List.mem_append, List.mem_singleton] at he
              cases he with
              | inl he => exact h.lines_ok e he
              | inr he => subst he; exact h.chan_ok t k b (by simp [hch])
            chan_ok := fun t' k' b' he => h.chan_ok t' k' b' (by simp [hch, he])
            pend_ok := h.pend_ok
            seqs := fun t' th' ht' => by
              have := h.seqs t' th' ht'
              simp [hch] at this
              simp [this]
            pool_empty := recycle_empty hc _ h.pool_empty
            pool_bound := recycle_bound _ _ _ _ _ h.pool_bound
            tl_empty := by simp
            sync_chan := by simp
            len := h.len, sent_le := h.sent_le }
        · rename_i c hch
          exact {
            out_eq := h.out_eq, lines_ok := h.lines_ok
            chan_ok := fun t' k' b' he => h.chan_ok t' k' b' (by simp [hch, he])
            pend_ok := h.pend_ok
            seqs := fun t' th' ht' => by
              have := h.seqs t' th' ht'
              simpa [hch] using this
            pool_empty := recycle_empty hc _ h.pool_empty
            pool_bound := recycle_bound _ _ _ _ _ h.pool_bound
            tl_empty := by simp
            sync_chan := by simp
            len := h.len, sent_le := h.sent_le }
        · rename_i c hch
          exact {
            out_eq := h.out_eq, lines_ok := h.lines_ok
            chan_ok := fun t' k' b' he => h.chan_ok t' k' b' (by simp [hch, he])
            pend_ok := h.pend_ok
            seqs := fun t' th' ht' => by
              have := h.seqs t' th' ht'
              simpa [hch] using this
            pool_empty := h.pool_empty
            pool_bound := h.pool_bound
            tl_empty := by simp
            sync_chan := by simp
            len := h.len, sent_le := h.sent_le }
      · exact h
  | flushTick =>
    simp only [step]
    cases m with
    | sync => exact h
    | async =>
      exact {
        out_eq := h.out_eq, lines_ok := h.lines_ok
        chan_ok := fun t' k' b' he => h.chan_ok t' k' b' (by simpa using he)
        pend_ok := h.pend_ok
        seqs := fun t' th' ht' => by
          have := h.seqs t' th' ht'
          simpa using this
        pool_empty := h.pool_empty
        pool_bound := h.pool_bound
        tl_empty := by simp
        sync_chan := by simp
        len := h.len, sent_le := h.sent_le }
  | cleanupTick => exact h
  | shutdownTick =>
    simp only [step]
    cases m with
    | sync => exact h
    | async =>
      exact {
        out_eq := h.out_eq, lines_ok := h.lines_ok
        chan_ok := fun t' k' b' he => h.chan_ok t' k' b' (by simpa using he)
        pend_ok := h.pend_ok
        seqs := fun t' th' ht' => by
          have := h.seqs t' th' ht'
          simpa using this
        pool_empty := h.pool_empty
        pool_bound := h.pool_bound
        tl_empty := by simp
        sync_chan := by simp
        len := h.len, sent_le := h.sent_le }


theorem inv_runFrom {m : Mode} {cfg : Cfg} {prog : List (List (List Nat))} (hc : cfg.clear = true)
    {s : St} (h : Inv m cfg prog s) (sched : List Act) :
    Inv m cfg prog (runFrom m cfg prog s sched) := by
  induction sched generalizing s with
  | nil => exact h
  | cons a r ih => exact ih (inv_step hc h a)

theorem inv_run {m : Mode} {cfg : Cfg} (prog : List (List (List Nat))) (hc : cfg.clear = true)
    (sched : List Act) : Inv m cfg prog (run m cfg prog sched) :=
  inv_runFrom hc (inv_init m cfg prog) sched

/-! ### list lemmas -/

theorem map_range_getD {α : Type} (l : List α) (d : α) :
    (List.range l.length).map (fun k => l.getD k d) = l := by
  apply List.ext_getElem
  · simp
  · intro i h1 h2
    simp at h1
    simp [h1]

/-- a list is a permutation of the concatenation of its buckets -/
theorem bucket_perm {α : Type} (key : α → Nat) (n : Nat) (L : List α) (h : ∀ e ∈ L, key e < n) :
    L.Perm ((List.range n).flatMap (fun t => L.filter (fun e => key e == t))) := by
  induction n generalizing L with
  | zero =>
    cases L with
    | nil => simp
    | cons e r => exact absurd (h e (by simp)) (Nat.not_lt_zero _)
  | succ n ih =>
    rw [List.range_succ, List.flatMap_append]
    simp only [List.flatMap_cons, List.flatMap_nil, List.append_nil]
    have h1 := (List.filter_append_perm (fun e => decide (key e < n)) L).symm
    have h2 : L.filter (fun e => !decide (key e < n)) = L.filter (fun e => key e == n) := by
      apply List.filter_congr
      intro x hx
      have := h x hx
      by_cases hk : key x = n
      · simp [hk]
      · have : key x < n := by omega
        simp [hk, this]
    have h3 := ih (L.filter (fun e => decide (key e < n))) (by
      intro e he; simpa using (List.mem_filter.mp he).2)
    have h4 : (List.range n).flatMap (fun t => (L.filter (fun e => decide (key e < n))).filter
          (fun e => key e == t)) = (List.range n).flatMap (fun t => L.filter (fun e => key e == t)) := by
      rw [List.flatMap_def, List.flatMap_def]
      congr 1
      apply List.map_congr_left
      intro t ht
      rw [List.filter_filter]
      apply List.filter_congr
      intro x _
      have : t < n := by simpa using ht
      by_cases hk : key x = t
      · simp [hk, this]
      · simp [hk]
    rw [h2] at h1
    rw [h4] at h3
    exact h1.trans (List.Perm.append h3 (List.Perm.refl _))


/-! ### consequences of the invariant -/

theorem lineAt_lt {prog : List (List (List Nat))} {t k : Nat} {l : List Nat}
    (h : lineAt prog t k = some l) : t < prog.length ∧ (prog.getD t []).getD k [] = l := by
  unfold lineAt at h
  split at h
  · cases h
  · rename_i ls e
    have := List.getElem?_eq_some_iff.mp e
    obtain ⟨h1, h2⟩ := this
    refine ⟨h1, ?_⟩
    simp [List.getD_eq_getElem?_getD, e, h]

theorem lineAt_eq_some_iff {prog : List (List (List Nat))} {t k : Nat} {l : List Nat} :
    lineAt prog t k = some l ↔ ∃ (h1 : t < prog.length) (h2 : k < prog[t].length), prog[t][k] = l := by
  unfold lineAt
  constructor
  · intro h
    split at h
    · cases h
    · rename_i ls e
      obtain ⟨h1, h2⟩ := List.getElem?_eq_some_iff.mp e
      subst h2
      obtain ⟨h3, h4⟩ := List.getElem?_eq_some_iff.mp h
      exact ⟨h1, h3, h4⟩
  · rintro ⟨h1, h2, h3⟩
    simp [h1, h2, h3]

theorem chanSeqs_noData (t : Nat) (c : List Msg) (h : ∀ m ∈ c, m.isData = false) :
    chanSeqs t c = [] := by
  induction c with
  | nil => rfl
  | cons m c ih =>
    have hm := h m (by simp)
    have hc := ih (fun x hx => h x (by simp [hx]))
    cases m with
    | data t' k b => simp [Msg.isData] at hm
    | flush => simpa using hc
    | shutdown => simpa using hc

/-- a log that only contains lines of the program has no entries of foreign threads -/
theorem outSeqs_foreign {prog : List (List (List Nat))} {ol : List (Nat × Nat × List Nat)}
    (hl : ∀ e ∈ ol, lineAt prog e.1 e.2.1 = some e.2.2) {t : Nat} (ht : ¬ t < prog.length) :
    outSeqs t ol = List.range (prog.getD t []).length := by
  have : prog.getD t [] = [] := by simp [List.getD_eq_getElem?_getD, Nat.le_of_not_lt ht]
  rw [this]
  simp only [List.length_nil, List.range_zero, outSeqs, List.map_eq_nil_iff, List.filter_eq_nil_iff]
  intro e he h2
  have := (lineAt_lt (hl e he)).1
  simp at h2; omega

/-- in a complete state the emission log of every thread carries exactly `0 … n_t - 1` -/
theorem outSeqs_complete {m : Mode} {cfg : Cfg} {prog : List (List (List Nat))} {s : St}
    (h : Inv m cfg prog s) (hcmp : Complete prog s) (t : Nat) :
    outSeqs t s.outLines = List.range (prog.getD t []).length := by
  by_cases ht : t < prog.length
  · have ht' : t < s.ths.length := by rw [h.len]; exact ht
    have h1 := h.seqs t s.ths[t] (by simp [ht'])
    rw [chanSeqs_noData t s.chan hcmp.2, (hcmp.1 t ht').2] at h1
    simpa using h1
  · exact outSeqs_foreign h.lines_ok ht

theorem bytes_of_thread {prog : List (List (List Nat))} {ol : List (Nat × Nat × List Nat)}
    (hl : ∀ e ∈ ol, lineAt prog e.1 e.2.1 = some e.2.2) (t : Nat)
    (h1 : outSeqs t ol = List.range (prog.getD t []).length) :
    bytesOf (ol.filter (fun e => e.1 == t)) = prog.getD t [] := by
  unfold outSeqs at h1
  have h2 : bytesOf (ol.filter (fun e => e.1 == t))
      = ((ol.filter (fun e => e.1 == t)).map (·.2.1)).map
          (fun k => (prog.getD t []).getD k []) := by
    rw [List.map_map]
    apply List.map_congr_left
    intro e he
    have he' := List.mem_filter.mp he
    have := (lineAt_lt (hl e he'.1)).2
    have ht : e.1 = t := by simpa using he'.2
    simp [← this, ht]
  rw [h2, h1, map_range_getD]

theorem bytes_perm {prog : List (List (List Nat))} {ol : List (Nat × Nat × List Nat)}
    (hl : ∀ e ∈ ol, lineAt prog e.1 e.2.1 = some e.2.2)
    (hs : ∀ t, outSeqs t ol = List.range (prog.getD t []).length) :
    (bytesOf ol).Perm prog.flatten := by
  have h1 := bucket_perm (fun e : Nat × Nat × List Nat => e.1) prog.length ol
    (fun e he => (lineAt_lt (hl e he)).1)
  have h2 := h1.map (·.2.2)
  rw [List.map_flatMap] at h2
  have h3 : (List.range prog.length).flatMap
      (fun t => (ol.filter (fun e => e.1 == t)).map (·.2.2)) = prog.flatten := by
    rw [List.flatMap_def]
    have : (List.range prog.length).map
        (fun t => (ol.filter (fun e => e.1 == t)).map (·.2.2))
        = (List.range prog.length).map (fun t => prog.getD t []) := by
      apply List.map_congr_left
      intro t _
      exact bytes_of_thread hl t (hs t)
    rw [this, map_range_getD]
  rw [h3] at h2
  exact h2

/-! ### the sequential schedule is complete -/

theorem runFrom_append (m : Mode) (cfg : Cfg) (prog : List (List (List Nat))) (s : St)
    (a b : List Act) :
    runFrom m cfg prog s (a ++ b) = runFrom m cfg prog (runFrom m cfg prog s a) b := by
  simp [runFrom, List.foldl_append]

theorem lineAt_of_lt {prog : List (List (List Nat))} {t k : Nat} (ht : t < prog.length)
    (hk : k < (prog.getD t []).length) : ∃ l, lineAt prog t k = some l := by
  unfold lineAt
  simp [List.getD_eq_getElem?_getD, ht] at hk
  simp [ht, hk]

theorem fmt_spec (m : Mode) (cfg : Cfg) (prog : List (List (List Nat))) (s : St) (t : Nat)
    (th : Th) (l : List Nat)
    (hth : s.ths[t]? = some th) (hp : th.pend = false) (hl : lineAt prog t th.sent = some l) :
    ∃ th1, (step m cfg prog s (.fmt t)).ths = s.ths.set t th1 ∧ th1.pend = true ∧ th1.sent = th.sent
      ∧ (step m cfg prog s (.fmt t)).chan = s.chan
      ∧ (step m cfg prog s (.fmt t)).writerAlive = s.writerAlive
      ∧ (step m cfg prog s (.fmt t)).outLines = s.outLines := by
  cases m <;> simp only [step, hth, hp, hl] <;> simp <;> exact ⟨_, rfl, rfl, rfl⟩

theorem emit_spec (cfg : Cfg) (prog : List (List (List Nat))) (s : St) (t : Nat)
    (th : Th) (hth : s.ths[t]? = some th) (hp : th.pend = true) :
    ∃ th1, (step .sync cfg prog s (.emit t)).ths = s.ths.set t th1 ∧ th1.pend = false
      ∧ th1.sent = th.sent + 1
      ∧ (step .sync cfg prog s (.emit t)).chan = s.chan
      ∧ (step .sync cfg prog s (.emit t)).writerAlive = s.writerAlive
      ∧ (step .sync cfg prog s (.emit t)).outLines = s.outLines ++ [(t, th.sent, th.buf)] := by
  simp only [step, hth, hp]; simp; exact ⟨_, rfl, rfl, rfl⟩

theorem send_recv_spec (cfg : Cfg) (prog : List (List (List Nat))) (s : St) (t : Nat)
    (th : Th) (hth : s.ths[t]? = some th) (hp : th.pend = true) (hch : s.chan = [])
    (hal : s.writerAlive = true) :
    ∃ th1, (step .async cfg prog (step .async cfg prog s (.send t)) .recv).ths = s.ths.set t th1
      ∧ th1.pend = false ∧ th1.sent = th.sent + 1
      ∧ (step .async cfg prog (step .async cfg prog s (.send t)) .recv).chan = []
      ∧ (step .async cfg prog (step .async cfg prog s (.send t)) .recv).writerAlive = true
      ∧ (step .async cfg prog (step .async cfg prog s (.send t)) .recv).outLines
          = s.outLines ++ [(t, th.sent, th.buf)] := by
  simp only [step, hth, hp, hch, hal]; simp; exact ⟨_, rfl, rfl, rfl⟩

/-- one line of one thread, run without interference, ends with the line handed over and the
    channel empty again -/
theorem lineActs_spec (m : Mode) (cfg : Cfg) (prog : List (List (List Nat))) (s : St) (t : Nat)
    (th : Th) (l : List Nat)
    (hth : s.ths[t]? = some th) (hp : th.pend = false) (hl : lineAt prog t th.sent = some l)
    (hch : s.chan = []) (hal : s.writerAlive = true) :
    (runFrom m cfg prog s (lineActs m t)).chan = [] ∧
    (runFrom m cfg prog s (lineActs m t)).writerAlive = true ∧
      ∃ th', (runFrom m cfg prog s (lineActs m t)).ths = s.ths.set t th' ∧ th'.pend = false
        ∧ th'.sent = th.sent + 1
        ∧ ∃ x, (runFrom m cfg prog s (lineActs m t)).outLines = s.outLines ++ [(t, th.sent, x)] := by
  have hlt : t < s.ths.length := (List.getElem?_eq_some_iff.mp hth).1
  obtain ⟨th1, e1, p1, s1, c1, a1, o1⟩ := fmt_spec m cfg prog s t th l hth hp hl
  have hth1 : (step m cfg prog s (.fmt t)).ths[t]? = some th1 := by
    rw [e1]; exact List.getElem?_set_self hlt
  cases m with
  | sync =>
    obtain ⟨th2, e2, p2, s2, c2, a2, o2⟩ := emit_spec cfg prog _ t th1 hth1 p1
    simp only [lineActs, runFrom, List.foldl]
    refine ⟨by rw [c2, c1, hch], by rw [a2, a1, hal], th2, ?_, p2, by omega, th1.buf, ?_⟩
    · rw [e2, e1, List.set_set]
    · rw [o2, o1, s1]
  | async =>
    obtain ⟨th2, e2, p2, s2, c2, a2, o2⟩ := send_recv_spec cfg prog _ t th1 hth1 p1
      (by rw [c1, hch]) (by rw [a1, hal])
    simp only [lineActs, runFrom, List.foldl]
    refine ⟨c2, a2, th2, ?_, p2, by omega, th1.buf, ?_⟩
    · rw [e2, e1, List.set_set]
    · rw [o2, o1, s1]

/-- effect of running some actions of thread `t` only: the other threads are untouched -/
def OnlyThread (t : Nat) (s s' : St) (th' : Th) : Prop :=
  s'.chan = [] ∧ s'.writerAlive = true ∧ s'.ths.length = s.ths.length ∧
    (∀ j, j ≠ t → s'.ths[j]? = s.ths[j]?) ∧ s'.ths[t]? = some th'

theorem threadActs_spec (m : Mode) (cfg : Cfg) (prog : List (List (List Nat))) (t : Nat)
    (ht : t < prog.length) (n : Nat) : ∀ (s : St) (th : Th),
    s.ths[t]? = some th → th.pend = false → th.sent + n ≤ (prog.getD t []).length →
    s.chan = [] → s.writerAlive = true →
    ∃ th', OnlyThread t s (runFrom m cfg prog s (threadActs m t n)) th' ∧ th'.pend = false
      ∧ th'.sent = th.sent + n := by
  induction n with
  | zero =>
    intro s th hth hp _ hch hal
    exact ⟨th, ⟨hch, hal, rfl, fun _ _ => rfl, hth⟩, hp, rfl⟩
  | succ n ih =>
    intro s th hth hp hn hch hal
    obtain ⟨l, hl⟩ := lineAt_of_lt (k := th.sent) ht (by omega)
    obtain ⟨c1, a1, th1, e1, p1, s1, _⟩ := lineActs_spec m cfg prog s t th l hth hp hl hch hal
    have hlt : t < s.ths.length := (List.getElem?_eq_some_iff.mp hth).1
    have hth1 : (runFrom m cfg prog s (lineActs m t)).ths[t]? = some th1 := by
      rw [e1]; exact List.getElem?_set_self hlt
    obtain ⟨th2, ⟨c2, a2, l2, o2, g2⟩, p2, s2⟩ := ih _ th1 hth1 p1 (by omega) c1 a1
    have hsplit : threadActs m t (n + 1) = lineActs m t ++ threadActs m t n := by
      simp [threadActs, List.replicate_succ]
    rw [hsplit, runFrom_append]
    refine ⟨th2, ⟨c2, a2, ?_, ?_, g2⟩, p2, by omega⟩
    · rw [l2, e1, List.length_set]
    · intro j hj
      rw [o2 j hj, e1, List.getElem?_set_ne (Ne.symm hj)]

/-- state after the sequential schedule has finished the threads `0 … i-1` -/
def SeqDone (prog : List (List (List Nat))) (i : Nat) (s : St) : Prop :=
  s.chan = [] ∧ s.writerAlive = true ∧ s.ths.length = prog.length ∧
    ∀ (j : Nat) (th : Th), s.ths[j]? = some th →
      th.pend = false ∧ th.sent = if j < i then (prog.getD j []).length else 0

theorem seqSched_prefix (m : Mode) (cfg : Cfg) (prog : List (List (List Nat))) (i : Nat)
    (hi : i ≤ prog.length) :
    SeqDone prog i (run m cfg prog
      (((List.range i).map (fun t => threadActs m t (prog.getD t []).length)).flatten)) := by
  induction i with
  | zero =>
    refine ⟨rfl, rfl, by simp [run, runFrom, init], ?_⟩
    intro j th h
    simp [run, runFrom, init] at h
    obtain ⟨_, h⟩ := h
    subst h; simp
  | succ i ih =>
    obtain ⟨c, a, l, h⟩ := ih (by omega)
    rw [List.range_succ, List.map_append, List.flatten_append]
    simp only [List.map_cons, List.map_nil, List.flatten_cons, List.flatten_nil, List.append_nil]
    unfold run at *
    rw [runFrom_append]
    generalize runFrom m cfg prog (init prog) _ = s at *
    have hlt : i < s.ths.length := by omega
    have hth : s.ths[i]? = some s.ths[i] := by simp [hlt]
    have hi' := h i _ hth
    simp at hi'
    obtain ⟨th', ⟨c2, a2, l2, o2, g2⟩, p2, s2⟩ :=
      threadActs_spec m cfg prog i (by omega) (prog.getD i []).length s _ hth hi'.1
        (by omega) c a
    refine ⟨c2, a2, by omega, ?_⟩
    intro j th hj
    by_cases hji : j = i
    · subst hji
      rw [g2] at hj; cases hj
      refine ⟨p2, ?_⟩
      simp [s2, hi'.2]
    · rw [o2 j hji] at hj
      have := h j th hj
      refine ⟨this.1, ?_⟩
      rw [this.2]
      by_cases h1 : j < i
      · have : j < i + 1 := by omega
        simp [h1, this]
      · have : ¬ j < i + 1 := by omega
        simp [h1, this]

/-- **Completeness is reachable**: the sequential schedule is complete for every program. -/
theorem seqSched_complete (m : Mode) (cfg : Cfg) (prog : List (List (List Nat))) :
    Complete prog (run m cfg prog (seqSched m prog)) := by
  obtain ⟨c, _, l, h⟩ := seqSched_prefix m cfg prog prog.length (Nat.le_refl _)
  unfold seqSched
  generalize run m cfg prog _ = s at *
  refine ⟨?_, by rw [c]; simp⟩
  intro t ht
  have := h t s.ths[t] (by simp [ht])
  have ht' : t < prog.length := by omega
  simpa only [ht', if_true] using this


/-! ### shutdown -/

@[simp] theorem chanEntries_nil : chanEntries [] = [] := rfl
@[simp] theorem chanEntries_data (t k : Nat) (b : List Nat) (c : List Msg) :
    chanEntries (.data t k b :: c) = (t, k, b) :: chanEntries c := rfl
@[simp] theorem chanEntries_flush (c : List Msg) : chanEntries (.flush :: c) = chanEntries c := rfl
@[simp] theorem chanEntries_shutdown (c : List Msg) :
    chanEntries (.shutdown :: c) = chanEntries c := rfl

theorem outSeqs_chanEntries (t : Nat) (c : List Msg) : outSeqs t (chanEntries c) = chanSeqs t c := by
  induction c with
  | nil => rfl
  | cons m c ih =>
    cases m with
    | data t' k b =>
      have : outSeqs t ((t', k, b) :: chanEntries c) = outSeqs t ([(t', k, b)] ++ chanEntries c) := rfl
      rw [chanEntries_data, this, outSeqs_append, ih]; simp
    | flush => simpa using ih
    | shutdown => simpa using ih

/-- once the writer thread has terminated nothing reaches the output any more (async mode) -/
theorem dead_frame (cfg : Cfg) (prog : List (List (List Nat))) (sched : List Act) : ∀ (s : St),
    s.writerAlive = false →
    (runFrom .async cfg prog s sched).writerAlive = false ∧
    (runFrom .async cfg prog s sched).outLines = s.outLines ∧
    (runFrom .async cfg prog s sched).out = s.out := by
  induction sched with
  | nil => intro s h; exact ⟨h, rfl, rfl⟩
  | cons a r ih =>
    intro s h
    have key : (step .async cfg prog s a).writerAlive = false ∧
        (step .async cfg prog s a).outLines = s.outLines ∧ (step .async cfg prog s a).out = s.out := by
      cases a <;> simp only [step] <;> (repeat' split) <;> simp_all
    obtain ⟨k1, k2, k3⟩ := key
    obtain ⟨i1, i2, i3⟩ := ih _ k1
    exact ⟨i1, by rw [← k2]; exact i2, by rw [← k3]; exact i3⟩

/-- every action other than `recv` leaves the output alone and at most appends to the channel -/
theorem nonrecv_frame (cfg : Cfg) (prog : List (List (List Nat))) (s : St) (a : Act)
    (ha : a ≠ .recv) :
    (∃ extra, (step .async cfg prog s a).chan = s.chan ++ extra) ∧
    (step .async cfg prog s a).writerAlive = s.writerAlive ∧
    (step .async cfg prog s a).outLines = s.outLines ∧ (step .async cfg prog s a).out = s.out := by
  cases a with
  | recv => exact absurd rfl ha
  | fmt t =>
    simp only [step]; (repeat' split) <;> exact ⟨⟨[], by simp⟩, rfl, rfl, rfl⟩
  | emit t => exact ⟨⟨[], by simp [step]⟩, rfl, rfl, rfl⟩
  | send t =>
    simp only [step]; (repeat' split)
    · exact ⟨⟨[], by simp⟩, rfl, rfl, rfl⟩
    · exact ⟨⟨_, rfl⟩, rfl, rfl, rfl⟩
    · exact ⟨⟨[], by simp⟩, rfl, rfl, rfl⟩
  | flushTick => exact ⟨⟨_, rfl⟩, rfl, rfl, rfl⟩
  | cleanupTick => exact ⟨⟨[], by simp [step]⟩, rfl, rfl, rfl⟩
  | shutdownTick => exact ⟨⟨_, rfl⟩, rfl, rfl, rfl⟩

theorem shutdown_drains_aux (cfg : Cfg) (prog : List (List (List Nat))) (sched : List Act) :
    ∀ (s : St) (pre post : List Msg),
    s.writerAlive = true → s.chan = pre ++ Msg.shutdown :: post → Msg.shutdown ∉ pre →
    (runFrom .async cfg prog s sched).writerAlive = false →
    (runFrom .async cfg prog s sched).outLines = s.outLines ++ chanEntries pre ∧
    (runFrom .async cfg prog s sched).out = s.out ++ (bytesOf (chanEntries pre)).flatten := by
  induction sched with
  | nil =>
    intro s pre post hal _ _ hfin
    simp [runFrom, hal] at hfin
  | cons a r ih =>
    intro s pre post hal hch hpre hfin
    have hrun : runFrom .async cfg prog s (a :: r)
        = runFrom .async cfg prog (step .async cfg prog s a) r := rfl
    rw [hrun] at hfin ⊢
    by_cases ha : a = .recv
    · subst ha
      cases pre with
      | nil =>
        have hs : step .async cfg prog s .recv = { s with chan := post, writerAlive := false } := by
          simp only [step, hal, hch]; simp
        rw [hs]
        obtain ⟨_, d2, d3⟩ := dead_frame cfg prog r { s with chan := post, writerAlive := false } rfl
        simp [d2, d3, bytesOf]
      | cons x pre' =>
        cases x with
        | data t k b =>
          have hs : step .async cfg prog s .recv =
              { s with chan := pre' ++ Msg.shutdown :: post, out := s.out ++ b,
                       outLines := s.outLines ++ [(t, k, b)],
                       pool := recycle cfg.clear cfg.poolCapa cfg.msgCapa s.pool b } := by
            simp only [step, hal, hch]; simp
          rw [hs] at hfin ⊢
          obtain ⟨i1, i2⟩ := ih _ pre' post (by exact hal) (by rfl) (fun h => hpre (by simp [h])) hfin
          simp [i1, i2, bytesOf]
        | flush =>
          have hs : step .async cfg prog s .recv =
              { s with chan := pre' ++ Msg.shutdown :: post,
                       pool := recycle cfg.clear cfg.poolCapa cfg.msgCapa s.pool flushBytes } := by
            simp only [step, hal, hch]; simp
          rw [hs] at hfin ⊢
          obtain ⟨i1, i2⟩ := ih _ pre' post (by exact hal) (by rfl) (fun h => hpre (by simp [h])) hfin
          simp [i1, i2]
        | shutdown => exact absurd (by simp) hpre
    · obtain ⟨⟨extra, f1⟩, f2, f3, f4⟩ := nonrecv_frame cfg prog s a ha
      obtain ⟨i1, i2⟩ := ih (step .async cfg prog s a) pre (post ++ extra) (by rw [f2, hal])
        (by rw [f1, hch]; simp) hpre hfin
      rw [i1, i2, f3, f4]; exact ⟨rfl, rfl⟩

/-- the writer thread, doing nothing but `recv`, terminates after the `shutdown` message -/
theorem recv_until_dead (cfg : Cfg) (prog : List (List (List Nat))) (pre : List Msg) :
    ∀ (s : St) (post : List Msg), s.writerAlive = true → s.chan = pre ++ Msg.shutdown :: post →
    Msg.shutdown ∉ pre →
    (runFrom .async cfg prog s (List.replicate (pre.length + 1) Act.recv)).writerAlive = false ∧
    (runFrom .async cfg prog s (List.replicate (pre.length + 1) Act.recv)).chan = post := by
  induction pre with
  | nil =>
    intro s post hal hch _
    simp [runFrom, step, hal, hch]
  | cons x pre' ih =>
    intro s post hal hch hpre
    have hrun : runFrom .async cfg prog s (List.replicate ((x :: pre').length + 1) Act.recv)
        = runFrom .async cfg prog (step .async cfg prog s .recv)
            (List.replicate (pre'.length + 1) Act.recv) := by
      simp [runFrom, List.replicate_succ]
    rw [hrun]
    cases x with
    | data t k b =>
      exact ih _ post (by simp only [step, hal, hch]; simp) (by simp only [step, hal, hch]; simp)
        (fun h => hpre (by simp [h]))
    | flush =>
      exact ih _ post (by simp only [step, hal, hch]; simp) (by simp only [step, hal, hch]; simp)
        (fun h => hpre (by simp [h]))
    | shutdown => exact absurd (by simp) hpre


/-! ### observed orders -/

theorem append_cons_eq_range {a b : List Nat} {k n : Nat} (h : a ++ k :: b = List.range n) :
    k = a.length ∧ a.length < n := by
  have h1 := congrArg (fun l => l[a.length]?) h
  simp only [List.getElem?_append_right (Nat.le_refl _), Nat.sub_self, List.getElem?_cons_zero] at h1
  have h2 := congrArg List.length h
  simp at h2
  have h3 : a.length < n := by omega
  rw [List.getElem?_range h3] at h1
  exact ⟨by simpa using h1, h3⟩

/-- state of the run of `obsSched` after the prefix `pre` of the observation -/
def ObsDone (prog : List (List (List Nat))) (pre : List (Nat × Nat)) (s : St) : Prop :=
  s.chan = [] ∧ s.writerAlive = true ∧ s.ths.length = prog.length ∧
    (∀ (j : Nat) (th : Th), s.ths[j]? = some th →
      th.pend = false ∧ th.sent = (pre.filter (fun e => e.1 == j)).length) ∧
    s.outLines.map (fun e => (e.1, e.2.1)) = pre

theorem obsSched_spec (m : Mode) (cfg : Cfg) (prog : List (List (List Nat)))
    (rest : List (Nat × Nat)) : ∀ (pre : List (Nat × Nat)) (s : St),
    ObsOk prog (pre ++ rest) → ObsDone prog pre s →
    ObsDone prog (pre ++ rest) (runFrom m cfg prog s (obsSched m rest)) := by
  induction rest with
  | nil => intro pre s _ h; simpa [obsSched, runFrom] using h
  | cons e r ih =>
    intro pre s hok ⟨c, a, l, hth, ho⟩
    obtain ⟨t, k⟩ := e
    have ht : t < prog.length := hok.1 (t, k) (by simp)
    have hlt : t < s.ths.length := by omega
    have hg : s.ths[t]? = some s.ths[t] := by simp [hlt]
    obtain ⟨hp, hs⟩ := hth t _ hg
    have hseq := hok.2 t ht
    simp only [List.filter_append, List.map_append, List.filter_cons, beq_self_eq_true, if_true,
      List.map_cons] at hseq
    obtain ⟨hk, hk2⟩ := append_cons_eq_range hseq
    simp only [List.length_map] at hk hk2
    obtain ⟨ln, hl⟩ := lineAt_of_lt (k := s.ths[t].sent) ht (by omega)
    obtain ⟨c1, a1, th1, e1, p1, s1, x, o1⟩ := lineActs_spec m cfg prog s t _ ln hg hp hl c a
    have hsplit : obsSched m ((t, k) :: r) = lineActs m t ++ obsSched m r := by
      simp [obsSched]
    rw [hsplit, runFrom_append]
    have := ih (pre ++ [(t, k)]) (runFrom m cfg prog s (lineActs m t))
      (by simpa using hok) ⟨c1, a1, by rw [e1, List.length_set]; exact l, ?_, ?_⟩
    · simpa using this
    · intro j th hj
      rw [e1] at hj
      by_cases hjt : j = t
      · subst hjt
        rw [List.getElem?_set_self hlt] at hj
        cases hj
        refine ⟨p1, ?_⟩
        simp [s1, hs]
      · rw [List.getElem?_set_ne (Ne.symm hjt)] at hj
        have := hth j th hj
        refine ⟨this.1, ?_⟩
        have hne : (t == j) = false := by simpa using Ne.symm hjt
        simp [this.2, List.filter_append, hne]
    · rw [o1, List.map_append, ho, hs, ← hk]
      rfl

/-- **Every accepted observation is realised by a complete schedule of the model.** -/
theorem obs_realizable (m : Mode) (cfg : Cfg) (prog : List (List (List Nat)))
    (obs : List (Nat × Nat)) (hok : ObsOk prog obs) :
    Complete prog (run m cfg prog (obsSched m obs)) ∧
    (run m cfg prog (obsSched m obs)).outLines.map (fun e => (e.1, e.2.1)) = obs := by
  have h0 : ObsDone prog [] (init prog) := by
    refine ⟨rfl, rfl, by simp [init], ?_, rfl⟩
    intro j th h
    simp [init] at h
    obtain ⟨_, h⟩ := h
    subst h; simp
  obtain ⟨c, _, l, hth, ho⟩ := obsSched_spec m cfg prog obs [] (init prog) (by simpa using hok) h0
  simp only [List.nil_append] at hth ho
  unfold run
  generalize runFrom m cfg prog (init prog) (obsSched m obs) = s at *
  refine ⟨⟨?_, by rw [c]; simp⟩, ho⟩
  intro t ht
  have ht' : t < prog.length := by omega
  have := hth t s.ths[t] (by simp [ht])
  refine ⟨this.1, ?_⟩
  have h2 := congrArg List.length (hok.2 t ht')
  simp only [List.length_map, List.length_range] at h2
  rw [this.2, h2]


/-! ### `drain`: every reachable state can be completed -/

/-- the thread an action belongs to -/
def Act.tid : Act → Option Nat
  | .fmt t => some t
  | .emit t => some t
  | .send t => some t
  | _ => none

theorem step_ths_other (m : Mode) (cfg : Cfg) (prog : List (List (List Nat))) (s : St) (a : Act)
    (t : Nat) (h : a.tid ≠ some t) : (step m cfg prog s a).ths[t]? = s.ths[t]? := by
  cases a <;> simp only [step] <;> (repeat' split) <;> first
    | rfl
    | (simp only [Act.tid, ne_eq, Option.some.injEq] at h
       simp only []
       rw [List.getElem?_set_ne h])

theorem step_ths_length (m : Mode) (cfg : Cfg) (prog : List (List (List Nat))) (s : St) (a : Act) :
    (step m cfg prog s a).ths.length = s.ths.length := by
  cases a <;> simp only [step] <;> (repeat' split) <;> simp

/-- thread `t` has handed over all its lines -/
def DoneAt (prog : List (List (List Nat))) (t : Nat) (s : St) : Prop :=
  ∃ th, s.ths[t]? = some th ∧ th.pend = false ∧ th.sent = (prog.getD t []).length

theorem lineAt_none_of_ge {prog : List (List (List Nat))} {t k : Nat}
    (h : (prog.getD t []).length ≤ k) : lineAt prog t k = none := by
  cases e : lineAt prog t k with
  | none => rfl
  | some l => have := lineAt_bound e; omega

/-- a finished thread stays finished, whatever happens -/
theorem done_stable (m : Mode) (cfg : Cfg) (prog : List (List (List Nat))) (t : Nat) (s : St)
    (a : Act) (h : DoneAt prog t s) : DoneAt prog t (step m cfg prog s a) := by
  obtain ⟨th, hth, hp, hs⟩ := h
  by_cases ha : a.tid = some t
  · have hn : lineAt prog t th.sent = none := lineAt_none_of_ge (by omega)
    cases a <;> simp only [Act.tid, Option.some.injEq, reduceCtorEq] at ha
    · subst ha; simp only [step, hth, hp, hn]; exact ⟨th, hth, hp, hs⟩
    · subst ha; cases m <;> simp only [step, hth, hp] <;> exact ⟨th, hth, hp, hs⟩
    · subst ha; cases m <;> simp only [step, hth, hp] <;> exact ⟨th, hth, hp, hs⟩
  · exact ⟨th, by rw [step_ths_other _ _ _ _ _ _ ha]; exact hth, hp, hs⟩

theorem done_stable_run (m : Mode) (cfg : Cfg) (prog : List (List (List Nat))) (t : Nat)
    (sched : List Act) : ∀ (s : St), DoneAt prog t s → DoneAt prog t (runFrom m cfg prog s sched) := by
  induction sched with
  | nil => intro s h; exact h
  | cons a r ih => intro s h; exact ih _ (done_stable m cfg prog t s a h)


theorem send_spec (cfg : Cfg) (prog : List (List (List Nat))) (s : St) (t : Nat)
    (th : Th) (hth : s.ths[t]? = some th) (hp : th.pend = true) :
    ∃ th1, (step .async cfg prog s (.send t)).ths = s.ths.set t th1 ∧ th1.pend = false
      ∧ th1.sent = th.sent + 1 := by
  simp only [step, hth, hp]; simp; exact ⟨_, rfl, rfl, rfl⟩

/-- handing over the pending line works in every state (it does not depend on the writer) -/
theorem handover_progress (m : Mode) (cfg : Cfg) (prog : List (List (List Nat))) (s : St) (t : Nat)
    (th : Th) (hth : s.ths[t]? = some th) (hp : th.pend = true) :
    ∃ th', (step m cfg prog s (handover m t)).ths[t]?
        = some th' ∧ th'.pend = false ∧ th'.sent = th.sent + 1 := by
  have hlt : t < s.ths.length := (List.getElem?_eq_some_iff.mp hth).1
  cases m with
  | sync =>
    obtain ⟨th2, e2, p2, s2, _⟩ := emit_spec cfg prog s t th hth hp
    exact ⟨th2, by simp only [handover]; rw [e2]; exact List.getElem?_set_self hlt, p2, s2⟩
  | async =>
    obtain ⟨th2, e2, p2, s2⟩ := send_spec cfg prog s t th hth hp
    exact ⟨th2, by simp only [handover]; rw [e2]; exact List.getElem?_set_self hlt, p2, s2⟩

/-- one more line of thread `t`, in ANY state (other threads' messages may be in the channel) -/
theorem lineActs_progress (m : Mode) (cfg : Cfg) (prog : List (List (List Nat))) (s : St) (t : Nat)
    (th : Th) (hth : s.ths[t]? = some th) (hp : th.pend = false)
    (hk : th.sent < (prog.getD t []).length) :
    ∃ th', (runFrom m cfg prog s (lineActs m t)).ths[t]? = some th' ∧ th'.pend = false
      ∧ th'.sent = th.sent + 1 := by
  have hlt : t < s.ths.length := (List.getElem?_eq_some_iff.mp hth).1
  have ht : t < prog.length := by
    apply Classical.byContradiction; intro h
    simp [List.getD_eq_getElem?_getD, Nat.le_of_not_lt h] at hk
  obtain ⟨l, hl⟩ := lineAt_of_lt ht hk
  obtain ⟨th1, e1, p1, s1, _⟩ := fmt_spec m cfg prog s t th l hth hp hl
  have hth1 : (step m cfg prog s (.fmt t)).ths[t]? = some th1 := by
    rw [e1]; exact List.getElem?_set_self hlt
  obtain ⟨th2, g2, p2, s2⟩ := handover_progress m cfg prog _ t th1 hth1 p1
  cases m with
  | sync =>
    simp only [lineActs, runFrom, List.foldl]
    exact ⟨th2, g2, p2, by omega⟩
  | async =>
    simp only [lineActs, runFrom, List.foldl]
    rw [step_ths_other _ _ _ _ _ _ (by simp [Act.tid])]
    exact ⟨th2, g2, p2, by omega⟩

theorem threadActs_progress (m : Mode) (cfg : Cfg) (prog : List (List (List Nat))) (t : Nat)
    (n : Nat) : ∀ (s : St) (th : Th), s.ths[t]? = some th → th.pend = false →
    th.sent ≤ (prog.getD t []).length → (prog.getD t []).length ≤ th.sent + n →
    DoneAt prog t (runFrom m cfg prog s (threadActs m t n)) := by
  induction n with
  | zero =>
    intro s th hth hp h1 h2
    exact ⟨th, hth, hp, by omega⟩
  | succ n ih =>
    intro s th hth hp h1 h2
    by_cases hk : th.sent < (prog.getD t []).length
    · have hsplit : threadActs m t (n + 1) = lineActs m t ++ threadActs m t n := by
        simp [threadActs, List.replicate_succ]
      rw [hsplit, runFrom_append]
      obtain ⟨th', g, p, s'⟩ := lineActs_progress m cfg prog s t th hth hp hk
      exact ih _ th' g p (by omega) (by omega)
    · exact done_stable_run m cfg prog t _ s ⟨th, hth, hp, by omega⟩

theorem drainThread_done {m : Mode} {cfg : Cfg} {prog : List (List (List Nat))} {s : St}
    (h : Inv m cfg prog s) (t : Nat) (ht : t < prog.length) :
    DoneAt prog t (runFrom m cfg prog s (drainThread m prog t)) := by
  have hlt : t < s.ths.length := by rw [h.len]; exact ht
  have hth : s.ths[t]? = some s.ths[t] := by simp [hlt]
  have hle := h.sent_le t _ hth
  unfold drainThread
  have hcons : ∀ a r, runFrom m cfg prog s (a :: r) = runFrom m cfg prog (step m cfg prog s a) r :=
    fun _ _ => rfl
  rw [hcons]
  cases hp : s.ths[t].pend with
  | true =>
    have := lineAt_bound (h.pend_ok t _ hth hp)
    obtain ⟨th', g, p, s'⟩ := handover_progress m cfg prog s t _ hth hp
    exact threadActs_progress m cfg prog t _ _ th' g p (by omega) (by omega)
  | false =>
    have hst : step m cfg prog s (handover m t) = s := by
      cases m <;> simp only [handover, step, hth, hp] <;> simp
    rw [hst]
    exact threadActs_progress m cfg prog t _ s _ hth hp hle (by omega)

theorem drainThreads_prefix {m : Mode} {cfg : Cfg} {prog : List (List (List Nat))}
    (hc : cfg.clear = true) {s : St} (h : Inv m cfg prog s) (i : Nat) (hi : i ≤ prog.length) :
    ∀ j, j < i → DoneAt prog j (runFrom m cfg prog s
      (((List.range i).map (drainThread m prog)).flatten)) := by
  induction i with
  | zero => intro j hj; omega
  | succ i ih =>
    intro j hj
    rw [List.range_succ, List.map_append, List.flatten_append, runFrom_append]
    simp only [List.map_cons, List.map_nil, List.flatten_cons, List.flatten_nil, List.append_nil]
    by_cases hji : j = i
    · subst hji
      exact drainThread_done (inv_runFrom hc h _) j (by omega)
    · exact done_stable_run m cfg prog j _ _ (ih (by omega) j (by omega))

/-! channel side -/

theorem alive_step (cfg : Cfg) (prog : List (List (List Nat))) (s : St) (a : Act)
    (ha : a ≠ .shutdownTick) (hal : s.writerAlive = true) (hns : Msg.shutdown ∉ s.chan) :
    (step .async cfg prog s a).writerAlive = true ∧ Msg.shutdown ∉ (step .async cfg prog s a).chan
      ∧ (step .async cfg prog s a).chan.length ≤ s.chan.length + 1 := by
  cases a with
  | shutdownTick => exact absurd rfl ha
  | recv =>
    simp only [step, hal, if_true]
    split
    · exact ⟨hal, hns, by omega⟩
    · rename_i e; rw [e] at hns
      exact ⟨by simp, fun h => hns (by simp [h]), by simp [e]; omega⟩
    · rename_i e; rw [e] at hns
      exact ⟨by simp, fun h => hns (by simp [h]), by simp [e]; omega⟩
    · rename_i e; rw [e] at hns; simp at hns
  | fmt t => simp only [step]; (repeat' split) <;> exact ⟨hal, hns, by simp⟩
  | emit t => exact ⟨hal, hns, by simp [step]⟩
  | send t =>
    simp only [step]; (repeat' split)
    · exact ⟨hal, hns, by simp⟩
    · exact ⟨hal, by simpa using hns, by simp⟩
    · exact ⟨hal, hns, by simp⟩
  | flushTick => exact ⟨hal, by simpa [step] using hns, by simp [step]⟩
  | cleanupTick => exact ⟨hal, hns, by simp [step]⟩

theorem alive_run (cfg : Cfg) (prog : List (List (List Nat))) (sched : List Act) : ∀ (s : St),
    (∀ a ∈ sched, a ≠ .shutdownTick) → s.writerAlive = true → Msg.shutdown ∉ s.chan →
    (runFrom .async cfg prog s sched).writerAlive = true ∧
    Msg.shutdown ∉ (runFrom .async cfg prog s sched).chan ∧
    (runFrom .async cfg prog s sched).chan.length ≤ s.chan.length + sched.length := by
  induction sched with
  | nil => intro s _ hal hns; exact ⟨hal, hns, by simp [runFrom]⟩
  | cons a r ih =>
    intro s hs hal hns
    obtain ⟨a1, a2, a3⟩ := alive_step cfg prog s a (hs a (by simp)) hal hns
    obtain ⟨b1, b2, b3⟩ := ih _ (fun x hx => hs x (by simp [hx])) a1 a2
    refine ⟨b1, b2, ?_⟩
    have : runFrom .async cfg prog s (a :: r)
        = runFrom .async cfg prog (step .async cfg prog s a) r := rfl
    rw [this]; simp only [List.length_cons]; omega

/-- a living writer that never sees a `shutdown` empties the channel -/
theorem recv_drains (cfg : Cfg) (prog : List (List (List Nat))) (n : Nat) : ∀ (s : St),
    s.writerAlive = true → Msg.shutdown ∉ s.chan → s.chan.length ≤ n →
    (runFrom .async cfg prog s (List.replicate n Act.recv)).chan = [] := by
  induction n with
  | zero =>
    intro s _ _ h
    simpa [runFrom] using h
  | succ n ih =>
    intro s hal hns hn
    have : runFrom .async cfg prog s (List.replicate (n + 1) Act.recv)
        = runFrom .async cfg prog (step .async cfg prog s .recv) (List.replicate n Act.recv) := by
      simp [runFrom, List.replicate_succ]
    rw [this]
    obtain ⟨a1, a2, _⟩ := alive_step cfg prog s .recv (by simp) hal hns
    apply ih _ a1 a2
    simp only [step, hal, if_true]
    split <;> simp_all <;> omega

theorem lineActs_noShutdown (m : Mode) (t : Nat) : Act.shutdownTick ∉ lineActs m t := by
  cases m <;> simp [lineActs]

theorem drainThreads_noShutdown (m : Mode) (prog : List (List (List Nat))) :
    ∀ a ∈ drainThreads m prog, a ≠ .shutdownTick := by
  intro a ha hs
  subst hs
  simp only [drainThreads, drainThread, threadActs, List.mem_flatten, List.mem_map,
    List.mem_range] at ha
  obtain ⟨l, ⟨t, _, rfl⟩, ha⟩ := ha
  rw [List.mem_cons] at ha
  cases ha with
  | inl h => cases m <;> simp [handover] at h
  | inr h =>
    rw [List.mem_flatten] at h
    obtain ⟨l', h1, h2⟩ := h
    rw [(List.mem_replicate.mp h1).2] at h2
    exact lineActs_noShutdown m t h2

/-- **`drain` completes every reachable state** in which the writer is alive and no `shutdown`
    is pending (in sync mode: every reachable state). -/
theorem drain_complete {m : Mode} {cfg : Cfg} {prog : List (List (List Nat))}
    (hc : cfg.clear = true) {s : St} (h : Inv m cfg prog s)
    (hw : m = .async → s.writerAlive = true ∧ Msg.shutdown ∉ s.chan) :
    Complete prog (drain m cfg prog s) := by
  unfold drain drainSched
  rw [runFrom_append]
  have hI := inv_runFrom hc h (drainThreads m prog ++
    List.replicate (s.chan.length + (drainThreads m prog).length) Act.recv)
  rw [runFrom_append] at hI
  have hdone : ∀ j, j < prog.length →
      DoneAt prog j (runFrom m cfg prog (runFrom m cfg prog s (drainThreads m prog))
        (List.replicate (s.chan.length + (drainThreads m prog).length) Act.recv)) :=
    fun j hj => done_stable_run m cfg prog j _ _
      (drainThreads_prefix hc h prog.length (Nat.le_refl _) j hj)
  have hchan : (runFrom m cfg prog (runFrom m cfg prog s (drainThreads m prog))
        (List.replicate (s.chan.length + (drainThreads m prog).length) Act.recv)).chan = [] := by
    cases m with
    | sync => exact hI.sync_chan rfl
    | async =>
      obtain ⟨hal, hns⟩ := hw rfl
      obtain ⟨a1, a2, a3⟩ := alive_run cfg prog (drainThreads .async prog) s
        (drainThreads_noShutdown .async prog) hal hns
      exact recv_drains cfg prog _ _ a1 a2 a3
  generalize runFrom m cfg prog (runFrom m cfg prog s (drainThreads m prog)) _ = s' at *
  refine ⟨?_, by rw [hchan]; simp⟩
  intro t ht
  obtain ⟨th, g, p, e⟩ := hdone t (by rw [← hI.len]; exact ht)
  have : s'.ths[t] = th := by
    have := List.getElem?_eq_some_iff.mp g
    exact this.2
  rw [this]; exact ⟨p, e⟩


/-! ### the observation checker of the driver -/

theorem checkObsAux_none_iff (prog : List (List (List Nat))) (rest : List (Nat × Nat)) :
    ∀ (pre : List (Nat × Nat)) (cnt : List Nat), cnt.length = prog.length →
    (∀ e ∈ pre, e.1 < prog.length) →
    (∀ t, t < prog.length →
      (pre.filter (fun e => e.1 == t)).map (·.2) = List.range (cnt.getD t 0)
        ∧ cnt.getD t 0 ≤ (prog.getD t []).length) →
    (checkObsAux prog cnt rest = none ↔ ObsOk prog (pre ++ rest)) := by
  induction rest with
  | nil =>
    intro pre cnt hlen hmem hcnt
    simp only [checkObsAux, List.append_nil]
    constructor
    · intro h
      split at h
      · cases h
      · rename_i hf
        rw [List.find?_eq_none] at hf
        refine ⟨hmem, fun t ht => ?_⟩
        have := hf t (List.mem_range.mpr ht)
        have e : cnt.getD t 0 = (prog.getD t []).length := by simpa using this
        rw [(hcnt t ht).1, e]
    · intro h
      split
      · rename_i t hf
        have h1 := List.find?_some hf
        have h2 := List.mem_range.mp (List.mem_of_find?_eq_some hf)
        have h3 := congrArg List.length (h.2 t h2)
        rw [(hcnt t h2).1] at h3
        simp at h3 h1
        omega
      · rfl
  | cons e r ih =>
    intro pre cnt hlen hmem hcnt
    obtain ⟨t, k⟩ := e
    simp only [checkObsAux]
    by_cases ht : t < prog.length
    · have hseq : ∀ (h : ObsOk prog (pre ++ (t, k) :: r)),
          k = cnt.getD t 0 ∧ k < (prog.getD t []).length := by
        intro h
        have h1 := h.2 t ht
        simp only [List.filter_append, List.map_append, List.filter_cons, beq_self_eq_true, if_true,
          List.map_cons] at h1
        obtain ⟨h2, h3⟩ := append_cons_eq_range h1
        rw [(hcnt t ht).1] at h2 h3
        simp only [List.length_range] at h2 h3
        omega
      by_cases hk : k = cnt.getD t 0
      · by_cases hk2 : k < (prog.getD t []).length
        · simp only [ht, hk2, if_true, ← hk]
          have := ih (pre ++ [(t, k)]) (cnt.set t (k + 1)) (by simp [hlen])
            (by
              intro e he
              rw [List.mem_append, List.mem_singleton] at he
              cases he with
              | inl he => exact hmem e he
              | inr he => subst he; exact ht)
            (by
              intro t' ht'
              by_cases htt : t' = t
              · subst htt
                have hl : t' < cnt.length := by omega
                have hg : (cnt.set t' (k + 1)).getD t' 0 = k + 1 := by
                  simp [List.getD_eq_getElem?_getD, hl]
                rw [hg]
                refine ⟨?_, by omega⟩
                rw [List.filter_append, List.map_append, (hcnt t' ht').1, ← hk, List.range_succ]
                simp
              · have hne : (t == t') = false := by simpa using Ne.symm htt
                have hg : (cnt.set t (k + 1)).getD t' 0 = cnt.getD t' 0 := by
                  simp [List.getD_eq_getElem?_getD, List.getElem?_set_ne (Ne.symm htt)]
                rw [hg]
                simpa [List.filter_append, hne] using hcnt t' ht')
          simpa using this
        · simp only [ht, hk2, if_true, if_false, ← hk]
          constructor
          · intro h; cases h
          · intro h; exact absurd (hseq h).2 hk2
      · simp only [ht, hk, if_true, if_false]
        constructor
        · intro h; cases h
        · intro h; exact absurd (hseq h).1 hk
    · simp only [ht, if_false]
      constructor
      · intro h; cases h
      · intro h; exact absurd (h.1 (t, k) (by simp)) ht

/-- the checker with diagnostics decides exactly the specification `ObsOk` -/
theorem checkObs_none_iff (prog : List (List (List Nat))) (obs : List (Nat × Nat)) :
    checkObs prog obs = none ↔ ObsOk prog obs := by
  have := checkObsAux_none_iff prog obs [] (prog.map (fun _ => 0)) (by simp) (by simp)
    (by intro t ht; simp [List.getD_eq_getElem?_getD, ht])
  simpa [checkObs] using this


end FV.Conc
