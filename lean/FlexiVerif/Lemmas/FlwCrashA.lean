import FlexiVerif.Model.FlwTrace
import FlexiVerif.Lemmas.FlwRestartA
/-
  C11 — a killed process loses no acknowledged direct-mode record and restarts cleanly
  (non-rotating writer, `Naming.numbers`, `Naming.timestamps`, no cleanup).

  1. the instrumented functions of `Model/FlwTrace.lean` project to the model functions;
  2. crash safety of a write / forced rotation in direct mode, point by point;
  3. a new logger on any crash directory continues the stream.
-/
namespace FV.FlwA
open FV.Flw

set_option linter.unusedSimpArgs false

/-! ### 1. projection -/

theorem hit_noFaults_open (k : Nat) : hit noFaults.openF k = false := rfl
theorem hit_noFaults_rename (k : Nat) : hit noFaults.renameF k = false := rfl
theorem hit_noFaults_write (k : Nat) : hit noFaults.writeF k = false := rfl
theorem hit_noFaults_remove (k : Nat) : hit noFaults.removeF k = false := rfl
theorem hit_noFaults_gz (k : Nat) : hit noFaults.gzF k = false := rfl

theorem openFileT_fst (s : St) (n : FName) (now : Nat) (k : Nat) :
    openFile s n now noFaults k = ((openFileT s n now).1, true) := by
  unfold openFile openFileT
  by_cases hs : s.cfg.symlink = true <;> cases hg : s.dir.get n <;>
    simp [hs, hg, hit_noFaults_open]

theorem cleanupLoopT_fst (now : Nat) (hs : Bool) (k m : Nat) (link : Option FName)
    (l : List (FName × File)) : ∀ (i : Nat) (d : Dir) (acc : List Pt) (rc gc : Nat),
    cleanupLoop now hs k m noFaults l i d rc gc =
      ((cleanupLoopT now hs k m link l i d acc).1, false) := by
  induction l with
  | nil => intro i d acc rc gc; simp [cleanupLoop, cleanupLoopT]
  | cons x rest ih =>
    intro i d acc rc gc
    obtain ⟨n, f⟩ := x
    rw [cleanupLoop, cleanupLoopT]
    by_cases h1 : i ≥ k + m
    · simp only [h1, if_true, hit_noFaults_remove, Bool.false_eq_true, if_false]
      exact ih _ _ _ _ _
    · simp only [h1, if_false]
      by_cases h2 : i ≥ k
      · simp only [h2, if_true]
        by_cases h3 : (n.gz || !hs) = true
        · simp only [h3, if_true]
          exact ih _ _ _ _ _
        · simp only [h3, if_false, hit_noFaults_remove, hit_noFaults_gz, Bool.false_eq_true]
          exact ih _ _ _ _ _
      · simp only [h2, if_false]
        exact ih _ _ _ _ _

theorem cleanupT_fst (now : Nat) (cfg : Cfg) (r : RotCfg) (link : Option FName) (d : Dir) :
    cleanup now cfg r noFaults d = ((cleanupT now cfg r link d).1, false) := by
  unfold cleanup cleanupT
  cases r.cleanup with
  | none => rfl
  | some km =>
    obtain ⟨k, m⟩ := km
    exact cleanupLoopT_fst _ _ _ _ _ _ _ _ _ _ _

/-- state after / points of `open_log_file`, as opaque names (so that `simp` can turn both the
    model call and the instrumented call into literal pairs) -/
def openS (s : St) (n : FName) (now : Nat) : St := (openFileT s n now).1
def openPts (s : St) (n : FName) (now : Nat) : List Pt := (openFileT s n now).2

theorem openFileT_eq (s : St) (n : FName) (now : Nat) :
    openFileT s n now = (openS s n now, openPts s n now) := rfl

theorem openFile_eq (s : St) (n : FName) (now : Nat) (k : Nat) :
    openFile s n now noFaults k = (openS s n now, true) := openFileT_fst s n now k

def cleanupS (now : Nat) (cfg : Cfg) (r : RotCfg) (d : Dir) : Dir := (cleanupT now cfg r none d).1
def cleanupPts (now : Nat) (cfg : Cfg) (r : RotCfg) (link : Option FName) (d : Dir) : List Pt :=
  (cleanupT now cfg r link d).2

theorem cleanup_eq (now : Nat) (cfg : Cfg) (r : RotCfg) (d : Dir) :
    cleanup now cfg r noFaults d = (cleanupS now cfg r d, false) := cleanupT_fst now cfg r none d

theorem cleanupT_eq (now : Nat) (cfg : Cfg) (r : RotCfg) (link : Option FName) (d : Dir) :
    cleanupT now cfg r link d = (cleanupS now cfg r d, cleanupPts now cfg r link d) := by
  have h1 := cleanupT_fst now cfg r link d
  have h2 := cleanupT_fst now cfg r none d
  rw [h1] at h2
  have : (cleanupT now cfg r link d).1 = (cleanupT now cfg r none d).1 := by
    injection h2
  unfold cleanupS cleanupPts
  rw [← this]

theorem initStateT_fst (s : St) (now : Nat) :
    initState s now noFaults = ((initStateT s now).1, true) := by
  unfold initState initStateT
  cases hr : s.cfg.rot with
  | none => simp [openFile_eq, openFileT_eq]
  | some r =>
    cases hn : r.naming <;> by_cases ha : s.cfg.append = true <;>
      cases hh : highestIndex s.dir <;>
      simp [hn, ha, hh, openFile_eq, openFileT_eq, cleanup_eq, cleanupT_eq, hit_noFaults_rename]

theorem mountNextCoreT_fst (s : St) (a : Active) (r : RotCfg) (force : Bool) (now : Nat) :
    mountNextCore s a r force now noFaults =
      ((mountNextCoreT s a r force now).1, (mountNextCoreT s a r force now).2.1, false) := by
  unfold mountNextCore mountNextCoreT
  by_cases h : (force || rotationNecessary r a now) = true
  · cases hn : r.naming <;>
      cases hrn : (s.dir.rename ⟨some .cur, false⟩ ⟨some (.num a.idx), false⟩).2 <;>
      by_cases hh : a.handle = ⟨some .cur, false⟩ <;>
      simp [h, hn, hrn, hh, openFile_eq, openFileT_eq, cleanup_eq, cleanupT_eq, hit_noFaults_rename,
        flushAct]
  · simp [h]

theorem mountNextT_fst (s : St) (a : Active) (r : RotCfg) (force : Bool) (now : Nat) :
    mountNext s a r force now noFaults =
      ((mountNextT s a r force now).1, (mountNextT s a r force now).2.1, false) := by
  unfold mountNext mountNextT
  by_cases h : (force || rotationNecessary r a now) = true
  · simp [h, mountNextCoreT_fst]
  · simp [h]

/-- when a rotation is due, the instrumented `mountNext` flushes (no point) and then runs the
    instrumented rotation proper -/
theorem mountNextT_due (s : St) (a : Active) (r : RotCfg) (force : Bool) (now : Nat)
    (h : (force || rotationNecessary r a now) = true) :
    mountNextT s a r force now = mountNextCoreT (flushAct s a).1 (flushAct s a).2 r true now := by
  simp [mountNextT, h]

theorem writeBufferT_fst (s : St) (b : List Nat) (now : Nat) :
    (writeBuffer s b now noFaults).1 = (writeBufferT s b now).1 := by
  unfold writeBuffer writeBufferT
  cases ha : s.act with
  | some a =>
    cases hr : s.cfg.rot with
    | none => simp [ha, hr, hit_noFaults_write]
    | some r => simp [ha, hr, hit_noFaults_write, mountNextT_fst]
  | none =>
    simp only [ha, initStateT_fst]
    cases ha1 : (initStateT s now).1.act with
    | none => simp [ha1]
    | some a1 =>
      cases hr : (initStateT s now).1.cfg.rot with
      | none => simp [ha1, hr, hit_noFaults_write]
      | some r => simp [ha1, hr, hit_noFaults_write, mountNextT_fst]

/-- **Projection.** The instrumented step is the model step (without faults). -/
theorem stepT_fst (s : St) (op : Op) (now : Nat) :
    (stepT s op now).1 = (step s op now noFaults).1 := by
  cases op with
  | write b => exact (writeBufferT_fst s b now).symm
  | rotate =>
    unfold stepT step
    cases ha : s.act with
    | none => rfl
    | some a =>
      cases hr : s.cfg.rot with
      | none => rfl
      | some r => simp [mountNextT_fst]
  | _ => rfl

/-- only writes and forced rotations have crash points -/
theorem stepT_points_only_write_rotate (s : St) (op : Op) (now : Nat)
    (h1 : ∀ b, op ≠ .write b) (h2 : op ≠ .rotate) : (stepT s op now).2 = [] := by
  cases op with
  | write b => exact absurd rfl (h1 b)
  | rotate => exact absurd rfl h2
  | _ => rfl

/-! ### directories a killed direct-mode process can leave behind -/

/-- infixes of the rotated files when there is no current file (`t`: bound of the stamps) -/
def NBound (r : RotCfg) (t : Nat) : Infix → Prop
  | .num _ => r.naming = .numbers
  | .ts k _ => r.naming = .timestamps ∧ k ≤ t
  | _ => False

/-- no current file: everything on disk is a plain rotated file (a kill between the rename of
    `rCURRENT` and the creation of the new one) -/
def NoCur (rot : Option RotCfg) (t : Nat) (d : Dir) : Prop :=
  ∃ r, rot = some r ∧ ∀ e ∈ ents d, e.1.gz = false ∧ ∃ i, e.1.ifx = some i ∧ NBound r t i

/-- the directories handled: empty; no current file; or consistent with a flushed writer `g`
    (`t`: lower bound of all later clock readings) -/
def CrashDir (rot : Option RotCfg) (t : Nat) (d : Dir) : Prop :=
  d = [] ∨ NoCur rot t d ∨
  ∃ cfg g a, cfg.rot = rot ∧ g.pending = [] ∧ InvAct cfg d g a ∧ Ext cfg d g ∧ g.stamp ≤ t

theorem nbound_of_bound {cfg : Cfg} {r : RotCfg} {idx st t : Nat} {i : Infix}
    (hr : cfg.rot = some r) (h : Bound cfg idx st i) (ht : st ≤ t) : NBound r t i := by
  cases i with
  | num n =>
    obtain ⟨⟨r', h1, h2⟩, -⟩ := h
    rw [hr] at h1
    cases h1
    exact h2
  | ts k rr =>
    obtain ⟨⟨r', h1, h2⟩, h3⟩ := h
    rw [hr] at h1
    cases h1
    exact ⟨h2, Nat.le_trans h3 ht⟩
  | cur => exact h
  | ext n => exact h

theorem NoCur.get_cur {rot : Option RotCfg} {t : Nat} {d : Dir} (h : NoCur rot t d) :
    d.get curN = none := by
  obtain ⟨r, -, h⟩ := h
  rw [get_eq_none_iff]
  intro e he hc
  obtain ⟨-, i, hi, hb⟩ := h e he
  rw [hc] at hi
  cases hi
  exact hb

theorem readAll_nocur {rot : Option RotCfg} {t : Nat} {d : Dir} (h : NoCur rot t d) :
    readAll d = ((rotatedAsc d).map (·.2.data)).flatten := by
  have hcur := h.get_cur
  obtain ⟨r, -, h⟩ := h
  have hext : extAsc d = [] := by
    apply extAsc_eq_nil
    intro e he n hn
    obtain ⟨-, i, hi, hb⟩ := h e he
    rw [hi] at hn
    cases hn
    exact hb
  have hpl : d.get ⟨none, false⟩ = none := by
    rw [get_eq_none_iff]
    intro e he hc
    obtain ⟨-, i, hi, -⟩ := h e he
    rw [hc] at hi
    cases hi
  unfold readAll
  rw [hext, show d.get ⟨some .cur, false⟩ = none from hcur, hpl]
  simp

theorem readAll_of_inv {cfg : Cfg} {d : Dir} {g : Active} {a : Abs} (h : InvAct cfg d g a)
    (hp : g.pending = []) : readAll d = flat a := by
  obtain ⟨f, -, hd, hpa⟩ := parts_of_inv h
  rw [← parts_flatten, hpa]
  rw [hp] at hd
  simp [flat, ← hd]

/-- a new current file on a directory without one -/
theorem InvAct.nocur {cfg : Cfg} {r : RotCfg} {t : Nat} {d : Dir} (hr : cfg.rot = some r)
    (hnc : ∀ e ∈ ents d, e.1.gz = false ∧ ∃ i, e.1.ifx = some i ∧ NBound r t i)
    (now idx stamp : Nat) (hidx : r.naming = .numbers → idx0 d ≤ idx)
    (hst : r.naming = .timestamps → t ≤ stamp) :
    InvAct cfg (d.set curN ⟨[], now⟩) ⟨curN, curN, [], false, idx, stamp, 0, now⟩
      ⟨(rotatedAsc d).map (·.2.data), [], true, 0, now⟩ where
  file := by
    rw [cnOf_some hr]
    exact ⟨_, get_set_self _ _ _, rfl⟩
  handle := (cnOf_some hr).symm
  path := (cnOf_some hr).symm
  unbuf := rfl
  names := by
    intro e he
    rw [cnOf_some hr]
    rcases (mem_set _ _ _ e).1 he with h | ⟨h, -⟩
    · left; rw [h]
    · right
      obtain ⟨h1, i, h2, h3⟩ := hnc e h
      refine ⟨h1, i, h2, ?_⟩
      cases i with
      | num n =>
        exact ⟨⟨r, hr, h3⟩, Nat.lt_of_lt_of_le (idx0_gt d e h n h2) (hidx h3)⟩
      | ts k rr => exact ⟨⟨r, hr, h3.1⟩, Nat.le_trans h3.2 (hst h3.1)⟩
      | cur => exact h3
      | ext n => exact h3
  closed := by
    have : ∀ v, isRot (curN, v) = false := fun v => by simp [isRot, Infix.rotated]
    rw [rotatedAsc_set_of_not_rot _ _ _ this]
  direct := fun _ => rfl
  started := rfl
  size := fun _ => ⟨rfl, rfl⟩

/-- `initState` on a directory without current file: with `numbers`, `highestIndex + 1` is
    fresh and the rename of the missing `rCURRENT` is a no-op; with `timestamps` the stamp is
    `now`; a new empty `rCURRENT` is created -/
theorem initState_nocur (s : St) (now t : Nat) (hra : RotA s.cfg.rot)
    (hnc : NoCur s.cfg.rot t s.dir) (ht : t ≤ now) :
    ∃ s', initState s now noFaults = (s', true) ∧ s'.cfg = s.cfg ∧
      Run now s' ⟨(rotatedAsc s.dir).map (·.2.data), [], true, 0, now⟩ ∧ Same s.dir s'.dir := by
  have hg0 := hnc.get_cur
  obtain ⟨r, hr, hents⟩ := hnc
  obtain ⟨hcl, hnm⟩ := hra r hr
  have hcn : cnOf s.cfg = curN := cnOf_some hr
  have hgs : (s.dir.set curN ⟨[], now⟩).get curN = some ⟨[], now⟩ := get_set_self _ _ _
  have hcr : createdOr (s.dir.set curN ⟨[], now⟩) curN now = now := by simp [createdOr, hgs]
  have hfl : fileLen (s.dir.set curN ⟨[], now⟩) curN = 0 := by simp [fileLen, hgs]
  have hc0 : createdOr s.dir curN now = now := by simp [createdOr, hg0]
  have hsame : Same s.dir (s.dir.set curN ⟨[], now⟩) := same_set_new _ _ _ hg0
  have hext : ∀ idx stamp, (r.naming = .timestamps → stamp = now) →
      Ext s.cfg (s.dir.set curN ⟨[], now⟩) ⟨curN, curN, [], false, idx, stamp, 0, now⟩ := by
    intro idx stamp hs
    constructor
    · intro _ f hf
      rw [hcn, hgs] at hf
      cases hf
      rfl
    · rintro ⟨r', h1, h2⟩
      rw [hr] at h1
      cases h1
      exact hs h2
  have hnt : r.naming = .numbers → ¬ r.naming = .timestamps := by
    intro h1 h2
    rw [h1] at h2
    cases h2
  cases ha : s.cfg.append with
  | true =>
    obtain ⟨s1, ho, hc1, hd1, -⟩ := openFile_new s curN now hg0
    rcases hnm with hn | hn
    · refine ⟨_, initState_numbers_app s s1 r now hr hn hcl ha ho hc1, hc1,
        ⟨_, rfl, ?_, ?_, Nat.zero_le _⟩, ?_⟩
      · simp only [hc1, hd1, hcr, hfl]
        exact InvAct.nocur hr hents now _ _ (fun _ => Nat.le_refl _) (fun h => absurd h (hnt hn))
      · simp only [hc1, hd1, hcr, hfl]
        exact hext _ _ (fun h => absurd h (hnt hn))
      · simp only [hd1]; exact hsame
    · refine ⟨_, initState_timestamps_app s s1 r now hr hn hcl ha ho hc1, hc1,
        ⟨_, rfl, ?_, ?_, ?_⟩, ?_⟩
      · simp only [hc1, hd1, hcr, hfl, hc0]
        exact InvAct.nocur hr hents now _ _ (fun h => by rw [hn] at h; cases h) (fun _ => ht)
      · simp only [hc1, hd1, hcr, hfl, hc0]
        exact hext _ _ (fun _ => rfl)
      · simp only [hc0]; exact Nat.le_refl _
      · simp only [hd1]; exact hsame
  | false =>
    have hren : ∀ tn, s.dir.rename curN tn = (s.dir, false) := by
      intro tn
      simp [Dir.rename, hg0]
    obtain ⟨s1, ho, hc1, hd1, -⟩ := openFile_new { s with dir := s.dir } curN now hg0
    replace hc1 : s1.cfg = s.cfg := hc1
    replace hd1 : s1.dir = s.dir.set curN ⟨[], now⟩ := hd1
    rcases hnm with hn | hn
    · refine ⟨_, initState_numbers_new s s1 r now s.dir false hr hn hcl ha (hren _) ho hc1, hc1,
        ⟨_, rfl, ?_, ?_, Nat.zero_le _⟩, ?_⟩
      · simp only [hc1, hd1, hcr, Bool.false_eq_true, if_false]
        exact InvAct.nocur hr hents now _ _ (fun _ => Nat.le_refl _) (fun h => absurd h (hnt hn))
      · simp only [hc1, hd1, hcr, Bool.false_eq_true, if_false]
        exact hext _ _ (fun h => absurd h (hnt hn))
      · simp only [hd1]; exact hsame
    · refine ⟨_, initState_timestamps_new s s1 r now s.dir false hr hn hcl ha (hren _) ho hc1, hc1,
        ⟨_, rfl, ?_, ?_, Nat.le_refl _⟩, ?_⟩
      · simp only [hc1, hd1, hcr]
        exact InvAct.nocur hr hents now _ _ (fun h => by rw [hn] at h; cases h) (fun _ => ht)
      · simp only [hc1, hd1, hcr]
        exact hext _ _ (fun _ => rfl)
      · simp only [hd1]; exact hsame

/-! ### 3. a new logger on a crash directory -/

/-- what a new logger with configuration `c` keeps of the directory: everything, except for the
    non-rotating writer without `append` (which truncates at its first write) -/
def kept (rot : Option RotCfg) (c : Cfg) (d : Dir) : List Nat :=
  if rot.isSome = true ∨ c.append = true then readAll d else []

theorem kept_nil (rot : Option RotCfg) (c : Cfg) : kept rot c [] = [] := by
  unfold kept
  split <;> rfl

/-- the first write of a new logger on a crash directory -/
theorem first_write_crash (rot : Option RotCfg) (hra : RotA rot) (t : Nat) (s : St)
    (hrot : s.cfg.rot = rot) (hnone : s.act = none) (hcd : CrashDir rot t s.dir)
    (b : List Nat) (now : Nat) (ht : t ≤ now) :
    ∃ a', MInv rot now (writeBuffer s b now noFaults).1 ⟨a', true, s.cfg.append⟩ ∧
      flat a' = kept rot s.cfg s.dir ++ b := by
  have hra' : RotA s.cfg.rot := by rw [hrot]; exact hra
  rcases hcd with hd | hnc | ⟨cfg, g, a, hcr, hgp, hI, hE, hst⟩
  · obtain ⟨h1, h2, -⟩ := write_unmounted rot hra s Abs.init t b now hrot hnone (Or.inl ⟨hd, rfl⟩) ht
    refine ⟨Abs.step rot (reinit rot s.cfg.append Abs.init now) (.write b) now,
      ⟨by rw [h1]; exact hrot, by rw [h1], Or.inl ⟨rfl, h2⟩⟩, ?_⟩
    rw [flat_step, flat_reinit _ _ _ _ (Or.inr (Or.inr rfl)), hd, kept_nil]
    rfl
  · obtain ⟨s1, hin, hc1, ⟨act1, ha1, hI1, hE1, hst1⟩, -⟩ :=
      initState_nocur s now t hra' (by rw [hrot]; exact hnc) ht
    rw [writeBuffer_init s s1 act1 b now hnone hin ha1]
    obtain ⟨h1, h2, -⟩ := writeBuffer_started2 s1 act1 _ b now (by rw [hc1]; exact hra') ha1 hI1 hE1 hst1
    rw [hc1, hrot] at h2
    refine ⟨Abs.step rot ⟨(rotatedAsc s.dir).map (·.2.data), [], true, 0, now⟩ (.write b) now,
      ⟨by rw [h1, hc1]; exact hrot, by rw [h1, hc1], Or.inl ⟨rfl, h2⟩⟩, ?_⟩
    rw [flat_step]
    have hk : kept rot s.cfg s.dir = readAll s.dir := by
      obtain ⟨r, hr, -⟩ := hnc
      unfold kept
      rw [if_pos (Or.inl (by simp [hr]))]
    rw [hk, readAll_nocur hnc]
    simp [flat, rec1]
  · have hcr' : s.cfg.rot = cfg.rot := hrot.trans hcr.symm
    have hI' := hI.recfg hcr' hgp
    have hE' := hE.recfg hcr'
    obtain ⟨h1, h2, -⟩ := write_unmounted rot hra s a t b now hrot hnone
      (Or.inr ⟨g, hgp, hI', hE', hst⟩) ht
    refine ⟨Abs.step rot (reinit rot s.cfg.append a now) (.write b) now,
      ⟨by rw [h1]; exact hrot, by rw [h1], Or.inl ⟨rfl, h2⟩⟩, ?_⟩
    rw [flat_step]
    unfold kept
    by_cases hk : rot.isSome = true ∨ s.cfg.append = true
    · rw [if_pos hk, flat_reinit _ _ _ _ (by
        rcases hk with h | h
        · exact Or.inl h
        · exact Or.inr (Or.inl h)), readAll_of_inv hI' hgp]
      rfl
    · rw [if_neg hk]
      have hr0 : rot = none := by
        cases rot with
        | none => rfl
        | some r => exact absurd (Or.inl rfl) hk
      have ha0 : s.cfg.append = false := by
        cases h : s.cfg.append with
        | false => rfl
        | true => exact absurd (Or.inr h) hk
      rw [hr0, ha0, reinit_truncate _ _ hI'.started]
      have := closed_nil_of_plain hI' (hrot.trans hr0)
      simp [flat, this, rec1]

theorem fbr_of_plain (ops : List (Op × Nat × Faults)) (h : ∀ o ∈ ops, o.1.plain = true) :
    FlushedBeforeRestart ops := by
  induction ops with
  | nil => trivial
  | cons o1 os ih =>
    cases os with
    | nil => trivial
    | cons o2 rest =>
      refine ⟨?_, ih (fun o ho => h o (List.mem_cons_of_mem _ ho))⟩
      intro hr
      have := h o2 (by simp)
      cases h2 : o2.1 <;> simp [h2, isRestart, Op.plain] at hr this

theorem monotone_cons {op : Op} {now : Nat} {fl : Faults} {os : List (Op × Nat × Faults)}
    (h : Monotone ((op, now, fl) :: os)) :
    Monotone os ∧ (op.usesClock = true → ∀ o ∈ os, o.1.usesClock = true → now ≤ o.2.1) := by
  unfold Monotone at h ⊢
  by_cases hu : op.usesClock = true
  · rw [List.filter_cons_of_pos (by simpa using hu), List.map_cons, List.pairwise_cons] at h
    refine ⟨h.2, fun _ o ho hou => ?_⟩
    apply h.1
    exact List.mem_map_of_mem (List.mem_filter.2 ⟨ho, by simpa using hou⟩)
  · rw [List.filter_cons_of_neg (by simpa using hu)] at h
    exact ⟨h, fun h' => absurd h' hu⟩

/-- a new logger on a crash directory, any plain history -/
theorem run_from_crash (rot : Option RotCfg) (hra : RotA rot) (t : Nat)
    (ops2 : List (Op × Nat × Faults)) : ∀ (s : St), s.cfg.rot = rot → s.act = none →
    CrashDir rot t s.dir →
    (∀ o ∈ ops2, o.1.plain = true ∧ o.2.2 = noFaults) → Monotone ops2 →
    (∀ o ∈ ops2, o.1.usesClock = true → t ≤ o.2.1) →
    (viewFiles (runOps s ops2)).flatten =
      (if records ops2 = [] then readAll s.dir else kept rot s.cfg s.dir) ++ written ops2 := by
  induction ops2 with
  | nil =>
    intro s _ hnone _ _ _ _
    have hrun : runOps s [] = s := rfl
    rw [hrun, viewFiles_unmounted s hnone, parts_flatten]
    simp [records, written]
  | cons o os ih =>
    intro s hrot hnone hcd hpl hmono hlb
    obtain ⟨op, now, fl⟩ := o
    obtain ⟨hp, hfl⟩ := hpl (op, now, fl) List.mem_cons_self
    simp only at hp hfl
    subst hfl
    obtain ⟨hmono', hclk⟩ := monotone_cons hmono
    have hpl' : ∀ o ∈ os, o.1.plain = true ∧ o.2.2 = noFaults :=
      fun o ho => hpl o (List.mem_cons_of_mem _ ho)
    have hrun : runOps s ((op, now, noFaults) :: os) = runOps (step s op now noFaults).1 os := rfl
    rw [hrun, written_cons]
    have hskip : ∀ op', (step s op' now noFaults).1 = s → records ((op', now, noFaults) :: os) = records os →
        rec1 op' = [] → op = op' →
        (viewFiles (runOps (step s op now noFaults).1 os)).flatten =
          (if records ((op, now, noFaults) :: os) = [] then readAll s.dir else kept rot s.cfg s.dir) ++
            (rec1 op ++ written os) := by
      intro op' h1 h2 h3 h4
      subst h4
      rw [h1, h2, h3, List.nil_append]
      exact ih s hrot hnone hcd hpl' hmono' (fun o ho => hlb o (List.mem_cons_of_mem _ ho))
    cases op with
    | write b =>
      have ht : t ≤ now := hlb _ List.mem_cons_self rfl
      obtain ⟨a', hI, hfa⟩ := first_write_crash rot hra t s hrot hnone hcd b now ht
      obtain ⟨⟨t', hI2⟩, -⟩ := mrun_inv rot hra os (step s (.write b) now noFaults).1 _ now hI
        (fun o ho => ⟨Or.inl (hpl' o ho).1, (hpl' o ho).2⟩) hmono'
        (fbr_of_plain os (fun o ho => (hpl' o ho).1))
        (by
          intro o ho hr
          have := (hpl' o (List.mem_of_mem_head? ho)).1
          cases h2 : o.1 <;> simp [h2, isRestart, Op.plain] at hr this)
        (hclk rfl)
      rw [hI2.view, MAbs.run_flat rot os (Or.inr (by
        intro o ho c hc
        have := (hpl' o ho).1
        rw [hc] at this
        cases this)) _ (Or.inr (Or.inl rfl))]
      show flat a' ++ written os = _
      rw [hfa]
      have : records ((Op.write b, now, noFaults) :: os) ≠ [] := by simp [records]
      rw [if_neg this]
      simp [rec1]
    | rotate => exact hskip .rotate (by simp [step, hnone]) rfl rfl rfl
    | flush => exact hskip .flush (by simp [step, hnone]) rfl rfl rfl
    | shutdown => exact hskip .shutdown (by simp [step, hnone]) rfl rfl rfl
    | restart c => cases hp
    | reset c => cases hp
    | extRename => cases hp
    | extRemove => cases hp
    | reopen => cases hp

/-! ### 2. the points of a rotation and of a write (direct mode) -/

theorem openS_new (s : St) (n : FName) (now : Nat) (h : s.dir.get n = none) :
    (openS s n now).dir = s.dir.set n ⟨[], now⟩ ∧ (openS s n now).cfg = s.cfg := by
  obtain ⟨s', ho, hc, hd, -⟩ := openFile_new s n now h
  rw [openFile_eq] at ho
  cases ho
  exact ⟨hd, hc⟩

theorem openPts_dirs (s : St) (n : FName) (now : Nat) :
    ∀ p ∈ openPts s n now, p.dir = s.dir ∨ p.dir = (openS s n now).dir := by
  unfold openPts openS openFileT
  cases hs : s.cfg.symlink with
  | true =>
    simp only [if_true]
    intro p hp
    simp only [List.mem_append, List.mem_cons, List.mem_nil_iff, or_false] at hp
    rcases hp with (rfl | rfl) | rfl
    · left; rfl
    · left; rfl
    · right; rfl
  | false =>
    simp only [Bool.false_eq_true, if_false]
    intro p hp
    simp only [List.mem_append, List.mem_cons, List.mem_nil_iff, or_false, false_or] at hp
    rcases hp with rfl | rfl
    · left; rfl
    · right; rfl

theorem mountNextCoreT_numbers_pts (s : St) (act : Active) (r : RotCfg) (force : Bool) (now : Nat)
    (hn : r.naming = .numbers) (hcl : r.cleanup = none)
    (h : (force || rotationNecessary r act now) = true)
    (d1 : Dir) (hren : s.dir.rename curN ⟨some (.num act.idx), false⟩ = (d1, true))
    (hh : act.handle = curN) :
    (mountNextCoreT s act r force now).2.2 =
      [pt "rename.before" s, pt "rename.after" { s with dir := d1 },
        pt "rot.infix_chosen" { s with dir := d1 }] ++
      openPts { s with dir := d1 } curN now ++
      [pt "rot.opened" (openS { s with dir := d1 } curN now),
        pt "rot.mounted" { openS { s with dir := d1 } curN now with
          dir := (openS { s with dir := d1 } curN now).dir.append
            ⟨some (.num act.idx), false⟩ act.pending }] := by
  simp [mountNextCoreT, h, hn, hren, hh, openFileT_eq, flushAct, cleanupT, hcl]

theorem mountNextCoreT_timestamps_pts (s : St) (act : Active) (r : RotCfg) (force : Bool) (now : Nat)
    (hn : r.naming = .timestamps) (hcl : r.cleanup = none)
    (h : (force || rotationNecessary r act now) = true)
    (d1 : Dir)
    (hren : s.dir.rename curN ⟨some (collisionFree s.dir act.stamp), false⟩ = (d1, true))
    (hh : act.handle = curN) :
    (mountNextCoreT s act r force now).2.2 =
      [pt "rename.before" s, pt "rename.after" { s with dir := d1 },
        pt "rot.infix_chosen" { s with dir := d1 }] ++
      openPts { s with dir := d1 } curN now ++
      [pt "rot.opened" (openS { s with dir := d1 } curN now),
        pt "rot.mounted" { openS { s with dir := d1 } curN now with
          dir := (openS { s with dir := d1 } curN now).dir.append
            ⟨some (collisionFree s.dir act.stamp), false⟩ act.pending }] := by
  simp [mountNextCoreT, h, hn, hren, hh, openFileT_eq, flushAct, cleanupT, hcl]

theorem mount_pts_dirs (s : St) (d1 : Dir) (tn : FName) (pend : List Nat) (now : Nat)
    (hg1 : d1.get curN = none) :
    ∀ p ∈ [pt "rename.before" s, pt "rename.after" { s with dir := d1 },
        pt "rot.infix_chosen" { s with dir := d1 }] ++
      openPts { s with dir := d1 } curN now ++
      [pt "rot.opened" (openS { s with dir := d1 } curN now),
        pt "rot.mounted" { openS { s with dir := d1 } curN now with
          dir := (openS { s with dir := d1 } curN now).dir.append tn pend }],
    p.dir = s.dir ∨ p.dir = d1 ∨ p.dir = d1.set curN ⟨[], now⟩ ∨
      p.dir = (d1.set curN ⟨[], now⟩).append tn pend := by
  have ho : (openS { s with dir := d1 } curN now).dir = d1.set curN ⟨[], now⟩ :=
    (openS_new { s with dir := d1 } curN now hg1).1
  intro p hp
  simp only [List.mem_append, List.mem_cons, List.mem_nil_iff, or_false] at hp
  rcases hp with ((rfl | rfl | rfl) | hp) | (rfl | rfl)
  · left; rfl
  · right; left; rfl
  · right; left; rfl
  · rcases openPts_dirs _ _ _ p hp with h | h
    · right; left; exact h
    · right; right; left; rw [h, ho]
  · right; right; left; exact ho
  · right; right; right
    show (openS { s with dir := d1 } curN now).dir.append tn pend = _
    rw [ho]

theorem mountNextCoreT_dirs (s : St) (act : Active) (r : RotCfg) (force : Bool) (now : Nat)
    (hcl : r.cleanup = none) (hnm : r.naming = .numbers ∨ r.naming = .timestamps)
    (h : (force || rotationNecessary r act now) = true) (d1 : Dir)
    (hren : s.dir.rename curN ⟨some (targetOf r s.dir act), false⟩ = (d1, true))
    (hh : act.handle = curN) (hg1 : d1.get curN = none) :
    (∀ p ∈ (mountNextCoreT s act r force now).2.2,
      p.dir = s.dir ∨ p.dir = d1 ∨ p.dir = d1.set curN ⟨[], now⟩ ∨
        p.dir = (d1.set curN ⟨[], now⟩).append ⟨some (targetOf r s.dir act), false⟩ act.pending) ∧
    (mountNextCoreT s act r force now).1.dir =
      (d1.set curN ⟨[], now⟩).append ⟨some (targetOf r s.dir act), false⟩ act.pending := by
  have hfst := mountNextCoreT_fst s act r force now
  rcases hnm with hn | hn
  · have ht : targetOf r s.dir act = .num act.idx := by simp [targetOf, hn]
    rw [ht] at hren ⊢
    obtain ⟨s', he, -, hd'⟩ := mountNextCore_numbers s act r force now hn hcl h d1 hren hh hg1
    rw [he] at hfst
    refine ⟨?_, ?_⟩
    · rw [mountNextCoreT_numbers_pts s act r force now hn hcl h d1 hren hh]
      exact mount_pts_dirs s d1 _ _ now hg1
    · have : s' = (mountNextCoreT s act r force now).1 := by injection hfst
      rw [← this, hd']
  · have ht : targetOf r s.dir act = collisionFree s.dir act.stamp := by simp [targetOf, hn]
    rw [ht] at hren ⊢
    obtain ⟨s', he, -, hd'⟩ := mountNextCore_timestamps s act r force now hn hcl h d1 hren hh hg1
    rw [he] at hfst
    refine ⟨?_, ?_⟩
    · rw [mountNextCoreT_timestamps_pts s act r force now hn hcl h d1 hren hh]
      exact mount_pts_dirs s d1 _ _ now hg1
    · have : s' = (mountNextCoreT s act r force now).1 := by injection hfst
      rw [← this, hd']

/-- every point of the rotation proper (direct mode): the directory is a crash directory with
    exactly the stream before the rotation -/
theorem mountNextCoreT_points (s : St) (act : Active) (a : Abs) (r : RotCfg) (force : Bool) (now : Nat)
    (hr : s.cfg.rot = some r) (hcl : r.cleanup = none)
    (hnm : r.naming = .numbers ∨ r.naming = .timestamps)
    (hi : InvAct s.cfg s.dir act a) (he : Ext s.cfg s.dir act) (hp : act.pending = [])
    (hcap : s.cfg.cap = none) (hst : act.stamp ≤ now)
    (h : (force || rotationNecessary r act now) = true) :
    ∀ p ∈ (mountNextCoreT s act r force now).2.2,
      CrashDir s.cfg.rot now p.dir ∧ readAll p.dir = flat a := by
  obtain ⟨f, hf, hdata⟩ := hi.file
  have hcn := cnOf_some hr
  rw [hcn] at hf
  have hfa : f.data = a.cur := by rw [← hdata, hp]; simp
  have hh : act.handle = curN := by rw [hi.handle, hcn]
  obtain ⟨htr, hfresh, hkey, hb⟩ := target_facts hr hnm hi
  obtain ⟨d1, hren, hg1, hg2, hasc, hmem, -, -, -⟩ :=
    rotate_dir0 s.dir f (targetOf r s.dir act) now hf htr hfresh hkey
  obtain ⟨hdirs, hfin⟩ := mountNextCoreT_dirs s act r force now hcl hnm h d1 hren hh hg1
  obtain ⟨s', act', hm, hc', hi', he', hst', -⟩ :=
    mountNextCore_rot2 s act a r force now hr hcl hnm hi hst h
  have hs' : s' = (mountNextCoreT s act r force now).1 := by
    have := mountNextCoreT_fst s act r force now
    rw [hm] at this
    injection this
  obtain ⟨hb1, hb2⟩ := hb (act.idx + 1) now (fun _ => Nat.lt_succ_self _) (fun _ => hst)
  -- the four directories
  have D0 : CrashDir s.cfg.rot now s.dir ∧ readAll s.dir = flat a :=
    ⟨Or.inr (Or.inr ⟨s.cfg, act, a, rfl, hp, hi, he, hst⟩), readAll_of_inv hi hp⟩
  have hnc1 : NoCur s.cfg.rot now d1 := by
    refine ⟨r, hr, ?_⟩
    intro e hem
    have hne : e.1 ≠ curN := (get_eq_none_iff d1 curN).1 hg1 e hem
    rcases hmem e ((mem_set _ _ _ e).2 (Or.inr ⟨hem, hne⟩)) with h1 | h1 | h1
    · exact absurd h1 hne
    · rw [h1]
      exact ⟨rfl, _, rfl, nbound_of_bound hr hb1 (Nat.le_refl _)⟩
    · rcases hi.names e h1 with h2 | ⟨h2, i, h3, h4⟩
      · rw [hcn] at h2
        exact absurd h2 hne
      · exact ⟨h2, i, h3, nbound_of_bound hr h4 hst⟩
  have D1 : CrashDir s.cfg.rot now d1 ∧ readAll d1 = flat a := by
    refine ⟨Or.inr (Or.inl hnc1), ?_⟩
    rw [readAll_nocur hnc1]
    have hnrC : ∀ v, isRot (curN, v) = false := fun v => by simp [isRot, Infix.rotated]
    rw [← rotatedAsc_set_of_not_rot d1 curN ⟨[], now⟩ hnrC, hasc]
    simp [flat, hi.closed, hfa]
  have hfile : (⟨f.data ++ act.pending, f.created⟩ : File) = f := by
    cases f
    simp [hp]
  have hcr : createdOr (d1.set curN ⟨[], now⟩) curN now = now := by simp [createdOr, hg2]
  have hI2 := hi.rotated hr f hdata (targetOf r s.dir act) _ (act.idx + 1) now now hg2
    (by rw [hasc]; simp only [hfile]) hmem hb1 hb2
  have D2 : CrashDir s.cfg.rot now (d1.set curN ⟨[], now⟩) ∧
      readAll (d1.set curN ⟨[], now⟩) = flat a := by
    refine ⟨Or.inr (Or.inr ⟨s.cfg, _, _, rfl, rfl, hI2, ?_, Nat.le_refl _⟩), ?_⟩
    · constructor
      · intro _ g hg
        rw [hcn, hg2] at hg
        cases hg
        exact hcr.symm
      · intro _
        exact hcr.symm
    · rw [readAll_of_inv hI2 rfl, flat_rotate]
  have D3 : CrashDir s.cfg.rot now s'.dir ∧ readAll s'.dir = flat a := by
    have hp' := hi'.direct hcap
    refine ⟨Or.inr (Or.inr ⟨s.cfg, act', _, rfl, hp', hi', he', hst'⟩), ?_⟩
    rw [readAll_of_inv hi' hp', flat_rotate]
  intro p hpm
  rcases hdirs p hpm with h1 | h1 | h1 | h1
  · rw [h1]; exact D0
  · rw [h1]; exact D1
  · rw [h1]; exact D2
  · rw [h1, ← hfin, ← hs']; exact D3

/-- the (empty) flush keeps the birth-time bookkeeping -/
theorem Ext.flush {cfg : Cfg} {d : Dir} {act : Active} {a : Abs} (he : Ext cfg d act)
    (hi : InvAct cfg d act a) :
    Ext cfg (d.append act.handle act.pending) { act with pending := [] } := by
  obtain ⟨f, hf, -⟩ := hi.file
  exact he.same (same_append _ _ _) ⟨f, hf⟩ rfl rfl

/-- every point of a rotation (direct mode): the directory is a crash directory with exactly
    the stream before the rotation -/
theorem mountNextT_points (s : St) (act : Active) (a : Abs) (r : RotCfg) (force : Bool) (now : Nat)
    (hr : s.cfg.rot = some r) (hcl : r.cleanup = none)
    (hnm : r.naming = .numbers ∨ r.naming = .timestamps)
    (hi : InvAct s.cfg s.dir act a) (he : Ext s.cfg s.dir act) (_hp : act.pending = [])
    (hcap : s.cfg.cap = none) (hst : act.stamp ≤ now)
    (h : (force || rotationNecessary r act now) = true) :
    ∀ p ∈ (mountNextT s act r force now).2.2,
      CrashDir s.cfg.rot now p.dir ∧ readAll p.dir = flat a := by
  rw [mountNextT_due s act r force now h]
  exact mountNextCoreT_points (flushAct s act).1 (flushAct s act).2 a r true now hr hcl hnm
    hi.flush (he.flush hi) rfl hcap hst rfl

/-- the points of a write on a mounted writer -/
theorem writeBufferT_mounted (s : St) (act : Active) (b : List Nat) (now : Nat)
    (hact : s.act = some act) :
    (writeBufferT s b now).2 =
      (match s.cfg.rot with
        | none => []
        | some r => (mountNextT s act r false now).2.2) ++
      [pt "write.before" (match s.cfg.rot with
        | none => s
        | some r => (mountNextT s act r false now).1),
       pt "write.after" (writeBufferT s b now).1] := by
  unfold writeBufferT
  cases hr : s.cfg.rot with
  | none => simp [hact, hr]
  | some r => simp [hact, hr]

/-- every point of a write on a mounted direct-mode writer -/
theorem write_points_run (s : St) (act : Active) (a : Abs) (b : List Nat) (now : Nat)
    (hra : RotA s.cfg.rot) (hact : s.act = some act) (hi : InvAct s.cfg s.dir act a)
    (he : Ext s.cfg s.dir act) (hcap : s.cfg.cap = none) (hst : act.stamp ≤ now) :
    (∀ p ∈ (writeBufferT s b now).2, CrashDir s.cfg.rot now p.dir ∧
      (readAll p.dir = flat a ∨ readAll p.dir = flat a ++ b)) ∧
    (∃ pre p, (writeBufferT s b now).2 = pre ++ [p] ∧ p.name = "write.after" ∧
      readAll p.dir = flat a ++ b) := by
  have hp : act.pending = [] := hi.direct hcap
  obtain ⟨hc3, ⟨act3, ha3, hI3, hE3, hst3⟩, -⟩ := writeBuffer_started2 s act a b now hra hact hi he hst
  rw [writeBufferT_fst] at hc3 ha3 hI3 hE3
  have hp3 : act3.pending = [] := hI3.direct (by rw [hc3]; exact hcap)
  have Dfin : CrashDir s.cfg.rot now (writeBufferT s b now).1.dir ∧
      readAll (writeBufferT s b now).1.dir = flat a ++ b := by
    refine ⟨Or.inr (Or.inr ⟨_, act3, _, by rw [hc3], hp3, hI3, hE3, hst3⟩), ?_⟩
    rw [readAll_of_inv hI3 hp3, flat_step]
    rfl
  have D0 : CrashDir s.cfg.rot now s.dir ∧ readAll s.dir = flat a :=
    ⟨Or.inr (Or.inr ⟨s.cfg, act, a, rfl, hp, hi, he, hst⟩), readAll_of_inv hi hp⟩
  rw [writeBufferT_mounted s act b now hact]
  -- the rotation part
  have hmount : (∀ p ∈ (match s.cfg.rot with
        | none => []
        | some r => (mountNextT s act r false now).2.2),
        CrashDir s.cfg.rot now p.dir ∧ readAll p.dir = flat a) ∧
      (CrashDir s.cfg.rot now (match s.cfg.rot with
        | none => s
        | some r => (mountNextT s act r false now).1).dir ∧
       readAll (match s.cfg.rot with
        | none => s
        | some r => (mountNextT s act r false now).1).dir = flat a) := by
    cases hr : s.cfg.rot with
    | none =>
      dsimp only
      refine ⟨fun p hp => (by cases hp), ?_⟩
      rw [hr] at D0
      exact D0
    | some r =>
      dsimp only
      rw [hr] at D0
      obtain ⟨hcl, hnm⟩ := hra r hr
      by_cases hnec : rotationNecessary r act now = true
      · have h : (false || rotationNecessary r act now) = true := by simp [hnec]
        have hpts := mountNextT_points s act a r false now hr hcl hnm hi he hp hcap hst h
        rw [hr] at hpts
        refine ⟨hpts, ?_⟩
        obtain ⟨s', act', hm, hc', hi', he', hst', -⟩ :=
          mountNext_rot2 s act a r false now hr hcl hnm hi hst h
        have hs' : s' = (mountNextT s act r false now).1 := by
          have := mountNextT_fst s act r false now
          rw [hm] at this
          injection this
        rw [← hs']
        have hp' := hi'.direct hcap
        refine ⟨Or.inr (Or.inr ⟨s.cfg, act', _, hr, hp', hi', he', hst'⟩), ?_⟩
        rw [readAll_of_inv hi' hp', flat_rotate]
      · have hm : mountNextT s act r false now = (s, act, []) := by
          simp [mountNextT, hnec]
        rw [hm]
        exact ⟨fun p hp => (by cases hp), D0⟩
  obtain ⟨hm1, hm2⟩ := hmount
  generalize (match s.cfg.rot with
    | none => ([] : List Pt)
    | some r => (mountNextT s act r false now).2.2) = tr1 at hm1 ⊢
  generalize (match s.cfg.rot with
    | none => s
    | some r => (mountNextT s act r false now).1) = s2 at hm2 ⊢
  refine ⟨?_, ?_⟩
  · intro p hpm
    simp only [List.mem_append, List.mem_cons, List.mem_nil_iff, or_false] at hpm
    rcases hpm with hpm | rfl | rfl
    · exact ⟨(hm1 p hpm).1, Or.inl (hm1 p hpm).2⟩
    · exact ⟨hm2.1, Or.inl hm2.2⟩
    · exact ⟨Dfin.1, Or.inr Dfin.2⟩
  · exact ⟨tr1 ++ [pt "write.before" s2], pt "write.after" (writeBufferT s b now).1, by simp, rfl,
      Dfin.2⟩

/-- a write on an unmounted writer: the points of the initialisation, then those of the write
    on the mounted writer -/
theorem writeBufferT_init (s : St) (act1 : Active) (b : List Nat) (now : Nat) (hact : s.act = none)
    (h1 : (initStateT s now).1.act = some act1) :
    writeBufferT s b now =
      ((writeBufferT (initStateT s now).1 b now).1,
        (initStateT s now).2 ++ (writeBufferT (initStateT s now).1 b now).2) := by
  unfold writeBufferT
  cases hr : (initStateT s now).1.cfg.rot with
  | none => simp [hact, h1, hr]
  | some r => simp [hact, h1, hr]

/-- the first initialisation (empty directory): every point sees the empty directory or the
    directory with the new empty current file -/
theorem initStateT_empty_dirs (s : St) (now : Nat) (hra : RotA s.cfg.rot) (hd : s.dir = []) :
    ∀ p ∈ (initStateT s now).2, p.dir = [] ∨ p.dir = (initStateT s now).1.dir := by
  have hg0 : ∀ n, s.dir.get n = none := by intro n; rw [hd]; rfl
  have hren : ∀ a b, s.dir.rename a b = (s.dir, false) := by
    intro a b
    simp [Dir.rename, hg0]
  have key : ∀ (s0 : St) (n : FName), s0.dir = s.dir → ∀ p ∈ openPts s0 n now,
      p.dir = [] ∨ p.dir = (openS s0 n now).dir := by
    intro s0 n h0 p hp
    rcases openPts_dirs s0 n now p hp with h | h
    · left; rw [h, h0, hd]
    · right; exact h
  unfold initStateT
  cases hr : s.cfg.rot with
  | none =>
    simp only [openFileT_eq]
    exact key s _ rfl
  | some r =>
    obtain ⟨hcl, hnm⟩ := hra r hr
    rcases hnm with hn | hn
    · cases ha : s.cfg.append <;> cases hh : highestIndex s.dir <;>
        simp only [hn, ha, hh, hren, openFileT_eq, cleanupT, hcl, Bool.not_false, Bool.not_true,
          if_true, Bool.false_eq_true, if_false, List.append_nil, List.nil_append] <;>
        intro p hp <;>
        (try simp only [List.mem_append, List.mem_cons, List.mem_nil_iff, or_false] at hp)
      all_goals first
        | exact key _ _ rfl p hp
        | (rcases hp with rfl | hp
           · left; exact hd
           · exact key _ _ rfl p hp)
    · cases ha : s.cfg.append <;>
        simp only [hn, ha, hren, openFileT_eq, cleanupT, hcl, Bool.not_false, Bool.not_true,
          if_true, Bool.false_eq_true, if_false, List.append_nil, List.nil_append] <;>
        intro p hp <;>
        (try simp only [List.mem_append, List.mem_cons, List.mem_nil_iff, or_false] at hp)
      all_goals first
        | exact key _ _ rfl p hp
        | (rcases hp with (rfl | rfl) | hp
           · left; exact hd
           · left; exact hd
           · exact key _ _ rfl p hp)

/-- every point of the first write ever (empty directory, direct mode) -/
theorem write_points_empty (s : St) (b : List Nat) (now : Nat) (hra : RotA s.cfg.rot)
    (hnone : s.act = none) (hd : s.dir = []) (hcap : s.cfg.cap = none) :
    (∀ p ∈ (writeBufferT s b now).2, CrashDir s.cfg.rot now p.dir ∧
      (readAll p.dir = [] ∨ readAll p.dir = b)) ∧
    (∃ pre p, (writeBufferT s b now).2 = pre ++ [p] ∧ p.name = "write.after" ∧
      readAll p.dir = b) := by
  obtain ⟨s1, hin, hc1, ⟨act1, ha1, hI1, hE1, hst1⟩, -⟩ := initState_empty s now hra hd
  have hs1 : s1 = (initStateT s now).1 := by
    have := initStateT_fst s now
    rw [hin] at this
    injection this
  rw [hs1] at hc1 ha1 hI1 hE1
  have hcap1 : (initStateT s now).1.cfg.cap = none := by rw [hc1]; exact hcap
  have hp1 : act1.pending = [] := hI1.direct hcap1
  obtain ⟨h1, pre, p, h2, h3, h4⟩ := write_points_run (initStateT s now).1 act1 _ b now
    (by rw [hc1]; exact hra) ha1 hI1 hE1 hcap1 hst1
  rw [writeBufferT_init s act1 b now hnone ha1]
  refine ⟨?_, (initStateT s now).2 ++ pre, p, by simp [h2], h3, by simpa [flat] using h4⟩
  intro q hq
  rcases List.mem_append.1 hq with hq | hq
  · rcases initStateT_empty_dirs s now hra hd q hq with h | h
    · rw [h]
      exact ⟨Or.inl rfl, Or.inl rfl⟩
    · rw [h]
      refine ⟨Or.inr (Or.inr ⟨_, act1, _, by rw [hc1], hp1, hI1, hE1, hst1⟩), Or.inl ?_⟩
      rw [readAll_of_inv hI1 hp1]
      rfl
  · have := h1 q hq
    rw [hc1] at this
    simpa [flat] using this

/-! ### plain histories: the clock bound, the configuration, and "nothing written yet" -/

theorem MInv.mono {rot : Option RotCfg} {t t' : Nat} {s : St} {m : MAbs} (h : MInv rot t s m)
    (ht : t ≤ t') : MInv rot t' s m := by
  obtain ⟨h1, h2, h3⟩ := h
  refine ⟨h1, h2, ?_⟩
  rcases h3 with ⟨hl, hr⟩ | ⟨hl, hn, hg⟩
  · exact Or.inl ⟨hl, hr.mono ht⟩
  · exact Or.inr ⟨hl, hn, hg.mono ht⟩

theorem plain_step_extra (rot : Option RotCfg) (hra : RotA rot) (s : St) (m : MAbs) (t : Nat)
    (op : Op) (now : Nat) (hi : MInv rot t s m) (hp : op.plain = true)
    (ht : op.usesClock = true → t ≤ now) :
    (step s op now noFaults).1.cfg = s.cfg ∧
    ((m.step rot op now).live = false → m.live = false ∧ (step s op now noFaults).1 = s) := by
  obtain ⟨hrot, happ, hi⟩ := hi
  have hra' : RotA s.cfg.rot := by rw [hrot]; exact hra
  cases op with
  | write b =>
    refine ⟨?_, fun h => by cases h⟩
    rcases hi with ⟨hl, act, hact, hI, hE, hst⟩ | ⟨hl, hnone, hg⟩
    · exact (writeBuffer_started2 s act m.abs b now hra' hact hI hE (Nat.le_trans hst (ht rfl))).1
    · exact (write_unmounted rot hra s m.abs t b now hrot hnone hg (ht rfl)).1
  | rotate =>
    rcases hi with ⟨hl, act, hact, hI, hE, hst⟩ | ⟨hl, hnone, hg⟩
    · refine ⟨?_, fun h => by simp [MAbs.step, hl] at h⟩
      cases hr : s.cfg.rot with
      | none => simp [step, hact, hr]
      | some r =>
        obtain ⟨hcl, hnm⟩ := hra' r hr
        obtain ⟨s2, act2, hm, hc2, -⟩ :=
          mountNext_rot2 s act m.abs r true now hr hcl hnm hI (Nat.le_trans hst (ht rfl)) rfl
        simp [step, hact, hr, hm, hc2]
    · have hs : (step s .rotate now noFaults).1 = s := by simp [step, hnone]
      exact ⟨by rw [hs], fun _ => ⟨hl, hs⟩⟩
  | flush =>
    rcases hi with ⟨hl, act, hact, -⟩ | ⟨hl, hnone, -⟩
    · exact ⟨by simp [step, hact, flushAct], fun h => by simp [MAbs.step, hl] at h⟩
    · have hs : (step s .flush now noFaults).1 = s := by simp [step, hnone]
      exact ⟨by rw [hs], fun _ => ⟨hl, hs⟩⟩
  | shutdown =>
    rcases hi with ⟨hl, act, hact, -⟩ | ⟨hl, hnone, -⟩
    · exact ⟨by simp [step, hact, flushAct], fun h => by simp [MAbs.step, hl] at h⟩
    · have hs : (step s .shutdown now noFaults).1 = s := by simp [step, hnone]
      exact ⟨by rw [hs], fun _ => ⟨hl, hs⟩⟩
  | restart c => cases hp
  | reset c => cases hp
  | extRename => cases hp
  | extRemove => cases hp
  | reopen => cases hp

/-- a plain history with all clock readings `≤ T`: the invariant holds with bound `T`, the
    configuration is unchanged, and an unmounted writer means an untouched directory -/
theorem prun_inv (rot : Option RotCfg) (hra : RotA rot) (T : Nat) (ops : List (Op × Nat × Faults)) :
    ∀ (s : St) (m : MAbs) (t : Nat), MInv rot t s m → (m.live = false → s.dir = []) → t ≤ T →
      (∀ o ∈ ops, o.1.plain = true ∧ o.2.2 = noFaults) → Monotone ops →
      (∀ o ∈ ops, o.1.usesClock = true → t ≤ o.2.1 ∧ o.2.1 ≤ T) →
      MInv rot T (runOps s ops) (MAbs.run rot m ops) ∧ (runOps s ops).cfg = s.cfg ∧
      ((MAbs.run rot m ops).live = false → (runOps s ops).dir = []) := by
  induction ops with
  | nil =>
    intro s m t hi hdead htT _ _ _
    exact ⟨hi.mono htT, rfl, hdead⟩
  | cons o os ih =>
    intro s m t hi hdead htT hpl hmono hlb
    obtain ⟨op, now, fl⟩ := o
    obtain ⟨hp, hfl⟩ := hpl (op, now, fl) List.mem_cons_self
    simp only at hp hfl
    subst hfl
    obtain ⟨hmono', hclk⟩ := monotone_cons hmono
    have ht : op.usesClock = true → t ≤ now := fun h => (hlb _ List.mem_cons_self h).1
    obtain ⟨hstep, -⟩ := mstep_inv rot hra s m t op now hi (Or.inl hp)
      (fun h => by cases op <;> simp [isRestart, Op.plain] at h hp) ht
    obtain ⟨hcfg, hdead1⟩ := plain_step_extra rot hra s m t op now hi hp ht
    have hrun : runOps s ((op, now, noFaults) :: os) = runOps (step s op now noFaults).1 os := rfl
    have habs : MAbs.run rot m ((op, now, noFaults) :: os) =
        MAbs.run rot (m.step rot op now) os := rfl
    rw [hrun, habs]
    obtain ⟨h1, h2, h3⟩ := ih (step s op now noFaults).1 (m.step rot op now)
      (if op.usesClock then now else t) hstep
      (by
        intro hl
        obtain ⟨hl0, hs⟩ := hdead1 hl
        rw [hs]
        exact hdead hl0)
      (by
        by_cases hu : op.usesClock = true
        · rw [if_pos hu]; exact (hlb _ List.mem_cons_self hu).2
        · rw [if_neg hu]; exact htT)
      (fun o ho => hpl o (List.mem_cons_of_mem _ ho)) hmono'
      (by
        intro o ho hou
        refine ⟨?_, (hlb o (List.mem_cons_of_mem _ ho) hou).2⟩
        by_cases hu : op.usesClock = true
        · rw [if_pos hu]; exact hclk hu o ho hou
        · rw [if_neg hu]; exact (hlb o (List.mem_cons_of_mem _ ho) hou).1)
    exact ⟨h1, h2.trans hcfg, h3⟩

/-! ### C11: the theorems -/

/-- configurations of the victim process: direct writes, no cleanup, no rotation or rotation
    with `Naming.numbers` / `Naming.timestamps` (`append` arbitrary) -/
def CfgC (cfg : Cfg) : Prop :=
  cfg.cap = none ∧ NoCleanup cfg ∧
  ∀ r, cfg.rot = some r → (r.naming = .numbers ∨ r.naming = .timestamps)

theorem CfgC.rotA {cfg : Cfg} (h : CfgC cfg) : RotA cfg.rot :=
  fun r hr => ⟨h.2.1 r hr, h.2.2 r hr⟩

/-- all points of the victim operation: crash directory and stream -/
theorem victim_points (cfg : Cfg) (hc : CfgC cfg) (ops : List (Op × Nat × Faults))
    (hp : PlainHistory ops) (now : Nat)
    (hnow : ∀ o ∈ ops, o.1.usesClock = true → o.2.1 ≤ now) :
    (∀ b, (∀ p ∈ (stepT (runOps (init cfg []) ops) (.write b) now).2,
        CrashDir cfg.rot now p.dir ∧
          (readAll p.dir = written ops ∨ readAll p.dir = written ops ++ b)) ∧
      (∃ pre p, (stepT (runOps (init cfg []) ops) (.write b) now).2 = pre ++ [p] ∧
        p.name = "write.after" ∧ readAll p.dir = written ops ++ b)) ∧
    (∀ p ∈ (stepT (runOps (init cfg []) ops) .rotate now).2,
      CrashDir cfg.rot now p.dir ∧ readAll p.dir = written ops) := by
  have hra := hc.rotA
  obtain ⟨hI, hcfg, hdead⟩ := prun_inv cfg.rot hra now ops (init cfg []) ⟨Abs.init, false, cfg.append⟩ 0
    (minv_init cfg) (fun _ => rfl) (Nat.zero_le _) hp.1 hp.2
    (fun o ho hu => ⟨Nat.zero_le _, hnow o ho hu⟩)
  have hflat := MAbs.run_flat cfg.rot ops (Or.inr (by
    intro o ho c hcr
    have := (hp.1 o ho).1
    rw [hcr] at this
    cases this)) ⟨Abs.init, false, cfg.append⟩ (Or.inr (Or.inr (Or.inr rfl)))
  replace hflat : flat (MAbs.run cfg.rot ⟨Abs.init, false, cfg.append⟩ ops).abs = written ops := by
    rw [hflat]
    rfl
  replace hcfg : (runOps (init cfg []) ops).cfg = cfg := hcfg
  generalize runOps (init cfg []) ops = s at hI hcfg hdead
  generalize MAbs.run cfg.rot ⟨Abs.init, false, cfg.append⟩ ops = m at hI hflat hdead
  have hra' : RotA s.cfg.rot := by rw [hcfg]; exact hra
  have hcap : s.cfg.cap = none := by rw [hcfg]; exact hc.1
  obtain ⟨-, -, h⟩ := hI
  rcases h with ⟨hl, act, hact, hI', hE, hst⟩ | ⟨hl, hnone, hg⟩
  · have hpnd : act.pending = [] := hI'.direct hcap
    refine ⟨fun b => ?_, ?_⟩
    · have := write_points_run s act m.abs b now hra' hact hI' hE hcap hst
      rw [hcfg, hflat] at this
      exact this
    · cases hr : s.cfg.rot with
      | none =>
        have : (stepT s .rotate now).2 = [] := by simp [stepT, hact, hr]
        rw [this]
        intro p hpm
        cases hpm
      | some r =>
        obtain ⟨hcl, hnm⟩ := hra' r hr
        have : (stepT s .rotate now).2 = (mountNextT s act r true now).2.2 := by
          simp [stepT, hact, hr]
        rw [this]
        have := mountNextT_points s act m.abs r true now hr hcl hnm hI' hE hpnd hcap hst rfl
        rw [hcfg, hflat] at this
        exact this
  · have hd := hdead hl
    have hw : written ops = [] := by
      rw [← hflat]
      rcases hg with ⟨-, ha⟩ | ⟨g, -, hIg, -, -⟩
      · rw [ha]
        rfl
      · obtain ⟨f, hf, -⟩ := hIg.file
        rw [hd] at hf
        cases hf
    refine ⟨fun b => ?_, ?_⟩
    · have := write_points_empty s b now hra' hnone hd hcap
      rw [hcfg] at this
      rw [hw]
      exact this
    · have : (stepT s .rotate now).2 = [] := by simp [stepT, hnone]
      rw [this]
      intro p hpm
      cases hpm

/-- **C11, crash safety in direct mode.** After any plain history, a process killed at any
    recorded point of the next write leaves every acknowledged record on disk, in order, plus at
    most the in-flight record; the last point of the write (after which the log call returns)
    is `write.after`, with the record on disk; a forced rotation never changes the stream. -/
theorem crash_safe_A (cfg : Cfg) (hc : CfgC cfg) (ops : List (Op × Nat × Faults))
    (hp : PlainHistory ops) (b : List Nat) (now : Nat)
    (hnow : ∀ o ∈ ops, o.1.usesClock = true → o.2.1 ≤ now) :
    (∀ p ∈ (stepT (runOps (init cfg []) ops) (.write b) now).2,
      readAll p.dir = written ops ∨ readAll p.dir = written ops ++ b) ∧
    (∃ pre p, (stepT (runOps (init cfg []) ops) (.write b) now).2 = pre ++ [p] ∧
      p.name = "write.after" ∧ readAll p.dir = written ops ++ b) ∧
    (∀ p ∈ (stepT (runOps (init cfg []) ops) .rotate now).2, readAll p.dir = written ops) := by
  obtain ⟨h1, h2⟩ := victim_points cfg hc ops hp now hnow
  exact ⟨fun p hpm => ((h1 b).1 p hpm).2, (h1 b).2, fun p hpm => (h2 p hpm).2⟩

/-- the same in terms of `crashDir` (kill at the `occ`-th hit of point `name`) -/
theorem crash_safe_crashDir_A (cfg : Cfg) (hc : CfgC cfg) (ops : List (Op × Nat × Faults))
    (hp : PlainHistory ops) (b : List Nat) (now : Nat)
    (hnow : ∀ o ∈ ops, o.1.usesClock = true → o.2.1 ≤ now) (name : String) (occ : Nat) (p : Pt) :
    (crashDir (runOps (init cfg []) ops) (.write b) now name occ = some p →
      readAll p.dir = written ops ∨ readAll p.dir = written ops ++ b) ∧
    (crashDir (runOps (init cfg []) ops) .rotate now name occ = some p →
      readAll p.dir = written ops) := by
  obtain ⟨h1, -, h3⟩ := crash_safe_A cfg hc ops hp b now hnow
  have key : ∀ l : List Pt, (l.filter (·.name = name))[occ]? = some p → p ∈ l := by
    intro l h
    exact (List.mem_filter.1 (List.mem_of_getElem? h)).1
  exact ⟨fun h => h1 p (key _ h), fun h => h3 p (key _ h)⟩

/-- **C11, restart from any crash directory.** For every recorded point `p` of the victim write
    or forced rotation, a new logger with any configuration `c` (same rotation configuration;
    `append`, capacity, symlink free) started on `p.dir` works, and for every plain history with
    later clock readings the log is: what was on disk followed by the new records — except that
    the non-rotating writer without `append` truncates at its first write. -/
theorem restart_from_crash_A (cfg : Cfg) (hc : CfgC cfg) (ops : List (Op × Nat × Faults))
    (hp : PlainHistory ops) (now : Nat)
    (hnow : ∀ o ∈ ops, o.1.usesClock = true → o.2.1 ≤ now)
    (op : Op) (hop : (∃ b, op = .write b) ∨ op = .rotate) (p : Pt)
    (hpm : p ∈ (stepT (runOps (init cfg []) ops) op now).2)
    (c : Cfg) (hcr : c.rot = cfg.rot) (ops2 : List (Op × Nat × Faults)) (hp2 : PlainHistory ops2)
    (hclk2 : ∀ o ∈ ops2, o.1.usesClock = true → now ≤ o.2.1) :
    (viewFiles (runOps { (init c p.dir) with link := p.link } ops2)).flatten =
      (if records ops2 = [] then readAll p.dir else kept cfg.rot c p.dir) ++ written ops2 := by
  obtain ⟨h1, h2⟩ := victim_points cfg hc ops hp now hnow
  have hcd : CrashDir cfg.rot now p.dir := by
    rcases hop with ⟨b, rfl⟩ | rfl
    · exact ((h1 b).1 p hpm).1
    · exact (h2 p hpm).1
  exact run_from_crash cfg.rot hc.rotA now ops2 { (init c p.dir) with link := p.link } hcr rfl hcd
    hp2.1 hp2.2 hclk2

/-- … the rotating configurations, and the non-rotating writer with `append`: the stream
    continues -/
theorem restart_from_crash_keeps_A (cfg : Cfg) (hc : CfgC cfg) (ops : List (Op × Nat × Faults))
    (hp : PlainHistory ops) (now : Nat)
    (hnow : ∀ o ∈ ops, o.1.usesClock = true → o.2.1 ≤ now)
    (op : Op) (hop : (∃ b, op = .write b) ∨ op = .rotate) (p : Pt)
    (hpm : p ∈ (stepT (runOps (init cfg []) ops) op now).2)
    (c : Cfg) (hcr : c.rot = cfg.rot) (hk : cfg.rot.isSome = true ∨ c.append = true)
    (ops2 : List (Op × Nat × Faults)) (hp2 : PlainHistory ops2)
    (hclk2 : ∀ o ∈ ops2, o.1.usesClock = true → now ≤ o.2.1) :
    (viewFiles (runOps { (init c p.dir) with link := p.link } ops2)).flatten =
      readAll p.dir ++ written ops2 := by
  rw [restart_from_crash_A cfg hc ops hp now hnow op hop p hpm c hcr ops2 hp2 hclk2]
  unfold kept
  rw [if_pos hk]
  simp

theorem records_ne_nil_of_write (ops : List (Op × Nat × Faults)) (b : List Nat) (n : Nat)
    (f : Faults) (h : (Op.write b, n, f) ∈ ops) : records ops ≠ [] := by
  induction ops with
  | nil => cases h
  | cons o os ih =>
    obtain ⟨op, n', f'⟩ := o
    rcases List.mem_cons.1 h with h' | h'
    · cases h'
      simp [records]
    · have := ih h'
      cases op <;> simp [records, this]

/-- … the non-rotating writer without `append` (the documented truncation): once the new run
    has written, the log consists of the new records only -/
theorem restart_from_crash_truncates_A (cfg : Cfg) (hc : CfgC cfg)
    (ops : List (Op × Nat × Faults)) (hp : PlainHistory ops) (now : Nat)
    (hnow : ∀ o ∈ ops, o.1.usesClock = true → o.2.1 ≤ now)
    (op : Op) (hop : (∃ b, op = .write b) ∨ op = .rotate) (p : Pt)
    (hpm : p ∈ (stepT (runOps (init cfg []) ops) op now).2)
    (c : Cfg) (hcr : c.rot = cfg.rot) (hr : cfg.rot = none) (ha : c.append = false)
    (ops2 : List (Op × Nat × Faults)) (hp2 : PlainHistory ops2)
    (hclk2 : ∀ o ∈ ops2, o.1.usesClock = true → now ≤ o.2.1) (hw : records ops2 ≠ []) :
    (viewFiles (runOps { (init c p.dir) with link := p.link } ops2)).flatten = written ops2 := by
  rw [restart_from_crash_A cfg hc ops hp now hnow op hop p hpm c hcr ops2 hp2 hclk2]
  unfold kept
  rw [if_neg hw, if_neg (by simp [hr, ha])]
  simp

/-! ### non-vacuity -/

def exVictimN : Cfg := ⟨some ⟨some 2, none, .numbers, none⟩, false, none, true, true⟩
def exVictimT : Cfg := ⟨some ⟨none, some .second, .timestamps, none⟩, true, none, false, true⟩
def exVictimP : Cfg := ⟨none, false, none, false, true⟩

def exVictimOps : List (Op × Nat × Faults) :=
  [(.write [1, 2], 20240131100000, noFaults), (.write [3], 20240131100000, noFaults),
   (.flush, 0, noFaults)]

/-- the hypotheses of `crash_safe_A` / `restart_from_crash_A` are satisfiable -/
example : CfgC exVictimN ∧ CfgC exVictimT ∧ CfgC exVictimP ∧ PlainHistory exVictimOps ∧
    (∀ o ∈ exVictimOps, o.1.usesClock = true → o.2.1 ≤ 20240131100001) := by
  refine ⟨⟨rfl, ?_, ?_⟩, ⟨rfl, ?_, ?_⟩, ⟨rfl, ?_, ?_⟩, ⟨by decide, by unfold Monotone; decide⟩,
    by decide⟩
  · intro r h; cases h; rfl
  · intro r h; cases h; exact Or.inl rfl
  · intro r h; cases h; rfl
  · intro r h; cases h; exact Or.inr rfl
  · intro r h; cases h
  · intro r h; cases h

/-- the victim write rotates (`numbers`, size criterion, symlink): the points and what a reader
    finds at each -/
example :
    (stepT (runOps (init exVictimN []) exVictimOps) (.write [4, 5]) 20240131100001).2.map
      (fun p => (p.name, readAll p.dir)) =
    [("rename.before", [1, 2, 3]), ("rename.after", [1, 2, 3]), ("rot.infix_chosen", [1, 2, 3]),
     ("symlink.removed", [1, 2, 3]), ("open.before", [1, 2, 3]), ("open.after", [1, 2, 3]),
     ("rot.opened", [1, 2, 3]), ("rot.mounted", [1, 2, 3]), ("write.before", [1, 2, 3]),
     ("write.after", [1, 2, 3, 4, 5])] := by decide

/-- `timestamps`, age criterion -/
example :
    (stepT (runOps (init exVictimT []) exVictimOps) (.write [4, 5]) 20240131100001).2.map
      (fun p => (p.name, readAll p.dir)) =
    [("rename.before", [1, 2, 3]), ("rename.after", [1, 2, 3]), ("rot.infix_chosen", [1, 2, 3]),
     ("open.before", [1, 2, 3]), ("open.after", [1, 2, 3]), ("rot.opened", [1, 2, 3]),
     ("rot.mounted", [1, 2, 3]), ("write.before", [1, 2, 3]),
     ("write.after", [1, 2, 3, 4, 5])] := by decide

/-- a kill between `rename.after` and `open.after` leaves no `rCURRENT`; a new logger without
    `append` and with a buffer continues the stream (`restart_from_crash_A`) -/
example :
    ((crashDir (runOps (init exVictimN []) exVictimOps) (.write [4, 5]) 20240131100001
        "rename.after" 0).map (fun p => (p.dir.get ⟨some .cur, false⟩, readAll p.dir))) =
      some (none, [1, 2, 3]) ∧
    ((crashDir (runOps (init exVictimN []) exVictimOps) (.write [4, 5]) 20240131100001
        "rename.after" 0).map (fun p => viewFiles (runOps
          { (init ⟨exVictimN.rot, false, some 8, false, true⟩ p.dir) with link := p.link }
          [(.rotate, 20240131100001, noFaults), (.write [6], 20240131100002, noFaults)]))) =
      some [[1, 2, 3], [6]] := by decide

end FV.FlwA
