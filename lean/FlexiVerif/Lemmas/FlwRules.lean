import FlexiVerif.Lemmas.FlwAbs
/-
  Helper lemmas for the property files C01 / C08 / C09 / C15: the rotation rules of the abstract
  machine `Abs`, the greedy partitions (by size, by period) as independent specifications, and
  the invariants that tie `Abs.run` to them.
-/
namespace FV.Flw

/-! ### histories are folds -/

theorem runOps_append (s : St) (a b : List (Op × Nat × Faults)) :
    runOps s (a ++ b) = runOps (runOps s a) b := by
  simp [runOps, List.foldl_append]

theorem runOps_concat (s : St) (a : List (Op × Nat × Faults)) (o : Op × Nat × Faults) :
    runOps s (a ++ [o]) = (step (runOps s a) o.1 o.2.1 o.2.2).1 := by
  simp [runOps, List.foldl_append]

theorem Abs.run_append (rot : Option RotCfg) (x : Abs) (a b : List (Op × Nat × Faults)) :
    Abs.run rot x (a ++ b) = Abs.run rot (Abs.run rot x a) b := by
  simp [Abs.run, List.foldl_append]

theorem Abs.run_cons (rot : Option RotCfg) (x : Abs) (o : Op × Nat × Faults)
    (os : List (Op × Nat × Faults)) :
    Abs.run rot x (o :: os) = Abs.run rot (x.step rot o.1 o.2.1) os := rfl

/-! ### checking the refinement on a concrete history (for non-vacuity examples) -/

/-- executable form of `Refines` -/
def refinesB (cfg : Cfg) (ops : List (Op × Nat × Faults)) : Bool :=
  let s := runOps (init cfg []) ops
  let a := Abs.run cfg.rot Abs.init ops
  decide (viewFiles s = a.files) &&
  (match s.act with
   | some act => a.started &&
       (!cfg.rot.isSome || (decide (act.size = a.size) && decide (act.created = a.created)))
   | none => !a.started)

theorem Refines.of_check (cfg : Cfg) (ops : List (Op × Nat × Faults))
    (h : refinesB cfg ops = true) : Refines cfg ops := by
  unfold refinesB at h
  unfold Refines
  simp only [Bool.and_eq_true, decide_eq_true_eq] at h
  obtain ⟨h1, h2⟩ := h
  refine ⟨h1, ?_, ?_⟩
  · intro act hact
    rw [hact] at h2
    simp only [Bool.and_eq_true, Bool.or_eq_true, Bool.not_eq_true', decide_eq_true_eq] at h2
    refine ⟨h2.1, fun hs => ?_⟩
    rcases h2.2 with h3 | h3
    · rw [h3] at hs; exact absurd hs (by simp)
    · exact h3
  · intro hact
    rw [hact] at h2
    simpa using h2

theorem PlainHistory.of_check (ops : List (Op × Nat × Faults))
    (h1 : ops.all (fun o => o.1.plain && decide (o.2.2 = noFaults)) = true)
    (h2 : ((ops.filter (·.1.usesClock)).map (·.2.1)).Pairwise (· ≤ ·)) : PlainHistory ops := by
  refine ⟨?_, h2⟩
  intro o ho
  have := List.all_eq_true.mp h1 o ho
  simpa using this

/-! ### flush -/

theorem step_flush_pending (s : St) (op : Op) (now : Nat) (fl : Faults)
    (h : op = .flush ∨ op = .shutdown) :
    ∀ a', (step s op now fl).1.act = some a' → a'.pending = [] := by
  intro a' ha
  rcases h with rfl | rfl <;>
  · simp only [step] at ha
    cases hs : s.act with
    | none => simp [hs] at ha
    | some a0 =>
      simp only [hs, flushAct] at ha
      cases ha
      rfl

/-! ### the write step of the abstract machine, in closed form -/

/-- the lazy initialisation at the first write -/
def Abs.start (a : Abs) (now : Nat) : Abs :=
  if a.started then a else { a with started := true, created := now }

@[simp] theorem Abs.start_of_started (a : Abs) (now : Nat) (h : a.started = true) :
    a.start now = a := by simp [Abs.start, h]

@[simp] theorem Abs.start_closed (a : Abs) (now : Nat) : (a.start now).closed = a.closed := by
  unfold Abs.start; split <;> rfl
@[simp] theorem Abs.start_cur (a : Abs) (now : Nat) : (a.start now).cur = a.cur := by
  unfold Abs.start; split <;> rfl
@[simp] theorem Abs.start_size (a : Abs) (now : Nat) : (a.start now).size = a.size := by
  unfold Abs.start; split <;> rfl
@[simp] theorem Abs.start_started (a : Abs) (now : Nat) : (a.start now).started = true := by
  unfold Abs.start; split <;> simp_all

theorem Abs.step_write_some (r : RotCfg) (a : Abs) (b : List Nat) (now : Nat) :
    a.step (some r) (.write b) now =
      if absNecessary r (a.start now) now then
        { closed := a.closed ++ [a.cur], cur := b, started := true, size := b.length,
          created := now }
      else
        { closed := a.closed, cur := a.cur ++ b, started := true, size := a.size + b.length,
          created := (a.start now).created } := by
  have e : (if a.started then a else { a with started := true, created := now }) = a.start now := rfl
  simp only [Abs.step, e]
  split
  · simp [Abs.rotate]
  · have h1 := Abs.start_closed a now
    have h2 := Abs.start_cur a now
    have h3 := Abs.start_size a now
    have h4 := Abs.start_started a now
    generalize a.start now = x at *
    cases x; simp_all

theorem Abs.step_write_none (a : Abs) (b : List Nat) (now : Nat) :
    a.step none (.write b) now =
      { closed := a.closed, cur := a.cur ++ b, started := true, size := a.size + b.length,
        created := (a.start now).created } := by
  have e : (if a.started then a else { a with started := true, created := now }) = a.start now := rfl
  simp only [Abs.step, e]
  have h1 := Abs.start_closed a now
  have h2 := Abs.start_cur a now
  have h3 := Abs.start_size a now
  have h4 := Abs.start_started a now
  generalize a.start now = x at *
  cases x; simp_all

theorem Abs.step_flush (rot : Option RotCfg) (a : Abs) (op : Op) (now : Nat)
    (h : op = .flush ∨ op = .shutdown) : a.step rot op now = a := by
  rcases h with rfl | rfl <;> rfl

/-! ### accounting: the accounted size is the real size of the current file -/

theorem Abs.step_size (rot : Option RotCfg) (a : Abs) (op : Op) (now : Nat)
    (h : a.size = a.cur.length) :
    (a.step rot op now).size = (a.step rot op now).cur.length := by
  cases op with
  | write b =>
    cases rot with
    | none => simp [Abs.step_write_none, h]
    | some r => rw [Abs.step_write_some]; split <;> simp [h]
  | rotate =>
    simp only [Abs.step]
    cases rot with
    | none => exact h
    | some r => by_cases hs : a.started = true <;> simp [Abs.rotate, h, hs]
  | _ => exact h

theorem Abs.run_size (rot : Option RotCfg) (a : Abs) (ops : List (Op × Nat × Faults))
    (h : a.size = a.cur.length) :
    (Abs.run rot a ops).size = (Abs.run rot a ops).cur.length := by
  induction ops generalizing a with
  | nil => exact h
  | cons o os ih => exact ih _ (Abs.step_size rot a o.1 o.2.1 h)

/-! ### histories of writes (and flushes) only -/

def WritesOnly (ops : List (Op × Nat × Faults)) : Prop :=
  ∀ o ∈ ops, (∃ b, o.1 = .write b) ∨ o.1 = .flush ∨ o.1 = .shutdown

theorem WritesOnly.tail {o : Op × Nat × Faults} {os : List (Op × Nat × Faults)}
    (h : WritesOnly (o :: os)) : WritesOnly os :=
  fun x hx => h x (List.mem_cons_of_mem _ hx)

theorem WritesOnly.of_check (ops : List (Op × Nat × Faults))
    (h : ops.all (fun o => match o.1 with
      | .write _ | .flush | .shutdown => true
      | _ => false) = true) : WritesOnly ops := by
  intro o ho
  have := List.all_eq_true.mp h o ho
  obtain ⟨op, n, f⟩ := o
  cases op <;> simp_all

/-- a started abstract machine shows its closed files and the current one -/
theorem Abs.files_of_records_ne (rot : Option RotCfg) (ops : List (Op × Nat × Faults))
    (hne : records ops ≠ []) :
    (Abs.run rot Abs.init ops).files =
      (Abs.run rot Abs.init ops).closed ++ [(Abs.run rot Abs.init ops).cur] := by
  cases hs : (Abs.run rot Abs.init ops).started with
  | true => simp [Abs.files, hs]
  | false => exact absurd (Abs.run_not_started rot Abs.init ops hs rfl) hne

/-! ### the size criterion and the greedy partition -/

/-- one step of the greedy partition: a record starts a new file iff the current file already
    holds more than `N` bytes -/
def greedyStep (N : Nat) (acc : List (List (List Nat)) × List (List Nat)) (b : List Nat) :
    List (List (List Nat)) × List (List Nat) :=
  if acc.2.flatten.length > N then (acc.1 ++ [acc.2], [b]) else (acc.1, acc.2 ++ [b])

theorem absNecessary_size (r : RotCfg) (N : Nat) (hr : r.maxSize = some N ∧ r.age = none)
    (a : Abs) (now : Nat) : absNecessary r a now = decide (a.size > N) := by
  simp [absNecessary, hr.1, hr.2]

theorem absNecessary_age (r : RotCfg) (ag : Age) (hr : r.maxSize = none ∧ r.age = some ag)
    (a : Abs) (now : Nat) :
    absNecessary r a now = decide (ag.trunc a.created ≠ ag.trunc now) := by
  simp [absNecessary, hr.1, hr.2]

theorem absNecessary_age_or_size (r : RotCfg) (N : Nat) (ag : Age)
    (hr : r.maxSize = some N ∧ r.age = some ag) (a : Abs) (now : Nat) :
    absNecessary r a now = decide (a.size > N ∨ ag.trunc a.created ≠ ag.trunc now) := by
  simp [absNecessary, hr.1, hr.2]

/-- the abstract machine and the greedy accumulator describe the same files -/
def SizeInv (a : Abs) (acc : List (List (List Nat)) × List (List Nat)) : Prop :=
  a.closed = acc.1.map List.flatten ∧ a.cur = acc.2.flatten ∧ a.size = a.cur.length

theorem SizeInv.step_write (r : RotCfg) (N : Nat) (hr : r.maxSize = some N ∧ r.age = none)
    (a : Abs) (acc : List (List (List Nat)) × List (List Nat)) (b : List Nat) (now : Nat)
    (h : SizeInv a acc) : SizeInv (a.step (some r) (.write b) now) (greedyStep N acc b) := by
  obtain ⟨h1, h2, h3⟩ := h
  rw [Abs.step_write_some, absNecessary_size r N hr]
  unfold greedyStep
  simp only [Abs.start_size]
  by_cases hgt : a.size > N
  · have hgt' : acc.2.flatten.length > N := by rw [← h2, ← h3]; exact hgt
    simp only [hgt, hgt', decide_true, ↓reduceIte, SizeInv]
    refine ⟨?_, ?_, ?_⟩ <;> simp [h1, h2]
  · have hgt' : ¬ acc.2.flatten.length > N := by rw [← h2, ← h3]; exact hgt
    simp only [hgt, hgt', decide_false, ↓reduceIte, SizeInv]
    refine ⟨?_, ?_, ?_⟩ <;> simp [h1, h2, h3]

theorem SizeInv.run (r : RotCfg) (N : Nat) (hr : r.maxSize = some N ∧ r.age = none)
    (ops : List (Op × Nat × Faults)) (hw : WritesOnly ops)
    (a : Abs) (acc : List (List (List Nat)) × List (List Nat)) (h : SizeInv a acc) :
    SizeInv (Abs.run (some r) a ops) (List.foldl (greedyStep N) acc (records ops)) := by
  induction ops generalizing a acc with
  | nil => exact h
  | cons o os ih =>
    have ho := hw o (List.mem_cons_self ..)
    obtain ⟨op, now, fl⟩ := o
    rw [Abs.run_cons]
    rcases ho with ⟨b, hb⟩ | hf
    · simp only at hb; subst hb
      simp only [records, List.foldl_cons]
      exact ih hw.tail _ _ (SizeInv.step_write r N hr a acc b now h)
    · simp only at hf
      have e : records ((op, now, fl) :: os) = records os := by
        rcases hf with rfl | rfl <;> rfl
      rw [e, Abs.step_flush _ _ _ _ hf]
      exact ih hw.tail _ _ h

/-- what the greedy partition guarantees for every file -/
def GreedyOK (N : Nat) (acc : List (List (List Nat)) × List (List Nat)) : Prop :=
  (∀ g ∈ acc.1, g.flatten.length > N ∧ ∀ p, p <+: g → p ≠ g → p.flatten.length ≤ N) ∧
  (∀ p, p <+: acc.2 → p ≠ acc.2 → p.flatten.length ≤ N)

theorem GreedyOK.step (N : Nat) (acc : List (List (List Nat)) × List (List Nat)) (b : List Nat)
    (h : GreedyOK N acc) : GreedyOK N (greedyStep N acc b) := by
  obtain ⟨h1, h2⟩ := h
  unfold greedyStep
  by_cases hgt : acc.2.flatten.length > N
  · simp only [hgt, if_true]
    refine ⟨?_, ?_⟩
    · intro g hg
      rcases List.mem_append.mp hg with hg | hg
      · exact h1 g hg
      · have : g = acc.2 := by simpa using hg
        subst this; exact ⟨hgt, h2⟩
    · intro p hp hne
      have : p = [] := by
        rcases List.prefix_concat_iff (l₂ := []) |>.mp (by simpa using hp) with h | h
        · exact absurd (by simpa using h) hne
        · simpa using h
      simp [this]
  · simp only [hgt, if_false]
    refine ⟨h1, ?_⟩
    intro p hp hne
    rcases List.prefix_concat_iff.mp hp with h | h
    · exact absurd h hne
    · by_cases he : p = acc.2
      · subst he; omega
      · exact h2 p h he

theorem GreedyOK.foldl (N : Nat) (recs : List (List Nat))
    (acc : List (List (List Nat)) × List (List Nat)) (h : GreedyOK N acc) :
    GreedyOK N (List.foldl (greedyStep N) acc recs) := by
  induction recs generalizing acc with
  | nil => exact h
  | cons b bs ih => exact ih _ (GreedyOK.step N acc b h)

theorem GreedyOK.init (N : Nat) : GreedyOK N ([], []) := by
  refine ⟨by simp, ?_⟩
  intro p hp hne
  exact absurd (by simpa using hp) hne

/-- the greedy partition is a partition of the records -/
theorem greedy_foldl_flatten (N : Nat) (recs : List (List Nat))
    (acc : List (List (List Nat)) × List (List Nat)) :
    (List.foldl (greedyStep N) acc recs).1.flatten ++ (List.foldl (greedyStep N) acc recs).2 =
      acc.1.flatten ++ acc.2 ++ recs := by
  induction recs generalizing acc with
  | nil => simp
  | cons b bs ih =>
    simp only [List.foldl_cons]
    rw [ih]
    unfold greedyStep
    split <;> simp

theorem greedy_foldl_cur_ne (N : Nat) (recs : List (List Nat))
    (acc : List (List (List Nat)) × List (List Nat)) (h : recs ≠ [] ∨ acc.2 ≠ []) :
    (List.foldl (greedyStep N) acc recs).2 ≠ [] := by
  induction recs generalizing acc with
  | nil => simpa using h
  | cons b bs ih =>
    simp only [List.foldl_cons]
    apply ih
    right
    unfold greedyStep
    split <;> simp

/-! ### consecutive elements of a list -/

/-- every two consecutive elements are related -/
def Linked {α : Type} (R : α → α → Prop) : List α → Prop
  | [] => True
  | [_] => True
  | a :: b :: t => R a b ∧ Linked R (b :: t)

theorem linked_concat {α : Type} (R : α → α → Prop) (l : List α) (a : α) :
    Linked R (l ++ [a]) ↔ Linked R l ∧ ∀ x, l.getLast? = some x → R x a := by
  induction l with
  | nil => simp [Linked]
  | cons b t ih =>
    cases t with
    | nil => simp [Linked]
    | cons c t' =>
      have e : (b :: c :: t') ++ [a] = b :: c :: (t' ++ [a]) := rfl
      rw [e]
      simp only [Linked]
      have e2 : c :: (t' ++ [a]) = (c :: t') ++ [a] := rfl
      rw [e2, ih, List.getLast?_cons_cons]
      exact ⟨fun ⟨h1, h2, h3⟩ => ⟨⟨h1, h2⟩, h3⟩, fun ⟨⟨h1, h2⟩, h3⟩ => ⟨h1, h2, h3⟩⟩

theorem linked_getElem {α : Type} (R : α → α → Prop) (l : List α) (h : Linked R l) :
    ∀ i (hi : i + 1 < l.length), R (l[i]'(by omega)) l[i + 1] := by
  induction l with
  | nil => intro i hi; simp at hi
  | cons a t ih =>
    cases t with
    | nil => intro i hi; simp at hi
    | cons b t' =>
      intro i hi
      cases i with
      | zero => exact h.1
      | succ j =>
        have := ih h.2 j (by simp at hi ⊢; omega)
        simpa using this

/-! ### the age criterion and the partition by periods -/

/-- the records of a history with the clock reading of their write -/
def srecords : List (Op × Nat × Faults) → List (List Nat × Nat)
  | [] => []
  | (.write b, now, _) :: rest => (b, now) :: srecords rest
  | _ :: rest => srecords rest

theorem srecords_bytes (ops : List (Op × Nat × Faults)) :
    (srecords ops).map (·.1) = records ops := by
  induction ops with
  | nil => rfl
  | cons o os ih =>
    obtain ⟨op, n, f⟩ := o
    cases op <;> simp [srecords, records, ih]

/-- the bytes of a group of stamped records -/
def bytes (g : List (List Nat × Nat)) : List Nat := (g.map (·.1)).flatten

theorem bytes_append (g h : List (List Nat × Nat)) : bytes (g ++ h) = bytes g ++ bytes h := by
  simp [bytes]

/-- one step of the partition by periods: a record starts a new file iff its stamp lies in another
    period than the first record of the current file -/
def periodStep (ag : Age)
    (acc : List (List (List Nat × Nat)) × List (List Nat × Nat)) (x : List Nat × Nat) :
    List (List (List Nat × Nat)) × List (List Nat × Nat) :=
  match acc.2.head? with
  | none => (acc.1, [x])
  | some h =>
    if ag.trunc h.2 ≠ ag.trunc x.2 then (acc.1 ++ [acc.2], [x]) else (acc.1, acc.2 ++ [x])

/-- the abstract machine and the period accumulator describe the same files, and the creation
    stamp of the current file is the stamp of its first record -/
def AgeInv (a : Abs) (acc : List (List (List Nat × Nat)) × List (List Nat × Nat)) : Prop :=
  a.closed = acc.1.map bytes ∧ a.cur = bytes acc.2 ∧
  (a.started = true → ∃ h, acc.2.head? = some h ∧ a.created = h.2) ∧
  (a.started = false → acc.2 = [])

theorem AgeInv.step_write (r : RotCfg) (ag : Age) (hr : r.maxSize = none ∧ r.age = some ag)
    (a : Abs) (acc : List (List (List Nat × Nat)) × List (List Nat × Nat))
    (b : List Nat) (now : Nat) (h : AgeInv a acc) :
    AgeInv (a.step (some r) (.write b) now) (periodStep ag acc (b, now)) := by
  obtain ⟨h1, h2, h3, h4⟩ := h
  rw [Abs.step_write_some, absNecessary_age r ag hr]
  cases hs : a.started with
  | false =>
    have hc := h4 hs
    have hst : a.start now = { a with started := true, created := now } := by
      simp [Abs.start, hs]
    simp only [hst, periodStep, hc, List.head?_nil, ne_eq, not_true_eq_false, decide_false,
      Bool.false_eq_true, ↓reduceIte]
    refine ⟨h1, ?_, ?_, ?_⟩
    · simp [h2, hc, bytes]
    · intro _; exact ⟨(b, now), rfl, rfl⟩
    · intro h; simp at h
  | true =>
    obtain ⟨hd, hhd, hcr⟩ := h3 hs
    rw [Abs.start_of_started a now hs]
    simp only [periodStep, hhd, hcr]
    by_cases hp : ag.trunc hd.2 ≠ ag.trunc now
    · rw [if_pos (decide_eq_true hp), if_pos hp]
      refine ⟨?_, ?_, ?_, ?_⟩
      · simp [h1, h2]
      · simp [bytes]
      · intro _; exact ⟨(b, now), rfl, rfl⟩
      · intro h; simp at h
    · rw [if_neg (by simpa using hp), if_neg hp]
      refine ⟨h1, ?_, ?_, ?_⟩
      · simp [h2, bytes]
      · intro _
        refine ⟨hd, ?_, rfl⟩
        cases hacc : acc.2 with
        | nil => rw [hacc] at hhd; simp at hhd
        | cons y ys => rw [hacc] at hhd; simpa using hhd
      · intro h; simp at h

theorem AgeInv.run (r : RotCfg) (ag : Age) (hr : r.maxSize = none ∧ r.age = some ag)
    (ops : List (Op × Nat × Faults)) (hw : WritesOnly ops)
    (a : Abs) (acc : List (List (List Nat × Nat)) × List (List Nat × Nat)) (h : AgeInv a acc) :
    AgeInv (Abs.run (some r) a ops) (List.foldl (periodStep ag) acc (srecords ops)) := by
  induction ops generalizing a acc with
  | nil => exact h
  | cons o os ih =>
    have ho := hw o (List.mem_cons_self ..)
    obtain ⟨op, now, fl⟩ := o
    rw [Abs.run_cons]
    rcases ho with ⟨b, hb⟩ | hf
    · simp only at hb; subst hb
      simp only [srecords, List.foldl_cons]
      exact ih hw.tail _ _ (AgeInv.step_write r ag hr a acc b now h)
    · simp only at hf
      have e : srecords ((op, now, fl) :: os) = srecords os := by
        rcases hf with rfl | rfl <;> rfl
      rw [e, Abs.step_flush _ _ _ _ hf]
      exact ih hw.tail _ _ h

/-- consecutive files: the last record of the one and the first record of the next lie in
    different periods -/
def PeriodBreak (ag : Age) (g1 g2 : List (List Nat × Nat)) : Prop :=
  ∀ x y, g1.getLast? = some x → g2.head? = some y → ag.trunc x.2 ≠ ag.trunc y.2

/-- what the partition by periods guarantees -/
def PeriodOK (ag : Age) (acc : List (List (List Nat × Nat)) × List (List Nat × Nat)) : Prop :=
  (acc.2 = [] → acc.1 = []) ∧
  (∀ g ∈ acc.1, g ≠ []) ∧
  (∀ g ∈ acc.1 ++ [acc.2], ∀ h, g.head? = some h → ∀ x ∈ g, ag.trunc x.2 = ag.trunc h.2) ∧
  Linked (PeriodBreak ag) (acc.1 ++ [acc.2])

theorem PeriodOK.init (ag : Age) : PeriodOK ag ([], []) := by
  refine ⟨fun _ => rfl, by simp, by simp, by simp [Linked]⟩

theorem PeriodOK.step (ag : Age) (acc : List (List (List Nat × Nat)) × List (List Nat × Nat))
    (x : List Nat × Nat) (h : PeriodOK ag acc) : PeriodOK ag (periodStep ag acc x) := by
  obtain ⟨h0, h1, h2, h3⟩ := h
  unfold periodStep
  cases hh : acc.2.head? with
  | none =>
    have hc : acc.2 = [] := by simpa using hh
    have hc1 := h0 hc
    simp only [hc1]
    refine ⟨by simp, by simp, ?_, by simp [Linked]⟩
    intro g hg hd hhd y hy
    have : g = [x] := by simpa using hg
    subst this
    simp at hhd hy
    subst hhd; subst hy; rfl
  | some hd =>
    have hne : acc.2 ≠ [] := by intro hc; rw [hc] at hh; simp at hh
    have hcur := h2 acc.2 (by simp) hd hh
    by_cases hp : ag.trunc hd.2 ≠ ag.trunc x.2
    · simp only []
      rw [if_pos hp]
      refine ⟨by simp, ?_, ?_, ?_⟩
      · intro g hg
        rcases List.mem_append.mp hg with hg | hg
        · exact h1 g hg
        · have : g = acc.2 := by simpa using hg
          rw [this]; exact hne
      · intro g hg
        rcases List.mem_append.mp hg with hg | hg
        · exact h2 g hg
        · have : g = [x] := by simpa using hg
          subst this
          intro hd' hhd' y hy
          simp at hhd' hy
          subst hhd'; subst hy; rfl
      · rw [linked_concat]
        refine ⟨h3, ?_⟩
        intro g hg
        have : g = acc.2 := by simpa using hg.symm
        subst this
        intro x' y hx' hy
        have hy' : y = x := by simpa using hy.symm
        subst hy'
        rw [hcur x' (List.mem_of_getLast? hx')]
        exact hp
    · have hp' : ag.trunc hd.2 = ag.trunc x.2 := by simpa using hp
      simp only []
      rw [if_neg hp]
      have hhead : (acc.2 ++ [x]).head? = some hd := by
        cases hacc : acc.2 with
        | nil => exact absurd hacc hne
        | cons y ys => rw [hacc] at hh; simpa using hh
      refine ⟨by simp, h1, ?_, ?_⟩
      · intro g hg
        rcases List.mem_append.mp hg with hg | hg
        · exact h2 g (List.mem_append_left _ hg)
        · have : g = acc.2 ++ [x] := by simpa using hg
          subst this
          intro hd' hhd' y hy
          rw [hhead] at hhd'
          cases hhd'
          rcases List.mem_append.mp hy with hy | hy
          · exact hcur y hy
          · have : y = x := by simpa using hy
            rw [this]; exact hp'.symm
      · rw [linked_concat] at h3 ⊢
        refine ⟨h3.1, ?_⟩
        intro g hg x' y hx' hy
        rw [hhead] at hy
        exact h3.2 g hg x' y hx' (by rw [hh]; exact hy)

theorem PeriodOK.foldl (ag : Age) (recs : List (List Nat × Nat))
    (acc : List (List (List Nat × Nat)) × List (List Nat × Nat)) (h : PeriodOK ag acc) :
    PeriodOK ag (List.foldl (periodStep ag) acc recs) := by
  induction recs generalizing acc with
  | nil => exact h
  | cons b bs ih => exact ih _ (PeriodOK.step ag acc b h)

/-- the partition by periods is a partition of the stamped records -/
theorem period_foldl_flatten (ag : Age) (recs : List (List Nat × Nat))
    (acc : List (List (List Nat × Nat)) × List (List Nat × Nat)) :
    (List.foldl (periodStep ag) acc recs).1.flatten ++ (List.foldl (periodStep ag) acc recs).2 =
      acc.1.flatten ++ acc.2 ++ recs := by
  induction recs generalizing acc with
  | nil => simp
  | cons b bs ih =>
    simp only [List.foldl_cons]
    rw [ih]
    unfold periodStep
    cases hh : acc.2.head? with
    | none =>
      have hc : acc.2 = [] := by simpa using hh
      simp [hc]
    | some hd => simp only []; split <;> simp

theorem period_foldl_cur_ne (ag : Age) (recs : List (List Nat × Nat))
    (acc : List (List (List Nat × Nat)) × List (List Nat × Nat)) (h : recs ≠ [] ∨ acc.2 ≠ []) :
    (List.foldl (periodStep ag) acc recs).2 ≠ [] := by
  induction recs generalizing acc with
  | nil => simpa using h
  | cons b bs ih =>
    simp only [List.foldl_cons]
    apply ih
    right
    unfold periodStep
    cases hh : acc.2.head? with
    | none => simp
    | some hd => simp only []; split <;> simp

/-! ### monotone clock -/

theorem srecords_stamps_sublist (ops : List (Op × Nat × Faults)) :
    ((srecords ops).map (·.2)).Sublist ((ops.filter (·.1.usesClock)).map (·.2.1)) := by
  induction ops with
  | nil => exact List.Sublist.slnil
  | cons o os ih =>
    obtain ⟨op, n, f⟩ := o
    cases op with
    | write b => simpa [srecords, Op.usesClock] using ih
    | rotate => simpa [srecords, Op.usesClock] using List.Sublist.cons n ih
    | _ => simpa [srecords, Op.usesClock] using ih

/-- under a monotone clock the stamps of the records never go backwards -/
theorem srecords_sorted (ops : List (Op × Nat × Faults)) (h : Monotone ops) :
    (srecords ops).Pairwise (fun x y => x.2 ≤ y.2) := by
  have := List.Pairwise.sublist (srecords_stamps_sublist ops) h
  exact List.pairwise_map.mp this

/-- … hence every record of an earlier group is stamped no later than every record of a later
    group -/
theorem groups_sorted (gs : List (List (List Nat × Nat))) (ops : List (Op × Nat × Faults))
    (h : Monotone ops) (hg : gs.flatten = srecords ops) :
    ∀ i j (hi : i < gs.length) (hj : j < gs.length), i < j →
      ∀ x ∈ gs[i], ∀ y ∈ gs[j], x.2 ≤ y.2 := by
  have hs := srecords_sorted ops h
  rw [← hg, List.pairwise_flatten] at hs
  exact List.pairwise_iff_getElem.mp hs.2

/-! ### the greedy partition is characterised by its properties -/

theorem list_concat_cases {α : Type} (l : List α) : l = [] ∨ ∃ l' b, l = l' ++ [b] := by
  rcases List.eq_nil_or_concat l with h | ⟨l', b, h⟩
  · exact Or.inl h
  · exact Or.inr ⟨l', b, by simpa using h⟩

/-- the properties that characterise the greedy partition -/
def GreedyValid (N : Nat) (acc : List (List (List Nat)) × List (List Nat))
    (recs : List (List Nat)) : Prop :=
  acc.1.flatten ++ acc.2 = recs ∧ (recs ≠ [] → acc.2 ≠ []) ∧
  (∀ g ∈ acc.1, g.flatten.length > N) ∧
  (∀ g ∈ acc.1 ++ [acc.2], ∀ p, p <+: g → p ≠ g → p.flatten.length ≤ N)

theorem greedy_unique_aux (N : Nat) (n : Nat) :
    ∀ (recs : List (List Nat)) (acc : List (List (List Nat)) × List (List Nat)),
      recs.length = n → GreedyValid N acc recs →
      acc = List.foldl (greedyStep N) ([], []) recs := by
  induction n with
  | zero =>
    intro recs acc hl hv
    have hr : recs = [] := List.length_eq_zero_iff.mp hl
    subst hr
    obtain ⟨closed, cur⟩ := acc
    obtain ⟨h1, _, h3, _⟩ := hv
    simp only [List.append_eq_nil_iff] at h1
    obtain ⟨h1a, h1b⟩ := h1
    simp only at h1b h3
    subst h1b
    cases closed with
    | nil => rfl
    | cons g gs =>
      exfalso
      have := h3 g (by simp)
      have hg : g = [] := by
        have := List.flatten_eq_nil_iff.mp h1a g (by simp)
        exact this
      simp [hg] at this
  | succ n ih =>
    intro recs acc hl hv
    rcases list_concat_cases recs with hr | ⟨recs', b, hr⟩
    · subst hr; simp at hl
    subst hr
    obtain ⟨closed, cur⟩ := acc
    obtain ⟨h1, h2, h3, h4⟩ := hv
    simp only at h1 h2 h3 h4
    have hcur := h2 (by simp)
    rcases list_concat_cases cur with hc | ⟨cur', b', hc⟩
    · exact absurd hc hcur
    subst hc
    have hsplit := List.append_inj' (s₁ := closed.flatten ++ cur') (t₁ := [b'])
      (s₂ := recs') (t₂ := [b]) (by simpa using h1) rfl
    obtain ⟨hs1, hs2⟩ := hsplit
    have hb : b' = b := by simpa using hs2
    subst hb
    have hl' : recs'.length = n := by simp at hl; omega
    rw [List.foldl_append]
    simp only [List.foldl_cons, List.foldl_nil]
    by_cases hc' : cur' = []
    · subst hc'
      simp only [List.append_nil] at hs1
      rcases list_concat_cases closed with hcl | ⟨closed', g, hcl⟩
      · subst hcl
        simp at hs1
        subst hs1
        simp [greedyStep]
      · subst hcl
        have hgN : g.flatten.length > N := h3 g (by simp)
        have hv' : GreedyValid N (closed', g) recs' := by
          refine ⟨by simpa using hs1, ?_, ?_, ?_⟩
          · intro _ hg
            simp only at hg
            simp [hg] at hgN
          · intro g' hg'; exact h3 g' (by simp [hg'])
          · intro g' hg'
            exact h4 g' (List.mem_append_left _ hg')
        rw [← ih recs' (closed', g) hl' hv']
        simp only [greedyStep]
        rw [if_pos hgN]
        rfl
    · have hv' : GreedyValid N (closed, cur') recs' := by
        refine ⟨hs1, fun _ => hc', h3, ?_⟩
        intro g' hg' p hp hne
        rcases List.mem_append.mp hg' with hg' | hg'
        · exact h4 g' (List.mem_append_left _ hg') p hp hne
        · have : g' = cur' := by simpa using hg'
          subst this
          refine h4 (g' ++ [b']) (by simp) p (hp.trans (List.prefix_append _ _)) ?_
          intro he
          have := hp.length_le
          rw [he] at this
          simp at this
          omega
      rw [← ih recs' (closed, cur') hl' hv']
      have hle : cur'.flatten.length ≤ N := by
        refine h4 (cur' ++ [b']) (by simp) cur' (List.prefix_append _ _) ?_
        intro he
        have := congrArg List.length he
        simp at this
      have : ¬ cur'.flatten.length > N := by omega
      simp only [greedyStep]
      rw [if_neg this]

end FV.Flw
