import FlexiVerif.Lemmas.FlwReopen
/-
  Lemmas for C18, part D: rotation together with external renames and `reopen_output` for the
  *direct* namings (`Naming.numbersDirect`, `Naming.timestampsDirect`).

  The writer writes directly to a numbered / timestamp-named file; a rotation renames nothing, it
  only opens the next name and sets `handle := path := next name`. So — unlike in
  `Lemmas/FlwReopen.lean`, where `path` is the fixed `cnOf cfg` — the path moves. The invariant
  `ChronD` is the chronological invariant `ChronAct` of `FlwReopen.lean` with the path taken from
  the writer state:
  * the directory is a permutation of "the files the writer has left behind, in the order in
    which it left them, then the file behind the descriptor", each holding a contiguous group
    of records;
  * none of the files left behind has the name `a.path` (so: `handle = path`, or there is no
    file at `path` — the file has been moved away — and `reopen` creates a fresh one);
  * `numbersDirect`: every index in the directory is `≤ a.idx`, so the next name `a.idx + 1` is
    fresh — also after an external rename, the index is advanced by the rotation itself, not by
    a successful rename;
  * `timestampsDirect`: the next name is `collisionFree` of the directory at that moment, which is
    fresh whatever the clock shows (`collisionFree_fresh`). The moved-away file no longer has
    its stamp name, so the same stamp name may be chosen again in the same second: that is a
    new file (`openFile` on a name that does not exist), nothing is truncated.
  Hence a rotation never re-opens (and, without append, truncates) a file that holds records; no
  hypothesis on the clock is needed.
-/
namespace FV.ReopenD
open FV.Flw FV.FlwA FV.Reopen

/-! ### the chronological invariant with a moving path -/

/-- `L0`: the files the writer has left behind, in the order in which it left them; `f`: the file
    behind the descriptor; `G0`, `g`: the records they hold (`g` includes the buffered ones) -/
structure ChronD (cap : Option Nat) (d : List (FName × File)) (ctr : Nat) (a : Active)
    (L0 : List (FName × File)) (f : File) (G0 : List (List (List Nat))) (g : List (List Nat)) :
    Prop where
  perm : List.Perm d (L0 ++ [(a.handle, f)])
  nodup : (L0.map (·.1) ++ [a.handle]).Nodup
  /-- no file left behind is at the path -/
  old : ∀ n ∈ L0.map (·.1), n ≠ a.path
  /-- names given by somebody else are numbered below the counter -/
  exts : ∀ n ∈ L0.map (·.1) ++ [a.handle], ∀ k, n = extN k → k < ctr
  /-- the indices in use are at most the current one -/
  nums : ∀ n ∈ L0.map (·.1) ++ [a.handle], ∀ m, n = ⟨some (.num m), false⟩ → m ≤ a.idx
  pext : ∀ k, a.path ≠ extN k
  pnum : ∀ m, a.path = ⟨some (.num m), false⟩ → m ≤ a.idx
  buf : (a.unbuffered = true ∨ cap = none) → a.pending = []
  closed : L0.map (·.2.data) = G0.map List.flatten
  cur : f.data ++ a.pending = g.flatten

theorem ChronD.nodup' {cap d ctr a L0 f G0 g} (h : ChronD cap d ctr a L0 f G0 g) :
    ((L0 ++ (a.handle, f) :: []).map (·.1)).Nodup := by
  simpa using h.nodup

theorem ChronD.get {cap d ctr a L0 f G0 g} (h : ChronD cap d ctr a L0 f G0 g) :
    Dir.get d a.handle = some f :=
  get_middle d L0 [] a.handle f h.perm h.nodup'

/-- bytes reach the file behind the descriptor and/or the buffer -/
theorem ChronD.data {cap d ctr a L0 f G0 g} (h : ChronD cap d ctr a L0 f G0 g)
    (x p' y : List Nat) (g' : List (List Nat)) (a' : Active)
    (hx : x ++ p' = a.pending ++ y) (hg : g'.flatten = g.flatten ++ y)
    (hb : (a'.unbuffered = true ∨ cap = none) → p' = [])
    (h1 : a'.handle = a.handle) (h2 : a'.path = a.path) (h3 : a.idx ≤ a'.idx)
    (h5 : a'.pending = p') :
    ChronD cap (Dir.append d a.handle x) ctr a' L0 ⟨f.data ++ x, f.created⟩ G0 g' where
  perm := by rw [h1]; exact append_middle d L0 [] a.handle f x h.perm h.nodup'
  nodup := by rw [h1]; exact h.nodup
  old := by rw [h2]; exact h.old
  exts := by rw [h1]; exact h.exts
  nums := by
    rw [h1]
    intro n hn m hm
    exact Nat.le_trans (h.nums n hn m hm) h3
  pext := by rw [h2]; exact h.pext
  pnum := by
    rw [h2]
    intro m hm
    exact Nat.le_trans (h.pnum m hm) h3
  buf := by rw [h5]; exact hb
  closed := h.closed
  cur := by
    rw [h5, hg, ← h.cur]
    simp only [List.append_assoc]
    rw [hx]

/-- only the buffer (and the bookkeeping) changes -/
theorem ChronD.buffer {cap d ctr a L0 f G0 g} (h : ChronD cap d ctr a L0 f G0 g)
    (p' y : List Nat) (g' : List (List Nat)) (a' : Active)
    (hx : p' = a.pending ++ y) (hg : g'.flatten = g.flatten ++ y)
    (hb : (a'.unbuffered = true ∨ cap = none) → p' = [])
    (h1 : a'.handle = a.handle) (h2 : a'.path = a.path) (h3 : a.idx ≤ a'.idx)
    (h5 : a'.pending = p') :
    ChronD cap d ctr a' L0 f G0 g' where
  perm := by rw [h1]; exact h.perm
  nodup := by rw [h1]; exact h.nodup
  old := by rw [h2]; exact h.old
  exts := by rw [h1]; exact h.exts
  nums := by
    rw [h1]
    intro n hn m hm
    exact Nat.le_trans (h.nums n hn m hm) h3
  pext := by rw [h2]; exact h.pext
  pnum := by
    rw [h2]
    intro m hm
    exact Nat.le_trans (h.pnum m hm) h3
  buf := by rw [h5]; exact hb
  closed := h.closed
  cur := by rw [h5, hg, ← h.cur, hx, List.append_assoc]

/-- the naming state of the writer changes (`idx` only grows), nothing else -/
theorem ChronD.renumber {cap d ctr a L0 f G0 g} (h : ChronD cap d ctr a L0 f G0 g) (a' : Active)
    (h1 : a'.handle = a.handle) (h2 : a'.path = a.path) (h3 : a.idx ≤ a'.idx)
    (h4 : a'.unbuffered = a.unbuffered) (h5 : a'.pending = a.pending) :
    ChronD cap d ctr a' L0 f G0 g :=
  h.buffer a.pending [] g a' (by simp) (by simp) (by rw [h4]; exact h.buf) h1 h2 h3 h5

/-- somebody gives the file behind the descriptor the fresh name `extN ctr` -/
theorem ChronD.renameHandle {cap d ctr a L0 f G0 g} (h : ChronD cap d ctr a L0 f G0 g)
    (a' : Active) (h1 : a'.handle = extN ctr) (h2 : a'.path = a.path) (h3 : a'.idx = a.idx)
    (h4 : a'.unbuffered = a.unbuffered) (h5 : a'.pending = a.pending) :
    ∃ d', Dir.rename d a.handle (extN ctr) = (d', true) ∧
      ChronD cap d' (ctr + 1) a' L0 f G0 g := by
  have hfresh : ∀ n ∈ L0.map (·.1), n ≠ extN ctr := by
    intro n hn heq
    exact Nat.lt_irrefl _ (h.exts n (List.mem_append_left _ hn) ctr heq)
  obtain ⟨d', hren, hp⟩ := rename_middle d L0 [] a.handle (extN ctr) f h.perm h.nodup'
    (by
      intro e he
      rw [List.append_nil] at he
      exact hfresh e.1 (List.mem_map_of_mem he))
  refine ⟨d', hren, ?_⟩
  have hnd := h.nodup
  rw [List.nodup_append] at hnd
  exact {
    perm := by rw [h1]; exact hp
    nodup := by
      rw [h1, List.nodup_append]
      refine ⟨hnd.1, by simp, ?_⟩
      intro x hx y hy
      simp only [List.mem_singleton] at hy
      rw [hy]
      exact hfresh x hx
    old := by rw [h2]; exact h.old
    exts := by
      intro n hn k hk
      rcases List.mem_append.1 hn with hn | hn
      · exact Nat.lt_succ_of_lt (h.exts n (List.mem_append_left _ hn) k hk)
      · simp only [List.mem_singleton] at hn
        rw [hn, h1] at hk
        have : ctr = k := by simpa [extN] using hk
        omega
    nums := by
      intro n hn m hm
      rw [h3]
      rcases List.mem_append.1 hn with hn | hn
      · exact h.nums n (List.mem_append_left _ hn) m hm
      · simp only [List.mem_singleton] at hn
        rw [hn, h1] at hm
        simp [extN] at hm
    pext := by rw [h2]; exact h.pext
    pnum := by rw [h2, h3]; exact h.pnum
    buf := by rw [h4, h5]; exact h.buf
    closed := h.closed
    cur := by rw [h5]; exact h.cur }

/-- a new (empty) file is created under the fresh name `n`, the descriptor and the path go there;
    what the old descriptor had buffered has gone to the old file -/
theorem ChronD.switch {cap d ctr a L0 f G0 g} (h : ChronD cap d ctr a L0 f G0 g)
    (d' : List (FName × File)) (n : FName) (new : File) (a' : Active)
    (hp : List.Perm d' (L0 ++ [(a.handle, ⟨f.data ++ a.pending, f.created⟩)] ++ [(n, new)]))
    (hnew : new.data = []) (hfresh : ∀ m ∈ L0.map (·.1) ++ [a.handle], m ≠ n)
    (hext : ∀ k, n ≠ extN k) (hidx : a.idx ≤ a'.idx)
    (hnum : ∀ m, n = ⟨some (.num m), false⟩ → m ≤ a'.idx)
    (h1 : a'.handle = n) (h2 : a'.path = n) (h5 : a'.pending = []) :
    ChronD cap d' ctr a' (L0 ++ [(a.handle, ⟨f.data ++ a.pending, f.created⟩)]) new
      (G0 ++ [g]) [] where
  perm := by rw [h1]; exact hp
  nodup := by
    rw [h1]
    simp only [List.map_append, List.map_cons, List.map_nil]
    rw [List.nodup_append]
    refine ⟨h.nodup, by simp, ?_⟩
    intro x hx y hy
    simp only [List.mem_singleton] at hy
    rw [hy]
    exact hfresh x hx
  old := by
    rw [h2]
    intro m hm
    simp only [List.map_append, List.map_cons, List.map_nil] at hm
    exact hfresh m hm
  exts := by
    intro m hm k hk
    simp only [List.map_append, List.map_cons, List.map_nil] at hm
    rcases List.mem_append.1 hm with hm | hm
    · exact h.exts m hm k hk
    · simp only [List.mem_singleton] at hm
      rw [hm, h1] at hk
      exact absurd hk (hext k)
  nums := by
    intro m hm k hk
    simp only [List.map_append, List.map_cons, List.map_nil] at hm
    rcases List.mem_append.1 hm with hm | hm
    · exact Nat.le_trans (h.nums m hm k hk) hidx
    · simp only [List.mem_singleton] at hm
      rw [hm, h1] at hk
      exact hnum k hk
  pext := by rw [h2]; exact hext
  pnum := by rw [h2]; exact hnum
  buf := fun _ => h5
  closed := by
    simp only [List.map_append, List.map_cons, List.map_nil]
    rw [h.closed, h.cur]
  cur := by rw [h5, hnew]; rfl

/-- the order of a rotation: the new file is created first, then the old writer is dropped and
    flushes into the file behind the old descriptor -/
theorem ChronD.switch_perm {cap d ctr a L0 f G0 g} (h : ChronD cap d ctr a L0 f G0 g)
    (n : FName) (new : File) (hfresh : ∀ m ∈ L0.map (·.1) ++ [a.handle], m ≠ n) :
    List.Perm (Dir.append (Dir.set d n new) a.handle a.pending)
      (L0 ++ [(a.handle, ⟨f.data ++ a.pending, f.created⟩)] ++ [(n, new)]) := by
  have hfr : ∀ e ∈ L0 ++ [(a.handle, f)], e.1 ≠ n := by
    intro e he
    apply hfresh
    rcases List.mem_append.1 he with he | he
    · exact List.mem_append_left _ (List.mem_map_of_mem he)
    · simp only [List.mem_singleton] at he
      rw [he]
      simp
  have h1 : List.Perm (Dir.set d n new) (L0 ++ (a.handle, f) :: [(n, new)]) := by
    have := set_fresh d _ n new h.perm hfr
    simpa using this
  have hnd : ((L0 ++ (a.handle, f) :: [(n, new)]).map (·.1)).Nodup := by
    have : (L0 ++ (a.handle, f) :: [(n, new)]).map (·.1) = (L0.map (·.1) ++ [a.handle]) ++ [n] := by
      simp
    rw [this, List.nodup_append]
    refine ⟨h.nodup, by simp, ?_⟩
    intro x hx y hy
    simp only [List.mem_singleton] at hy
    rw [hy]
    exact hfresh x hx
  have := append_middle _ L0 [(n, new)] a.handle f a.pending h1 hnd
  simpa using this

/-! ### the invariant on states -/

/-- `R`: the records logged so far -/
def ChronS (cfg : Cfg) (s : St) (R : List (List Nat)) : Prop :=
  s.cfg = cfg ∧
  match s.act with
  | none => s.dir = [] ∧ R = []
  | some a => ∃ L0 f G0 g, ChronD cfg.cap s.dir s.extCtr a L0 f G0 g ∧ G0.flatten ++ g = R

theorem chronS_init (cfg : Cfg) : ChronS cfg (init cfg []) [] := ⟨rfl, rfl, rfl⟩

theorem ChronS.of_act {cfg : Cfg} {s : St} {a : Active} {L0 f G0 g} {R : List (List Nat)}
    (hcfg : s.cfg = cfg) (hact : s.act = some a)
    (h : ChronD cfg.cap s.dir s.extCtr a L0 f G0 g) (hR : G0.flatten ++ g = R) :
    ChronS cfg s R := by
  refine ⟨hcfg, ?_⟩
  rw [hact]
  exact ⟨L0, f, G0, g, h, hR⟩

/-- `flush` / `shutdown` / the flush of a dropped writer -/
theorem flush_chronD {cap : Option Nat} {s : St} {a : Active} {L0 f G0 g}
    (h : ChronD cap s.dir s.extCtr a L0 f G0 g) :
    ChronD cap (flushAct s a).1.dir s.extCtr (flushAct s a).2 L0
      ⟨f.data ++ a.pending, f.created⟩ G0 g :=
  h.data a.pending [] [] g _ (by simp) (by simp) (fun _ => rfl) rfl rfl (Nat.le_refl _) rfl

/-- `write_buffer` once the writer is mounted -/
theorem wrote_chronD {cfg : Cfg} {s : St} {a : Active} {L0 f G0 g} (b : List Nat)
    (hcfg : s.cfg = cfg) (h : ChronD cfg.cap s.dir s.extCtr a L0 f G0 g) :
    ChronS cfg (wrote s a b) (G0.flatten ++ g ++ [b]) := by
  have hb : (a.unbuffered = true ∨ s.cfg.cap = none) → a.pending = [] := by
    rw [hcfg]; exact h.buf
  rcases writeRaw_gen s a b hb with ⟨hw, hnb⟩ | ⟨x, p', hw, hx, hp'⟩
  · unfold wrote
    rw [hw]
    refine ChronS.of_act (L0 := L0) (f := f) (G0 := G0) (g := g ++ [b]) hcfg rfl ?_ (by simp)
    exact h.buffer (a.pending ++ b) b _ _ rfl (by simp)
      (by rw [← hcfg]; exact fun h' => absurd h' hnb) rfl rfl (Nat.le_refl _) rfl
  · unfold wrote
    rw [hw]
    refine ChronS.of_act (L0 := L0) (f := ⟨f.data ++ x, f.created⟩) (G0 := G0) (g := g ++ [b])
      hcfg rfl ?_ (by simp)
    exact h.data x p' b _ _ hx (by simp) (by rw [← hcfg]; exact hp') rfl rfl (Nat.le_refl _) rfl

theorem flush_step_chronD {cfg : Cfg} {s : St} {R : List (List Nat)} (now : Nat) (fl : Faults)
    (h : ChronS cfg s R) : ChronS cfg (step s .flush now fl).1 R := by
  obtain ⟨hcfg, h⟩ := h
  cases hact : s.act with
  | none =>
    have : (step s .flush now fl).1 = s := by simp [step, hact]
    rw [this]
    refine ⟨hcfg, ?_⟩
    rw [hact] at h ⊢
    exact h
  | some a =>
    rw [hact] at h
    obtain ⟨L0, f, G0, g, hc, hR⟩ := h
    have : (step s .flush now fl).1 =
        { (flushAct s a).1 with act := some (flushAct s a).2 } := by simp [step, hact]
    rw [this]
    exact ChronS.of_act hcfg rfl (flush_chronD hc) hR

/-- somebody renames the file behind the descriptor -/
theorem extRename_chronD {cfg : Cfg} {s : St} {R : List (List Nat)} (now : Nat) (fl : Faults)
    (h : ChronS cfg s R) : ChronS cfg (step s .extRename now fl).1 R := by
  obtain ⟨hcfg, h⟩ := h
  cases hact : s.act with
  | none =>
    have : (step s .extRename now fl).1 = s := by simp [step, hact]
    rw [this]
    refine ⟨hcfg, ?_⟩
    rw [hact] at h ⊢
    exact h
  | some a =>
    rw [hact] at h
    obtain ⟨L0, f, G0, g, hc, hR⟩ := h
    obtain ⟨d', hren, hc'⟩ := hc.renameHandle { a with handle := extN s.extCtr } rfl rfl rfl rfl rfl
    have : (step s .extRename now fl).1 =
        { s with dir := d', act := some { a with handle := extN s.extCtr },
                 extCtr := s.extCtr + 1 } := by
      simp only [step, hact]
      rw [show s.dir.rename a.handle ⟨some (.ext s.extCtr), false⟩ = (d', true) from hren]
      rfl
    rw [this]
    exact ChronS.of_act hcfg rfl hc' hR

/-- `reopen_output`: the buffer of the old writer goes to the file behind the old descriptor;
    if that file is no longer at the path (somebody has moved it away) a new, empty file is
    created at the path — there is no other file at the path, nothing is re-opened -/
theorem reopen_chronD {cfg : Cfg} {s : St} {R : List (List Nat)} (now : Nat)
    (h : ChronS cfg s R) : ChronS cfg (step s .reopen now noFaults).1 R := by
  obtain ⟨hcfg, h⟩ := h
  cases hact : s.act with
  | none =>
    have : (step s .reopen now noFaults).1 = s := by simp [step, hact]
    rw [this]
    refine ⟨hcfg, ?_⟩
    rw [hact] at h ⊢
    exact h
  | some a =>
    rw [hact] at h
    obtain ⟨L0, f, G0, g, hc, hR⟩ := h
    have hfl := flush_chronD hc
    have ho : hit noFaults.openF 0 = false := rfl
    by_cases hh : a.handle = a.path
    · -- the file is still at its path: nothing happens to the directory
      have hg : (s.dir.append a.handle a.pending).get a.path =
          some ⟨f.data ++ a.pending, f.created⟩ := by
        rw [← hh]
        exact hfl.get
      have : (step s .reopen now noFaults).1 =
          { s with dir := s.dir.append a.handle a.pending,
                   act := some { a with pending := [], handle := a.path, unbuffered := true } } := by
        simp only [step, hact, ho, flushAct]
        simp [hg]
      rw [this]
      refine ChronS.of_act (L0 := L0) (f := ⟨f.data ++ a.pending, f.created⟩) hcfg rfl ?_ hR
      exact hfl.buffer [] [] g _ (by simp [flushAct]) (by simp) (fun _ => rfl)
        (by simp [flushAct, hh]) rfl (Nat.le_refl _) rfl
    · -- the file has been moved away: a new one is created at the path
      have hfresh : ∀ m ∈ L0.map (·.1) ++ [a.handle], m ≠ a.path := by
        intro m hm
        rcases List.mem_append.1 hm with hm | hm
        · exact hc.old m hm
        · simp only [List.mem_singleton] at hm
          rw [hm]
          exact hh
      have hfr : ∀ e ∈ L0 ++ [(a.handle, (⟨f.data ++ a.pending, f.created⟩ : File))],
          e.1 ≠ a.path := by
        intro e he
        apply hfresh
        rcases List.mem_append.1 he with he | he
        · exact List.mem_append_left _ (List.mem_map_of_mem he)
        · simp only [List.mem_singleton] at he
          rw [he]
          simp
      have hg : (s.dir.append a.handle a.pending).get a.path = none :=
        get_none_of_perm _ _ hfl.perm _ hfr
      have : (step s .reopen now noFaults).1 =
          { s with dir := (s.dir.append a.handle a.pending).set a.path ⟨[], now⟩,
                   act := some { a with pending := [], handle := a.path, unbuffered := true } } := by
        simp only [step, hact, ho, flushAct]
        simp [hg]
      rw [this]
      refine ChronS.of_act (L0 := L0 ++ [(a.handle, ⟨f.data ++ a.pending, f.created⟩)])
        (f := ⟨[], now⟩) (G0 := G0 ++ [g]) (g := []) hcfg rfl ?_ (by simpa using hR)
      have hp : List.Perm ((s.dir.append a.handle a.pending).set a.path ⟨[], now⟩)
          (L0 ++ [(a.handle, ⟨f.data ++ a.pending, f.created⟩)] ++ [(a.path, ⟨[], now⟩)]) :=
        set_fresh _ _ _ _ hfl.perm hfr
      exact hc.switch _ a.path ⟨[], now⟩
        { a with pending := [], handle := a.path, unbuffered := true } hp rfl hfresh hc.pext
        (Nat.le_refl _) hc.pnum rfl rfl rfl

/-! ### rotation: the next direct name is always fresh -/

/-- what `mountNextCore` does once the next infix `i` is chosen, if no file has that name:
    the group of the file behind the descriptor — wherever that file is — is closed, a new
    file is created, the descriptor and the path go there -/
theorem rotTail_chronD {cap : Option Nat} {s : St} {a : Active} {L0 f G0 g} (i : Infix) (now : Nat)
    (hca : ChronD cap s.dir s.extCtr a L0 f G0 g) (hrot : i.rotated = true)
    (hfresh : ∀ m ∈ L0.map (·.1) ++ [a.handle], m ≠ ⟨some i, false⟩)
    (hnum : ∀ m, i = .num m → m ≤ a.idx) :
    ∃ s' a' L0', FlwB.rotTail s a i now = (s', a', false) ∧ s'.cfg = s.cfg ∧
      ChronD cap s'.dir s'.extCtr a' L0' ⟨[], now⟩ (G0 ++ [g]) [] := by
  have hfr : ∀ e ∈ L0 ++ [(a.handle, f)], e.1 ≠ ⟨some i, false⟩ := by
    intro e he
    apply hfresh
    rcases List.mem_append.1 he with he | he
    · exact List.mem_append_left _ (List.mem_map_of_mem he)
    · simp only [List.mem_singleton] at he
      rw [he]
      simp
  have hget : s.dir.get ⟨some i, false⟩ = none := get_none_of_perm _ _ hca.perm _ hfr
  obtain ⟨s1, ho, hc1, hd1, -, he1⟩ := openFile_new' s ⟨some i, false⟩ now hget
  refine ⟨{ s1 with dir := s1.dir.append a.handle a.pending },
    { a with pending := [], handle := ⟨some i, false⟩, path := ⟨some i, false⟩, unbuffered := false,
             size := 0,
             created := createdOr (s1.dir.append a.handle a.pending) ⟨some i, false⟩ now },
    L0 ++ [(a.handle, ⟨f.data ++ a.pending, f.created⟩)], ?_, hc1, ?_⟩
  · simp only [FlwB.rotTail, ho]
  · simp only [hd1, he1]
    refine hca.switch _ ⟨some i, false⟩ ⟨[], now⟩ _ (hca.switch_perm _ _ hfresh) rfl hfresh ?_
      (Nat.le_refl _) ?_ rfl rfl rfl
    · intro k hk
      cases hk
      simp [Infix.rotated] at hrot
    · intro m hm
      cases hm
      exact hnum m rfl

/-- the rotation proper, `numbersDirect` and `timestampsDirect` -/
theorem mountNextCore_chronD {cfg : Cfg} {r : RotCfg} (hc : FlwB.CfgR cfg r) {s : St} {a : Active}
    {L0 f G0 g} (force : Bool) (now : Nat) (hcfg : s.cfg = cfg)
    (hca : ChronD cfg.cap s.dir s.extCtr a L0 f G0 g)
    (h : (force || rotationNecessary r a now) = true) :
    ∃ s' a' L0' f' G0' g', mountNextCore s a r force now noFaults = (s', a', false) ∧ s'.cfg = cfg ∧
      ChronD cfg.cap s'.dir s'.extCtr a' L0' f' G0' g' ∧ G0'.flatten ++ g' = G0.flatten ++ g := by
  rcases hc.naming with hn | hn
  · -- `numbersDirect`: every index in the directory is `≤ a.idx`
    rw [FlwB.mountNextCore_nD s a r force now hn hc.cleanup h]
    have hca' : ChronD cfg.cap s.dir s.extCtr { a with idx := a.idx + 1 } L0 f G0 g :=
      hca.renumber _ rfl rfl (Nat.le_succ _) rfl rfl
    obtain ⟨s', a', L0', he, hc', hca''⟩ := rotTail_chronD (.num (a.idx + 1)) now hca' rfl
      (by
        intro m hm heq
        have := hca.nums m hm (a.idx + 1) heq
        omega)
      (by intro m hm; cases hm; exact Nat.le_refl _)
    exact ⟨s', a', L0', _, _, _, he, hc'.trans hcfg, hca'', by simp⟩
  · -- `timestampsDirect`: `collisionFree` of the directory as it is now
    rw [FlwB.mountNextCore_tD s a r force now hn hc.cleanup h]
    have hca' : ChronD cfg.cap s.dir s.extCtr { a with stamp := now } L0 f G0 g :=
      hca.renumber _ rfl rfl (Nat.le_refl _) rfl rfl
    obtain ⟨rr, hti⟩ := collisionFree_ts s.dir now
    obtain ⟨s', a', L0', he, hc', hca''⟩ := rotTail_chronD (collisionFree s.dir now) now hca'
      (by rw [hti]; rfl)
      (by
        intro m hm heq
        have hmem : ∃ e ∈ ents s.dir, e.1 = m := by
          rcases List.mem_append.1 hm with hm | hm
          · obtain ⟨e, he, rfl⟩ := List.mem_map.1 hm
            exact ⟨e, hca.perm.mem_iff.2 (List.mem_append_left _ he), rfl⟩
          · simp only [List.mem_singleton] at hm
            exact ⟨(a.handle, f), hca.perm.mem_iff.2 (by simp), hm.symm⟩
        obtain ⟨e, he, hem⟩ := hmem
        apply collisionFree_fresh s.dir now e he
        rw [hem, heq])
      (by rw [hti]; intro m hm; cases hm)
    exact ⟨s', a', L0', _, _, _, he, hc'.trans hcfg, hca'', by simp⟩

/-- a rotation (forced or due) flushes the buffer into the file behind the descriptor, closes
    the group of that file — wherever it is — and opens the next name -/
theorem mountNext_chronD {cfg : Cfg} {r : RotCfg} (hc : FlwB.CfgR cfg r) {s : St} {a : Active}
    {L0 f G0 g} (force : Bool) (now : Nat) (hcfg : s.cfg = cfg)
    (hca : ChronD cfg.cap s.dir s.extCtr a L0 f G0 g)
    (h : (force || rotationNecessary r a now) = true) :
    ∃ s' a' L0' f' G0' g', mountNext s a r force now noFaults = (s', a', false) ∧ s'.cfg = cfg ∧
      ChronD cfg.cap s'.dir s'.extCtr a' L0' f' G0' g' ∧ G0'.flatten ++ g' = G0.flatten ++ g := by
  rw [FlwA.mountNext_due s a r force now noFaults h]
  exact mountNextCore_chronD hc (s := (flushAct s a).1) (a := (flushAct s a).2) true now hcfg
    (flush_chronD hca) rfl

/-! ### the first file -/

theorem chronD_first {cap : Option Nat} {d : List (FName × File)} {ctr : Nat} {a : Active}
    (n : FName) (now : Nat) (hd : d = [(n, ⟨[], now⟩)]) (hh : a.handle = n) (hp : a.path = n)
    (hpe : a.pending = []) (hext : ∀ k, n ≠ extN k)
    (hnum : ∀ m, n = ⟨some (.num m), false⟩ → m ≤ a.idx) :
    ChronD cap d ctr a [] ⟨[], now⟩ [] [] where
  perm := by rw [hd, hh]; exact List.Perm.refl _
  nodup := by simp
  old := by simp
  exts := by
    intro m hm k hk
    simp only [List.map_nil, List.nil_append, List.mem_singleton] at hm
    rw [hm, hh] at hk
    exact absurd hk (hext k)
  nums := by
    intro m hm k hk
    simp only [List.map_nil, List.nil_append, List.mem_singleton] at hm
    rw [hm, hh] at hk
    exact hnum k hk
  pext := by rw [hp]; exact hext
  pnum := by rw [hp]; exact hnum
  buf := fun _ => hpe
  closed := rfl
  cur := by rw [hpe]; rfl

theorem initState_chronD {cfg : Cfg} {r : RotCfg} (hc : FlwB.CfgR cfg r) (s : St) (now : Nat)
    (hcfg : s.cfg = cfg) (hd : s.dir = []) :
    ∃ s1 a1, initState s now noFaults = (s1, true) ∧ s1.cfg = cfg ∧ s1.act = some a1 ∧
      ChronD cfg.cap s1.dir s1.extCtr a1 [] ⟨[], now⟩ [] [] := by
  have hrot : s.cfg.rot = some r := by rw [hcfg]; exact hc.rot
  have happ : s.cfg.append = false := by rw [hcfg]; exact hc.append
  rcases hc.naming with hn | hn
  · rw [FlwB.initState_nD s r now hrot hn hc.cleanup happ hd]
    obtain ⟨s1, ho, hc1, hd1, -, -⟩ := openFile_new' s ⟨some (.num 0), false⟩ now (by rw [hd]; rfl)
    simp only [ho]
    refine ⟨_, _, rfl, hc1.trans hcfg, rfl, ?_⟩
    refine chronD_first ⟨some (.num 0), false⟩ now ?_ rfl rfl rfl ?_ ?_
    · simp only [hd1, hd]
      rfl
    · intro k hk
      cases hk
    · intro m hm
      cases hm
      exact Nat.le_refl _
  · rw [FlwB.initState_tD s r now hrot hn hc.cleanup happ hd]
    obtain ⟨s1, ho, hc1, hd1, -, -⟩ := openFile_new' s ⟨some (.ts now none), false⟩ now
      (by rw [hd]; rfl)
    simp only [ho]
    refine ⟨_, _, rfl, hc1.trans hcfg, rfl, ?_⟩
    refine chronD_first ⟨some (.ts now none), false⟩ now ?_ rfl rfl rfl ?_ ?_
    · simp only [hd1, hd]
      rfl
    · intro k hk
      cases hk
    · intro m hm
      cases hm

/-! ### one operation, a history -/

/-- `write_buffer` on a mounted writer -/
theorem write_some_chronD {cfg : Cfg} {r : RotCfg} (hc : FlwB.CfgR cfg r) {s : St} {a : Active}
    {L0 f G0 g} (b : List Nat) (now : Nat) (hcfg : s.cfg = cfg) (hact : s.act = some a)
    (hca : ChronD cfg.cap s.dir s.extCtr a L0 f G0 g) :
    ChronS cfg (writeBuffer s b now noFaults).1 (G0.flatten ++ g ++ [b]) := by
  have hr' : s.cfg.rot = some r := by rw [hcfg]; exact hc.rot
  by_cases hnec : rotationNecessary r a now = true
  · obtain ⟨s2, a2, L0', f', G0', g', hm, hc2, hca2, hR⟩ :=
      mountNext_chronD hc false now hcfg hca (by simp [hnec])
    rw [writeBuffer_some_rot s a b now r s2 a2 hact hr' hm, ← hR]
    exact wrote_chronD b hc2 hca2
  · have hm := FlwA.mountNext_skip s a r false now noFaults (by simpa using hnec)
    rw [writeBuffer_some_rot s a b now r s a hact hr' hm]
    exact wrote_chronD b hcfg hca

theorem write_chronD {cfg : Cfg} {r : RotCfg} (hc : FlwB.CfgR cfg r) {s : St}
    {R : List (List Nat)} (b : List Nat) (now : Nat) (h : ChronS cfg s R) :
    ChronS cfg (step s (.write b) now noFaults).1 (R ++ [b]) := by
  obtain ⟨hcfg, h⟩ := h
  simp only [step]
  cases hact : s.act with
  | none =>
    rw [hact] at h
    obtain ⟨hd, hR⟩ := h
    obtain ⟨s1, a1, hi, hc1, ha1, hca⟩ := initState_chronD hc s now hcfg hd
    rw [writeBuffer_init s s1 a1 b now hact hi ha1]
    have := write_some_chronD hc b now hc1 ha1 hca
    rw [hR]
    simpa using this
  | some a =>
    rw [hact] at h
    obtain ⟨L0, f, G0, g, hca, hR⟩ := h
    rw [← hR]
    exact write_some_chronD hc b now hcfg hact hca

theorem rotate_step_chronD {cfg : Cfg} {r : RotCfg} (hc : FlwB.CfgR cfg r) {s : St}
    {R : List (List Nat)} (now : Nat) (h : ChronS cfg s R) :
    ChronS cfg (step s .rotate now noFaults).1 R := by
  obtain ⟨hcfg, h⟩ := h
  cases hact : s.act with
  | none =>
    have : (step s .rotate now noFaults).1 = s := by simp [step, hact]
    rw [this]
    refine ⟨hcfg, ?_⟩
    rw [hact] at h ⊢
    exact h
  | some a =>
    rw [hact] at h
    obtain ⟨L0, f, G0, g, hca, hR⟩ := h
    obtain ⟨s2, a2, L0', f', G0', g', hm, hc2, hca2, hR2⟩ :=
      mountNext_chronD hc true now hcfg hca rfl
    have : (step s .rotate now noFaults).1 = { s2 with act := some a2 } := by
      simp [step, hact, hcfg, hc.rot, hm]
    rw [this]
    exact ChronS.of_act hc2 rfl hca2 (hR2.trans hR)

/-- every operation of part C keeps the chronological invariant for the direct namings -/
theorem step_chronD {cfg : Cfg} {r : RotCfg} (hc : FlwB.CfgR cfg r) {s : St} {R : List (List Nat)}
    (op : Op) (now : Nat) (hop : opA1 op = true) (h : ChronS cfg s R) :
    ChronS cfg (step s op now noFaults).1 (R ++ records [(op, now, noFaults)]) := by
  cases op with
  | write b => exact write_chronD hc b now h
  | rotate => simpa [records] using rotate_step_chronD hc now h
  | flush => simpa [records] using flush_step_chronD now noFaults h
  | shutdown =>
    rw [step_shutdown_eq]
    simpa [records] using flush_step_chronD now noFaults h
  | extRename => simpa [records] using extRename_chronD now noFaults h
  | reopen => simpa [records] using reopen_chronD now h
  | restart c => cases hop
  | reset c => cases hop
  | extRemove => cases hop

theorem run_chronD {cfg : Cfg} {r : RotCfg} (hc : FlwB.CfgR cfg r)
    (ops : List (Op × Nat × Faults)) :
    ∀ (s : St) (R : List (List Nat)), ChronS cfg s R →
      (∀ o ∈ ops, opA1 o.1 = true ∧ o.2.2 = noFaults) →
      ChronS cfg (runOps s ops) (R ++ records ops) := by
  induction ops with
  | nil => intro s R h _; simpa [records, runOps] using h
  | cons o os ih =>
    intro s R h hops
    obtain ⟨op, now, fl⟩ := o
    obtain ⟨hop, hfl⟩ := hops _ List.mem_cons_self
    simp only at hop hfl
    subst hfl
    have e : records ((op, now, noFaults) :: os) = records [(op, now, noFaults)] ++ records os :=
      records_append [(op, now, noFaults)] os
    rw [e, ← List.append_assoc]
    exact ih _ _ (step_chronD hc op now hop h)
      (fun o' ho' => hops o' (List.mem_cons_of_mem _ ho'))

/-! ### what is on disk -/

/-- the files of the directory (the buffer counted to the file behind the descriptor) are — in
    some order — the concatenations of consecutive groups of the records -/
theorem chronS_files {cfg : Cfg} {s : St} {R : List (List Nat)} (h : ChronS cfg s R) :
    ∃ groups : List (List (List Nat)), groups.flatten = R ∧
      (groups.map List.flatten).Perm (allFilesWithPending s) := by
  obtain ⟨hcfg, h⟩ := h
  unfold allFilesWithPending
  cases hact : s.act with
  | none =>
    rw [hact] at h
    obtain ⟨hd, hR⟩ := h
    refine ⟨[], by simp [hR], ?_⟩
    simp only [hd]
    exact List.Perm.refl _
  | some a =>
    rw [hact] at h
    obtain ⟨L0, f, G0, g, hc, hR⟩ := h
    refine ⟨G0 ++ [g], by simpa using hR, ?_⟩
    simp only
    refine List.Perm.trans ?_ (hc.perm.map _).symm
    have hL0 : L0.map (fun e => if e.1 = a.handle then e.2.data ++ a.pending else e.2.data) =
        L0.map (·.2.data) := by
      apply List.map_congr_left
      intro e he
      have hnd := hc.nodup
      rw [List.nodup_append] at hnd
      have : e.1 ≠ a.handle := hnd.2.2 e.1 (List.mem_map_of_mem he) a.handle (by simp)
      simp [this]
    rw [List.map_append, List.map_append, hL0, hc.closed]
    simp [hc.cur]

/-- **Rotation + external rename + `reopen` for the direct namings** (any clock) -/
theorem direct_files {cfg : Cfg} {r : RotCfg} (hc : FlwB.CfgR cfg r)
    (ops : List (Op × Nat × Faults)) (h : ∀ o ∈ ops, opA1 o.1 = true ∧ o.2.2 = noFaults) :
    ∃ groups : List (List (List Nat)), groups.flatten = records ops ∧
      (groups.map List.flatten).Perm (allFilesWithPending (runOps (init cfg []) ops)) := by
  have := run_chronD hc ops (init cfg []) [] (chronS_init cfg) h
  rw [List.nil_append] at this
  exact chronS_files this

/-- in the whole history no file of the directory is ever at the path unless it is the file
    behind the descriptor: a direct-scheme rotation / `reopen` never re-opens a file -/
theorem path_free {cfg : Cfg} {s : St} {R : List (List Nat)} (h : ChronS cfg s R) (a : Active)
    (hact : s.act = some a) (hne : a.handle ≠ a.path) : s.dir.get a.path = none := by
  obtain ⟨-, h⟩ := h
  rw [hact] at h
  obtain ⟨L0, f, G0, g, hc, -⟩ := h
  apply get_none_of_perm _ _ hc.perm
  intro e he
  rcases List.mem_append.1 he with he | he
  · exact hc.old e.1 (List.mem_map_of_mem he)
  · simp only [List.mem_singleton] at he
    rw [he]
    exact hne

end FV.ReopenD
