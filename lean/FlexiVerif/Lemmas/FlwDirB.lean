/-
  Directory-level lemmas for the refinement proof of the *direct* namings
  (`Lemmas/FlwRefineB.lean`): a directory all of whose names are plain rotated-style names with
  pairwise different keys is described, up to the order of the association list, by the list
  `L` of its entries sorted by key (`DirIs d L`); `rotatedAsc`/`parts`/`Dir.get`/`Dir.set`/
  `Dir.append` are computed on `L`.
-/
import FlexiVerif.Model.FlwAbs
namespace FV.FlwB
open FV.Flw

/-! ### the key order -/

theorem keyLt_irrefl (a : Nat × Nat) : keyLt a a = false := by
  simp [keyLt]

theorem keyLt_trans {a b c : Nat × Nat} (h1 : keyLt a b = true) (h2 : keyLt b c = true) :
    keyLt a c = true := by
  simp [keyLt] at *; omega

theorem keyLt_asymm {a b : Nat × Nat} (h1 : keyLt a b = true) : keyLt b a = false := by
  cases h : keyLt b a with
  | false => rfl
  | true => simp [keyLt] at *; omega

/-- key of a file name (names without infix do not occur in the directories considered here) -/
def nkey (n : FName) : Nat × Nat :=
  match n.ifx with
  | some i => i.key
  | none => (0, 0)

/-- a plain (not compressed) rotated-style name -/
def PlainRot (n : FName) : Prop := ∃ i, n = ⟨some i, false⟩ ∧ i.rotated = true

/-- strictly ascending keys, all names plain rotated-style -/
def NamesOK (ns : List FName) : Prop :=
  ns.Pairwise (fun x y => keyLt (nkey x) (nkey y) = true) ∧ ∀ n ∈ ns, PlainRot n

/-- `L` is the content of the directory `d`, sorted by key -/
def DirIs (d : List (FName × File)) (L : List (FName × File)) : Prop :=
  List.Perm d L ∧ NamesOK (L.map (·.1))

theorem NamesOK.nodup {ns : List FName} (h : NamesOK ns) : ns.Nodup := by
  refine List.Pairwise.imp ?_ h.1
  intro a b hab heq
  subst heq
  simp [keyLt_irrefl] at hab

/-! ### insertion sort -/

theorem insAsc_middle (x : FName × File) (hx : PlainRot x.1) :
    ∀ (L1 L2 : List (FName × File)),
      (∀ y ∈ L1, PlainRot y.1 ∧ keyLt (nkey y.1) (nkey x.1) = true) →
      (∀ y ∈ L2, PlainRot y.1 ∧ keyLt (nkey x.1) (nkey y.1) = true) →
      insAsc x (L1 ++ L2) = L1 ++ x :: L2 := by
  obtain ⟨i, hi, _⟩ := hx
  intro L1
  induction L1 with
  | nil =>
    intro L2 _ h2
    cases L2 with
    | nil => simp [insAsc]
    | cons y ys =>
      obtain ⟨⟨j, hj, _⟩, hlt⟩ := h2 y (by simp)
      simp only [nkey, hi, hj] at hlt
      simp [insAsc, hi, hj, hlt]
  | cons y L1 ih =>
    intro L2 h1 h2
    obtain ⟨⟨j, hj, _⟩, hlt⟩ := h1 y (by simp)
    simp only [nkey, hi, hj] at hlt
    have hnlt := keyLt_asymm hlt
    have := ih L2 (fun z hz => h1 z (by simp [hz])) h2
    simp [insAsc, hi, hj, hnlt, this]

theorem foldr_insAsc_eq_of_perm :
    ∀ (d L : List (FName × File)), List.Perm d L → NamesOK (L.map (·.1)) →
      d.foldr insAsc [] = L := by
  intro d
  induction d with
  | nil => intro L hp _; simpa using hp.symm.eq_nil
  | cons x d ih =>
    intro L hp hok
    have hx : x ∈ L := hp.subset (by simp)
    obtain ⟨L1, L2, rfl⟩ := List.append_of_mem hx
    have hp' : List.Perm d (L1 ++ L2) :=
      (hp.trans List.perm_middle).cons_inv
    have hok1 := hok.1
    have hok2 := hok.2
    simp only [List.map_append, List.map_cons, List.pairwise_append, List.pairwise_cons,
      List.mem_map, List.mem_cons, List.mem_append] at hok1 hok2
    have hok' : NamesOK ((L1 ++ L2).map (·.1)) := by
      constructor
      · simp only [List.map_append, List.pairwise_append, List.mem_map]
        refine ⟨hok1.1, hok1.2.1.2, ?_⟩
        intro a ha b hb
        exact hok1.2.2 a ha b (Or.inr hb)
      · intro n hn
        simp only [List.map_append, List.mem_append, List.mem_map] at hn
        rcases hn with hn | hn
        · exact hok2 n (Or.inl hn)
        · exact hok2 n (Or.inr (Or.inr hn))
    rw [List.foldr_cons, ih _ hp' hok']
    apply insAsc_middle
    · exact hok2 _ (Or.inr (Or.inl rfl))
    · intro y hy
      exact ⟨hok2 _ (Or.inl ⟨y, hy, rfl⟩), hok1.2.2 _ ⟨y, hy, rfl⟩ _ (Or.inl rfl)⟩
    · intro y hy
      exact ⟨hok2 _ (Or.inr (Or.inr ⟨y, hy, rfl⟩)), hok1.2.1.1 _ ⟨y, hy, rfl⟩⟩

/-! ### reading a described directory -/

theorem DirIs.plainRot {d L : List (FName × File)} (h : DirIs d L) :
    ∀ e ∈ d, PlainRot e.1 := by
  intro e he
  exact h.2.2 e.1 (List.mem_map.2 ⟨e, h.1.subset he, rfl⟩)

theorem DirIs.nodup {d L : List (FName × File)} (h : DirIs d L) : (d.map (·.1)).Nodup :=
  (h.1.map _).nodup_iff.2 h.2.nodup

theorem rotatedAsc_eq {d L : List (FName × File)} (h : DirIs d L) : rotatedAsc d = L := by
  unfold rotatedAsc
  rw [List.filter_eq_self.2]
  · exact foldr_insAsc_eq_of_perm d L h.1 h.2
  · intro e he
    obtain ⟨i, hi, hr⟩ := h.plainRot e he
    simp [hi, hr]

theorem extAsc_eq_nil {d L : List (FName × File)} (h : DirIs d L) : extAsc d = [] := by
  unfold extAsc
  rw [List.filterMap_eq_nil_iff.2]
  · rfl
  · intro e he
    obtain ⟨i, hi, hr⟩ := h.plainRot e he
    cases i <;> simp_all [Infix.rotated]

theorem get_eq_none_of_not_mem (d : List (FName × File)) (n : FName)
    (h : ∀ e ∈ d, e.1 ≠ n) : Dir.get d n = none := by
  induction d with
  | nil => rfl
  | cons x d ih =>
    obtain ⟨k, v⟩ := x
    have hk : k ≠ n := h (k, v) (by simp)
    simp only [Dir.get, hk, if_false]
    exact ih (fun e he => h e (by simp [he]))

theorem get_eq_some_of_mem (d : List (FName × File)) (n : FName) (f : File)
    (hnd : (d.map (·.1)).Nodup) (h : (n, f) ∈ d) : Dir.get d n = some f := by
  induction d with
  | nil => simp at h
  | cons x d ih =>
    obtain ⟨k, v⟩ := x
    simp only [List.map_cons, List.nodup_cons, List.mem_map, not_exists, not_and] at hnd
    rcases List.mem_cons.1 h with h | h
    · cases h; simp [Dir.get]
    · have hk : k ≠ n := fun hkn => hnd.1 (n, f) h hkn.symm
      simp only [Dir.get, hk, if_false]
      exact ih hnd.2 h

theorem DirIs.get_none {d L : List (FName × File)} (h : DirIs d L) (n : FName)
    (hn : ∀ e ∈ L, e.1 ≠ n) : Dir.get d n = none :=
  get_eq_none_of_not_mem d n (fun e he => hn e (h.1.subset he))

theorem DirIs.get_some {d L : List (FName × File)} (h : DirIs d L) (n : FName) (f : File)
    (hn : (n, f) ∈ L) : Dir.get d n = some f :=
  get_eq_some_of_mem d n f h.nodup (h.1.symm.subset hn)

theorem DirIs.get_not_plainRot {d L : List (FName × File)} (h : DirIs d L) (n : FName)
    (hn : ¬ PlainRot n) : Dir.get d n = none :=
  h.get_none n (fun e he heq => hn (heq ▸ h.2.2 e.1 (List.mem_map.2 ⟨e, he, rfl⟩)))

theorem parts_eq {d L : List (FName × File)} (h : DirIs d L) :
    parts d = L.map (·.2.data) := by
  have h1 : Dir.get d ⟨some .cur, false⟩ = none :=
    h.get_not_plainRot _ (by rintro ⟨i, hi, hr⟩; cases hi; simp [Infix.rotated] at hr)
  have h2 : Dir.get d ⟨none, false⟩ = none :=
    h.get_not_plainRot _ (by rintro ⟨i, hi, hr⟩; cases hi)
  simp [parts, rotatedAsc_eq h, extAsc_eq_nil h, h1, h2]

/-! ### changing a described directory -/

/-- a name whose key is above all keys is new -/
theorem ne_of_keyLt {L : List (FName × File)} {n : FName}
    (hk : ∀ e ∈ L, keyLt (nkey e.1) (nkey n) = true) : ∀ e ∈ L, e.1 ≠ n := by
  intro e he heq
  have := hk e he
  rw [heq, keyLt_irrefl] at this
  cases this

theorem erase_eq_self (d : List (FName × File)) (n : FName) (h : ∀ e ∈ d, e.1 ≠ n) :
    Dir.erase d n = d := by
  show List.filter (fun e : FName × File => decide (e.1 ≠ n)) d = d
  rw [List.filter_eq_self]
  intro e he
  simpa using h e he

/-- creating a file whose key is above all keys: it becomes the last one -/
theorem DirIs.set_new {d L : List (FName × File)} (h : DirIs d L) (n : FName) (v : File)
    (hn : PlainRot n) (hk : ∀ e ∈ L, keyLt (nkey e.1) (nkey n) = true) :
    DirIs (Dir.set d n v) (L ++ [(n, v)]) := by
  have hne := ne_of_keyLt hk
  constructor
  · unfold Dir.set
    rw [erase_eq_self d n (fun e he => hne e (h.1.subset he))]
    exact (List.Perm.cons _ h.1).trans (List.perm_append_singleton _ _).symm
  · constructor
    · simp only [List.map_append, List.map_cons, List.map_nil, List.pairwise_append,
        List.pairwise_cons, List.mem_map, List.mem_singleton]
      refine ⟨h.2.1, ⟨by simp, List.Pairwise.nil⟩, ?_⟩
      rintro a ⟨e, he, rfl⟩ b rfl
      exact hk e he
    · intro m hm
      simp only [List.map_append, List.map_cons, List.map_nil, List.mem_append, List.mem_map,
        List.mem_singleton] at hm
      rcases hm with ⟨e, he, rfl⟩ | rfl
      · exact h.2.2 e.1 (List.mem_map.2 ⟨e, he, rfl⟩)
      · exact hn

/-- replacing the content of an existing file -/
theorem DirIs.set_old {d : List (FName × File)} {L1 L2 : List (FName × File)} {n : FName}
    {f : File} (h : DirIs d (L1 ++ (n, f) :: L2)) (v : File) :
    DirIs (Dir.set d n v) (L1 ++ (n, v) :: L2) := by
  have hnd := h.2.nodup
  simp only [List.map_append, List.map_cons, List.nodup_append, List.nodup_cons, List.mem_map,
    List.mem_cons] at hnd
  constructor
  · unfold Dir.set Dir.erase
    refine List.Perm.trans (List.Perm.cons _ ((h.1.filter _).trans ?_)) List.perm_middle.symm
    have e1 : List.filter (fun e : FName × File => decide (e.1 ≠ n)) L1 = L1 := by
      rw [List.filter_eq_self]
      intro e he
      have := hnd.2.2 e.1 ⟨e, he, rfl⟩ n (Or.inl rfl)
      simpa using this
    have e2 : List.filter (fun e : FName × File => decide (e.1 ≠ n)) L2 = L2 := by
      rw [List.filter_eq_self]
      intro e he
      have : ¬ n = e.1 := fun hh => hnd.2.1.1 ⟨e, he, hh.symm⟩
      simpa using fun hh => this hh.symm
    rw [List.filter_append, List.filter_cons_of_neg (by simp), e1, e2]
  · have : (L1 ++ (n, v) :: L2).map (·.1) = (L1 ++ (n, f) :: L2).map (·.1) := by simp
    rw [this]; exact h.2

/-- appending to an existing file -/
theorem DirIs.append {d : List (FName × File)} {L1 L2 : List (FName × File)} {n : FName}
    {f : File} (h : DirIs d (L1 ++ (n, f) :: L2)) (b : List Nat) :
    DirIs (Dir.append d n b) (L1 ++ (n, { f with data := f.data ++ b }) :: L2) := by
  unfold Dir.append
  rw [h.get_some n f (by simp)]
  exact h.set_old _

/-! ### `mountNext`: the initial flush, then the rotation proper -/

/-- when a rotation is due, `mountNext` flushes the `BufWriter` into the file that is rotated out
    and then runs the rotation proper -/
theorem mountNext_due (s : St) (a : Active) (r : RotCfg) (force : Bool) (now : Nat) (fl : Faults)
    (h : (force || rotationNecessary r a now) = true) :
    mountNext s a r force now fl =
      mountNextCore (flushAct s a).1 (flushAct s a).2 r true now fl := by
  simp [mountNext, h]

end FV.FlwB
